(* Property C16, continued (see ParseLemmas.v for parts 1-4).

   PART 5  array transaction fields: print / parse round trip of  txna, gtxna, gtxnsa, itxna, gitxna  (index as
           immediate) and  txnas, gtxnas, gtxnsas, itxnas, gitxnas, itxn_field  (index from the stack), also
           txn / gtxn / gtxns / itxn / gitxn with an array field -- over ALL entries of the regenerated table
           tx_array_fields and all indices
   PART 6  tokenizer on lines containing quoted strings
   PART 7  byte literals: byte / pushbytes / bytecblock / pushbytess / method
   PART 8  unknown opcodes
   PART 9  named integer constants *)
From Coq Require Import String List NArith ZArith Bool Ascii Lia Arith.
From Tealer Require Import Tables Syntax Parse Keys Domains ParseLemmas RewriteLemmas.
Import ListNotations.
Open Scope string_scope.

(* ====================================================================== *)
(* PART 5 : array transaction fields                                        *)
(* ====================================================================== *)

(* [faf_check txt cls l]: scanning l in order, the entry for txt is reached before any entry that could capture
   txt ++ rest (an entry whose text is a prefix of txt or extends txt), and it names class cls *)
Fixpoint faf_check (txt cls : string) (l : list (string * (string * N))) : bool :=
  match l with
  | [] => false
  | (k, (c, _)) :: t =>
      if k =? txt then c =? cls
      else negb (String.prefix k txt) && negb (String.prefix txt k) && faf_check txt cls t
  end.

Lemma find_array_field_app : forall txt cls l rest,
  faf_check txt cls l = true -> find_array_field (txt ++ rest) l = Some (txt, cls).
Proof.
  intros txt cls l rest. induction l as [|[k [c v]] t IH]; intros H; [discriminate|].
  cbn [faf_check] in H. cbn [find_array_field]. destruct (k =? txt) eqn:Ek.
  - apply String.eqb_eq in Ek. subst k. apply String.eqb_eq in H. subst c.
    unfold starts_with. rewrite prefix_app. reflexivity.
  - apply andb_true_iff in H. destruct H as [H H3]. apply andb_true_iff in H. destruct H as [H1 H2].
    apply negb_true_iff in H1. apply negb_true_iff in H2.
    assert (E : starts_with k (txt ++ rest) = false).
    { unfold starts_with. destruct (String.prefix k (txt ++ rest)) eqn:E; [|reflexivity].
      apply prefix_app_cases in E. destruct E; congruence. }
    rewrite E. apply IH. exact H3.
Qed.

(* an array field class name: one word, and looked up as itself whatever follows it *)
Definition arr_field_ok (c : string) : bool := word_ok c && faf_check c c tx_array_fields.
Lemma arr_fields_ok : forallb (fun e => arr_field_ok (fst (snd e))) tx_array_fields = true.
Proof. vm_compute. reflexivity. Qed.
Lemma arr_field_in_ok : forall txt cls v, In (txt, (cls, v)) tx_array_fields -> arr_field_ok cls = true.
Proof. intros txt cls v H. pose proof arr_fields_ok as Hc. rewrite forallb_forall in Hc. apply (Hc _ H). Qed.
Lemma arr_field_ok_elim : forall c, arr_field_ok c = true ->
  word_ok c = true /\ forall rest, find_array_field (c ++ rest) tx_array_fields = Some (c, c).
Proof.
  intros c H. unfold arr_field_ok in H. apply andb_true_iff in H. destruct H as [H1 H2].
  split; [exact H1|]. intros rest. apply find_array_field_app. exact H2.
Qed.

(* text and class name coincide in the generated table (the printer prints the class name, the parser looks the
   text up) *)
Theorem arr_field_txt_is_cls : forall txt cls v, In (txt, (cls, v)) tx_array_fields -> txt = cls.
Proof.
  assert (H : forallb (fun e => fst e =? fst (snd e)) tx_array_fields = true) by (vm_compute; reflexivity).
  intros txt cls v Hin. rewrite forallb_forall in H. specialize (H _ Hin). cbn [fst snd] in H.
  apply String.eqb_eq. exact H.
Qed.

Lemma slength_drop_app1 : forall c r, drop (String.length c + 1) (c ++ " " ++ r) = r.
Proof.
  intros c r. replace (String.length c + 1) with (String.length (c ++ " ")).
  - rewrite <- sapp_assoc. apply drop_app.
  - rewrite slength_app. reflexivity.
Qed.

(* index given as an immediate, in any spelling w of the number n *)
Lemma parse_tx_field_arr_w : forall c w n, arr_field_ok c = true -> parse_int w = Ok n ->
  parse_tx_field (c ++ " " ++ w) false = Ok (c, Some (Z.of_N n)).
Proof.
  intros c w n H Hp. apply arr_field_ok_elim in H. destruct H as [_ Hf].
  unfold parse_tx_field. rewrite Hf. rewrite slength_drop_app1, Hp. reflexivity.
Qed.
(* index taken from the stack *)
Lemma parse_tx_field_arr_stack : forall c, arr_field_ok c = true ->
  parse_tx_field c true = Ok (c, Some (-1)%Z).
Proof.
  intros c H. apply arr_field_ok_elim in H. destruct H as [_ Hf].
  unfold parse_tx_field. specialize (Hf ""). rewrite sapp_nil_r in Hf. rewrite Hf. reflexivity.
Qed.

Lemma string_of_Z_of_N : forall n, string_of_Z (Z.of_N n) = string_of_N n.
Proof. intros [|p]; reflexivity. Qed.
Lemma str_of_field_idx : forall c n, str_of_field (c, Some (Z.of_N n)) = c ++ " " ++ string_of_N n.
Proof.
  intros c n. unfold str_of_field.
  assert (E : (Z.of_N n <? 0)%Z = false) by (apply Z.ltb_ge; apply N2Z.is_nonneg).
  rewrite E, string_of_Z_of_N. reflexivity.
Qed.
Lemma str_of_field_stack : forall c, str_of_field (c, Some (-1)%Z) = c.
Proof. reflexivity. Qed.

Lemma fix_params_field : forall c f, fix_params c [PField f] = [PField f].
Proof. intros c f. unfold fix_params. destruct (label_strip c); reflexivity. Qed.
Lemma fix_params_int_field : forall c n f, fix_params c [PInt n; PField f] = [PInt n; PField f].
Proof. intros c n f. unfold fix_params. destruct (label_strip c); reflexivity. Qed.

Lemma word_ok_pair : forall a b, word_ok a = true -> word_ok b = true -> forallb word_ok [a; b] = true.
Proof. intros a b Ha Hb. simpl. rewrite Ha, Hb. reflexivity. Qed.
Lemma word_ok_triple : forall a b c, word_ok a = true -> word_ok b = true -> word_ok c = true ->
  forallb word_ok [a; b; c] = true.
Proof. intros a b c Ha Hb Hc. simpl. rewrite Ha, Hb, Hc. reflexivity. Qed.
Lemma word_no_space : forall w, word_ok w = true -> no_space w = true.
Proof. intros w H. apply word_ok_elim in H. tauto. Qed.

(* as ParseLemmas.str_instr, but fields are left folded *)
Ltac str_instr2 :=
  unfold str_of_instr; cbn [cls_of params_of];
  match goal with |- context [lookup_class ?c] =>
    let v := eval vm_compute in (lookup_class c) in
    replace (lookup_class c) with v by (vm_compute; reflexivity) end;
  cbn [c_str str_pieces map str_piece nth_error str_of_param str_of_intarg String.concat String.append].

(* --- shape STxField:  <op> F n      (w: any spelling of the index n) *)
Ltac p_field_imm kw key cls c w H Hw Hp :=
  let Hc := fresh "Hc" in
  pose proof H as Hc; apply arr_field_ok_elim in Hc; destruct Hc as [Hc _];
  match goal with |- parse_line ?l = _ => change l with (key ++ join " " [c; w]) end;
  rewrite (parse_line_rule_words [kw] key cls STxField [c; w]);
  [ change (join " " [c; w]) with (c ++ " " ++ w); cbn [parse_imm parse_shape];
    rewrite (parse_tx_field_arr_w c w _ H Hp); cbn [bind]; rewrite fix_params_field; reflexivity
  | discriminate | vmr | vmr | vmr | vmr | vmr | discriminate
  | apply word_ok_pair; [exact Hc|exact Hw] ].

Theorem parse_txna_gen : forall c w n, arr_field_ok c = true -> word_ok w = true -> parse_int w = Ok n ->
  parse_line ("txna " ++ c ++ " " ++ w) = Ok (Some (IOther "Txna" [PField (c, Some (Z.of_N n))])).
Proof. intros c w n H Hw Hp. p_field_imm "txna" "txna " "Txna" c w H Hw Hp. Qed.
Theorem parse_gtxnsa_gen : forall c w n, arr_field_ok c = true -> word_ok w = true -> parse_int w = Ok n ->
  parse_line ("gtxnsa " ++ c ++ " " ++ w) = Ok (Some (IOther "Gtxnsa" [PField (c, Some (Z.of_N n))])).
Proof. intros c w n H Hw Hp. p_field_imm "gtxnsa" "gtxnsa " "Gtxnsa" c w H Hw Hp. Qed.
Theorem parse_itxna_gen : forall c w n, arr_field_ok c = true -> word_ok w = true -> parse_int w = Ok n ->
  parse_line ("itxna " ++ c ++ " " ++ w) = Ok (Some (IOther "Itxna" [PField (c, Some (Z.of_N n))])).
Proof. intros c w n H Hw Hp. p_field_imm "itxna" "itxna " "Itxna" c w H Hw Hp. Qed.
(* txn / gtxns / itxn accept an array field with its index too *)
Theorem parse_txn_array_gen : forall c w n, arr_field_ok c = true -> word_ok w = true -> parse_int w = Ok n ->
  parse_line ("txn " ++ c ++ " " ++ w) = Ok (Some (ITxn (c, Some (Z.of_N n)))).
Proof. intros c w n H Hw Hp. p_field_imm "txn" "txn " "Txn" c w H Hw Hp. Qed.
Theorem parse_gtxns_array_gen : forall c w n, arr_field_ok c = true -> word_ok w = true -> parse_int w = Ok n ->
  parse_line ("gtxns " ++ c ++ " " ++ w) = Ok (Some (IGtxns (c, Some (Z.of_N n)))).
Proof. intros c w n H Hw Hp. p_field_imm "gtxns" "gtxns " "Gtxns" c w H Hw Hp. Qed.
Theorem parse_itxn_array_gen : forall c w n, arr_field_ok c = true -> word_ok w = true -> parse_int w = Ok n ->
  parse_line ("itxn " ++ c ++ " " ++ w) = Ok (Some (IOther "Itxn" [PField (c, Some (Z.of_N n))])).
Proof. intros c w n H Hw Hp. p_field_imm "itxn" "itxn " "Itxn" c w H Hw Hp. Qed.

Ltac rt_via thm H n :=
  str_instr2; rewrite ?str_of_field_idx, ?str_of_field_stack;
  first [ exact (thm _ _ n H (word_ok_string_of_N n) (parse_int_decimal n)) ].

Theorem roundtrip_txna_gen : forall c n, arr_field_ok c = true ->
  parse_line (str_of_instr (IOther "Txna" [PField (c, Some (Z.of_N n))])) =
  Ok (Some (IOther "Txna" [PField (c, Some (Z.of_N n))])).
Proof. intros c n H. rt_via parse_txna_gen H n. Qed.
Theorem roundtrip_gtxnsa_gen : forall c n, arr_field_ok c = true ->
  parse_line (str_of_instr (IOther "Gtxnsa" [PField (c, Some (Z.of_N n))])) =
  Ok (Some (IOther "Gtxnsa" [PField (c, Some (Z.of_N n))])).
Proof. intros c n H. rt_via parse_gtxnsa_gen H n. Qed.
Theorem roundtrip_itxna_gen : forall c n, arr_field_ok c = true ->
  parse_line (str_of_instr (IOther "Itxna" [PField (c, Some (Z.of_N n))])) =
  Ok (Some (IOther "Itxna" [PField (c, Some (Z.of_N n))])).
Proof. intros c n H. rt_via parse_itxna_gen H n. Qed.
Theorem roundtrip_txn_array_gen : forall c n, arr_field_ok c = true ->
  parse_line (str_of_instr (ITxn (c, Some (Z.of_N n)))) = Ok (Some (ITxn (c, Some (Z.of_N n)))).
Proof. intros c n H. rt_via parse_txn_array_gen H n. Qed.
Theorem roundtrip_gtxns_array_gen : forall c n, arr_field_ok c = true ->
  parse_line (str_of_instr (IGtxns (c, Some (Z.of_N n)))) = Ok (Some (IGtxns (c, Some (Z.of_N n)))).
Proof. intros c n H. rt_via parse_gtxns_array_gen H n. Qed.
Theorem roundtrip_itxn_array_gen : forall c n, arr_field_ok c = true ->
  parse_line (str_of_instr (IOther "Itxn" [PField (c, Some (Z.of_N n))])) =
  Ok (Some (IOther "Itxn" [PField (c, Some (Z.of_N n))])).
Proof. intros c n H. rt_via parse_itxn_array_gen H n. Qed.

(* --- shape SGtxn:  <op> i F n      (wi, w: any spellings of the group index i and the array index n) *)
Lemma parse_shape_gtxn_arr : forall wi i c w n, arr_field_ok c = true ->
  word_ok wi = true -> parse_int wi = Ok i -> word_ok w = true -> parse_int w = Ok n ->
  parse_shape SGtxn (wi ++ " " ++ c ++ " " ++ w) = Ok [PInt i; PField (c, Some (Z.of_N n))].
Proof.
  intros wi i c w n H Hwi Hpi Hw Hp. pose proof H as Hc. apply arr_field_ok_elim in Hc. destruct Hc as [Hc _].
  cbn [parse_shape].
  rewrite split_space_word_sp by (apply word_no_space; exact Hwi).
  rewrite split_space_word_sp by (apply word_no_space; exact Hc).
  rewrite split_space_word by (apply word_no_space; exact Hw).
  rewrite Hpi. cbn [bind].
  change (join " " [c; w]) with (c ++ " " ++ w).
  rewrite (parse_tx_field_arr_w c w n H Hp). reflexivity.
Qed.

Ltac p_gtxn_imm kw key cls wi i c w n H Hwi Hpi Hw Hp :=
  let Hc := fresh "Hc" in
  pose proof H as Hc; apply arr_field_ok_elim in Hc; destruct Hc as [Hc _];
  match goal with |- parse_line ?l = _ => change l with (key ++ join " " [wi; c; w]) end;
  rewrite (parse_line_rule_words [kw] key cls SGtxn [wi; c; w]);
  [ change (join " " [wi; c; w]) with (wi ++ " " ++ c ++ " " ++ w);
    cbn [parse_imm]; rewrite (parse_shape_gtxn_arr wi i c w n H Hwi Hpi Hw Hp); cbn [bind]; rewrite fix_params_int_field; reflexivity
  | discriminate | vmr | vmr | vmr | vmr | vmr | discriminate
  | apply word_ok_triple; [exact Hwi|exact Hc|exact Hw] ].

Theorem parse_gtxna_gen : forall wi i c w n, arr_field_ok c = true ->
  word_ok wi = true -> parse_int wi = Ok i -> word_ok w = true -> parse_int w = Ok n ->
  parse_line ("gtxna " ++ wi ++ " " ++ c ++ " " ++ w) = Ok (Some (IOther "Gtxna" [PInt i; PField (c, Some (Z.of_N n))])).
Proof. intros wi i c w n H Hwi Hpi Hw Hp. p_gtxn_imm "gtxna" "gtxna " "Gtxna" wi i c w n H Hwi Hpi Hw Hp. Qed.
Theorem parse_gitxna_gen : forall wi i c w n, arr_field_ok c = true ->
  word_ok wi = true -> parse_int wi = Ok i -> word_ok w = true -> parse_int w = Ok n ->
  parse_line ("gitxna " ++ wi ++ " " ++ c ++ " " ++ w) = Ok (Some (IOther "Gitxna" [PInt i; PField (c, Some (Z.of_N n))])).
Proof. intros wi i c w n H Hwi Hpi Hw Hp. p_gtxn_imm "gitxna" "gitxna " "Gitxna" wi i c w n H Hwi Hpi Hw Hp. Qed.
Theorem parse_gtxn_array_gen : forall wi i c w n, arr_field_ok c = true ->
  word_ok wi = true -> parse_int wi = Ok i -> word_ok w = true -> parse_int w = Ok n ->
  parse_line ("gtxn " ++ wi ++ " " ++ c ++ " " ++ w) = Ok (Some (IGtxn i (c, Some (Z.of_N n)))).
Proof. intros wi i c w n H Hwi Hpi Hw Hp. p_gtxn_imm "gtxn" "gtxn " "Gtxn" wi i c w n H Hwi Hpi Hw Hp. Qed.
Theorem parse_gitxn_array_gen : forall wi i c w n, arr_field_ok c = true ->
  word_ok wi = true -> parse_int wi = Ok i -> word_ok w = true -> parse_int w = Ok n ->
  parse_line ("gitxn " ++ wi ++ " " ++ c ++ " " ++ w) = Ok (Some (IOther "Gitxn" [PInt i; PField (c, Some (Z.of_N n))])).
Proof. intros wi i c w n H Hwi Hpi Hw Hp. p_gtxn_imm "gitxn" "gitxn " "Gitxn" wi i c w n H Hwi Hpi Hw Hp. Qed.

Ltac rt_via2 thm H i n :=
  str_instr2; rewrite ?str_of_field_idx, ?str_of_field_stack;
  exact (thm _ i _ _ n H (word_ok_string_of_N i) (parse_int_decimal i) (word_ok_string_of_N n) (parse_int_decimal n)).

Theorem roundtrip_gtxna_gen : forall i c n, arr_field_ok c = true ->
  parse_line (str_of_instr (IOther "Gtxna" [PInt i; PField (c, Some (Z.of_N n))])) =
  Ok (Some (IOther "Gtxna" [PInt i; PField (c, Some (Z.of_N n))])).
Proof. intros i c n H. rt_via2 parse_gtxna_gen H i n. Qed.
Theorem roundtrip_gitxna_gen : forall i c n, arr_field_ok c = true ->
  parse_line (str_of_instr (IOther "Gitxna" [PInt i; PField (c, Some (Z.of_N n))])) =
  Ok (Some (IOther "Gitxna" [PInt i; PField (c, Some (Z.of_N n))])).
Proof. intros i c n H. rt_via2 parse_gitxna_gen H i n. Qed.
Theorem roundtrip_gtxn_array_gen : forall i c n, arr_field_ok c = true ->
  parse_line (str_of_instr (IGtxn i (c, Some (Z.of_N n)))) = Ok (Some (IGtxn i (c, Some (Z.of_N n)))).
Proof. intros i c n H. rt_via2 parse_gtxn_array_gen H i n. Qed.
Theorem roundtrip_gitxn_array_gen : forall i c n, arr_field_ok c = true ->
  parse_line (str_of_instr (IOther "Gitxn" [PInt i; PField (c, Some (Z.of_N n))])) =
  Ok (Some (IOther "Gitxn" [PInt i; PField (c, Some (Z.of_N n))])).
Proof. intros i c n H. rt_via2 parse_gitxn_array_gen H i n. Qed.

(* --- shape STxFieldStack:  <op> F   (index on the stack, stored as -1) *)
Ltac rt_field_stack kw key cls c H :=
  let Hw := fresh "Hw" in
  pose proof H as Hw; apply arr_field_ok_elim in Hw; destruct Hw as [Hw _];
  str_instr2; rewrite str_of_field_stack;
  match goal with |- parse_line ?l = _ => change l with (key ++ join " " [c]) end;
  rewrite (parse_line_rule_words [kw] key cls STxFieldStack [c]);
  [ cbn [join parse_imm parse_shape]; rewrite (parse_tx_field_arr_stack c H); cbn [bind];
    rewrite fix_params_field; reflexivity
  | discriminate | vmr | vmr | vmr | vmr | vmr | discriminate
  | apply word_ok_single; exact Hw ].

Theorem roundtrip_txnas_gen : forall c, arr_field_ok c = true ->
  parse_line (str_of_instr (IOther "Txnas" [PField (c, Some (-1)%Z)])) =
  Ok (Some (IOther "Txnas" [PField (c, Some (-1)%Z)])).
Proof. intros c H. rt_field_stack "txnas" "txnas " "Txnas" c H. Qed.
Theorem roundtrip_gtxnsas_gen : forall c, arr_field_ok c = true ->
  parse_line (str_of_instr (IOther "Gtxnsas" [PField (c, Some (-1)%Z)])) =
  Ok (Some (IOther "Gtxnsas" [PField (c, Some (-1)%Z)])).
Proof. intros c H. rt_field_stack "gtxnsas" "gtxnsas " "Gtxnsas" c H. Qed.
Theorem roundtrip_itxnas_gen : forall c, arr_field_ok c = true ->
  parse_line (str_of_instr (IOther "Itxnas" [PField (c, Some (-1)%Z)])) =
  Ok (Some (IOther "Itxnas" [PField (c, Some (-1)%Z)])).
Proof. intros c H. rt_field_stack "itxnas" "itxnas " "Itxnas" c H. Qed.
Theorem roundtrip_itxn_field_array_gen : forall c, arr_field_ok c = true ->
  parse_line (str_of_instr (IOther "Itxn_field" [PField (c, Some (-1)%Z)])) =
  Ok (Some (IOther "Itxn_field" [PField (c, Some (-1)%Z)])).
Proof. intros c H. rt_field_stack "itxn_field" "itxn_field " "Itxn_field" c H. Qed.

(* --- shape SGtxnStack:  <op> i F *)
Lemma parse_shape_gtxn_stack_arr : forall wi i c, arr_field_ok c = true ->
  word_ok wi = true -> parse_int wi = Ok i ->
  parse_shape SGtxnStack (wi ++ " " ++ c) = Ok [PInt i; PField (c, Some (-1)%Z)].
Proof.
  intros wi i c H Hwi Hpi. pose proof H as Hw. apply arr_field_ok_elim in Hw. destruct Hw as [Hw _].
  cbn [parse_shape].
  rewrite split_space_word_sp by (apply word_no_space; exact Hwi).
  rewrite split_space_word by (apply word_no_space; exact Hw).
  rewrite Hpi. cbn [bind]. rewrite (parse_tx_field_arr_stack c H). reflexivity.
Qed.

Ltac p_gtxn_stack kw key cls wi i c H Hwi Hpi :=
  let Hw := fresh "Hw" in
  pose proof H as Hw; apply arr_field_ok_elim in Hw; destruct Hw as [Hw _];
  match goal with |- parse_line ?l = _ => change l with (key ++ join " " [wi; c]) end;
  rewrite (parse_line_rule_words [kw] key cls SGtxnStack [wi; c]);
  [ change (join " " [wi; c]) with (wi ++ " " ++ c);
    cbn [parse_imm]; rewrite (parse_shape_gtxn_stack_arr wi i c H Hwi Hpi); cbn [bind]; rewrite fix_params_int_field; reflexivity
  | discriminate | vmr | vmr | vmr | vmr | vmr | discriminate
  | apply word_ok_pair; [exact Hwi|exact Hw] ].

Theorem parse_gtxnas_gen : forall wi i c, arr_field_ok c = true -> word_ok wi = true -> parse_int wi = Ok i ->
  parse_line ("gtxnas " ++ wi ++ " " ++ c) = Ok (Some (IOther "Gtxnas" [PInt i; PField (c, Some (-1)%Z)])).
Proof. intros wi i c H Hwi Hpi. p_gtxn_stack "gtxnas" "gtxnas " "Gtxnas" wi i c H Hwi Hpi. Qed.
Theorem parse_gitxnas_gen : forall wi i c, arr_field_ok c = true -> word_ok wi = true -> parse_int wi = Ok i ->
  parse_line ("gitxnas " ++ wi ++ " " ++ c) = Ok (Some (IOther "Gitxnas" [PInt i; PField (c, Some (-1)%Z)])).
Proof. intros wi i c H Hwi Hpi. p_gtxn_stack "gitxnas" "gitxnas " "Gitxnas" wi i c H Hwi Hpi. Qed.

Theorem roundtrip_gtxnas_gen : forall i c, arr_field_ok c = true ->
  parse_line (str_of_instr (IOther "Gtxnas" [PInt i; PField (c, Some (-1)%Z)])) =
  Ok (Some (IOther "Gtxnas" [PInt i; PField (c, Some (-1)%Z)])).
Proof.
  intros i c H. str_instr2; rewrite str_of_field_stack.
  exact (parse_gtxnas_gen _ i c H (word_ok_string_of_N i) (parse_int_decimal i)).
Qed.
Theorem roundtrip_gitxnas_gen : forall i c, arr_field_ok c = true ->
  parse_line (str_of_instr (IOther "Gitxnas" [PInt i; PField (c, Some (-1)%Z)])) =
  Ok (Some (IOther "Gitxnas" [PInt i; PField (c, Some (-1)%Z)])).
Proof.
  intros i c H. str_instr2; rewrite str_of_field_stack.
  exact (parse_gitxnas_gen _ i c H (word_ok_string_of_N i) (parse_int_decimal i)).
Qed.

(* --- the statements over the regenerated table, in the form of ParseLemmas.roundtrip_txn *)
Section OverTable.
  Variables (txt cls : string) (v : N).
  Hypothesis Hin : In (txt, (cls, v)) tx_array_fields.
  Let Hok : arr_field_ok cls = true := arr_field_in_ok txt cls v Hin.

  Theorem roundtrip_txna : forall n,
    parse_line (str_of_instr (IOther "Txna" [PField (cls, Some (Z.of_N n))])) =
    Ok (Some (IOther "Txna" [PField (cls, Some (Z.of_N n))])).
  Proof. intros; apply roundtrip_txna_gen; exact Hok. Qed.
  Theorem roundtrip_gtxna : forall i n,
    parse_line (str_of_instr (IOther "Gtxna" [PInt i; PField (cls, Some (Z.of_N n))])) =
    Ok (Some (IOther "Gtxna" [PInt i; PField (cls, Some (Z.of_N n))])).
  Proof. intros; apply roundtrip_gtxna_gen; exact Hok. Qed.
  Theorem roundtrip_gtxnsa : forall n,
    parse_line (str_of_instr (IOther "Gtxnsa" [PField (cls, Some (Z.of_N n))])) =
    Ok (Some (IOther "Gtxnsa" [PField (cls, Some (Z.of_N n))])).
  Proof. intros; apply roundtrip_gtxnsa_gen; exact Hok. Qed.
  Theorem roundtrip_itxna : forall n,
    parse_line (str_of_instr (IOther "Itxna" [PField (cls, Some (Z.of_N n))])) =
    Ok (Some (IOther "Itxna" [PField (cls, Some (Z.of_N n))])).
  Proof. intros; apply roundtrip_itxna_gen; exact Hok. Qed.
  Theorem roundtrip_gitxna : forall i n,
    parse_line (str_of_instr (IOther "Gitxna" [PInt i; PField (cls, Some (Z.of_N n))])) =
    Ok (Some (IOther "Gitxna" [PInt i; PField (cls, Some (Z.of_N n))])).
  Proof. intros; apply roundtrip_gitxna_gen; exact Hok. Qed.
  Theorem roundtrip_txnas :
    parse_line (str_of_instr (IOther "Txnas" [PField (cls, Some (-1)%Z)])) =
    Ok (Some (IOther "Txnas" [PField (cls, Some (-1)%Z)])).
  Proof. apply roundtrip_txnas_gen; exact Hok. Qed.
  Theorem roundtrip_gtxnas : forall i,
    parse_line (str_of_instr (IOther "Gtxnas" [PInt i; PField (cls, Some (-1)%Z)])) =
    Ok (Some (IOther "Gtxnas" [PInt i; PField (cls, Some (-1)%Z)])).
  Proof. intros; apply roundtrip_gtxnas_gen; exact Hok. Qed.
  Theorem roundtrip_gtxnsas :
    parse_line (str_of_instr (IOther "Gtxnsas" [PField (cls, Some (-1)%Z)])) =
    Ok (Some (IOther "Gtxnsas" [PField (cls, Some (-1)%Z)])).
  Proof. apply roundtrip_gtxnsas_gen; exact Hok. Qed.
  Theorem roundtrip_itxnas :
    parse_line (str_of_instr (IOther "Itxnas" [PField (cls, Some (-1)%Z)])) =
    Ok (Some (IOther "Itxnas" [PField (cls, Some (-1)%Z)])).
  Proof. apply roundtrip_itxnas_gen; exact Hok. Qed.
  Theorem roundtrip_gitxnas : forall i,
    parse_line (str_of_instr (IOther "Gitxnas" [PInt i; PField (cls, Some (-1)%Z)])) =
    Ok (Some (IOther "Gitxnas" [PInt i; PField (cls, Some (-1)%Z)])).
  Proof. intros; apply roundtrip_gitxnas_gen; exact Hok. Qed.
  Theorem roundtrip_itxn_field_array :
    parse_line (str_of_instr (IOther "Itxn_field" [PField (cls, Some (-1)%Z)])) =
    Ok (Some (IOther "Itxn_field" [PField (cls, Some (-1)%Z)])).
  Proof. apply roundtrip_itxn_field_array_gen; exact Hok. Qed.
  Theorem roundtrip_txn_array : forall n,
    parse_line (str_of_instr (ITxn (cls, Some (Z.of_N n)))) = Ok (Some (ITxn (cls, Some (Z.of_N n)))).
  Proof. intros; apply roundtrip_txn_array_gen; exact Hok. Qed.
  Theorem roundtrip_gtxn_array : forall i n,
    parse_line (str_of_instr (IGtxn i (cls, Some (Z.of_N n)))) = Ok (Some (IGtxn i (cls, Some (Z.of_N n)))).
  Proof. intros; apply roundtrip_gtxn_array_gen; exact Hok. Qed.
  Theorem roundtrip_gtxns_array : forall n,
    parse_line (str_of_instr (IGtxns (cls, Some (Z.of_N n)))) = Ok (Some (IGtxns (cls, Some (Z.of_N n)))).
  Proof. intros; apply roundtrip_gtxns_array_gen; exact Hok. Qed.
  Theorem roundtrip_itxn_array : forall n,
    parse_line (str_of_instr (IOther "Itxn" [PField (cls, Some (Z.of_N n))])) =
    Ok (Some (IOther "Itxn" [PField (cls, Some (Z.of_N n))])).
  Proof. intros; apply roundtrip_itxn_array_gen; exact Hok. Qed.
  Theorem roundtrip_gitxn_array : forall i n,
    parse_line (str_of_instr (IOther "Gitxn" [PInt i; PField (cls, Some (Z.of_N n))])) =
    Ok (Some (IOther "Gitxn" [PInt i; PField (cls, Some (Z.of_N n))])).
  Proof. intros; apply roundtrip_gitxn_array_gen; exact Hok. Qed.
End OverTable.

(* the indices may be written in decimal, hexadecimal or octal: same instruction *)
Theorem array_index_spellings : forall txt cls v i n, In (txt, (cls, v)) tx_array_fields ->
  let x := Ok (Some (IOther "Txna" [PField (cls, Some (Z.of_N n))])) in
  let y := Ok (Some (IOther "Gtxna" [PInt i; PField (cls, Some (Z.of_N n))])) in
  parse_line ("txna " ++ cls ++ " " ++ string_of_N n) = x /\
  parse_line ("txna " ++ cls ++ " " ++ "0x" ++ hex_of_N n) = x /\
  parse_line ("txna " ++ cls ++ " " ++ "0" ++ oct_of_N n) = x /\
  parse_line ("gtxna " ++ string_of_N i ++ " " ++ cls ++ " " ++ string_of_N n) = y /\
  parse_line ("gtxna " ++ ("0x" ++ hex_of_N i) ++ " " ++ cls ++ " " ++ "0" ++ oct_of_N n) = y /\
  parse_line ("gtxna " ++ ("0" ++ oct_of_N i) ++ " " ++ cls ++ " " ++ "0x" ++ hex_of_N n) = y.
Proof.
  intros txt cls v i n Hin x y. pose proof (arr_field_in_ok txt cls v Hin) as Hok. unfold x, y.
  repeat split.
  - apply parse_txna_gen; [exact Hok|apply word_ok_string_of_N|apply parse_int_decimal].
  - apply parse_txna_gen; [exact Hok|apply word_ok_hex|apply parse_int_hex].
  - apply parse_txna_gen; [exact Hok|apply word_ok_oct|apply parse_int_oct].
  - apply parse_gtxna_gen; [exact Hok|apply word_ok_string_of_N|apply parse_int_decimal|apply word_ok_string_of_N|apply parse_int_decimal].
  - apply parse_gtxna_gen; [exact Hok|apply word_ok_hex|apply parse_int_hex|apply word_ok_oct|apply parse_int_oct].
  - apply parse_gtxna_gen; [exact Hok|apply word_ok_oct|apply parse_int_oct|apply word_ok_hex|apply parse_int_hex].
Qed.

(* what the parser does NOT check (the assembler does): the a-forms accept a scalar field, and the plain forms
   accept an array field; an array field without its index is an exception *)
Theorem array_forms_unchecked :
  parse_line "txna Sender" = Ok (Some (IOther "Txna" [PField ("Sender", None)])) /\
  parse_line "txnas Sender" = Ok (Some (IOther "Txnas" [PField ("Sender", None)])) /\
  parse_line "txn Accounts 1" = Ok (Some (ITxn ("Accounts", Some 1%Z))) /\
  parse_line "txna Accounts" = Err "ValueError: int ".
Proof. repeat split; vmr. Qed.

(* ====================================================================== *)
(* PART 6 : tokenizer on lines with quoted strings                          *)
(* ====================================================================== *)
Definition dq : ascii := """"%char.
Definition bsl : ascii := "\"%char.

(* [esc_body esc s]: s is the inside of a string literal, scanned with the escape state esc (= the previous
   character was an unescaped backslash): a backslash escapes the character after it; no UNESCAPED double quote
   occurs in s; and s does not end in the escaped state (so the closing quote is not escaped).
   (a, backslash, backslash) is a body; (a, backslash) is not; (a, backslash, quote, b) is. *)
Fixpoint esc_body (esc : bool) (s : string) : bool :=
  match s with
  | EmptyString => negb esc
  | String c t =>
      if esc then esc_body false t
      else if Ascii.eqb c bsl then esc_body true t
      else negb (Ascii.eqb c dq) && esc_body false t
  end.
Definition quoted (body : string) : string := String dq (body ++ String dq "").
Definition body_ok (body : string) : bool := esc_body false body.

Lemma tok_string_body : forall body fuel cur esc rest,
  esc_body esc body = true ->
  tok_string fuel (body ++ String dq rest) cur esc =
  Some (rev_string (String dq (rev_string_acc body cur)), rest).
Proof.
  induction body as [|c t IH]; intros fuel cur esc rest H.
  - cbn [esc_body] in H. apply negb_true_iff in H. subst esc.
    cbn [String.append tok_string rev_string_acc].
    change (Ascii.eqb dq "\"%char) with false. change (Ascii.eqb dq """"%char) with true. reflexivity.
  - cbn [esc_body] in H. cbn [String.append tok_string rev_string_acc]. fold bsl. fold dq.
    destruct esc.
    + apply IH. exact H.
    + destruct (Ascii.eqb c bsl).
      * apply IH. exact H.
      * apply andb_true_iff in H. destruct H as [H1 H2]. apply negb_true_iff in H1. rewrite H1.
        apply IH. exact H2.
Qed.

Lemma rev_quoted : forall body,
  rev_string (String dq (rev_string_acc body (String dq ""))) = quoted body.
Proof.
  intros body. rewrite rev_acc_app, rev_string_cons, rev_string_app, rev_string_invol. reflexivity.
Qed.

Lemma bind_ok_id : forall (r : res (list string)), (do x <- r; Ok x) = r.
Proof. intros [x|e]; reflexivity. Qed.

(* a quoted string at the start of a token (whatever the previous token) *)
Lemma tokenize_acc_quoted : forall body fuel rest prev, body_ok body = true ->
  tokenize_acc (S fuel) (quoted body ++ rest) "" prev =
  do r <- tokenize_acc fuel rest "" (quoted body); Ok (quoted body :: r).
Proof.
  intros body fuel rest prev H. unfold quoted. cbn [String.append tokenize_acc].
  change (is_space dq) with false. change (Ascii.eqb dq """"%char) with true. cbv iota.
  rewrite sapp_assoc. cbn [String.append].
  rewrite (tok_string_body body fuel (String dq "") false rest H). rewrite rev_quoted. reflexivity.
Qed.

(* a plain piece followed by a blank: the tokens of the piece, then the rest with an empty accumulator; the previous
   token for the rest is the last token of the piece *)
Lemma tokenize_acc_prefix : forall s fuel cur prev rest,
  String.length s < fuel -> plain s = true ->
  tokenize_acc fuel (s ++ String " " rest) cur prev =
  do r <- tokenize_acc (fuel - S (String.length s)) rest "" (List.last (toks (s ++ " ") cur) prev);
  Ok (toks (s ++ " ") cur ++ r)%list.
Proof.
  induction s as [|c t IH]; intros fuel cur prev rest Hf Hp.
  - destruct fuel as [|f]; [simpl in Hf; lia|].
    cbn [String.append String.length]. replace (S f - 1) with f by lia.
    cbn [tokenize_acc toks]. change (is_space " ") with true. cbv iota.
    destruct cur as [|d cur'].
    + cbn [app List.last]. rewrite bind_ok_id. reflexivity.
    + cbv zeta. cbn [List.last]. destruct (tokenize_acc f rest "" _) as [r|e]; reflexivity.
  - destruct fuel as [|f]; [simpl in Hf; lia|]. cbn [String.length] in Hf.
    apply plain_cons in Hp. destruct Hp as [Hq [Hc Hp]].
    assert (Hc' : starts_with "//" (String c t ++ String " " rest) = false).
    { rewrite starts_with_cc_app_space. exact Hc. }
    change (String c t ++ String " " rest) with (String c (t ++ String " " rest)) in *.
    cbn [String.length]. replace (S f - S (S (String.length t))) with (f - S (String.length t)) by lia.
    cbn [tokenize_acc]. change (String c t ++ " ") with (String c (t ++ " ")). cbn [toks].
    destruct (is_space c).
    + destruct cur as [|d cur'].
      * apply IH; [lia|exact Hp].
      * cbv zeta. rewrite IH by (lia || exact Hp). rewrite last_cons_def.
        destruct (tokenize_acc (f - S (String.length t)) rest "" _) as [r|e]; reflexivity.
    + rewrite Hq, Hc'. cbn [andb]. apply IH; [lia|exact Hp].
Qed.

(* tokens: a word (no blank, no double quote, no //) or a quoted string *)
Inductive tok_ok : string -> Prop :=
| tok_word : forall w, word_ok w = true -> tok_ok w
| tok_quoted : forall body, body_ok body = true -> tok_ok (quoted body).

Lemma tok_ok_nonempty : forall t, tok_ok t -> t <> "".
Proof. intros t [w H|body H]; [apply word_ok_elim in H; tauto|discriminate]. Qed.

Lemma tokenize_acc_word_sp : forall w fuel rest prev, word_ok w = true -> String.length w < fuel ->
  tokenize_acc fuel (w ++ String " " rest) "" prev =
  do r <- tokenize_acc (fuel - S (String.length w)) rest "" w; Ok (w :: r).
Proof.
  intros w fuel rest prev H Hf. apply word_ok_elim in H. destruct H as [Hne [Hns Hp]].
  rewrite tokenize_acc_prefix by assumption.
  change (w ++ " ") with (w ++ " " ++ ""). rewrite toks_word_space by assumption. reflexivity.
Qed.
Lemma tokenize_acc_word_end : forall w fuel prev, word_ok w = true -> String.length w < fuel ->
  tokenize_acc fuel w "" prev = Ok [w].
Proof.
  intros w fuel prev H Hf. apply word_ok_elim in H. destruct H as [Hne [Hns Hp]].
  rewrite tokenize_acc_plain by assumption. rewrite toks_single by assumption. reflexivity.
Qed.

Lemma slength_quoted : forall body, String.length (quoted body) = S (S (String.length body)).
Proof. intros. unfold quoted. cbn [String.length]. rewrite slength_app. simpl. lia. Qed.

(* ---------------------------------------------------------------------- base64 data tokens
   After the repair of the tokenizer, "//" does not start a comment inside base64 data: the token after the keywords
   base64 / b64, and a token that starts with base64( or b64(.  Such a token may contain any number of slashes. *)
Fixpoint no_dq (s : string) : bool :=
  match s with EmptyString => true | String c t => negb (Ascii.eqb c dq) && no_dq t end.
Fixpoint no_slash (s : string) : bool :=
  match s with EmptyString => true | String c t => negb (Ascii.eqb c "/"%char) && no_slash t end.

Lemma no_dq_app : forall a b, no_dq (a ++ b) = no_dq a && no_dq b.
Proof. induction a as [|c t IH]; intros b; simpl; [reflexivity|]. rewrite IH. apply andb_assoc. Qed.

(* once the token read so far is base64 data, it stays so *)
Lemma in_b64_grow : forall prev cur c, in_b64 prev cur = true -> in_b64 prev (String c cur) = true.
Proof.
  intros prev cur c H. unfold in_b64 in *. rewrite rev_string_cons.
  apply orb_true_iff in H. destruct H as [H|H]; [|rewrite H; apply orb_true_r].
  apply orb_true_iff in H. unfold starts_with in *.
  destruct H as [H|H]; rewrite (prefix_app_l _ _ _ H); [reflexivity|rewrite orb_true_r; reflexivity].
Qed.

Lemma starts_with_not_slash : forall c x, Ascii.eqb c "/"%char = false -> starts_with "//" (String c x) = false.
Proof.
  intros c x H. unfold starts_with. cbn [String.prefix]. destruct (ascii_dec "/" c) as [e|_]; [|reflexivity].
  subst c. discriminate H.
Qed.

(* scanning the characters of a word (no blank, no double quote) that either has no slash or is base64 data *)
Lemma tokenize_acc_scan : forall w fuel cur prev rest,
  no_space w = true -> no_dq w = true -> (no_slash w = true \/ in_b64 prev cur = true) ->
  String.length w <= fuel ->
  tokenize_acc fuel (w ++ rest) cur prev = tokenize_acc (fuel - String.length w) rest (rev_string_acc w cur) prev.
Proof.
  induction w as [|c t IH]; intros fuel cur prev rest Hs Hq Hd Hf.
  - cbn [String.append String.length rev_string_acc]. rewrite Nat.sub_0_r. reflexivity.
  - destruct fuel as [|f]; [simpl in Hf; lia|]. cbn [String.length] in *.
    cbn [no_space] in Hs. apply andb_true_iff in Hs. destruct Hs as [Hs1 Hs2]. apply negb_true_iff in Hs1.
    cbn [no_dq] in Hq. apply andb_true_iff in Hq. destruct Hq as [Hq1 Hq2]. apply negb_true_iff in Hq1.
    cbn [String.append tokenize_acc rev_string_acc]. rewrite Hs1. fold dq. rewrite Hq1.
    replace (S f - S (String.length t)) with (f - String.length t) by lia.
    destruct Hd as [Hd|Hd].
    + cbn [no_slash] in Hd. apply andb_true_iff in Hd. destruct Hd as [Hd1 Hd2]. apply negb_true_iff in Hd1.
      rewrite (starts_with_not_slash c _ Hd1). cbn [andb]. apply IH; [assumption|assumption|left; exact Hd2|lia].
    + rewrite Hd. cbn [negb]. rewrite andb_false_r. apply IH; [assumption|assumption|right; apply in_b64_grow; exact Hd|lia].
Qed.

(* [pre ++ X] is a token of base64 data after the token [prev]: pre = "" after the keywords base64 / b64, or
   pre = "base64(" / "b64(" ; X is arbitrary (no blank, no double quote) and may contain "//" *)
Definition b64_word (prev pre X : string) : Prop :=
  no_space (pre ++ X) = true /\ no_dq (pre ++ X) = true /\ pre ++ X <> "" /\
  no_slash pre = true /\ in_b64 prev (rev_string pre) = true.
Definition data_ok (w : string) : bool := negb (w =? "") && no_space w && no_dq w.

Lemma b64_word_data : forall prev w, is_b64_kw prev = true -> data_ok w = true -> b64_word prev "" w.
Proof.
  intros prev w Hk H. unfold data_ok in H. apply andb_true_iff in H. destruct H as [H H3].
  apply andb_true_iff in H. destruct H as [H1 H2]. apply negb_true_iff in H1. apply String.eqb_neq in H1.
  unfold b64_word. cbn [String.append]. repeat split; try assumption.
Qed.
Lemma b64_word_paren : forall prev kw X, kw = "base64(" \/ kw = "b64(" -> no_space X = true -> no_dq X = true ->
  b64_word prev kw X.
Proof.
  intros prev kw X Hk Hs Hq. unfold b64_word. rewrite no_space_app, no_dq_app, Hs, Hq.
  destruct Hk as [-> | ->]; repeat split; try reflexivity; discriminate.
Qed.
(* a word without // is in particular base64 data *)
Lemma data_ok_of_word : forall w, word_ok w = true -> data_ok w = true.
Proof.
  intros w H. apply word_ok_elim in H. destruct H as [Hne [Hs Hp]]. unfold data_ok. rewrite Hs.
  apply String.eqb_neq in Hne. rewrite Hne. cbn [negb andb].
  clear Hne Hs. induction w as [|c t IH]; [reflexivity|]. apply plain_cons in Hp. destruct Hp as [Hq [_ Hp]].
  cbn [no_dq]. fold dq in Hq. rewrite Hq, (IH Hp). reflexivity.
Qed.

Lemma b64_word_scan : forall prev pre X fuel rest, b64_word prev pre X -> String.length (pre ++ X) <= fuel ->
  tokenize_acc fuel ((pre ++ X) ++ rest) "" prev =
  tokenize_acc (fuel - String.length (pre ++ X)) rest (rev_string (pre ++ X)) prev.
Proof.
  intros prev pre X fuel rest [Hs [Hq [_ [Hd Hin]]]] Hf.
  rewrite no_space_app in Hs. apply andb_true_iff in Hs. destruct Hs as [Hs1 Hs2].
  rewrite no_dq_app in Hq. apply andb_true_iff in Hq. destruct Hq as [Hq1 Hq2].
  rewrite slength_app in *. rewrite sapp_assoc.
  rewrite tokenize_acc_scan; [|assumption|assumption|left; exact Hd|lia].
  rewrite tokenize_acc_scan; [|assumption|assumption|right; exact Hin|lia].
  rewrite rev_string_app. rewrite (rev_acc_app X). unfold rev_string at 3.
  replace (fuel - String.length pre - String.length X) with (fuel - (String.length pre + String.length X)) by lia.
  reflexivity.
Qed.

Lemma b64_word_strip : forall prev pre X, b64_word prev pre X ->
  rev_string (pre ++ X) <> "" /\ strip (rev_string (rev_string (pre ++ X))) = pre ++ X.
Proof.
  intros prev pre X [Hs [_ [Hne _]]]. split.
  - intros E. apply rev_string_nil_inv in E. contradiction.
  - rewrite rev_string_invol. apply strip_no_space. exact Hs.
Qed.

Lemma tokenize_acc_b64_sp : forall prev pre X fuel rest, b64_word prev pre X -> String.length (pre ++ X) < fuel ->
  tokenize_acc fuel ((pre ++ X) ++ String " " rest) "" prev =
  do r <- tokenize_acc (fuel - S (String.length (pre ++ X))) rest "" (pre ++ X); Ok ((pre ++ X) :: r).
Proof.
  intros prev pre X fuel rest H Hf. rewrite b64_word_scan by (assumption || lia).
  destruct (b64_word_strip prev pre X H) as [Hne Hst].
  destruct (fuel - String.length (pre ++ X)) as [|k] eqn:Ek; [lia|].
  replace (fuel - S (String.length (pre ++ X))) with k by lia.
  cbn [tokenize_acc]. change (is_space " ") with true. cbv iota.
  destruct (rev_string (pre ++ X)) as [|d cur'] eqn:Ec; [congruence|]. cbv zeta. rewrite Hst. reflexivity.
Qed.
Lemma tokenize_acc_b64_end : forall prev pre X fuel, b64_word prev pre X -> String.length (pre ++ X) < fuel ->
  tokenize_acc fuel (pre ++ X) "" prev = Ok [pre ++ X].
Proof.
  intros prev pre X fuel H Hf. rewrite <- (sapp_nil_r (pre ++ X)) at 1. rewrite b64_word_scan by (assumption || lia).
  destruct (b64_word_strip prev pre X H) as [Hne Hst].
  destruct (fuel - String.length (pre ++ X)) as [|k] eqn:Ek; [lia|].
  cbn [tokenize_acc].
  destruct (rev_string (pre ++ X)) as [|d cur'] eqn:Ec; [congruence|]. rewrite Hst. reflexivity.
Qed.

(* token lists: each token is a word / a quoted string, or base64 data in its context (the token before it) *)
Inductive tok_ok_after (prev : string) : string -> Prop :=
| tka_tok : forall t, tok_ok t -> tok_ok_after prev t
| tka_b64 : forall pre X, b64_word prev pre X -> tok_ok_after prev (pre ++ X).
Inductive toks_ok_from : string -> list string -> Prop :=
| tof_nil : forall prev, toks_ok_from prev []
| tof_cons : forall prev t ts, tok_ok_after prev t -> toks_ok_from t ts -> toks_ok_from prev (t :: ts).
Definition toks_ok (ts : list string) : Prop := toks_ok_from "" ts.

Lemma toks_ok_from_tok : forall ts prev, Forall tok_ok ts -> toks_ok_from prev ts.
Proof.
  induction ts as [|t ts IH]; intros prev H; [constructor|]. inversion H; subst.
  constructor; [apply tka_tok; assumption|apply IH; assumption].
Qed.

Lemma tokenize_acc_join_from : forall ts prev fuel, toks_ok_from prev ts -> String.length (join " " ts) < fuel ->
  tokenize_acc fuel (join " " ts) "" prev = Ok ts.
Proof.
  induction ts as [|x t IH]; intros prev fuel Hall Hf.
  - destruct fuel; [simpl in Hf; lia|]. reflexivity.
  - inversion Hall as [|? ? ? Hx Ht]; subst. destruct t as [|y t'].
    + cbn [join] in *. destruct Hx as [x [w Hw|body Hb]|pre X Hb].
      * apply tokenize_acc_word_end; assumption.
      * destruct fuel as [|f]; [simpl in Hf; lia|].
        replace (tokenize_acc (S f) (quoted body) "" prev) with (tokenize_acc (S f) (quoted body ++ "") "" prev)
          by (rewrite sapp_nil_r; reflexivity).
        rewrite tokenize_acc_quoted by exact Hb.
        rewrite slength_quoted in Hf. destruct f as [|f']; [lia|]. reflexivity.
      * apply tokenize_acc_b64_end; assumption.
    + change (join " " (x :: y :: t')) with (x ++ String " " (join " " (y :: t'))) in *.
      rewrite slength_app in Hf. cbn [String.length] in Hf.
      destruct Hx as [x [w Hw|body Hb]|pre X Hb].
      * rewrite tokenize_acc_word_sp by (assumption || lia).
        rewrite IH by (assumption || lia). reflexivity.
      * destruct fuel as [|f]; [lia|]. rewrite tokenize_acc_quoted by exact Hb.
        rewrite slength_quoted in Hf. destruct f as [|f']; [lia|].
        cbn [tokenize_acc]. change (is_space " ") with true. cbv iota.
        rewrite IH by (assumption || lia). reflexivity.
      * rewrite tokenize_acc_b64_sp by (assumption || lia).
        rewrite IH by (assumption || lia). reflexivity.
Qed.

Lemma tokenize_acc_join : forall ts fuel, Forall tok_ok ts -> String.length (join " " ts) < fuel ->
  tokenize_acc fuel (join " " ts) "" "" = Ok ts.
Proof. intros ts fuel H Hf. apply tokenize_acc_join_from; [apply toks_ok_from_tok; exact H|exact Hf]. Qed.

Lemma rstrip'_tok : forall t, tok_ok t -> rstrip' t = t.
Proof.
  intros t [w H|body H].
  - apply rstrip'_no_space. apply word_ok_elim in H. tauto.
  - unfold quoted. change (String dq (body ++ String dq "")) with ((String dq body) ++ String dq "").
    rewrite rstrip'_app_nonblank; [reflexivity|discriminate].
Qed.
Lemma lstrip_word_app : forall w r, w <> "" -> no_space w = true -> lstrip (w ++ r) = w ++ r.
Proof.
  intros w r Hne Hns. destruct w as [|c w']; [congruence|].
  simpl in Hns. apply andb_true_iff in Hns. destruct Hns as [Hc _]. apply negb_true_iff in Hc.
  cbn [String.append lstrip]. rewrite Hc. reflexivity.
Qed.
Lemma lstrip_tok_app : forall t r, tok_ok t -> lstrip (t ++ r) = t ++ r.
Proof.
  intros t r [w H|body H].
  - apply word_ok_elim in H. destruct H as [Hne [Hns _]]. apply lstrip_word_app; assumption.
  - reflexivity.
Qed.

(* what strip needs of a token *)
Definition tight (t : string) : Prop := t <> "" /\ rstrip' t = t /\ forall r, lstrip (t ++ r) = t ++ r.
Lemma tight_tok : forall t, tok_ok t -> tight t.
Proof. intros t H. repeat split; [apply tok_ok_nonempty; exact H|apply rstrip'_tok; exact H|intros r; apply lstrip_tok_app; exact H]. Qed.
Lemma tight_after : forall prev t, tok_ok_after prev t -> tight t.
Proof.
  intros prev t [t' H|pre X [Hs [_ [Hne _]]]]; [apply tight_tok; exact H|].
  repeat split; [exact Hne|apply rstrip'_no_space; exact Hs|intros r; apply lstrip_word_app; assumption].
Qed.
Lemma toks_ok_from_tight : forall ts prev, toks_ok_from prev ts -> Forall tight ts.
Proof.
  induction ts as [|t ts IH]; intros prev H; [constructor|]. inversion H; subst.
  constructor; [eapply tight_after; eassumption|eapply IH; eassumption].
Qed.

Lemma strip_join_tight : forall ts, Forall tight ts -> strip (join " " ts) = join " " ts.
Proof.
  intros ts H. rewrite strip_eq.
  assert (Hl : lstrip (join " " ts) = join " " ts).
  { destruct ts as [|x t]; [reflexivity|]. inversion H as [|? ? [_ [_ Hx]] Ht]; subst.
    destruct t as [|y t'].
    - cbn [join]. rewrite <- (sapp_nil_r x). apply Hx.
    - change (join " " (x :: y :: t')) with (x ++ String " " (join " " (y :: t'))). apply Hx. }
  rewrite Hl. clear Hl. induction ts as [|x t IH]; [reflexivity|].
  inversion H as [|? ? Hx Ht]; subst. destruct t as [|y t'].
  - cbn [join]. apply Hx.
  - change (join " " (x :: y :: t')) with (x ++ String " " (join " " (y :: t'))).
    assert (Hy : join " " (y :: t') <> "").
    { apply join_nonempty. inversion Ht as [|? ? Hy' ?]; subst. apply Hy'. }
    specialize (IH Ht).
    change (String " " (join " " (y :: t'))) with (" " ++ join " " (y :: t')).
    rewrite <- sapp_assoc. rewrite rstrip'_app_nonblank; rewrite IH; [reflexivity|exact Hy].
Qed.

Lemma strip_join_toks : forall ts, Forall tok_ok ts -> strip (join " " ts) = join " " ts.
Proof.
  intros ts H. apply strip_join_tight. eapply toks_ok_from_tight. apply (toks_ok_from_tok ts "" H).
Qed.

(* generalises ParseLemmas.tokenize_words to lines with string literals *)
Theorem tokenize_toks : forall ts, Forall tok_ok ts -> tokenize (join " " ts) = Ok ts.
Proof.
  intros ts H. unfold tokenize. rewrite strip_join_toks by exact H.
  apply tokenize_acc_join; [exact H|lia].
Qed.
(* ... and to lines with base64 data (which may contain "//") *)
Theorem tokenize_toks_b64 : forall ts, toks_ok ts -> tokenize (join " " ts) = Ok ts.
Proof.
  intros ts H. unfold tokenize. rewrite strip_join_tight by (eapply toks_ok_from_tight; exact H).
  apply tokenize_acc_join_from; [exact H|lia].
Qed.

Lemma tok_not_comment : forall t, tok_ok t -> starts_with "//" t = false.
Proof.
  intros t [w H|body H]; [|reflexivity]. apply plain_not_comment. apply word_ok_elim in H. tauto.
Qed.

(* generalises ParseLemmas.parse_line_words *)
Theorem parse_line_toks : forall ts, ts <> [] -> Forall tok_ok ts ->
  parse_line (join " " ts) = parse_fields ts.
Proof.
  intros ts Hne H. rewrite parse_line_unfold. rewrite strip_join_toks by exact H.
  assert (Hj : join " " ts =? "" = false).
  { apply String.eqb_neq. destruct ts as [|x t]; [congruence|]. apply join_nonempty.
    inversion H; subst. apply tok_ok_nonempty. assumption. }
  rewrite Hj, tokenize_toks by exact H. cbn [bind]. unfold strip_comment.
  assert (Hl : starts_with "//" (List.last ts "") = false).
  { apply tok_not_comment. rewrite Forall_forall in H. apply H. apply last_In. exact Hne. }
  rewrite Hl. reflexivity.
Qed.

(* a last token that starts with "//" is base64 data after base64 / b64: it is not removed as a comment *)
Lemma toks_ok_last_comment : forall ts prev, toks_ok_from prev ts -> ts <> [] ->
  starts_with "//" (List.last ts "") = true -> is_b64_kw (List.last (but_last ts) prev) = true.
Proof.
  induction ts as [|x t IH]; intros prev H Hne Hc; [congruence|]. inversion H as [|? ? ? Hx Ht]; subst.
  destruct t as [|y t'].
  - cbn [List.last but_last] in *. destruct Hx as [x Hx|pre X [_ [_ [_ [Hd Hin]]]]].
    + rewrite (tok_not_comment x Hx) in Hc. discriminate Hc.
    + destruct pre as [|c pre']; [exact Hin|]. exfalso.
      cbn [no_slash] in Hd. apply andb_true_iff in Hd. destruct Hd as [Hd _]. apply negb_true_iff in Hd.
      cbn [String.append] in Hc. rewrite (starts_with_not_slash c _ Hd) in Hc. discriminate Hc.
  - change (List.last (x :: y :: t') "") with (List.last (y :: t') "") in Hc.
    change (but_last (x :: y :: t')) with (x :: but_last (y :: t')). rewrite last_cons_def.
    apply IH; [exact Ht|discriminate|exact Hc].
Qed.

Theorem parse_line_toks_b64 : forall ts, ts <> [] -> toks_ok ts -> parse_line (join " " ts) = parse_fields ts.
Proof.
  intros ts Hne H. rewrite parse_line_unfold.
  rewrite strip_join_tight by (eapply toks_ok_from_tight; exact H).
  assert (Hj : join " " ts =? "" = false).
  { apply String.eqb_neq. destruct ts as [|x t]; [congruence|]. apply join_nonempty.
    inversion H as [|? ? ? Hx ?]; subst. apply (tight_after _ _ Hx). }
  rewrite Hj, tokenize_toks_b64 by exact H. cbn [bind]. unfold strip_comment.
  destruct (starts_with "//" (List.last ts "")) eqn:Hl; [|reflexivity].
  rewrite in_b64_nil, (toks_ok_last_comment ts "" H Hne Hl). reflexivity.
Qed.

(* after the repair of the tokenizer (a backslash escapes the next character): the closing quote after an ESCAPED
   backslash closes the literal -- `byte "a\\"` (the two-character string a, backslash; valid TEAL) is accepted *)
Theorem quoted_backslash_accepted :
  parse_line ("byte " ++ quoted "a\\") = Ok (Some (IOther "Byte" [PStr (quoted "a\\")])).
Proof. vmr. Qed.
(* an escaped quote still does not close the literal; a lone trailing backslash escapes the closing quote *)
Theorem quoted_escapes :
  body_ok "a\\" = true /\ body_ok (String "a" (String bsl (String dq "b"))) = true /\
  parse_line ("byte " ++ quoted (String "a" (String bsl (String dq "b")))) =
    Ok (Some (IOther "Byte" [PStr (quoted (String "a" (String bsl (String dq "b"))))])) /\
  body_ok "a\" = false /\
  parse_line ("byte " ++ quoted "a\") = Err "ParseError: missing closing quote".
Proof. repeat split; vmr. Qed.

(* relation to the notion before the repair (previous character instead of escape state) *)
Fixpoint str_body_old (prev : ascii) (s : string) : bool :=
  match s with
  | EmptyString => negb (Ascii.eqb prev bsl)
  | String c t => (negb (Ascii.eqb c dq) || Ascii.eqb prev bsl) && str_body_old c t
  end.
Fixpoint no_bsl (s : string) : bool :=
  match s with EmptyString => true | String c t => negb (Ascii.eqb c bsl) && no_bsl t end.
(* without backslashes the two notions coincide (no double quote inside) *)
Theorem body_ok_old_no_bsl : forall s, no_bsl s = true -> body_ok s = str_body_old dq s.
Proof.
  assert (G : forall s prev, Ascii.eqb prev bsl = false -> no_bsl s = true ->
              esc_body false s = str_body_old prev s).
  { induction s as [|c t IH]; intros prev Hp H.
    - cbn [esc_body str_body_old]. rewrite Hp. reflexivity.
    - cbn [no_bsl] in H. apply andb_true_iff in H. destruct H as [H1 H2]. apply negb_true_iff in H1.
      cbn [esc_body str_body_old]. rewrite H1, Hp, orb_false_r. rewrite (IH c H1 H2). reflexivity. }
  intros s H. apply (G s dq); [reflexivity|exact H].
Qed.
(* ... but the new notion does NOT extend the old one: (backslash, backslash, quote) was a body before (the quote
   counted as escaped); now the escaped backslash is complete and the quote closes the literal *)
Theorem body_ok_not_extension_refuted :
  exists s, str_body_old dq s = true /\ body_ok s = false /\ s = String bsl (String bsl (String dq "")).
Proof. exists (String bsl (String bsl (String dq ""))). repeat split; vmr. Qed.

(* ====================================================================== *)
(* PART 7 : byte literals                                                   *)
(* ====================================================================== *)
(* How the model (as the tool) stores a byte literal: hex ("0x...") and quoted ("...") spellings are kept as
   the verbatim token; base64 / base32 spellings are decoded and stored as "0x<lowercase hex>".  The printed
   form is the mnemonic followed by the stored text, so printing normalises base64/base32 to hex. *)

Definition is_lit (x : string) : bool := starts_with "0x" x || starts_with (String dq "") x.

(* --- _parse_byte_arguments, relationally: token list |-> stored values *)
Inductive byte_forms : list string -> list string -> Prop :=
| bf_nil : byte_forms [] []
| bf_lit : forall t ts vs, is_lit t = true -> byte_forms ts vs -> byte_forms (t :: ts) (t :: vs)
| bf_b64 : forall kw X ts vs, kw = "base64" \/ kw = "b64" -> byte_forms ts vs ->
    byte_forms (kw :: X :: ts) (b64_decode X :: vs)
| bf_b32 : forall kw X ts vs, kw = "base32" \/ kw = "b32" -> byte_forms ts vs ->
    byte_forms (kw :: X :: ts) (b32_decode X :: vs)
| bf_b64p : forall kw X ts vs, kw = "base64(" \/ kw = "b64(" -> byte_forms ts vs ->
    byte_forms ((kw ++ X ++ ")") :: ts) (b64_decode X :: vs)
| bf_b32p : forall kw X ts vs, kw = "base32(" \/ kw = "b32(" -> byte_forms ts vs ->
    byte_forms ((kw ++ X ++ ")") :: ts) (b32_decode X :: vs).

Lemma lit_not_b : forall x, is_lit x = true -> exists c x', x = String c x' /\ c <> "b"%char.
Proof.
  intros [|c x'] H; [discriminate|]. exists c, x'. split; [reflexivity|]. intros E. subst c. discriminate H.
Qed.

Lemma parse_byte_args_lit : forall x t f, is_lit x = true ->
  parse_byte_args (S f) (x :: t) = do r <- parse_byte_args f t; Ok (x :: r).
Proof.
  intros x t f H. destruct (lit_not_b x H) as [c [x' [E Hc]]]. subst x.
  assert (Eb : Ascii.eqb c "b" = false) by (apply Ascii.eqb_neq; exact Hc).
  assert (Hp : forall k, starts_with (String "b" k) (String c x') = false).
  { intros k. unfold starts_with. cbn [String.prefix]. destruct (ascii_dec "b" c); [congruence|reflexivity]. }
  cbn [parse_byte_args]. cbn [String.eqb]. rewrite Eb. cbn [andb orb].
  rewrite !Hp. cbn [orb]. unfold is_lit, dq in H. rewrite H. reflexivity.
Qed.

Lemma ends_with_paren_snoc : forall a, ends_with_paren (a ++ ")") = true.
Proof. intros a. unfold ends_with_paren. rewrite last_char_snoc. reflexivity. Qed.

Lemma parse_byte_args_paren : forall kw X t f dec,
  (kw = "base64(" /\ dec = b64_decode) \/ (kw = "b64(" /\ dec = b64_decode) \/
  (kw = "base32(" /\ dec = b32_decode) \/ (kw = "b32(" /\ dec = b32_decode) ->
  parse_byte_args (S f) ((kw ++ X ++ ")") :: t) = do r <- parse_byte_args f t; Ok (dec X :: r).
Proof.
  intros kw X t f dec H.
  assert (Hend : ends_with_paren (kw ++ X ++ ")") = true) by (rewrite <- sapp_assoc; apply ends_with_paren_snoc).
  destruct H as [[-> ->]|[[-> ->]|[[-> ->]|[-> ->]]]]; cbn [parse_byte_args];
    cbn [String.append String.eqb Ascii.eqb Bool.eqb andb orb]; cbn [String.append] in Hend;
    unfold starts_with; cbn [String.prefix];
    repeat match goal with |- context [ascii_dec ?a ?b] =>
             let v := eval vm_compute in (if ascii_dec a b then true else false) in
             match v with
             | true => destruct (ascii_dec a b) as [_|ne]; [|exfalso; apply ne; reflexivity]
             | false => destruct (ascii_dec a b) as [e|_]; [discriminate e|]
             end end;
    rewrite ?prefix_nil; cbn [orb]; rewrite Hend; cbn [after_paren Ascii.eqb Bool.eqb];
    rewrite drop_last_snoc; reflexivity.
Qed.

Lemma byte_forms_length : forall ts vs, byte_forms ts vs -> length vs <= length ts.
Proof. induction 1; simpl; lia. Qed.

Theorem parse_byte_args_forms : forall ts vs, byte_forms ts vs ->
  forall fuel, length ts < fuel -> parse_byte_args fuel ts = Ok vs.
Proof.
  induction 1 as [|t ts vs Hl _ IH|kw X ts vs Hk _ IH|kw X ts vs Hk _ IH|kw X ts vs Hk _ IH|kw X ts vs Hk _ IH];
    intros fuel Hf; (destruct fuel as [|f]; [simpl in Hf; lia|]); cbn [length] in Hf.
  - reflexivity.
  - rewrite parse_byte_args_lit by exact Hl. rewrite IH by lia. reflexivity.
  - destruct Hk as [-> | ->]; cbn [parse_byte_args String.eqb Ascii.eqb Bool.eqb andb orb];
      rewrite IH by lia; reflexivity.
  - destruct Hk as [-> | ->]; cbn [parse_byte_args String.eqb Ascii.eqb Bool.eqb andb orb];
      rewrite IH by lia; reflexivity.
  - rewrite (parse_byte_args_paren kw X ts f b64_decode) by (destruct Hk as [-> | ->]; auto).
    rewrite IH by lia. reflexivity.
  - rewrite (parse_byte_args_paren kw X ts f b32_decode) by (destruct Hk as [-> | ->]; auto 6).
    rewrite IH by lia. reflexivity.
Qed.

(* --- the five byte-literal opcodes *)
Definition bytes_cls (kw : string) : string :=
  if kw =? "byte" then "Byte" else if kw =? "pushbytes" then "PushBytes" else "Method".
Definition bytes1_kw (kw : string) : Prop := kw = "byte" \/ kw = "pushbytes" \/ kw = "method".
Definition bytesn_cls (kw : string) : string := if kw =? "bytecblock" then "Bytecblock" else "PushBytess".
Definition bytesn_kw (kw : string) : Prop := kw = "bytecblock" \/ kw = "pushbytess".

Lemma bytes1_kw_word : forall kw, bytes1_kw kw -> word_ok kw = true.
Proof. intros kw [-> | [-> | ->]]; reflexivity. Qed.
Lemma bytesn_kw_word : forall kw, bytesn_kw kw -> word_ok kw = true.
Proof. intros kw [-> | ->]; reflexivity. Qed.

Lemma parse_fields_bytes1 : forall kw ts b, bytes1_kw kw -> byte_forms ts [b] ->
  parse_fields (kw :: ts) = Ok (Some (IOther (bytes_cls kw) [PStr b])).
Proof.
  intros kw ts b Hk Hf.
  pose proof (parse_byte_args_forms ts [b] Hf (S (length ts)) ltac:(lia)) as Hp.
  destruct Hk as [-> | [-> | ->]]; unfold parse_fields;
    cbn [last_char Ascii.eqb Bool.eqb String.eqb andb orb]; rewrite Hp; reflexivity.
Qed.
Lemma parse_fields_bytesn : forall kw ts vs, bytesn_kw kw -> byte_forms ts vs ->
  parse_fields (kw :: ts) = Ok (Some (IOther (bytesn_cls kw) [PStrs vs])).
Proof.
  intros kw ts vs Hk Hf.
  pose proof (parse_byte_args_forms ts vs Hf (S (length ts)) ltac:(lia)) as Hp.
  destruct Hk as [-> | ->]; unfold parse_fields;
    cbn [last_char Ascii.eqb Bool.eqb String.eqb andb orb]; rewrite Hp; reflexivity.
Qed.

(* general parse theorems: any line made of the mnemonic and byte-literal tokens in any of the ten spellings *)
Theorem parse_bytes1 : forall kw ts b, bytes1_kw kw -> Forall tok_ok ts -> byte_forms ts [b] ->
  parse_line (join " " (kw :: ts)) = Ok (Some (IOther (bytes_cls kw) [PStr b])).
Proof.
  intros kw ts b Hk Ht Hf. rewrite parse_line_toks; [|discriminate|].
  - apply parse_fields_bytes1; assumption.
  - constructor; [apply tok_word, bytes1_kw_word; exact Hk|exact Ht].
Qed.
Theorem parse_bytesn : forall kw ts vs, bytesn_kw kw -> Forall tok_ok ts -> byte_forms ts vs ->
  parse_line (join " " (kw :: ts)) = Ok (Some (IOther (bytesn_cls kw) [PStrs vs])).
Proof.
  intros kw ts vs Hk Ht Hf. rewrite parse_line_toks; [|discriminate|].
  - apply parse_fields_bytesn; assumption.
  - constructor; [apply tok_word, bytesn_kw_word; exact Hk|exact Ht].
Qed.
(* byte / pushbytes / method take exactly one literal *)
Theorem parse_bytes1_arity : forall kw ts vs, bytes1_kw kw -> Forall tok_ok ts -> byte_forms ts vs ->
  length vs <> 1 -> parse_line (join " " (kw :: ts)) = Err "ParseError: expects exactly one argument".
Proof.
  intros kw ts vs Hk Ht Hf Hn. rewrite parse_line_toks; [|discriminate|].
  - pose proof (parse_byte_args_forms ts vs Hf (S (length ts)) ltac:(lia)) as Hp.
    destruct Hk as [-> | [-> | ->]]; unfold parse_fields;
      cbn [last_char Ascii.eqb Bool.eqb String.eqb andb orb]; rewrite Hp; cbn [bind];
      destruct vs as [|v [|v' vs']]; try reflexivity; simpl in Hn; congruence.
  - constructor; [apply tok_word, bytes1_kw_word; exact Hk|exact Ht].
Qed.

(* the same with base64 data among the tokens (which may contain "//"): each token is judged after the one before it,
   the first one after the mnemonic *)
Lemma toks_ok_kw : forall kw ts, word_ok kw = true -> toks_ok_from kw ts -> toks_ok (kw :: ts).
Proof. intros kw ts Hk Ht. constructor; [apply tka_tok, tok_word; exact Hk|exact Ht]. Qed.
Theorem parse_bytes1_b64 : forall kw ts b, bytes1_kw kw -> toks_ok_from kw ts -> byte_forms ts [b] ->
  parse_line (join " " (kw :: ts)) = Ok (Some (IOther (bytes_cls kw) [PStr b])).
Proof.
  intros kw ts b Hk Ht Hf. rewrite parse_line_toks_b64; [|discriminate|].
  - apply parse_fields_bytes1; assumption.
  - apply toks_ok_kw; [apply bytes1_kw_word; exact Hk|exact Ht].
Qed.
Theorem parse_bytesn_b64 : forall kw ts vs, bytesn_kw kw -> toks_ok_from kw ts -> byte_forms ts vs ->
  parse_line (join " " (kw :: ts)) = Ok (Some (IOther (bytesn_cls kw) [PStrs vs])).
Proof.
  intros kw ts vs Hk Ht Hf. rewrite parse_line_toks_b64; [|discriminate|].
  - apply parse_fields_bytesn; assumption.
  - apply toks_ok_kw; [apply bytesn_kw_word; exact Hk|exact Ht].
Qed.

(* --- words for the parenthesised spellings *)
Lemma no_space_cons : forall c s, is_space c = false -> no_space s = true -> no_space (String c s) = true.
Proof. intros c s Hc Hs. simpl. rewrite Hc, Hs. reflexivity. Qed.
Lemma plain_cons_char : forall c s, c <> dq -> c <> "/"%char -> plain s = true -> plain (String c s) = true.
Proof.
  intros c s Hq Hs Hp. cbn [plain]. rewrite Hp.
  assert (E : Ascii.eqb c """"%char = false) by (apply Ascii.eqb_neq; exact Hq). rewrite E.
  unfold starts_with. cbn [String.prefix]. destruct (ascii_dec "/" c); [congruence|reflexivity].
Qed.
Lemma word_ok_intro : forall s, s <> "" -> no_space s = true -> plain s = true -> word_ok s = true.
Proof.
  intros s Hne Hn Hp. unfold word_ok. rewrite Hn, Hp. apply String.eqb_neq in Hne. rewrite Hne. reflexivity.
Qed.
Lemma word_ok_paren : forall kw X, kw = "base64(" \/ kw = "b64(" \/ kw = "base32(" \/ kw = "b32(" ->
  labeldef_ok X = true -> word_ok (kw ++ X ++ ")") = true.
Proof.
  intros kw X Hk H. unfold labeldef_ok in H. apply andb_true_iff in H. destruct H as [Hs Hp].
  assert (Hn : no_space (X ++ ")") = true) by (rewrite no_space_app, Hs; reflexivity).
  assert (Hpl : plain (X ++ ")") = true) by (apply plain_app_char; [discriminate|exact Hp|reflexivity]).
  destruct Hk as [-> | [-> | [-> | ->]]]; (apply word_ok_intro; [discriminate| |]); cbn [String.append];
    repeat (first [apply no_space_cons; [reflexivity|] | apply plain_cons_char; [discriminate|discriminate|]]);
    assumption.
Qed.

Lemma is_lit_quoted : forall body, is_lit (quoted body) = true.
Proof.
  intros body. unfold is_lit, quoted, starts_with. cbn [String.prefix].
  destruct (ascii_dec "0" dq) as [e|_]; [discriminate e|].
  destruct (ascii_dec dq dq) as [_|ne]; [|congruence]. rewrite prefix_nil. reflexivity.
Qed.

(* --- the ten spellings, one literal (byte / pushbytes / method) *)
Section OneLiteral.
  Variable kw : string.
  Hypothesis Hkw : bytes1_kw kw.

  (* hex: "0x..." is kept verbatim (the digits are not validated) *)
  Theorem parse_bytes_hex : forall h, word_ok h = true -> starts_with "0x" h = true ->
    parse_line (kw ++ " " ++ h) = Ok (Some (IOther (bytes_cls kw) [PStr h])).
  Proof.
    intros h Hw Hx. apply (parse_bytes1 kw [h] h Hkw).
    - constructor; [apply tok_word; exact Hw|constructor].
    - apply bf_lit; [unfold is_lit; rewrite Hx; reflexivity|constructor].
  Qed.
  (* quoted: kept verbatim including the quotes and the escapes *)
  Theorem parse_bytes_quoted : forall body, body_ok body = true ->
    parse_line (kw ++ " " ++ quoted body) = Ok (Some (IOther (bytes_cls kw) [PStr (quoted body)])).
  Proof.
    intros body Hb. apply (parse_bytes1 kw [quoted body] (quoted body) Hkw).
    - constructor; [apply tok_quoted; exact Hb|constructor].
    - apply bf_lit; [apply is_lit_quoted|constructor].
  Qed.
  (* base64 X / b64 X / base32 X / b32 X: decoded, stored as hex *)
  Theorem parse_bytes_base64 : forall sp X, sp = "base64" \/ sp = "b64" -> word_ok X = true ->
    parse_line (kw ++ " " ++ sp ++ " " ++ X) = Ok (Some (IOther (bytes_cls kw) [PStr (b64_decode X)])).
  Proof.
    intros sp X Hsp Hw. apply (parse_bytes1 kw [sp; X] (b64_decode X) Hkw).
    - constructor; [apply tok_word; destruct Hsp as [-> | ->]; reflexivity|].
      constructor; [apply tok_word; exact Hw|constructor].
    - apply bf_b64; [exact Hsp|constructor].
  Qed.
  Theorem parse_bytes_base32 : forall sp X, sp = "base32" \/ sp = "b32" -> word_ok X = true ->
    parse_line (kw ++ " " ++ sp ++ " " ++ X) = Ok (Some (IOther (bytes_cls kw) [PStr (b32_decode X)])).
  Proof.
    intros sp X Hsp Hw. apply (parse_bytes1 kw [sp; X] (b32_decode X) Hkw).
    - constructor; [apply tok_word; destruct Hsp as [-> | ->]; reflexivity|].
      constructor; [apply tok_word; exact Hw|constructor].
    - apply bf_b32; [exact Hsp|constructor].
  Qed.
  (* base64(X) / b64(X) / base32(X) / b32(X); X may be empty *)
  Theorem parse_bytes_base64_paren : forall sp X, sp = "base64(" \/ sp = "b64(" -> labeldef_ok X = true ->
    parse_line (kw ++ " " ++ sp ++ X ++ ")") = Ok (Some (IOther (bytes_cls kw) [PStr (b64_decode X)])).
  Proof.
    intros sp X Hsp Hw. apply (parse_bytes1 kw [sp ++ X ++ ")"] (b64_decode X) Hkw).
    - constructor; [apply tok_word, word_ok_paren; [tauto|exact Hw]|constructor].
    - apply bf_b64p; [exact Hsp|constructor].
  Qed.
  Theorem parse_bytes_base32_paren : forall sp X, sp = "base32(" \/ sp = "b32(" -> labeldef_ok X = true ->
    parse_line (kw ++ " " ++ sp ++ X ++ ")") = Ok (Some (IOther (bytes_cls kw) [PStr (b32_decode X)])).
  Proof.
    intros sp X Hsp Hw. apply (parse_bytes1 kw [sp ++ X ++ ")"] (b32_decode X) Hkw).
    - constructor; [apply tok_word, word_ok_paren; [tauto|exact Hw]|constructor].
    - apply bf_b32p; [exact Hsp|constructor].
  Qed.
  (* the base64 spellings with ARBITRARY data (no blank, no double quote): the data may contain "/" and "//" *)
  Theorem parse_bytes_base64_data : forall sp X, sp = "base64" \/ sp = "b64" -> data_ok X = true ->
    parse_line (kw ++ " " ++ sp ++ " " ++ X) = Ok (Some (IOther (bytes_cls kw) [PStr (b64_decode X)])).
  Proof.
    intros sp X Hsp Hw. apply (parse_bytes1_b64 kw [sp; X] (b64_decode X) Hkw).
    - constructor; [apply tka_tok, tok_word; destruct Hsp as [-> | ->]; reflexivity|].
      constructor; [|constructor].
      apply (tka_b64 sp "" X). apply b64_word_data; [destruct Hsp as [-> | ->]; reflexivity|exact Hw].
    - apply bf_b64; [exact Hsp|constructor].
  Qed.
  Theorem parse_bytes_base64_paren_data : forall sp X, sp = "base64(" \/ sp = "b64(" ->
    no_space X = true -> no_dq X = true ->
    parse_line (kw ++ " " ++ sp ++ X ++ ")") = Ok (Some (IOther (bytes_cls kw) [PStr (b64_decode X)])).
  Proof.
    intros sp X Hsp Hs Hq. apply (parse_bytes1_b64 kw [sp ++ X ++ ")"] (b64_decode X) Hkw).
    - constructor; [|constructor]. apply tka_b64. apply b64_word_paren; [exact Hsp| |].
      + rewrite no_space_app, Hs. reflexivity.
      + rewrite no_dq_app, Hq. reflexivity.
    - apply bf_b64p; [exact Hsp|constructor].
  Qed.
End OneLiteral.

Lemma bytes_cls_values :
  bytes_cls "byte" = "Byte" /\ bytes_cls "pushbytes" = "PushBytes" /\ bytes_cls "method" = "Method" /\
  bytesn_cls "bytecblock" = "Bytecblock" /\ bytesn_cls "pushbytess" = "PushBytess".
Proof. repeat split; reflexivity. Qed.

(* what is NOT checked (the assembler does): hex digits, base64 alphabet, `method` argument being a string *)
Theorem byte_literals_unchecked :
  parse_line "byte 0xZZ" = Ok (Some (IOther "Byte" [PStr "0xZZ"])) /\
  parse_line "byte base64 !!" = Ok (Some (IOther "Byte" [PStr "0x"])) /\
  parse_line "method 0x01" = Ok (Some (IOther "Method" [PStr "0x01"])) /\
  str_of_instr (IOther "Method" [PStr "0x01"]) = "method ""x0""" /\
  parse_line (str_of_instr (IOther "Method" [PStr "0x01"])) = Ok (Some (IOther "Method" [PStr """x0"""])).
Proof. repeat split; vmr. Qed.

(* --- decoded literals are hex words *)
Open Scope N_scope.
Lemma decode_syms_bytes : forall bits, 0 < bits -> bits <= 8 ->
  forall vals acc nacc, Forall (fun v => v < 2 ^ bits) vals -> acc < 2 ^ nacc -> nacc < 8 ->
  Forall (fun b => b < 256) (decode_syms bits vals acc nacc).
Proof.
  intros bits Hb0 Hb8. induction vals as [|v t IH]; intros acc nacc Hv Ha Hn; [constructor|].
  inversion Hv as [|? ? Hv1 Hvt]; subst. cbn [decode_syms].
  set (acc' := acc * 2 ^ bits + v).
  assert (Hacc' : acc' < 2 ^ (nacc + bits)).
  { unfold acc'. rewrite N.pow_add_r.
    assert (acc * 2 ^ bits + 2 ^ bits <= 2 ^ nacc * 2 ^ bits).
    { replace (acc * 2 ^ bits + 2 ^ bits) with ((acc + 1) * 2 ^ bits) by ring.
      apply N.mul_le_mono_r. lia. }
    lia. }
  destruct (N.leb 8 (nacc + bits)) eqn:E.
  - apply N.leb_le in E. constructor.
    + rewrite N.shiftr_div_pow2. apply N.div_lt_upper_bound; [apply N.pow_nonzero; lia|].
      replace (2 ^ (nacc + bits - 8) * 256) with (2 ^ (nacc + bits)); [exact Hacc'|].
      change 256 with (2 ^ 8). rewrite <- N.pow_add_r. f_equal. lia.
    + apply IH; [exact Hvt| |lia].
      rewrite N.sub_1_r, <- N.ones_equiv, N.land_ones. apply N.mod_lt. apply N.pow_nonzero. lia.
  - apply N.leb_gt in E. apply IH; [exact Hvt|exact Hacc'|exact E].
Qed.

Lemma b64_val_bound : forall c v, b64_val c = Some v -> v < 2 ^ 6.
Proof.
  intros c v. unfold b64_val. set (n := N_of_ascii c). change (2 ^ 6) with 64.
  destruct (N.leb 65 n && N.leb n 90)%bool eqn:E1.
  { apply andb_true_iff in E1. destruct E1 as [A B]. apply N.leb_le in A, B. intros H; inversion H. lia. }
  destruct (N.leb 97 n && N.leb n 122)%bool eqn:E2.
  { apply andb_true_iff in E2. destruct E2 as [A B]. apply N.leb_le in A, B. intros H; inversion H. lia. }
  destruct (N.leb 48 n && N.leb n 57)%bool eqn:E3.
  { apply andb_true_iff in E3. destruct E3 as [A B]. apply N.leb_le in A, B. intros H; inversion H. lia. }
  destruct (N.eqb n 43); [intros H; inversion H; lia|].
  destruct (N.eqb n 47); [intros H; inversion H; lia|discriminate].
Qed.
Lemma b32_val_bound : forall c v, b32_val c = Some v -> v < 2 ^ 5.
Proof.
  intros c v. unfold b32_val. set (n := N_of_ascii c). change (2 ^ 5) with 32.
  destruct (N.leb 65 n && N.leb n 90)%bool eqn:E1.
  { apply andb_true_iff in E1. destruct E1 as [A B]. apply N.leb_le in A, B. intros H; inversion H. lia. }
  destruct (N.leb 50 n && N.leb n 55)%bool eqn:E2; [|discriminate].
  apply andb_true_iff in E2. destruct E2 as [A B]. apply N.leb_le in A, B. intros H; inversion H. lia.
Qed.
Lemma string_vals_bound : forall (f : ascii -> option N) k, (forall c v, f c = Some v -> v < k) ->
  forall s, Forall (fun v => v < k) (string_vals f s).
Proof.
  intros f k Hf. induction s as [|c t IH]; [constructor|]. cbn [string_vals].
  destruct (f c) as [v|] eqn:E; [constructor; [eapply Hf; eauto|exact IH]|exact IH].
Qed.

Lemma hex_of_bytes_good : forall l, Forall (fun b => b < 256) l -> all_good (hex_of_bytes l) = true.
Proof.
  induction l as [|b t IH]; intros H; [reflexivity|]. inversion H as [|? ? Hb Ht]; subst.
  cbn [hex_of_bytes all_good]. rewrite IH by exact Ht.
  rewrite !hex_digit_good; [reflexivity| |].
  - apply N.mod_lt. lia.
  - apply N.div_lt_upper_bound; lia.
Qed.
Close Scope N_scope.

Lemma hex_word : forall l, Forall (fun b => (b < 256)%N) l ->
  word_ok ("0x" ++ hex_of_bytes l) = true /\ starts_with "0x" ("0x" ++ hex_of_bytes l) = true.
Proof.
  intros l H. split.
  - apply all_good_word; [discriminate|]. cbn [String.append all_good].
    change (good_char "0") with true. change (good_char "x") with true. cbn [andb].
    apply hex_of_bytes_good. exact H.
  - unfold starts_with. apply prefix_app.
Qed.
Theorem b64_decode_word : forall X,
  word_ok (b64_decode X) = true /\ starts_with "0x" (b64_decode X) = true.
Proof.
  intros X. unfold b64_decode. apply hex_word.
  apply (decode_syms_bytes 6); try lia; try reflexivity.
  - apply string_vals_bound. exact b64_val_bound.
Qed.
Theorem b32_decode_word : forall X,
  word_ok (b32_decode X) = true /\ starts_with "0x" (b32_decode X) = true.
Proof.
  intros X. unfold b32_decode. apply hex_word.
  apply (decode_syms_bytes 5); try lia; try reflexivity.
  - apply string_vals_bound. exact b32_val_bound.
Qed.

(* --- printing *)
Lemma join_concat_sp : forall l x, x ++ String.concat "" (map (fun y => " " ++ y) l) = join " " (x :: l).
Proof.
  induction l as [|y t IH]; intros x.
  - cbn [map String.concat join]. apply sapp_nil_r.
  - destruct t as [|z t'].
    + reflexivity.
    + change (String.concat "" (map (fun y0 => " " ++ y0) (y :: z :: t')))
        with ((" " ++ y) ++ "" ++ String.concat "" (map (fun y0 => " " ++ y0) (z :: t'))).
      change (join " " (x :: y :: z :: t')) with (x ++ " " ++ join " " (y :: z :: t')).
      rewrite <- (IH y). cbn [String.append]. reflexivity.
Qed.

Lemma str_byte : forall b, str_of_instr (IOther "Byte" [PStr b]) = "byte " ++ b.
Proof. intros. str_instr. reflexivity. Qed.
Lemma str_pushbytes : forall b, str_of_instr (IOther "PushBytes" [PStr b]) = "pushbytes " ++ b.
Proof. intros. str_instr. reflexivity. Qed.
Lemma str_method : forall b, str_of_instr (IOther "Method" [PStr b]) = "method " ++ quoted (unquote b).
Proof. intros. str_instr. reflexivity. Qed.
Lemma str_bytecblock : forall l, str_of_instr (IOther "Bytecblock" [PStrs l]) = join " " ("bytecblock" :: l).
Proof. intros. str_instr. cbn [list_of_param]. apply (join_concat_sp l "bytecblock"). Qed.
Lemma str_pushbytess : forall l, str_of_instr (IOther "PushBytess" [PStrs l]) = join " " ("pushbytess" :: l).
Proof. intros. str_instr. cbn [list_of_param]. apply (join_concat_sp l "pushbytess"). Qed.

(* --- round trips.  A stored literal is a hex word or a quoted string (this is all the parser ever stores) *)
Definition lit_tok (t : string) : Prop := tok_ok t /\ is_lit t = true.

Lemma lit_tok_hex : forall h, word_ok h = true -> starts_with "0x" h = true -> lit_tok h.
Proof. intros h Hw Hx. split; [apply tok_word; exact Hw|unfold is_lit; rewrite Hx; reflexivity]. Qed.
Lemma lit_tok_quoted : forall body, body_ok body = true -> lit_tok (quoted body).
Proof. intros body H. split; [apply tok_quoted; exact H|apply is_lit_quoted]. Qed.
Lemma lit_tok_b64 : forall X, lit_tok (b64_decode X).
Proof. intros X. destruct (b64_decode_word X). apply lit_tok_hex; assumption. Qed.
Lemma lit_tok_b32 : forall X, lit_tok (b32_decode X).
Proof. intros X. destruct (b32_decode_word X). apply lit_tok_hex; assumption. Qed.

Lemma byte_forms_lits : forall l, Forall lit_tok l -> byte_forms l l.
Proof. induction 1 as [|t l [_ Ht] _ IH]; [constructor|apply bf_lit; assumption]. Qed.
Lemma lits_toks : forall l, Forall lit_tok l -> Forall tok_ok l.
Proof. intros l H. eapply Forall_impl; [|exact H]. intros t [Ht _]. exact Ht. Qed.

Theorem roundtrip_byte : forall b, lit_tok b ->
  parse_line (str_of_instr (IOther "Byte" [PStr b])) = Ok (Some (IOther "Byte" [PStr b])).
Proof.
  intros b [Ht Hl]. rewrite str_byte.
  apply (parse_bytes1 "byte" [b] b); [left; reflexivity|constructor; [exact Ht|constructor]|].
  apply bf_lit; [exact Hl|constructor].
Qed.
Theorem roundtrip_pushbytes : forall b, lit_tok b ->
  parse_line (str_of_instr (IOther "PushBytes" [PStr b])) = Ok (Some (IOther "PushBytes" [PStr b])).
Proof.
  intros b [Ht Hl]. rewrite str_pushbytes.
  apply (parse_bytes1 "pushbytes" [b] b); [right; left; reflexivity|constructor; [exact Ht|constructor]|].
  apply bf_lit; [exact Hl|constructor].
Qed.
Theorem roundtrip_bytecblock : forall l, Forall lit_tok l ->
  parse_line (str_of_instr (IOther "Bytecblock" [PStrs l])) = Ok (Some (IOther "Bytecblock" [PStrs l])).
Proof.
  intros l H. rewrite str_bytecblock.
  apply (parse_bytesn "bytecblock" l l); [left; reflexivity|apply lits_toks; exact H|apply byte_forms_lits; exact H].
Qed.
Theorem roundtrip_pushbytess : forall l, Forall lit_tok l ->
  parse_line (str_of_instr (IOther "PushBytess" [PStrs l])) = Ok (Some (IOther "PushBytess" [PStrs l])).
Proof.
  intros l H. rewrite str_pushbytess.
  apply (parse_bytesn "pushbytess" l l); [right; reflexivity|apply lits_toks; exact H|apply byte_forms_lits; exact H].
Qed.

(* whatever spelling was parsed, the resulting instruction prints to text that parses back to it.
   The spelling itself is normalised: base64 / base32 become lowercase hex; hex and quoted text are unchanged. *)
Lemma byte_forms_stored_lit : forall ts vs, Forall tok_ok ts -> byte_forms ts vs -> Forall lit_tok vs.
Proof.
  intros ts vs Ht Hf. induction Hf as [|t ts vs Hl _ IH|kw X ts vs Hk _ IH|kw X ts vs Hk _ IH|kw X ts vs Hk _ IH|kw X ts vs Hk _ IH].
  - constructor.
  - inversion Ht; subst. constructor; [split; assumption|auto].
  - inversion Ht as [|? ? _ Ht1]; subst. inversion Ht1; subst. constructor; [apply lit_tok_b64|auto].
  - inversion Ht as [|? ? _ Ht1]; subst. inversion Ht1; subst. constructor; [apply lit_tok_b32|auto].
  - inversion Ht; subst. constructor; [apply lit_tok_b64|auto].
  - inversion Ht; subst. constructor; [apply lit_tok_b32|auto].
Qed.

Theorem bytes_parse_print_parse : forall kw ts b, kw = "byte" \/ kw = "pushbytes" ->
  Forall tok_ok ts -> byte_forms ts [b] ->
  exists i, parse_line (join " " (kw :: ts)) = Ok (Some i) /\ parse_line (str_of_instr i) = Ok (Some i).
Proof.
  intros kw ts b Hk Ht Hf.
  pose proof (byte_forms_stored_lit ts [b] Ht Hf) as Hl. inversion Hl as [|? ? Hb _]; subst.
  destruct Hk as [-> | ->].
  - exists (IOther "Byte" [PStr b]). split; [|apply roundtrip_byte; exact Hb].
    apply (parse_bytes1 "byte" ts b); [left; reflexivity|exact Ht|exact Hf].
  - exists (IOther "PushBytes" [PStr b]). split; [|apply roundtrip_pushbytes; exact Hb].
    apply (parse_bytes1 "pushbytes" ts b); [right; left; reflexivity|exact Ht|exact Hf].
Qed.
Theorem bytesn_parse_print_parse : forall kw ts vs, bytesn_kw kw -> Forall tok_ok ts -> byte_forms ts vs ->
  exists i, parse_line (join " " (kw :: ts)) = Ok (Some i) /\ parse_line (str_of_instr i) = Ok (Some i).
Proof.
  intros kw ts vs Hk Ht Hf. pose proof (byte_forms_stored_lit ts vs Ht Hf) as Hl.
  exists (IOther (bytesn_cls kw) [PStrs vs]). split; [apply parse_bytesn; assumption|].
  destruct Hk as [-> | ->]; [apply roundtrip_bytecblock|apply roundtrip_pushbytess]; exact Hl.
Qed.

(* the spelling IS normalised: a base64 literal does not print back as written *)
Theorem base64_spelling_normalised :
  parse_line "byte base64 AAEC" = Ok (Some (IOther "Byte" [PStr "0x000102"])) /\
  str_of_instr (IOther "Byte" [PStr "0x000102"]) = "byte 0x000102" /\
  parse_line "byte b64(AAEC)" = Ok (Some (IOther "Byte" [PStr "0x000102"])) /\
  parse_line "byte base32 AEBAG===" = Ok (Some (IOther "Byte" [PStr "0x010203"])) /\
  parse_line "byte b32(AEBAG)" = Ok (Some (IOther "Byte" [PStr "0x010203"])) /\
  parse_line ("bytecblock 0x12 " ++ quoted "a b // c" ++ " base32 AEBAG b64(AAEC)") =
    Ok (Some (IOther "Bytecblock" [PStrs ["0x12"; quoted "a b // c"; "0x010203"; "0x000102"]])).
Proof. repeat split; vmr. Qed.

(* --- method *)
Lemma unquote_quoted : forall body, unquote (quoted body) = body.
Proof. intros body. unfold unquote, quoted. apply drop_last_snoc. Qed.

Theorem parse_method : forall body, body_ok body = true ->
  parse_line ("method " ++ quoted body) = Ok (Some (IOther "Method" [PStr (quoted body)])).
Proof. intros body H. apply (parse_bytes_quoted "method"); [right; right; reflexivity|exact H]. Qed.
Theorem str_method_quoted : forall body,
  str_of_instr (IOther "Method" [PStr (quoted body)]) = "method " ++ quoted body.
Proof. intros body. rewrite str_method, unquote_quoted. reflexivity. Qed.

(* after the repair of Method.__str__ (the signature is printed WITH its quotes): the printed form parses back *)
Theorem roundtrip_method : forall body, body_ok body = true ->
  parse_line (str_of_instr (IOther "Method" [PStr (quoted body)])) = Ok (Some (IOther "Method" [PStr (quoted body)])).
Proof. intros body H. rewrite str_method_quoted. apply parse_method. exact H. Qed.

(* the test of _parse_byte_arguments, as one boolean: a token on which all of them fail is rejected *)
Definition byte_head (x : string) : bool :=
  (x =? "base64") || (x =? "b64") || (x =? "base32") || (x =? "b32") ||
  starts_with "base64(" x || starts_with "b64(" x || starts_with "base32(" x || starts_with "b32(" x || is_lit x.

Lemma parse_byte_args_bad : forall x t f, byte_head x = false ->
  parse_byte_args (S f) (x :: t) = Err "ParseError: incorrect byte format".
Proof.
  intros x t f H. unfold byte_head, is_lit, dq in H.
  repeat (apply orb_false_elim in H; let H2 := fresh "H" in destruct H as [H H2]).
  cbn [parse_byte_args].
  repeat match goal with E : _ = false |- _ => rewrite E; clear E end. reflexivity.
Qed.

(* an unquoted signature is (still) rejected *)
Theorem method_unquoted_rejected : forall sig, word_ok sig = true -> byte_head sig = false ->
  parse_line ("method " ++ sig) = Err "ParseError: incorrect byte format".
Proof.
  intros sig Hw Hh. change ("method " ++ sig) with (join " " ["method"; sig]).
  rewrite parse_line_words; [|discriminate|simpl; rewrite Hw; reflexivity].
  unfold parse_fields. cbn [last_char Ascii.eqb Bool.eqb String.eqb andb orb length].
  rewrite parse_byte_args_bad by exact Hh. reflexivity.
Qed.

Example roundtrip_method_example :
  str_of_instr (IOther "Method" [PStr (quoted "add(uint64,uint64)uint64")]) = "method " ++ quoted "add(uint64,uint64)uint64" /\
  parse_line ("method " ++ quoted "add(uint64,uint64)uint64") =
    Ok (Some (IOther "Method" [PStr (quoted "add(uint64,uint64)uint64")])).
Proof. split; vmr. Qed.

(* ====================================================================== *)
(* PART 8 : unknown opcodes                                                 *)
(* ====================================================================== *)
(* fields level: when no rule key is a prefix of the blank-joined fields, the instruction is the unsupported one
   carrying exactly that text *)
Theorem unknown_fields : forall f0 rest,
  head_generic f0 = true -> first_rule (join " " (f0 :: rest)) parser_rules = None ->
  parse_fields (f0 :: rest) = Ok (Some (IOther "UnsupportedInstruction" [PStr (join " " (f0 :: rest))])).
Proof.
  intros f0 rest Hh Hr. unfold head_generic in Hh.
  apply andb_true_iff in Hh. destruct Hh as [Hh H4]. apply andb_true_iff in Hh. destruct Hh as [Hh H3].
  apply andb_true_iff in Hh. destruct Hh as [H1 H2]. apply negb_true_iff in H1, H2, H3, H4.
  unfold parse_fields. rewrite H1, H2, H3, H4. cbv zeta. rewrite Hr. reflexivity.
Qed.

(* any line, by its tokens (comment removed) *)
Theorem unknown_line : forall line fields0 f0 rest,
  strip line <> "" -> tokenize line = Ok fields0 -> strip_comment fields0 = f0 :: rest ->
  head_generic f0 = true -> first_rule (join " " (f0 :: rest)) parser_rules = None ->
  parse_line line = Ok (Some (IOther "UnsupportedInstruction" [PStr (join " " (f0 :: rest))])).
Proof.
  intros line fields0 f0 rest Hne Ht Hs Hh Hr. rewrite parse_line_unfold.
  apply String.eqb_neq in Hne. rewrite Hne, Ht. cbn [bind]. rewrite Hs. apply unknown_fields; assumption.
Qed.

(* a line already in normal form (tokens separated by single blanks) is kept verbatim *)
Theorem unknown_verbatim : forall ts, ts <> [] -> Forall tok_ok ts ->
  head_generic (hd "" ts) = true -> first_rule (join " " ts) parser_rules = None ->
  parse_line (join " " ts) = Ok (Some (IOther "UnsupportedInstruction" [PStr (join " " ts)])).
Proof.
  intros ts Hne Ht Hh Hr. rewrite parse_line_toks by assumption.
  destruct ts as [|f0 rest]; [congruence|]. apply unknown_fields; assumption.
Qed.

(* quote-free, comment-free lines: parse_line sees only the whitespace-separated words *)
Lemma plain_strip : forall l, plain l = true -> plain (strip l) = true.
Proof.
  intros l H. rewrite strip_eq. destruct (rstrip'_decomp (lstrip l)) as [sp [_ E]].
  eapply plain_app_l. rewrite <- E. apply plain_lstrip. exact H.
Qed.
Theorem parse_line_plain : forall l, plain l = true -> parse_line l = parse_fields (toks (strip l) "").
Proof.
  intros l H. pose proof (plain_strip l H) as Hs. rewrite parse_line_unfold.
  destruct (strip l =? "") eqn:E.
  - apply String.eqb_eq in E. rewrite E. reflexivity.
  - rewrite tokenize_plain by exact Hs. cbn [bind]. unfold strip_comment.
    assert (Hlast : starts_with "//" (List.last (toks (strip l) "") "") = false).
    { pose proof (toks_not_comment (strip l) "" eq_refl Hs) as Hall. rewrite Forall_forall in Hall.
      destruct (toks (strip l) "") as [|x xs] eqn:Etk; [reflexivity|]. apply Hall. apply last_In. discriminate. }
    rewrite Hlast. reflexivity.
Qed.
(* ... so an unknown opcode is kept as its words joined by single blanks: indentation, trailing blanks and runs
   of blanks are normalised, nothing else *)
Theorem unknown_plain : forall l f0 rest, plain l = true -> toks (strip l) "" = f0 :: rest ->
  head_generic f0 = true -> first_rule (join " " (f0 :: rest)) parser_rules = None ->
  parse_line l = Ok (Some (IOther "UnsupportedInstruction" [PStr (join " " (f0 :: rest))])).
Proof.
  intros l f0 rest Hp Ht Hh Hr. rewrite parse_line_plain by exact Hp. rewrite Ht. apply unknown_fields; assumption.
Qed.
(* ... and a trailing comment is dropped *)
Corollary unknown_plain_comment : forall l c f0 rest, plain l = true -> last_tok_b64 l = false ->
  toks (strip l) "" = f0 :: rest ->
  head_generic f0 = true -> first_rule (join " " (f0 :: rest)) parser_rules = None ->
  parse_line (l ++ " // " ++ c) = Ok (Some (IOther "UnsupportedInstruction" [PStr (join " " (f0 :: rest))])).
Proof. intros l c f0 rest Hp Hb Ht Hh Hr. rewrite parse_line_comment by assumption. eapply unknown_plain; eauto. Qed.

(* printing: the text prefixed by the marker UNSUPPORTED *)
Theorem str_unsupported : forall t,
  str_of_instr (IOther "UnsupportedInstruction" [PStr t]) = "UNSUPPORTED " ++ t.
Proof. intros. str_instr. reflexivity. Qed.
Theorem unsupported_text : forall t, drop 12 (str_of_instr (IOther "UnsupportedInstruction" [PStr t])) = t.
Proof. intros. rewrite str_unsupported. reflexivity. Qed.

(* no rule key starts with "U" *)
Definition key_not_U (r : string * (string * shape)) : bool :=
  match fst r with String c _ => negb (Ascii.eqb c "U") | EmptyString => false end.
Lemma first_rule_U : forall rules x, forallb key_not_U rules = true -> first_rule (String "U" x) rules = None.
Proof.
  induction rules as [|[k [c s]] t IH]; intros x H; [reflexivity|].
  cbn [forallb] in H. apply andb_true_iff in H. destruct H as [H1 H2].
  unfold key_not_U in H1. cbn [fst] in H1. destruct k as [|kc k']; [discriminate|].
  apply negb_true_iff in H1. apply Ascii.eqb_neq in H1.
  cbn [first_rule]. unfold starts_with. cbn [String.prefix]. destruct (ascii_dec kc "U"); [congruence|].
  apply IH. exact H2.
Qed.
Lemma parser_keys_not_U : forallb key_not_U parser_rules = true.
Proof. vmr. Qed.

(* the printed form of an unsupported instruction is not its source text: it parses to an unsupported instruction
   again (never to a supported one), but with the marker now part of the text *)
Theorem roundtrip_unsupported_partial : forall ts, ts <> [] -> Forall tok_ok ts ->
  parse_line (str_of_instr (IOther "UnsupportedInstruction" [PStr (join " " ts)])) =
  Ok (Some (IOther "UnsupportedInstruction" [PStr ("UNSUPPORTED " ++ join " " ts)])).
Proof.
  intros ts Hne Ht. rewrite str_unsupported.
  assert (E : "UNSUPPORTED " ++ join " " ts = join " " ("UNSUPPORTED" :: ts)).
  { destruct ts; [congruence|reflexivity]. }
  rewrite E. apply unknown_verbatim.
  - discriminate.
  - constructor; [apply tok_word; reflexivity|exact Ht].
  - reflexivity.
  - rewrite <- E. apply first_rule_U. exact parser_keys_not_U.
Qed.
Theorem roundtrip_unsupported_refuted :
  exists l i, parse_line l = Ok (Some i) /\ parse_line (str_of_instr i) <> Ok (Some i) /\
              l = "frobnicate 1 2" /\ i = IOther "UnsupportedInstruction" [PStr "frobnicate 1 2"] /\
              parse_line (str_of_instr i) = Ok (Some (IOther "UnsupportedInstruction" [PStr "UNSUPPORTED frobnicate 1 2"])).
Proof.
  exists "frobnicate 1 2", (IOther "UnsupportedInstruction" [PStr "frobnicate 1 2"]).
  split; [vmr|]. split; [intros H; vm_compute in H; discriminate H|]. repeat split; vmr.
Qed.

(* examples: an opcode tealer does not know; runs of blanks and a comment *)
Example unknown_examples :
  parse_line "  frobnicate   1  2   // what" = Ok (Some (IOther "UnsupportedInstruction" [PStr "frobnicate 1 2"])) /\
  parse_line "int" = Ok (Some (IOther "UnsupportedInstruction" [PStr "int"])) /\
  parse_line "Int 1" = Ok (Some (IOther "UnsupportedInstruction" [PStr "Int 1"])).
Proof. repeat split; vmr. Qed.

(* ====================================================================== *)
(* PART 9 : named integer constants                                         *)
(* ====================================================================== *)
(* The parser keeps the NAME (the assembler would substitute the number); the analyses resolve the name through
   the regenerated tables, to the same result as the number (RewriteLemmas.named_type_constants). *)
Definition const_name_ok (x : string * N) : bool := word_ok (fst x) && negb (is_int (fst x)).
Lemma txn_type_names_ok : forallb const_name_ok transaction_type_to_tealer_type_names = true.
Proof. vmr. Qed.
Lemma oncompletion_names_ok : forallb const_name_ok oncompletion_to_tealer_type_names = true.
Proof. vmr. Qed.

Lemma str_int_name : forall w, str_of_instr (IInt (IAName w)) = "int " ++ w.
Proof. intros. str_instr. reflexivity. Qed.
Lemma str_pushint_name : forall w, str_of_instr (IPushInt (IAName w)) = "pushint " ++ w.
Proof. intros. str_instr. reflexivity. Qed.

Theorem roundtrip_int_name : forall w, word_ok w = true -> is_int w = false ->
  parse_line (str_of_instr (IInt (IAName w))) = Ok (Some (IInt (IAName w))) /\
  parse_line (str_of_instr (IPushInt (IAName w))) = Ok (Some (IPushInt (IAName w))).
Proof. intros w Hw Hi. rewrite str_int_name, str_pushint_name. apply int_line_named; assumption. Qed.

Lemma const_name_line : forall tbl name n, forallb const_name_ok tbl = true -> In (name, n) tbl ->
  parse_line ("int " ++ name) = Ok (Some (IInt (IAName name))) /\
  parse_line ("pushint " ++ name) = Ok (Some (IPushInt (IAName name))) /\
  parse_line (str_of_instr (IInt (IAName name))) = Ok (Some (IInt (IAName name))) /\
  parse_line (str_of_instr (IPushInt (IAName name))) = Ok (Some (IPushInt (IAName name))) /\
  (forall intcs, is_int_push_ins intcs (IInt (IAName name)) = IntName name) /\
  (forall intcs, is_int_push_ins intcs (IPushInt (IAName name)) = IntName name).
Proof.
  intros tbl name n Hall Hin. rewrite forallb_forall in Hall. specialize (Hall _ Hin).
  unfold const_name_ok in Hall. cbn [fst] in Hall. apply andb_true_iff in Hall. destruct Hall as [Hw Hi].
  apply negb_true_iff in Hi.
  destruct (int_line_named name Hw Hi) as [A B]. destruct (roundtrip_int_name name Hw Hi) as [C D].
  repeat split; auto.
Qed.

(* `int pay`, `int axfer`, `int appl`, ... *)
Theorem named_txn_type_line : forall name n, In (name, n) transaction_type_to_tealer_type_names ->
  parse_line ("int " ++ name) = Ok (Some (IInt (IAName name))) /\
  parse_line ("pushint " ++ name) = Ok (Some (IPushInt (IAName name))) /\
  parse_line (str_of_instr (IInt (IAName name))) = Ok (Some (IInt (IAName name))) /\
  (forall intcs, is_int_push_ins intcs (IInt (IAName name)) = IntName name) /\
  transaction_type_to_tealer_type (IntName name) = transaction_type_to_tealer_type (IntNum n) /\
  transaction_type_to_tealer_type (IntNum n) <> None /\
  parse_line ("int " ++ string_of_N n) = Ok (Some (IInt (IANum n))).
Proof.
  intros name n Hin.
  destruct (const_name_line _ name n txn_type_names_ok Hin) as [A [B [C [_ [E _]]]]].
  destruct (named_type_constants name n Hin) as [F G].
  destruct (int_line_spellings n) as [H _]. repeat split; assumption.
Qed.
(* `int NoOp`, `int OptIn`, `int CloseOut`, ... *)
Theorem named_oncompletion_line : forall name n, In (name, n) oncompletion_to_tealer_type_names ->
  parse_line ("int " ++ name) = Ok (Some (IInt (IAName name))) /\
  parse_line ("pushint " ++ name) = Ok (Some (IPushInt (IAName name))) /\
  parse_line (str_of_instr (IInt (IAName name))) = Ok (Some (IInt (IAName name))) /\
  (forall intcs, is_int_push_ins intcs (IInt (IAName name)) = IntName name) /\
  oncompletion_to_tealer_type (IntName name) = oncompletion_to_tealer_type (IntNum n) /\
  oncompletion_to_tealer_type (IntNum n) <> None /\
  parse_line ("int " ++ string_of_N n) = Ok (Some (IInt (IANum n))).
Proof.
  intros name n Hin.
  destruct (const_name_line _ name n oncompletion_names_ok Hin) as [A [B [C [_ [E _]]]]].
  destruct (named_oncompletion_constants name n Hin) as [F G].
  destruct (int_line_spellings n) as [H _]. repeat split; assumption.
Qed.

(* the tables contain the constants of the assembler *)
Theorem named_constant_tables :
  transaction_type_to_tealer_type_names = [("pay", 1); ("keyreg", 2); ("acfg", 3); ("axfer", 4); ("afrz", 5); ("appl", 6)]%N /\
  oncompletion_to_tealer_type_names =
    [("NoOp", 0); ("OptIn", 1); ("CloseOut", 2); ("ClearState", 3); ("UpdateApplication", 4); ("DeleteApplication", 5)]%N.
Proof. split; reflexivity. Qed.

(* as literally stated ("parses to the integer") the claim fails: the parse result is not the integer push.
   Consequences: analyses that need the NUMBER (is_int_push_ins ... = IntNum n) do not see it. *)
Theorem named_constant_not_integer_refuted :
  exists name n, In (name, n) transaction_type_to_tealer_type_names /\
    parse_line ("int " ++ name) <> parse_line ("int " ++ string_of_N n) /\
    (forall intcs, is_int_push_ins intcs (IInt (IAName name)) <> IntNum n).
Proof.
  exists "pay", 1%N. split; [left; reflexivity|]. split.
  - intros H. vm_compute in H. discriminate H.
  - intros intcs H. discriminate H.
Qed.

(* ====================================================================== *)
(* Assumption audit                                                         *)
(* ====================================================================== *)
Print Assumptions roundtrip_txna.
Print Assumptions roundtrip_gtxna.
Print Assumptions roundtrip_gtxnsa.
Print Assumptions roundtrip_itxna.
Print Assumptions roundtrip_gitxna.
Print Assumptions roundtrip_txnas.
Print Assumptions roundtrip_gtxnas.
Print Assumptions roundtrip_gtxnsas.
Print Assumptions roundtrip_itxnas.
Print Assumptions roundtrip_gitxnas.
Print Assumptions roundtrip_itxn_field_array.
Print Assumptions roundtrip_txn_array.
Print Assumptions roundtrip_gtxn_array.
Print Assumptions roundtrip_gtxns_array.
Print Assumptions roundtrip_itxn_array.
Print Assumptions roundtrip_gitxn_array.
Print Assumptions arr_field_txt_is_cls.
Print Assumptions array_index_spellings.
Print Assumptions array_forms_unchecked.
Print Assumptions tokenize_toks.
Print Assumptions tokenize_toks_b64.
Print Assumptions parse_line_toks_b64.
Print Assumptions parse_bytes1_b64.
Print Assumptions parse_bytesn_b64.
Print Assumptions parse_bytes_base64_data.
Print Assumptions parse_bytes_base64_paren_data.
Print Assumptions parse_line_toks.
Print Assumptions quoted_backslash_accepted.
Print Assumptions quoted_escapes.
Print Assumptions body_ok_old_no_bsl.
Print Assumptions body_ok_not_extension_refuted.
Print Assumptions parse_byte_args_forms.
Print Assumptions parse_bytes1.
Print Assumptions parse_bytesn.
Print Assumptions parse_bytes1_arity.
Print Assumptions parse_bytes_hex.
Print Assumptions parse_bytes_quoted.
Print Assumptions parse_bytes_base64.
Print Assumptions parse_bytes_base32.
Print Assumptions parse_bytes_base64_paren.
Print Assumptions parse_bytes_base32_paren.
Print Assumptions byte_literals_unchecked.
Print Assumptions b64_decode_word.
Print Assumptions b32_decode_word.
Print Assumptions roundtrip_byte.
Print Assumptions roundtrip_pushbytes.
Print Assumptions roundtrip_bytecblock.
Print Assumptions roundtrip_pushbytess.
Print Assumptions bytes_parse_print_parse.
Print Assumptions bytesn_parse_print_parse.
Print Assumptions base64_spelling_normalised.
Print Assumptions parse_method.
Print Assumptions str_method_quoted.
Print Assumptions roundtrip_method.
Print Assumptions method_unquoted_rejected.
Print Assumptions unknown_fields.
Print Assumptions unknown_line.
Print Assumptions unknown_verbatim.
Print Assumptions parse_line_plain.
Print Assumptions unknown_plain.
Print Assumptions unknown_plain_comment.
Print Assumptions str_unsupported.
Print Assumptions roundtrip_unsupported_partial.
Print Assumptions roundtrip_unsupported_refuted.
Print Assumptions roundtrip_int_name.
Print Assumptions named_txn_type_line.
Print Assumptions named_oncompletion_line.
Print Assumptions named_constant_not_integer_refuted.
