(* C20: the regex engine (Model/Regex.v) reports exactly the reachable straight-line occurrences.
   visited = reachable set, matches = occurrences at reachable positions (no duplicates, listed in order),
   the covered set of the depth-first search alone is sound but incomplete (finding D14, kept as documentation);
   the backward closure added to match_regex makes covered EXACT: the reachable positions from which a
   reachable match start can be reached in at least one step.  Meaning of the returned boolean, fuel monotonicity.
   Reachability is over rstep_rx: fall-through and jump successors, and callsub -> entry label of the callee
   (the search follows callsub into the subroutine: finding D25, fixed in the tool). *)
From Coq Require Import String Ascii List NArith Bool Arith Lia FinFun.
From Tealer Require Import Tables Syntax Parse Cfg Analysis Regex InsExec.
Import ListNotations.
Close Scope string_scope.
Open Scope nat_scope.
Open Scope list_scope.

(* ------------------------------------------------------------------ instruction-level control flow *)
(* declarative: j -> k when j falls through to k = j+1, or jumps to a label at k, or is a callsub of the
   subroutine whose label is at k (labels resolve to their last definition: find_label = InsExec.label_at) *)
Definition rstep_rx (p : prog) (j k : nat) : Prop :=
  exists i, op_at p j = Some i /\
    ((no_fallthrough i = false /\ S j < length p /\ k = S j) \/
     (exists l, In l (jump_labels i) /\ find_label p l = Some k) \/
     (exists l, i = ICallsub l /\ find_label p l = Some k)).

Lemma map_opt_In {A B} (f : A -> option B) : forall l r y,
  map_opt f l = Some r -> (In y r <-> exists x, In x l /\ f x = Some y).
Proof.
  induction l as [|x l IH]; intros r y H; simpl in H.
  - inversion H; subst. split; [intros [] | intros (x & [] & _)].
  - destruct (f x) as [b|] eqn:Ef; [|discriminate].
    destruct (map_opt f l) as [r'|] eqn:Er; [|discriminate]. inversion H; subst r.
    simpl. rewrite (IH r' y eq_refl). split.
    + intros [<-|(x' & Hx' & Hf)]; [exists x; auto | exists x'; auto].
    + intros (x' & [<-|Hx'] & Hf); [left; congruence | right; exists x'; auto].
Qed.

Lemma callee_label_spec i l : callee_label i = Some l <-> i = ICallsub l.
Proof. destruct i; simpl; split; intros E; try discriminate; congruence. Qed.

Lemma callee_label_jumps i l : callee_label i = Some l -> jump_labels i = [] /\ no_fallthrough i = false.
Proof. intros E. apply callee_label_spec in E. subst. split; reflexivity. Qed.

(* the successor list of the model (Python's _successors) lists exactly the rstep_rx successors *)
Theorem rx_next_spec : forall p j nx k, rx_next p j = Some nx -> (In k nx <-> rstep_rx p j k).
Proof.
  intros p j nx k H. unfold rx_next, ins_next in H. unfold rstep_rx.
  destruct (op_at p j) as [i|] eqn:Eo; [|discriminate].
  destruct (map_opt (find_label p) (jump_labels i)) as [js|] eqn:Ej; [|discriminate].
  destruct (callee_label i) as [l|] eqn:Ec.
  - destruct (callee_label_jumps i l Ec) as (Hj & Hf). apply callee_label_spec in Ec.
    rewrite Hj in Ej. simpl in Ej. inversion Ej; subst js.
    destruct (find_label p l) as [e|] eqn:El; [|discriminate]. inversion H; subst nx.
    rewrite app_nil_r, in_app_iff. split.
    + intros [Hk|[<-|[]]].
      * exists i. split; [reflexivity|]. left.
        rewrite Hf in *. simpl in Hk. destruct (Nat.ltb (S j) (length p)) eqn:Elt; [|destruct Hk].
        apply Nat.ltb_lt in Elt. destruct Hk as [<-|[]]. auto.
      * exists i. split; [reflexivity|]. right; right. exists l. split; assumption.
    + intros (i' & Ei & [(_ & Hlt & ->) | [(l' & Hl' & _) | (l' & Hi' & Hk)]]); injection Ei as <-.
      * left. rewrite Hf. simpl. apply Nat.ltb_lt in Hlt. rewrite Hlt. left; reflexivity.
      * rewrite Hj in Hl'. destruct Hl'.
      * right. left. rewrite Ec in Hi'. inversion Hi'; subst l'. congruence.
  - inversion H; subst nx. rewrite in_app_iff, (map_opt_In _ _ _ k Ej). split.
    + intros [Hk|(l & Hl & Hk)].
      * exists i. split; [reflexivity|]. left.
        destruct (no_fallthrough i); simpl in Hk; [destruct Hk|].
        destruct (Nat.ltb (S j) (length p)) eqn:Elt; [|destruct Hk].
        apply Nat.ltb_lt in Elt. destruct Hk as [<-|[]]. auto.
      * exists i. split; [reflexivity|]. right; left. exists l. split; assumption.
    + intros (i' & Ei & [(Hf & Hlt & ->) | [(l' & Hl' & Hk) | (l' & Hi' & _)]]); injection Ei as <-.
      * left. rewrite Hf. simpl. apply Nat.ltb_lt in Hlt. rewrite Hlt. left; reflexivity.
      * right. exists l'. split; assumption.
      * apply callee_label_spec in Hi'. congruence.
Qed.

Lemma rx_step_in p j nx k : rx_next p j = Some nx -> In k nx -> rstep_rx p j k.
Proof. intros H Hk. apply (rx_next_spec p j nx k H); assumption. Qed.

Lemma rx_step_inv p j nx k : rx_next p j = Some nx -> rstep_rx p j k -> In k nx.
Proof. intros H Hk. apply (rx_next_spec p j nx k H); assumption. Qed.

(* rstep_rx against the program-counter semantics of Spec/InsExec.v: every control step other than a retsub
   step is an rstep_rx edge (a retsub returns to the instruction after some callsub, which the regex graph
   reaches through that callsub's fall-through edge) *)
Theorem insexec_step_rstep_rx : forall p j st k st',
  InsExec.istep p (j, st) (k, st') -> op_at p j <> Some IRetsub -> rstep_rx p j k.
Proof.
  intros p j st k st' H Hnr. inversion H; subst.
  - exists (IB l). split; [assumption|]. right; left. exists l. split; [left; reflexivity | apply label_at_find_label; assumption].
  - exists (IBZ l). split; [assumption|]. right; left. exists l. split; [left; reflexivity | apply label_at_find_label; assumption].
  - exists (IBNZ l). split; [assumption|]. right; left. exists l. split; [left; reflexivity | apply label_at_find_label; assumption].
  - exists (ISwitch ls). split; [assumption|]. right; left. exists l. split; [assumption | apply label_at_find_label; assumption].
  - exists (IMatch ls). split; [assumption|]. right; left. exists l. split; [assumption | apply label_at_find_label; assumption].
  - exists (ICallsub l). split; [assumption|]. right; right. exists l. split; [reflexivity | apply label_at_find_label; assumption].
  - contradiction.
  - exists i. split; [assumption|]. left. repeat split; [|assumption].
    destruct i; try reflexivity; discriminate.
Qed.

Inductive Reach (p : prog) : nat -> nat -> Prop :=
| Reach_refl : forall a, Reach p a a
| Reach_step : forall a b c, rstep_rx p a b -> Reach p b c -> Reach p a c.

Definition ReachPlus (p : prog) (a c : nat) : Prop := exists b, rstep_rx p a b /\ Reach p b c.

Lemma Reach_trans p a b c : Reach p a b -> Reach p b c -> Reach p a c.
Proof. induction 1; intros; [assumption|]. eapply Reach_step; eauto. Qed.

Lemma Reach_one p a b : rstep_rx p a b -> Reach p a b.
Proof. intros; eapply Reach_step; [eassumption | apply Reach_refl]. Qed.

Lemma ReachPlus_Reach p a c : ReachPlus p a c -> Reach p a c.
Proof. intros (b & H1 & H2). eapply Reach_step; eauto. Qed.

Lemma Reach_ReachPlus_trans p a b c : Reach p a b -> ReachPlus p b c -> ReachPlus p a c.
Proof.
  induction 1; intros; [assumption|].
  exists b. split; [assumption|]. apply ReachPlus_Reach. auto.
Qed.

Lemma nat_mem_iff x l : nat_mem x l = true <-> In x l.
Proof.
  unfold nat_mem. rewrite existsb_exists. split.
  - intros (y & Hy & He). apply Nat.eqb_eq in He. subst; assumption.
  - intros H. exists x. split; [assumption | apply Nat.eqb_refl].
Qed.

Lemma nat_mem_false x l : nat_mem x l = false <-> ~ In x l.
Proof.
  rewrite <- nat_mem_iff. destruct (nat_mem x l); split; intros; congruence.
Qed.

(* ------------------------------------------------------------------ 3. the listing of a match *)
Lemma match_listing_gen p : forall rs r0 k,
  is_match p (Some k) (r0 :: rs) = true ->
  let l := collect_match p k (length rs) in
  length l = S (length rs) /\
  hd_error l = Some k /\
  (forall i a b, nth_error l i = Some a -> nth_error l (S i) = Some b -> single_next p a = Some b) /\
  (forall i a r, nth_error l i = Some a -> nth_error (r0 :: rs) i = Some r ->
                 exists o, op_at p a = Some o /\ is_equal o r = true).
Proof.
  induction rs as [|r1 rs IH]; intros r0 k H.
  - simpl in *. destruct (op_at p k) as [o|] eqn:Eo; [|discriminate].
    destruct (is_equal o r0) eqn:Ee; [|discriminate].
    repeat split.
    + intros [|i] a b Ha Hb; simpl in *; [discriminate|]. destruct i; discriminate.
    + intros [|i] a r Ha Hr; simpl in *.
      * inversion Ha; inversion Hr; subst. eauto.
      * destruct i; discriminate.
  - change (is_match p (Some k) (r0 :: r1 :: rs)) with
      (match op_at p k with
       | None => false
       | Some i => if is_equal i r0 then is_match p (single_next p k) (r1 :: rs) else false end) in H.
    destruct (op_at p k) as [o|] eqn:Eo; [|discriminate].
    destruct (is_equal o r0) eqn:Ee; [|discriminate].
    destruct (single_next p k) as [k'|] eqn:Es; [|discriminate].
    specialize (IH r1 k' H). cbv zeta in IH. destruct IH as (IH1 & IH2 & IH3 & IH4).
    cbv zeta. change (collect_match p k (length (r1 :: rs)))
      with (k :: match single_next p k with Some k' => collect_match p k' (length rs) | None => [] end).
    rewrite Es. repeat split.
    + simpl. rewrite IH1. reflexivity.
    + intros [|i] a b Ha Hb.
      * simpl in Ha. inversion Ha; subst a.
        change (nth_error (collect_match p k' (length rs)) 0 = Some b) in Hb.
        destruct (collect_match p k' (length rs)); simpl in *; congruence.
      * exact (IH3 i a b Ha Hb).
    + intros [|i] a r Ha Hr.
      * simpl in Ha, Hr. inversion Ha; inversion Hr; subst. eauto.
      * exact (IH4 i a r Ha Hr).
Qed.

Theorem match_listing : forall p regex k,
  regex <> [] -> is_match p (Some k) regex = true ->
  let l := collect_match p k (pred (length regex)) in
  length l = length regex /\
  hd_error l = Some k /\
  (forall i a b, nth_error l i = Some a -> nth_error l (S i) = Some b -> single_next p a = Some b) /\
  (forall i a r, nth_error l i = Some a -> nth_error regex i = Some r ->
                 exists o, op_at p a = Some o /\ is_equal o r = true).
Proof.
  intros p [|r0 rs] k Hne H; [congruence|].
  exact (match_listing_gen p rs r0 k H).
Qed.

(* the first listed position is the match start, whatever the pattern: listings are injective *)
Lemma collect_match_hd p k n : hd_error (collect_match p k n) = Some k.
Proof. destruct n; reflexivity. Qed.

Lemma collect_match_inj p n : Injective (fun k => collect_match p k n).
Proof.
  intros a b H. pose proof (collect_match_hd p a n) as Ha. rewrite H, collect_match_hd in Ha. congruence.
Qed.

(* declarative reading of "the pattern occurs at k in straight-line code with identical text" *)
Definition Occurs (p : prog) (k : nat) (regex : list instr) : Prop :=
  exists l, length l = length regex /\ hd_error l = Some k /\
    (forall i a b, nth_error l i = Some a -> nth_error l (S i) = Some b -> single_next p a = Some b) /\
    (forall i a r, nth_error l i = Some a -> nth_error regex i = Some r ->
                   exists o, op_at p a = Some o /\ is_equal o r = true).

Lemma occurs_is_match p : forall regex l k,
  length l = length regex -> hd_error l = Some k ->
  (forall i a b, nth_error l i = Some a -> nth_error l (S i) = Some b -> single_next p a = Some b) ->
  (forall i a r, nth_error l i = Some a -> nth_error regex i = Some r ->
                 exists o, op_at p a = Some o /\ is_equal o r = true) ->
  is_match p (Some k) regex = true.
Proof.
  induction regex as [|r0 rs IH]; intros l k Hlen Hhd Hc Hp; [reflexivity|].
  destruct l as [|a l]; [discriminate|]. simpl in Hhd. inversion Hhd; subst a.
  destruct (Hp 0 k r0 eq_refl eq_refl) as (o & Ho & He).
  simpl. rewrite Ho, He.
  destruct rs as [|r1 rs]; [reflexivity|].
  destruct l as [|b l]; [discriminate|].
  rewrite (Hc 0 k b eq_refl eq_refl).
  apply (IH (b :: l) b).
  - simpl in *; lia.
  - reflexivity.
  - intros i x y Hx Hy. exact (Hc (S i) x y Hx Hy).
  - intros i x r Hx Hr. exact (Hp (S i) x r Hx Hr).
Qed.

Theorem is_match_iff_occurs : forall p regex k,
  regex <> [] -> (is_match p (Some k) regex = true <-> Occurs p k regex).
Proof.
  intros p regex k Hne. split.
  - intros H. exists (collect_match p k (pred (length regex))). exact (match_listing p regex k Hne H).
  - intros (l & H1 & H2 & H3 & H4). exact (occurs_is_match p regex l k H1 H2 H3 H4).
Qed.

(* ------------------------------------------------------------------ fuel-free relational reading of the DFS *)
Section Dfs.
  Variable p : prog.
  Variable regex : list instr.

  Definition im (k : nat) : bool := is_match p (Some k) regex.
  Definition cm (k : nat) : list nat := collect_match p k (pred (length regex)).

  Definition enter (cur : nat) (st : rstate) : rstate :=
    if im cur then mkR (cur :: r_visited st) (r_matches st ++ [cm cur]) (r_covered st)
    else mkR (cur :: r_visited st) (r_matches st) (r_covered st).

  Definition cover (cur : nat) (b : bool) (s1 : rstate) : rstate :=
    if b then mkR (r_visited s1) (r_matches s1) (cur :: r_covered s1) else s1.

  Inductive Dfs : nat -> rstate -> bool -> rstate -> Prop :=
  | Dfs_seen : forall cur st, In cur (r_visited st) -> Dfs cur st false st
  | Dfs_new : forall cur st nx r st',
      ~ In cur (r_visited st) -> rx_next p cur = Some nx ->
      DfsL cur nx (im cur) (enter cur st) r st' -> Dfs cur st r st'
  with DfsL : nat -> list nat -> bool -> rstate -> bool -> rstate -> Prop :=
  | DfsL_nil : forall cur r s, DfsL cur [] r s r s
  | DfsL_cov : forall cur n nx r s r' s',
      In n (r_covered s) -> DfsL cur nx r s r' s' -> DfsL cur (n :: nx) r s r' s'
  | DfsL_rec : forall cur n nx r s b s1 r' s',
      ~ In n (r_covered s) -> Dfs n s b s1 ->
      DfsL cur nx (b || r) (cover cur b s1) r' s' -> DfsL cur (n :: nx) r s r' s'.

  Scheme Dfs_min := Minimality for Dfs Sort Prop
    with DfsL_min := Minimality for DfsL Sort Prop.
  Combined Scheme Dfs_mutind from Dfs_min, DfsL_min.

  Definition body (fu cur : nat) (acc : outcome (bool * rstate)) (n : nat) : outcome (bool * rstate) :=
    match acc with
    | Done (reaches, s) =>
        if nat_mem n (r_covered s) then Done (reaches, s) else
        match find_instructions fu p regex n s with
        | Done (true, s') => Done (true, mkR (r_visited s') (r_matches s') (cur :: r_covered s'))
        | Done (false, s') => Done (reaches, s')
        | Exn e => Exn e
        | OutOfFuel => OutOfFuel
        end
    | x => x
    end.

  Lemma find_unfold fu cur st :
    find_instructions (S fu) p regex cur st =
    if nat_mem cur (r_visited st) then Done (false, st) else
    match rx_next p cur with
    | None => Exn "KeyError: label"
    | Some nx => fold_left (body fu cur) nx (Done (im cur, enter cur st))
    end.
  Proof.
    unfold enter, im. simpl. destruct (nat_mem cur (r_visited st)); [reflexivity|].
    destruct (is_match p (Some cur) regex); reflexivity.
  Qed.

  Lemma fold_body_notdone fu cur nx : forall acc,
    (forall x, acc <> Done x) -> fold_left (body fu cur) nx acc = acc.
  Proof.
    induction nx as [|n nx IH]; intros acc H; [reflexivity|].
    simpl. destruct acc as [x| |]; [exfalso; eapply H; reflexivity | |]; simpl; apply IH; discriminate.
  Qed.

  Lemma fold_body_done fu cur nx : forall acc x,
    fold_left (body fu cur) nx acc = Done x -> exists y, acc = Done y.
  Proof.
    intros acc x H. destruct acc as [y| |]; [eauto | |];
      rewrite fold_body_notdone in H by discriminate; discriminate.
  Qed.

  Theorem find_Dfs : forall fuel cur st r st',
    find_instructions fuel p regex cur st = Done (r, st') -> Dfs cur st r st'.
  Proof.
    induction fuel as [|fu IH]; intros cur st r st' H; [discriminate|].
    rewrite find_unfold in H.
    destruct (nat_mem cur (r_visited st)) eqn:Ev.
    - inversion H; subst. apply Dfs_seen. apply nat_mem_iff; assumption.
    - apply nat_mem_false in Ev.
      destruct (rx_next p cur) as [nx|] eqn:En; [|discriminate].
      eapply Dfs_new; [assumption | eassumption |].
      revert H. generalize (im cur) (enter cur st). clear Ev En.
      induction nx as [|n nx IHnx]; intros r0 s0 H.
      + simpl in H. inversion H; subst. apply DfsL_nil.
      + simpl in H. destruct (nat_mem n (r_covered s0)) eqn:Ec.
        * apply DfsL_cov; [apply nat_mem_iff; assumption | apply IHnx; assumption].
        * apply nat_mem_false in Ec.
          destruct (find_instructions fu p regex n s0) as [[b s1]| |] eqn:Ef;
            try (rewrite fold_body_notdone in H by discriminate; discriminate).
          apply (DfsL_rec cur n nx r0 s0 b s1); [assumption | apply IH; assumption |].
          apply IHnx. destruct b; exact H.
  Qed.

End Dfs.

(* ------------------------------------------------------------------ invariants of the DFS *)
Section Invariants.
  Variable p : prog.
  Variable regex : list instr.
  Local Notation im := (im p regex).
  Local Notation cm := (cm p regex).
  Local Notation enter := (enter p regex).

  Lemma enter_visited cur st : r_visited (enter cur st) = cur :: r_visited st.
  Proof. unfold RegexLemmas.enter. destruct (im cur); reflexivity. Qed.
  Lemma enter_covered cur st : r_covered (enter cur st) = r_covered st.
  Proof. unfold RegexLemmas.enter. destruct (im cur); reflexivity. Qed.
  Lemma enter_matches cur st :
    r_matches (enter cur st) = r_matches st ++ map cm (filter im [cur]).
  Proof. unfold RegexLemmas.enter. simpl. destruct (im cur); simpl; [reflexivity | rewrite app_nil_r; reflexivity]. Qed.
  Lemma cover_visited cur b s : r_visited (cover cur b s) = r_visited s.
  Proof. destruct b; reflexivity. Qed.
  Lemma cover_matches cur b s : r_matches (cover cur b s) = r_matches s.
  Proof. destruct b; reflexivity. Qed.
  Lemma cover_covered cur b s : r_covered (cover cur b s) = if b then cur :: r_covered s else r_covered s.
  Proof. destruct b; reflexivity. Qed.

  (* --- shape: the newly visited positions nv (most recent first), the matches they contribute, the flag *)
  Definition P1 (cur : nat) (st : rstate) (r : bool) (st' : rstate) : Prop :=
    exists nv, r_visited st' = nv ++ r_visited st /\
               r_matches st' = r_matches st ++ map cm (filter im (rev nv)) /\
               r = existsb im nv /\
               (forall v, In v nv -> Reach p cur v) /\
               (NoDup (r_visited st) -> NoDup (r_visited st')).
  Definition Q1 (cur : nat) (nx : list nat) (r : bool) (s : rstate) (r' : bool) (s' : rstate) : Prop :=
    exists nv, r_visited s' = nv ++ r_visited s /\
               r_matches s' = r_matches s ++ map cm (filter im (rev nv)) /\
               r' = existsb im nv || r /\
               (forall v, In v nv -> exists n, In n nx /\ Reach p n v) /\
               (NoDup (r_visited s) -> NoDup (r_visited s')).

  Lemma shape_inv :
    (forall cur st r st', Dfs p regex cur st r st' -> P1 cur st r st') /\
    (forall cur nx r s r' s', DfsL p regex cur nx r s r' s' -> Q1 cur nx r s r' s').
  Proof.
    apply Dfs_mutind.
    - intros cur st Hin. exists []. simpl. rewrite app_nil_r. repeat split; auto. intros v [].
    - intros cur st nx r st' Hnin Hnx _ (nv & HV & HM & Hr & HR & HD).
      rewrite enter_visited in HV, HD. rewrite enter_matches in HM.
      exists (nv ++ [cur]). repeat split.
      + rewrite HV, <- app_assoc. reflexivity.
      + rewrite HM, rev_app_distr, <- app_assoc, <- map_app, <- filter_app. reflexivity.
      + rewrite Hr, existsb_app. simpl. rewrite orb_false_r. reflexivity.
      + intros v Hv. apply in_app_or in Hv. destruct Hv as [Hv|[<-|[]]]; [|apply Reach_refl].
        destruct (HR v Hv) as (n & Hn & Hnv). eapply Reach_step; [|eassumption].
        eapply rx_step_in; eassumption.
      + intros Hnd. apply HD. constructor; assumption.
    - intros cur r s. exists []. simpl. rewrite app_nil_r. repeat split; auto. intros v [].
    - intros cur n nx r s r' s' Hc _ (nv & HV & HM & Hr & HR & HD).
      exists nv. repeat split; auto.
      intros v Hv. destruct (HR v Hv) as (n' & Hn' & Hnv). exists n'. split; [right|]; assumption.
    - intros cur n nx r s b s1 r' s' Hnc _ (nv1 & HV1 & HM1 & Hr1 & HR1 & HD1) _ (nv2 & HV2 & HM2 & Hr2 & HR2 & HD2).
      rewrite cover_visited in HV2, HD2. rewrite cover_matches in HM2.
      exists (nv2 ++ nv1). repeat split.
      + rewrite HV2, HV1, app_assoc. reflexivity.
      + rewrite HM2, HM1, rev_app_distr, filter_app, map_app, <- app_assoc. reflexivity.
      + rewrite Hr2, Hr1, existsb_app, orb_assoc. reflexivity.
      + intros v Hv. apply in_app_or in Hv. destruct Hv as [Hv|Hv].
        * destruct (HR2 v Hv) as (n' & Hn' & Hnv). exists n'. split; [right|]; assumption.
        * exists n. split; [left; reflexivity | apply HR1; assumption].
      + auto.
  Qed.

  (* --- covered is sound *)
  Definition P3 (cur : nat) (st : rstate) (r : bool) (st' : rstate) : Prop :=
    (r = true -> exists k, Reach p cur k /\ im k = true) /\
    (forall c, In c (r_covered st') ->
               In c (r_covered st) \/ (Reach p cur c /\ exists k, ReachPlus p c k /\ im k = true)).
  Definition Q3 (cur : nat) (nx : list nat) (r : bool) (s : rstate) (r' : bool) (s' : rstate) : Prop :=
    (r' = true -> r = true \/ exists n k, In n nx /\ Reach p n k /\ im k = true) /\
    (forall c, In c (r_covered s') ->
               In c (r_covered s) \/
               (c = cur /\ exists n k, In n nx /\ Reach p n k /\ im k = true) \/
               (exists n, In n nx /\ Reach p n c /\ exists k, ReachPlus p c k /\ im k = true)).

  Lemma covered_inv :
    (forall cur st r st', Dfs p regex cur st r st' -> P3 cur st r st') /\
    (forall cur nx r s r' s', DfsL p regex cur nx r s r' s' -> Q3 cur nx r s r' s').
  Proof.
    apply Dfs_mutind.
    - intros cur st Hin. split; [discriminate | auto].
    - intros cur st nx r st' Hnin Hnx _ (Hr & Hc).
      assert (Hstep : forall n, In n nx -> rstep_rx p cur n) by (intros n Hn; eapply rx_step_in; eassumption).
      split.
      + intros E. destruct (Hr E) as [Him | (n & k & Hn & Hnk & Hk)].
        * exists cur. split; [apply Reach_refl | assumption].
        * exists k. split; [|assumption]. eapply Reach_step; [apply Hstep|]; eassumption.
      + intros c Hin. rewrite enter_covered in Hc.
        destruct (Hc c Hin) as [H | [(-> & n & k & Hn & Hnk & Hk) | (n & Hn & Hnc & k & Hck & Hk)]].
        * left; assumption.
        * right. split; [apply Reach_refl|]. exists k. split; [|assumption].
          exists n. split; [apply Hstep|]; assumption.
        * right. split; [eapply Reach_step; [apply Hstep|]; eassumption|]. exists k. split; assumption.
    - intros cur r s. split; auto.
    - intros cur n nx r s r' s' Hcov _ (Hr & Hc). split.
      + intros E. destruct (Hr E) as [H | (n' & k & Hn & Hnk & Hk)]; [left; assumption|].
        right. exists n', k. repeat split; [right|..]; assumption.
      + intros c Hin.
        destruct (Hc c Hin) as [H | [(-> & n' & k & Hn & Hnk & Hk) | (n' & Hn & Hnc & k & Hck & Hk)]].
        * left; assumption.
        * right; left. split; [reflexivity|]. exists n', k. repeat split; [right|..]; assumption.
        * right; right. exists n'. repeat split; [right; assumption | assumption |]. exists k. split; assumption.
    - intros cur n nx r s b s1 r' s' Hncov _ (Hr1 & Hc1) _ (Hr2 & Hc2).
      assert (Hb : b = true -> exists n' k, In n' (n :: nx) /\ Reach p n' k /\ im k = true).
      { intros E. destruct (Hr1 E) as (k & Hnk & Hk). exists n, k. repeat split; [left; reflexivity|..]; assumption. }
      assert (Hs1 : forall c, In c (r_covered s1) -> In c (r_covered s) \/
                 (exists n', In n' (n :: nx) /\ Reach p n' c /\ exists k, ReachPlus p c k /\ im k = true)).
      { intros c Hin. destruct (Hc1 c Hin) as [H | (Hnc & k & Hck & Hk)]; [left; assumption|].
        right. exists n. repeat split; [left; reflexivity | assumption |]. exists k. split; assumption. }
      split.
      + intros E. destruct (Hr2 E) as [H | (n' & k & Hn & Hnk & Hk)].
        * apply orb_true_iff in H. destruct H as [H|H]; [right; apply Hb; assumption | left; assumption].
        * right. exists n', k. repeat split; [right|..]; assumption.
      + intros c Hin. rewrite cover_covered in Hc2.
        destruct (Hc2 c Hin) as [H | [(-> & n' & k & Hn & Hnk & Hk) | (n' & Hn & Hnc & k & Hck & Hk)]].
        * destruct b.
          -- destruct H as [<- | H].
             ++ right; left. split; [reflexivity|]. apply Hb; reflexivity.
             ++ destruct (Hs1 c H) as [H'|H']; [left; assumption | right; right; assumption].
          -- destruct (Hs1 c H) as [H'|H']; [left; assumption | right; right; assumption].
        * right; left. split; [reflexivity|]. exists n', k. repeat split; [right|..]; assumption.
        * right; right. exists n'. repeat split; [right; assumption | assumption |]. exists k. split; assumption.
  Qed.

  (* --- visited is closed under rstep_rx except for the positions on the DFS stack; covered is part of visited *)
  Definition closed (V S : list nat) : Prop :=
    forall a b, In a V -> ~ In a S -> rstep_rx p a b -> In b V.

  Definition P4 (cur : nat) (st : rstate) (r : bool) (st' : rstate) : Prop :=
    forall S, incl (r_covered st) (r_visited st) -> closed (r_visited st) S ->
      incl (r_covered st') (r_visited st') /\ closed (r_visited st') S /\
      In cur (r_visited st') /\ incl (r_visited st) (r_visited st').
  Definition Q4 (cur : nat) (nx : list nat) (r : bool) (s : rstate) (r' : bool) (s' : rstate) : Prop :=
    forall S, incl (r_covered s) (r_visited s) -> closed (r_visited s) S -> In cur (r_visited s) ->
      incl (r_covered s') (r_visited s') /\ closed (r_visited s') S /\
      incl (r_visited s) (r_visited s') /\ (forall n, In n nx -> In n (r_visited s')).

  Lemma closed_inv :
    (forall cur st r st', Dfs p regex cur st r st' -> P4 cur st r st') /\
    (forall cur nx r s r' s', DfsL p regex cur nx r s r' s' -> Q4 cur nx r s r' s').
  Proof.
    apply Dfs_mutind.
    - intros cur st Hin S Hc Hcl. repeat split; auto. apply incl_refl.
    - intros cur st nx r st' Hnin Hnx _ IH S Hc Hcl.
      destruct (IH (cur :: S)) as (H1 & H2 & H3 & H4).
      + rewrite enter_covered, enter_visited. apply incl_tl; assumption.
      + rewrite enter_visited. intros a b [<-|Ha] HS Hab; [exfalso; apply HS; left; reflexivity|].
        right. apply (Hcl a b); auto. intros X; apply HS; right; assumption.
      + rewrite enter_visited. left; reflexivity.
      + rewrite enter_visited in H3. repeat split.
        * assumption.
        * intros a b Ha HS Hab. destruct (Nat.eq_dec a cur) as [->|Hne].
          -- apply H4. eapply rx_step_inv; eassumption.
          -- apply (H2 a b); auto. intros [X|X]; [apply Hne; symmetry; assumption | apply HS; assumption].
        * apply H3. left; reflexivity.
        * intros x Hx. apply H3. right; assumption.
    - intros cur r s S Hc Hcl Hcur. repeat split; auto. apply incl_refl. intros n [].
    - intros cur n nx r s r' s' Hcov _ IH S Hc Hcl Hcur.
      destruct (IH S Hc Hcl Hcur) as (H1 & H2 & H3 & H4). repeat split; auto.
      intros n' [<-|Hn']; [apply H3, Hc; assumption | apply H4; assumption].
    - intros cur n nx r s b s1 r' s' Hncov _ IH1 _ IH2 S Hc Hcl Hcur.
      destruct (IH1 S Hc Hcl) as (A1 & A2 & A3 & A4).
      destruct (IH2 S) as (B1 & B2 & B3 & B4).
      + rewrite cover_covered, cover_visited. destruct b; [|assumption].
        intros x [<-|Hx]; [apply A4; assumption | apply A1; assumption].
      + rewrite cover_visited; assumption.
      + rewrite cover_visited. apply A4; assumption.
      + rewrite cover_visited in B3. repeat split; auto.
        * eapply incl_tran; eassumption.
        * intros n' [<-|Hn']; [apply B3; assumption | apply B4; assumption].
  Qed.

  (* ---------------------------------------------------------------- the run from the empty state *)
  Section Run.
    Variables (fuel start : nat) (r : bool) (st : rstate).
    Hypothesis Hrun : find_instructions fuel p regex start (mkR [] [] []) = Done (r, st).

    Let Hdfs : Dfs p regex start (mkR [] [] []) r st := find_Dfs p regex fuel start _ r st Hrun.

    Lemma run_shape :
      r_matches st = map cm (filter im (rev (r_visited st))) /\
      r = existsb im (r_visited st) /\
      (forall v, In v (r_visited st) -> Reach p start v) /\
      NoDup (r_visited st).
    Proof.
      destruct (proj1 shape_inv _ _ _ _ Hdfs) as (nv & HV & HM & Hr & HR & HD).
      simpl in *. rewrite app_nil_r in HV. subst nv. repeat split; auto. apply HD. constructor.
    Qed.

    Lemma run_closed :
      incl (r_covered st) (r_visited st) /\ closed (r_visited st) [] /\ In start (r_visited st).
    Proof.
      destruct (proj1 closed_inv _ _ _ _ Hdfs [] (incl_refl _)) as (H1 & H2 & H3 & _).
      - intros a b [].
      - auto.
    Qed.

    (* 1. visited = the set of positions reachable from the start *)
    Theorem visited_sound : forall v, In v (r_visited st) -> Reach p start v.
    Proof. exact (proj1 (proj2 (proj2 run_shape))). Qed.

    Theorem visited_complete : forall v, Reach p start v -> In v (r_visited st).
    Proof.
      destruct run_closed as (_ & Hcl & Hs).
      assert (G : forall a v, Reach p a v -> In a (r_visited st) -> In v (r_visited st)).
      { intros a v H. induction H as [a | a b c Hab Hbc IH]; intros Ha; [assumption|].
        apply IH. apply (Hcl a b); auto. }
      intros v H. exact (G start v H Hs).
    Qed.

    Theorem visited_reach : forall v, In v (r_visited st) <-> Reach p start v.
    Proof. intros v; split; [apply visited_sound | apply visited_complete]. Qed.

    Theorem visited_nodup : NoDup (r_visited st).
    Proof. exact (proj2 (proj2 (proj2 run_shape))). Qed.

    Theorem covered_subset_visited : forall c, In c (r_covered st) -> In c (r_visited st).
    Proof. exact (proj1 run_closed). Qed.

    (* 2. the reported matches are exactly the listings of the occurrences at reachable positions *)
    Theorem matches_exact : r_matches st = map cm (filter im (rev (r_visited st))).
    Proof. exact (proj1 run_shape). Qed.

    Theorem matches_sound_complete : forall m,
      In m (r_matches st) <->
      exists k, Reach p start k /\ is_match p (Some k) regex = true /\
                m = collect_match p k (pred (length regex)).
    Proof.
      intros m. rewrite matches_exact, in_map_iff. split.
      - intros (k & <- & Hk). apply filter_In in Hk. destruct Hk as (Hk & Hm).
        apply in_rev in Hk. exists k. repeat split; [apply visited_sound|]; assumption.
      - intros (k & Hk & Hm & ->). exists k. split; [reflexivity|].
        apply filter_In. split; [|assumption]. apply in_rev. rewrite rev_involutive.
        apply visited_complete; assumption.
    Qed.

    Theorem matches_nodup : NoDup (r_matches st).
    Proof.
      rewrite matches_exact. apply Injective_map_NoDup; [apply collect_match_inj|].
      apply NoDup_filter, NoDup_rev, visited_nodup.
    Qed.

    (* every reported match starts at a distinct position: one match per occurrence *)
    Theorem matches_starts_nodup : NoDup (map (@hd_error nat) (r_matches st)).
    Proof.
      rewrite matches_exact, map_map.
      rewrite (map_ext _ (@Some nat)) by (intros; apply collect_match_hd).
      apply Injective_map_NoDup; [intros a b H; congruence|].
      apply NoDup_filter, NoDup_rev, visited_nodup.
    Qed.

    (* 4. covered positions are reachable and lead (in at least one step) to a match *)
    Theorem covered_sound : forall c, In c (r_covered st) ->
      Reach p start c /\ exists k, ReachPlus p c k /\ is_match p (Some k) regex = true.
    Proof.
      intros c Hc. destruct (proj2 (proj1 covered_inv _ _ _ _ Hdfs) c Hc) as [[]|H]. exact H.
    Qed.

    (* 6. the returned flag: a match was found in this run *)
    Theorem reaches_meaning : r = true <-> r_matches st <> [].
    Proof.
      destruct run_shape as (HM & Hr & _). rewrite HM, Hr. rewrite existsb_exists. split.
      - intros (k & Hk & Hm) E.
        assert (In (cm k) (map cm (filter im (rev (r_visited st))))).
        { apply in_map, filter_In. split; [apply in_rev; rewrite rev_involutive|]; assumption. }
        rewrite E in H. destruct H.
      - intros H. destruct (filter im (rev (r_visited st))) as [|k l] eqn:E; [exfalso; apply H; reflexivity|].
        assert (Hk : In k (filter im (rev (r_visited st)))) by (rewrite E; left; reflexivity).
        apply filter_In in Hk. destruct Hk as (Hk & Hm). exists k. split; [apply in_rev|]; assumption.
    Qed.

    Theorem reaches_iff_reachable_match :
      r = true <-> exists k, Reach p start k /\ is_match p (Some k) regex = true.
    Proof.
      destruct run_shape as (_ & Hr & _). rewrite Hr, existsb_exists. split.
      - intros (k & Hk & Hm). exists k. split; [apply visited_sound|]; assumption.
      - intros (k & Hk & Hm). exists k. split; [apply visited_complete|]; assumption.
    Qed.
  End Run.
End Invariants.

(* ------------------------------------------------------------------ partial completeness of covered:
   every reachable match is reached by a path all of whose positions before the match are covered *)
Inductive CPath (p : prog) (C : list nat) : nat -> nat -> Prop :=
| CPath_refl : forall a, CPath p C a a
| CPath_step : forall a b k, In a C -> rstep_rx p a b -> CPath p C b k -> CPath p C a k.

Lemma CPath_mono p C C' a k : incl C C' -> CPath p C a k -> CPath p C' a k.
Proof. intros Hi H. induction H; [apply CPath_refl | eapply CPath_step; eauto]. Qed.

Lemma CPath_Reach p C a k : CPath p C a k -> Reach p a k.
Proof. induction 1; [apply Reach_refl | eapply Reach_step; eauto]. Qed.

Section CoveredPartial.
  Variable p : prog.
  Variable regex : list instr.
  Local Notation im := (im p regex).

  Definition P5 (cur : nat) (st : rstate) (r : bool) (st' : rstate) : Prop :=
    incl (r_covered st) (r_covered st') /\ incl (r_visited st) (r_visited st') /\
    forall k, In k (r_visited st') -> ~ In k (r_visited st) -> im k = true ->
              r = true /\ CPath p (r_covered st') cur k.
  Definition Q5 (cur : nat) (nx : list nat) (r : bool) (s : rstate) (r' : bool) (s' : rstate) : Prop :=
    incl (r_covered s) (r_covered s') /\ incl (r_visited s) (r_visited s') /\
    (r = true -> r' = true) /\
    forall k, In k (r_visited s') -> ~ In k (r_visited s) -> im k = true ->
              r' = true /\ In cur (r_covered s') /\ exists n, In n nx /\ CPath p (r_covered s') n k.

  Lemma covered_path_inv :
    (forall cur st r st', Dfs p regex cur st r st' -> P5 cur st r st') /\
    (forall cur nx r s r' s', DfsL p regex cur nx r s r' s' -> Q5 cur nx r s r' s').
  Proof.
    apply Dfs_mutind.
    - intros cur st Hin. repeat split; try apply incl_refl; contradiction.
    - intros cur st nx r st' Hnin Hnx _ (H1 & H2 & H3 & H4).
      rewrite enter_covered in H1. rewrite enter_visited in H2, H4.
      split; [assumption|]. split; [intros x Hx; apply H2; right; assumption|].
      intros k Hk Hnk Hm. destruct (Nat.eq_dec k cur) as [->|Hne].
      + split; [apply H3; assumption | apply CPath_refl].
      + destruct (H4 k Hk) as (E & Hc & n & Hn & Hp); [intros [X|X]; [apply Hne; symmetry|apply Hnk]; assumption | assumption |].
        split; [assumption|]. eapply CPath_step; [eassumption | eapply rx_step_in; eassumption | assumption].
    - intros cur r s. repeat split; try apply incl_refl; auto; contradiction.
    - intros cur n nx r s r' s' Hcov _ (H1 & H2 & H3 & H4). repeat split; auto;
        destruct (H4 k H H0 H5) as (E & Hc & n' & Hn' & Hp); auto.
      exists n'. split; [right|]; assumption.
    - intros cur n nx r s b s1 r' s' Hncov _ (A1 & A2 & A3) _ (B1 & B2 & B3 & B4).
      rewrite cover_visited in B2, B4.
      assert (Hcc : incl (r_covered s1) (r_covered (cover cur b s1))).
      { rewrite cover_covered. destruct b; [apply incl_tl|]; apply incl_refl. }
      split; [eapply incl_tran; [eassumption | eapply incl_tran; eassumption]|].
      split; [eapply incl_tran; eassumption|].
      split; [intros E; apply B3; rewrite E; apply orb_true_r|].
      intros k Hk Hnk Hm. destruct (in_dec Nat.eq_dec k (r_visited s1)) as [Hin|Hnin].
      + destruct (A3 k Hin Hnk Hm) as (-> & Hp). split; [apply B3; reflexivity|].
        split; [apply B1; rewrite cover_covered; left; reflexivity|].
        exists n. split; [left; reflexivity|]. eapply CPath_mono; [|eassumption].
        eapply incl_tran; eassumption.
      + destruct (B4 k Hk Hnin Hm) as (E & Hc & n' & Hn' & Hp). repeat split; auto.
        exists n'. split; [right|]; assumption.
  Qed.

  Theorem covered_path_partial : forall fuel start r st,
    find_instructions fuel p regex start (mkR [] [] []) = Done (r, st) ->
    forall k, Reach p start k -> is_match p (Some k) regex = true -> CPath p (r_covered st) start k.
  Proof.
    intros fuel start r st Hrun k Hk Hm.
    destruct (proj1 covered_path_inv _ _ _ _ (find_Dfs p regex fuel start _ r st Hrun)) as (_ & _ & H).
    apply (H k); [apply (visited_complete p regex fuel start r st Hrun); assumption | intros [] | assumption].
  Qed.

  (* in particular: the start is covered as soon as a match other than at the start itself is reachable *)
  Corollary covered_start_partial : forall fuel start r st,
    find_instructions fuel p regex start (mkR [] [] []) = Done (r, st) ->
    forall k, k <> start -> Reach p start k -> is_match p (Some k) regex = true -> In start (r_covered st).
  Proof.
    intros fuel start r st Hrun k Hne Hk Hm.
    pose proof (covered_path_partial fuel start r st Hrun k Hk Hm) as H.
    inversion H; subst; [congruence | assumption].
  Qed.
End CoveredPartial.

(* ------------------------------------------------------------------ 7. fuel monotonicity *)
Theorem find_fuel_mono : forall p regex fuel fuel' cur st x,
  fuel <= fuel' ->
  find_instructions fuel p regex cur st = Done x -> find_instructions fuel' p regex cur st = Done x.
Proof.
  intros p regex. induction fuel as [|fu IH]; intros fuel' cur st x Hle H; [discriminate|].
  destruct fuel' as [|fu']; [lia|]. assert (Hle' : fu <= fu') by lia.
  rewrite find_unfold in *.
  destruct (nat_mem cur (r_visited st)); [assumption|].
  destruct (rx_next p cur) as [nx|]; [|discriminate].
  revert H. generalize (Done (im p regex cur, enter p regex cur st)).
  induction nx as [|n nx IHnx]; intros acc H; [assumption|].
  simpl in *. destruct (fold_body_done _ _ _ _ _ _ _ H) as (y & Hy).
  assert (E : body p regex fu' cur acc n = body p regex fu cur acc n).
  { destruct acc as [[r0 s0]| |]; try reflexivity. simpl in *.
    destruct (nat_mem n (r_covered s0)); [reflexivity|].
    destruct (find_instructions fu p regex n s0) as [z| |] eqn:Ef; try discriminate.
    rewrite (IH fu' n s0 z Hle' Ef). reflexivity. }
  rewrite E. apply IHnx. assumption.
Qed.

(* a Done run is deterministic in the fuel: any two fuels giving Done give the same result *)
Corollary find_fuel_agree : forall p regex f1 f2 cur st x y,
  find_instructions f1 p regex cur st = Done x -> find_instructions f2 p regex cur st = Done y -> x = y.
Proof.
  intros p regex f1 f2 cur st x y H1 H2.
  destruct (Nat.le_ge_cases f1 f2) as [H|H].
  - rewrite (find_fuel_mono _ _ _ _ _ _ _ H H1) in H2. congruence.
  - rewrite (find_fuel_mono _ _ _ _ _ _ _ H H2) in H1. congruence.
Qed.

(* ------------------------------------------------------------------ 8. the backward closure of match_regex *)
(* every visited position has a successor list (otherwise the search raises) *)
Section VisitedSome.
  Variable p : prog.
  Variable regex : list instr.
  Definition all_some (V : list nat) : Prop := forall v, In v V -> exists nx, rx_next p v = Some nx.

  Lemma visited_some_inv :
    (forall cur st r st', Dfs p regex cur st r st' -> all_some (r_visited st) -> all_some (r_visited st')) /\
    (forall cur nx r s r' s', DfsL p regex cur nx r s r' s' -> all_some (r_visited s) -> all_some (r_visited s')).
  Proof.
    apply Dfs_mutind.
    - auto.
    - intros cur st nx r st' Hnin Hnx _ IH Ha. apply IH. rewrite enter_visited.
      intros v [<-|Hv]; [eauto | apply Ha; assumption].
    - auto.
    - auto.
    - intros cur n nx r s b s1 r' s' Hncov _ IH1 _ IH2 Ha. apply IH2. rewrite cover_visited. apply IH1; assumption.
  Qed.

  Theorem visited_some : forall fuel start r st,
    find_instructions fuel p regex start (mkR [] [] []) = Done (r, st) -> all_some (r_visited st).
  Proof.
    intros fuel start r st Hrun.
    apply (proj1 visited_some_inv _ _ _ _ (find_Dfs p regex fuel start _ r st Hrun)). intros v [].
  Qed.
End VisitedSome.

Lemma prevs_in_table p V j k :
  In j (prevs_in (next_table p V) k) <-> In j V /\ exists nx, rx_next p j = Some nx /\ In k nx.
Proof.
  unfold prevs_in, next_table. rewrite in_map_iff. split.
  - intros ([j' e] & Hj & Hin). simpl in Hj. subst j'. apply filter_In in Hin. destruct Hin as (Hin & Hm).
    apply in_map_iff in Hin. destruct Hin as (x & Hx & HxV). inversion Hx; subst. simpl in Hm.
    split; [assumption|].
    destruct (rx_next p j) as [nx|]; [|discriminate].
    exists nx. split; [reflexivity | apply nat_mem_iff; assumption].
  - intros (HjV & nx & Hn & Hk). exists (j, Some nx). split; [reflexivity|]. apply filter_In. split.
    + apply in_map_iff. exists j. split; [rewrite Hn; reflexivity | assumption].
    + simpl. apply nat_mem_iff; assumption.
Qed.

(* the predecessor map: the visited positions with an rstep_rx edge to k *)
Theorem ins_prevs_spec : forall p V j k,
  (forall v, In v V -> exists nx, rx_next p v = Some nx) ->
  (In j (ins_prevs p V k) <-> In j V /\ rstep_rx p j k).
Proof.
  intros p V j k HV. unfold ins_prevs. rewrite prevs_in_table. split.
  - intros (Hj & nx & Hn & Hk). split; [assumption | eapply rx_step_in; eassumption].
  - intros (Hj & Hs). split; [assumption|]. destruct (HV j Hj) as (nx & Hn).
    exists nx. split; [assumption | eapply rx_step_inv; eassumption].
Qed.

(* positions of V from which a position of Hs is reached in at least one step, all positions before the last in V *)
Inductive BReach (p : prog) (V Hs : list nat) : nat -> Prop :=
| BR_head : forall c k, In c V -> rstep_rx p c k -> In k Hs -> BReach p V Hs c
| BR_step : forall c b, In c V -> rstep_rx p c b -> BReach p V Hs b -> BReach p V Hs c.

Section Back.
  Variable p : prog.
  Variable prev : nat -> list nat.
  Variables V Hs : list nat.
  Hypothesis Hprev : forall j k, In j (prev k) <-> In j V /\ rstep_rx p j k.

  Lemma fold_push : forall l wl acc, exists new,
    fold_left back_push l (wl, acc) = (new ++ wl, new ++ acc) /\
    (forall j, In j new -> In j l /\ ~ In j acc) /\
    (NoDup acc -> NoDup (new ++ acc)) /\
    (forall j, In j l -> In j (new ++ acc)).
  Proof.
    induction l as [|j l IH]; intros wl acc.
    - exists []. simpl. repeat split; auto; contradiction.
    - simpl. unfold back_push at 2. simpl.
      destruct (nat_mem j acc) eqn:Ea.
      + destruct (IH wl acc) as (new & E & H1 & H2 & H3). exists new. rewrite E. repeat split; auto.
        * right. apply (H1 j0 H).
        * apply (H1 j0 H).
        * intros x [<-|Hx]; [|apply H3; assumption].
          apply in_or_app. right. apply nat_mem_iff; assumption.
      + apply nat_mem_false in Ea.
        destruct (IH (j :: wl) (j :: acc)) as (new & E & H1 & H2 & H3).
        exists (new ++ [j]). rewrite E, <- !app_assoc. simpl. repeat split.
        * apply in_app_or in H. destruct H as [H|[<-|[]]]; [right; apply (H1 j0 H) | left; reflexivity].
        * apply in_app_or in H. destruct H as [H|[<-|[]]]; [|assumption].
          intros X. apply (proj2 (H1 j0 H)). right; assumption.
        * intros Hnd. apply H2. constructor; assumption.
        * intros x [<-|Hx]; [apply in_or_app; right; left; reflexivity | apply H3; assumption].
  Qed.

  Definition BInv (wl acc : list nat) : Prop :=
    NoDup acc /\ incl acc V /\ (forall c, In c acc -> BReach p V Hs c) /\
    (forall k, In k wl -> In k Hs \/ In k acc) /\
    (forall k, In k Hs \/ In k acc -> In k wl \/ forall j, In j V -> rstep_rx p j k -> In j acc).

  Lemma back_close_inv : forall fuel wl acc,
    BInv wl acc -> length wl + length V < fuel + length acc ->
    (forall c, In c (back_close fuel prev wl acc) -> BReach p V Hs c) /\
    (forall k, In k Hs \/ In k (back_close fuel prev wl acc) ->
               forall j, In j V -> rstep_rx p j k -> In j (back_close fuel prev wl acc)).
  Proof.
    induction fuel as [|fu IH]; intros wl acc (I1 & I2 & I3 & I4 & I5) Hlen.
    - pose proof (NoDup_incl_length I1 I2). simpl in Hlen. lia.
    - destruct wl as [|k wl].
      + simpl. split; [assumption|]. intros k Hk. destruct (I5 k Hk) as [[]|Hc]. assumption.
      + simpl. destruct (fold_push (prev k) wl acc) as (new & E & H1 & H2 & H3). rewrite E. simpl.
        apply IH.
        * repeat split.
          -- apply H2; assumption.
          -- intros x Hx. apply in_app_or in Hx. destruct Hx as [Hx|Hx]; [|apply I2; assumption].
             apply (Hprev x k). apply (H1 x Hx).
          -- intros c Hc. apply in_app_or in Hc. destruct Hc as [Hc|Hc]; [|apply I3; assumption].
             destruct (H1 c Hc) as (Hp & _). apply Hprev in Hp. destruct Hp as (HV & Hp).
             destruct (I4 k (or_introl eq_refl)) as [Hk|Hk].
             ++ eapply BR_head; eassumption.
             ++ eapply BR_step; [eassumption | eassumption | apply I3; assumption].
          -- intros x Hx. apply in_app_or in Hx. destruct Hx as [Hx|Hx].
             ++ right. apply in_or_app. left; assumption.
             ++ destruct (I4 x (or_intror Hx)) as [Hh|Ha]; [left; assumption | right; apply in_or_app; right; assumption].
          -- intros x Hx.
             assert (Hx' : In x new \/ (In x Hs \/ In x acc)).
             { destruct Hx as [Hx|Hx]; [right; left; assumption|].
               apply in_app_or in Hx. destruct Hx as [Hx|Hx]; [left | right; right]; assumption. }
             destruct Hx' as [Hn|Ho]; [left; apply in_or_app; left; assumption|].
             destruct (I5 x Ho) as [[<-|Hw]|Hc].
             ++ right. intros j HjV Hjx. apply H3. apply Hprev. split; assumption.
             ++ left. apply in_or_app. right; assumption.
             ++ right. intros j HjV Hjx. apply in_or_app. right. apply Hc; assumption.
        * rewrite !app_length. simpl in Hlen. lia.
  Qed.

  (* the closure started from the worklist wl (= Hs as a set), with enough fuel *)
  Theorem back_close_spec : forall fuel wl,
    (forall k, In k wl <-> In k Hs) -> length wl + length V < fuel ->
    forall c, In c (back_close fuel prev wl []) <-> BReach p V Hs c.
  Proof.
    intros fuel wl Hwl Hlen.
    destruct (back_close_inv fuel wl []) as (Hsound & Hclosed).
    - repeat split.
      + constructor.
      + intros x [].
      + intros c [].
      + intros k Hk. left. apply Hwl; assumption.
      + intros k [Hk|[]]. left. apply Hwl; assumption.
    - simpl. lia.
    - intros c. split; [apply Hsound|].
      intros Hb. induction Hb as [c k HcV Hck Hk | c b HcV Hcb Hb IH].
      + apply (Hclosed k); auto.
      + apply (Hclosed b); auto.
  Qed.
End Back.

Lemma match_heads_cm p regex l : match_heads (map (cm p regex) l) = l.
Proof.
  induction l as [|k l IH]; [reflexivity|].
  simpl. unfold cm at 1. destruct (pred (length regex)); simpl; rewrite IH; reflexivity.
Qed.

Section Closure.
  Variable p : prog.
  Variable regex : list instr.
  Variables (fuel start : nat) (r : bool) (st : rstate).
  Hypothesis Hrun : find_instructions fuel p regex start (mkR [] [] []) = Done (r, st).

  (* the heads of the reported matches are the reachable match starts *)
  Lemma match_heads_run : match_heads (r_matches st) = filter (im p regex) (rev (r_visited st)).
  Proof. rewrite (matches_exact p regex fuel start r st Hrun). apply match_heads_cm. Qed.

  Lemma head_iff k : In k (match_heads (r_matches st)) <-> Reach p start k /\ is_match p (Some k) regex = true.
  Proof.
    rewrite match_heads_run, filter_In, <- in_rev, (visited_reach p regex fuel start r st Hrun). reflexivity.
  Qed.

  Lemma BReach_run c :
    BReach p (r_visited st) (match_heads (r_matches st)) c <->
    Reach p start c /\ exists k, ReachPlus p c k /\ is_match p (Some k) regex = true.
  Proof.
    split.
    - intros Hb. induction Hb as [c k HcV Hck Hk | c b HcV Hcb Hb IH].
      + apply (visited_reach p regex fuel start r st Hrun) in HcV. apply head_iff in Hk.
        split; [assumption|]. exists k. split; [|apply Hk]. exists k. split; [assumption | apply Reach_refl].
      + apply (visited_reach p regex fuel start r st Hrun) in HcV.
        destruct IH as (_ & k & Hbk & Hm).
        split; [assumption|]. exists k. split; [|assumption]. exists b. split; [assumption | apply ReachPlus_Reach; assumption].
    - intros (Hc & k & (b & Hcb & Hbk) & Hm).
      assert (Hk : In k (match_heads (r_matches st))).
      { apply head_iff. split; [|assumption].
        eapply Reach_trans; [eassumption|]. eapply Reach_step; eassumption. }
      revert c Hc Hcb. induction Hbk as [b | b b' k Hbb' Hb'k IH]; intros c Hc Hcb.
      + eapply BR_head; [apply (visited_reach p regex fuel start r st Hrun) | |]; eassumption.
      + eapply BR_step; [apply (visited_reach p regex fuel start r st Hrun); assumption | eassumption |].
        apply IH; try assumption.
        eapply Reach_trans; [eassumption|]. apply Reach_one; assumption.
  Qed.

  (* reaches_match = the reachable positions from which a match start is reachable in at least one step *)
  Theorem reaches_match_exact : forall c,
    In c (reaches_match p (r_visited st) (r_matches st)) <->
    Reach p start c /\ exists k, ReachPlus p c k /\ is_match p (Some k) regex = true.
  Proof.
    intros c. rewrite <- BReach_run. unfold reaches_match.
    apply (back_close_spec p (prevs_in (next_table p (r_visited st))) (r_visited st) (match_heads (r_matches st))).
    - intros j k. apply (ins_prevs_spec p (r_visited st) j k). exact (visited_some p regex fuel start r st Hrun).
    - intros k. rewrite <- in_rev. reflexivity.
    - rewrite rev_length. lia.
  Qed.

  (* the set marked by the depth-first search is contained in the closure: the union is the closure *)
  Theorem dfs_covered_in_closure : forall c,
    In c (r_covered st) -> In c (reaches_match p (r_visited st) (r_matches st)).
  Proof. intros c Hc. apply reaches_match_exact. exact (covered_sound p regex fuel start r st Hrun c Hc). Qed.

  Theorem covered_closed_exact : forall c,
    In c (r_covered st ++ reaches_match p (r_visited st) (r_matches st)) <->
    Reach p start c /\ exists k, ReachPlus p c k /\ is_match p (Some k) regex = true.
  Proof.
    intros c. rewrite in_app_iff, reaches_match_exact. split; [|auto].
    intros [Hc|Hc]; [exact (covered_sound p regex fuel start r st Hrun c Hc) | assumption].
  Qed.
End Closure.

(* ------------------------------------------------------------------ match_regex *)
Theorem match_regex_nolabel : forall fuel t label regex,
  find_regex_label t label = None -> match_regex fuel t label regex = Done ([], []).
Proof. intros. unfold match_regex. rewrite H. reflexivity. Qed.

Theorem match_regex_spec : forall fuel t label regex start ms cov,
  find_regex_label t label = Some start ->
  match_regex fuel t label regex = Done (ms, cov) ->
  (forall m, In m ms <->
             exists k, Reach (t_prog t) start k /\ is_match (t_prog t) (Some k) regex = true /\
                       m = collect_match (t_prog t) k (pred (length regex))) /\
  NoDup ms /\
  (forall c, In c cov <->
             Reach (t_prog t) start c /\
             exists k, ReachPlus (t_prog t) c k /\ is_match (t_prog t) (Some k) regex = true) /\
  (forall k, Reach (t_prog t) start k -> is_match (t_prog t) (Some k) regex = true ->
             CPath (t_prog t) cov start k).
Proof.
  intros fuel t label regex start ms cov Hl H. unfold match_regex in H. rewrite Hl in H.
  destruct (find_instructions fuel (t_prog t) regex start (mkR [] [] [])) as [[r st]| |] eqn:E; try discriminate.
  inversion H; subst. split; [|split; [|split]].
  - apply (matches_sound_complete _ _ _ _ _ _ E).
  - apply (matches_nodup _ _ _ _ _ _ E).
  - apply (covered_closed_exact _ _ _ _ _ _ E).
  - intros k Hk Hm. eapply CPath_mono; [|apply (covered_path_partial _ _ _ _ _ _ E); assumption].
    apply incl_appl, incl_refl.
Qed.

(* the same, spelling out that the match start is itself reachable from the label:
   c is covered iff it lies strictly before a match start on a path label ->* c ->+ k *)
Theorem match_regex_covered_exact : forall fuel t label regex start ms cov,
  find_regex_label t label = Some start ->
  match_regex fuel t label regex = Done (ms, cov) ->
  forall c, In c cov <->
            Reach (t_prog t) start c /\
            exists k, ReachPlus (t_prog t) c k /\ Reach (t_prog t) start k /\
                      is_match (t_prog t) (Some k) regex = true.
Proof.
  intros fuel t label regex start ms cov Hl H c.
  destruct (match_regex_spec fuel t label regex start ms cov Hl H) as (_ & _ & Hc & _).
  rewrite Hc. split.
  - intros (Hs & k & Hck & Hm). split; [assumption|]. exists k. repeat split; try assumption.
    eapply Reach_trans; [eassumption | apply ReachPlus_Reach; assumption].
  - intros (Hs & k & Hck & _ & Hm). split; [assumption|]. exists k. split; assumption.
Qed.

(* the closure needs no fuel of its own: match_regex is Done exactly when the depth-first search is *)
Theorem match_regex_done_iff : forall fuel t label regex start,
  find_regex_label t label = Some start ->
  ((exists x, match_regex fuel t label regex = Done x) <->
   (exists y, find_instructions fuel (t_prog t) regex start (mkR [] [] []) = Done y)).
Proof.
  intros fuel t label regex start Hl. unfold match_regex. rewrite Hl.
  destruct (find_instructions fuel (t_prog t) regex start (mkR [] [] [])) as [[r st]| |]; split;
    intros (x & Hx); try discriminate; eauto.
Qed.

(* ------------------------------------------------------------------ 5. the covered set of the depth-first search ALONE is
   incomplete (finding D14): this is why match_regex completes it with the backward closure *)
Module D14.
  Open Scope string_scope.
  (* int 0; bnz a; int 5; pop; b j; a: int 6; pop; j: int 1; return *)
  Definition prog14 : prog :=
    [ mkIns 1 (IInt (IANum 0)); mkIns 2 (IBNZ "a"); mkIns 3 (IInt (IANum 5)); mkIns 4 (IOther "Pop" []);
      mkIns 5 (IB "j"); mkIns 6 (ILabel "a"); mkIns 7 (IInt (IANum 6)); mkIns 8 (IOther "Pop" []);
      mkIns 9 (ILabel "j"); mkIns 10 (IInt (IANum 1)); mkIns 11 IReturn ].
  Definition regex14 : list instr := [IInt (IANum 1); IReturn].

  Definition nl : string := String "010"%char "".
  Lemma prog14_parsed :
    parse_program (String.concat nl ["int 0"; "bnz a"; "int 5"; "pop"; "b j"; "a:"; "int 6"; "pop"; "j:"; "int 1"; "return"])
    = Ok prog14.
  Proof. vm_compute. reflexivity. Qed.

  Lemma next14 : map (rx_next prog14) (seq 0 11) =
    [Some [1]; Some [2; 5]; Some [3]; Some [4]; Some [8]; Some [6]; Some [7]; Some [8]; Some [9]; Some [10]; Some []].
  Proof. vm_compute. reflexivity. Qed.

  (* the run: the match at 9 (int 1; return) is found through the fall-through branch 2,3,4;
     the covered list is [0;1;2;3;4;8]; the jump branch 5,6,7 is visited but never covered *)
  Lemma run14 : find_instructions 20 prog14 regex14 0 (mkR [] [] []) =
    Done (true, mkR [7; 6; 5; 10; 9; 8; 4; 3; 2; 1; 0] [[9; 10]] [0; 1; 2; 3; 4; 8]).
  Proof. vm_compute. reflexivity. Qed.

  Ltac st := eapply rx_step_in; [vm_compute; reflexivity | simpl; tauto].
  Ltac go n := apply (Reach_step _ _ n); [st |].

  (* 5, 6 and 7 lie on the path 0,1,5,6,7,8,9 from the start to the match at 9 *)
  Lemma on_path14 : forall c, In c [5; 6; 7] ->
    Reach prog14 0 c /\ ReachPlus prog14 c 9 /\ is_match prog14 (Some 9) regex14 = true.
  Proof.
    intros c Hc. simpl in Hc.
    assert (H05 : Reach prog14 0 5) by (go 1; go 5; apply Reach_refl).
    assert (H89 : Reach prog14 8 9) by (go 9; apply Reach_refl).
    assert (H78 : rstep_rx prog14 7 8) by st.
    assert (H67 : rstep_rx prog14 6 7) by st.
    assert (H56 : rstep_rx prog14 5 6) by st.
    destruct Hc as [<-|[<-|[<-|[]]]]; (split; [|split; [|vm_compute; reflexivity]]).
    - assumption.
    - exists 6. split; [assumption|]. eapply Reach_step; [eassumption|]. eapply Reach_step; eassumption.
    - eapply Reach_trans; [eassumption|]. apply Reach_one; assumption.
    - exists 7. split; [assumption|]. eapply Reach_step; eassumption.
    - eapply Reach_trans; [eassumption|]. eapply Reach_step; [eassumption|]. apply Reach_one; assumption.
    - exists 8. split; assumption.
  Qed.

  Lemma not_covered14 : forall c, In c [5; 6; 7] -> ~ In c [0; 1; 2; 3; 4; 8].
  Proof. intros c Hc H. simpl in *. lia. Qed.

  (* the closure restores them: everything before the match start 9 *)
  Lemma closure14 : reaches_match prog14 [7; 6; 5; 10; 9; 8; 4; 3; 2; 1; 0] [[9; 10]] = [5; 6; 0; 1; 2; 3; 4; 7; 8].
  Proof. vm_compute. reflexivity. Qed.
End D14.

(* "covered = all positions on some path from the start to a match" fails for find_instructions alone *)
Theorem dfs_covered_incomplete_refuted :
  ~ (forall p regex fuel start r st,
       find_instructions fuel p regex start (mkR [] [] []) = Done (r, st) ->
       forall c k, Reach p start c -> ReachPlus p c k -> is_match p (Some k) regex = true ->
                   In c (r_covered st)).
Proof.
  intros H.
  destruct (D14.on_path14 5) as (H1 & H2 & H3); [simpl; tauto|].
  pose proof (H _ _ _ _ _ _ D14.run14 5 9 H1 H2 H3) as Hin.
  apply (D14.not_covered14 5); [simpl; tauto | exact Hin].
Qed.

(* ------------------------------------------------------------------ 9. examples through the whole front end *)
Module Examples.
  Open Scope string_scope.
  Definition nl : string := String "010"%char "".

  (* result: matches, covered as returned, covered as a sorted duplicate-free list of positions *)
  Definition regex_on (lines : list string) (label : string) (regex : list instr)
    : option (list (list nat) * list nat * list nat) :=
    match parse_program (String.concat nl lines) with
    | Ok p => match parse_teal p with
              | Ok t => match match_regex 100 t label regex with
                        | Done (ms, cov) => Some (ms, cov, filter (fun k => nat_mem k cov) (seq 0 (length p)))
                        | _ => None
                        end
              | Err _ => None
              end
    | Err _ => None
    end.

  (* the diamond: positions 0 pragma, 1 int 0, 2 bnz a, 3 int 5, 4 pop, 5 b j, 6 a:, 7 int 6, 8 pop, 9 j:, 10 int 1, 11 return.
     The search marks 0,1,2,3,4,5,9 (first seven entries); the closure (remaining entries) adds the a: branch 6,7,8 *)
  Example diamond_covered :
    regex_on ["#pragma version 6"; "int 0"; "bnz a"; "int 5"; "pop"; "b j"; "a:"; "int 6"; "pop"; "j:"; "int 1"; "return"]
             "*" [IInt (IANum 1); IReturn]
    = Some ([[10; 11]], [0; 1; 2; 3; 4; 5; 9; 6; 7; 0; 1; 2; 3; 4; 5; 8; 9], [0; 1; 2; 3; 4; 5; 6; 7; 8; 9]).
  Proof. vm_compute. reflexivity. Qed.

  (* a loop: 0 pragma, 1 l:, 2 int 1, 3 pop, 4 int 2, 5 bnz l, 6 int 1, 7 return; pattern int 1; pop (match at 2).
     The search marks only 0 and 1 (first two entries); the loop body 2,3,4,5 leads back to the match and is added by the closure *)
  Example loop_covered :
    regex_on ["#pragma version 6"; "l:"; "int 1"; "pop"; "int 2"; "bnz l"; "int 1"; "return"]
             "*" [IInt (IANum 1); IOther "Pop" []]
    = Some ([[2; 3]], [0; 1; 2; 3; 4; 0; 5; 1], [0; 1; 2; 3; 4; 5]).
  Proof. vm_compute. reflexivity. Qed.

  (* the search follows callsub into the subroutine: 0 pragma, 1 callsub f, 2 int 1, 3 return, 4 f:, 5 int 7, 6 pop, 7 retsub;
     pattern int 7 from *: one match at 5; covered = pragma, callsub f, f: *)
  Definition callsub_lines : list string :=
    ["#pragma version 8"; "callsub f"; "int 1"; "return"; "f:"; "int 7"; "pop"; "retsub"].

  Example callsub_followed :
    regex_on callsub_lines "*" [IInt (IANum 7)] = Some ([[5]], [0; 1; 4; 0; 1; 4], [0; 1; 4]).
  Proof. vm_compute. reflexivity. Qed.

  (* as source lines, the way the tool reports them: matches [[6]], covered lines [1;2;5] *)
  Definition regex_on_lines (lines : list string) (label : string) (regex : list instr)
    : option (list (list nat) * list nat) :=
    match parse_program (String.concat nl lines), regex_on lines label regex with
    | Ok p, Some (ms, _, cov) =>
        let line k := match nth_error p k with Some i => i_line i | None => 0 end in
        Some (map (map line) ms, map line cov)
    | _, _ => None
    end.

  Example callsub_followed_lines :
    regex_on_lines callsub_lines "*" [IInt (IANum 7)] = Some ([[6]], [1; 2; 5]).
  Proof. vm_compute. reflexivity. Qed.

  (* a pattern still runs ACROSS a callsub (is_match uses Instruction.next): callsub f; int 1 occurs at 1 *)
  Example pattern_across_callsub :
    regex_on callsub_lines "*" [ICallsub "f"; IInt (IANum 1)] = Some ([[1; 2]], [0; 0], [0]).
  Proof. vm_compute. reflexivity. Qed.
End Examples.

Print Assumptions rx_next_spec.
Print Assumptions insexec_step_rstep_rx.
Print Assumptions visited_some.
Print Assumptions match_listing.
Print Assumptions is_match_iff_occurs.
Print Assumptions visited_reach.
Print Assumptions covered_subset_visited.
Print Assumptions matches_sound_complete.
Print Assumptions matches_nodup.
Print Assumptions matches_starts_nodup.
Print Assumptions covered_sound.
Print Assumptions covered_path_partial.
Print Assumptions covered_start_partial.
Print Assumptions dfs_covered_incomplete_refuted.
Print Assumptions reaches_meaning.
Print Assumptions reaches_iff_reachable_match.
Print Assumptions find_fuel_mono.
Print Assumptions find_fuel_agree.
Print Assumptions ins_prevs_spec.
Print Assumptions back_close_spec.
Print Assumptions reaches_match_exact.
Print Assumptions dfs_covered_in_closure.
Print Assumptions covered_closed_exact.
Print Assumptions match_regex_spec.
Print Assumptions match_regex_covered_exact.
Print Assumptions match_regex_done_iff.
