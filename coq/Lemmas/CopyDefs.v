(* Definitions shared by the proofs about copy_main_cfg (Gen/CopyGen.v): the sub-program made of a successor-closed
   set M of blocks of a program p, and the block list its re-parse is expected to produce.
   Everything is stated at the level of Model/Cfg.v (build_blocks); no teal record is needed.

   sel bs M        the selected block indices, in increasing order
   sel_pos bs M    the positions (in p) of the instructions of the selected blocks, in increasing order
   index_of x l    renaming: position of x in l  (block m of p  |->  index_of m (sel bs M),
                                                   position k of p |->  index_of k (sel_pos bs M))
   sel_blocks bs M the selected blocks, renamed: same instructions, same successor lists, the predecessor lists
                   restricted to M
   sel_raw rbs M   the selected raw blocks (create_bb level), renumbered consecutively *)
From Coq Require Import String List NArith ZArith Bool Arith Lia.
From Tealer Require Import Tables Syntax Parse Cfg CfgLemmas.
Import ListNotations.
Open Scope string_scope.
Open Scope list_scope.

Fixpoint index_of (x : nat) (l : list nat) : nat :=
  match l with
  | [] => 0
  | y :: t => if Nat.eqb y x then 0 else S (index_of x t)
  end.

Definition sel (n : nat) (M : list nat) : list nat := filter (fun m => nat_mem m M) (seq 0 n).

Definition sel_pos (bs : list block) (M : list nat) : list nat :=
  flat_map (fun n => match nth_error bs n with Some b => b_ins b | None => [] end) (sel (length bs) M).

Definition sel_block (bs : list block) (M : list nat) (B : block) : block :=
  mkBlock (index_of (b_idx B) (sel (length bs) M))
          (map (fun k => index_of k (sel_pos bs M)) (b_ins B))
          (map (fun m => index_of m (sel (length bs) M)) (b_next B))
          (map (fun m => index_of m (sel (length bs) M)) (filter (fun m => nat_mem m M) (b_prev B))).

Definition sel_blocks (bs : list block) (M : list nat) : list block :=
  flat_map (fun n => match nth_error bs n with Some B => [sel_block bs M B] | None => [] end) (sel (length bs) M).

(* create_bb level: the selected raw blocks, their instructions renumbered consecutively from a *)
Fixpoint renum (a : nat) (rbs : list rawblock) : list rawblock :=
  match rbs with
  | [] => []
  | b :: r => mkRaw (seq a (length (rb_ins b))) (rb_dflt b) :: renum (a + length (rb_ins b)) r
  end.
Definition sel_raw (rbs : list rawblock) (M : list nat) : list rawblock :=
  renum 0 (flat_map (fun n => match nth_error rbs n with Some b => [b] | None => [] end) (sel (length rbs) M)).

(* the hypotheses under which the statements are made *)
Definition closed (bs : list block) (M : list nat) : Prop :=
  forall n m, In n M -> n < length bs -> In m (next_of bs n) -> In m M.
Definition copy_of (p : prog) (ks : list nat) (pc : prog) : Prop :=
  Forall2 (fun c k => op_at p k = Some (i_op c)) pc ks.

(* ---- sanity (vm_compute): a subroutine in the middle of the main code; main = blocks 0, 1, 3 *)
Definition ex_p : prog :=
  [ mkIns 1 (IPragma 6); mkIns 2 (ICallsub "f"); mkIns 3 (IB "end"); mkIns 4 (ILabel "f"); mkIns 5 (IInt (IANum 1));
    mkIns 6 IRetsub; mkIns 7 (ILabel "end"); mkIns 8 (IInt (IANum 1)); mkIns 9 IReturn ].
Definition ex_bs : list block := match build_blocks ex_p with Some bs => bs | None => [] end.
Definition ex_M : list nat := identify_subroutine_blocks ex_bs 0.
Definition ex_pc : prog := map (fun k => nth k ex_p (mkIns 0 IErr)) (sel_pos ex_bs ex_M).
Example ex_sel : sel (length ex_bs) ex_M = [0; 1; 3] /\ sel_pos ex_bs ex_M = [0; 1; 2; 6; 7; 8].
Proof. vm_compute. split; reflexivity. Qed.
Example ex_blocks : build_blocks ex_pc = Some (sel_blocks ex_bs ex_M).
Proof. vm_compute. reflexivity. Qed.
Example ex_raw : match create_bb ex_p with Some rbs => create_bb ex_pc = Some (sel_raw rbs ex_M) | None => False end.
Proof. vm_compute. reflexivity. Qed.
(* the subroutine's blocks are closed too: the statement is about any closed selection *)
Example ex_blocks_sub : let M := identify_subroutine_blocks ex_bs 2 in
  build_blocks (map (fun k => nth k ex_p (mkIns 0 IErr)) (sel_pos ex_bs M)) = Some (sel_blocks ex_bs M).
Proof. vm_compute. reflexivity. Qed.

(* the instruction edges of the copy are those of the original, renamed (proved in Lemmas/CopyNext.v from `closed`) *)
Definition next_sel (p pc : prog) (ks : list nat) : Prop :=
  forall j k, nth_error ks j = Some k ->
    exists nx, ins_next p k = Some nx /\ (forall x, In x nx -> In x ks) /\
               ins_next pc j = Some (map (fun x => index_of x ks) nx).
Definition nonempty_sel (bs : list block) (M : list nat) : Prop := exists n, In n M /\ n < length bs.
