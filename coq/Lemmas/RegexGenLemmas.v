(* The regex engine REGENERATED from tealer's Python source (Gen/RegexGen.v: find_label_gen, is_equal_gen, is_match_gen,
   successors_gen, find_instructions_gen, match_regex_gen and its while loop, translated statement by statement from
   utils/regex/regex.py by tools/translate_regex.py) against the hand-written Model/Regex.v.

   Representation: an instruction of the contract is its position in p; the Python sets visited / covered /
   reaches_match are lists read through pyset_mem / pyset_add (RegexGen prelude); `seteq` below is equality of sets.

   Results (p, regex, label arbitrary; jumps_resolve p = every jump label of p resolves, i.e. Instruction.next exists for
   every instruction -- otherwise parse_teal raises and there is no contract; it holds of every program the model
   parses: parsed_jumps_resolve).
   A. successors_gen_eq (no hypothesis):       successors_gen p k = rx_next p k.
      is_equal_gen_some / _none:               is_equal_gen p k r = Some (is_equal i r) when op_at p k = Some i, else None.
      is_match_gen_eq (jumps_resolve):         is_match_gen p cur regex = Some (is_match p cur regex) for a position of p.
   B. find_instructions_gen_sim (jumps_resolve): for EVERY state (visited V, matches M, covered C / C' with C' = C as
      sets), fuel and position
          model Done (b, st)  ->  generated Some (b, r_visited st, r_matches st, C2) with C2 = r_covered st as sets
          model Exn / OutOfFuel -> generated None
      (same fuel; visited and matches are equal as LISTS, covered as a set: Python's covered.add does not duplicate,
      the model conses).  Without jumps_resolve the statement is false at a non-initial state
      (find_instructions_gen_sim_refuted).
   C. find_label_gen_refines (no hypothesis): whenever the generated _find_label returns, it returns find_regex_label;
      find_label_gen_total: it returns under label_ok (label "*": the contract has an instruction; otherwise: the
      retained positions are positions of p and at most one of them is the label).  Outside label_ok the Python RAISES
      where the model returns: match_regex_gen_star_refuted (IndexError on instructions[0]),
      match_regex_gen_duplicate_label_refuted (AssertionError: the label is defined twice; parse_teal accepts that).
   D. match_regex_gen_refines (jumps_resolve): generated Some (ms, cov) -> model Done (ms, cov0) with cov = cov0 as sets.
      match_regex_gen_complete (jumps_resolve, label_ok, 2 * length p < wfuel): model Done (ms, cov0) -> generated
      Some (ms, cov) with cov = cov0 as sets.  match_regex_gen_exn / match_regex_gen_none_iff: the generated function
      fails exactly when the model is not Done.
      closure_gen_order_irrelevant: the order in which `for ins in visited` iterates the set does not change the result.
   E. match_regex_gen_spec / match_regex_gen_covered_exact / match_regex_gen_nolabel: the main theorems of
      Lemmas/RegexLemmas.v transported to the generated function. *)
From Coq Require Import String List NArith ZArith Bool Arith Lia.
From Tealer Require Import Tables Syntax Parse Cfg Analysis KeysGen Regex RegexGen SubLemmas RegexLemmas.
Import ListNotations.
Close Scope string_scope.
Open Scope nat_scope.
Open Scope list_scope.

(* ====================================================================== *)
(* 0. sets as lists                                                         *)
(* ====================================================================== *)
Definition seteq (a b : list nat) : Prop := forall x, In x a <-> In x b.

Lemma seteq_refl a : seteq a a. Proof. intros x; reflexivity. Qed.
Lemma seteq_sym a b : seteq a b -> seteq b a. Proof. intros H x; symmetry; apply H. Qed.
Lemma seteq_trans a b c : seteq a b -> seteq b c -> seteq a c.
Proof. intros H1 H2 x. rewrite (H1 x). apply H2. Qed.

Lemma pyset_mem_nat_mem x s : pyset_mem x s = nat_mem x s.
Proof. reflexivity. Qed.

Lemma pyset_mem_iff x s : pyset_mem x s = true <-> In x s.
Proof. apply nat_mem_iff. Qed.

Lemma pyset_mem_seteq x a b : seteq a b -> pyset_mem x a = pyset_mem x b.
Proof.
  intros H. destruct (pyset_mem x b) eqn:E.
  - apply pyset_mem_iff. apply H. apply pyset_mem_iff. exact E.
  - destruct (pyset_mem x a) eqn:E'; [|reflexivity].
    apply pyset_mem_iff in E'. apply H in E'. apply pyset_mem_iff in E'. congruence.
Qed.

Lemma pyset_add_In x s y : In y (pyset_add x s) <-> y = x \/ In y s.
Proof.
  unfold pyset_add. destruct (pyset_mem x s) eqn:E.
  - apply pyset_mem_iff in E. split; [auto|]. intros [->|H]; assumption.
  - simpl. split; intros [H|H]; auto.
Qed.

Lemma pyset_add_seteq x a b : seteq a b -> seteq (pyset_add x a) (x :: b).
Proof. intros H y. rewrite pyset_add_In. simpl. rewrite (H y). split; intros [E|E]; auto. Qed.

Lemma pyset_add_new x s : pyset_mem x s = false -> pyset_add x s = x :: s.
Proof. intros H. unfold pyset_add. rewrite H. reflexivity. Qed.

Lemma pyset_union_In b : forall a y, In y (pyset_union a b) <-> In y a \/ In y b.
Proof.
  unfold pyset_union. induction b as [|x b IH]; intros a y; simpl.
  - tauto.
  - rewrite IH, pyset_add_In. split; [intros [[->|H]|H] | intros [H|[<-|H]]]; auto.
Qed.

(* every jump label of the program resolves: Instruction.next exists for every instruction (otherwise parse_teal
   raises KeyError and there is no contract to match) *)
Definition jumps_resolve (p : prog) : Prop := forall k i, op_at p k = Some i -> ins_next p k <> None.

Lemma ins_next_in_range p k nx n : ins_next p k = Some nx -> In n nx -> exists i, op_at p n = Some i.
Proof.
  unfold ins_next. destruct (op_at p k) as [i|] eqn:Hop; [|discriminate].
  destruct (map_opt (find_label p) (jump_labels i)) as [js|] eqn:Hj; [|discriminate].
  intros H Hin. inversion H; subst nx. apply in_app_or in Hin. destruct Hin as [Hin|Hin].
  - destruct (negb (no_fallthrough i) && (S k <? length p)) eqn:E; [|destruct Hin].
    destruct Hin as [<-|[]]. apply andb_true_iff in E. destruct E as [_ E]. apply Nat.ltb_lt in E.
    unfold op_at. destruct (nth_error p (S k)) as [x|] eqn:En; [eexists; reflexivity|].
    apply nth_error_None in En. lia.
  - apply (map_opt_In _ _ _ n Hj) in Hin. destruct Hin as (l & _ & Hl).
    exists (ILabel l). apply find_label_spec. exact Hl.
Qed.

(* ====================================================================== *)
(* 1. _is_equal, _successors                                                *)
(* ====================================================================== *)
Lemma is_equal_gen_some p k i r : op_at p k = Some i -> is_equal_gen p k r = Some (is_equal i r).
Proof.
  intros H. unfold is_equal_gen, ins_type, ins_str, pat_type, pat_str, is_equal. rewrite H. simpl.
  destruct (String.eqb (cls_of i) (cls_of r)); reflexivity.
Qed.

Lemma is_equal_gen_none p k r : op_at p k = None -> is_equal_gen p k r = None.
Proof. intros H. unfold is_equal_gen, ins_type. rewrite H. reflexivity. Qed.

Theorem successors_gen_eq p k : successors_gen p k = rx_next p k.
Proof.
  unfold successors_gen, rx_next, ins_isinstance_Callsub, ins_called_subroutine_entry_entry_instr, ins_attr_next.
  destruct (op_at p k) as [i|] eqn:Hop.
  - destruct (ins_next p k) as [nx|]; destruct i; simpl; try reflexivity.
    destruct (find_label p l); reflexivity.
  - unfold ins_next. rewrite Hop. reflexivity.
Qed.

Definition valid_cur (p : prog) (cur : option nat) : Prop :=
  match cur with Some k => exists i, op_at p k = Some i | None => True end.

Lemma single_next_valid p k : valid_cur p (single_next p k).
Proof.
  unfold single_next. destruct (ins_next p k) as [[|n [|m nx]]|] eqn:E; simpl; auto.
  apply (ins_next_in_range p k [n] n E). left; reflexivity.
Qed.

Lemma len_two {A} (a b : A) l : (len (a :: b :: l) =? 1)%Z = false.
Proof. apply Z.eqb_neq. unfold len. simpl length. lia. Qed.

Section IsMatch.
  Variable p : prog.
  Hypothesis Hp : jumps_resolve p.

  Lemma is_match_gen_eq : forall regex cur, valid_cur p cur ->
    is_match_gen p cur regex = Some (is_match p cur regex).
  Proof.
    intros regex cur Hv. unfold is_match_gen.
    match goal with |- context [fold_left ?f _ _] => set (F := f) end.
    assert (Hearly : forall rs b c, fold_left F rs (Some (Some b, c)) = Some (Some b, c)).
    { induction rs as [|r rs IH]; intros b c; [reflexivity|]. apply IH. }
    assert (Hmain : forall rs c, valid_cur p c -> exists c',
              fold_left F rs (Some (None, c)) = Some ((if is_match p c rs then None else Some false), c')).
    { induction rs as [|r rs IH]; intros c Hc.
      - exists c. destruct c; reflexivity.
      - destruct c as [k|].
        + destruct Hc as (i & Hop).
          change (fold_left F (r :: rs) (Some (None, Some k))) with (fold_left F rs (F (Some (None, Some k)) r)).
          assert (HF : F (Some (None, Some k)) r =
                       if is_equal i r then Some (None, single_next p k) else Some (Some false, Some k)).
          { unfold F. cbv beta. cbn [bind fst snd]. rewrite (is_equal_gen_some p k i r Hop).
            destruct (is_equal i r); [|reflexivity]. cbn [notE option_map negb ifE].
            unfold ins_attr_next, single_next.
            destruct (ins_next p k) as [[|n [|m nx]]|] eqn:En; try reflexivity.
            - cbn [bind ret truthy_list andE]. rewrite len_two. reflexivity.
            - exfalso. exact (Hp k i Hop En). }
          rewrite HF. cbn [is_match]. rewrite Hop.
          destruct (is_equal i r).
          * apply IH. apply single_next_valid.
          * rewrite Hearly. eexists; reflexivity.
        + change (fold_left F (r :: rs) (Some (None, None))) with (fold_left F rs (F (Some (None, None)) r)).
          replace (F (Some (None, None)) r) with (Some (Some false, @None nat)) by reflexivity.
          rewrite Hearly. eexists; reflexivity. }
    change (ret (@None bool, cur)) with (Some (@None bool, cur)).
    destruct (Hmain regex cur Hv) as (c' & ->). cbn [bind fst snd].
    destruct (is_match p cur regex); reflexivity.
  Qed.
End IsMatch.

Definition gres : Type := (bool * list nat * list (list nat) * list nat)%type.
Definition gfold : Type := (list nat * list (list nat) * list nat * bool)%type.

Definition rel_res (g : py gres) (m : outcome (bool * rstate)) : Prop :=
  match m with
  | Done (b, st) => exists C, g = Some (b, r_visited st, r_matches st, C) /\ seteq C (r_covered st)
  | _ => g = None
  end.

Definition rel_fold (g : py gfold) (m : outcome (bool * rstate)) : Prop :=
  match m with
  | Done (b, st) => exists C, g = Some (r_visited st, r_matches st, C, b) /\ seteq C (r_covered st)
  | _ => g = None
  end.

Lemma rx_next_none p k : op_at p k = None -> rx_next p k = None.
Proof. intros H. unfold rx_next, ins_next. rewrite H. reflexivity. Qed.

Lemma py_range_length (r0 : instr) rs : length (py_range 0 (len (r0 :: rs) - 1)) = length rs.
Proof.
  unfold py_range, len. rewrite map_length, seq_length. simpl length. lia.
Qed.

Section Collect.
  Variable p : prog.
  Local Notation cstate := (option bool * bool * list nat * nat)%type.
  Variable G : py cstate -> Z -> py cstate.
  Hypothesis HG : forall m c z n, ins_next p c = Some [n] ->
    G (Some (None, false, m, c)) z = Some (None, false, m ++ [c], n).

  Lemma collect_generic : forall rs r0 c m zs, length zs = length rs ->
    is_match p (Some c) (r0 :: rs) = true ->
    exists l c', collect_match p c (length rs) = l ++ [c'] /\
                 fold_left G zs (Some (None, false, m, c)) = Some (None, false, m ++ l, c').
  Proof.
    induction rs as [|r1 rs IH]; intros r0 c m zs Hlen Hm.
    - destruct zs; [|discriminate]. exists [], c. simpl. rewrite app_nil_r. split; reflexivity.
    - destruct zs as [|z zs]; [discriminate|]. simpl in Hlen. injection Hlen as Hlen.
      cbn [is_match] in Hm. destruct (op_at p c) as [i|]; [|discriminate].
      destruct (is_equal i r0); [|discriminate].
      destruct (single_next p c) as [n|] eqn:Es; [|discriminate].
      assert (En : ins_next p c = Some [n]).
      { unfold single_next in Es. destruct (ins_next p c) as [[|a [|b t]]|]; try discriminate. congruence. }
      destruct (IH r1 n (m ++ [c]) zs Hlen Hm) as (l & c' & Hc & Hf).
      exists (c :: l), c'. split.
      + cbn [collect_match length]. rewrite Es, Hc. reflexivity.
      + cbn [fold_left]. rewrite (HG m c z n En), Hf, <- app_assoc. reflexivity.
  Qed.
End Collect.

Section DfsFold.
  Variable p : prog.
  Variable regex : list instr.
  Variables fu cur : nat.
  Variable rec : nat -> list nat -> list (list nat) -> list nat -> py gres.
  Hypothesis Hrec : forall n V M C C', seteq C' C ->
    rel_res (rec n V M C') (find_instructions fu p regex n (mkR V M C)).
  Variable G : py gfold -> nat -> py gfold.
  Hypothesis HGnone : forall n, G None n = None.
  Hypothesis HG : forall V M C b n,
    G (Some (V, M, C, b)) n =
    if pyset_mem n C then Some (V, M, C, b) else
    match rec n V M C with
    | None => None
    | Some (r, V', M', C') => if r then Some (V', M', pyset_add cur C', true) else Some (V', M', C', b)
    end.

  Lemma fold_G_none nx : fold_left G nx None = None.
  Proof. induction nx as [|n nx IH]; [reflexivity|]. simpl. rewrite HGnone. exact IH. Qed.

  Lemma dfs_fold_generic : forall nx V M C C' b, seteq C' C ->
    rel_fold (fold_left G nx (Some (V, M, C', b))) (fold_left (body p regex fu cur) nx (Done (b, mkR V M C))).
  Proof.
    induction nx as [|n nx IH]; intros V M C C' b HC.
    - simpl. exists C'. split; [reflexivity | assumption].
    - cbn [fold_left]. rewrite HG. unfold body at 2. cbn [r_covered].
      rewrite (pyset_mem_seteq n C' C HC), pyset_mem_nat_mem.
      destruct (nat_mem n C) eqn:Ec.
      + apply IH. assumption.
      + pose proof (Hrec n V M C C' HC) as Hr.
        destruct (find_instructions fu p regex n (mkR V M C)) as [[r s']| |]; simpl in Hr.
        * destruct Hr as (C2 & -> & HC2). destruct s' as [V' M' C0]. simpl in *.
          destruct r.
          -- apply IH. apply pyset_add_seteq. assumption.
          -- apply IH. assumption.
        * rewrite Hr, fold_G_none. rewrite fold_body_notdone by discriminate. reflexivity.
        * rewrite Hr, fold_G_none. rewrite fold_body_notdone by discriminate. reflexivity.
  Qed.

  Lemma k1_generic : forall V M C C' b, seteq C' C ->
    rel_res (bind (rx_next p cur) (fun tmp2 =>
               bind (fold_left G tmp2 (Some (V, M, C', b)))
                 (fun tmp3 => ret (snd tmp3, fst (fst (fst tmp3)), snd (fst (fst tmp3)), snd (fst tmp3)))))
            (match rx_next p cur with
             | None => Exn "KeyError: label"%string
             | Some nx => fold_left (body p regex fu cur) nx (Done (b, mkR V M C))
             end).
  Proof.
    intros V M C C' b HC. destruct (rx_next p cur) as [nx|]; [|reflexivity].
    cbn [bind]. pose proof (dfs_fold_generic nx V M C C' b HC) as H.
    destruct (fold_left (body p regex fu cur) nx (Done (b, mkR V M C))) as [[r s]| |]; simpl in H.
    - destruct H as (C2 & -> & HC2). exists C2. split; [reflexivity | assumption].
    - rewrite H. reflexivity.
    - rewrite H. reflexivity.
  Qed.
End DfsFold.

Lemma is_match_gen_out p cur r rs : op_at p cur = None -> is_match_gen p (Some cur) (r :: rs) = None.
Proof.
  intros Hop. unfold is_match_gen.
  match goal with |- context [fold_left ?f _ _] => set (F := f) end.
  assert (Hnone : forall l, fold_left F l None = None).
  { induction l as [|x l IH]; [reflexivity | exact IH]. }
  change (fold_left F (r :: rs) (ret (@None bool, Some cur))) with (fold_left F rs (F (Some (None, Some cur)) r)).
  replace (F (Some (None, Some cur)) r) with (@None (option bool * option nat)).
  - rewrite Hnone. reflexivity.
  - unfold F. cbv beta. cbn [bind fst snd]. rewrite (is_equal_gen_none p cur r Hop). reflexivity.
Qed.

Section Sim.
  Variable p : prog.
  Hypothesis Hp : jumps_resolve p.
  Variable regex : list instr.

  Theorem find_instructions_gen_sim : forall fuel cur V M C C', seteq C' C ->
    rel_res (find_instructions_gen p fuel cur regex V M C') (find_instructions fuel p regex cur (mkR V M C)).
  Proof.
    induction fuel as [|fu IH]; intros cur V M C C' HC; [reflexivity|].
    rewrite find_unfold. cbn [find_instructions_gen r_visited].
    rewrite pyset_mem_nat_mem. destruct (nat_mem cur V) eqn:Ev.
    { exists C'. split; [reflexivity | assumption]. }
    rewrite (pyset_add_new cur V Ev), successors_gen_eq.
    match goal with |- context [fold_left ?f _ (ret (cur :: V, _, _, _))] => set (G := f) end.
    assert (HGnone : forall n, G None n = None) by reflexivity.
    assert (HG : forall V M C b n,
      G (Some (V, M, C, b)) n =
      if pyset_mem n C then Some (V, M, C, b) else
      match find_instructions_gen p fu n regex V M C with
      | None => None
      | Some (r, V', M', C') => if r then Some (V', M', pyset_add cur C', true) else Some (V', M', C', b)
      end).
    { intros V0 M0 C0 b n. unfold G. cbv beta. cbn [bind fst snd].
      destruct (pyset_mem n C0); [reflexivity|].
      destruct (find_instructions_gen p fu n regex V0 M0 C0) as [[[[r V1] M1] C1]|]; [|reflexivity].
      cbn [bind fst snd]. destruct r; reflexivity. }
    pose proof (k1_generic p regex fu cur (fun n V M C => find_instructions_gen p fu n regex V M C)
                  (fun n V M C C' H => IH n V M C C' H) G HGnone HG) as Hk1.
    destruct (op_at p cur) as [i|] eqn:Hop.
    - rewrite (is_match_gen_eq p Hp regex (Some cur)) by (exists i; exact Hop).
      unfold enter, im. destruct (is_match p (Some cur) regex) eqn:Em; cbn [ifE].
      + (* a match: the walk along it *)
        match goal with |- context [fold_left ?f (py_range _ _) _] => set (W := f) end.
        assert (HW : forall m c z n, ins_next p c = Some [n] ->
                  W (Some (None, false, m, c)) z = Some (None, false, m ++ [c], n)).
        { intros m c z n En. unfold W. cbv beta. cbn [bind fst snd negb truthy_instruction].
          unfold ins_attr_next. rewrite En. reflexivity. }
        destruct regex as [|r0 rs] eqn:Er.
        * cbn [fold_left py_range bind fst snd cm collect_match length pred app].
          change (py_range 0 (len (@nil instr) - 1)) with (@nil Z). cbn [fold_left bind fst snd app].
          apply (Hk1 (cur :: V) (M ++ [[cur]]) C C' true HC).
        * destruct (collect_generic p W HW rs r0 cur [] (py_range 0 (len (r0 :: rs) - 1))
                      (py_range_length r0 rs) Em) as (l & c' & Hc & Hf).
          change (ret (@None bool, false, @nil nat, cur)) with (Some (@None bool, false, @nil nat, cur)).
          rewrite Hf. cbn [bind fst snd app]. unfold cm. cbn [length pred]. rewrite Hc.
          apply (Hk1 (cur :: V) (M ++ [l ++ [c']]) C C' true HC).
      + apply (Hk1 (cur :: V) M C C' false HC).
    - (* a position outside the program: both sides fail *)
      rewrite (rx_next_none p cur Hop). cbn [rel_res].
      destruct regex as [|r0 rs].
      + change (is_match_gen p (Some cur) []) with (Some true). cbn [ifE].
        change (py_range 0 (len (@nil instr) - 1)) with (@nil Z). cbn [fold_left bind fst snd ret].
        reflexivity.
      + rewrite (is_match_gen_out p cur r0 rs Hop). reflexivity.
  Qed.
End Sim.

(* ====================================================================== *)
(* the predecessor map                                                     *)
(* ====================================================================== *)
Lemma dd_get_append d n x : forall k j,
  In j (dd_get (dd_append d n x) k) <-> In j (dd_get d k) \/ (n = k /\ j = x).
Proof.
  induction d as [|[k' v] d IH]; intros k j; simpl.
  - destruct (Nat.eqb n k) eqn:E.
    + apply Nat.eqb_eq in E. simpl. split; [intros [<-|[]]; auto | intros [[]|[_ ->]]; auto].
    + apply Nat.eqb_neq in E. simpl. split; [intros [] | intros [[]|[H _]]; contradiction].
  - destruct (Nat.eqb k' n) eqn:E1; simpl.
    + apply Nat.eqb_eq in E1. subst k'. destruct (Nat.eqb n k) eqn:E2.
      * apply Nat.eqb_eq in E2. rewrite in_app_iff. simpl.
        split; [intros [H|[<-|[]]]; auto | intros [H|[_ ->]]; auto].
      * apply Nat.eqb_neq in E2. split; [auto | intros [H|[H _]]; [assumption | contradiction]].
    + destruct (Nat.eqb k' k) eqn:E2.
      * apply Nat.eqb_eq in E2. apply Nat.eqb_neq in E1. subst k'.
        split; [auto | intros [H|[H _]]; [assumption | congruence]].
      * apply IH.
Qed.

(* the inner loop: for next_ins in _successors(ins): predecessors[next_ins].append(ins) *)
Lemma preds_inner ins : forall nx d0, exists d,
  fold_left (fun (acc : py (list (nat * list nat))) next_ins =>
               bind acc (fun st => ret (dd_append st next_ins ins))) nx (Some d0) = Some d /\
  forall k j, In j (dd_get d k) <-> In j (dd_get d0 k) \/ (In k nx /\ j = ins).
Proof.
  induction nx as [|n nx IH]; intros d0.
  - exists d0. split; [reflexivity|]. intros k j. simpl. tauto.
  - destruct (IH (dd_append d0 n ins)) as (d & Hf & Hd). exists d. split; [exact Hf|].
    intros k j. rewrite Hd, dd_get_append. simpl. tauto.
Qed.

Section Preds.
  Variable p : prog.
  Variable F : py (list (nat * list nat)) -> nat -> py (list (nat * list nat)).
  Hypothesis HF : forall d ins, F (Some d) ins =
    bind (rx_next p ins) (fun nx =>
      fold_left (fun (acc : py (list (nat * list nat))) next_ins =>
                   bind acc (fun st => ret (dd_append st next_ins ins))) nx (Some d)).

  Lemma preds_outer : forall V d0, all_some p V -> exists d,
    fold_left F V (Some d0) = Some d /\
    forall k j, In j (dd_get d k) <->
                In j (dd_get d0 k) \/ (In j V /\ exists nx, rx_next p j = Some nx /\ In k nx).
  Proof.
    induction V as [|v V IH]; intros d0 Hall.
    - exists d0. split; [reflexivity|]. intros k j. simpl. split; [auto | intros [H|[[] _]]; assumption].
    - destruct (Hall v (or_introl eq_refl)) as (nx & Hnx).
      destruct (preds_inner v nx d0) as (d1 & Hf1 & Hd1).
      destruct (IH d1 (fun x Hx => Hall x (or_intror Hx))) as (d & Hf & Hd).
      exists d. split.
      + cbn [fold_left]. rewrite HF, Hnx. cbn [bind]. rewrite Hf1. exact Hf.
      + intros k j. rewrite Hd, Hd1. simpl. split.
        * intros [[H|[H ->]]|(H & nx' & Hn & Hk)].
          -- left; assumption.
          -- right. split; [left; reflexivity|]. exists nx. split; assumption.
          -- right. split; [right; assumption|]. exists nx'. split; assumption.
        * intros [H|([<-|H] & nx' & Hn & Hk)].
          -- left; left; assumption.
          -- left; right. rewrite Hnx in Hn. inversion Hn; subst nx'. split; [assumption | reflexivity].
          -- right. split; [assumption|]. exists nx'. split; assumption.
  Qed.
End Preds.

(* ====================================================================== *)
(* worklist = [match[0] for match in matches]                               *)
(* ====================================================================== *)
Lemma mapE_heads : forall M : list (list nat), (forall m, In m M -> m <> []) ->
  mapE (fun match_ => subscript match_ 0) M = Some (match_heads M).
Proof.
  induction M as [|m M IH]; intros H; [reflexivity|].
  cbn [mapE]. destruct m as [|k m]; [exfalso; apply (H []); [left; reflexivity | reflexivity]|].
  rewrite IH by (intros x Hx; apply H; right; assumption).
  reflexivity.
Qed.

(* ====================================================================== *)
(* the while loop                                                           *)
(* ====================================================================== *)
Lemma list_pop_rev {A} (k : A) wl : list_pop (rev (k :: wl)) = Some (k, rev wl).
Proof. unfold list_pop. rewrite rev_involutive. reflexivity. Qed.

Section While.
  Variable p : prog.
  Variable preds : list (nat * list nat).

  Lemma while_inner : forall l wl acc,
    fold_left (fun (acc0 : py (list nat * list nat)) prev_ins =>
                 bind acc0 (fun st =>
                   if negb (pyset_mem prev_ins (fst st))
                   then ret (pyset_add prev_ins (fst st), snd st ++ [prev_ins])
                   else ret (fst st, snd st))) l (Some (acc, rev wl)) =
    Some (snd (fold_left back_push l (wl, acc)), rev (fst (fold_left back_push l (wl, acc)))).
  Proof.
    induction l as [|j l IH]; intros wl acc; [reflexivity|].
    cbn [fold_left bind fst snd]. unfold back_push at 2 4. cbn [fst snd]. rewrite pyset_mem_nat_mem.
    destruct (nat_mem j acc) eqn:E; cbn [negb].
    - apply IH.
    - rewrite (pyset_add_new j acc E). change (rev wl ++ [j]) with (rev (j :: wl)). apply IH.
  Qed.

  Lemma while_some : forall wfuel wl acc r,
    match_regex_gen_while1 p wfuel preds (rev wl) acc = Some r ->
    forall w', wfuel <= w' -> r = ([], back_close w' (dd_get preds) wl acc).
  Proof.
    induction wfuel as [|fu IH]; intros wl acc r H w' Hw; [discriminate|].
    destruct w' as [|w']; [lia|].
    cbn [match_regex_gen_while1] in H. destruct wl as [|k wl].
    - simpl in H. inversion H. reflexivity.
    - replace (truthy_list (rev (k :: wl))) with true in H
        by (simpl; destruct (rev wl); reflexivity).
      rewrite list_pop_rev in H. cbn [bind fst snd] in H.
      rewrite while_inner in H. cbn [bind fst snd] in H.
      cbn [back_close]. apply (IH _ _ _ H). lia.
  Qed.

  Lemma while_total (V : list nat) : (forall k j, In j (dd_get preds k) -> In j V) ->
    forall wfuel wl acc, NoDup acc -> incl acc V -> length wl + length V < wfuel + length acc ->
    exists r, match_regex_gen_while1 p wfuel preds (rev wl) acc = Some r.
  Proof.
    intros Hprev. induction wfuel as [|fu IH]; intros wl acc Hnd Hincl Hlen.
    - pose proof (NoDup_incl_length Hnd Hincl). simpl in Hlen. lia.
    - cbn [match_regex_gen_while1]. destruct wl as [|k wl].
      + simpl. eexists; reflexivity.
      + replace (truthy_list (rev (k :: wl))) with true by (simpl; destruct (rev wl); reflexivity).
        rewrite list_pop_rev. cbn [bind fst snd]. rewrite while_inner. cbn [bind fst snd].
        destruct (fold_push (dd_get preds k) wl acc) as (new & E & H1 & H2 & H3). rewrite E. cbn [fst snd].
        apply IH.
        * apply H2; assumption.
        * intros x Hx. apply in_app_or in Hx. destruct Hx as [Hx|Hx]; [|apply Hincl; assumption].
          apply (Hprev k x). apply (H1 x Hx).
        * rewrite !app_length. simpl in Hlen. lia.
  Qed.
End While.

(* ====================================================================== *)
(* _find_label                                                              *)
(* ====================================================================== *)
Definition is_label_at (p : prog) (label : string) (k : nat) : bool :=
  match op_at p k with Some (ILabel l) => String.eqb l label | _ => false end.

Lemma find_hd_filter {A} (g : A -> bool) l : find g l = hd_error (filter g l).
Proof. induction l as [|x l IH]; [reflexivity|]. simpl. destruct (g x); [reflexivity | exact IH]. Qed.

Section FindLabel.
  Variable p : prog.
  Variable label : string.
  Let f := fun ins : nat =>
    andE (ins_isinstance_Label p ins)
         (bind (ins_attr_label p ins) (fun tmp3 => ret (String.eqb tmp3 label))).

  Lemma label_test k : f k = option_map (fun _ => is_label_at p label k) (op_at p k).
  Proof.
    unfold f, is_label_at, ins_isinstance_Label, ins_attr_label.
    destruct (op_at p k) as [i|]; [|reflexivity]. destruct i; reflexivity.
  Qed.

  Lemma filterE_some : forall l m, filterE f l = Some m -> m = filter (is_label_at p label) l.
  Proof.
    induction l as [|k l IH]; intros m H.
    - inversion H. reflexivity.
    - cbn [filterE] in H. rewrite label_test in H. destruct (op_at p k) as [i|] eqn:Hop; [|discriminate].
      cbn [option_map bind] in H. destruct (filterE f l) as [r|]; [|discriminate].
      cbn [bind ret] in H. inversion H. cbn [filter]. rewrite <- (IH r eq_refl). reflexivity.
  Qed.

  Lemma filterE_total : forall l, Forall (fun k => exists i, op_at p k = Some i) l ->
    filterE f l = Some (filter (is_label_at p label) l).
  Proof.
    induction l as [|k l IH]; intros H; [reflexivity|].
    inversion H as [|? ? (i & Hop) Hl]; subst. cbn [filterE]. rewrite label_test, Hop, (IH Hl). reflexivity.
  Qed.
End FindLabel.

Lemma find_regex_label_alt t label :
  find_regex_label t label =
  if String.eqb label "*" then hd_error (t_retained_ins t)
  else hd_error (filter (is_label_at (t_prog t) label) (t_retained_ins t)).
Proof. unfold find_regex_label. rewrite find_hd_filter. reflexivity. Qed.

Lemma len_le_1 {A} (l : list A) : (len l <=? 1)%Z = true -> l = [] \/ exists x, l = [x].
Proof.
  intros H. apply Z.leb_le in H. unfold len in H. destruct l as [|x [|y l]]; [auto | right; eauto | simpl length in H; lia].
Qed.

(* whenever the generated lookup returns, it returns what the model returns (no hypothesis) *)
Theorem find_label_gen_refines t label r :
  find_label_gen (t_prog t) (t_retained_ins t) label = Some r -> r = find_regex_label t label.
Proof.
  rewrite find_regex_label_alt. unfold find_label_gen. destruct (String.eqb label "*").
  - destruct (t_retained_ins t) as [|k l]; [discriminate|]. simpl. intros H; inversion H; reflexivity.
  - destruct (filterE _ (t_retained_ins t)) as [m|] eqn:Ef; [|discriminate].
    apply filterE_some in Ef. subst m. cbn [bind assert_true ret].
    destruct (len (filter _ (t_retained_ins t)) <=? 1)%Z eqn:El; [|discriminate].
    apply len_le_1 in El. destruct El as [->|(x & ->)]; simpl; intros H; inversion H; reflexivity.
Qed.

(* the conditions under which Python's _find_label does not raise *)
Definition label_ok (t : teal) (label : string) : Prop :=
  if String.eqb label "*" then t_retained_ins t <> []
  else Forall (fun k => exists i, op_at (t_prog t) k = Some i) (t_retained_ins t) /\
       length (filter (is_label_at (t_prog t) label) (t_retained_ins t)) <= 1.

Theorem find_label_gen_total t label : label_ok t label ->
  find_label_gen (t_prog t) (t_retained_ins t) label = Some (find_regex_label t label).
Proof.
  unfold label_ok. rewrite find_regex_label_alt. unfold find_label_gen. destruct (String.eqb label "*").
  - intros H. destruct (t_retained_ins t) as [|k l]; [contradiction | reflexivity].
  - intros (Hall & Hlen). rewrite (filterE_total _ _ _ Hall). cbn [bind assert_true ret].
    destruct (filter _ (t_retained_ins t)) as [|x [|y l]]; [reflexivity | reflexivity | simpl in Hlen; lia].
Qed.

Lemma bind_ret {A} (x : py A) : bind x (fun y => ret y) = x.
Proof. destruct x; reflexivity. Qed.

(* the predecessor map built by match_regex_gen from the visited set V *)
Lemma preds_gen p V : all_some p V -> exists d,
  fold_left
    (fun (acc : py (list (nat * list nat))) (ins : nat) =>
     bind acc (fun st : list (nat * list nat) =>
       bind (successors_gen p ins) (fun tmp3 : list nat =>
         bind (fold_left
                 (fun (acc0 : py (list (nat * list nat))) (next_ins : nat) =>
                  bind acc0 (fun st0 : list (nat * list nat) => ret (dd_append st0 next_ins ins))) tmp3 (ret st))
              (fun tmp4 : list (nat * list nat) => ret tmp4))))
    V (ret []) = Some d /\
  forall j k, In j (dd_get d k) <-> In j V /\ rstep_rx p j k.
Proof.
  intros Hall.
  match goal with |- context [fold_left ?f V _] => set (F := f) end.
  assert (HF : forall d ins, F (Some d) ins =
    bind (rx_next p ins) (fun nx =>
      fold_left (fun (acc : py (list (nat * list nat))) next_ins =>
                   bind acc (fun st => ret (dd_append st next_ins ins))) nx (Some d))).
  { intros d ins. unfold F. cbv beta. cbn [bind]. rewrite successors_gen_eq.
    destruct (rx_next p ins) as [nx|]; [|reflexivity]. cbn [bind]. apply bind_ret. }
  destruct (preds_outer p F HF V [] Hall) as (d & Hd & Hspec). exists d. split; [exact Hd|].
  intros j k. rewrite Hspec. simpl. split.
  - intros [[]|(Hj & nx & Hn & Hk)]. split; [assumption | eapply rx_step_in; eassumption].
  - intros (Hj & Hs). right. split; [assumption|]. destruct (Hall j Hj) as (nx & Hn).
    exists nx. split; [assumption | eapply rx_step_inv; eassumption].
Qed.

Lemma matches_nonempty p regex fuel start r st :
  find_instructions fuel p regex start (mkR [] [] []) = Done (r, st) ->
  forall m, In m (r_matches st) -> m <> [].
Proof.
  intros Hrun m Hm. rewrite (matches_exact p regex fuel start r st Hrun) in Hm.
  apply in_map_iff in Hm. destruct Hm as (k & <- & _). unfold cm.
  pose proof (collect_match_hd p k (pred (length regex))) as Hh. intros E. rewrite E in Hh. discriminate.
Qed.

Lemma reaches_match_BReach p regex fuel start r st :
  find_instructions fuel p regex start (mkR [] [] []) = Done (r, st) ->
  forall c, In c (reaches_match p (r_visited st) (r_matches st)) <->
            BReach p (r_visited st) (match_heads (r_matches st)) c.
Proof.
  intros Hrun c. rewrite (reaches_match_exact p regex fuel start r st Hrun).
  symmetry. apply (BReach_run p regex fuel start r st Hrun).
Qed.

(* ====================================================================== *)
(* match_regex                                                              *)
(* ====================================================================== *)
Theorem match_regex_gen_refines : forall fuel wfuel t label regex ms cov,
  jumps_resolve (t_prog t) ->
  match_regex_gen fuel wfuel t (label, regex) = Some (ms, cov) ->
  exists cov0, match_regex fuel t label regex = Done (ms, cov0) /\ seteq cov cov0.
Proof.
  intros fuel wfuel t label regex ms cov Hp H. unfold match_regex_gen in H.
  unfold teal_prog, teal_instructions, regex_label, regex_instructions, pyset_empty, dd_empty, pyset_elements in H.
  cbn [fst snd] in H.
  destruct (find_label_gen (t_prog t) (t_retained_ins t) label) as [lab|] eqn:El; cbn [bind] in H; [|discriminate].
  apply find_label_gen_refines in El. unfold match_regex. rewrite <- El.
  destruct lab as [start|].
  2:{ inversion H; subst. exists []. split; [reflexivity | apply seteq_refl]. }
  pose proof (find_instructions_gen_sim (t_prog t) Hp regex fuel start [] [] [] [] (seteq_refl [])) as Hs.
  destruct (find_instructions fuel (t_prog t) regex start (mkR [] [] [])) as [[b st]| |] eqn:Erun; simpl in Hs;
    try (rewrite Hs in H; discriminate).
  destruct Hs as (C2 & Hg & HC2). rewrite Hg in H. cbn [bind fst snd] in H.
  destruct (preds_gen (t_prog t) (r_visited st) (visited_some _ _ _ _ _ _ Erun)) as (d & Hd & Hprev).
  rewrite Hd in H. cbn [bind] in H.
  rewrite (mapE_heads _ (matches_nonempty _ _ _ _ _ _ Erun)) in H. cbn [bind] in H.
  set (hs := match_heads (r_matches st)) in *.
  destruct (match_regex_gen_while1 (t_prog t) wfuel d hs []) as [res|] eqn:Ew; cbn [bind] in H; [|discriminate].
  inversion H; subst ms cov. clear H.
  rewrite <- (rev_involutive hs) in Ew.
  pose proof (while_some (t_prog t) d wfuel (rev hs) [] res Ew
                (Nat.max wfuel (S (length (rev hs) + length (r_visited st)))) (Nat.le_max_l _ _)) as Hres.
  subst res. cbn [snd].
  eexists. split; [reflexivity|].
  intros c. rewrite pyset_union_In, in_app_iff, (HC2 c).
  rewrite (reaches_match_BReach _ _ _ _ _ _ Erun c). fold hs.
  assert (Hlen : length (rev hs) + length (r_visited st) <
                 Nat.max wfuel (S (length (rev hs) + length (r_visited st)))) by lia.
  rewrite (back_close_spec (t_prog t) (dd_get d) (r_visited st) hs Hprev _ (rev hs)
             (fun k => iff_sym (in_rev hs k)) Hlen c).
  reflexivity.
Qed.

Lemma filter_len {A} (g : A -> bool) l : length (filter g l) <= length l.
Proof. induction l as [|x l IH]; [auto|]. simpl. destruct (g x); simpl; lia. Qed.

Lemma visited_bound p regex fuel start r st :
  find_instructions fuel p regex start (mkR [] [] []) = Done (r, st) -> length (r_visited st) <= length p.
Proof.
  intros Hrun. rewrite <- (seq_length (length p) 0).
  apply NoDup_incl_length; [exact (visited_nodup p regex fuel start r st Hrun)|].
  intros v Hv. destruct (visited_some p regex fuel start r st Hrun v Hv) as (nx & Hn).
  apply in_seq. split; [lia|]. simpl.
  destruct (op_at p v) as [i|] eqn:Hop; [|rewrite (rx_next_none p v Hop) in Hn; discriminate].
  unfold op_at in Hop. destruct (nth_error p v) eqn:En; [|discriminate].
  apply nth_error_Some. congruence.
Qed.

Theorem match_regex_gen_complete : forall fuel wfuel t label regex ms cov0,
  jumps_resolve (t_prog t) -> label_ok t label ->
  match_regex fuel t label regex = Done (ms, cov0) ->
  2 * length (t_prog t) < wfuel ->
  exists cov, match_regex_gen fuel wfuel t (label, regex) = Some (ms, cov) /\ seteq cov cov0.
Proof.
  intros fuel wfuel t label regex ms cov0 Hp Hl Hm Hw.
  assert (Hsome : exists r, match_regex_gen fuel wfuel t (label, regex) = Some r).
  { unfold match_regex_gen.
    unfold teal_prog, teal_instructions, regex_label, regex_instructions, pyset_empty, dd_empty, pyset_elements.
    cbn [fst snd]. rewrite (find_label_gen_total t label Hl). cbn [bind].
    unfold match_regex in Hm. destruct (find_regex_label t label) as [start|]; [|eexists; reflexivity].
    pose proof (find_instructions_gen_sim (t_prog t) Hp regex fuel start [] [] [] [] (seteq_refl [])) as Hs.
    destruct (find_instructions fuel (t_prog t) regex start (mkR [] [] [])) as [[b st]| |] eqn:Erun; try discriminate.
    simpl in Hs. destruct Hs as (C2 & Hg & HC2). rewrite Hg. cbn [bind fst snd].
    destruct (preds_gen (t_prog t) (r_visited st) (visited_some _ _ _ _ _ _ Erun)) as (d & Hd & Hprev).
    rewrite Hd. cbn [bind].
    rewrite (mapE_heads _ (matches_nonempty _ _ _ _ _ _ Erun)). cbn [bind].
    set (hs := match_heads (r_matches st)).
    destruct (while_total (t_prog t) d (r_visited st) (fun k j H => proj1 (proj1 (Hprev j k) H))
                wfuel (rev hs) [] (NoDup_nil _) (incl_nil_l _)) as (res & Hres).
    - rewrite rev_length. unfold hs. rewrite (match_heads_run _ _ _ _ _ _ Erun).
      pose proof (filter_len (im (t_prog t) regex) (rev (r_visited st))) as H1. rewrite rev_length in H1.
      pose proof (visited_bound _ _ _ _ _ _ Erun). simpl. lia.
    - rewrite rev_involutive in Hres. rewrite Hres. cbn [bind]. eexists; reflexivity. }
  destruct Hsome as ([ms' cov] & Hr).
  destruct (match_regex_gen_refines fuel wfuel t label regex ms' cov Hp Hr) as (cov1 & Hm1 & Hseq).
  rewrite Hm in Hm1. inversion Hm1; subst ms' cov1. exists cov. split; assumption.
Qed.

(* the Python raises (or the recursion budget is exhausted) whenever the model does *)
Theorem match_regex_gen_exn : forall fuel wfuel t label regex,
  jumps_resolve (t_prog t) ->
  (forall x, match_regex fuel t label regex <> Done x) ->
  match_regex_gen fuel wfuel t (label, regex) = None.
Proof.
  intros fuel wfuel t label regex Hp Hn.
  destruct (match_regex_gen fuel wfuel t (label, regex)) as [[ms cov]|] eqn:E; [|reflexivity].
  destruct (match_regex_gen_refines fuel wfuel t label regex ms cov Hp E) as (cov0 & Hm & _).
  exfalso. exact (Hn _ Hm).
Qed.

(* same exception behaviour: with an iteration budget that covers the closure, the generated function fails exactly
   when the model does *)
Corollary match_regex_gen_none_iff : forall fuel wfuel t label regex,
  jumps_resolve (t_prog t) -> label_ok t label -> 2 * length (t_prog t) < wfuel ->
  (match_regex_gen fuel wfuel t (label, regex) = None <-> forall x, match_regex fuel t label regex <> Done x).
Proof.
  intros fuel wfuel t label regex Hp Hl Hw. split.
  - intros Hg [ms cov0] Hm.
    destruct (match_regex_gen_complete fuel wfuel t label regex ms cov0 Hp Hl Hm Hw) as (cov & Hs & _). congruence.
  - apply match_regex_gen_exn; assumption.
Qed.

(* ====================================================================== *)
(* the main theorems of Lemmas/RegexLemmas.v, for the generated function    *)
(* ====================================================================== *)
Theorem match_regex_gen_spec : forall fuel wfuel t label regex start ms cov,
  jumps_resolve (t_prog t) ->
  find_label_gen (t_prog t) (t_retained_ins t) label = Some (Some start) ->
  match_regex_gen fuel wfuel t (label, regex) = Some (ms, cov) ->
  (forall m, In m ms <->
             exists k, Reach (t_prog t) start k /\ is_match (t_prog t) (Some k) regex = true /\
                       m = collect_match (t_prog t) k (pred (length regex))) /\
  NoDup ms /\
  (forall c, In c cov <->
             Reach (t_prog t) start c /\
             exists k, ReachPlus (t_prog t) c k /\ is_match (t_prog t) (Some k) regex = true) /\
  (forall k, Reach (t_prog t) start k -> is_match (t_prog t) (Some k) regex = true ->
             CPath (t_prog t) cov start k).
Proof.
  intros fuel wfuel t label regex start ms cov Hp Hl Hg.
  apply find_label_gen_refines in Hl. symmetry in Hl.
  destruct (match_regex_gen_refines fuel wfuel t label regex ms cov Hp Hg) as (cov0 & Hm & Hseq).
  destruct (match_regex_spec fuel t label regex start ms cov0 Hl Hm) as (H1 & H2 & H3 & H4).
  split; [exact H1|]. split; [exact H2|]. split.
  - intros c. rewrite (Hseq c). apply H3.
  - intros k Hk Hmk. eapply CPath_mono; [|apply H4; assumption]. intros x Hx. apply Hseq. exact Hx.
Qed.

Theorem match_regex_gen_covered_exact : forall fuel wfuel t label regex start ms cov,
  jumps_resolve (t_prog t) ->
  find_label_gen (t_prog t) (t_retained_ins t) label = Some (Some start) ->
  match_regex_gen fuel wfuel t (label, regex) = Some (ms, cov) ->
  forall c, In c cov <->
            Reach (t_prog t) start c /\
            exists k, ReachPlus (t_prog t) c k /\ Reach (t_prog t) start k /\
                      is_match (t_prog t) (Some k) regex = true.
Proof.
  intros fuel wfuel t label regex start ms cov Hp Hl Hg c.
  apply find_label_gen_refines in Hl. symmetry in Hl.
  destruct (match_regex_gen_refines fuel wfuel t label regex ms cov Hp Hg) as (cov0 & Hm & Hseq).
  rewrite (Hseq c). apply (match_regex_covered_exact fuel t label regex start ms cov0 Hl Hm).
Qed.

Theorem match_regex_gen_nolabel : forall fuel wfuel t label regex,
  find_label_gen (t_prog t) (t_retained_ins t) label = Some None ->
  match_regex_gen fuel wfuel t (label, regex) = Some ([], []).
Proof.
  intros fuel wfuel t label regex H. unfold match_regex_gen.
  unfold teal_prog, teal_instructions, regex_label, regex_instructions. cbn [fst snd]. rewrite H. reflexivity.
Qed.

(* ====================================================================== *)
(* jumps_resolve holds of every program the model parses                    *)
(* ====================================================================== *)
Lemma scan_next p lastk : forall rest k st r, scan p lastk rest k st = Some r ->
  forall j, k <= j < k + length rest -> ins_next p j <> None.
Proof.
  induction rest as [|i rest IH]; intros k st r H j Hj; [simpl in Hj; lia|].
  simpl in H. destruct (ins_next p k) as [nx|] eqn:En; [|discriminate].
  destruct (Nat.eq_dec j k) as [->|Hne]; [rewrite En; discriminate|].
  apply (IH _ _ _ H). simpl in Hj. lia.
Qed.

Theorem parsed_jumps_resolve p t : parse_teal p = Ok t -> jumps_resolve (t_prog t).
Proof.
  intros H. destruct (parse_teal_inv p t H) as (bs & _ & _ & Hb & _ & Hprog & _). rewrite Hprog.
  unfold build_blocks in Hb. destruct (create_bb p) as [rb|] eqn:Ec; [|discriminate].
  unfold create_bb in Ec. destruct (scan p (pred (length p)) p 0 ([], [])) as [r|] eqn:Es; [|discriminate].
  intros k i Hop. apply (scan_next p _ p 0 _ r Es). split; [lia|]. simpl.
  unfold op_at in Hop. destruct (nth_error p k) eqn:En; [|discriminate]. apply nth_error_Some. congruence.
Qed.

Definition preds_fold (p : prog) (V : list nat) : py (list (nat * list nat)) :=
  fold_left
    (fun (acc : py (list (nat * list nat))) (ins : nat) =>
     bind acc (fun st : list (nat * list nat) =>
       bind (successors_gen p ins) (fun tmp3 : list nat =>
         bind (fold_left
                 (fun (acc0 : py (list (nat * list nat))) (next_ins : nat) =>
                  bind acc0 (fun st0 : list (nat * list nat) => ret (dd_append st0 next_ins ins))) tmp3 (ret st))
              (fun tmp4 : list (nat * list nat) => ret tmp4))))
    V (ret []).

Lemma BReach_same p V V' hs c : (forall x, In x V -> In x V') -> BReach p V hs c -> BReach p V' hs c.
Proof.
  intros HV Hb. induction Hb as [c k HcV Hck Hk | c b HcV Hcb Hb IH].
  - eapply BR_head; [apply HV; eassumption | eassumption | assumption].
  - eapply BR_step; [apply HV; eassumption | eassumption | assumption].
Qed.

(* `for ins in visited` iterates a set: Python does not specify the order.  Whatever the order (V' is any other
   listing of the same set), the closure computes the same set. *)
Theorem closure_gen_order_irrelevant : forall p V V' hs wfuel d d' r r',
  all_some p V -> (forall x, In x V <-> In x V') ->
  preds_fold p V = Some d -> preds_fold p V' = Some d' ->
  match_regex_gen_while1 p wfuel d hs [] = Some r ->
  match_regex_gen_while1 p wfuel d' hs [] = Some r' ->
  seteq (snd r) (snd r').
Proof.
  intros p V V' hs wfuel d d' r r' Hall HV Hd Hd' Hr Hr'.
  assert (Hall' : all_some p V') by (intros v Hv; apply Hall; apply HV; exact Hv).
  destruct (preds_gen p V Hall) as (d1 & Hd1 & Hp1). unfold preds_fold in Hd. rewrite Hd in Hd1. inversion Hd1; subst d1.
  destruct (preds_gen p V' Hall') as (d2 & Hd2 & Hp2). unfold preds_fold in Hd'. rewrite Hd' in Hd2. inversion Hd2; subst d2.
  rewrite <- (rev_involutive hs) in Hr, Hr'.
  set (w := Nat.max wfuel (S (length (rev hs) + length V + length V'))).
  rewrite (while_some p d wfuel (rev hs) [] r Hr w ltac:(unfold w; lia)).
  rewrite (while_some p d' wfuel (rev hs) [] r' Hr' w ltac:(unfold w; lia)). cbn [snd].
  intros c.
  rewrite (back_close_spec p (dd_get d) V hs Hp1 w (rev hs) (fun k => iff_sym (in_rev hs k)) ltac:(unfold w; lia) c).
  rewrite (back_close_spec p (dd_get d') V' hs Hp2 w (rev hs) (fun k => iff_sym (in_rev hs k)) ltac:(unfold w; lia) c).
  split; apply BReach_same; intros x; apply HV.
Qed.

(* ====================================================================== *)
(* where the Python and the hand-written model differ                       *)
(* ====================================================================== *)
Module Refuted.
  Open Scope string_scope.
  Definition sub0 : subroutine := mkSub "" 0 [] [].
  (* 1. a contract without instructions, label "*": instructions[0] raises IndexError, the model reports no match *)
  Definition t_empty : teal := mkTeal 8 MAny [] [] [] sub0 [] None.
  (* 2. the label is defined twice (parse_teal accepts this: the later definition wins in its label table):
        `assert len(match) <= 1` fails, the model starts at the first definition *)
  Definition p_dup : prog := [mkIns 1 (ILabel "a"); mkIns 2 (IInt (IANum 1)); mkIns 3 (ILabel "a"); mkIns 4 IReturn].
  Definition t_dup : teal := mkTeal 8 MAny p_dup [0; 1; 2; 3] [] sub0 [] None.
  (* 3. a jump to a label that does not exist (no such Python object graph: parse_teal raises KeyError) *)
  Definition p_nolabel : prog := [mkIns 1 (IInt (IANum 1)); mkIns 2 (IB "nowhere")].
End Refuted.

Theorem match_regex_gen_star_refuted :
  exists t regex, (forall fuel, match_regex fuel t "*" regex = Done ([], [])) /\
                  (forall fuel wfuel, match_regex_gen fuel wfuel t ("*"%string, regex) = None).
Proof. exists Refuted.t_empty, []. split; intros; reflexivity. Qed.

Theorem match_regex_gen_duplicate_label_refuted :
  exists t regex, jumps_resolve (t_prog t) /\
    match_regex 10 t "a" regex = Done ([[1]], [0; 0]) /\
    (forall fuel wfuel, match_regex_gen fuel wfuel t ("a"%string, regex) = None).
Proof.
  exists Refuted.t_dup, [IInt (IANum 1)]. split; [|split].
  - intros k i Hop. destruct k as [|[|[|[|k]]]]; try (vm_compute; discriminate).
    unfold op_at in Hop. simpl in Hop. destruct k; discriminate.
  - vm_compute. reflexivity.
  - intros. reflexivity.
Qed.

(* find_instructions_gen_sim needs jumps_resolve: from a state in which 1 is already covered the model does not look at
   the instruction 1 again, the generated _is_match reads its .next *)
Theorem find_instructions_gen_sim_refuted :
  exists p regex, ~ (forall fuel cur V M C C', seteq C' C ->
    rel_res (find_instructions_gen p fuel cur regex V M C') (find_instructions fuel p regex cur (mkR V M C))).
Proof.
  exists Refuted.p_nolabel, [IInt (IANum 1); IB "nowhere"%string]. intros H.
  specialize (H 5 0 [] [] [1] [1] (seteq_refl _)). vm_compute in H. destruct H as (C & H & _). discriminate.
Qed.

Print Assumptions find_instructions_gen_sim.
Print Assumptions match_regex_gen_refines.
Print Assumptions match_regex_gen_complete.
Print Assumptions match_regex_gen_spec.
Print Assumptions match_regex_gen_covered_exact.
Print Assumptions closure_gen_order_irrelevant.
