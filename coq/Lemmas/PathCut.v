(* Cycle cutting: every accepting interprocedural run (Spec/Runs.v) all of whose blocks are unvalidated and which
   never calls a subroutine that is already active can be cut down to a GoodPath (Spec/Paths.v) through a subset
   of its blocks, ending at the same block.  This is the combinatorial heart of C01 ("detectors never miss"):
   SearchLemmas.detect_paths_complete shows that the DFS reports every GoodPath.

   Proof idea.  Strong induction on the length of the run.  At configuration (b, st):
     - if (b, st) occurs again later on the run, drop the loop: the suffix from the later occurrence is again a
       run from (b, st), strictly shorter, with the same end;
     - otherwise emit b (record it in the innermost frame's visited list) and follow the run's next step with
       the corresponding pstep.
   Invariant (Inv): frame i of the path configuration is the frame of the run's stack prefix st_i, and no block x
   in the visited list of frame i occurs as a configuration (x, st_i) on the REMAINING run.  The invariant only
   speaks about the remaining run, so it is preserved by taking suffixes; a fresh frame has an empty visited
   list; a RET discards the innermost frame.  No matching of calls and returns is needed, so `returns_all` is
   not used: a run that terminates inside a callee is cut to a GoodPath that terminates inside that callee. *)
From Coq Require Import String List Bool Arith Lia.
From Tealer Require Import Syntax Cfg Analysis Runs Paths RunLemmas.
Import ListNotations.
Open Scope string_scope.
Open Scope list_scope.

(* ================================================================== 0. small list facts *)
Lemma rconfig_eq_dec : forall x y : rconfig, {x = y} + {x <> y}.
Proof. unfold rconfig. decide equality; [apply (list_eq_dec Nat.eq_dec) | apply Nat.eq_dec]. Qed.

Lemma last_cons_nonempty (A : Type) (x y : A) l d : last (x :: y :: l) d = last (y :: l) d.
Proof. reflexivity. Qed.

Lemma fst_last_cons (l : list rconfig) : forall c d, fst (last (c :: l) d) = last (map fst (c :: l)) 0.
Proof.
  induction l as [|y r IH]; intros c d; [reflexivity|].
  change (fst (last (y :: r) d) = last (map fst (y :: r)) 0). apply IH.
Qed.

Section PathCut.
  Variable f : func.

  Notation rstep := (Runs.rstep f).
  Notation RunFrom := (Runs.RunFrom f).

  (* ---------------------------------------------------------------- exclusivity of block kinds *)
  Lemma leaf_not_call_ret blk :
    leaf_global f blk = true -> f_is_callsub f blk = false /\ f_is_retsub f blk = false.
  Proof.
    unfold leaf_global. intros H.
    apply andb_true_iff in H. destruct H as [H Hc]. apply andb_true_iff in H. destruct H as [_ Hr].
    apply negb_true_iff in Hc. apply negb_true_iff in Hr. split; assumption.
  Qed.

  Lemma callsub_not_retsub blk : f_is_callsub f blk = true -> f_is_retsub f blk = false.
  Proof. unfold f_is_callsub, f_is_retsub. destruct (fexit_op f blk) as [[]|]; congruence. Qed.

  (* ---------------------------------------------------------------- callee names, stack names *)
  (* the subroutine a callsub block calls (None: not a callsub block) *)
  Definition callee_of (cs : nat) : option string :=
    match fblock f cs with
    | Some cb => match fexit_op f cb with Some (ICallsub l) => Some l | _ => None end
    | None => None
    end.
  (* name of the activation created by callsub block cs *)
  Definition frame_name (cs : nat) : string := match callee_of cs with Some l => l | None => "" end.
  (* the Paths frame of the activation created by callsub block cs *)
  Definition mkframe (cs : nat) : frame := (Some cs, frame_name cs).
  (* the Paths stack of a Runs stack: main's frame at the bottom *)
  Definition pstack (st : list nat) : list frame := (None, "") :: map mkframe st.
  (* names of the active activations of a Runs stack: main ("") and the callees of the callsub blocks *)
  Definition stack_names (st : list nat) : list string := "" :: map frame_name st.

  (* no CALL step (b, st) -> _ of the run targets a subroutine that is active in st (main, named "", is
     always active: Spec/Paths.v names main's frame "") *)
  Definition nonrecursive (cfgs : list rconfig) : Prop :=
    forall pre b st c' post l, cfgs = pre ++ (b, st) :: c' :: post ->
      callee_of b = Some l -> ~ In l (stack_names st).
  (* the same without main's name *)
  Definition nonrecursive_weak (cfgs : list rconfig) : Prop :=
    forall pre b st c' post l, cfgs = pre ++ (b, st) :: c' :: post ->
      callee_of b = Some l -> ~ In l (map frame_name st).
  (* no subroutine carries main's name *)
  Definition main_name_free_P : Prop := f_find_sub f "" = None.

  Definition ends_in_leaf (cfgs : list rconfig) : Prop :=
    exists blk, fblock f (fst (final f cfgs)) = Some blk /\ leaf_global f blk = true.

  Lemma callee_of_call b blk l : fblock f b = Some blk -> fexit_op f blk = Some (ICallsub l) -> callee_of b = Some l.
  Proof. intros Hb Hop. unfold callee_of. rewrite Hb, Hop. reflexivity. Qed.

  Lemma callee_of_inv b l : callee_of b = Some l ->
    exists blk, fblock f b = Some blk /\ fexit_op f blk = Some (ICallsub l).
  Proof.
    unfold callee_of. destruct (fblock f b) as [blk|]; [|discriminate].
    destruct (fexit_op f blk) as [[]|] eqn:E; try discriminate.
    intros H. inversion H; subst. exists blk. split; [reflexivity|exact E].
  Qed.

  (* ---------------------------------------------------------------- runs: steps, suffixes *)
  Lemma RunFrom_steps c cfgs : RunFrom c cfgs ->
    forall pre c1 c2 post, cfgs = pre ++ c1 :: c2 :: post -> rstep c1 c2.
  Proof.
    intros Hrun pre c1 c2 post E.
    pose proof (RunFrom_suffix f _ _ Hrun _ _ _ E) as Hs.
    inversion Hs as [|x c' rest Hstep Hrest]; subst.
    destruct (RunFrom_head f _ _ Hrest) as [r Er]. inversion Er; subst. exact Hstep.
  Qed.

  (* a step out of a callsub block is a CALL step *)
  Lemma rstep_of_callsub b st c' l : rstep (b, st) c' -> callee_of b = Some l ->
    exists s, f_find_sub f l = Some s /\ c' = (s_entry s, st ++ [b]).
  Proof.
    intros Hstep Hc. apply callee_of_inv in Hc. destruct Hc as [blk [Hb Hop]].
    inversion Hstep as [b0 st0 blk0 l0 s Hb0 Hop0 Hs|b0 st0 cs blk0 cb rp Hb0 Hop0 Hcs Hrp|b0 st0 blk0 b' Hb0 Hnc Hnr Hn];
      subst; rewrite Hb in Hb0; inversion Hb0; subst blk0.
    - rewrite Hop in Hop0. inversion Hop0; subst. exists s. split; [assumption|reflexivity].
    - rewrite Hop in Hop0. discriminate.
    - unfold f_is_callsub in Hnc. rewrite Hop in Hnc. discriminate.
  Qed.

  Lemma final_suffix pre c post : final f (pre ++ c :: post) = final f (c :: post).
  Proof. unfold final. apply last_app_cons. Qed.

  Lemma final_cons c c' rest : RunFrom c' rest -> final f (c :: rest) = final f rest.
  Proof. intros H. unfold final. apply (last_cons_RunFrom f c c' rest _ H). Qed.

  Lemma nonrecursive_suffix pre cfgs : nonrecursive (pre ++ cfgs) -> nonrecursive cfgs.
  Proof.
    intros H pre' b st c' post l E. apply (H (pre ++ pre') b st c' post l).
    rewrite E, app_assoc. reflexivity.
  Qed.

  Lemma nonrecursive_cons b st cfgs :
    (forall l, callee_of b = Some l -> ~ In l (stack_names st)) ->
    nonrecursive cfgs -> nonrecursive ((b, st) :: cfgs).
  Proof.
    intros Hh Ht pre b0 st0 c' post l E.
    destruct pre as [|p pre]; simpl in E; inversion E; subst.
    - apply Hh.
    - apply (Ht pre b0 st0 c' post l). reflexivity.
  Qed.

  (* with no subroutine named "", the weak form suffices *)
  Lemma nonrecursive_of_weak c cfgs :
    main_name_free_P -> RunFrom c cfgs -> nonrecursive_weak cfgs -> nonrecursive cfgs.
  Proof.
    intros Hm Hrun Hw pre b st c' post l E Hc [Hl|Hin].
    - pose proof (RunFrom_steps _ _ Hrun _ _ _ _ E) as Hstep.
      destruct (rstep_of_callsub _ _ _ _ Hstep Hc) as [s [Hs _]].
      subst l. unfold main_name_free_P in Hm. rewrite Hm in Hs. discriminate.
    - exact (Hw pre b st c' post l E Hc Hin).
  Qed.

  (* runs without CALL steps are trivially nonrecursive *)
  Lemma nonrecursive_intra c cfgs :
    RunFrom c cfgs -> (forall c0, In c0 cfgs -> snd c0 = []) -> nonrecursive cfgs.
  Proof.
    intros Hrun Hst pre b st c' post l E Hc _.
    pose proof (RunFrom_steps _ _ Hrun _ _ _ _ E) as Hstep.
    destruct (rstep_of_callsub _ _ _ _ Hstep Hc) as [s [_ ->]].
    assert (Hin : In (s_entry s, st ++ [b]) cfgs).
    { rewrite E. apply in_or_app. right. right. left. reflexivity. }
    apply Hst in Hin. simpl in Hin. destruct st; discriminate.
  Qed.

  (* ---------------------------------------------------------------- the invariant *)
  (* Inv cfgs st pst ex: pst is the Paths stack of st, ex has one visited list per frame, and no block x of
     the visited list of the frame with stack prefix st_i occurs as configuration (x, st_i) in cfgs *)
  Inductive Inv (cfgs : list rconfig) : list nat -> list frame -> list (list nat) -> Prop :=
  | Inv_main v :
      (forall x, In x v -> ~ In (x, []) cfgs) -> Inv cfgs [] [(None, "")] [v]
  | Inv_push st pst ex cs v :
      Inv cfgs st pst ex -> (forall x, In x v -> ~ In (x, st ++ [cs]) cfgs) ->
      Inv cfgs (st ++ [cs]) (pst ++ [mkframe cs]) (ex ++ [v]).

  Lemma Inv_mono cfgs cfgs' st pst ex :
    (forall c, In c cfgs' -> In c cfgs) -> Inv cfgs st pst ex -> Inv cfgs' st pst ex.
  Proof.
    intros Hsub H. induction H as [v Hv|st pst ex cs v H IH Hv].
    - constructor. intros x Hx Hin. exact (Hv x Hx (Hsub _ Hin)).
    - constructor; [exact IH|]. intros x Hx Hin. exact (Hv x Hx (Hsub _ Hin)).
  Qed.

  Lemma Inv_last cfgs st pst ex : Inv cfgs st pst ex -> forall x, In x (last ex []) -> ~ In (x, st) cfgs.
  Proof.
    intros H. destruct H as [v Hv|st pst ex cs v H Hv].
    - simpl. exact Hv.
    - rewrite last_last. exact Hv.
  Qed.

  Lemma visit_single v b : visit [v] b = [v ++ [b]].
  Proof. reflexivity. Qed.

  Lemma visit_snoc ex v b : visit (ex ++ [v]) b = ex ++ [v ++ [b]].
  Proof. unfold visit. rewrite removelast_last, last_last. reflexivity. Qed.

  Lemma removelast_visit ex b : removelast (visit ex b) = removelast ex.
  Proof. unfold visit. apply removelast_last. Qed.

  Lemma Inv_visit cfgs st pst ex b : Inv cfgs st pst ex -> ~ In (b, st) cfgs -> Inv cfgs st pst (visit ex b).
  Proof.
    intros H Hb. destruct H as [v Hv|st pst ex cs v H Hv].
    - rewrite visit_single. constructor. intros x Hx. apply in_app_or in Hx. destruct Hx as [Hx|[<-|[]]]; auto.
    - rewrite visit_snoc. constructor; [exact H|].
      intros x Hx. apply in_app_or in Hx. destruct Hx as [Hx|[<-|[]]]; auto.
  Qed.

  Lemma Inv_pstack cfgs st pst ex : Inv cfgs st pst ex -> pst = pstack st.
  Proof.
    intros H. induction H as [v Hv|st pst ex cs v H IH Hv]; [reflexivity|].
    rewrite IH. unfold pstack. rewrite map_app. reflexivity.
  Qed.

  Lemma pstack_names st : map snd (pstack st) = stack_names st.
  Proof. unfold pstack, stack_names. simpl. rewrite map_map. reflexivity. Qed.

  Lemma Inv_pop cfgs st cs pst ex : Inv cfgs (st ++ [cs]) pst ex ->
    exists pst0 ex0 v, pst = pst0 ++ [mkframe cs] /\ ex = ex0 ++ [v] /\ Inv cfgs st pst0 ex0.
  Proof.
    intros H. remember (st ++ [cs]) as s eqn:Es.
    destruct H as [v Hv|st1 pst1 ex1 cs1 v H Hv].
    - destruct st; discriminate.
    - apply app_inj_tail in Es. destruct Es; subst. exists pst1, ex1, v. auto.
  Qed.

  (* ---------------------------------------------------------------- the cut *)
  Section Cut.
    Variable validated : nat -> bool.
    Notation GoodPathFrom := (Paths.GoodPathFrom f validated).
    Notation pstep := (Paths.pstep f validated).
    Notation enterable := (Paths.enterable validated).

    Lemma GoodPathFrom_head' c b p : GoodPathFrom c b p -> exists rest, p = b :: rest.
    Proof. intros H. inversion H; subst; eexists; reflexivity. Qed.

    (* prepend one step *)
    Lemma cut_step c b st c' b' st' rest :
      pstep c b c' b' -> RunFrom (b', st') rest ->
      (exists p', GoodPathFrom c' b' p' /\ incl p' (map fst rest) /\ last p' 0 = fst (final f rest)) ->
      exists p, GoodPathFrom c b p /\ incl p (map fst ((b, st) :: rest)) /\
                last p 0 = fst (final f ((b, st) :: rest)).
    Proof.
      intros Hstep Hrun [p' [Hp' [Hincl Hlast]]].
      exists (b :: p'). split; [|split].
      - econstructor; eassumption.
      - intros x [<-|Hx]; [left; reflexivity|right; apply Hincl; exact Hx].
      - destruct (GoodPathFrom_head' _ _ _ Hp') as [r ->].
        rewrite last_cons_nonempty, Hlast. rewrite (final_cons _ _ _ Hrun). reflexivity.
    Qed.

    Lemma cut_aux : forall n cfgs b st pst ex,
      length cfgs <= n -> RunFrom (b, st) cfgs -> ends_in_leaf cfgs ->
      (forall c, In c cfgs -> validated (fst c) = false) ->
      nonrecursive cfgs -> Inv cfgs st pst ex ->
      exists p, GoodPathFrom (pst, ex) b p /\ incl p (map fst cfgs) /\ last p 0 = fst (final f cfgs).
    Proof.
      induction n as [|n IH]; intros cfgs b st pst ex Hlen Hrun Hleaf Hval Hnr Hinv.
      { inversion Hrun; subst; simpl in Hlen; lia. }
      destruct (RunFrom_head f _ _ Hrun) as [rest ->].
      destruct (in_dec rconfig_eq_dec (b, st) rest) as [Hin|Hnin].
      - (* (b, st) occurs again: drop the loop *)
        apply in_split in Hin. destruct Hin as [pre [post ->]].
        change ((b, st) :: pre ++ (b, st) :: post) with (((b, st) :: pre) ++ (b, st) :: post) in *.
        assert (Hsub : forall c, In c ((b, st) :: post) -> In c (((b, st) :: pre) ++ (b, st) :: post)).
        { intros c Hc. apply in_or_app. right. exact Hc. }
        destruct (IH ((b, st) :: post) b st pst ex) as [p [Hp [Hincl Hlast]]].
        + rewrite app_length in Hlen. simpl in Hlen. simpl. unfold rconfig in *. lia.
        + exact (RunFrom_suffix f _ _ Hrun _ _ _ eq_refl).
        + unfold ends_in_leaf in *. rewrite final_suffix in Hleaf. exact Hleaf.
        + intros c Hc. apply Hval, Hsub, Hc.
        + exact (nonrecursive_suffix _ _ Hnr).
        + exact (Inv_mono _ _ _ _ _ Hsub Hinv).
        + exists p. split; [exact Hp|split].
          * intros x Hx. apply Hincl in Hx. rewrite map_app. apply in_or_app. right. exact Hx.
          * rewrite final_suffix. exact Hlast.
      - (* last visit of (b, st): emit b *)
        assert (Hent : enterable (pst, ex) b).
        { split.
          - apply (Hval (b, st)). left. reflexivity.
          - simpl. intros Hx. apply (Inv_last _ _ _ _ Hinv b Hx). left. reflexivity. }
        inversion Hrun as [c|c c' rest' Hstep Hrun']; subst.
        + (* the run ends here: a leaf *)
          destruct Hleaf as [blk [Hb Hl]]. unfold final in Hb. simpl in Hb.
          exists [b]. split; [|split].
          * eapply GP_leaf; eassumption.
          * intros x [<-|[]]. left. reflexivity.
          * reflexivity.
        + destruct c' as [b' st'].
          assert (Hsub : forall c, In c rest -> In c ((b, st) :: rest)) by (intros c Hc; right; exact Hc).
          assert (Hnrb : forall l, callee_of b = Some l -> ~ In l (stack_names st)).
          { intros l Hc. destruct (RunFrom_head f _ _ Hrun') as [r Er].
            apply (Hnr [] b st (b', st') r l); [rewrite Er; reflexivity|exact Hc]. }
          assert (Hinv' : Inv rest st pst (visit ex b)).
          { apply Inv_visit; [|exact Hnin]. exact (Inv_mono _ _ _ _ _ Hsub Hinv). }
          assert (IHr : forall pst' ex', Inv rest st' pst' ex' ->
                    exists p', GoodPathFrom (pst', ex') b' p' /\ incl p' (map fst rest) /\
                               last p' 0 = fst (final f rest)).
          { intros pst' ex' Hi. apply (IH rest b' st' pst' ex').
            - simpl in Hlen. lia.
            - exact Hrun'.
            - unfold ends_in_leaf in *. rewrite (final_cons _ _ _ Hrun') in Hleaf. exact Hleaf.
            - intros c Hc. apply Hval, Hsub, Hc.
            - exact (nonrecursive_suffix [(b, st)] rest Hnr).
            - exact Hi. }
          inversion Hstep as [b0 st0 blk l s Hb Hop Hs|b0 st0 cs blk cb rp Hb Hop Hcs Hrp|b0 st0 blk b'' Hb Hnc Hnret Hn];
            subst.
          * (* CALL *)
            pose proof (callee_of_call _ _ _ Hb Hop) as Hc.
            apply (cut_step (pst, ex) b st (pst ++ [(Some b, l)], visit ex b ++ [[]]) (s_entry s) (st ++ [b]) rest).
            -- eapply PS_call; try eassumption.
               ++ exact (rstep_not_leaf f _ _ _ _ Hstep Hb).
               ++ rewrite (Inv_pstack _ _ _ _ Hinv), pstack_names.
                  exact (Hnrb l Hc).
            -- exact Hrun'.
            -- apply IHr.
               replace (Some b, l) with (mkframe b) by (unfold mkframe, frame_name; rewrite Hc; reflexivity).
               constructor; [exact Hinv'|]. intros x [].
          * (* RET *)
            destruct (Inv_pop _ _ _ _ _ Hinv') as [pst0 [ex0 [v [Ep [Ee Hi0]]]]].
            assert (E1 : removelast pst = pst0) by (rewrite Ep; apply removelast_last).
            assert (E2 : removelast (visit ex b) = ex0) by (rewrite Ee; apply removelast_last).
            apply (cut_step (pst, ex) b (st' ++ [cs]) (removelast pst, removelast (visit ex b)) b' st' rest).
            -- eapply PS_ret with (name := frame_name cs); try eassumption.
               ++ exact (rstep_not_leaf f _ _ _ _ Hstep Hb).
               ++ rewrite Ep. apply last_last.
            -- exact Hrun'.
            -- rewrite E1, E2. apply IHr. exact Hi0.
          * (* EDGE *)
            apply (cut_step (pst, ex) b st' (pst, visit ex b) b' st' rest).
            -- eapply PS_edge; try eassumption.
               exact (rstep_not_leaf f _ _ _ _ Hstep Hb).
            -- exact Hrun'.
            -- apply IHr. exact Hinv'.
    Qed.

    Lemma Inv_init cfgs : Inv cfgs [] [(None, "")] [[]].
    Proof. constructor. intros x []. Qed.

    (* the general statement: the calls of the run need not return *)
    Theorem run_to_goodpath_gen cfgs :
      AcceptingRun f cfgs ->
      (forall c, In c cfgs -> validated (fst c) = false) ->
      nonrecursive cfgs ->
      exists p, GoodPath f validated p /\ incl p (map fst cfgs) /\ last p 0 = fst (final f cfgs).
    Proof.
      intros [Hrun Hleaf] Hval Hnr.
      exact (cut_aux (length cfgs) cfgs (fn_entry f) [] _ _ (le_n _) Hrun Hleaf Hval Hnr (Inv_init cfgs)).
    Qed.

    (* the statement of C01's combinatorial core *)
    Theorem run_to_goodpath cfgs :
      AcceptingRun f cfgs -> returns_all f cfgs ->
      (forall c, In c cfgs -> validated (fst c) = false) ->
      nonrecursive cfgs ->
      exists p, GoodPath f validated p /\ incl p (map fst cfgs) /\ last p 0 = fst (final f cfgs).
    Proof. intros Hacc _. apply run_to_goodpath_gen. exact Hacc. Qed.

    (* the same with "no CALL step targets the callee of a callsub block on the stack", given that no
       subroutine is named "" *)
    Theorem run_to_goodpath_weak cfgs :
      main_name_free_P ->
      AcceptingRun f cfgs -> returns_all f cfgs ->
      (forall c, In c cfgs -> validated (fst c) = false) ->
      nonrecursive_weak cfgs ->
      exists p, GoodPath f validated p /\ incl p (map fst cfgs) /\ last p 0 = fst (final f cfgs).
    Proof.
      intros Hm Hacc Hret Hval Hw. apply run_to_goodpath; try assumption.
      destruct Hacc as [Hrun _]. exact (nonrecursive_of_weak _ _ Hm Hrun Hw).
    Qed.

    (* the intraprocedural case: a run without CALL / RET steps *)
    Theorem run_to_goodpath_intra cfgs :
      AcceptingRun f cfgs ->
      (forall c, In c cfgs -> snd c = []) ->
      (forall c, In c cfgs -> validated (fst c) = false) ->
      exists p, GoodPath f validated p /\ incl p (map fst cfgs) /\ last p 0 = fst (final f cfgs).
    Proof.
      intros Hacc Hst Hval. apply run_to_goodpath_gen; try assumption.
      destruct Hacc as [Hrun _]. exact (nonrecursive_intra _ _ Hrun Hst).
    Qed.

    (* ---------------------------------------------------------------- the converse: good paths are runs *)
    Lemma pstack_pop st cs name :
      last (pstack st) (None, "") = (Some cs, name) ->
      exists st0, st = st0 ++ [cs] /\ removelast (pstack st) = pstack st0.
    Proof.
      intros H. destruct st as [|x st0] using rev_ind.
      - simpl in H. discriminate.
      - clear IHst0. unfold pstack in *. rewrite map_app in *. simpl map in *.
        rewrite app_comm_cons in *. rewrite last_last in H. rewrite removelast_last.
        unfold mkframe in H. inversion H; subst. exists st0. split; reflexivity.
    Qed.

    Lemma goodpath_from_is_run : forall c b p, GoodPathFrom c b p ->
      forall st, fst c = pstack st ->
      exists cfgs, RunFrom (b, st) cfgs /\ map fst cfgs = p /\ ends_in_leaf cfgs /\ nonrecursive cfgs.
    Proof.
      induction 1 as [c b blk Hent Hb Hleaf|c b c' b' rest Hstep HG IH]; intros st0 Hst.
      - exists [(b, st0)]. split; [constructor|split; [reflexivity|split]].
        + exists blk. split; assumption.
        + intros pre b0 s0 c' post l E. destruct pre as [|? [|? ?]]; discriminate.
      - assert (Hgo : forall st', rstep (b, st0) (b', st') -> fst c' = pstack st' ->
                  (forall l, callee_of b = Some l -> ~ In l (stack_names st0)) ->
                  exists cfgs, RunFrom (b, st0) cfgs /\ map fst cfgs = b :: rest /\ ends_in_leaf cfgs /\
                               nonrecursive cfgs).
        { intros st' Hrs Hc' Hnr. destruct (IH st' Hc') as [cfgs [Hrun [Hmap [Hl Hn]]]].
          exists ((b, st0) :: cfgs). split; [|split; [|split]].
          - econstructor; eassumption.
          - simpl. rewrite Hmap. reflexivity.
          - unfold ends_in_leaf in *. rewrite (final_cons _ _ _ Hrun). exact Hl.
          - apply nonrecursive_cons; assumption. }
        inversion Hstep as [st ex b0 blk l s He Hb Hnl Hop Hnin Hs|st ex b0 blk cs name cb rp He Hb Hnl Hop Hlast Hcs Hrp|st ex b0 blk b'' He Hb Hnl Hnc Hnr Hn];
          subst; simpl in Hst; subst st.
        + (* CALL *)
          pose proof (callee_of_call _ _ _ Hb Hop) as Hc.
          apply (Hgo (st0 ++ [b])).
          * econstructor; eassumption.
          * simpl. unfold pstack. rewrite map_app. simpl. unfold mkframe, frame_name. rewrite Hc. reflexivity.
          * intros l' Hl'. rewrite Hc in Hl'. inversion Hl'; subst l'.
            rewrite <- pstack_names. exact Hnin.
        + (* RET *)
          destruct (pstack_pop _ _ _ Hlast) as [st1 [-> Erl]].
          apply (Hgo st1).
          * econstructor; eassumption.
          * simpl. exact Erl.
          * intros l' Hl'. unfold callee_of in Hl'. rewrite Hb, Hop in Hl'. discriminate.
        + (* EDGE *)
          apply (Hgo st0).
          * econstructor; eassumption.
          * reflexivity.
          * intros l' Hl'. unfold callee_of in Hl'. rewrite Hb in Hl'.
            unfold f_is_callsub in Hnc. destruct (fexit_op f blk) as [[]|]; discriminate.
    Qed.

    Lemma GoodPathFrom_unvalidated c b p : GoodPathFrom c b p -> forall x, In x p -> validated x = false.
    Proof.
      induction 1 as [c b blk Hent Hb Hleaf|c b c' b' rest Hstep HG IH]; intros x Hx.
      - destruct Hx as [<-|[]]. apply Hent.
      - destruct Hx as [<-|Hx]; [|exact (IH x Hx)].
        inversion Hstep; subst; match goal with H : enterable _ _ |- _ => apply H end.
    Qed.

    (* every good path is the block projection of an accepting, nonrecursive run through unvalidated blocks *)
    Theorem goodpath_is_run p :
      GoodPath f validated p ->
      exists cfgs, AcceptingRun f cfgs /\ map fst cfgs = p /\
                   (forall c, In c cfgs -> validated (fst c) = false) /\ nonrecursive cfgs /\
                   fst (final f cfgs) = last p 0.
    Proof.
      intros HG. unfold GoodPath in HG.
      destruct (goodpath_from_is_run _ _ _ HG [] eq_refl) as [cfgs [Hrun [Hmap [Hleaf Hnr]]]].
      exists cfgs. split; [split; assumption|split; [exact Hmap|split; [|split; [exact Hnr|]]]].
      - intros c Hc. apply (GoodPathFrom_unvalidated _ _ _ HG). rewrite <- Hmap. apply in_map. exact Hc.
      - rewrite <- Hmap. unfold final.
        destruct (RunFrom_head f _ _ Hrun) as [r ->].
        apply fst_last_cons.
    Qed.
  End Cut.
End PathCut.

Print Assumptions run_to_goodpath_gen.
Print Assumptions run_to_goodpath.
Print Assumptions run_to_goodpath_weak.
Print Assumptions run_to_goodpath_intra.
Print Assumptions goodpath_is_run.
