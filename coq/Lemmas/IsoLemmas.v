(* Property C15 (moving whole subroutine bodies), layer 1: ISOMORPHISM INVARIANCE of the analysis and of the
   path search.

   Two model functions f, f' (Analysis.func) are isomorphic via a block renaming [r] and a position renaming [g]
   ([fiso r g f f']) when
     - r and g are injective,
     - the block list of f' is the block list of f, IN ORDER, with ids / successor lists / predecessor lists renamed
       by r (in order) and instruction positions renamed by g,
     - the program of f' carries at position g k the opcode the program of f carries at k (for every position of a
       block of f) -- opcodes are compared as they are: labels are not renamed,
     - the bz / bnz "branch to the next line" test of every exit instruction agrees,
     - entry, used-subroutine list (in order), int constants correspond,
     - the contract subroutine table is read with the same result: [f_find_sub] for every name, [f_sub_of] for every
       block (the table itself may be listed in another order: moving bodies can permute it).
   Everything is decidable except injectivity: [iso_check r g f f'] is the boolean, [iso_check_sound].

   Under these hypotheses the whole pipeline commutes with the renaming, for EVERY fuel and including the
   exceptional outcomes (no graph_ok / fuel hypothesis is needed: the worklists of f' are the r-images of the
   worklists of f because successor order, block order and subroutine order are preserved, so the two runs are in
   lock step and the results are Leibniz-equal, not only equal as sets):
     PART 1  graph relations: fblock, fexit_op, next_global, prev_global, leaf_global, callers, return points
     PART 2  conditions: asserted / block_constraint / edge_constraint (positions inside operand trees are not read)
     PART 3  reachin / livein / forward / backward / worklists / solve
     PART 4  the four domains: run_int / run_family / run_all
     PART 5  ctx_of / validated_in_block / search / run_detector
     PART 6  iso_check and the end-to-end theorems [iso_run_all], [iso_run_detector], [iso_verdict]. *)
From Coq Require Import String List NArith ZArith Bool Arith Lia.
From Tealer Require Import Tables LeafPrelude Leaves Syntax Parse Cfg StackAst Keys Analysis Domains Detect
  StackLemmas PaddingLemmas SolverLemmas.
Import ListNotations.
Open Scope string_scope.
Open Scope list_scope.

(* ====================================================================== generic list helpers *)
Lemma iso_find_map {A B} (h : A -> B) (p : A -> bool) (p' : B -> bool) l :
  (forall x, In x l -> p' (h x) = p x) -> find p' (map h l) = option_map h (find p l).
Proof.
  induction l as [|x l IH]; intros H; [reflexivity|].
  cbn [map find]. rewrite (H x (or_introl eq_refl)). destruct (p x); [reflexivity|].
  apply IH. intros y Hy. apply H. right. exact Hy.
Qed.

Lemma iso_filter_map {A B} (h : A -> B) (p : A -> bool) (p' : B -> bool) l :
  (forall x, In x l -> p' (h x) = p x) -> filter p' (map h l) = map h (filter p l).
Proof.
  induction l as [|x l IH]; intros H; [reflexivity|].
  cbn [map filter]. rewrite (H x (or_introl eq_refl)).
  rewrite IH by (intros y Hy; apply H; right; exact Hy). destruct (p x); reflexivity.
Qed.

Lemma iso_existsb_map {A B} (h : A -> B) (p : A -> bool) (p' : B -> bool) l :
  (forall x, In x l -> p' (h x) = p x) -> existsb p' (map h l) = existsb p l.
Proof.
  induction l as [|x l IH]; intros H; [reflexivity|].
  cbn [map existsb]. rewrite (H x (or_introl eq_refl)).
  rewrite IH by (intros y Hy; apply H; right; exact Hy). reflexivity.
Qed.

Lemma iso_forallb_map {A B} (h : A -> B) (p : A -> bool) (p' : B -> bool) l :
  (forall x, In x l -> p' (h x) = p x) -> forallb p' (map h l) = forallb p l.
Proof.
  induction l as [|x l IH]; intros H; [reflexivity|].
  cbn [map forallb]. rewrite (H x (or_introl eq_refl)).
  rewrite IH by (intros y Hy; apply H; right; exact Hy). reflexivity.
Qed.

Lemma iso_flat_map_map {A B C D} (h : A -> B) (k : C -> D) (F : A -> list C) (F' : B -> list D) l :
  (forall x, In x l -> F' (h x) = map k (F x)) -> flat_map F' (map h l) = map k (flat_map F l).
Proof.
  induction l as [|x l IH]; intros H; [reflexivity|].
  cbn [map flat_map]. rewrite (H x (or_introl eq_refl)), map_app.
  rewrite IH by (intros y Hy; apply H; right; exact Hy). reflexivity.
Qed.

Lemma iso_fold_left_map {A B C} (h : B -> C) (F : A -> B -> A) (F' : A -> C -> A) l :
  (forall a x, In x l -> F' a (h x) = F a x) -> forall a, fold_left F' (map h l) a = fold_left F l a.
Proof.
  induction l as [|x l IH]; intros H a; [reflexivity|].
  cbn [map fold_left]. rewrite (H a x (or_introl eq_refl)).
  apply IH. intros b y Hy. apply H. right. exact Hy.
Qed.

Lemma iso_last_map {A B} (h : A -> B) l d : List.last (map h l) (h d) = h (List.last l d).
Proof.
  induction l as [|x l IH]; [reflexivity|].
  destruct l as [|y l]; [reflexivity|]. exact IH.
Qed.

Lemma iso_last_map_ne {A B} (h : A -> B) l d d' : l <> [] -> List.last (map h l) d' = h (List.last l d).
Proof.
  induction l as [|x l IH]; intros Hne; [congruence|].
  destruct l as [|y l]; [reflexivity|]. apply IH. discriminate.
Qed.

Lemma iso_last_In {A} (l : list A) d : l <> [] -> In (List.last l d) l.
Proof.
  induction l as [|x l IH]; intros Hne; [congruence|].
  destruct l as [|y l]; [left; reflexivity|]. right. apply IH. discriminate.
Qed.

Lemma iso_map_opt_map {A B C} (k : B -> C) (h : A -> option B) l :
  map_opt (fun x => x) (map (fun a => option_map k (h a)) l) = option_map (map k) (map_opt (fun x => x) (map h l)).
Proof.
  induction l as [|x l IH]; [reflexivity|].
  cbn [map map_opt]. rewrite IH. destruct (h x) as [y|]; cbn [option_map]; [|reflexivity].
  destruct (map_opt (fun x0 => x0) (map h l)); reflexivity.
Qed.

(* ====================================================================== outcomes *)
Definition omap {A B} (h : A -> B) (o : outcome A) : outcome B :=
  match o with Done a => Done (h a) | Exn e => Exn e | OutOfFuel => OutOfFuel end.

Lemma iso_seq_outcomes_map {A B C} (h : B -> C) (l : list A) (G : A -> outcome B) (G' : A -> outcome C) :
  (forall a, G' a = omap h (G a)) -> seq_outcomes l G' = omap (map h) (seq_outcomes l G).
Proof.
  intros H. induction l as [|a l IH]; [reflexivity|].
  cbn [seq_outcomes fold_right]. fold (seq_outcomes l G'). fold (seq_outcomes l G). rewrite IH, H.
  destruct (seq_outcomes l G); cbn [omap]; try reflexivity. destruct (G a); reflexivity.
Qed.

(* ====================================================================== the renaming *)
Section Renaming.
  Variable r : nat -> nat.   (* block ids *)
  Variable g : nat -> nat.   (* instruction positions *)

  Definition ren_block (b : block) : block :=
    mkBlock (r (b_idx b)) (map g (b_ins b)) (map r (b_next b)) (map r (b_prev b)).
  Definition ren_sub (s : subroutine) : subroutine :=
    mkSub (s_name s) (r (s_entry s)) (map r (s_blocks s)) (map r (s_callers s)).
  Definition ren_st {T} (st : list (nat * T)) : list (nat * T) := map (fun kv => (r (fst kv), snd kv)) st.
  Definition ren_fam {K T} (l : list (K * list (nat * T))) : list (K * list (nat * T)) :=
    map (fun kv => (fst kv, ren_st (snd kv))) l.
  Definition ren_result (res : fn_result) : fn_result :=
    mkRes (ren_st (r_sizes res)) (ren_st (r_indices res)) (ren_fam (r_types res)) (ren_fam (r_addrs res))
          (ren_fam (r_fees res)).
  Definition ren_paths (ps : list (list nat)) : list (list nat) := map (map r) ps.

  Record fiso (f f' : func) : Prop := mkFiso {
    iso_r_inj : forall x y, r x = r y -> x = y;
    iso_g_inj : forall x y, g x = g y -> x = y;
    iso_blocks : fn_blocks f' = map ren_block (fn_blocks f);
    iso_ops : forall b k, In b (fn_blocks f) -> In k (b_ins b) -> op_at (fn_prog f') (g k) = op_at (fn_prog f) k;
    iso_bnext : forall b br, In b (fn_blocks f) -> fexit_op f b = Some br ->
                  branch_to_next (fn_prog f') br (g (List.last (b_ins b) 0)) =
                  branch_to_next (fn_prog f) br (List.last (b_ins b) 0);
    iso_entry : fn_entry f' = r (fn_entry f);
    iso_subs : fn_subs f' = map ren_sub (fn_subs f);
    iso_intcs : fn_intcs f' = fn_intcs f;
    iso_find_sub : forall name, f_find_sub f' name = option_map ren_sub (f_find_sub f name);
    iso_sub_of : forall b, In b (fn_blocks f) -> f_sub_of f' (r (b_idx b)) = f_sub_of f (b_idx b) }.

  (* ==================================================================== PART 1 : graph relations *)
  Section Graph.
    Variables f f' : func.
    Hypothesis ISO : fiso f f'.

    Let r_inj := iso_r_inj f f' ISO.
    Let g_inj := iso_g_inj f f' ISO.

    Lemma iso_eqb a b : Nat.eqb (r a) (r b) = Nat.eqb a b.
    Proof.
      destruct (Nat.eqb a b) eqn:E.
      - apply Nat.eqb_eq in E. subst. apply Nat.eqb_refl.
      - apply Nat.eqb_neq. intros H. apply r_inj in H. apply Nat.eqb_neq in E. contradiction.
    Qed.

    Lemma iso_nat_mem x l : nat_mem (r x) (map r l) = nat_mem x l.
    Proof. unfold nat_mem. apply iso_existsb_map. intros y _. apply iso_eqb. Qed.

    Lemma iso_fblock n : fblock f' (r n) = option_map ren_block (fblock f n).
    Proof.
      unfold fblock. rewrite (iso_blocks f f' ISO). apply iso_find_map.
      intros b _. cbn [ren_block b_idx]. apply iso_eqb.
    Qed.

    Lemma iso_fexit_op b : In b (fn_blocks f) -> fexit_op f' (ren_block b) = fexit_op f b.
    Proof.
      intros Hb. unfold fexit_op. cbn [ren_block b_ins].
      destruct (b_ins b) as [|k l] eqn:E; [reflexivity|].
      assert (Hne : k :: l <> []) by discriminate.
      cbn [map]. change (g k :: map g l) with (map g (k :: l)).
      rewrite (iso_last_map_ne g (k :: l) 0 0 Hne).
      apply (iso_ops f f' ISO b); [exact Hb|]. rewrite E. apply iso_last_In. exact Hne.
    Qed.

    Lemma iso_is_callsub b : In b (fn_blocks f) -> f_is_callsub f' (ren_block b) = f_is_callsub f b.
    Proof. intros Hb. unfold f_is_callsub. rewrite iso_fexit_op by exact Hb. reflexivity. Qed.
    Lemma iso_is_retsub b : In b (fn_blocks f) -> f_is_retsub f' (ren_block b) = f_is_retsub f b.
    Proof. intros Hb. unfold f_is_retsub. rewrite iso_fexit_op by exact Hb. reflexivity. Qed.

    Lemma iso_used_sub name : f_used_sub f' name = option_map ren_sub (f_used_sub f name).
    Proof.
      unfold f_used_sub. rewrite (iso_subs f f' ISO). apply iso_find_map. intros s _. reflexivity.
    Qed.

    Lemma iso_callers name : f_callers f' name = map ren_block (f_callers f name).
    Proof.
      unfold f_callers. rewrite (iso_blocks f f' ISO). apply iso_filter_map.
      intros b Hb. rewrite iso_fexit_op by exact Hb. reflexivity.
    Qed.

    Lemma iso_return_points name : f_return_points f' name = map r (f_return_points f name).
    Proof.
      unfold f_return_points. rewrite iso_callers. apply iso_flat_map_map.
      intros b _. cbn [ren_block b_next]. destruct (b_next b) as [|x [|y t]]; reflexivity.
    Qed.

    Lemma iso_blockpred (P : func -> block -> bool) :
      (forall b, In b (fn_blocks f) -> P f' (ren_block b) = P f b) ->
      forall n, match fblock f' (r n) with Some pb => P f' pb | None => false end =
                match fblock f n with Some pb => P f pb | None => false end.
    Proof.
      intros HP n. rewrite iso_fblock. destruct (fblock f n) as [pb|] eqn:E; [|reflexivity].
      cbn [option_map]. apply HP. eapply fblock_In. exact E.
    Qed.

    Lemma iso_retsub_blocks s : sub_retsub_blocks f' (ren_sub s) = map r (sub_retsub_blocks f s).
    Proof.
      unfold sub_retsub_blocks. cbn [ren_sub s_blocks]. apply iso_filter_map.
      intros n _. apply (iso_blockpred f_is_retsub). exact iso_is_retsub.
    Qed.

    Lemma iso_sub_entry_of name : sub_entry_of f' name = option_map r (sub_entry_of f name).
    Proof.
      unfold sub_entry_of. destruct (name =? ""); [rewrite (iso_entry f f' ISO); reflexivity|].
      rewrite (iso_find_sub f f' ISO). destruct (f_find_sub f name); reflexivity.
    Qed.

    Lemma iso_next_global b : In b (fn_blocks f) ->
      next_global f' (ren_block b) = option_map (map r) (next_global f b).
    Proof.
      intros Hb. unfold next_global. rewrite iso_is_retsub by exact Hb.
      destruct (f_is_retsub f b).
      - change (b_idx (ren_block b)) with (r (b_idx b)). rewrite (iso_sub_of f f' ISO b Hb).
        destruct (f_sub_of f (b_idx b)) as [name|]; [|reflexivity].
        rewrite iso_used_sub. destruct (f_used_sub f name); [|reflexivity].
        cbn [option_map]. rewrite iso_return_points. reflexivity.
      - rewrite iso_fexit_op by exact Hb.
        assert (Hdef : Some (b_next (ren_block b)) = option_map (map r) (Some (b_next b))) by reflexivity.
        destruct (fexit_op f b) as [[]|]; try exact Hdef.
        rewrite (iso_find_sub f f' ISO). destruct (f_find_sub f l); reflexivity.
    Qed.

    Lemma iso_is_sub_return_point b : In b (fn_blocks f) ->
      is_sub_return_point f' (ren_block b) = is_sub_return_point f b.
    Proof.
      intros _. unfold is_sub_return_point. cbn [ren_block b_prev]. apply iso_existsb_map.
      intros n _. apply (iso_blockpred f_is_callsub). exact iso_is_callsub.
    Qed.

    Lemma iso_callsub_block_of b : In b (fn_blocks f) ->
      callsub_block_of f' (ren_block b) = option_map r (callsub_block_of f b).
    Proof.
      intros _. unfold callsub_block_of. cbn [ren_block b_prev]. apply iso_find_map.
      intros n _. apply (iso_blockpred f_is_callsub). exact iso_is_callsub.
    Qed.

    Lemma iso_prev_global b : In b (fn_blocks f) ->
      prev_global f' (ren_block b) = option_map (map r) (prev_global f b).
    Proof.
      intros Hb. unfold prev_global. change (b_idx (ren_block b)) with (r (b_idx b)).
      rewrite (iso_sub_of f f' ISO b Hb).
      destruct (f_sub_of f (b_idx b)) as [name|]; [|reflexivity].
      rewrite iso_sub_entry_of.
      assert (E : match option_map r (sub_entry_of f name) with Some e => Nat.eqb e (r (b_idx b)) | None => false end =
                  match sub_entry_of f name with Some e => Nat.eqb e (b_idx b) | None => false end).
      { destruct (sub_entry_of f name) as [e|]; [|reflexivity]. cbn [option_map]. apply iso_eqb. }
      rewrite E. clear E.
      destruct (match sub_entry_of f name with Some e => Nat.eqb e (b_idx b) | None => false end).
      - destruct (name =? ""); [reflexivity|].
        rewrite iso_used_sub. destruct (f_used_sub f name); [|reflexivity].
        cbn [option_map]. rewrite iso_callers, !map_map. reflexivity.
      - rewrite iso_is_sub_return_point by exact Hb.
        destruct (is_sub_return_point f b); [|reflexivity].
        rewrite iso_callsub_block_of by exact Hb.
        destruct (callsub_block_of f b) as [c|]; [|reflexivity].
        cbn [option_map]. rewrite iso_fblock.
        destruct (fblock f c) as [cb|] eqn:Ec; [|reflexivity].
        cbn [option_map]. rewrite iso_fexit_op by (eapply fblock_In; exact Ec).
        destruct (fexit_op f cb) as [[]|]; try reflexivity.
        rewrite (iso_find_sub f f' ISO). destruct (f_find_sub f l) as [s|]; [|reflexivity].
        cbn [option_map]. rewrite iso_retsub_blocks. reflexivity.
    Qed.

    Lemma iso_leaf_global b : In b (fn_blocks f) -> leaf_global f' (ren_block b) = leaf_global f b.
    Proof.
      intros Hb. unfold leaf_global. rewrite iso_is_retsub, iso_is_callsub by exact Hb.
      cbn [ren_block b_next]. destruct (b_next b); reflexivity.
    Qed.

    Lemma iso_sub_return_point b : sub_return_point (ren_block b) = option_map r (sub_return_point b).
    Proof. unfold sub_return_point. cbn [ren_block b_next]. destruct (b_next b); reflexivity. Qed.
  End Graph.

  (* ==================================================================== PART 2 : conditions *)
  Section Conditions.
    Variable T : Type.
    Variable univ null : T.
    Variable union inter : T -> T -> T.
    Variable single : instr -> nat -> list sval -> T * T.
    (* the leaf function does not read positions (proved for the four domains in PART 4) *)
    Hypothesis single_pos : forall op pos args, single op (g pos) (map (shift_sval g) args) = single op pos args.

    Lemma iso_neg_case a x : neg_case T univ (shift_cond g a) x = neg_case T univ a x.
    Proof. destruct a; reflexivity. Qed.

    Notation ass := (asserted T univ null union inter single).
    Notation aparts := (and_parts T univ null union inter single).
    Notation oparts := (or_parts T univ null union inter single).

    Lemma iso_u_and a b : ass (CAnd a b) = finish_and T univ null union inter (aparts a ++ aparts b).
    Proof. reflexivity. Qed.
    Lemma iso_u_or a b : ass (COr a b) = finish_or T univ null union inter (oparts a ++ oparts b).
    Proof. reflexivity. Qed.
    Lemma iso_u_not a : ass (CNot a) = neg_case T univ a (ass a).
    Proof. reflexivity. Qed.
    Lemma iso_u_leaf o p a : ass (CLeaf o p a) = single o p a.
    Proof. reflexivity. Qed.
    Lemma iso_ap_and a b : aparts (CAnd a b) = aparts a ++ aparts b.
    Proof. reflexivity. Qed.
    Lemma iso_op_or a b : oparts (COr a b) = oparts a ++ oparts b.
    Proof. reflexivity. Qed.
    Lemma iso_ap_other c : match c with CUnknown | CAnd _ _ => False | _ => True end -> aparts c = [Some (ass c)].
    Proof. destruct c; intros H; try contradiction; reflexivity. Qed.
    Lemma iso_op_other c : match c with CUnknown | COr _ _ => False | _ => True end -> oparts c = [Some (ass c)].
    Proof. destruct c; intros H; try contradiction; reflexivity. Qed.

    Lemma iso_asserted_all c :
      ass (shift_cond g c) = ass c /\ aparts (shift_cond g c) = aparts c /\ oparts (shift_cond g c) = oparts c.
    Proof.
      induction c as [|a [IHa1 [IHa2 IHa3]] b [IHb1 [IHb2 IHb3]]|a [IHa1 [IHa2 IHa3]] b [IHb1 [IHb2 IHb3]]
                      |a [IHa1 [IHa2 IHa3]]|op pos args];
        cbn [shift_cond].
      - repeat split; reflexivity.
      - assert (H1 : ass (CAnd (shift_cond g a) (shift_cond g b)) = ass (CAnd a b))
          by (rewrite !iso_u_and, IHa2, IHb2; reflexivity).
        split; [exact H1|]. split.
        + rewrite !iso_ap_and, IHa2, IHb2. reflexivity.
        + rewrite !iso_op_other by exact I. rewrite H1. reflexivity.
      - assert (H1 : ass (COr (shift_cond g a) (shift_cond g b)) = ass (COr a b))
          by (rewrite !iso_u_or, IHa3, IHb3; reflexivity).
        split; [exact H1|]. split.
        + rewrite !iso_ap_other by exact I. rewrite H1. reflexivity.
        + rewrite !iso_op_or, IHa3, IHb3. reflexivity.
      - assert (H1 : ass (CNot (shift_cond g a)) = ass (CNot a))
          by (rewrite !iso_u_not, IHa1, iso_neg_case; reflexivity).
        split; [exact H1|]. split.
        + rewrite !iso_ap_other by exact I. rewrite H1. reflexivity.
        + rewrite !iso_op_other by exact I. rewrite H1. reflexivity.
      - assert (H1 : ass (CLeaf op (g pos) (map (shift_sval g) args)) = ass (CLeaf op pos args))
          by (rewrite !iso_u_leaf; apply single_pos).
        split; [exact H1|]. split.
        + rewrite !iso_ap_other by exact I. rewrite H1. reflexivity.
        + rewrite !iso_op_other by exact I. rewrite H1. reflexivity.
    Qed.

    Lemma iso_asserted c :
      asserted T univ null union inter single (shift_cond g c) = asserted T univ null union inter single c.
    Proof. apply iso_asserted_all. Qed.

    Lemma iso_asserted_sval v :
      asserted T univ null union inter single (cond_of (shift_sval g v)) =
      asserted T univ null union inter single (cond_of v).
    Proof. rewrite cond_of_shift. apply iso_asserted. Qed.

    Variables f f' : func.
    Hypothesis ISO : fiso f f'.

    Lemma iso_emulate b : In b (fn_blocks f) ->
      emulate (fn_prog f') (map g (b_ins b)) [] =
      option_map (map (shift_entry g)) (emulate (fn_prog f) (b_ins b) []).
    Proof.
      intros Hb. rewrite !emulate_st_fst.
      pose proof (emulate_st_shift g (fn_prog f) (fn_prog f') (b_ins b) []
                    (fun k Hk => iso_ops f f' ISO b k Hb Hk)) as H.
      cbn [map] in H. rewrite H.
      destruct (emulate_st (fn_prog f) (b_ins b) []) as [[rr fin]|]; reflexivity.
    Qed.

    Lemma iso_block_constraint b : In b (fn_blocks f) ->
      block_constraint T univ null union inter single f' (ren_block b) =
      block_constraint T univ null union inter single f b.
    Proof.
      intros Hb. unfold block_constraint. cbn [ren_block b_ins]. rewrite (iso_emulate b Hb).
      rewrite (iso_intcs f f' ISO).
      destruct (emulate (fn_prog f) (b_ins b) []) as [ast|]; [|reflexivity].
      cbn [option_map]. f_equal. apply (iso_fold_left_map (shift_entry g)).
      intros acc [[pos op] args] _. cbn [shift_entry].
      destruct op; try reflexivity.
      - destruct args as [|v rest]; [reflexivity|]. cbn [map].
        destruct v as [|vop vpos vargs vout]; [reflexivity|].
        rewrite (iso_asserted_sval (SKnown vop vpos vargs vout)). reflexivity.
      - destruct args as [|v rest]; [reflexivity|]. cbn [map].
        destruct v as [|vop vpos vargs vout]; [reflexivity|].
        rewrite (iso_asserted_sval (SKnown vop vpos vargs vout)). reflexivity.
    Qed.

    Lemma iso_edge_constraint pb s : In pb (fn_blocks f) ->
      edge_constraint T univ null union inter single f' (ren_block pb) (r s) =
      edge_constraint T univ null union inter single f pb s.
    Proof.
      intros Hb. unfold edge_constraint.
      rewrite (iso_next_global f f' ISO pb Hb).
      destruct (next_global f pb) as [nx|]; [|reflexivity]. cbn [option_map].
      rewrite (iso_nat_mem f f' ISO). destruct (negb (nat_mem s nx)); [reflexivity|].
      rewrite (iso_fexit_op f f' ISO pb Hb).
      destruct (fexit_op f pb) as [br|] eqn:Eop; [|reflexivity].
      assert (Hne : b_ins pb <> []).
      { unfold fexit_op in Eop. destruct (b_ins pb); [discriminate|discriminate]. }
      assert (Hbr : forall (tv fv : T) (is_bz : bool),
        match b_next (ren_block pb) with
        | [j] => if branch_to_next (fn_prog f') br (List.last (b_ins (ren_block pb)) 0) then Some univ
                 else if Nat.eqb (r s) j then Some (if is_bz then fv else tv) else Some univ
        | d :: j :: _ => if Nat.eqb (r s) d then Some (if is_bz then tv else fv)
                         else if Nat.eqb (r s) j then Some (if is_bz then fv else tv) else Some univ
        | [] => None
        end =
        match b_next pb with
        | [j] => if branch_to_next (fn_prog f) br (List.last (b_ins pb) 0) then Some univ
                 else if Nat.eqb s j then Some (if is_bz then fv else tv) else Some univ
        | d :: j :: _ => if Nat.eqb s d then Some (if is_bz then tv else fv)
                         else if Nat.eqb s j then Some (if is_bz then fv else tv) else Some univ
        | [] => None
        end).
      { intros tv fv is_bz. cbn [ren_block b_next b_ins].
        rewrite (iso_last_map_ne g (b_ins pb) 0 0 Hne), (iso_bnext f f' ISO pb br Hb Eop).
        destruct (b_next pb) as [|d [|j t]]; cbn [map]; rewrite ?(iso_eqb f f' ISO); reflexivity. }
      assert (Hargs : forall ast,
        args_of (map (shift_entry g) ast) (List.last (b_ins (ren_block pb)) 0) =
        option_map (map (shift_sval g)) (args_of ast (List.last (b_ins pb) 0))).
      { intros ast. cbn [ren_block b_ins]. rewrite (iso_last_map_ne g (b_ins pb) 0 0 Hne).
        apply args_of_shift. exact (iso_g_inj f f' ISO). }
      destruct br; try reflexivity.
      - change (b_ins (ren_block pb)) with (map g (b_ins pb)) at 1. rewrite (iso_emulate pb Hb).
        destruct (emulate (fn_prog f) (b_ins pb) []) as [ast|]; [|reflexivity]. cbn [option_map].
        rewrite Hargs. destruct (args_of ast (List.last (b_ins pb) 0)) as [[|v rest]|]; try reflexivity.
        cbn [option_map map]. destruct v as [|vop vpos vargs vout]; [reflexivity|].
        rewrite (iso_asserted_sval (SKnown vop vpos vargs vout)).
        destruct (asserted T univ null union inter single (cond_of (SKnown vop vpos vargs vout))) as [tv fv].
        cbn [shift_sval]. exact (Hbr tv fv true).
      - change (b_ins (ren_block pb)) with (map g (b_ins pb)) at 1. rewrite (iso_emulate pb Hb).
        destruct (emulate (fn_prog f) (b_ins pb) []) as [ast|]; [|reflexivity]. cbn [option_map].
        rewrite Hargs. destruct (args_of ast (List.last (b_ins pb) 0)) as [[|v rest]|]; try reflexivity.
        cbn [option_map map]. destruct v as [|vop vpos vargs vout]; [reflexivity|].
        rewrite (iso_asserted_sval (SKnown vop vpos vargs vout)).
        destruct (asserted T univ null union inter single (cond_of (SKnown vop vpos vargs vout))) as [tv fv].
        cbn [shift_sval]. exact (Hbr tv fv false).
    Qed.
  End Conditions.

  (* ==================================================================== PART 3 : the solver *)
  Lemma iso_ren_st_map {A T} (K : A -> nat) (V : A -> T) (l : list A) :
    ren_st (map (fun a => (K a, V a)) l) = map (fun a => (r (K a), V a)) l.
  Proof. unfold ren_st. rewrite map_map. reflexivity. Qed.

  Section Solver.
    Variable T : Type.
    Variable t_eqb : T -> T -> bool.
    Variable univ null : T.
    Variable union inter : T -> T -> T.
    Variable single : instr -> nat -> list sval -> T * T.
    Hypothesis single_pos : forall op pos args, single op (g pos) (map (shift_sval g) args) = single op pos args.
    Variables f f' : func.
    Hypothesis ISO : fiso f f'.

    Lemma iso_lookup (st : list (nat * T)) b : lookup T (ren_st st) (r b) = lookup T st b.
    Proof.
      unfold ren_st. induction st as [|[k v] st IH]; [reflexivity|].
      cbn [map lookup fst snd]. rewrite (iso_eqb f f' ISO). destruct (Nat.eqb k b); [reflexivity|exact IH].
    Qed.

    Lemma iso_update (st : list (nat * T)) b v : update T (ren_st st) (r b) v = ren_st (update T st b v).
    Proof.
      unfold ren_st. induction st as [|[k w] st IH]; [reflexivity|].
      cbn [map update fst snd]. rewrite (iso_eqb f f' ISO). destruct (Nat.eqb k b); cbn [map fst snd]; [reflexivity|].
      rewrite IH. reflexivity.
    Qed.

    Lemma iso_append_new xs : forall wl, append_new (map r wl) (map r xs) = map r (append_new wl xs).
    Proof.
      induction xs as [|x xs IH]; intros wl; [reflexivity|].
      cbn [map append_new]. rewrite (iso_nat_mem f f' ISO). destruct (nat_mem x wl); [apply IH|].
      rewrite <- IH, map_app. reflexivity.
    Qed.

    Lemma iso_reachin st xb : In xb (fn_blocks f) ->
      reachin T univ null union inter single f' (ren_st st) (ren_block xb) =
      reachin T univ null union inter single f st xb.
    Proof.
      intros Hb. unfold reachin. change (b_idx (ren_block xb)) with (r (b_idx xb)).
      rewrite (iso_entry f f' ISO), (iso_eqb f f' ISO), (iso_prev_global f f' ISO xb Hb).
      destruct (prev_global f xb) as [ps|]; [|reflexivity]. cbn [option_map obind].
      match goal with
      | |- obind (fold_left ?F' (map r ps) ?i) _ = obind (fold_left ?F ps ?i) _ =>
          rewrite (iso_fold_left_map r F F' ps)
      end.
      - match goal with |- obind ?o _ = _ => destruct o as [acc|]; [|reflexivity] end.
        cbn [obind]. rewrite (iso_is_sub_return_point f f' ISO xb Hb).
        destruct (is_sub_return_point f xb); [|reflexivity].
        rewrite (iso_callsub_block_of f f' ISO xb Hb).
        destruct (callsub_block_of f xb) as [c|]; [|reflexivity].
        cbn [option_map obind]. rewrite iso_lookup. reflexivity.
      - intros acc p _. destruct acc as [a|]; [|reflexivity]. cbn [obind].
        rewrite iso_lookup. destruct (lookup T st p) as [ro|]; [|reflexivity]. cbn [obind].
        rewrite (iso_fblock f f' ISO). destruct (fblock f p) as [pb|] eqn:Ep; [|reflexivity].
        cbn [option_map obind].
        rewrite (iso_edge_constraint T univ null union inter single single_pos f f' ISO pb (b_idx xb))
          by (eapply fblock_In; exact Ep).
        reflexivity.
    Qed.

    Lemma iso_forward blockc blockc' : (forall b, blockc' (r b) = blockc b) -> forall fuel wl st,
      forward T t_eqb univ null union inter single f' blockc' fuel (map r wl) (ren_st st) =
      omap ren_st (forward T t_eqb univ null union inter single f blockc fuel wl st).
    Proof.
      intros Hbc. induction fuel as [|fu IH]; intros wl st; [reflexivity|].
      destruct wl as [|bid wl]; [reflexivity|].
      cbn [map forward]. rewrite (iso_fblock f f' ISO).
      destruct (fblock f bid) as [b|] eqn:Eb; [|reflexivity]. cbn [option_map].
      assert (Hb : In b (fn_blocks f)) by (eapply fblock_In; exact Eb).
      rewrite (iso_reachin st b Hb), Hbc, iso_lookup.
      destruct (reachin T univ null union inter single f st b) as [ri|]; [|reflexivity].
      destruct (blockc bid) as [bc|]; [|reflexivity].
      destruct (lookup T st bid) as [old|]; [|reflexivity].
      destruct (t_eqb (inter ri bc) old); [apply IH|].
      rewrite (iso_next_global f f' ISO b Hb).
      destruct (next_global f b) as [nx|]; [|reflexivity]. cbn [option_map].
      rewrite (iso_is_callsub f f' ISO b Hb), iso_sub_return_point.
      assert (E : map r nx ++ (if f_is_callsub f b
                               then match option_map r (sub_return_point b) with Some r0 => [r0] | None => [] end
                               else []) =
                  map r (nx ++ (if f_is_callsub f b
                                then match sub_return_point b with Some r0 => [r0] | None => [] end else []))).
      { rewrite map_app. destruct (f_is_callsub f b); [|reflexivity].
        destruct (sub_return_point b); reflexivity. }
      rewrite E, iso_append_new, iso_update. apply IH.
    Qed.

    Lemma iso_livein st xb : In xb (fn_blocks f) ->
      livein T null union inter f' (ren_st st) (ren_block xb) = livein T null union inter f st xb.
    Proof.
      intros Hb. unfold livein. rewrite (iso_next_global f f' ISO xb Hb).
      destruct (next_global f xb) as [nx|]; [|reflexivity]. cbn [option_map obind].
      match goal with
      | |- obind (fold_left ?F' (map r nx) ?i) _ = obind (fold_left ?F nx ?i) _ =>
          rewrite (iso_fold_left_map r F F' nx)
      end.
      - match goal with |- obind ?o _ = _ => destruct o as [acc|]; [|reflexivity] end.
        cbn [obind]. rewrite (iso_fexit_op f f' ISO xb Hb), iso_sub_return_point.
        destruct (fexit_op f xb) as [[]|]; try reflexivity.
        destruct (sub_return_point xb) as [rp|]; [|reflexivity]. cbn [option_map].
        rewrite (iso_find_sub f f' ISO). destruct (f_find_sub f l) as [s|]; [|reflexivity].
        cbn [option_map obind]. rewrite (iso_retsub_blocks f f' ISO).
        destruct (sub_retsub_blocks f s); [reflexivity|]. cbn [map].
        rewrite iso_lookup. reflexivity.
      - intros acc p _. destruct acc as [a|]; [|reflexivity]. cbn [obind].
        rewrite iso_lookup. reflexivity.
    Qed.

    Lemma iso_backward blockc blockc' : (forall b, blockc' (r b) = blockc b) -> forall fuel wl st,
      backward T t_eqb null union inter f' blockc' fuel (map r wl) (ren_st st) =
      omap ren_st (backward T t_eqb null union inter f blockc fuel wl st).
    Proof.
      intros Hbc. induction fuel as [|fu IH]; intros wl st; [reflexivity|].
      destruct wl as [|bid wl]; [reflexivity|].
      cbn [map backward]. rewrite (iso_fblock f f' ISO).
      destruct (fblock f bid) as [b|] eqn:Eb; [|reflexivity]. cbn [option_map].
      assert (Hb : In b (fn_blocks f)) by (eapply fblock_In; exact Eb).
      rewrite (iso_leaf_global f f' ISO b Hb). destruct (leaf_global f b); [apply IH|].
      rewrite (iso_livein st b Hb), Hbc, iso_lookup.
      destruct (livein T null union inter f st b) as [li|]; [|reflexivity].
      destruct (blockc bid) as [bc|]; [|reflexivity].
      destruct (lookup T st bid) as [old|]; [|reflexivity].
      destruct (t_eqb (inter li bc) old); [apply IH|].
      rewrite (iso_prev_global f f' ISO b Hb).
      destruct (prev_global f b) as [ps|]; [|reflexivity]. cbn [option_map].
      rewrite (iso_is_sub_return_point f f' ISO b Hb), (iso_callsub_block_of f f' ISO b Hb).
      assert (E : map r ps ++ (if is_sub_return_point f b
                               then match option_map r (callsub_block_of f b) with Some c => [c] | None => [] end
                               else []) =
                  map r (ps ++ (if is_sub_return_point f b
                                then match callsub_block_of f b with Some c => [c] | None => [] end else []))).
      { rewrite map_app. destruct (is_sub_return_point f b); [|reflexivity].
        destruct (callsub_block_of f b); reflexivity. }
      rewrite E, iso_append_new, iso_update. apply IH.
    Qed.

    (* ------------------------------------------------------------------ worklists *)
    Lemma iso_postorder_dfs : forall fuel n v o,
      postorder_dfs fuel f' (r n) (map r v) (map r o) =
      (map r (fst (postorder_dfs fuel f n v o)), map r (snd (postorder_dfs fuel f n v o))).
    Proof.
      induction fuel as [|fu IH]; intros n v o; [reflexivity|].
      cbn [postorder_dfs]. rewrite (iso_fblock f f' ISO).
      assert (Hfold : forall succs v0 o0,
        fold_left (fun '(v1, o1) s => if nat_mem s v1 then (v1, o1) else postorder_dfs fu f' s v1 o1)
                  (map r succs) (map r v0, map r o0) =
        (map r (fst (fold_left (fun '(v1, o1) s => if nat_mem s v1 then (v1, o1) else postorder_dfs fu f s v1 o1)
                               succs (v0, o0))),
         map r (snd (fold_left (fun '(v1, o1) s => if nat_mem s v1 then (v1, o1) else postorder_dfs fu f s v1 o1)
                               succs (v0, o0))))).
      { induction succs as [|a succs IHs]; intros v0 o0; [reflexivity|].
        cbn [map fold_left]. rewrite (iso_nat_mem f f' ISO).
        destruct (nat_mem a v0); [apply IHs|].
        rewrite IH. destruct (postorder_dfs fu f a v0 o0) as [v2 o2]. cbn [fst snd]. apply IHs. }
      assert (Hs : match option_map ren_block (fblock f n) with Some b => b_next b | None => [] end =
                   map r (match fblock f n with Some b => b_next b | None => [] end)).
      { destruct (fblock f n); reflexivity. }
      rewrite Hs. change (r n :: map r v) with (map r (n :: v)). rewrite Hfold.
      destruct (fold_left _ _ (n :: v, o)) as [v2 o2]. cbn [fst snd]. rewrite map_app. reflexivity.
    Qed.

    Lemma iso_postorder e : postorder f' (r e) = map r (postorder f e).
    Proof.
      unfold postorder. rewrite (iso_blocks f f' ISO), map_length.
      change (@nil nat) with (map r []). rewrite iso_postorder_dfs. reflexivity.
    Qed.

    Lemma iso_postorders : postorders f' = map (map r) (postorders f).
    Proof.
      unfold postorders. rewrite (iso_entry f f' ISO), iso_postorder, (iso_subs f f' ISO).
      cbn [map]. f_equal. rewrite !map_map. apply map_ext. intros s. cbn [ren_sub s_entry]. apply iso_postorder.
    Qed.

    Lemma iso_forward_worklist : forward_worklist f' = map r (forward_worklist f).
    Proof.
      unfold forward_worklist. rewrite iso_postorders. apply iso_flat_map_map.
      intros l _. rewrite map_rev. reflexivity.
    Qed.

    Lemma iso_backward_worklist : backward_worklist f' = map r (backward_worklist f).
    Proof.
      unfold backward_worklist. rewrite iso_postorders. apply iso_flat_map_map.
      intros l _. apply iso_filter_map. intros n _. rewrite (iso_fblock f f' ISO).
      destruct (fblock f n) as [b|] eqn:E; [|reflexivity]. cbn [option_map].
      rewrite (iso_leaf_global f f' ISO b) by (eapply fblock_In; exact E). reflexivity.
    Qed.

    (* ------------------------------------------------------------------ init_constraints, solve *)
    Lemma iso_init_constraints :
      init_constraints T univ null union inter single f' =
      option_map ren_st (init_constraints T univ null union inter single f).
    Proof.
      unfold init_constraints. rewrite (iso_blocks f f' ISO).
      rewrite (iso_forallb_map ren_block
                 (fun b => match next_global f b with Some _ => true | None => false end)).
      2:{ intros b Hb. rewrite (iso_next_global f f' ISO b Hb). destruct (next_global f b); reflexivity. }
      destruct (forallb _ (fn_blocks f)); [|reflexivity].
      unfold all_some. rewrite map_map.
      rewrite (map_ext_in _ (fun b => option_map (fun kv : nat * T => (r (fst kv), snd kv))
                 (option_map (fun c => (b_idx b, c)) (block_constraint T univ null union inter single f b)))).
      2:{ intros b Hb. rewrite (iso_block_constraint T univ null union inter single single_pos f f' ISO b Hb).
          destruct (block_constraint T univ null union inter single f b); reflexivity. }
      apply (iso_map_opt_map (fun kv : nat * T => (r (fst kv), snd kv))
               (fun b => option_map (fun c => (b_idx b, c)) (block_constraint T univ null union inter single f b))).
    Qed.

    Lemma iso_solve fuel bc :
      solve T t_eqb univ null union inter single f' fuel (ren_st bc) =
      omap ren_st (solve T t_eqb univ null union inter single f fuel bc).
    Proof.
      unfold solve. rewrite iso_forward_worklist, iso_backward_worklist, (iso_blocks f f' ISO), !map_map.
      assert (E0 : map (fun x => (b_idx (ren_block x), null)) (fn_blocks f) =
                   ren_st (map (fun b => (b_idx b, null)) (fn_blocks f))).
      { rewrite iso_ren_st_map. reflexivity. }
      rewrite E0, (iso_forward (lookup T bc) (lookup T (ren_st bc)) (iso_lookup bc)).
      destruct (forward T t_eqb univ null union inter single f (lookup T bc) fuel (forward_worklist f) _)
        as [ro| |]; cbn [omap]; try reflexivity.
      assert (E1 : map (fun x => (b_idx (ren_block x),
                                  if leaf_global f' (ren_block x)
                                  then match lookup T (ren_st ro) (b_idx (ren_block x)) with Some v => v | None => null end
                                  else null)) (fn_blocks f) =
                   ren_st (map (fun b => (b_idx b, if leaf_global f b
                                                   then match lookup T ro (b_idx b) with Some v => v | None => null end
                                                   else null)) (fn_blocks f))).
      { rewrite iso_ren_st_map. apply map_ext_in. intros b Hb.
        rewrite (iso_leaf_global f f' ISO b Hb). change (b_idx (ren_block b)) with (r (b_idx b)).
        rewrite iso_lookup. reflexivity. }
      rewrite map_map, E1. apply (iso_backward (lookup T ro) (lookup T (ren_st ro)) (iso_lookup ro)).
    Qed.
  End Solver.

  (* ==================================================================== PART 4 : the four domains *)
  Ltac fold_shift :=
    repeat match goal with
           | |- context [SKnown ?o (g ?p) (map (shift_sval g) ?a) ?x] =>
               change (SKnown o (g p) (map (shift_sval g) a) x) with (shift_sval g (SKnown o p a x))
           end.

  Lemma iso_get_index intcs v : get_index intcs (shift_sval g v) = get_index intcs v.
  Proof.
    destruct v as [|op pos args out]; [reflexivity|].
    destruct args as [|a1 [|a2 [|a3 rest]]]; try reflexivity.
    destruct a1 as [|o1 p1 r1 x1]; destruct a2 as [|o2 p2 r2 x2]; reflexivity.
  Qed.

  Lemma iso_get_index_and_field intcs v :
    get_index_and_field intcs (shift_sval g v) = get_index_and_field intcs v.
  Proof.
    destruct v as [|op pos args out]; [reflexivity|]. cbn [shift_sval].
    destruct op; try reflexivity.
    destruct args as [|a rest]; [reflexivity|]. cbn [map get_index_and_field]. rewrite iso_get_index. reflexivity.
  Qed.

  Lemma iso_value_matches intcs fam fld v :
    value_matches intcs fam fld (shift_sval g v) = value_matches intcs fam fld v.
  Proof. unfold value_matches. rewrite iso_get_index_and_field. reflexivity. Qed.

  Lemma iso_int_single size intcs op pos args :
    int_single size intcs op (g pos) (map (shift_sval g) args) = int_single size intcs op pos args.
  Proof.
    unfold int_single.
    destruct args as [|[|o1 p1 a1 x1] [|[|o2 p2 a2 x2] [|a3 rest]]]; reflexivity.
  Qed.

  Lemma iso_type_single intcs fam op pos args :
    type_single intcs fam op (g pos) (map (shift_sval g) args) = type_single intcs fam op pos args.
  Proof.
    unfold type_single. cbv zeta. fold_shift. rewrite iso_value_matches.
    destruct (value_matches intcs fam "ApplicationID" (SKnown op pos args 0)); [reflexivity|].
    destruct op; try reflexivity;
      destruct args as [|[|o1 p1 a1 x1] [|[|o2 p2 a2 x2] [|a3 rest]]]; try reflexivity;
      cbn [map shift_sval]; fold_shift; rewrite !iso_value_matches; reflexivity.
  Qed.

  Lemma iso_addr_single intcs fam fld op pos args :
    addr_single intcs fam fld op (g pos) (map (shift_sval g) args) = addr_single intcs fam fld op pos args.
  Proof.
    unfold addr_single. cbv zeta.
    destruct op; try reflexivity;
      destruct args as [|[|o1 p1 a1 x1] [|[|o2 p2 a2 x2] [|a3 rest]]]; try reflexivity;
      cbn [map shift_sval]; fold_shift; rewrite ?iso_value_matches; reflexivity.
  Qed.

  Lemma iso_fee_single intcs fam op pos args :
    fee_single intcs fam op (g pos) (map (shift_sval g) args) = fee_single intcs fam op pos args.
  Proof.
    unfold fee_single. cbv zeta.
    destruct (cmp_of op); try reflexivity;
      destruct args as [|[|o1 p1 a1 x1] [|[|o2 p2 a2 x2] [|a3 rest]]]; try reflexivity;
      cbn [map shift_sval]; fold_shift; rewrite ?iso_value_matches; reflexivity.
  Qed.

  Lemma iso_ren_st_pair {T} (F F' : nat * T -> nat * T) (l : list (nat * T)) :
    (forall kv, F' (r (fst kv), snd kv) = (r (fst (F kv)), snd (F kv))) ->
    map F' (ren_st l) = ren_st (map F l).
  Proof. intros H. unfold ren_st. rewrite !map_map. apply map_ext. intros kv. apply H. Qed.

  Section RunAll.
    Variables f f' : func.
    Hypothesis ISO : fiso f f'.
    Variable fuel : nat.

    Lemma iso_run_int size : run_int f' fuel size = omap ren_st (run_int f fuel size).
    Proof.
      unfold run_int. cbv zeta. rewrite (iso_intcs f f' ISO).
      rewrite (iso_init_constraints (list Z) _ _ zunion zinter (int_single size (fn_intcs f))
                 (iso_int_single size (fn_intcs f)) f f' ISO).
      destruct (init_constraints (list Z) _ _ zunion zinter (int_single size (fn_intcs f)) f) as [bc|];
        [|reflexivity].
      cbn [option_map].
      apply (iso_solve (list Z) zset_eqb _ _ zunion zinter (int_single size (fn_intcs f))
               (iso_int_single size (fn_intcs f)) f f' ISO).
    Qed.

    Lemma iso_run_family {T} (t_eqb : T -> T -> bool) (univ null : T) (union inter : T -> T -> T)
          (single : keyfam -> instr -> nat -> list sval -> T * T)
          (Hs : forall fam op pos args, single fam op (g pos) (map (shift_sval g) args) = single fam op pos args)
          (indices : list (nat * list Z)) :
      run_family f' fuel t_eqb univ null union inter single (ren_st indices) =
      omap ren_fam (run_family f fuel t_eqb univ null union inter single indices).
    Proof.
      unfold run_family.
      rewrite (iso_init_constraints T univ null union inter (single KSelf) (Hs KSelf) f f' ISO).
      destruct (init_constraints T univ null union inter (single KSelf) f) as [bc0|]; [|reflexivity].
      cbn [option_map].
      rewrite (iso_solve T t_eqb univ null union inter (single KSelf) (Hs KSelf) f f' ISO).
      destruct (solve T t_eqb univ null union inter (single KSelf) f fuel bc0) as [base| |];
        cbn [omap]; try reflexivity.
      match goal with
      | |- match seq_outcomes _ ?G' with _ => _ end = omap _ (match seq_outcomes _ ?G with _ => _ end) =>
          rewrite (iso_seq_outcomes_map (fun kv : keyfam * list (nat * T) => (fst kv, ren_st (snd kv)))
                     all_gtx_fams G G')
      end.
      - destruct (seq_outcomes all_gtx_fams _) as [rest| |]; reflexivity.
      - intros fam.
        rewrite (iso_init_constraints T univ null union inter (single fam) (Hs fam) f f' ISO).
        destruct (init_constraints T univ null union inter (single fam) f) as [bc|]; [|reflexivity].
        cbn [option_map].
        assert (Ebc : match fam with
                      | KAtIndex i =>
                          map (fun '(b, c) =>
                                 let gi := match lookup _ (ren_st indices) b with Some l => l | None => [] end in
                                 if zmem (Z.of_N i) gi
                                 then (b, inter c (match lookup _ (ren_st base) b with Some v => v | None => null end))
                                 else (b, null)) (ren_st bc)
                      | _ => ren_st bc
                      end =
                      ren_st (match fam with
                              | KAtIndex i =>
                                  map (fun '(b, c) =>
                                         let gi := match lookup _ indices b with Some l => l | None => [] end in
                                         if zmem (Z.of_N i) gi
                                         then (b, inter c (match lookup _ base b with Some v => v | None => null end))
                                         else (b, null)) bc
                              | _ => bc
                              end)).
        { destruct fam; try reflexivity. apply iso_ren_st_pair. intros [b c]. cbn [fst snd].
          rewrite (iso_lookup (list Z) f f' ISO), (iso_lookup T f f' ISO).
          destruct (zmem _ _); reflexivity. }
        cbv zeta in Ebc. rewrite Ebc.
        rewrite (iso_solve T t_eqb univ null union inter (single fam) (Hs fam) f f' ISO).
        destruct (solve T t_eqb univ null union inter (single fam) f fuel _) as [res| |]; reflexivity.
    Qed.

    Lemma iso_run_all : run_all f' fuel = omap ren_result (run_all f fuel).
    Proof.
      unfold run_all. cbv zeta. rewrite !iso_run_int, (iso_intcs f f' ISO).
      destruct (run_int f fuel true) as [sizes| |]; destruct (run_int f fuel false) as [idx0| |];
        cbn [omap]; try reflexivity.
      assert (Ei : map (fun '(b, gi) =>
                          (b, filter (fun i => Z.ltb i (zmax_default
                                 (match lookup _ (ren_st sizes) b with Some l => l | None => [] end))) gi))
                       (ren_st idx0) =
                   ren_st (map (fun '(b, gi) =>
                                  (b, filter (fun i => Z.ltb i (zmax_default
                                         (match lookup _ sizes b with Some l => l | None => [] end))) gi)) idx0)).
      { apply iso_ren_st_pair. intros [b gi]. cbn [fst snd].
        rewrite (iso_lookup (list Z) f f' ISO). reflexivity. }
      rewrite Ei. clear Ei.
      set (indices := map (fun '(b, gi) =>
                             (b, filter (fun i => Z.ltb i (zmax_default
                                    (match lookup _ sizes b with Some l => l | None => [] end))) gi)) idx0).
      match goal with
      | |- match seq_outcomes _ ?G' with _ => _ end = omap _ (match seq_outcomes _ ?G with _ => _ end) =>
          rewrite (iso_seq_outcomes_map (@ren_fam (string * keyfam) sset) addr_fields_list G G')
      end.
      2:{ intros fld.
          rewrite (iso_run_family sset_seteqb addr_universal_set addr_null_set addr_union addr_intersection
                     (fun fam => addr_single (fn_intcs f) fam fld)
                     (fun fam => iso_addr_single (fn_intcs f) fam fld) indices).
          destruct (run_family f fuel sset_seteqb _ _ _ _ _ indices) as [rr| |]; cbn [omap]; try reflexivity.
          f_equal. unfold ren_fam. rewrite !map_map. apply map_ext. intros [fam v]. reflexivity. }
      destruct (seq_outcomes addr_fields_list _) as [addrs| |]; cbn [omap]; try reflexivity.
      rewrite (iso_run_family feeval_eqb fee_universal_set fee_null_set fee_union fee_intersection
                 (fun fam => fee_single (fn_intcs f) fam)
                 (fun fam => iso_fee_single (fn_intcs f) fam) indices).
      destruct (run_family f fuel feeval_eqb _ _ _ _ _ indices) as [fees| |]; cbn [omap]; try reflexivity.
      rewrite (iso_run_family lset_eqb ALL_TRANSACTION_TYPES [] lunion linter
                 (fun fam => type_single (fn_intcs f) fam)
                 (fun fam => iso_type_single (fn_intcs f) fam) indices).
      destruct (run_family f fuel lset_eqb _ _ _ _ _ indices) as [types| |]; cbn [omap]; try reflexivity.
      unfold ren_result. cbn [r_sizes r_indices r_types r_addrs r_fees]. f_equal. f_equal.
      unfold ren_fam at 2. rewrite concat_map. reflexivity.
    Qed.
  End RunAll.

  (* ==================================================================== PART 5 : contexts, search, detectors *)
  Lemma iso_forallb_ext {A} (p q : A -> bool) l : (forall x, p x = q x) -> forallb p l = forallb q l.
  Proof. intros H. induction l as [|x l IH]; [reflexivity|]. cbn [forallb]. rewrite H, IH. reflexivity. Qed.

  Lemma iso_but_last_l {A B} (h : A -> B) l : but_last_l (map h l) = map h (but_last_l l).
  Proof.
    induction l as [|x l IH]; [reflexivity|]. destruct l as [|y l]; [reflexivity|].
    cbn [map but_last_l] in *. rewrite IH. reflexivity.
  Qed.

  Definition ren_frame (fr : option nat * string) : option nat * string := (option_map r (fst fr), snd fr).
  Definition ren_stack (st : list (option nat * string)) : list (option nat * string) := map ren_frame st.

  Lemma iso_last_stack st : List.last (ren_stack st) (None, "") = ren_frame (List.last st (None, "")).
  Proof. unfold ren_stack. exact (iso_last_map ren_frame st (None, "")). Qed.
  Lemma iso_but_last_stack st : but_last_l (ren_stack st) = ren_stack (but_last_l st).
  Proof. unfold ren_stack. apply iso_but_last_l. Qed.
  Lemma iso_existsb_stack l st :
    existsb (fun '(_, s) => s =? l) (ren_stack st) = existsb (fun '(_, s) => s =? l) st.
  Proof. unfold ren_stack. apply iso_existsb_map. intros [o s] _. reflexivity. Qed.

  Lemma iso_last_nil (l : list (list nat)) : List.last (map (map r) l) [] = map r (List.last l []).
  Proof. exact (iso_last_map (map r) l []). Qed.

  Section Detect.
    Variables f f' : func.
    Hypothesis ISO : fiso f f'.

    Lemma iso_res_addr res fld fam b : res_addr (ren_result res) fld fam (r b) = res_addr res fld fam b.
    Proof.
      unfold res_addr, ren_result. cbn [r_addrs]. unfold ren_fam.
      match goal with |- context [find ?P (map ?h ?l)] => rewrite (iso_find_map h P P l) end.
      2:{ intros [[fl fm] st] _. reflexivity. }
      destruct (find _ (r_addrs res)) as [[[fl fm] st]|]; [|reflexivity].
      cbn [option_map fst snd]. rewrite (iso_lookup sset f f' ISO). reflexivity.
    Qed.

    Lemma iso_res_fee res fam b : res_fee (ren_result res) fam (r b) = res_fee res fam b.
    Proof.
      unfold res_fee, ren_result. cbn [r_fees]. unfold ren_fam.
      match goal with |- context [find ?P (map ?h ?l)] => rewrite (iso_find_map h P P l) end.
      2:{ intros [fm st] _. reflexivity. }
      destruct (find _ (r_fees res)) as [[fm st]|]; [|reflexivity].
      cbn [option_map fst snd]. rewrite (iso_lookup feeval f f' ISO). reflexivity.
    Qed.

    Lemma iso_res_types res fam b : res_types (ren_result res) fam (r b) = res_types res fam b.
    Proof.
      unfold res_types, ren_result. cbn [r_types]. unfold ren_fam.
      match goal with |- context [find ?P (map ?h ?l)] => rewrite (iso_find_map h P P l) end.
      2:{ intros [fm st] _. reflexivity. }
      destruct (find _ (r_types res)) as [[fm st]|]; [|reflexivity].
      cbn [option_map fst snd]. rewrite (iso_lookup (list string) f f' ISO). reflexivity.
    Qed.

    Lemma iso_ctx_of res b fam : ctx_of (ren_result res) (r b) fam = ctx_of res b fam.
    Proof.
      unfold ctx_of. rewrite !iso_res_addr, iso_res_fee, iso_res_types.
      cbn [ren_result r_sizes r_indices]. rewrite !(iso_lookup (list Z) f f' ISO). reflexivity.
    Qed.

    Lemma iso_validated_in_block res checks ai b :
      validated_in_block (ren_result res) checks ai (r b) = validated_in_block res checks ai b.
    Proof.
      unfold validated_in_block. rewrite !iso_ctx_of.
      destruct (checks (ctx_of res b KSelf)); [reflexivity|].
      destruct ai as [i|]; [rewrite iso_ctx_of; reflexivity|].
      apply iso_forallb_ext. intros i. rewrite iso_ctx_of. reflexivity.
    Qed.

    Section Search.
      Variables validated validated' : nat -> bool.
      Variables report report' : list nat -> bool.
      Hypothesis Hval : forall n, validated' (r n) = validated n.
      Hypothesis Hrep : forall p, report' (map r p) = report p.

      Lemma iso_search : forall fuel bb path stack executed,
        search f' validated' report' fuel (r bb) (map r path) (ren_stack stack) (map (map r) executed) =
        omap ren_paths (search f validated report fuel bb path stack executed).
      Proof.
        induction fuel as [|fu IH]; intros bb path stack executed; [reflexivity|].
        cbn [search].
        rewrite iso_last_nil, (iso_nat_mem f f' ISO).
        destruct (nat_mem bb (List.last executed [])); [reflexivity|].
        rewrite Hval. destruct (validated bb); [reflexivity|].
        rewrite (iso_fblock f f' ISO). destruct (fblock f bb) as [b|] eqn:Eb; [|reflexivity].
        cbn [option_map].
        assert (Hb : In b (fn_blocks f)) by (eapply fblock_In; exact Eb).
        rewrite (iso_leaf_global f f' ISO b Hb).
        assert (Ep : map r path ++ [r bb] = map r (path ++ [bb])) by (rewrite map_app; reflexivity).
        rewrite Ep.
        destruct (leaf_global f b).
        { rewrite Hrep. destruct (report (path ++ [bb])); reflexivity. }
        assert (Ee : but_last_l (map (map r) executed) ++ [map r (List.last executed []) ++ [r bb]] =
                     map (map r) (but_last_l executed ++ [List.last executed [] ++ [bb]])).
        { rewrite map_app, iso_but_last_l. cbn [map]. rewrite map_app. reflexivity. }
        rewrite Ee. set (executed1 := but_last_l executed ++ [List.last executed [] ++ [bb]]).
        set (path1 := path ++ [bb]).
        rewrite (iso_fexit_op f f' ISO b Hb).
        assert (Hdef :
          match next_global f' (ren_block b) with
          | None => Exn "KeyError: next_blocks_global"
          | Some nx =>
              fold_left (fun acc nb =>
                           match acc with
                           | Done ps => match search f' validated' report' fu nb (map r path1) (ren_stack stack)
                                                     (map (map r) executed1) with
                                        | Done qs => Done (ps ++ qs) | Exn e => Exn e | OutOfFuel => OutOfFuel end
                           | x => x
                           end) nx (Done [])
          end =
          omap ren_paths
            match next_global f b with
            | None => Exn "KeyError: next_blocks_global"
            | Some nx =>
                fold_left (fun acc nb =>
                             match acc with
                             | Done ps => match search f validated report fu nb path1 stack executed1 with
                                          | Done qs => Done (ps ++ qs) | Exn e => Exn e | OutOfFuel => OutOfFuel end
                             | x => x
                             end) nx (Done [])
            end).
        { rewrite (iso_next_global f f' ISO b Hb).
          destruct (next_global f b) as [nx|]; [|reflexivity]. cbn [option_map].
          assert (Hf : forall nx0 acc,
            fold_left (fun acc nb =>
                         match acc with
                         | Done ps => match search f' validated' report' fu nb (map r path1) (ren_stack stack)
                                                   (map (map r) executed1) with
                                      | Done qs => Done (ps ++ qs) | Exn e => Exn e | OutOfFuel => OutOfFuel end
                         | x => x
                         end) (map r nx0) (omap ren_paths acc) =
            omap ren_paths
              (fold_left (fun acc nb =>
                            match acc with
                            | Done ps => match search f validated report fu nb path1 stack executed1 with
                                         | Done qs => Done (ps ++ qs) | Exn e => Exn e | OutOfFuel => OutOfFuel end
                            | x => x
                            end) nx0 acc)).
          { induction nx0 as [|a nx0 IHn]; intros acc; [reflexivity|].
            cbn [map fold_left]. rewrite <- IHn. f_equal.
            destruct acc as [ps| |]; cbn [omap]; try reflexivity.
            rewrite IH. destruct (search f validated report fu a path1 stack executed1) as [qs| |];
              cbn [omap]; try reflexivity.
            unfold ren_paths. rewrite map_app. reflexivity. }
          exact (Hf nx (Done [])). }
        destruct (fexit_op f b) as [[]|]; try exact Hdef.
        - (* callsub *)
          rewrite iso_existsb_stack. destruct (existsb _ stack); [reflexivity|].
          rewrite (iso_find_sub f f' ISO). destruct (f_find_sub f l) as [s|]; [|reflexivity].
          cbn [option_map ren_sub s_entry].
          assert (Es : ren_stack stack ++ [(Some (r bb), l)] = ren_stack (stack ++ [(Some bb, l)]))
            by (unfold ren_stack; rewrite map_app; reflexivity).
          assert (Ex : map (map r) executed1 ++ [[]] = map (map r) (executed1 ++ [[]]))
            by (rewrite map_app; reflexivity).
          rewrite Es, Ex. apply IH.
        - (* retsub *)
          rewrite iso_last_stack. destruct (List.last stack (None, "")) as [[cs|] nm]; [|reflexivity].
          cbn [ren_frame option_map fst snd]. rewrite (iso_fblock f f' ISO).
          destruct (fblock f cs) as [cb|]; [|reflexivity]. cbn [option_map].
          rewrite iso_sub_return_point. destruct (sub_return_point cb) as [rp|]; [|reflexivity].
          cbn [option_map]. rewrite iso_but_last_stack, iso_but_last_l. apply IH.
      Qed.
    End Search.

    Lemma iso_accessed n : accessed_using_absolute_index f' (r n) = accessed_using_absolute_index f n.
    Proof.
      unfold accessed_using_absolute_index. rewrite (iso_fblock f f' ISO).
      destruct (fblock f n) as [b|] eqn:Eb; [|reflexivity]. cbn [option_map ren_block b_ins].
      rewrite (iso_emulate f f' ISO b) by (eapply fblock_In; exact Eb). rewrite (iso_intcs f f' ISO).
      destruct (emulate (fn_prog f) (b_ins b) []) as [ast|]; [|reflexivity]. cbn [option_map].
      apply iso_existsb_map. intros [[pos op] args] _. cbn [shift_entry].
      destruct op; try reflexivity; destruct args as [|[|o p a x] rest]; reflexivity.
    Qed.

    Lemma iso_run_detector_res res fuel name checks :
      run_detector f' (ren_result res) fuel name checks = omap ren_paths (run_detector f res fuel name checks).
    Proof.
      unfold run_detector, detect_paths. rewrite (iso_entry f f' ISO).
      destruct (name =? "group-size-check").
      - exact (iso_search _ _ _ _ (iso_validated_in_block res checks None)
                 (fun p => iso_existsb_map r _ _ p (fun x _ => iso_accessed x))
                 fuel (fn_entry f) [] [(None, "")] [[]]).
      - exact (iso_search _ _ _ _ (iso_validated_in_block res checks None) (fun p => eq_refl)
                 fuel (fn_entry f) [] [(None, "")] [[]]).
    Qed.
  End Detect.
End Renaming.

(* ====================================================================== PART 6 : the decidable check; end-to-end theorems *)
Definition instr_eq_dec_iso : forall a b : instr, {a = b} + {a <> b}.
Proof. repeat decide equality. Defined.
Definition block_eq_dec_iso : forall a b : block, {a = b} + {a <> b}.
Proof. repeat decide equality. Defined.
Definition sub_eq_dec_iso : forall a b : subroutine, {a = b} + {a <> b}.
Proof. repeat decide equality. Defined.
Definition dec_b {P : Prop} (d : {P} + {~ P}) : bool := if d then true else false.
Lemma dec_b_true {P : Prop} (d : {P} + {~ P}) : dec_b d = true -> P.
Proof. destruct d; [auto|discriminate]. Qed.

Definition opt_eq_dec_iso {A} (d : forall a b : A, {a = b} + {a <> b}) : forall a b : option A, {a = b} + {a <> b}.
Proof. decide equality. Defined.

Definition iso_check (r g : nat -> nat) (f f' : func) : bool :=
  dec_b (list_eq_dec block_eq_dec_iso (fn_blocks f') (map (ren_block r g) (fn_blocks f))) &&
  forallb (fun b => forallb (fun k => dec_b (opt_eq_dec_iso instr_eq_dec_iso (op_at (fn_prog f') (g k)) (op_at (fn_prog f) k)))
                            (b_ins b)) (fn_blocks f) &&
  forallb (fun b => match fexit_op f b with
                    | Some br => Bool.eqb (branch_to_next (fn_prog f') br (g (List.last (b_ins b) 0)))
                                          (branch_to_next (fn_prog f) br (List.last (b_ins b) 0))
                    | None => true
                    end) (fn_blocks f) &&
  Nat.eqb (fn_entry f') (r (fn_entry f)) &&
  dec_b (list_eq_dec sub_eq_dec_iso (fn_subs f') (map (ren_sub r) (fn_subs f))) &&
  dec_b (opt_eq_dec_iso (list_eq_dec N.eq_dec) (fn_intcs f') (fn_intcs f)) &&
  forallb (fun name => dec_b (opt_eq_dec_iso sub_eq_dec_iso (f_find_sub f' name) (option_map (ren_sub r) (f_find_sub f name))))
          (map s_name (fn_all_subs f) ++ map s_name (fn_all_subs f')) &&
  forallb (fun b => dec_b (opt_eq_dec_iso string_dec (f_sub_of f' (r (b_idx b))) (f_sub_of f (b_idx b)))) (fn_blocks f).

Lemma iso_find_sub_none (l : list subroutine) name :
  ~ In name (map s_name l) -> find (fun s => s_name s =? name) l = None.
Proof.
  intros H. destruct (find (fun s => s_name s =? name) l) as [s|] eqn:E; [|reflexivity].
  exfalso. apply find_some in E. destruct E as [Hin He]. apply String.eqb_eq in He.
  apply H. apply in_map_iff. exists s. split; assumption.
Qed.

Theorem iso_check_sound r g f f' :
  (forall x y, r x = r y -> x = y) -> (forall x y, g x = g y -> x = y) ->
  iso_check r g f f' = true -> fiso r g f f'.
Proof.
  intros Hr Hg H. unfold iso_check in H.
  repeat (apply andb_true_iff in H; let H2 := fresh "C" in destruct H as [H H2]).
  rename H into C6.
  constructor; try assumption.
  - exact (dec_b_true _ C6).
  - intros b k Hb Hk. rewrite forallb_forall in C5. specialize (C5 b Hb).
    rewrite forallb_forall in C5. exact (dec_b_true _ (C5 k Hk)).
  - intros b br Hb Hop. rewrite forallb_forall in C4. specialize (C4 b Hb). rewrite Hop in C4.
    apply Bool.eqb_prop in C4. exact C4.
  - apply Nat.eqb_eq. exact C3.
  - exact (dec_b_true _ C2).
  - exact (dec_b_true _ C1).
  - intros name.
    destruct (in_dec string_dec name (map s_name (fn_all_subs f) ++ map s_name (fn_all_subs f'))) as [Hin|Hnin].
    + rewrite forallb_forall in C0. exact (dec_b_true _ (C0 name Hin)).
    + unfold f_find_sub. rewrite in_app_iff in Hnin.
      rewrite !iso_find_sub_none by tauto. reflexivity.
  - intros b Hb. rewrite forallb_forall in C. exact (dec_b_true _ (C b Hb)).
Qed.

(* ---------------------------------------------------------------------- end to end *)
(* contexts, validation, reported paths and verdicts of isomorphic functions coincide up to the renaming, for every
   fuel (exceptions and fuel exhaustion included) and every detector predicate *)
Theorem iso_verdicts r g f f' : fiso r g f f' -> forall fuel,
  run_all f' fuel = omap (ren_result r) (run_all f fuel) /\
  forall res,
    (forall b fam, ctx_of (ren_result r res) (r b) fam = ctx_of res b fam) /\
    (forall b checks ai, validated_in_block (ren_result r res) checks ai (r b) = validated_in_block res checks ai b) /\
    (forall fuel' name checks,
       run_detector f' (ren_result r res) fuel' name checks =
       omap (ren_paths r) (run_detector f res fuel' name checks)).
Proof.
  intros ISO fuel. split; [exact (iso_run_all r g f f' ISO fuel)|].
  intros res. split; [|split].
  - intros b fam. exact (iso_ctx_of r g f f' ISO res b fam).
  - intros b checks ai. exact (iso_validated_in_block r g f f' ISO res checks ai b).
  - intros fuel' name checks. exact (iso_run_detector_res r g f f' ISO res fuel' name checks).
Qed.

(* the verdict reading: whenever the analysis and a detector terminate on f, they terminate on f' with the renamed
   contexts and exactly the renamed paths in the same order; in particular "some path" / "no path" is the same *)
Corollary iso_verdict r g f f' fuel fuel' res name checks ps :
  fiso r g f f' ->
  run_all f fuel = Done res -> run_detector f res fuel' name checks = Done ps ->
  exists res' ps',
    run_all f' fuel = Done res' /\ run_detector f' res' fuel' name checks = Done ps' /\
    ps' = map (map r) ps /\ (ps' = [] <-> ps = []) /\ length ps' = length ps /\
    (forall b fam, ctx_of res' (r b) fam = ctx_of res b fam).
Proof.
  intros ISO Hrun Hdet. destruct (iso_verdicts r g f f' ISO fuel) as [Hall Hres].
  destruct (Hres res) as [Hctx [_ Hd]].
  exists (ren_result r res), (map (map r) ps). rewrite Hall, Hrun, Hd, Hdet. cbn [omap].
  repeat split; auto.
  - destruct ps; [reflexivity|discriminate].
  - intros ->. reflexivity.
  - apply map_length.
Qed.

(* ... and conversely: termination on f' implies termination on f (the outcomes correspond one to one) *)
Corollary iso_verdict_conv r g f f' fuel fuel' res' name checks ps' :
  fiso r g f f' ->
  run_all f' fuel = Done res' -> run_detector f' res' fuel' name checks = Done ps' ->
  exists res ps,
    run_all f fuel = Done res /\ run_detector f res fuel' name checks = Done ps /\
    res' = ren_result r res /\ ps' = map (map r) ps.
Proof.
  intros ISO Hrun Hdet. destruct (iso_verdicts r g f f' ISO fuel) as [Hall Hres].
  rewrite Hall in Hrun. destruct (run_all f fuel) as [res| |] eqn:Er; try discriminate.
  cbn [omap] in Hrun. inversion Hrun; subst res'. clear Hrun.
  destruct (Hres res) as [_ [_ Hd]]. rewrite Hd in Hdet.
  destruct (run_detector f res fuel' name checks) as [ps| |] eqn:Ed; try discriminate.
  cbn [omap] in Hdet. inversion Hdet; subst ps'.
  exists res, ps. repeat split; auto.
Qed.

(* the same with the decidable check *)
Corollary iso_check_verdicts r g f f' :
  (forall x y, r x = r y -> x = y) -> (forall x y, g x = g y -> x = y) ->
  iso_check r g f f' = true -> forall fuel,
  run_all f' fuel = omap (ren_result r) (run_all f fuel) /\
  forall res,
    (forall b fam, ctx_of (ren_result r res) (r b) fam = ctx_of res b fam) /\
    (forall b checks ai, validated_in_block (ren_result r res) checks ai (r b) = validated_in_block res checks ai b) /\
    (forall fuel' name checks,
       run_detector f' (ren_result r res) fuel' name checks =
       omap (ren_paths r) (run_detector f res fuel' name checks)).
Proof. intros Hr Hg H. apply (iso_verdicts r g f f'). apply iso_check_sound; assumption. Qed.

(* ====================================================================== the renaming induced by swapping two adjacent
   segments [a, a+m) and [a+m, a+m+n) : the first moves up by n, the second down by m *)
Definition swap_shift (a m n k : nat) : nat :=
  if Nat.ltb k a then k else if Nat.ltb k (a + m) then k + n else if Nat.ltb k (a + m + n) then k - m else k.

Lemma swap_shift_inj a m n x y : swap_shift a m n x = swap_shift a m n y -> x = y.
Proof.
  unfold swap_shift.
  destruct (Nat.ltb_spec x a); destruct (Nat.ltb_spec x (a + m)); destruct (Nat.ltb_spec x (a + m + n));
    destruct (Nat.ltb_spec y a); destruct (Nat.ltb_spec y (a + m)); destruct (Nat.ltb_spec y (a + m + n)); lia.
Qed.

Lemma swap_shift_inv a m n k : swap_shift a n m (swap_shift a m n k) = k.
Proof.
  unfold swap_shift.
  destruct (Nat.ltb_spec k a); destruct (Nat.ltb_spec k (a + m)); destruct (Nat.ltb_spec k (a + m + n));
    repeat match goal with |- context [Nat.ltb ?x ?y] => destruct (Nat.ltb_spec x y) end; lia.
Qed.

Corollary swap_check_verdicts a m n a' m' n' f f' :
  iso_check (swap_shift a m n) (swap_shift a' m' n') f f' = true -> forall fuel,
  run_all f' fuel = omap (ren_result (swap_shift a m n)) (run_all f fuel) /\
  forall res,
    (forall b fam, ctx_of (ren_result (swap_shift a m n) res) (swap_shift a m n b) fam = ctx_of res b fam) /\
    (forall b checks ai, validated_in_block (ren_result (swap_shift a m n) res) checks ai (swap_shift a m n b) =
                         validated_in_block res checks ai b) /\
    (forall fuel' name checks,
       run_detector f' (ren_result (swap_shift a m n) res) fuel' name checks =
       omap (ren_paths (swap_shift a m n)) (run_detector f res fuel' name checks)).
Proof. apply iso_check_verdicts; apply swap_shift_inj. Qed.

Print Assumptions iso_verdicts.
Print Assumptions iso_verdict.
Print Assumptions iso_verdict_conv.
Print Assumptions iso_check_sound.
Print Assumptions swap_check_verdicts.
