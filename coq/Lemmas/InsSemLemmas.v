(* Refinement: every approving instruction-level execution (Spec/InsSem.v: pc, return stack, data stack;
   no blocks) induces a block-level Exec.Accepts of whole_function t over exactly the blocks it visits
   (WalkLemmas.abs_trace of its control projection).  The end-to-end theorems stated with Exec.Accepts
   are then transported to the instruction level.

   Part 1  control projection: an IExec projects to an InsExec.IRun;
   Part 2  traces: crun_tr extended by one executed instruction;
   Part 3  the simulation (one block visit = bexec of the block; branch taken = branch_ok);
   Part 4  the refinement theorem;
   Part 5  corollaries: run_all_fee_sound_ins, fee_analysis_sound_ins, C01_fee_no_miss_ins;
   Part 6  the converse: every Exec.Accepts of whole_function t is induced by an IAccepts (accepts_iff_iaccepts);
   Part 7  recursion freedom stated at the pc level (inonrecursive_nonrecursive, C01_fee_no_miss_ins_pc);
   Part 8  examples (concrete IAccepts witnesses under ExecLemmas.sem_ref; C01_fee_no_miss_ins is not vacuous).

   No hypothesis beyond [parse_teal p = Ok t] is needed in either direction: the shapes that could break the
   correspondence (falling off the end, a final callsub, retsub in main, a conditional branch to the next
   line, a conditional branch as last instruction) are either outside IAccepts/Accepts by definition (both
   end by executing a `return` with an empty return stack) or handled by Exec.jump_ok's special case. *)
From Coq Require Import String List NArith ZArith Bool Arith Lia.
From Tealer Require Import Tables LeafPrelude Leaves Syntax Parse Cfg StackAst Keys Analysis Domains Detect.
From Tealer Require Import Runs Paths InsExec Eval Exec InsSem.
From Tealer Require Import StackLemmas LeafLemmas SingleLemmas CfgLemmas SubLemmas GraphWf GraphOk WalkLemmas RunLemmas.
From Tealer Require Import PathCut Compose ExecLemmas NoMiss SolverLemmas EdgeRepair.
Import ListNotations.
Open Scope list_scope.

(* ================================================================== Part 1: control projection *)
Lemma ctl_istep p op args c c' :
  op_at p (fst c) = Some op -> ctl p op args c c' -> istep p c c'.
Proof.
  intros Hop H. destruct H as [l k args pc st Hl | l k c0 pc st _ Hl | l c0 pc st _ Hlt | l k c0 pc st _ Hl
                              | l c0 pc st _ Hlt | ls l k args pc st Hin Hl | ls l k args pc st Hin Hl
                              | l k args pc st Hl | r args pc st Hlt | i args pc st Hf _ Hlt];
    cbn [fst] in Hop.
  - eapply IS_b; eauto.
  - eapply IS_bz; eauto.
  - eapply IS_next; eauto.
  - eapply IS_bnz; eauto.
  - eapply IS_next; eauto.
  - eapply IS_switch; eauto.
  - eapply IS_match; eauto.
  - eapply IS_call; eauto.
  - eapply IS_ret; eauto.
  - eapply IS_next; eauto.
Qed.

Lemma ctl_bz_inv p l c pc st pc' st' : ctl p (IBZ l) [c] (pc, st) (pc', st') ->
  st' = st /\ ((truthy c = false /\ label_at p l pc') \/ (truthy c = true /\ pc' = S pc /\ S pc < length p)).
Proof.
  intros H. inversion H; subst; try discriminate; (split; [reflexivity|]); [left | right]; auto.
Qed.

Lemma ctl_bnz_inv p l c pc st pc' st' : ctl p (IBNZ l) [c] (pc, st) (pc', st') ->
  st' = st /\ ((truthy c = true /\ label_at p l pc') \/ (truthy c = false /\ pc' = S pc /\ S pc < length p)).
Proof.
  intros H. inversion H; subst; try discriminate; (split; [reflexivity|]); [left | right]; auto.
Qed.

Lemma dstep_istep e sem p c c' : dstep e sem p c c' -> istep p (ctl_of c) (ctl_of c').
Proof.
  intros H. destruct H as [pc st cs op args cs' pc' st' Hop _ Hctl]. cbn [ctl_of].
  exact (ctl_istep p op args (pc, st) (pc', st') Hop Hctl).
Qed.

Lemma iexecfrom_irunfrom e sem p c tr :
  IExecFrom e sem p c tr -> IRunFrom p (ctl_of c) (ctl_trace tr).
Proof.
  induction 1 as [c|c c' rest Hs _ IH]; [constructor|].
  cbn [ctl_trace map]. eapply IRF_step; [exact (dstep_istep e sem p c c' Hs) | exact IH].
Qed.

(* the control projection of a concrete execution is a control execution *)
Theorem iexec_is_irun e sem p tr : IExec e sem p tr -> IRun p (ctl_trace tr).
Proof. intros H. exact (iexecfrom_irunfrom e sem p (0, [], []) tr H). Qed.

Lemma iexecfrom_hd e sem p c tr : IExecFrom e sem p c tr -> tr = c :: tl tr.
Proof. intros H; destruct H; reflexivity. Qed.

(* ================================================================== Part 2: traces *)
Lemma last_ne {A} (l : list A) d d' : l <> [] -> last l d = last l d'.
Proof.
  induction l as [|a [|b r] IH]; intros H; [congruence | reflexivity |].
  change (last (b :: r) d = last (b :: r) d'). apply IH. discriminate.
Qed.

Lemma last_snoc {A} (l : list A) a d : last (l ++ [a]) d = a.
Proof. apply last_last. Qed.

Section Snoc.
  Variable sem : opsem.
  Variable p : prog.

  Lemma crun_tr_snoc : forall X cs0 tr0 cs pc op args outs cs',
    crun_tr cval sem p X cs0 = Some (tr0, cs) ->
    op_at p pc = Some op -> cstep cval sem op pc cs = Some (args, outs, cs') ->
    crun_tr cval sem p (X ++ [pc]) cs0 = Some (tr0 ++ [(pc, args, outs)], cs').
  Proof.
    induction X as [|k X IH]; intros cs0 tr0 cs pc op args outs cs' H Hop Hst.
    - cbn [crun_tr] in H. inversion H; subst tr0 cs. cbn [app crun_tr]. rewrite Hop, Hst. reflexivity.
    - cbn [app crun_tr] in *. destruct (op_at p k) as [opk|]; [|discriminate].
      destruct (cstep cval sem opk k cs0) as [[[a o] c1]|]; [|discriminate].
      destruct (crun_tr cval sem p X c1) as [[tr1 f1]|] eqn:E1; [|discriminate].
      inversion H; subst tr0 cs. rewrite (IH c1 tr1 f1 pc op args outs cs' E1 Hop Hst). reflexivity.
  Qed.
End Snoc.

Lemma no_fail_nil e p : no_fail e p [].
Proof. intros pos args outs op H. destruct H. Qed.

Lemma no_fail_snoc e p tr0 pc op args outs :
  no_fail e p tr0 -> op_at p pc = Some op -> fails e op args = false ->
  no_fail e p (tr0 ++ [(pc, args, outs)]).
Proof.
  intros H0 Hop Hf pos a o op' Hin Hop'. apply in_app_or in Hin. destruct Hin as [Hin|[E|[]]].
  - exact (H0 pos a o op' Hin Hop').
  - inversion E; subst pos a o. rewrite Hop in Hop'. inversion Hop'; subst op'. exact Hf.
Qed.

Lemma popped_snoc tr0 pc args outs : popped (tr0 ++ [(pc, args, outs)]) = args.
Proof. unfold popped. rewrite last_last. reflexivity. Qed.

(* ================================================================== list facts about block instruction lists *)
Lemma decomp_unique {A} (a : A) : forall X X' Y Y',
  NoDup (X ++ a :: Y) -> X ++ a :: Y = X' ++ a :: Y' -> X = X' /\ Y = Y'.
Proof.
  induction X as [|x X IH]; intros X' Y Y' Hnd E.
  - destruct X' as [|x' X']; cbn [app] in E.
    + inversion E. auto.
    + exfalso. inversion E as [[E1 E2]]. subst x'. cbn [app] in Hnd. apply NoDup_cons_iff in Hnd.
      apply (proj1 Hnd). rewrite E2. apply in_or_app. right. left. reflexivity.
  - destruct X' as [|x' X']; cbn [app] in E.
    + exfalso. inversion E as [[E1 E2]]. subst x. cbn [app] in Hnd. apply NoDup_cons_iff in Hnd.
      apply (proj1 Hnd). apply in_or_app. right. left. reflexivity.
    + inversion E as [[E1 E2]]. subst x'. cbn [app] in Hnd. apply NoDup_cons_iff in Hnd.
      destruct (IH X' Y Y' (proj2 Hnd) E2) as [-> ->]. auto.
Qed.

Lemma last_decomp (a : nat) X Y : NoDup (X ++ a :: Y) -> a = last (X ++ a :: Y) 0 -> Y = [].
Proof.
  intros Hnd E. destruct Y as [|h Y]; [reflexivity|]. exfalso.
  rewrite last_app_cons in E. change (last (a :: h :: Y) 0) with (last (h :: Y) 0) in E.
  apply NoDup_remove_2 in Hnd. apply Hnd. apply in_or_app. right.
  rewrite E. apply last_In. discriminate.
Qed.

(* ================================================================== Part 3: the simulation *)
Section Refine.
  Variables (e : env) (sem : opsem) (p : prog) (t : teal) (bs : list block) (rbs : list rawblock).
  Hypothesis Hparse : parse_teal p = Ok t.
  Hypothesis Hbs : build_blocks p = Some bs.
  Hypothesis Hc : create_bb p = Some rbs.
  Notation f := (whole_function t).
  Notation okc := (cfg_ok p t rbs).

  Lemma rf_ne : p <> [].
  Proof. exact (p_ne p t Hparse). Qed.
  Lemma rf_prog : fn_prog f = p.
  Proof. exact (whole_prog p t Hparse). Qed.

  (* a retained block seen as a raw block *)
  Lemma blk_raw b : In b (t_blocks t) ->
    exists rb, nth_error rbs (b_idx b) = Some rb /\ b_ins b = rb_ins rb /\ tblock t (b_idx b) = Some b /\
               NoDup (b_ins b) /\ b_ins b <> [].
  Proof.
    intros Hb. apply (in_t_blocks p t b Hparse) in Hb.
    destruct (tblock_raw p t bs rbs Hparse Hbs Hc _ b Hb) as (b0 & rb & nx & _ & Hn & Hi & _ & _ & _ & Hnn & _).
    exists rb. split; [assumption|]. split; [assumption|]. split; [assumption|]. split.
    - rewrite Hi. apply (NoDup_concat_In (map rb_ins rbs)); [rewrite (part p rbs Hc rf_ne); apply seq_NoDup|].
      apply in_map. eapply nth_error_In; eauto.
    - rewrite Hi. assumption.
  Qed.

  (* the block of a reachable pc *)
  Lemma blk_of pc st b : okc (pc, st) -> In b (t_blocks t) -> In pc (b_ins b) ->
    fblock f (b_idx b) = Some b /\ pc_block t pc = b_idx b /\ In (b_idx b) (wf_ids t) /\
    InBlk rbs pc (b_idx b) /\
    forall b', In b' (t_blocks t) -> In pc (b_ins b') -> b' = b.
  Proof.
    intros [(n & Hin & Hid) _] Hb Hpc. cbn [fst] in Hin.
    destruct (unique_block_sec p t bs rbs Hparse Hbs Hc pc n Hin Hid) as (b1 & Hb1 & Hpc1 & Hfb & Epc & Hu).
    assert (E : b = b1) by (apply Hu; assumption). subst b1.
    split; [assumption|]. split; [assumption|]. split.
    - apply (fblock_whole t (b_idx b) b). assumption.
    - split; [|exact Hu]. apply (t_block_inblk p t bs rbs Hparse Hbs Hc b pc Hb Hpc).
  Qed.

  Lemma fexit_last b X pc : b_ins b = X ++ [pc] -> fexit_op f b = op_at p pc.
  Proof.
    intros E. unfold fexit_op. rewrite rf_prog, E.
    destruct (X ++ [pc]) as [|h r] eqn:E2; [destruct X; discriminate|]. rewrite <- E2, last_last. reflexivity.
  Qed.

  (* `return` ends its block *)
  Lemma exit_return pc : op_at p pc = Some IReturn -> block_exit rbs pc.
  Proof.
    intros Hop n rb Hn Hin. destruct (Nat.eq_dec pc (last (rb_ins rb) 0)) as [E|E]; [exact E|].
    destruct (interior p rbs Hc rf_ne pc n rb Hn Hin E) as (_ & _ & (i & nx & Hi & Hnx & Hlen & _) & _).
    unfold ins_next in Hnx. rewrite Hop in Hnx. cbn in Hnx. inversion Hnx; subst nx. discriminate.
  Qed.

  (* a block that ends with `return` is a leaf *)
  Lemma return_leaf b X pc : In b (t_blocks t) -> b_ins b = X ++ [pc] -> op_at p pc = Some IReturn ->
    leaf_global f b = true.
  Proof.
    intros Hb E Hop. destruct (blk_raw b Hb) as (rb & Hn & Hi & Htb & _ & _).
    destruct (tblock_raw p t bs rbs Hparse Hbs Hc _ b Htb) as (b0 & rb' & nx & Hn0 & Hn' & _ & Hi0 & _ & Hnext & _ & _).
    rewrite Hn in Hn'. inversion Hn'; subst rb'.
    unfold leaf_global, f_is_retsub, f_is_callsub. rewrite (fexit_last b X pc E), Hop. cbn [negb andb].
    destruct (b_next b) as [|m r] eqn:En; [reflexivity|]. exfalso.
    assert (Hm : In m (b_next b0)) by (rewrite <- Hnext; left; reflexivity).
    apply (next_meaning p bs rbs b0 m Hbs Hc (nth_error_In _ _ Hn0)) in Hm.
    destruct Hm as (nx' & k & Hins & Hk & _).
    rewrite Hi0, <- Hi, E, last_last in Hins. unfold ins_next in Hins. rewrite Hop in Hins. cbn in Hins.
    inversion Hins; subst nx'. destruct Hk.
  Qed.

  (* a conditional branch that is the last instruction of the program: its block has one successor *)
  Lemma last_branch_next b X pc l :
    In b (t_blocks t) -> b_ins b = X ++ [pc] ->
    (op_at p pc = Some (IBZ l) \/ op_at p pc = Some (IBNZ l)) -> length p <= S pc ->
    exists m, b_next b = [m].
  Proof.
    intros Hb E Hop Hlast. destruct (blk_raw b Hb) as (rb & Hn & Hi & Htb & _ & _).
    destruct (tblock_raw p t bs rbs Hparse Hbs Hc _ b Htb) as (b0 & rb' & nx0 & Hn0 & Hn' & _ & Hi0 & _ & Hnext & _ & _).
    rewrite Hn in Hn'. inversion Hn'; subst rb'.
    destruct (build_blocks_spec p bs Hbs) as (rbs0 & nexts & Hc0 & _ & _ & _ & Hall).
    rewrite Hc in Hc0. inversion Hc0; subst rbs0.
    destruct (Hall _ b0 Hn0) as (rb' & nx & Hrb & _ & Hr & Eb0).
    rewrite Hn in Hrb. inversion Hrb; subst rb'.
    assert (Enx : b_next b0 = nx) by (rewrite Eb0; reflexivity).
    destruct (raw_next_spec p rbs _ rb nx Hr) as (_ & inx & tb & Hinx & Hmap & Enx').
    assert (El : last (rb_ins rb) 0 = pc) by (rewrite <- Hi, E; apply last_last).
    rewrite El in Hinx.
    assert (Hd : rb_dflt rb = false).
    { apply (last_block_no_dflt p rbs (b_idx b) rb Hc Hn).
      assert (Hlt : b_idx b < length rbs) by (apply nth_error_Some; congruence).
      destruct (Nat.eq_dec (S (b_idx b)) (length rbs)) as [Es|Es]; [exact Es|]. exfalso.
      destruct (nth_error rbs (S (b_idx b))) as [rbn|] eqn:Ern.
      2:{ apply nth_error_None in Ern. lia. }
      destruct (consecutive_spec p rbs (b_idx b) rb rbn Hc Hn Ern) as (_ & Hlt' & _).
      rewrite El in Hlt'. lia. }
    assert (Hone : exists k, inx = [k]).
    { unfold ins_next in Hinx.
      assert (Hge : Nat.ltb (S pc) (length p) = false) by (apply Nat.ltb_ge; lia).
      destruct Hop as [Hop|Hop]; rewrite Hop in Hinx; cbn [no_fallthrough negb andb jump_labels map_opt] in Hinx;
        rewrite Hge in Hinx; destruct (find_label p l) as [k|]; try discriminate;
        inversion Hinx; exists k; reflexivity. }
    destruct Hone as (k & ->). cbn [map_opt] in Hmap.
    destruct (block_of_pos rbs k 0) as [m|]; [|discriminate]. inversion Hmap; subst tb.
    exists m. rewrite Hnext, Enx, Enx', Hd. reflexivity.
  Qed.

  (* the label of a conditional branch in a retained block is defined *)
  Lemma branch_label b X pc l :
    In b (t_blocks t) -> b_ins b = X ++ [pc] ->
    (op_at p pc = Some (IBZ l) \/ op_at p pc = Some (IBNZ l)) -> exists k, find_label p l = Some k.
  Proof.
    intros Hb E Hop. destruct (blk_raw b Hb) as (rb & Hn & Hi & Htb & _ & _).
    destruct (tblock_raw p t bs rbs Hparse Hbs Hc _ b Htb) as (b0 & rb' & nx0 & _ & Hn' & _ & _ & _ & _ & _ & Hinx).
    rewrite Hn in Hn'. inversion Hn'; subst rb'.
    assert (El : last (rb_ins rb) 0 = pc) by (rewrite <- Hi, E; apply last_last).
    rewrite El in Hinx. unfold ins_next in Hinx.
    destruct Hop as [Hop|Hop]; rewrite Hop in Hinx; cbn [jump_labels map_opt] in Hinx;
      destruct (find_label p l) as [k|]; try discriminate; exists k; reflexivity.
  Qed.

  (* the successor taken by a data-determined conditional branch is the one branch_ok demands *)
  Lemma jump_ok_cond b X pc st l c pc' (isbz : bool) :
    okc (pc, st) -> In b (t_blocks t) -> b_ins b = X ++ [pc] ->
    op_at p pc = Some (if isbz then IBZ l else IBNZ l) ->
    ctl p (if isbz then IBZ l else IBNZ l) [c] (pc, st) (pc', st) ->
    jump_ok f b (if isbz then negb (truthy c) else truthy c) (pc_block t pc').
  Proof.
    intros Hok Hb E Hop Hctl.
    assert (Hpcin : In pc (b_ins b)) by (rewrite E; apply in_or_app; right; left; reflexivity).
    destruct (blk_of pc st b Hok Hb Hpcin) as (Hfb & Epc & Hid & Hin & _).
    assert (Hop' : op_at p pc = Some (IBZ l) \/ op_at p pc = Some (IBNZ l))
      by (destruct isbz; [left | right]; exact Hop).
    assert (Hinb : In b (fn_blocks f)) by (eapply fblock_In; exact Hfb).
    assert (Hopf : fexit_op f b = Some (IBZ l) \/ fexit_op f b = Some (IBNZ l))
      by (rewrite (fexit_last b X pc E); exact Hop').
    destruct (branch_label b X pc l Hb E Hop') as (k & Hk).
    (* which way the step went *)
    assert (Hway : (pc' = k /\ (if isbz then negb (truthy c) else truthy c) = true) \/
                   (pc' = S pc /\ S pc < length p /\ (if isbz then negb (truthy c) else truthy c) = false)).
    { destruct isbz.
      - destruct (ctl_bz_inv p l c pc st pc' st Hctl) as [_ [[Ht Hl]|(Ht & -> & Hlt)]].
        + left. apply label_at_find_label in Hl. split; [congruence | rewrite Ht; reflexivity].
        + right. split; [reflexivity|]. split; [assumption | rewrite Ht; reflexivity].
      - destruct (ctl_bnz_inv p l c pc st pc' st Hctl) as [_ [[Ht Hl]|(Ht & -> & Hlt)]].
        + left. apply label_at_find_label in Hl. split; [congruence | exact Ht].
        + right. split; [reflexivity|]. split; [assumption | exact Ht]. }
    (* Spec/Exec.jump_ok decides "the branch targets the next line" on the jump target; on a parsed contract
       this is the same as "the branch is not the last instruction" (EdgeRepair.jump_ok_old_new_agree) *)
    destruct (Nat.lt_ge_cases (S pc) (length p)) as [Hlt|Hge].
    - destruct Hok as [_ Hst]. cbn [snd] in Hst.
      destruct (cond_order_sec p t bs rbs Hparse Hbs Hc pc st l k (b_idx b) Hin Hid Hst Hop' Hk Hlt)
        as (b2 & Hb2 & Ei2 & _ & Hnx2).
      assert (Eb : b2 = b).
      { apply (in_t_blocks p t b2 Hparse) in Hb2. apply (in_t_blocks p t b Hparse) in Hb.
        rewrite Ei2, Epc in Hb2. congruence. }
      subst b2.
      apply (jump_ok_old_new_agree p t Hparse b l _ _ Hinb Hopf).
      { rewrite Hnx2. destruct (Nat.eqb (pc_block t k) (pc_block t (S pc))); discriminate. }
      unfold jump_ok_old. rewrite Hnx2.
      destruct (Nat.eqb (pc_block t k) (pc_block t (S pc))) eqn:Eq.
      + intros Hl. unfold exit_is_last in Hl. rewrite rf_prog, E, last_last in Hl.
        apply Nat.leb_le in Hl. lia.
      + destruct Hway as [[-> ->]|(-> & _ & ->)]; reflexivity.
    - destruct (last_branch_next b X pc l Hb E Hop' Hge) as (m & Em).
      apply (jump_ok_old_new_agree p t Hparse b l _ _ Hinb Hopf); [rewrite Em; discriminate|].
      unfold jump_ok_old. rewrite Em.
      intros _. destruct Hway as [[_ H]|(_ & Hlt & _)]; [exact H | lia].
  Qed.

  Lemma branch_ok_step b X pc st op args outs tr0 pc' st' :
    okc (pc, st) -> In b (t_blocks t) -> b_ins b = X ++ [pc] ->
    op_at p pc = Some op -> ctl p op args (pc, st) (pc', st') ->
    branch_ok f b (tr0 ++ [(pc, args, outs)]) (pc_block t pc').
  Proof.
    intros Hok Hb E Hop Hctl. unfold branch_ok. rewrite (fexit_last b X pc E), Hop, popped_snoc.
    destruct op; try exact I; destruct args as [|c [|c' r]]; try exact I.
    - destruct (ctl_bz_inv p l c pc st pc' st' Hctl) as [-> _].
      exact (jump_ok_cond b X pc st l c pc' true Hok Hb E Hop Hctl).
    - destruct (ctl_bnz_inv p l c pc st pc' st' Hctl) as [-> _].
      exact (jump_ok_cond b X pc st l c pc' false Hok Hb E Hop Hctl).
  Qed.

  (* the main induction: [X] = the instructions of the current block visit executed so far, from the
     stack [cs0] the block was entered with *)
  Lemma sim_exec : forall c tr, IExecFrom e sem p c tr -> approves e sem p (last tr c) ->
    forall pc st cs, c = (pc, st, cs) -> okc (pc, st) ->
    forall b X Y cs0 tr0, In b (t_blocks t) -> b_ins b = X ++ pc :: Y ->
      crun_tr cval sem p X cs0 = Some (tr0, cs) -> no_fail e p tr0 ->
      ExecFrom e sem f (abs_cfg t (pc, st)) cs0 (abs_cfg t (pc, st) :: abs_trace t (tl (ctl_trace tr))).
  Proof.
    induction 1 as [c|c c' rest Hs Hrest IH]; intros Happ pc st cs Ec Hok b X Y cs0 tr0 Hb E Hrun Hnf; subst c.
    - (* the approving `return` *)
      cbn [last] in Happ. destruct Happ as (Est & Hop & args & cs' & (outs & Hst) & Hf). subst st.
      assert (Hpcin : In pc (b_ins b)) by (rewrite E; apply in_or_app; right; left; reflexivity).
      destruct (blk_of pc [] b Hok Hb Hpcin) as (Hfb & Epc & _ & _ & _).
      destruct (blk_raw b Hb) as (rb & Hn & Hi & _ & Hnd & _).
      assert (Hex : pc = last (b_ins b) 0).
      { rewrite Hi. apply (exit_return pc Hop (b_idx b) rb Hn). rewrite <- Hi. exact Hpcin. }
      assert (EY : Y = []) by (rewrite E in Hnd, Hex; exact (last_decomp pc X Y Hnd Hex)). subst Y.
      cbn [ctl_trace map tl abs_trace filter].
      apply (EF_last e sem f _ cs0 b (tr0 ++ [(pc, args, outs)]) cs').
      + unfold abs_cfg. cbn [fst]. rewrite Epc. exact Hfb.
      + split.
        * rewrite rf_prog, E. exact (crun_tr_snoc sem p X cs0 tr0 cs pc IReturn args outs cs' Hrun Hop Hst).
        * rewrite rf_prog. exact (no_fail_snoc e p tr0 pc IReturn args outs Hnf Hop Hf).
    - (* one step *)
      pose proof (iexecfrom_hd e sem p c' rest Hrest) as Erest.
      assert (Happ' : approves e sem p (last rest c')).
      { rewrite Erest in Happ |- *. cbn [last] in Happ.
        rewrite (last_ne (c' :: tl rest) c' (pc, st, cs)); [exact Happ | discriminate]. }
      pose proof (dstep_istep e sem p _ _ Hs) as Hi.
      destruct c' as [[pc' st'] cs']. cbn [ctl_of] in Hi.
      destruct (step_ok p t bs rbs Hparse Hbs Hc (pc, st) (pc', st') Hok Hi) as (Hok' & Hshape).
      inversion Hs as [pc0 st0 cs1 op args cs2 pc1 st1 Hop [(outs & Hst) Hf] Hctl]; subst.
      assert (Hpcin : In pc (b_ins b)) by (rewrite E; apply in_or_app; right; left; reflexivity).
      destruct (blk_of pc st b Hok Hb Hpcin) as (Hfb & Epc & _ & _ & Hu).
      destruct (blk_raw b Hb) as (rb & Hn & Hib & _ & Hnd & _).
      pose proof (crun_tr_snoc sem p X cs0 tr0 cs pc op args outs cs' Hrun Hop Hst) as Hrun'.
      pose proof (no_fail_snoc e p tr0 pc op args outs Hnf Hop Hf) as Hnf'.
      cbn [ctl_trace map tl]. rewrite Erest. cbn [map ctl_of]. rewrite abs_trace_cons. cbn [fst].
      specialize (IH Happ' pc' st' cs' eq_refl Hok').
      rewrite Erest in IH. cbn [ctl_trace map tl] in IH.
      destruct Hshape as [((b1 & X1 & Y1 & Hb1 & E1 & Epc' & Est') & He & Ha)|((b1 & b' & Hb1 & Hb' & Hin1 & Hl1 & Hhd & _ & _ & Hr) & He)];
        cbn [fst snd] in *; rewrite He.
      + (* inside the block *)
        assert (Eb : b1 = b).
        { apply Hu; [assumption|]. rewrite E1. apply in_or_app. right. left. reflexivity. }
        subst b1. rewrite E in E1. rewrite E in Hnd.
        destruct (decomp_unique pc X X1 Y (pc' :: Y1) Hnd E1) as [<- ->].
        rewrite <- Ha.
        apply (IH b (X ++ [pc]) Y1 cs0 (tr0 ++ [(pc, args, outs)]) Hb); try assumption.
        rewrite E, <- app_assoc. reflexivity.
      + (* to the next block *)
        assert (Eb : b1 = b) by (apply Hu; assumption). subst b1.
        assert (EY : Y = []) by (rewrite E in Hnd, Hl1; exact (last_decomp pc X Y Hnd Hl1)). subst Y.
        destruct (b_ins b') as [|h Y'] eqn:Eb'; [discriminate|]. cbn [hd_error] in Hhd. inversion Hhd; subst h.
        apply (EF_step e sem f _ (abs_cfg t (pc', st')) _ cs0 b (tr0 ++ [(pc, args, outs)]) cs').
        * unfold abs_cfg. cbn [fst]. rewrite Epc. exact Hfb.
        * split; rewrite rf_prog; [rewrite E; exact Hrun' | exact Hnf'].
        * exact Hr.
        * unfold abs_cfg. cbn [fst].
          exact (branch_ok_step b X pc st op args outs tr0 pc' st' Hok Hb E Hop Hctl).
        * apply (IH b' [] Y' cs' [] Hb'); [exact Eb' | reflexivity | apply no_fail_nil].
  Qed.

  (* ---------------------------------------------------------------- the last configuration *)
  Lemma abs_last : forall c cfgs, IRunFrom p c cfgs -> okc c ->
    forall d, last (abs_cfg t c :: abs_trace t (tl cfgs)) d = abs_cfg t (last cfgs c) /\ okc (last cfgs c).
  Proof.
    induction 1 as [c|c c' rest Hs Hrest IH]; intros Hok d.
    - split; [reflexivity | exact Hok].
    - destruct (step_ok p t bs rbs Hparse Hbs Hc c c' Hok Hs) as (Hok' & Hshape).
      pose proof (irunfrom_hd p c' rest Hrest) as Erest.
      assert (El : last (c :: rest) c = last rest c').
      { rewrite Erest. change (last (c :: c' :: tl rest) c) with (last (c' :: tl rest) c).
        apply last_ne. discriminate. }
      rewrite El. cbn [tl]. rewrite Erest, abs_trace_cons.
      destruct Hshape as [(_ & He & Ha)|(_ & He)]; rewrite He.
      + rewrite <- Ha. rewrite <- Erest. exact (IH Hok' d).
      + rewrite <- Erest. destruct (IH Hok' d) as [H1 H2]. split; [|exact H2].
        rewrite <- H1. reflexivity.
  Qed.

  (* the block of an approving `return` *)
  Lemma final_block pc st : okc (pc, st) -> op_at p pc = Some IReturn ->
    exists b, fblock f (pc_block t pc) = Some b /\ fexit_op f b = Some IReturn /\ leaf_global f b = true.
  Proof.
    intros Hok Hop. pose proof Hok as [(n & Hin & Hid) _]. cbn [fst] in Hin.
    destruct (unique_block_sec p t bs rbs Hparse Hbs Hc pc n Hin Hid) as (b & Hb & Hpcin & Hfb & Epc & _).
    destruct (blk_raw b Hb) as (rb & Hn & Hi & _ & _ & Hnn).
    assert (Hex : pc = last (b_ins b) 0).
    { rewrite Hi. apply (exit_return pc Hop (b_idx b) rb Hn). rewrite <- Hi. exact Hpcin. }
    pose proof (app_removelast_last 0 Hnn) as E. rewrite <- Hex in E.
    exists b. rewrite Epc. split; [exact Hfb|]. split.
    - rewrite (fexit_last b _ pc E). exact Hop.
    - exact (return_leaf b _ pc Hb E Hop).
  Qed.

  Lemma refine_sec tr : IAccepts e sem p tr -> Accepts e sem f (abs_trace t (ctl_trace tr)).
  Proof.
    intros [Hexec Happ].
    destruct (init_ok p t bs rbs Hparse Hbs Hc) as (Hok0 & He0 & Ha0).
    pose proof (iexecfrom_irunfrom e sem p _ tr Hexec) as Hirun. cbn [ctl_of] in Hirun.
    pose proof (irunfrom_hd p _ _ Hirun) as Ehd.
    assert (Ecfgs : abs_trace t (ctl_trace tr) = (0, []) :: abs_trace t (tl (ctl_trace tr))).
    { rewrite Ehd at 1. rewrite abs_trace_cons. cbn [fst]. rewrite He0, Ha0. reflexivity. }
    apply is_entry_spec in He0. destruct He0 as (b0 & Hb0 & Hhd0).
    destruct (b_ins b0) as [|h Y] eqn:Eb0; [discriminate|]. cbn [hd_error] in Hhd0. inversion Hhd0; subst h.
    assert (Happ' : approves e sem p (last tr (0, [], []))) by exact Happ.
    pose proof (sim_exec (0, [], []) tr Hexec Happ' 0 [] [] eq_refl Hok0 b0 [] Y [] [] Hb0 Eb0 eq_refl (no_fail_nil e p))
      as Hex.
    rewrite Ha0 in Hex.
    destruct (abs_last (0, []) (ctl_trace tr) Hirun Hok0 (fn_entry f, [])) as [Hlast Hokl].
    rewrite Ha0 in Hlast.
    assert (Elast : last (ctl_trace tr) (0, []) = ctl_of (last tr (0, [], []))).
    { rewrite (iexecfrom_hd e sem p _ tr Hexec). symmetry.
      exact (last_map' ctl_of ((0, [], []) :: tl tr) (0, [], []) ltac:(discriminate)). }
    rewrite Elast in Hlast, Hokl.
    destruct (last tr (0, [], [])) as [[pc st] cs] eqn:El. cbn [ctl_of] in Hlast, Hokl.
    destruct Happ as (Est & Hop & _). subst st.
    destruct (final_block pc [] Hokl Hop) as (b & Hfb & Hfe & Hleaf).
    assert (Hfin : final f (abs_trace t (ctl_trace tr)) = (pc_block t pc, [])).
    { unfold final. rewrite Ecfgs. etransitivity; [exact Hlast | reflexivity]. }
    split; [unfold Exec; rewrite Ecfgs; exact Hex|]. split; [|split].
    - split.
      + exact (irun_is_run p t (ctl_trace tr) Hparse Hirun).
      + exists b. rewrite Hfin. cbn [fst]. auto.
    - unfold returns_all. rewrite Hfin. reflexivity.
    - exists b. rewrite Hfin. cbn [fst]. auto.
  Qed.
End Refine.

(* ================================================================== Part 4: the refinement theorem *)
(* every approving instruction-level execution is a block-level accepting execution of the whole-contract
   function, over exactly the block visits of its control projection; no hypothesis beyond parsing *)
Theorem iaccepts_refines e sem p t tr :
  parse_teal p = Ok t -> IAccepts e sem p tr ->
  Accepts e sem (whole_function t) (abs_trace t (ctl_trace tr)).
Proof.
  intros Hp Hacc. destruct (walk_setup p t Hp) as (bs & rbs & Hbs & Hc).
  exact (refine_sec e sem p t bs rbs Hp Hbs Hc tr Hacc).
Qed.

Corollary iaccepts_accepts e sem p t tr :
  parse_teal p = Ok t -> IAccepts e sem p tr ->
  exists cfgs, Accepts e sem (whole_function t) cfgs /\ cfgs = abs_trace t (ctl_trace tr).
Proof. intros Hp Hacc. eexists. split; [exact (iaccepts_refines e sem p t tr Hp Hacc) | reflexivity]. Qed.

Print Assumptions iaccepts_refines.

(* ================================================================== Part 5: end-to-end theorems at the instruction level *)
(* every configuration of the execution is represented in the block sequence, by the block holding its pc *)
Lemma iexec_covers e sem p t tr pc st cs :
  parse_teal p = Ok t -> IExec e sem p tr -> In (pc, st, cs) tr ->
  In (pc_block t pc, abs_stack t st) (abs_trace t (ctl_trace tr)).
Proof.
  intros Hp Hex Hin.
  apply (abs_trace_covers p t (ctl_trace tr) (pc, st) Hp (iexec_is_irun e sem p tr Hex)).
  change (pc, st) with (ctl_of (pc, st, cs)). apply in_map. exact Hin.
Qed.

(* ExecLemmas.fee_analysis_sound, for pc-level executions: at every pc the execution visits, the fee value
   the analysis computed for the block holding that pc contains the actual fee *)
Theorem fee_analysis_sound_ins e sem p t fam tx fee bc fuel lo tr :
  parse_teal p = Ok t ->
  sem_ok e sem -> env_ok e -> fn_intcs (whole_function t) = e_intcs e -> graph_ok (whole_function t) ->
  key_txn e fam = Some tx -> e_field e tx "Fee" = VInt fee -> (0 <= fee <= MAX_UINT64z)%Z ->
  fee_leaves_ok (whole_function t) fam ->
  init_constraints feeval fee_universal_set fee_null_set fee_union fee_intersection
    (fee_single (fn_intcs (whole_function t)) fam) (whole_function t) = Some bc ->
  solve feeval feeval_eqb fee_universal_set fee_null_set fee_union fee_intersection
    (fee_single (fn_intcs (whole_function t)) fam) (whole_function t) fuel bc = Done lo ->
  IAccepts e sem p tr ->
  forall pc st cs, In (pc, st, cs) tr -> exists v, lookup feeval lo (pc_block t pc) = Some v /\ fee_gamma v fee.
Proof.
  intros Hp Hsem Hok Hi Hg Hk Hf Hr Hl Hinit Hs Hacc pc st cs Hin.
  exact (fee_analysis_sound e sem (whole_function t) fam tx fee bc fuel lo (abs_trace t (ctl_trace tr))
           Hsem Hok Hi Hg Hk Hf Hr Hl Hinit Hs (iaccepts_refines e sem p t tr Hp Hacc)
           (pc_block t pc) (abs_stack t st) (iexec_covers e sem p t tr pc st cs Hp (proj1 Hacc) Hin)).
Qed.

(* ExecLemmas.run_all_fee_sound (C09 + C10 on the tool's output), for pc-level executions *)
Theorem run_all_fee_sound_ins e sem p t fuel res fam r tx fee tr :
  parse_teal p = Ok t ->
  sem_ok e sem -> env_ok e -> fn_intcs (whole_function t) = e_intcs e -> graph_ok (whole_function t) ->
  run_all (whole_function t) fuel = Done res ->
  In (fam, r) (r_fees res) ->
  key_txn e fam = Some tx -> e_field e tx "Fee" = VInt fee -> (0 <= fee <= MAX_UINT64z)%Z ->
  fee_leaves_ok (whole_function t) fam ->
  match fam with
  | KAtIndex i => fee_leaves_ok (whole_function t) KSelf /\ int_leaves_ok (whole_function t) true /\
                  int_leaves_ok (whole_function t) false
  | _ => True
  end ->
  IAccepts e sem p tr ->
  forall pc st cs, In (pc, st, cs) tr -> exists v, lookup feeval r (pc_block t pc) = Some v /\ fee_gamma v fee.
Proof.
  intros Hp Hsem Hok Hi Hg Hrun Hfam Hk Hf Hr Hl Hat Hacc pc st cs Hin.
  exact (run_all_fee_sound e sem (whole_function t) fuel res fam r tx fee (abs_trace t (ctl_trace tr))
           Hsem Hok Hi Hg Hrun Hfam Hk Hf Hr Hl Hat (iaccepts_refines e sem p t tr Hp Hacc)
           (pc_block t pc) (abs_stack t st) (iexec_covers e sem p t tr pc st cs Hp (proj1 Hacc) Hin)).
Qed.

(* NoMiss.C01_fee_no_miss, for pc-level executions: if an approving pc-level execution pays a fee above
   MAX_TRANSACTION_COST then missing-fee-check reports at least one path.
   [nonrecursive] is the hypothesis of the block-level theorem, on the execution's block sequence *)
Theorem C01_fee_no_miss_ins e sem p t fuel fuel' res tr ps fee :
  parse_teal p = Ok t ->
  sem_ok e sem -> env_ok e -> fn_intcs (whole_function t) = e_intcs e -> graph_ok (whole_function t) ->
  fee_leaves_ok (whole_function t) KSelf -> fee_leaves_ok (whole_function t) (KAtIndex (e_own e)) ->
  int_leaves_ok (whole_function t) true -> int_leaves_ok (whole_function t) false ->
  run_all (whole_function t) fuel = Done res -> IAccepts e sem p tr ->
  nonrecursive (whole_function t) (abs_trace t (ctl_trace tr)) ->
  e_field e (e_own e) "Fee" = VInt fee -> (MAX_TRANSACTION_COSTz < fee <= MAX_UINT64z)%Z ->
  run_detector (whole_function t) res fuel' "missing-fee-check" checks_missing_fee_check = Done ps -> ps <> [].
Proof.
  intros Hp Hsem Hok Hi Hg Hls Hla Ht Hf Hrun Hacc Hnr Hfee Hr Hdet.
  exact (C01_fee_no_miss e sem (whole_function t) fuel fuel' res (abs_trace t (ctl_trace tr)) ps fee
           Hsem Hok Hi Hg Hls Hla Ht Hf Hrun (iaccepts_refines e sem p t tr Hp Hacc) Hnr Hfee Hr Hdet).
Qed.

Print Assumptions fee_analysis_sound_ins.
Print Assumptions run_all_fee_sound_ins.
Print Assumptions C01_fee_no_miss_ins.

(* ================================================================== Part 6: the converse *)
(* every block-level accepting execution of the whole-contract function is the block sequence of an approving
   instruction-level execution: Exec.Accepts of whole_function t is exactly the abstraction of IAccepts *)

(* a control step of an instruction that is not a conditional branch is a step of the concrete control *)
Lemma ctl_of_istep p op args pc st pc' st' :
  istep p (pc, st) (pc', st') -> op_at p pc = Some op ->
  (match op with IBZ _ | IBNZ _ => false | _ => true end) = true ->
  ctl p op args (pc, st) (pc', st').
Proof.
  intros H Hop Hnc.
  inversion H as [pc0 st0 l k Ho Hl | pc0 st0 l k Ho Hl | pc0 st0 l k Ho Hl | pc0 st0 ls l k Ho Hin Hl
                 | pc0 st0 ls l k Ho Hin Hl | pc0 st0 l k Ho Hl | pc0 st0 r Ho Hlt | pc0 st0 i Ho Hf Hlt];
    subst; rewrite Hop in Ho; inversion Ho; subst; try discriminate Hnc.
  - apply C_b; assumption.
  - eapply C_switch; eassumption.
  - eapply C_match; eassumption.
  - apply C_call; assumption.
  - apply C_ret; assumption.
  - apply C_next; assumption.
Qed.

Lemma cstep_args_len sem op pc cs args outs cs' n :
  cstep cval sem op pc cs = Some (args, outs, cs') -> stack_pop_size op = Some n -> length args = n.
Proof.
  unfold cstep. intros H Hn. rewrite Hn in H. destruct (stack_push_size op); [|discriminate].
  destruct (Nat.leb n (length cs)) eqn:Hle; [|discriminate]. apply Nat.leb_le in Hle.
  inversion H; subst. rewrite rev_length, firstn_length. lia.
Qed.

Section Converse.
  Variables (e : env) (sem : opsem) (p : prog) (t : teal) (bs : list block) (rbs : list rawblock).
  Hypothesis Hparse : parse_teal p = Ok t.
  Hypothesis Hbs : build_blocks p = Some bs.
  Hypothesis Hc : create_bb p = Some rbs.
  Notation f := (whole_function t).
  Notation okc := (cfg_ok p t rbs).
  Notation Hne := (p_ne p t Hparse).

  Inductive dpath : dconfig -> list dconfig -> dconfig -> Prop :=
  | dp_nil c : dpath c [] c
  | dp_cons c c1 l c' : dstep e sem p c c1 -> dpath c1 l c' -> dpath c (c1 :: l) c'.

  Lemma dpath_app c l c1 l' c2 : dpath c l c1 -> dpath c1 l' c2 -> dpath c (l ++ l') c2.
  Proof. induction 1 as [c|c c1 l c' Hs _ IH]; intros H2; [exact H2|]. cbn [app]. econstructor; eauto. Qed.

  Lemma dpath_exec c l c' : dpath c l c' -> IExecFrom e sem p c (c :: l) /\ last (c :: l) c = c'.
  Proof.
    induction 1 as [c|c c1 l c' Hs _ [IH1 IH2]]; [split; [constructor | reflexivity]|].
    split; [econstructor; eauto|]. change (last (c :: c1 :: l) c) with (last (c1 :: l) c).
    rewrite <- IH2. apply last_ne. discriminate.
  Qed.

  (* an interior instruction of a block is not a conditional branch *)
  Lemma Pnl_not_cond pc i : Pnl p pc -> op_at p pc = Some i -> S pc < length p ->
    (match i with IBZ _ | IBNZ _ => false | _ => true end) = true.
  Proof.
    intros (i' & nx & Hop & Hnx & Hlen & _) Hi Hlt. rewrite Hi in Hop. inversion Hop; subst i'.
    apply Nat.ltb_lt in Hlt.
    destruct i; try reflexivity; exfalso; unfold ins_next in Hnx; rewrite Hi in Hnx;
      cbn [no_fallthrough negb andb jump_labels map_opt] in Hnx; rewrite Hlt in Hnx;
      destruct (find_label p l); try discriminate; inversion Hnx; subst nx; discriminate Hlen.
  Qed.

  Lemma popped_cons x (tr : trace cval) : tr <> [] -> popped (x :: tr) = popped tr.
  Proof. intros H. unfold popped. destruct tr; [congruence | reflexivity]. Qed.

  (* inside a block the concrete execution walks from any instruction to the exit instruction, which it
     can execute *)
  Lemma dwalk n rb st : nth_error rbs n = Some rb ->
    forall Y X pc cs tr cs', rb_ins rb = X ++ pc :: Y ->
      crun_tr cval sem p (pc :: Y) cs = Some (tr, cs') -> no_fail e p tr ->
      exists l csm op args,
        dpath (pc, st, cs) l (last (rb_ins rb) 0, st, csm) /\ abs_trace t (ctl_trace l) = [] /\
        op_at p (last (rb_ins rb) 0) = Some op /\ dexec e sem op (last (rb_ins rb) 0) csm args cs' /\
        popped tr = args.
  Proof.
    intros Hn. induction Y as [|h Y IH]; intros X pc cs tr cs' E Hrun Hnf.
    - cbn [crun_tr] in Hrun. destruct (op_at p pc) as [op|] eqn:Hop; [|discriminate].
      destruct (cstep cval sem op pc cs) as [[[a o] c1]|] eqn:Hst; [|discriminate].
      inversion Hrun; subst tr cs'. rewrite E, last_last.
      exists [], cs, op, a. split; [constructor|]. split; [reflexivity|]. split; [exact Hop|]. split; [|reflexivity].
      split; [exists o; exact Hst|]. apply (Hnf pc a o op); [left; reflexivity | exact Hop].
    - pose proof (block_adjacent p rbs Hc Hne n rb X pc h Y Hn E) as Eh. subst h.
      assert (Hin : In pc (rb_ins rb)) by (rewrite E; apply in_or_app; right; left; reflexivity).
      assert (Hnd : NoDup (rb_ins rb)).
      { apply (NoDup_concat_In (map rb_ins rbs)); [rewrite (part p rbs Hc Hne); apply seq_NoDup|].
        apply in_map. eapply nth_error_In; eauto. }
      assert (Hnl : pc <> last (rb_ins rb) 0).
      { intro Ep. rewrite E in Hnd, Ep. pose proof (last_decomp pc X (S pc :: Y) Hnd Ep). discriminate. }
      destruct (interior p rbs Hc Hne pc n rb Hn Hin Hnl) as (HS & _ & HP & _).
      destruct (Pnl_falls p pc HP) as (i & Hop & Hf).
      assert (Hlt : S pc < length p) by (apply (inblk_lt p rbs Hc Hne (S pc) n); exists rb; auto).
      pose proof (Pnl_not_cond pc i HP Hop Hlt) as Hncond.
      change (crun_tr cval sem p (pc :: S pc :: Y) cs) with
        (match op_at p pc with
         | None => None
         | Some op => match cstep cval sem op pc cs with
                      | None => None
                      | Some (args, outs, cs1) =>
                          match crun_tr cval sem p (S pc :: Y) cs1 with
                          | None => None
                          | Some (tr1, fin) => Some ((pc, args, outs) :: tr1, fin)
                          end
                      end
         end) in Hrun.
      rewrite Hop in Hrun.
      destruct (cstep cval sem i pc cs) as [[[a o] c1]|] eqn:Hst; [|discriminate].
      destruct (crun_tr cval sem p (S pc :: Y) c1) as [[tr1 fin]|] eqn:Hr1; [|discriminate].
      inversion Hrun; subst tr cs'.
      assert (Hnf1 : no_fail e p tr1).
      { intros pos a1 o1 op1 Hi1 Hop1. apply (Hnf pos a1 o1 op1); [right; exact Hi1 | exact Hop1]. }
      destruct (IH (X ++ [pc]) (S pc) c1 tr1 fin) as (l & csm & op & args & Hl & Ha & Hope & Hde & Hpop); try assumption.
      { rewrite <- app_assoc. exact E. }
      exists ((S pc, st, c1) :: l), csm, op, args. split; [|split; [|split; [exact Hope|split; [exact Hde|]]]].
      + econstructor; [|exact Hl]. eapply DS; [exact Hop | | apply C_next; assumption].
        split; [exists o; exact Hst|]. apply (Hnf pc a o i); [left; reflexivity | exact Hop].
      + cbn [ctl_trace map ctl_of]. rewrite abs_trace_cons. cbn [fst].
        rewrite (interior_not_entry p t bs rbs Hparse Hbs Hc pc n rb Hn Hin Hnl). exact Ha.
      + rewrite popped_cons; [exact Hpop|]. intros ->.
        pose proof (crun_tr_positions cval sem p _ _ _ _ Hr1) as Hp. discriminate Hp.
  Qed.

  (* a block entry is the first instruction of the block of its pc *)
  Lemma entry_head k st : okc (k, st) -> is_entry t k = true -> head_of rbs (pc_block t k) = k.
  Proof.
    intros Hok He. apply is_entry_spec in He. destruct He as (b & Hb & Hhd).
    assert (Hin : In k (b_ins b)) by (apply hd_error_In; exact Hhd).
    destruct (blk_of p t bs rbs Hparse Hbs Hc k st b Hok Hb Hin) as (_ & Epc & _ & _ & _).
    destruct (blk_raw p t bs rbs Hparse Hbs Hc b Hb) as (rb & Hn & Hi & _ & _ & _).
    rewrite Epc. unfold head_of. rewrite Hn, <- Hi. apply hd_error_hd. exact Hhd.
  Qed.

  (* the control step taken at a conditional branch, when the successor is the one branch_ok demands,
     is the data-determined one *)
  Lemma cond_ctl b X pc st l c pc' st' (isbz : bool) :
    okc (pc, []) -> In b (t_blocks t) -> b_ins b = X ++ [pc] ->
    op_at p pc = Some (if isbz then IBZ l else IBNZ l) ->
    istep p (pc, st) (pc', st') -> head_of rbs (pc_block t pc') = pc' ->
    jump_ok f b (if isbz then negb (truthy c) else truthy c) (pc_block t pc') ->
    ctl p (if isbz then IBZ l else IBNZ l) [c] (pc, st) (pc', st').
  Proof.
    intros Hok Hb E Hop Hi Hhead Hj.
    assert (Hpcin : In pc (b_ins b)) by (rewrite E; apply in_or_app; right; left; reflexivity).
    destruct (blk_of p t bs rbs Hparse Hbs Hc pc [] b Hok Hb Hpcin) as (Hfb & Epc & Hid & Hin & _).
    assert (Hop' : op_at p pc = Some (IBZ l) \/ op_at p pc = Some (IBNZ l))
      by (destruct isbz; [left | right]; exact Hop).
    assert (Hinb : In b (fn_blocks f)) by (eapply fblock_In; exact Hfb).
    assert (Hopf : fexit_op f b = Some (IBZ l) \/ fexit_op f b = Some (IBNZ l))
      by (rewrite (fexit_last p t Hparse b X pc E); exact Hop').
    destruct (branch_label p t bs rbs Hparse Hbs Hc b X pc l Hb E Hop') as (k & Hk).
    assert (Hlab : label_at p l k) by (apply label_at_find_label; exact Hk).
    assert (Hjl : exists i, op_at p pc = Some i /\ In l (jump_labels i) /\ falls_through i = true).
    { destruct Hop' as [H|H]; eexists; (split; [exact H|]); cbn; auto. }
    destruct Hjl as (i & Hopi & Hli & Hfi).
    set (J := if isbz then negb (truthy c) else truthy c) in *.
    (* the two candidate steps *)
    assert (Hcand : st' = st /\ (pc' = k \/ (pc' = S pc /\ S pc < length p))).
    { apply istep_inv in Hi.
      destruct Hi as [(i0 & l0 & Ho & Hl0 & Hf0 & Es)|[(l0 & Ho & _)|[(Ho & _)|(i0 & Ho & _ & Ep & Hlt & Es)]]].
      - split; [exact Es|]. left. rewrite Hop in Ho. inversion Ho; subst i0.
        destruct isbz; cbn [jump_labels] in Hl0; destruct Hl0 as [<-|[]]; congruence.
      - rewrite Hop in Ho. destruct isbz; discriminate Ho.
      - rewrite Hop in Ho. destruct isbz; discriminate Ho.
      - split; [exact Es|]. right. auto. }
    destruct Hcand as [-> Hcand].
    (* it is enough to know where the step goes for each value of J *)
    assert (Hgoal : (J = true -> pc' = k) -> (J = false -> pc' = S pc /\ S pc < length p) ->
                    ctl p (if isbz then IBZ l else IBNZ l) [c] (pc, st) (pc', st)).
    { intros H1 H2. subst J. destruct isbz.
      - destruct (truthy c) eqn:Et; cbn [negb] in H1, H2.
        + destruct (H2 eq_refl) as [-> Hlt]. apply C_bz_fall; assumption.
        + rewrite (H1 eq_refl). apply C_bz_jump; assumption.
      - destruct (truthy c) eqn:Et.
        + rewrite (H1 eq_refl). apply C_bnz_jump; assumption.
        + destruct (H2 eq_refl) as [-> Hlt]. apply C_bnz_fall; assumption. }
    apply Hgoal; clear Hgoal.
    - (* jump demanded *)
      intros HJ. destruct Hcand as [Ek|[Ep Hlt]]; [exact Ek|]. subst pc'.
      destruct (cond_order_sec p t bs rbs Hparse Hbs Hc pc [] l k (b_idx b) Hin Hid (Forall_nil _) Hop' Hk Hlt)
        as (b2 & Hb2 & Ei2 & _ & Hnx2).
      assert (Eb : b2 = b).
      { apply (in_t_blocks p t b2 Hparse) in Hb2. pose proof (proj1 (in_t_blocks p t b Hparse) Hb) as Hb'.
        rewrite Ei2, Epc in Hb2. congruence. }
      subst b2.
      destruct (step_jump p t bs rbs Hparse Hbs Hc pc [] i l k (b_idx b) Hin Hid (Forall_nil _) Hopi Hli Hk)
        as (Hokk & _ & Hek).
      pose proof (entry_head k [] Hokk Hek) as Hhk.
      unfold jump_ok in Hj. rewrite Hnx2, HJ in Hj.
      destruct (Nat.eqb (pc_block t k) (pc_block t (S pc))) eqn:Eq.
      + apply Nat.eqb_eq in Eq. rewrite <- Eq, Hhk in Hhead. symmetry. exact Hhead.
      + rewrite Hj, Hhk in Hhead. symmetry. exact Hhead.
    - (* fall-through demanded *)
      intros HJ. destruct (Nat.lt_ge_cases (S pc) (length p)) as [Hlt|Hge].
      + split; [|exact Hlt]. destruct Hcand as [Ek|[Ep _]]; [|exact Ep]. subst pc'.
        destruct (cond_order_sec p t bs rbs Hparse Hbs Hc pc [] l k (b_idx b) Hin Hid (Forall_nil _) Hop' Hk Hlt)
          as (b2 & Hb2 & Ei2 & _ & Hnx2).
        assert (Eb : b2 = b).
        { apply (in_t_blocks p t b2 Hparse) in Hb2. pose proof (proj1 (in_t_blocks p t b Hparse) Hb) as Hb'.
          rewrite Ei2, Epc in Hb2. congruence. }
        subst b2.
        (* S pc is the first instruction of the following block *)
        destruct (blk_raw p t bs rbs Hparse Hbs Hc b Hb) as (rb & Hn & Hib & _ & Hnd & _).
        assert (Hex : pc = last (rb_ins rb) 0) by (rewrite <- Hib, E; symmetry; apply last_last).
        destruct (step_fall p t bs rbs Hparse Hbs Hc pc [] i (b_idx b) Hin Hid (Forall_nil _) Hopi Hfi Hlt)
          as (HokS & [((b1 & X1 & Y1 & Hb1 & E1 & _) & _)|(_ & HeS)]).
        { exfalso. cbn [fst] in E1.
          assert (Eb1 : b1 = b).
          { destruct (blk_of p t bs rbs Hparse Hbs Hc pc [] b Hok Hb Hpcin) as (_ & _ & _ & _ & Hu).
            apply Hu; [exact Hb1|]. rewrite E1. apply in_or_app. right. left. reflexivity. }
          subst b1. rewrite E1 in Hnd. rewrite E in E1.
          destruct (decomp_unique pc X1 X (S pc :: Y1) [] Hnd (eq_sym E1)) as [_ HY]. discriminate HY. }
        pose proof (entry_head (S pc) [] HokS HeS) as HhS.
        unfold jump_ok in Hj. rewrite Hnx2, HJ in Hj.
        destruct (Nat.eqb (pc_block t k) (pc_block t (S pc))) eqn:Eq.
        * apply Nat.eqb_eq in Eq. rewrite Eq, HhS in Hhead. symmetry. exact Hhead.
        * rewrite Hj, HhS in Hhead. symmetry. exact Hhead.
      + exfalso. destruct (last_branch_next p t bs rbs Hparse Hbs Hc b X pc l Hb E Hop' Hge) as (m & Em).
        apply (jump_ok_old_new_agree p t Hparse b l _ _ Hinb Hopf ltac:(rewrite Em; discriminate)) in Hj.
        unfold jump_ok_old in Hj. rewrite Em in Hj.
        assert (Hl : exit_is_last f b = true).
        { unfold exit_is_last. rewrite (whole_prog p t Hparse), E, last_last. apply Nat.leb_le. exact Hge. }
        rewrite (Hj Hl) in HJ. discriminate HJ.
  Qed.

  Definition dconc (c : rconfig) (cs : list cval) : dconfig := (head_of rbs (fst c), conc_stack rbs (snd c), cs).

  Definition fin_ok (c : rconfig) : Prop :=
    snd c = [] /\ exists blk, fblock f (fst c) = Some blk /\ fexit_op f blk = Some IReturn.

  Lemma execfrom_hd c cs cfgs : ExecFrom e sem f c cs cfgs -> cfgs = c :: tl cfgs.
  Proof. intros H; destruct H; reflexivity. Qed.

  Lemma execfrom_conc : forall c cs cfgs, ExecFrom e sem f c cs cfgs -> rc_ok p t rbs c -> fin_ok (last cfgs c) ->
    exists l cend, dpath (dconc c cs) l cend /\ abs_trace t (ctl_trace l) = tl cfgs /\ approves e sem p cend.
  Proof.
    induction 1 as [c cs blk tr cs' Hfb [Hrun Hnf]|c c' rest cs blk tr cs' Hfb [Hrun Hnf] Hs Hbr Hrest IH];
      intros Hok Hfin; rewrite (whole_prog p t Hparse) in Hrun, Hnf.
    - destruct Hok as [Hid _].
      destruct (ids_raw p t bs rbs Hparse Hbs Hc (fst c) Hid) as (b & rb & Hb & Hfb' & Hn & Hi & Hhd & Hex & _).
      rewrite Hfb in Hfb'. inversion Hfb'; subst b.
      destruct (rb_ins rb) as [|h Y] eqn:Ei; [discriminate|]. cbn [hd_error] in Hhd. inversion Hhd as [Eh].
      rewrite Hi in Hrun.
      destruct (dwalk (fst c) rb (conc_stack rbs (snd c)) Hn Y [] h cs tr cs' Ei Hrun Hnf)
        as (l & csm & op & args & Hl & Ha & Hop & Hde & _).
      cbn [last] in Hfin. destruct Hfin as (Est & blk' & Hfb2 & Hfe). rewrite Hfb in Hfb2. inversion Hfb2; subst blk'.
      rewrite (fexit_at p t bs rbs Hparse Hbs Hc (fst c) blk rb Hb Hn), Hop in Hfe. inversion Hfe; subst op.
      exists l, (last (rb_ins rb) 0, conc_stack rbs (snd c), csm).
      split; [unfold dconc; rewrite <- Eh; exact Hl|]. split; [exact Ha|].
      rewrite Est. split; [reflexivity|]. split; [exact Hop|]. exists args, cs'. exact Hde.
    - destruct (rstep_conc p t bs rbs Hparse Hbs Hc c c' Hok Hs) as (Hok' & Hstep).
      pose proof (execfrom_hd c' cs' rest Hrest) as Erest.
      assert (Hfin' : fin_ok (last rest c')).
      { rewrite Erest in Hfin |- *. change (last (c :: c' :: tl rest) c) with (last (c' :: tl rest) c) in Hfin.
        rewrite (last_ne (c' :: tl rest) c' c); [exact Hfin | discriminate]. }
      destruct (IH Hok' Hfin') as (l' & cend & Hl' & Ha' & Happ).
      destruct Hok as [Hid Hst].
      destruct (ids_raw p t bs rbs Hparse Hbs Hc (fst c) Hid) as (b & rb & Hb & Hfb' & Hn & Hi & Hhd & Hex & Hexin).
      rewrite Hfb in Hfb'. inversion Hfb'; subst b.
      destruct (rb_ins rb) as [|h Y] eqn:Ei; [discriminate|]. cbn [hd_error] in Hhd. inversion Hhd as [Eh].
      rewrite Hi in Hrun.
      destruct (dwalk (fst c) rb (conc_stack rbs (snd c)) Hn Y [] h cs tr cs' Ei Hrun Hnf)
        as (l & csm & op & args & Hl & Ha & Hop & Hde & Hpop).
      rewrite <- Ei in *. rewrite <- Hex in *.
      (* the exit instruction's step *)
      unfold conc_exit, conc in Hstep.
      destruct Hok' as [Hid' Hst'].
      destruct (head_entry p t bs rbs Hparse Hbs Hc (fst c') Hid') as (_ & Epc' & _ & _).
      assert (Hb_in : In blk (t_blocks t)) by (unfold tblock in Hb; apply find_some in Hb; tauto).
      assert (EX : b_ins blk = removelast (b_ins blk) ++ [exit_of rbs (fst c)]).
      { rewrite Hex, <- Hi. apply app_removelast_last. rewrite Hi, Ei. discriminate. }
      assert (Hokx : okc (exit_of rbs (fst c), [])).
      { split; [|constructor]. exists (fst c). split; [|exact Hid]. exists rb. split; [exact Hn | exact Hexin]. }
      assert (Hctl : ctl p op args (exit_of rbs (fst c), conc_stack rbs (snd c)) (head_of rbs (fst c'), conc_stack rbs (snd c'))).
      { destruct (match op with IBZ _ | IBNZ _ => false | _ => true end) eqn:Hnc.
        - exact (ctl_of_istep p op args _ _ _ _ Hstep Hop Hnc).
        - destruct Hde as [(outs & Hcst) _].
          unfold branch_ok in Hbr. rewrite (fexit_at p t bs rbs Hparse Hbs Hc (fst c) blk rb Hb Hn), <- Hex, Hop, Hpop in Hbr.
          destruct op; try discriminate Hnc.
          + pose proof (cstep_args_len sem _ _ _ _ _ _ 1 Hcst eq_refl) as Hlen.
            destruct args as [|c0 [|? ?]]; try discriminate Hlen.
            assert (Est : conc_stack rbs (snd c') = conc_stack rbs (snd c)).
            { apply istep_inv in Hstep. rewrite Hop in Hstep.
              destruct Hstep as [(i1 & l1 & _ & _ & _ & Es)|[(l1 & Ho & _)|[(Ho & _)|(i1 & _ & _ & _ & _ & Es)]]];
                try discriminate Ho; exact Es. }
            rewrite Est in *.
            apply (cond_ctl blk _ _ _ _ c0 _ _ true Hokx Hb_in EX Hop Hstep); rewrite Epc'; [reflexivity | exact Hbr].
          + pose proof (cstep_args_len sem _ _ _ _ _ _ 1 Hcst eq_refl) as Hlen.
            destruct args as [|c0 [|? ?]]; try discriminate Hlen.
            assert (Est : conc_stack rbs (snd c') = conc_stack rbs (snd c)).
            { apply istep_inv in Hstep. rewrite Hop in Hstep.
              destruct Hstep as [(i1 & l1 & _ & _ & _ & Es)|[(l1 & Ho & _)|[(Ho & _)|(i1 & _ & _ & _ & _ & Es)]]];
                try discriminate Ho; exact Es. }
            rewrite Est in *.
            apply (cond_ctl blk _ _ _ _ c0 _ _ false Hokx Hb_in EX Hop Hstep); rewrite Epc'; [reflexivity | exact Hbr]. }
      exists (l ++ dconc c' cs' :: l'), cend. split; [|split; [|exact Happ]].
      + unfold dconc at 1. rewrite <- Eh. eapply dpath_app; [exact Hl|].
        econstructor; [|exact Hl']. unfold dconc. eapply DS; [exact Hop | exact Hde | exact Hctl].
      + unfold ctl_trace. rewrite map_app. fold (ctl_trace l). rewrite abs_trace_app, Ha. cbn [app map].
        rewrite abs_trace_cons. unfold dconc. cbn [ctl_of fst].
        destruct (abs_conc p t bs rbs Hparse Hbs Hc c' (conj Hid' Hst')) as [Hac He]. unfold conc in Hac, He. cbn [fst] in He.
        rewrite He, Hac. fold (ctl_trace l'). rewrite Ha'. cbn [tl]. symmetry. exact Erest.
  Qed.

  Lemma converse_sec cfgs : Accepts e sem f cfgs -> exists tr, IAccepts e sem p tr /\ abs_trace t (ctl_trace tr) = cfgs.
  Proof.
    intros (Hex & _ & Hret & (blk & Hfb & Hfe)).
    destruct (init_ok p t bs rbs Hparse Hbs Hc) as (_ & He & Ha).
    destruct (block0_head p t bs rbs Hparse Hbs Hc) as (rb0 & E0 & Eh).
    assert (Hok : rc_ok p t rbs (0, [])).
    { split; [|constructor]. cbn [fst]. apply wf_ids_In. left. apply (main_reach p t bs Hparse Hbs). constructor. }
    unfold Exec in Hex. change (fn_entry f) with 0 in Hex.
    assert (Hfin : fin_ok (last cfgs (0, []))).
    { split; [exact Hret|]. exists blk. auto. }
    destruct (execfrom_conc (0, []) [] cfgs Hex Hok Hfin) as (l & cend & Hl & Hal & Happ).
    assert (Ec : dconc (0, []) [] = (0, [], [])).
    { unfold dconc, head_of, conc_stack. cbn [fst snd map]. rewrite E0, (hd_error_hd _ _ Eh). reflexivity. }
    rewrite Ec in Hl. destruct (dpath_exec _ _ _ Hl) as [Hexec Hlast].
    exists ((0, [], []) :: l). split; [split; [exact Hexec | rewrite <- Hlast in Happ; exact Happ]|].
    cbn [ctl_trace map ctl_of]. rewrite abs_trace_cons. cbn [fst]. rewrite He, Ha. fold (ctl_trace l). rewrite Hal.
    symmetry. exact (execfrom_hd _ _ _ Hex).
  Qed.
End Converse.

Theorem accepts_is_iaccepts e sem p t cfgs :
  parse_teal p = Ok t -> Accepts e sem (whole_function t) cfgs ->
  exists tr, IAccepts e sem p tr /\ abs_trace t (ctl_trace tr) = cfgs.
Proof.
  intros Hp Hacc. destruct (walk_setup p t Hp) as (bs & rbs & Hbs & Hc).
  exact (converse_sec e sem p t bs rbs Hp Hbs Hc cfgs Hacc).
Qed.

(* the block-level accepting executions are exactly the block sequences of the pc-level ones *)
Corollary accepts_iff_iaccepts e sem p t cfgs :
  parse_teal p = Ok t ->
  (Accepts e sem (whole_function t) cfgs <-> exists tr, IAccepts e sem p tr /\ abs_trace t (ctl_trace tr) = cfgs).
Proof.
  intros Hp. split; [apply accepts_is_iaccepts; exact Hp|].
  intros (tr & Hacc & <-). exact (iaccepts_refines e sem p t tr Hp Hacc).
Qed.

Print Assumptions accepts_is_iaccepts.
Print Assumptions accepts_iff_iaccepts.

(* ================================================================== Part 7: recursion freedom at the pc level *)
(* InsSem.inonrecursive (no callsub L is executed while an activation of L is pending) implies
   PathCut.nonrecursive of the execution's block sequence *)
Section NonRec.
  Variables (p : prog) (t : teal) (bs : list block) (rbs : list rawblock).
  Hypothesis Hparse : parse_teal p = Ok t.
  Hypothesis Hbs : build_blocks p = Some bs.
  Hypothesis Hc : create_bb p = Some rbs.
  Notation f := (whole_function t).
  Notation okc := (cfg_ok p t rbs).

  (* a block visit that is followed by another one ends with a configuration at the block's exit instruction *)
  Lemma visit_exit : forall c0 cfgs, IRunFrom p c0 cfgs -> okc c0 ->
    forall pre A A' post, abs_cfg t c0 :: abs_trace t (tl cfgs) = pre ++ A :: A' :: post ->
    exists c b, In c cfgs /\ okc c /\ abs_cfg t c = A /\ In b (t_blocks t) /\
                In (fst c) (b_ins b) /\ fst c = last (b_ins b) 0.
  Proof.
    induction 1 as [c0|c0 c' rest Hs Hrest IH]; intros Hok pre A A' post E.
    - exfalso. cbn [tl abs_trace filter map] in E. apply (f_equal (@length _)) in E.
      rewrite app_length in E. cbn [length] in E. lia.
    - destruct (step_ok p t bs rbs Hparse Hbs Hc c0 c' Hok Hs) as (Hok' & Hshape).
      pose proof (irunfrom_hd p c' rest Hrest) as Erest.
      cbn [tl] in E.
      assert (Eab : abs_trace t rest = if is_entry t (fst c') then abs_cfg t c' :: abs_trace t (tl rest)
                                       else abs_trace t (tl rest)).
      { rewrite Erest at 1. apply abs_trace_cons. }
      rewrite Eab in E.
      destruct Hshape as [(_ & He & Ha)|((b & b' & Hb & _ & Hin & Hl & _) & He)]; rewrite He in E.
      + rewrite <- Ha in E.
        destruct (IH Hok' pre A A' post E) as (c & b & Hc1 & H2).
        exists c, b. split; [right; exact Hc1 | exact H2].
      + destruct pre as [|x pre'].
        * cbn [app] in E. inversion E as [[E1 E2]]. exists c0, b.
          split; [left; reflexivity|]. split; [exact Hok|]. split; [reflexivity|]. auto.
        * cbn [app] in E. inversion E as [[E1 E2]].
          destruct (IH Hok' pre' A A' post E2) as (c & b1 & Hc1 & H2).
          exists c, b1. split; [right; exact Hc1 | exact H2].
  Qed.

  (* the frame pushed for a pending return pc is named after the callsub before it *)
  Lemma frame_of_ret r : ret_ok p t rbs r ->
    exists l, op_at p (pred r) = Some (ICallsub l) /\ frame_name f (pc_block t (pred r)) = l.
  Proof.
    intros (k & l & n & -> & Hop & Hkn & Hid). cbn [pred]. exists l. split; [exact Hop|].
    destruct (unique_block_sec p t bs rbs Hparse Hbs Hc k n Hkn Hid) as (b & Hb & Hkb & Hfb & Epc & _).
    destruct (blk_raw p t bs rbs Hparse Hbs Hc b Hb) as (rb & Hn & Hi & _ & _ & Hnn).
    assert (Hex : k = last (b_ins b) 0).
    { rewrite Hi. apply (exit_callsub p rbs Hc (p_ne p t Hparse) k l Hop (b_idx b) rb Hn). rewrite <- Hi. exact Hkb. }
    pose proof (app_removelast_last 0 Hnn) as E. rewrite <- Hex in E.
    unfold frame_name, callee_of. rewrite Epc, Hfb, (fexit_last p t Hparse b _ k E), Hop. reflexivity.
  Qed.

  Lemma nonrec_sec cfgs : IRun p cfgs ->
    (forall pc st l, In (pc, st) cfgs -> op_at p pc = Some (ICallsub l) ->
       l <> ""%string /\ forall r, In r st -> op_at p (pred r) <> Some (ICallsub l)) ->
    nonrecursive f (abs_trace t cfgs).
  Proof.
    intros Hrun Hcond pre bq stq c' post l E Hcallee Hin.
    destruct (init_ok p t bs rbs Hparse Hbs Hc) as (Hok0 & He0 & Ha0).
    assert (Ecfgs : abs_trace t cfgs = abs_cfg t (0, []) :: abs_trace t (tl cfgs)).
    { rewrite (irunfrom_hd p _ _ Hrun) at 1. rewrite abs_trace_cons. cbn [fst]. rewrite He0. reflexivity. }
    rewrite Ecfgs in E.
    destruct (visit_exit (0, []) cfgs Hrun Hok0 pre (bq, stq) c' post E) as ([pc st] & b & Hc1 & Hok & Ea & Hb & Hpcin & Hl).
    cbn [fst] in Hpcin, Hl. unfold abs_cfg in Ea. cbn [fst snd] in Ea. inversion Ea as [[Eb Es]]. subst bq stq.
    destruct (blk_of p t bs rbs Hparse Hbs Hc pc st b Hok Hb Hpcin) as (Hfb & Epc & _ & _ & _).
    destruct (blk_raw p t bs rbs Hparse Hbs Hc b Hb) as (_ & _ & _ & _ & _ & Hnn).
    pose proof (app_removelast_last 0 Hnn) as EX. rewrite <- Hl in EX.
    assert (Hop : op_at p pc = Some (ICallsub l)).
    { unfold callee_of in Hcallee. rewrite Epc, Hfb, (fexit_last p t Hparse b _ pc EX) in Hcallee.
      destruct (op_at p pc) as [[]|]; try discriminate Hcallee. inversion Hcallee; reflexivity. }
    destruct (Hcond pc st l Hc1 Hop) as [Hne Hst].
    unfold stack_names in Hin. destruct Hin as [Hin|Hin]; [apply Hne; symmetry; exact Hin|].
    unfold abs_stack in Hin. rewrite map_map in Hin. apply in_map_iff in Hin. destruct Hin as (r & Hfr & Hr).
    destruct Hok as [_ Hret]. cbn [snd] in Hret. rewrite Forall_forall in Hret.
    destruct (frame_of_ret r (Hret r Hr)) as (l' & Hop' & Hfn). rewrite Hfn in Hfr. subst l'.
    exact (Hst r Hr Hop').
  Qed.
End NonRec.

Theorem inonrecursive_nonrecursive e sem p t tr :
  parse_teal p = Ok t -> IExec e sem p tr -> inonrecursive p tr ->
  nonrecursive (whole_function t) (abs_trace t (ctl_trace tr)).
Proof.
  intros Hp Hex Hnr. destruct (walk_setup p t Hp) as (bs & rbs & Hbs & Hc).
  apply (nonrec_sec p t bs rbs Hp Hbs Hc (ctl_trace tr) (iexec_is_irun e sem p tr Hex)).
  intros pc st l Hin Hop. unfold ctl_trace in Hin. apply in_map_iff in Hin.
  destruct Hin as ([[pc0 st0] cs0] & E & Hin). cbn [ctl_of] in E. inversion E; subst pc0 st0.
  exact (Hnr pc st cs0 l Hin Hop).
Qed.
Print Assumptions inonrecursive_nonrecursive.

(* C01_fee_no_miss_ins with every hypothesis about the execution stated at the pc level, and the graph
   hypothesis replaced by the decidable structural check of the parsed contract *)
Corollary C01_fee_no_miss_ins_pc e sem p t fuel fuel' res tr ps fee :
  parse_teal p = Ok t -> struct_okb t = true ->
  sem_ok e sem -> env_ok e -> t_intcs t = e_intcs e ->
  fee_leaves_ok (whole_function t) KSelf -> fee_leaves_ok (whole_function t) (KAtIndex (e_own e)) ->
  int_leaves_ok (whole_function t) true -> int_leaves_ok (whole_function t) false ->
  run_all (whole_function t) fuel = Done res -> IAccepts e sem p tr -> inonrecursive p tr ->
  e_field e (e_own e) "Fee" = VInt fee -> (MAX_TRANSACTION_COSTz < fee <= MAX_UINT64z)%Z ->
  run_detector (whole_function t) res fuel' "missing-fee-check" checks_missing_fee_check = Done ps -> ps <> [].
Proof.
  intros Hp Hsok Hsem Hok Hi Hls Hla Ht Hf Hrun Hacc Hnr Hfee Hr Hdet.
  exact (C01_fee_no_miss_ins e sem p t fuel fuel' res tr ps fee Hp Hsem Hok Hi
           (graph_ok_whole_function_b p t Hp Hsok) Hls Hla Ht Hf Hrun Hacc
           (inonrecursive_nonrecursive e sem p t tr Hp (proj1 Hacc) Hnr) Hfee Hr Hdet).
Qed.
Print Assumptions C01_fee_no_miss_ins_pc.

(* ================================================================== Part 8: examples *)
Module InsSemExamples.
  Open Scope string_scope.
  (* a single transaction paying a fee of 500 *)
  Definition ex_env : env :=
    mkEnv 1 0 (fun _ fld => if fld =? "Fee" then VInt 500 else VOther) "C" None.

  (* one instruction that falls through to pc+1 *)
  Ltac dnext :=
    eapply DS; [reflexivity | split; [eexists; reflexivity | reflexivity]
               | apply C_next; [reflexivity | reflexivity | vm_compute; lia]].
  Ltac dlab := apply label_at_find_label; reflexivity.

  (* ---------------------------------------------------------------- straight-line code *)
  Definition ex1_lines : list string := ["txn Fee"; "int 1000"; "<="; "assert"; "int 1"; "return"].
  Definition ex1_prog : prog :=
    Eval vm_compute in match parse_program (unlines ex1_lines) with Ok p => p | Err _ => [] end.
  Definition ex1_teal : teal :=
    Eval vm_compute in
      match parse_teal ex1_prog with Ok t => t | Err _ => mkTeal 0%N MAny [] [] [] (mkSub "" 0 [] []) [] None end.
  Example ex1_parses : parse_program (unlines ex1_lines) = Ok ex1_prog /\ parse_teal ex1_prog = Ok ex1_teal.
  Proof. split; vm_compute; reflexivity. Qed.

  Definition ex1_trace : list dconfig :=
    [ (0, [], []); (1, [], [CInt 500]); (2, [], [CInt 1000; CInt 500]); (3, [], [CInt 1]); (4, [], []);
      (5, [], [CInt 1]) ].

  Example ex1_iaccepts : IAccepts ex_env (sem_ref ex_env) ex1_prog ex1_trace.
  Proof.
    split.
    - unfold IExec, ex1_trace.
      eapply IEF_step; [dnext|]. eapply IEF_step; [dnext|]. eapply IEF_step; [dnext|].
      eapply IEF_step; [dnext|]. eapply IEF_step; [dnext|]. apply IEF_one.
    - cbn [last ex1_trace approves]. split; [reflexivity|]. split; [reflexivity|].
      exists [CInt 1], []. split; [eexists; reflexivity | reflexivity].
  Qed.

  (* the induced block-level execution: one block *)
  Example ex1_accepts : Accepts ex_env (sem_ref ex_env) (whole_function ex1_teal) [(0, [])].
  Proof. exact (iaccepts_refines _ _ _ _ _ (proj2 ex1_parses) ex1_iaccepts). Qed.

  (* ---------------------------------------------------------------- a data-determined bnz and a subroutine call *)
  (*  0 txn Fee | 1 int 1000 | 2 <= | 3 bnz ok | 4 err | 5 ok: | 6 callsub f | 7 return | 8 f: | 9 int 1 | 10 retsub *)
  Definition ex2_lines : list string :=
    ["txn Fee"; "int 1000"; "<="; "bnz ok"; "err"; "ok:"; "callsub f"; "return"; "f:"; "int 1"; "retsub"].
  Definition ex2_prog : prog :=
    Eval vm_compute in match parse_program (unlines ex2_lines) with Ok p => p | Err _ => [] end.
  Definition ex2_teal : teal :=
    Eval vm_compute in
      match parse_teal ex2_prog with Ok t => t | Err _ => mkTeal 0%N MAny [] [] [] (mkSub "" 0 [] []) [] None end.
  Example ex2_parses : parse_program (unlines ex2_lines) = Ok ex2_prog /\ parse_teal ex2_prog = Ok ex2_teal.
  Proof. split; vm_compute; reflexivity. Qed.
  Example ex2_blocks : map b_ins (t_blocks ex2_teal) = [[0; 1; 2; 3]; [4]; [5; 6]; [7]; [8; 9; 10]].
  Proof. vm_compute. reflexivity. Qed.

  Definition ex2_trace : list dconfig :=
    [ (0, [], []); (1, [], [CInt 500]); (2, [], [CInt 1000; CInt 500]); (3, [], [CInt 1]);
      (5, [], []); (6, [], []); (8, [7], []); (9, [7], []); (10, [7], [CInt 1]); (7, [], [CInt 1]) ].

  Example ex2_iaccepts : IAccepts ex_env (sem_ref ex_env) ex2_prog ex2_trace.
  Proof.
    split.
    - unfold IExec, ex2_trace.
      eapply IEF_step; [dnext|]. eapply IEF_step; [dnext|]. eapply IEF_step; [dnext|].
      (* bnz pops 1: the jump is the only step *)
      eapply IEF_step.
      { eapply DS; [reflexivity | split; [eexists; reflexivity | reflexivity]|].
        apply (C_bnz_jump ex2_prog "ok" 5 (CInt 1) 3 []); [reflexivity | dlab]. }
      eapply IEF_step; [dnext|].
      eapply IEF_step.
      { eapply DS; [reflexivity | split; [eexists; reflexivity | reflexivity]|].
        apply (C_call ex2_prog "f" 8 [] 6 []). dlab. }
      eapply IEF_step; [dnext|]. eapply IEF_step; [dnext|].
      eapply IEF_step.
      { eapply DS; [reflexivity | split; [eexists; reflexivity | reflexivity]|].
        apply (C_ret ex2_prog 7 [] 10 []). vm_compute. lia. }
      apply IEF_one.
    - cbn [last ex2_trace approves]. split; [reflexivity|]. split; [reflexivity|].
      exists [CInt 1], []. split; [eexists; reflexivity | reflexivity].
  Qed.

  (* the bnz is decided by the data: with 1 on the stack there is no fall-through step *)
  Example ex2_bnz_determined : forall c', dstep ex_env (sem_ref ex_env) ex2_prog (3, [], [CInt 1]) c' -> c' = (5, [], []).
  Proof.
    intros c' H. inversion H as [pc st cs op args cs' pc' st' Hop [(outs & Hst) Hf] Hctl]; subst.
    vm_compute in Hop. inversion Hop; subst op. vm_compute in Hst. inversion Hst; subst args outs cs'.
    destruct (ctl_bnz_inv _ _ _ _ _ _ _ Hctl) as [-> [[_ Hl]|[Ht _]]]; [|discriminate Ht].
    apply label_at_find_label in Hl. vm_compute in Hl. inversion Hl. reflexivity.
  Qed.

  Example ex2_abs : abs_trace ex2_teal (ctl_trace ex2_trace) = [(0, []); (2, []); (4, [2]); (3, [])].
  Proof. vm_compute. reflexivity. Qed.

  Example ex2_accepts :
    Accepts ex_env (sem_ref ex_env) (whole_function ex2_teal) [(0, []); (2, []); (4, [2]); (3, [])].
  Proof. rewrite <- ex2_abs. exact (iaccepts_refines _ _ _ _ _ (proj2 ex2_parses) ex2_iaccepts). Qed.

  (* the execution is recursion free in the pc-level sense: its only callsub (pc 6) runs with an empty return stack *)
  Example ex2_inonrecursive : inonrecursive ex2_prog ex2_trace.
  Proof.
    intros pc st cs l Hin Hop. unfold ex2_trace in Hin. cbn [In] in Hin.
    repeat (destruct Hin as [Hin|Hin]; [inversion Hin; subst pc st cs; vm_compute in Hop; try discriminate Hop|]);
      [|destruct Hin].
    inversion Hop; subst l. split; [discriminate | intros r []].
  Qed.
End InsSemExamples.

(* ---------------------------------------------------------------- C01_fee_no_miss_ins is not vacuous *)
(* NoMiss.NoMissWitness.p1:  txn Fee; int 1000000; <=; bz fail; int 1; return; fail: err
   run at pc level by a single transaction paying 500000: every hypothesis of C01_fee_no_miss_ins holds
   for the parsed contract (whole_function of parse_teal p1) *)
Module InsNoMissWitness.
  Import NoMissWitness.
  Open Scope string_scope.

  Definition t1 : teal :=
    Eval vm_compute in
      match parse_teal p1 with Ok t => t | Err _ => mkTeal 0%N MAny [] [] [] (mkSub "" 0 [] []) [] None end.
  Example t1_parses : parse_teal p1 = Ok t1.
  Proof. vm_compute. reflexivity. Qed.
  Notation fW := (whole_function t1).

  Definition trace1 : list dconfig :=
    [ (0, [], []); (1, [], [CInt 500000]); (2, [], [CInt 1000000; CInt 500000]); (3, [], [CInt 1]);
      (4, [], []); (5, [], [CInt 1]) ].

  Ltac dnext :=
    eapply DS; [reflexivity | split; [eexists; reflexivity | reflexivity]
               | apply C_next; [reflexivity | reflexivity | vm_compute; lia]].

  Example w_iaccepts : IAccepts e1 sem1 p1 trace1.
  Proof.
    split.
    - unfold IExec, trace1.
      eapply IEF_step; [dnext|]. eapply IEF_step; [dnext|]. eapply IEF_step; [dnext|].
      (* bz pops 1: falls through *)
      eapply IEF_step.
      { eapply DS; [reflexivity | split; [eexists; reflexivity | reflexivity]|].
        apply (C_bz_fall p1 "fail" (CInt 1) 3 []); [reflexivity | vm_compute; lia]. }
      eapply IEF_step; [dnext|]. apply IEF_one.
    - cbn [last trace1 approves]. split; [reflexivity|]. split; [reflexivity|].
      exists [CInt 1], []. split; [eexists; reflexivity | reflexivity].
  Qed.

  Lemma fW_fblock b blk : fblock fW b = Some blk -> fblock f1 b = Some blk.
  Proof. destruct b as [|[|[|b]]]; intros H; vm_compute in H |- *; first [exact H | discriminate H]. Qed.

  Lemma fW_prog : fn_prog fW = p1.
  Proof. vm_compute. reflexivity. Qed.

  Lemma fW_prog_leaf op pos args : prog_leaf fW op pos args -> prog_leaf f1 op pos args.
  Proof.
    intros (b & blk & Hb & Hl). exists b, blk. split; [exact (fW_fblock b blk Hb)|].
    unfold block_leaf in *. rewrite fW_prog in Hl. exact Hl.
  Qed.

  Lemma wW_fee_leaves fam : fam = KSelf \/ fam = KAtIndex 0 -> fee_leaves_ok fW fam.
  Proof. intros Hfam op pos args Hp. exact (w_fee_leaves fam Hfam op pos args (fW_prog_leaf op pos args Hp)). Qed.

  Lemma wW_int_leaves sz : int_leaves_ok fW sz.
  Proof. intros op pos args Hp. exact (w_int_leaves sz op pos args (fW_prog_leaf op pos args Hp)). Qed.

  Lemma wW_graph_ok : graph_ok fW.
  Proof. apply (graph_ok_whole_function_b p1 t1 t1_parses). vm_compute. reflexivity. Qed.

  Definition resW : fn_result :=
    Eval vm_compute in match run_all fW 100 with Done r => r | _ => mkRes [] [] [] [] [] end.
  Lemma wW_run_all : run_all fW 100 = Done resW.
  Proof. vm_compute. reflexivity. Qed.

  Example wW_abs : abs_trace t1 (ctl_trace trace1) = [(0, []); (1, [])].
  Proof. vm_compute. reflexivity. Qed.

  Lemma wW_nonrec : nonrecursive fW (abs_trace t1 (ctl_trace trace1)).
  Proof.
    apply (nonrecursive_intra fW (fn_entry fW, []) _
             (irun_is_run p1 t1 _ t1_parses (iexec_is_irun _ _ _ _ (proj1 w_iaccepts)))).
    rewrite wW_abs. intros c0 Hin. simpl in Hin. intuition (subst; reflexivity).
  Qed.

  (* the pc-level execution above pays 500000 > MAX_TRANSACTION_COST: missing-fee-check must report *)
  Theorem wW_fee_no_miss fuel' ps :
    run_detector fW resW fuel' "missing-fee-check" checks_missing_fee_check = Done ps -> ps <> [].
  Proof.
    apply (C01_fee_no_miss_ins e1 sem1 p1 t1 100 fuel' resW trace1 ps 500000 t1_parses (sem_ref_ok e1) w_env_ok eq_refl
             wW_graph_ok (wW_fee_leaves _ (or_introl eq_refl)) (wW_fee_leaves _ (or_intror eq_refl))
             (wW_int_leaves true) (wW_int_leaves false) wW_run_all w_iaccepts wW_nonrec eq_refl).
    vm_compute. split; [reflexivity | discriminate].
  Qed.

  (* the same through the pc-level hypotheses only *)
  Lemma wW_inonrec : inonrecursive p1 trace1.
  Proof.
    intros pc st cs l Hin Hop. unfold trace1 in Hin. cbn [In] in Hin.
    repeat (destruct Hin as [Hin|Hin]; [inversion Hin; subst pc st cs; vm_compute in Hop; discriminate Hop|]).
    destruct Hin.
  Qed.

  Theorem wW_fee_no_miss_pc fuel' ps :
    run_detector fW resW fuel' "missing-fee-check" checks_missing_fee_check = Done ps -> ps <> [].
  Proof.
    apply (C01_fee_no_miss_ins_pc e1 sem1 p1 t1 100 fuel' resW trace1 ps 500000 t1_parses eq_refl (sem_ref_ok e1) w_env_ok
             eq_refl (wW_fee_leaves _ (or_introl eq_refl)) (wW_fee_leaves _ (or_intror eq_refl))
             (wW_int_leaves true) (wW_int_leaves false) wW_run_all w_iaccepts wW_inonrec eq_refl).
    vm_compute. split; [reflexivity | discriminate].
  Qed.

  Example wW_fee_paths : run_detector fW resW 100 "missing-fee-check" checks_missing_fee_check = Done [[0; 1]].
  Proof. vm_compute. reflexivity. Qed.
End InsNoMissWitness.
Print Assumptions InsNoMissWitness.wW_fee_no_miss.
Print Assumptions InsNoMissWitness.wW_fee_no_miss_pc.
