(* Lemmas/ConfigFromYamlLemmas.v -- the readers of the CONTRACTS part and of the WHOLE configuration, for EVERY parsed YAML
   map (completes Lemmas/GroupConfigGenLemmas.v, which has the conversion lemmas, the two loops of
   GroupConfigContract.from_yaml as functional programs and the round trip, and Lemmas/FromYamlLemmas.v, which has the
   group readers).

     contract_from_yaml_spec : forall m, GroupConfigContract_from_yaml_gen m = contract_spec m
        name absent -> "contract name is not given"; name not a str -> TypeError; one of file_path / type / version /
        subroutines / functions absent -> "..Following Required fields are absent.."; file_path, type str, version int,
        subroutines list of str else TypeError; type not in GROUP_CONFIG_CONTRACT_TYPES -> "..Invalid contract type..";
        functions a list of maps else TypeError; the functions read in order by GroupConfigFunction.from_yaml
        (GroupConfigGenLemmas.function_from_yaml_spec), the first refusal re-raised with the contract's prefix.
     contract_returns_listed_type : a returned contract has a type of GROUP_CONFIG_CONTRACT_TYPES, hence
        contract_type_from_txt (used by the contracts loop of init_tealer_from_config) cannot raise KeyError on it.
     config_from_yaml_total : forall m, GroupConfig_from_yaml_gen m =
        (name, contracts, groups present else "Config: ..absent..") contracts member by member through contract_spec,
        groups member by member through FromYamlLemmas.grp_fault / grp_record, then the name.
     config_groups_known_types : every transaction entry of every group of a returned configuration names a known type. *)
From Coq Require Import String List NArith ZArith Bool Arith Lia Ascii.
From Tealer Require Import Tables LeafPrelude Syntax Parse Cfg StackAst Keys KeysGen Analysis Domains Detect SearchGen Group GroupGen GroupInitGen.
From Tealer Require Import SearchGenLemmas GroupLemmas GroupGenLemmas GroupInitGenLemmas YamlRelLemmas GroupCfgOk FromYamlLemmas GroupConfigGenLemmas.
Import ListNotations.
Open Scope string_scope.
Open Scope list_scope.

Definition contract_spec (m : list (string * yv)) : rs GroupConfigContract :=
  match yfind "name" m with
  | None => Raise E_c_no_name
  | Some vn =>
    rbind (as_str vn) (fun name =>
    if all_present contract_required m
    then rbind (as_str (yget "file_path" m)) (fun file_path =>
         rbind (as_str (yget "type" m)) (fun contract_type =>
         rbind (as_int (yget "version" m)) (fun version =>
         rbind (as_list_of as_str (yget "subroutines" m)) (fun subroutines =>
         if s_in_list contract_type GROUP_CONFIG_CONTRACT_TYPES
         then rbind (as_list_of as_map (yget "functions" m)) (fun functions =>
              rbind (functions_spec functions) (fun parsed => Ok (mkGroupConfigContract name file_path contract_type version subroutines parsed)))
         else Raise E_c_type))))
    else Raise E_c_absent)
  end.

Theorem contract_from_yaml_spec m : GroupConfigContract_from_yaml_gen m = contract_spec m.
Proof.
  rewrite contract_from_yaml_unfold. unfold contract_spec. rewrite sdict_mem_yfind, sdict_get_yfind.
  destruct (yfind "name" m) as [vn|]; [|reflexivity]. cbn [negb rbind].
  destruct (as_str vn) as [name|x]; [|reflexivity]. cbn [rbind].
  rewrite required_loop_eq. cbn [app rbind]. rewrite absent_test.
  destruct (all_present contract_required m) eqn:Ep; cbn [negb]; [|reflexivity].
  unfold all_present, contract_required in Ep. cbn [forallb] in Ep. rewrite !andb_true_iff in Ep.
  destruct Ep as (H1 & H2 & H3 & H4 & H5 & _).
  rewrite (sdict_get_yget _ _ H1), (sdict_get_yget _ _ H2), (sdict_get_yget _ _ H3), (sdict_get_yget _ _ H4), (sdict_get_yget _ _ H5).
  cbn [rbind].
  destruct (as_str (yget "file_path" m)) as [fp|x]; [|reflexivity]. cbn [rbind].
  destruct (as_str (yget "type" m)) as [ty|x]; [|reflexivity]. cbn [rbind].
  destruct (as_int (yget "version" m)) as [ve|x]; [|reflexivity]. cbn [rbind].
  destruct (as_list_of as_str (yget "subroutines" m)) as [su|x]; [|reflexivity]. cbn [rbind].
  destruct (s_in_list ty GROUP_CONFIG_CONTRACT_TYPES); cbn [negb]; [|reflexivity].
  destruct (as_list_of as_map (yget "functions" m)) as [fs|x]; [|reflexivity]. cbn [rbind].
  rewrite functions_loop_eq. destruct (functions_spec fs) as [pf|x]; reflexivity.
Qed.
Print Assumptions contract_from_yaml_spec.

Theorem contract_returns_listed_type m c :
  GroupConfigContract_from_yaml_gen m = Ok c -> s_in_list (cc_contract_type c) GROUP_CONFIG_CONTRACT_TYPES = true.
Proof.
  rewrite contract_from_yaml_spec. unfold contract_spec. destruct (yfind "name" m) as [vn|]; [|discriminate].
  destruct (as_str vn) as [name|x]; [|discriminate]. cbn [rbind]. destruct (all_present contract_required m); [|discriminate].
  destruct (as_str (yget "file_path" m)) as [fp|x]; [|discriminate]. cbn [rbind].
  destruct (as_str (yget "type" m)) as [ty|x]; [|discriminate]. cbn [rbind].
  destruct (as_int (yget "version" m)) as [ve|x]; [|discriminate]. cbn [rbind].
  destruct (as_list_of as_str (yget "subroutines" m)) as [su|x]; [|discriminate]. cbn [rbind].
  destruct (s_in_list ty GROUP_CONFIG_CONTRACT_TYPES) eqn:Et; [|discriminate].
  destruct (as_list_of as_map (yget "functions" m)) as [fs|x]; [|discriminate]. cbn [rbind].
  destruct (functions_spec fs) as [pf|x]; [|discriminate]. cbn [rbind]. intros H. inversion H. exact Et.
Qed.

(* a member-by-member reading with the group readers in the fault / record form of FromYamlLemmas *)
Definition group_elem (v : yv) : rs GroupConfigGroup :=
  match v with
  | YMap m' => match grp_fault m' with Some x => Raise x | None => Ok (grp_record m') end
  | _ => Raise ETypeError
  end.

Lemma group_elem_eq v : rbind (as_map v) GroupConfigGroup_from_yaml_gen = group_elem v.
Proof. destruct v; try reflexivity. cbn [as_map rbind group_elem]. apply grp_from_yaml_total. Qed.

Lemma mapR_ext {A B} (f g : A -> rs B) l : (forall a, f a = g a) -> mapR f l = mapR g l.
Proof. intros H. induction l as [|a l IH]; [reflexivity|]. cbn [mapR]. rewrite H, IH. reflexivity. Qed.

Theorem config_from_yaml_total m :
  GroupConfig_from_yaml_gen m =
  match yfind "name" m, yfind "contracts" m, yfind "groups" m with
  | Some name, Some cs, Some gs =>
    rbind (as_list cs) (fun l1 => rbind (mapR (fun v => rbind (as_map v) contract_spec) l1) (fun contracts =>
    rbind (as_list gs) (fun l2 => rbind (mapR group_elem l2) (fun groups =>
    rbind (as_str name) (fun n => Ok (mkGroupConfig n contracts groups))))))
  | _, _, _ => Raise E_cfg_absent
  end.
Proof.
  rewrite config_from_yaml_spec.
  destruct (yfind "name" m) as [name|], (yfind "contracts" m) as [cs|], (yfind "groups" m) as [gs|]; try reflexivity.
  destruct (as_list cs) as [l1|x]; [|reflexivity]. cbn [rbind].
  rewrite (mapR_ext (fun v => rbind (as_map v) GroupConfigContract_from_yaml_gen) (fun v => rbind (as_map v) contract_spec))
    by (intros v; destruct (as_map v); [cbn [rbind]; apply contract_from_yaml_spec | reflexivity]).
  destruct (mapR _ l1) as [contracts|x]; [|reflexivity]. cbn [rbind].
  destruct (as_list gs) as [l2|x]; [|reflexivity]. cbn [rbind].
  rewrite (mapR_ext (fun v => rbind (as_map v) GroupConfigGroup_from_yaml_gen) group_elem l2 group_elem_eq). reflexivity.
Qed.
Print Assumptions config_from_yaml_total.

Lemma mapR_ok_in {A B} (f : A -> rs B) : forall l r, mapR f l = Ok r -> forall b, In b r -> exists a, In a l /\ f a = Ok b.
Proof.
  induction l as [|a l IH]; intros r H b Hb; cbn [mapR] in H.
  - inversion H; subst r. destruct Hb.
  - destruct (f a) as [b0|x] eqn:Ea; [|discriminate]. cbn [rbind] in H. destruct (mapR f l) as [r0|x]; [|discriminate].
    cbn [rbind] in H. inversion H; subst r. destruct Hb as [<-|Hb].
    + exists a. split; [left; reflexivity | exact Ea].
    + destruct (IH r0 eq_refl b Hb) as (a' & Ha' & Hf). exists a'. split; [right; exact Ha' | exact Hf].
Qed.

(* every transaction entry of every group of a configuration that was read names a known transaction type, and every
   contract a listed contract type: neither KeyError of init_tealer_from_config can happen on a configuration file *)
Theorem config_known_types m cfg :
  GroupConfig_from_yaml_gen m = Ok cfg ->
  (forall grp e, In grp (gc_groups cfg) -> In e (cg_transactions grp) -> sdict_mem (ct_txn_type e) USER_CONFIG_TRANSACTION_TYPES = true) /\
  (forall c, In c (gc_contracts cfg) -> s_in_list (cc_contract_type c) GROUP_CONFIG_CONTRACT_TYPES = true).
Proof.
  rewrite config_from_yaml_spec.
  destruct (yfind "name" m) as [name|], (yfind "contracts" m) as [cs|], (yfind "groups" m) as [gs|]; try discriminate.
  destruct (as_list cs) as [l1|x]; [|discriminate]. cbn [rbind].
  destruct (mapR _ l1) as [contracts|x] eqn:E1; [|discriminate]. cbn [rbind].
  destruct (as_list gs) as [l2|x]; [|discriminate]. cbn [rbind].
  destruct (mapR _ l2) as [groups|x] eqn:E2; [|discriminate]. cbn [rbind].
  destruct (as_str name) as [n|x]; [|discriminate]. cbn [rbind]. intros H. inversion H; subst cfg. cbn [gc_groups gc_contracts]. split.
  - intros grp e Hg He. destruct (mapR_ok_in _ _ _ E2 grp Hg) as (v & _ & Hv). destruct v; try discriminate Hv.
    cbn [as_map rbind] in Hv. exact (grp_returns_known_types m0 grp Hv e He).
  - intros c Hc. destruct (mapR_ok_in _ _ _ E1 c Hc) as (v & _ & Hv). destruct v; try discriminate Hv.
    cbn [as_map rbind] in Hv. exact (contract_returns_listed_type m0 c Hv).
Qed.
Print Assumptions config_known_types.

Example contract_spec_examples :
  contract_spec [("file_path", YStr "a.teal")] = Raise E_c_no_name /\
  contract_spec [("name", YStr "c"); ("file_path", YStr "a.teal")] = Raise E_c_absent /\
  contract_spec [("name", YStr "c"); ("file_path", YStr "a.teal"); ("type", YStr "Approval"); ("version", YInt 6); ("subroutines", YList []); ("functions", YList [])] = Raise E_c_type /\
  contract_spec [("name", YStr "c"); ("file_path", YStr "a.teal"); ("type", YStr "LogicSig"); ("version", YStr "6"); ("subroutines", YList []); ("functions", YList [])] = Raise ETypeError /\
  contract_spec [("name", YStr "c"); ("file_path", YStr "a.teal"); ("type", YStr "LogicSig"); ("version", YInt 6); ("subroutines", YList []);
                 ("functions", YList [YMap [("name", YStr "f"); ("dispatch_path", YList [YStr "B0"; YStr "b1"])]])] = Raise E_c_fn_block /\
  contract_spec [("name", YStr "c"); ("file_path", YStr "a.teal"); ("type", YStr "LogicSig"); ("version", YInt 6); ("subroutines", YList [YStr "s"]);
                 ("functions", YList [YMap [("name", YStr "f"); ("dispatch_path", YList [YStr "B0"; YStr "B12"])]])] =
    Ok (mkGroupConfigContract "c" "a.teal" "LogicSig" 6 ["s"] [mkGroupConfigFunction "f" ["B0"; "B12"]]).
Proof. repeat split; vm_compute; reflexivity. Qed.
