(* The detectors' path search REGENERATED from tealer's Python source (Gen/SearchGen.v: search_paths_gen,
   detect_missing_tx_field_validations_gen, validated_in_block_gen, translated statement by statement from
   detectors/utils.py) against the hand-written search / detect_paths / validated_in_block of Model/Detect.v.

   Results (f, validated, report arbitrary).
   A. search_paths_gen_refines (NO hypothesis): whenever the generated search returns a final state r of the list
      object paths_without_check, the model's search, with the same fuel, returns Done ps and r = acc ++ ps
      (acc = the state at the call).  Every way the two differ is "the Python raises, the model goes on".
   B. search_paths_gen_eq: under the invariant [sinv] of the two stacks (below; it holds of the initial configuration
      and is preserved by every recursive call)
          search_paths_gen fuel bb path acc st ex = lift acc (search fuel bb path st ex)
      where lift acc (Done ps) = Some (acc ++ ps) and lift acc (Exn _ | OutOfFuel) = None: same fuel, exceptions of
      the Python = Exn of the model (both sides None / not Done).
   C. detect_gen_eq: detect_missing_tx_field_validations_gen fuel = lift [] (detect_paths fuel) as soon as no callsub
      block of f calls an undefined subroutine named "" (callee_defined ""; implied by TotalSolver.defined_okb).
   D. Outside [sinv] the two readings DIFFER (witnesses search_gen_refuted_*; the generated side mirrors the Python):
        - current_subroutine_executed = []: Python raises IndexError on [-1], the model reads [] as "nothing executed";
        - a frame whose block is not a callsub block: BasicBlock.sub_return_point raises, the model reads b_next;
        - a callsub of an undefined subroutine whose name is already on the stack: bb.called_subroutine raises BEFORE
          the recursion check, the model checks the recursion first and returns Done [].
      None of them is reachable from the initial configuration of detect_missing_tx_field_validations.
   E. The theorems SearchLemmas.detect_paths_sound / detect_paths_complete are transported to the generated
      function without any hypothesis (detect_gen_sound, detect_gen_complete), TotalSearch.detect_paths_terminates
      gives its totality (detect_gen_total).
   F. validated_in_block_gen_eq: the generated validated_in_block equals the model's when the indices read are in
      [0, MAX_GROUP_SIZE) (otherwise gtxn_context raises / indexes from the end: validated_gen_refuted). *)
From Coq Require Import String List NArith ZArith Bool Arith Lia.
From Tealer Require Import Tables LeafPrelude Syntax Parse Cfg StackAst Keys KeysGen Analysis Domains Detect Paths SearchGen.
From Tealer Require Import SolverLemmas SearchLemmas TotalSolver TotalSearch.
Import ListNotations.
Open Scope string_scope.
Open Scope list_scope.

(* ====================================================================== *)
(* 0. The list expressions of the prelude                                   *)
(* ====================================================================== *)
Lemma list_last_nil {A} : @list_last A [] = None.
Proof. reflexivity. Qed.

Lemma list_last_some {A} (xs : list A) x : list_last xs = Some x -> forall d, xs <> [] /\ last xs d = x.
Proof.
  induction xs as [|a [|b t] IH]; intros H d.
  - discriminate.
  - inversion H; subst. split; [discriminate | reflexivity].
  - destruct (IH H d) as [_ IH']. split; [discriminate | exact IH'].
Qed.

Lemma list_last_none {A} (xs : list A) : list_last xs = None -> xs = [].
Proof.
  induction xs as [|a [|b t] IH]; intros H; [reflexivity | discriminate | specialize (IH H); discriminate].
Qed.

Lemma list_last_nonempty {A} (xs : list A) d : xs <> [] -> list_last xs = Some (last xs d).
Proof.
  intros Hne. destruct (list_last xs) as [x|] eqn:E.
  - destruct (list_last_some _ _ E d) as [_ ->]. reflexivity.
  - apply list_last_none in E. contradiction.
Qed.

Lemma in_subs_on_stack l (st : list frame) :
  in_subs l (map (fun frame => snd frame) st) = existsb (fun '(_, s) => s =? l) st.
Proof.
  unfold in_subs. induction st as [|[o s] st IH]; [reflexivity|].
  simpl. rewrite IH, (String.eqb_sym l s). reflexivity.
Qed.

(* a fold whose accumulator is already an exception *)
Lemma fold_bind_none {A B} (k : B -> A -> py A) nx :
  fold_left (fun acc nb => bind acc (k nb)) nx None = None.
Proof. induction nx as [|n nx IH]; [reflexivity | exact IH]. Qed.

(* ====================================================================== *)
(* 1. generated search vs. model search                                     *)
(* ====================================================================== *)
(* Done ps |-> the final state; an exception or an exhausted budget |-> None *)
Definition lift {A} (acc : list A) (m : outcome (list A)) : py (list A) :=
  match m with Done ps => Some (acc ++ ps) | _ => None end.

Section Gen.
  Variable f : func.
  Variable validated : nat -> bool.
  Variable report : list nat -> bool.

  Notation search := (Detect.search f validated report).
  Notation gen := (search_paths_gen f validated report).

  (* ---------------------------------------------------------------- the invariant of the two stacks *)
  (* no callsub block of f calls a subroutine named nm that is undefined *)
  Definition callee_defined (nm : string) : Prop :=
    forall n b, fblock f n = Some b -> fexit_op f b = Some (ICallsub nm) -> f_find_sub f nm <> None.

  (* a frame: its block, if any, is a callsub block of f; its subroutine name is not that of an undefined callee *)
  Definition frame_ok (fr : frame) : Prop :=
    (forall cs, fst fr = Some cs -> exists cb, fblock f cs = Some cb /\ f_is_callsub f cb = true) /\
    callee_defined (snd fr).

  (* the outermost frame is the main routine's (no callsub block), one list of executed blocks per frame *)
  Record sinv (st : list frame) (ex : list (list nat)) : Prop := {
    si_len : length st <= length ex;
    si_head : exists nm rest, st = (None, nm) :: rest;
    si_frames : Forall frame_ok st }.

  Lemma sinv_ex_nonempty st ex : sinv st ex -> ex <> [].
  Proof.
    intros [Hlen (nm & rest & ->) _] ->. simpl in Hlen. lia.
  Qed.

  Lemma visit_length (ex : list (list nat)) bb : ex <> [] -> length (visit ex bb) = length ex.
  Proof.
    intros Hne. unfold visit. rewrite app_length. simpl.
    destruct (exists_last Hne) as (l & a & ->). rewrite removelast_last, app_length. simpl. lia.
  Qed.

  Lemma sinv_edge st ex bb : sinv st ex -> sinv st (visit ex bb).
  Proof.
    intros H. pose proof (sinv_ex_nonempty _ _ H) as Hne. destruct H as [Hlen Hhd Hfr].
    constructor; [rewrite visit_length by exact Hne; exact Hlen | exact Hhd | exact Hfr].
  Qed.

  Lemma sinv_call st ex bb b l s :
    sinv st ex -> fblock f bb = Some b -> fexit_op f b = Some (ICallsub l) -> f_find_sub f l = Some s ->
    sinv (st ++ [(Some bb, l)]) (visit ex bb ++ [[]]).
  Proof.
    intros H Hb Hop Hs. pose proof (sinv_ex_nonempty _ _ H) as Hne. destruct H as [Hlen (nm & rest & ->) Hfr].
    constructor.
    - rewrite !app_length, visit_length by exact Hne. simpl in *. lia.
    - exists nm, (rest ++ [(Some bb, l)]). reflexivity.
    - apply Forall_app. split; [exact Hfr|]. constructor; [|constructor]. split.
      + simpl. intros cs Hcs. inversion Hcs; subst cs. exists b. split; [exact Hb|].
        unfold f_is_callsub. rewrite Hop. reflexivity.
      + simpl. intros n b' _ _. rewrite Hs. discriminate.
  Qed.

  Lemma sinv_ret st ex bb cs nm :
    sinv st ex -> last st (None, "") = (Some cs, nm) -> sinv (removelast st) (removelast (visit ex bb)).
  Proof.
    intros H Hlast. pose proof (sinv_ex_nonempty _ _ H) as Hne. destruct H as [Hlen (nm0 & rest & ->) Hfr].
    destruct rest as [|fr rest]; [simpl in Hlast; discriminate|].
    assert (Hne' : fr :: rest <> []) by discriminate.
    destruct (exists_last Hne') as (rest' & a & E). rewrite E in *.
    change ((None, nm0) :: rest' ++ [a]) with (((None, nm0) :: rest') ++ [a]) in *.
    rewrite removelast_last. constructor.
    - unfold visit. rewrite removelast_last. rewrite app_length in Hlen. simpl in Hlen.
      destruct (exists_last Hne) as (l' & a' & ->). rewrite removelast_last. rewrite app_length in Hlen. simpl in *. unfold frame in *. lia.
    - exists nm0, rest'. reflexivity.
    - apply Forall_app in Hfr. tauto.
  Qed.

  (* ---------------------------------------------------------------- the glue table on a known block *)
  Lemma glue_leaf bb b : fblock f bb = Some b -> call_leaf_block_global f bb = Some (leaf_global f b).
  Proof. intros H. unfold call_leaf_block_global. rewrite H. reflexivity. Qed.
  Lemma glue_callsub bb b : fblock f bb = Some b -> attr_is_callsub_block f bb = Some (f_is_callsub f b).
  Proof. intros H. unfold attr_is_callsub_block. rewrite H. reflexivity. Qed.
  Lemma glue_retsub bb b : fblock f bb = Some b -> attr_is_retsub_block f bb = Some (f_is_retsub f b).
  Proof. intros H. unfold attr_is_retsub_block. rewrite H. reflexivity. Qed.
  Lemma glue_next bb b : fblock f bb = Some b -> call_next_blocks_global f bb = next_global f b.
  Proof. intros H. unfold call_next_blocks_global. rewrite H. reflexivity. Qed.
  Lemma glue_called bb b l :
    fblock f bb = Some b -> fexit_op f b = Some (ICallsub l) ->
    attr_called_subroutine f bb = match f_find_sub f l with Some _ => Some l | None => None end.
  Proof. intros H Hop. unfold attr_called_subroutine. rewrite H. cbn [bind]. rewrite Hop. reflexivity. Qed.
  Lemma glue_rp cs cb :
    fblock f cs = Some cb ->
    attr_sub_return_point f cs = if f_is_callsub f cb then Some (sub_return_point cb) else None.
  Proof. intros H. unfold attr_sub_return_point. rewrite H. reflexivity. Qed.
  Lemma glue_rp_none cs : fblock f cs = None -> attr_sub_return_point f cs = None.
  Proof. intros H. unfold attr_sub_return_point. rewrite H. reflexivity. Qed.

  Lemma callsub_inv b : f_is_callsub f b = true -> exists l, fexit_op f b = Some (ICallsub l).
  Proof. unfold f_is_callsub. destruct (fexit_op f b) as [[]|]; try discriminate. eauto. Qed.
  Lemma retsub_inv b : f_is_retsub f b = true -> fexit_op f b = Some IRetsub.
  Proof. unfold f_is_retsub. destruct (fexit_op f b) as [[]|]; try discriminate. reflexivity. Qed.
  Lemma callsub_not_retsub b : f_is_callsub f b = true -> f_is_retsub f b = false.
  Proof. intros H. destruct (callsub_inv _ H) as [l Hl]. unfold f_is_retsub. rewrite Hl. reflexivity. Qed.

  (* ---------------------------------------------------------------- agreement *)
  (* o: result of the generated function called with state acc; m: outcome of the model; I: the invariant *)
  Definition agree (o : py (list (list nat))) (acc : list (list nat)) (m : outcome (list (list nat))) (I : Prop) : Prop :=
    match o with
    | Some r => exists ps, m = Done ps /\ r = acc ++ ps
    | None => I -> forall ps, m <> Done ps
    end.

  (* the for loop over the successors against the model's fold *)
  Lemma fold_agree (g : nat -> list (list nat) -> py (list (list nat))) (h : nat -> outcome (list (list nat))) (I : Prop) :
    (forall nb acc, agree (g nb acc) acc (h nb) I) ->
    forall nx acc ps0,
      agree (fold_left (fun a nb => bind a (fun s => bind (g nb s) (fun p => ret p))) nx (ret (acc ++ ps0)))
            acc (fold_left (collect h) nx (Done ps0)) I.
  Proof.
    intros Hg. induction nx as [|nb nx IH]; intros acc ps0.
    - simpl. exists ps0. split; reflexivity.
    - simpl fold_left. cbn [bind ret]. specialize (Hg nb (acc ++ ps0)).
      destruct (g nb (acc ++ ps0)) as [r|] eqn:Eg; cbn [agree] in Hg.
      + destruct Hg as [qs [Hh ->]]. cbn [bind ret]. rewrite Hh. rewrite <- app_assoc. apply IH.
      + cbn [bind]. rewrite fold_bind_none with (k := fun nb s => bind (g nb s) (fun p => ret p)).
        intros HI ps. specialize (Hg HI).
        destruct (h nb) as [qs|e|] eqn:Eh; [exfalso; eapply Hg; reflexivity | |];
          rewrite fold_collect_not_done by discriminate; discriminate.
  Qed.

  Lemma gen_agree : forall fu bb path acc st ex,
    agree (gen fu bb path acc st ex) acc (search fu bb path st ex) (sinv st ex).
  Proof.
    induction fu as [|fu IH]; intros bb path acc st ex.
    - simpl. intros _ ps. discriminate.
    - rewrite search_S0. cbn [search_paths_gen]. cbv zeta.
      rewrite !but_last_l_removelast. fold (visit ex bb).
      destruct (list_last ex) as [le|] eqn:Hle.
      2:{ cbn [bind ifE agree]. intros Hinv ps. exfalso. apply list_last_none in Hle.
          exact (sinv_ex_nonempty _ _ Hinv Hle). }
      destruct (list_last_some _ _ Hle []) as [Hne Hlast]. subst le.
      cbn [bind ret ifE]. change (in_blocks bb (last ex [])) with (nat_mem bb (last ex [])).
      destruct (nat_mem bb (last ex [])) eqn:Hmem.
      { cbn [agree]. exists []. rewrite app_nil_r. split; reflexivity. }
      unfold call_validated_in_block, call_satisfies_report_condition. cbn [ret ifE].
      destruct (validated bb) eqn:Hval.
      { cbn [agree]. exists []. rewrite app_nil_r. split; reflexivity. }
      destruct (fblock f bb) as [b|] eqn:Hb.
      2:{ unfold call_leaf_block_global. rewrite Hb. cbn [bind ifE agree]. intros _ ps. discriminate. }
      rewrite (glue_leaf _ _ Hb), (glue_callsub _ _ Hb), (glue_retsub _ _ Hb), (glue_next _ _ Hb).
      cbn [ifE].
      destruct (leaf_global f b) eqn:Hleaf.
      { destruct (report (path ++ [bb])); cbn [agree]; eexists; split; try reflexivity.
        rewrite app_nil_r. reflexivity. }
      unfold list_but_last. fold (visit ex bb).
      destruct (f_is_callsub f b) eqn:Hc.
      + (* callsub block *)
        destruct (callsub_inv _ Hc) as [l Hop]. rewrite Hop, (glue_called _ _ _ Hb Hop).
        rewrite (callsub_not_retsub _ Hc). cbn [ifE].
        destruct (f_find_sub f l) as [s|] eqn:Hs.
        * cbn [bind]. rewrite in_subs_on_stack.
          destruct (existsb (fun '(_, s0) => s0 =? l) st) eqn:Hst.
          { cbn [agree]. exists []. rewrite app_nil_r. split; reflexivity. }
          unfold next_global. rewrite (callsub_not_retsub _ Hc), Hop, Hs. cbn [option_map bind ret fold_left].
          specialize (IH (s_entry s) (path ++ [bb]) acc (st ++ [(Some bb, l)]) (visit ex bb ++ [[]])).
          destruct (gen fu (s_entry s) (path ++ [bb]) acc (st ++ [(Some bb, l)]) (visit ex bb ++ [[]])) as [r|] eqn:Eg;
            cbn [agree bind ret] in *.
          -- exact IH.
          -- intros Hinv. apply IH. eapply sinv_call; eassumption.
        * cbn [bind agree]. intros Hinv ps.
          destruct (existsb (fun '(_, s0) => s0 =? l) st) eqn:Hst; [|discriminate].
          exfalso. apply on_stack_true in Hst. apply in_map_iff in Hst. destruct Hst as [fr [Hfr Hin]].
          pose proof (si_frames _ _ Hinv) as HF. rewrite Forall_forall in HF.
          destruct (HF fr Hin) as [_ Hcd]. rewrite Hfr in Hcd. exact (Hcd bb b Hb Hop Hs).
      + cbn [ifE].
        destruct (f_is_retsub f b) eqn:Hr.
        * (* retsub block *)
          rewrite (retsub_inv _ Hr). cbn [ifE].
          destruct (list_last st) as [fr|] eqn:Hlst.
          2:{ cbn [bind agree]. intros _ ps. apply list_last_none in Hlst. subst st. simpl. discriminate. }
          destruct (list_last_some _ _ Hlst (None, "")) as [Hstne Hlastst]. unfold frame in *. rewrite Hlastst.
          cbn [bind]. destruct fr as [[cs|] nm]; cbn [fst assert_is_not_none bind].
          2:{ cbn [agree]. intros _ ps. discriminate. }
          destruct (fblock f cs) as [cb|] eqn:Hcb.
          2:{ rewrite (glue_rp_none _ Hcb). cbn [bind agree]. intros _ ps. discriminate. }
          rewrite (glue_rp _ _ Hcb).
          destruct (f_is_callsub f cb) eqn:Hcc.
          2:{ cbn [bind agree]. intros Hinv ps. exfalso.
              pose proof (si_frames _ _ Hinv) as HF. rewrite Forall_forall in HF.
              assert (Hin : In (Some cs, nm) st).
              { rewrite <- Hlastst. destruct (exists_last Hstne) as (l' & a' & ->). rewrite last_last. apply in_or_app. right. now left. }
              destruct (HF _ Hin) as [Hcs _]. destruct (Hcs cs eq_refl) as (cb' & Hcb' & Hcc').
              rewrite Hcb in Hcb'. inversion Hcb'; subst cb'. congruence. }
          cbn [bind].
          destruct (sub_return_point cb) as [rp|] eqn:Hrp.
          -- specialize (IH rp (path ++ [bb]) acc (removelast st) (removelast (visit ex bb))).
             destruct (gen fu rp (path ++ [bb]) acc (removelast st) (removelast (visit ex bb))) as [r|] eqn:Eg;
               cbn [agree bind ret] in *.
             ++ exact IH.
             ++ intros Hinv. apply IH. eapply sinv_ret; eassumption.
          -- cbn [agree]. exists []. rewrite app_nil_r. split; reflexivity.
        * (* ordinary block *)
          rewrite exit_match_other by assumption. cbn [ifE].
          destruct (next_global f b) as [nx|] eqn:Hnx.
          2:{ cbn [bind agree]. intros _ ps. discriminate. }
          cbn [bind].
          pose proof (fold_agree (fun nb s => gen fu nb (path ++ [bb]) s st (visit ex bb))
                        (fun nb => search fu nb (path ++ [bb]) st (visit ex bb)) (sinv st (visit ex bb))
                        (fun nb a => IH nb (path ++ [bb]) a st (visit ex bb)) nx acc []) as HF.
          rewrite app_nil_r in HF.
          match type of HF with agree ?o _ _ _ => destruct o as [r|] eqn:Eo end; cbn [agree bind ret] in *.
          -- exact HF.
          -- intros Hinv. apply HF. apply sinv_edge. exact Hinv.
  Qed.

  (* ---------------------------------------------------------------- A. refinement, no hypothesis *)
  Theorem search_paths_gen_refines fuel bb path acc st ex r :
    gen fuel bb path acc st ex = Some r ->
    exists ps, search fuel bb path st ex = Done ps /\ r = acc ++ ps.
  Proof. intros H. pose proof (gen_agree fuel bb path acc st ex) as A. rewrite H in A. exact A. Qed.

  (* an exception / an exhausted budget of the model is one of the generated function *)
  Corollary search_paths_gen_exn fuel bb path acc st ex :
    (forall ps, search fuel bb path st ex <> Done ps) -> gen fuel bb path acc st ex = None.
  Proof.
    intros H. destruct (gen fuel bb path acc st ex) as [r|] eqn:E; [|reflexivity].
    destruct (search_paths_gen_refines _ _ _ _ _ _ _ E) as [ps [Hps _]]. exfalso. exact (H ps Hps).
  Qed.

  (* ---------------------------------------------------------------- B. equality under the invariant *)
  Theorem search_paths_gen_complete fuel bb path acc st ex ps :
    sinv st ex -> search fuel bb path st ex = Done ps -> gen fuel bb path acc st ex = Some (acc ++ ps).
  Proof.
    intros Hinv H. pose proof (gen_agree fuel bb path acc st ex) as A.
    destruct (gen fuel bb path acc st ex) as [r|]; cbn [agree] in A.
    - destruct A as [ps' [H' ->]]. rewrite H in H'. inversion H'; subst. reflexivity.
    - exfalso. exact (A Hinv ps H).
  Qed.

  Theorem search_paths_gen_eq fuel bb path acc st ex :
    sinv st ex -> gen fuel bb path acc st ex = lift acc (search fuel bb path st ex).
  Proof.
    intros Hinv. destruct (search fuel bb path st ex) as [ps|e|] eqn:E; cbn [lift].
    - apply search_paths_gen_complete; assumption.
    - apply search_paths_gen_exn. rewrite E. discriminate.
    - apply search_paths_gen_exn. rewrite E. discriminate.
  Qed.

  (* ---------------------------------------------------------------- C. the detector entry point *)
  Notation detect_gen := (detect_missing_tx_field_validations_gen f validated report).

  Lemma detect_gen_unfold fuel :
    detect_gen fuel = bind (gen fuel (fn_entry f) [] [] [(None, "")] [[]]) (fun p => ret p).
  Proof. reflexivity. Qed.

  Lemma sinv_init : callee_defined "" -> sinv [(None, "")] [[]].
  Proof.
    intros Hcd. constructor.
    - simpl. lia.
    - exists "", []. reflexivity.
    - constructor; [|constructor]. split; [intros cs Hcs; discriminate | exact Hcd].
  Qed.

  Theorem detect_gen_refines fuel ps :
    detect_gen fuel = Some ps -> detect_paths f validated report fuel = Done ps.
  Proof.
    rewrite detect_gen_unfold. unfold detect_paths.
    destruct (gen fuel (fn_entry f) [] [] [(None, "")] [[]]) as [r|] eqn:E; cbn [bind ret]; [|discriminate].
    intros H. inversion H; subst r. destruct (search_paths_gen_refines _ _ _ _ _ _ _ E) as [ps' [H' ->]]. exact H'.
  Qed.

  Theorem detect_gen_eq fuel :
    callee_defined "" -> detect_gen fuel = lift [] (detect_paths f validated report fuel).
  Proof.
    intros Hcd. rewrite detect_gen_unfold. unfold detect_paths.
    rewrite (search_paths_gen_eq fuel (fn_entry f) [] [] _ _ (sinv_init Hcd)).
    destruct (search fuel (fn_entry f) [] [(None, "")] [[]]); reflexivity.
  Qed.

  (* the definedness check of TotalSolver gives the hypothesis *)
  Lemma defined_callee nm : defined_okb f = true -> callee_defined nm.
  Proof.
    intros Hdef n b Hb Hop. destruct (def_next f Hdef b (fblock_In f n b Hb)) as [nx [Hnx _]].
    unfold next_global in Hnx. unfold f_is_retsub in Hnx. rewrite Hop in Hnx.
    destruct (f_find_sub f nm); [discriminate | discriminate].
  Qed.

  Corollary detect_gen_eq_defined fuel :
    defined_okb f = true -> detect_gen fuel = lift [] (detect_paths f validated report fuel).
  Proof. intros Hdef. apply detect_gen_eq. apply defined_callee. exact Hdef. Qed.

  (* ---------------------------------------------------------------- E. transported theorems *)
  (* SearchLemmas.search_sound: every path ADDED to the state is a good path from the current configuration *)
  Theorem search_paths_gen_sound fuel bb path acc st ex r :
    gen fuel bb path acc st ex = Some r ->
    exists ps, r = acc ++ ps /\
      forall p, In p ps ->
      exists suffix, p = path ++ suffix /\ GoodPathFrom f validated (st, ex) bb suffix /\ report p = true.
  Proof.
    intros H. destruct (search_paths_gen_refines _ _ _ _ _ _ _ H) as [ps [Hs ->]].
    exists ps. split; [reflexivity|]. exact (search_sound f validated report _ _ _ _ _ _ Hs).
  Qed.

  (* SearchLemmas.detect_paths_sound *)
  Theorem detect_gen_sound fuel ps :
    detect_gen fuel = Some ps -> forall p, In p ps -> GoodPath f validated p /\ report p = true.
  Proof. intros H. exact (detect_paths_sound f validated report fuel ps (detect_gen_refines _ _ H)). Qed.

  (* SearchLemmas.detect_paths_complete *)
  Theorem detect_gen_complete fuel ps p :
    GoodPath f validated p -> report p = true -> detect_gen fuel = Some ps -> In p ps.
  Proof.
    intros HG Hrep H. exact (detect_paths_complete f validated report fuel ps p HG Hrep (detect_gen_refines _ _ H)).
  Qed.

  (* SearchLemmas.search_nodup *)
  Theorem detect_gen_nodup fuel ps :
    (forall n b, fblock f n = Some b -> NoDup (b_next b)) -> detect_gen fuel = Some ps -> NoDup ps.
  Proof.
    intros Hnd H. exact (detect_paths_nodup f validated report Hnd fuel ps (detect_gen_refines _ _ H)).
  Qed.

  (* TotalSearch.detect_paths_terminates / detect_paths_fuel_mono *)
  Theorem detect_gen_total fuel :
    defined_okb f = true -> search_okb f = true -> search_bound f <= fuel ->
    exists ps, detect_gen fuel = Some ps /\ detect_paths f validated report fuel = Done ps.
  Proof.
    intros Hdef Hsok Hfuel.
    destruct (detect_paths_terminates f validated report Hdef Hsok fuel Hfuel) as [ps Hps].
    exists ps. split; [|exact Hps]. rewrite (detect_gen_eq_defined fuel Hdef), Hps. reflexivity.
  Qed.

  Theorem detect_gen_fuel_mono fuel fuel' ps :
    callee_defined "" -> detect_gen fuel = Some ps -> fuel <= fuel' -> detect_gen fuel' = Some ps.
  Proof.
    intros Hcd H Hle. apply detect_gen_refines in H.
    rewrite (detect_gen_eq fuel' Hcd), (SearchLemmas.detect_paths_fuel_mono f validated report fuel ps H fuel' Hle).
    reflexivity.
  Qed.
End Gen.

Print Assumptions search_paths_gen_refines.
Print Assumptions search_paths_gen_eq.
Print Assumptions detect_gen_eq.
Print Assumptions detect_gen_eq_defined.
Print Assumptions search_paths_gen_sound.
Print Assumptions detect_gen_sound.
Print Assumptions detect_gen_complete.
Print Assumptions detect_gen_nodup.
Print Assumptions detect_gen_total.
Print Assumptions detect_gen_fuel_mono.

(* ====================================================================== *)
(* 2. Outside the invariant the two readings differ                         *)
(* ====================================================================== *)
Definition yes (_ : nat) : bool := true.
Definition no (_ : nat) : bool := false.
Definition all_paths (_ : list nat) : bool := true.

(* (a) current_subroutine_executed = []: `current_subroutine_executed[-1]` is an IndexError, the model reads the
   missing list as "nothing executed in this activation" and goes on (here: to the validated cut). *)
Definition f_empty : func := mkFunc [] [] 0 [] [] [] None.
Theorem search_gen_refuted_executed :
  search f_empty yes all_paths 1 0 [] [(None, "")] [] = Done [] /\
  search_paths_gen f_empty yes all_paths 1 0 [] [] [(None, "")] [] = None.
Proof. split; vm_compute; reflexivity. Qed.

(* (b) a frame whose block is NOT a callsub block: BasicBlock.sub_return_point raises TealerException, the model
   reads the first successor of that block.  Block 0 = [retsub], block 1 = [int 1] -> 2, block 2 = [int 1] (leaf). *)
Definition f_frame : func :=
  mkFunc [mkIns 1 IRetsub; mkIns 2 (IInt (IANum 1)); mkIns 3 (IInt (IANum 1))]
         [mkBlock 0 [0] [] []; mkBlock 1 [1] [2] []; mkBlock 2 [2] [] [1]] 0 [0; 1; 2] [] [] None.
Theorem search_gen_refuted_frame :
  search f_frame no all_paths 3 0 [] [(None, ""); (Some 1, "s")] [[]; []] = Done [[0; 2]] /\
  search_paths_gen f_frame no all_paths 3 0 [] [] [(None, ""); (Some 1, "s")] [[]; []] = None.
Proof. split; vm_compute; reflexivity. Qed.

(* (c) a callsub of an UNDEFINED subroutine whose name is on the stack: `bb.called_subroutine` raises before the
   recursion check; the model tests the recursion first (Done []).  The name of main is "" in the model, so the
   initial configuration is enough: block 0 = [callsub ""], no subroutine.  tealer's parser rejects a callsub without
   label (and a callsub of an undefined label: KeyError), such an f does not come from a parsed program. *)
Definition f_undef : func := mkFunc [mkIns 1 (ICallsub "")] [mkBlock 0 [0] [] []] 0 [0] [] [] None.
Theorem detect_gen_refuted_undefined_callee :
  detect_paths f_undef no all_paths 2 = Done [] /\
  detect_missing_tx_field_validations_gen f_undef no all_paths 2 = None /\
  ~ callee_defined f_undef "".
Proof.
  split; [vm_compute; reflexivity|]. split; [vm_compute; reflexivity|].
  intros H. apply (H 0 (mkBlock 0 [0] [] [])); reflexivity.
Qed.
Print Assumptions search_gen_refuted_executed.
Print Assumptions search_gen_refuted_frame.
Print Assumptions detect_gen_refuted_undefined_callee.

(* ====================================================================== *)
(* 3. validated_in_block                                                    *)
(* ====================================================================== *)
Section Validated.
  Variable r : fn_result.
  Variable checks : bctx -> bool.

  Definition index_in_range (i : Z) : Prop := (0 <= i < Z.of_N MAX_GROUP_SIZE)%Z.

  Lemma gtxn_context_in_range b i :
    index_in_range i -> gtxn_context r b i = Some (ctx_of r b (KAtIndex (Z.to_N i))).
  Proof.
    intros [H0 H1]. unfold gtxn_context. cbv zeta.
    destruct (Z.leb_spec (Z.of_N MAX_GROUP_SIZE) i) as [H|H]; [lia|].
    destruct (Z.leb_spec 0 i) as [H'|H']; [reflexivity | lia].
  Qed.

  (* the loop `for i in ..group_indices: if not checks_field(..gtxn_context(i)): return False` *)
  Lemma validated_loop b l :
    Forall index_in_range l ->
    forall st,
    fold_left (fun acc i => bind acc (fun st =>
                 match st with
                 | Some _ => ret st
                 | None => ifE (notE (bind (gtxn_context r b i) (fun tmp3 => ret (checks tmp3))))
                               (ret (Some false)) (ret (@None bool))
                 end)) l (ret st) =
    Some (match st with
          | Some v => Some v
          | None => if forallb (fun i => checks (ctx_of r b (KAtIndex (Z.to_N i)))) l then None else Some false
          end).
  Proof.
    induction 1 as [|i l Hi Hl IH]; intros st.
    - destruct st; reflexivity.
    - cbn [fold_left bind ret]. destruct st as [v|].
      + exact (IH (Some v)).
      + rewrite (gtxn_context_in_range b i Hi). cbn [bind ret notE option_map ifE forallb].
        destruct (checks (ctx_of r b (KAtIndex (Z.to_N i)))); cbn [negb andb].
        * exact (IH None).
        * exact (IH (Some false)).
  Qed.

  Theorem validated_in_block_gen_eq b (ai : option N) :
    (forall i, ai = Some i -> (i < MAX_GROUP_SIZE)%N) ->
    Forall index_in_range (ctx_group_indices (ctx_of r b KSelf)) ->
    validated_in_block_gen r checks b (option_map Z.of_N ai) = Some (validated_in_block r checks ai b).
  Proof.
    intros Hai Hidx. unfold validated_in_block_gen, validated_in_block, transaction_context, attr_group_indices.
    destruct (checks (ctx_of r b KSelf)); [reflexivity|].
    destruct ai as [i|]; cbn [option_map].
    - rewrite gtxn_context_in_range by (specialize (Hai i eq_refl); unfold index_in_range; lia).
      rewrite N2Z.id. cbn [bind ret ifE]. destruct (checks (ctx_of r b (KAtIndex i))); reflexivity.
    - rewrite (validated_loop b _ Hidx None). cbn [bind].
      destruct (forallb _ _); reflexivity.
  Qed.
End Validated.
Print Assumptions validated_in_block_gen_eq.

(* the glue entry `validated_in_block(bb, function, checks_field) |-> ret (validated bb)` of search_paths_gen,
   instantiated with the model's validated_in_block, IS the generated validated_in_block (indices in range) *)
Corollary validated_glue_ok r checks bb :
  Forall index_in_range (ctx_group_indices (ctx_of r bb KSelf)) ->
  validated_in_block_gen r checks bb None = call_validated_in_block (validated_in_block r checks None) bb.
Proof.
  intros H. exact (validated_in_block_gen_eq r checks bb None ltac:(discriminate) H).
Qed.

(* the detector of Model/Detect.v is the generated search run with that cut *)
Theorem run_detector_gen_eq f r fuel name checks :
  defined_okb f = true ->
  detect_missing_tx_field_validations_gen f (validated_in_block r checks None)
    (if name =? "group-size-check" then (fun path => existsb (accessed_using_absolute_index f) path) else (fun _ => true)) fuel
  = lift [] (run_detector f r fuel name checks).
Proof. intros Hdef. unfold run_detector. apply detect_gen_eq_defined. exact Hdef. Qed.
Print Assumptions validated_glue_ok.
Print Assumptions run_detector_gen_eq.

(* an absolute index >= MAX_GROUP_SIZE: BlockTransactionContext.gtxn_context raises TealerException, the model
   reads a (default) context *)
Definition r_empty : fn_result := mkRes [] [] [] [] [].
Theorem validated_gen_refuted :
  validated_in_block r_empty (fun _ => false) (Some 16%N) 0 = false /\
  validated_in_block_gen r_empty (fun _ => false) 0 (option_map Z.of_N (Some 16%N)) = None.
Proof. split; vm_compute; reflexivity. Qed.
Print Assumptions validated_gen_refuted.
