(* C12, semantic half: the function cut out by a dispatch path has exactly the executions of the contract that
   follow the path.

   A. cinv              every block of the cut graph is an original main block (same instructions, successors
                        position-wise equal or replaced by a fresh id) or an err block
   B. cf_*              the components of construct_function's result, block lookup in the result
   C. follows           the runs that follow the path (every departure from a path block before the last one,
                        by an edge or by the return of a call made there, goes to the next path block)
   D. completeness      Run / AcceptingRun / Exec / Accepts of the contract + follows  ->  the same of the cut function
   E. soundness         Exec / Accepts of the cut function  ->  the same of the contract + follows; err blocks
                        cannot execute and cannot continue
   F. prefix forms      the statements in terms of "the first |path| blocks are the path", with the shapes that
                        refute the naive forms
   G. subroutines       shared records, fn_subs f' is a subset of fn_subs W *)
From Coq Require Import String List NArith ZArith Bool Arith Lia.
From Tealer Require Import Tables LeafPrelude Leaves Syntax Parse Cfg StackAst Keys Analysis Domains Detect Group.
From Tealer Require Import CfgLemmas SolverLemmas SubLemmas GraphWf GroupLemmas.
From Tealer Require Import LeafLemmas AssertedLemmas StackLemmas Instances Eval SingleLemmas Runs RunLemmas Exec ExecLemmas GraphOk.
Import ListNotations.
Close Scope string_scope.
Open Scope nat_scope.
Open Scope list_scope.

(* ================================================================== A. the cut graph, block by block *)
Definition ERRI : ins := mkIns 0 ICustomErr.

(* appended err instructions define no label *)
Lemma find_label_from_app l : forall p1 p2 k acc,
  find_label_from l (p1 ++ p2) k acc = find_label_from l p2 (k + length p1) (find_label_from l p1 k acc).
Proof.
  induction p1 as [|i p1 IH]; intros p2 k acc; simpl.
  - rewrite Nat.add_0_r. reflexivity.
  - rewrite IH. f_equal. lia.
Qed.

Lemma find_label_from_errs l : forall m k acc, find_label_from l (repeat ERRI m) k acc = acc.
Proof. induction m as [|m IH]; intros k acc; simpl; [reflexivity | apply IH]. Qed.

Lemma find_label_errs p m l : find_label (p ++ repeat ERRI m) l = find_label p l.
Proof. unfold find_label. rewrite find_label_from_app, find_label_from_errs. reflexivity. Qed.

Lemma branch_to_next_errs p m br k : branch_to_next (p ++ repeat ERRI m) br k = branch_to_next p br k.
Proof. unfold branch_to_next. destruct br; try reflexivity; rewrite find_label_errs; reflexivity. Qed.

Lemma cut_next_length' : forall l v e, length (cut_next l v e) = length l.
Proof. exact cut_next_length. Qed.

Lemma err_origins_ids bi : forall cl e, map fst (err_origins bi e cl) = seq e (length cl).
Proof. induction cl as [|a cl IH]; intros e; simpl; [reflexivity|]. rewrite IH. reflexivity. Qed.

Lemma repeat_app' {A} (x : A) n m : repeat x n ++ repeat x m = repeat x (n + m).
Proof. induction n as [|n IH]; simpl; [reflexivity|]. rewrite IH. reflexivity. Qed.

Section CutInv.
  Variables (t : teal) (N0 : nat).
  Let mainl := s_blocks (t_main t).

  (* successor after / before the cuts *)
  Definition nrel (y' y : nat) : Prop := y' = y \/ N0 <= y'.

  Definition old_blk (b : block) : Prop :=
    b_idx b < N0 /\
    exists b0, tblock t (b_idx b) = Some b0 /\ b_ins b = b_ins b0 /\ Forall2 nrel (b_next b) (b_next b0).
  Definition err_blk (pr : prog) (b : block) : Prop :=
    N0 <= b_idx b /\
    exists pos, b_ins b = [pos] /\ b_next b = [] /\ op_at pr pos = Some ICustomErr /\ length (t_prog t) <= pos.

  Record cinv (st : fstate) : Prop := {
    ci_wf : fs_wf st;
    ci_N0 : N0 <= fs_next_id st;
    ci_prog : exists m, fs_prog st = t_prog t ++ repeat ERRI m;
    ci_blk : forall b, In b (fs_blocks st) -> old_blk b \/ err_blk (fs_prog st) b;
    ci_ids : map b_idx (fs_blocks st) = mainl ++ map fst (fs_errs st);
    ci_errs : forall e, In e (map fst (fs_errs st)) -> N0 <= e }.

  Lemma cut_next_rel : forall l l0 v e, N0 <= e -> Forall2 nrel l l0 -> Forall2 nrel (cut_next l v e) l0.
  Proof.
    intros l l0 v e He H. revert e He. induction H as [|a a0 l l0 Ha Hl IH]; intros e He; simpl; [constructor|].
    destruct (Nat.eqb a v).
    - constructor; [assumption | apply IH; assumption].
    - constructor; [right; assumption | apply IH; lia].
  Qed.

  Lemma cinv_cut_block st bi v : cinv st -> cinv (cut_block st bi v).
  Proof.
    intros [Hwf HN (m0 & Hprog) Hblk Hids Herrs].
    destruct (get_blk (fs_blocks st) bi) as [b|] eqn:Hget;
      [|rewrite cut_block_absent by assumption; constructor; eauto].
    pose proof (cut_block_blocks st bi v b Hwf Hget) as Eb.
    pose proof (cut_block_prog st bi v b Hwf Hget) as Ep.
    pose proof (cut_block_next_id st bi v b Hwf Hget) as En.
    pose proof (cut_block_errs st bi v b Hwf Hget) as Ee.
    pose proof (cut_block_ids st bi v b Hwf Hget) as Ei.
    set (cl := cut_list (b_next b) v) in *. set (m := length cl) in *.
    constructor.
    - apply (cut_block_wf st bi v b Hwf Hget).
    - rewrite En. lia.
    - exists (m0 + m). rewrite Ep, Hprog, <- app_assoc, repeat_app'. reflexivity.
    - intros x Hx. rewrite Eb in Hx. rewrite Ep. apply in_app_iff in Hx. destruct Hx as [Hx|Hx].
      + apply in_map_iff in Hx. destruct Hx as (xb & <- & Hxb).
        assert (Hsame : Nat.eqb (b_idx xb) bi = true -> xb = b).
        { intros E. apply Nat.eqb_eq in E. pose proof (get_blk_unique _ xb (fw_nodup _ Hwf) Hxb) as Hu.
          rewrite E, Hget in Hu. inversion Hu. reflexivity. }
        destruct (Hblk xb Hxb) as [(Hlt & b0 & Hb0 & Hins & Hnx)|(Hge & pos & Hins & Hnx & Hop & Hpos)].
        * left. split; [exact Hlt|]. exists b0. cbn [cut_upd b_idx b_ins b_next]. split; [exact Hb0|]. split; [exact Hins|].
          destruct (Nat.eqb (b_idx xb) bi) eqn:E; [|exact Hnx].
          rewrite (Hsame eq_refl) in Hnx. apply cut_next_rel; assumption.
        * right. split; [exact Hge|]. exists pos. cbn [cut_upd b_idx b_ins b_next]. split; [exact Hins|].
          split.
          { destruct (Nat.eqb (b_idx xb) bi) eqn:E; [|exact Hnx].
            rewrite (Hsame eq_refl) in Hnx. rewrite Hnx. reflexivity. }
          split; [|exact Hpos]. rewrite op_at_app_l; [exact Hop | eapply op_at_some_lt; eauto].
      + apply err_blocks_In in Hx. destruct Hx as (k & Hk & ->). right. cbn [b_idx b_ins b_next].
        split; [simpl; lia|]. exists (length (fs_prog st) + k). split; [reflexivity|]. split; [reflexivity|].
        split; [apply (op_at_repeat (fs_prog st) ERRI); exact Hk|].
        rewrite Hprog, app_length. lia.
    - rewrite Ei, Ee, Hids, map_app, err_origins_ids, <- app_assoc. reflexivity.
    - rewrite Ee, map_app, err_origins_ids. intros e He. apply in_app_iff in He.
      destruct He as [He|He]; [apply Herrs; assumption | apply in_seq in He; lia].
  Qed.

  Lemma cinv_cut_path : forall path st, cinv st -> cinv (cut_path st path).
  Proof.
    induction path as [|a path IH]; intros st H; [exact H|].
    destruct path as [|b rest]; [exact H|]. rewrite cut_path_cons2. apply IH. apply cinv_cut_block. exact H.
  Qed.
End CutInv.

(* ---------------------------------------------------------------- where the err blocks hang *)
Lemma cut_next_has_new' : forall l v e k, k < length (cut_list l v) -> In (e + k) (cut_next l v e).
Proof.
  induction l as [|a l IH]; intros v e k Hk; [simpl in Hk; lia|]. unfold cut_list in *. simpl in *.
  destruct (Nat.eqb a v); simpl in *.
  - right. apply IH. exact Hk.
  - destruct k as [|k]; [left; lia|]. right. replace (e + S k) with (S e + k) by lia. apply IH. lia.
Qed.

Lemma err_origins_In bi : forall cl e0 e nx a,
  In (e, (nx, a)) (err_origins bi e0 cl) -> a = bi /\ exists k, k < length cl /\ e = e0 + k.
Proof.
  induction cl as [|c cl IH]; intros e0 e nx a H; [destruct H|]. simpl in H. destruct H as [H|H].
  - inversion H; subst. split; [reflexivity|]. exists 0. simpl. split; lia.
  - destruct (IH (S e0) e nx a H) as (-> & k & Hk & ->). split; [reflexivity|]. exists (S k). simpl. split; lia.
Qed.

(* every recorded err block (e, (_, a)) is a successor of the already cut block a *)
Definition einv (st : fstate) (done : list nat) : Prop :=
  forall e nx a, In (e, (nx, a)) (fs_errs st) ->
    In a done /\ exists ab, get_blk (fs_blocks st) a = Some ab /\ In e (b_next ab).

Lemma einv_cut_block st bi v done :
  fs_wf st -> ~ In bi done -> einv st done -> einv (cut_block st bi v) (done ++ [bi]).
Proof.
  intros Hwf Hbi Hinv e nx a Hin.
  destruct (get_blk (fs_blocks st) bi) as [b|] eqn:Hget.
  - rewrite (cut_block_errs st bi v b Hwf Hget) in Hin. apply in_app_iff in Hin. destruct Hin as [Hin|Hin].
    + destruct (Hinv e nx a Hin) as (Ha & ab & Hab & He). split; [apply in_or_app; left; exact Ha|].
      assert (Hne : a <> bi) by (intros ->; contradiction).
      destruct (cut_block_frame_next st bi v a ab Hwf Hne Hab) as (ab' & Hab' & _ & Hn). exists ab'. rewrite Hn. auto.
    + destruct (err_origins_In bi _ _ e nx a Hin) as (-> & k & Hk & ->).
      split; [apply in_or_app; right; left; reflexivity|].
      destruct (cut_block_bi st bi v b Hwf Hget) as (b' & Hb' & _ & _ & Hn). exists b'. split; [exact Hb'|].
      rewrite Hn. apply cut_next_has_new'. exact Hk.
  - rewrite cut_block_absent in * by assumption. destruct (Hinv e nx a Hin) as (Ha & H).
    split; [apply in_or_app; left; exact Ha | exact H].
Qed.

Lemma einv_cut_path : forall path st done,
  fs_wf st -> NoDup path -> (forall x, In x path -> ~ In x done) -> einv st done ->
  einv (cut_path st path) (done ++ removelast path).
Proof.
  induction path as [|a path IH]; intros st done Hwf Hnd Hd Hinv; [simpl; rewrite app_nil_r; exact Hinv|].
  destruct path as [|b rest]; [simpl; rewrite app_nil_r; exact Hinv|].
  rewrite cut_path_cons2. change (removelast (a :: b :: rest)) with (a :: removelast (b :: rest)).
  apply NoDup_cons_iff in Hnd. destruct Hnd as [Ha Hnd].
  replace (done ++ a :: removelast (b :: rest)) with ((done ++ [a]) ++ removelast (b :: rest)) by (rewrite <- app_assoc; reflexivity).
  apply IH.
  - apply cut_block_wf_any. exact Hwf.
  - exact Hnd.
  - intros x Hx Hin. apply in_app_iff in Hin. destruct Hin as [Hin|[<-|[]]].
    + apply (Hd x); [right; exact Hx | exact Hin].
    + contradiction.
  - apply einv_cut_block; [exact Hwf | apply Hd; left; reflexivity | exact Hinv].
Qed.

(* ================================================================== B. the result of construct_function *)
Definition cf_st (t : teal) (path : list nat) : fstate := cut_path (fn_state0 t) path.
Definition cf_main_ids (t : teal) (path : list nat) : list nat :=
  let bl := fs_blocks (cf_st t path) in dfs_list (S (length bl)) bl [0] [].
Definition prune_by (ids : list nat) (b : block) : block :=
  mkBlock (b_idx b) (b_ins b) (b_next b) (filter (fun q => nat_mem q ids) (b_prev b)).
Definition cf_main_blocks (t : teal) (path : list nat) : list block :=
  flat_map (fun n => match get_blk (fs_blocks (cf_st t path)) n with
                     | Some b => [prune_by (cf_main_ids t path) b] | None => [] end) (cf_main_ids t path).
Definition exit_callee (pr : prog) (b : block) : list string :=
  match b_ins b with
  | [] => []
  | l => match op_at pr (List.last l 0) with Some (ICallsub n) => [n] | _ => [] end
  end.
Definition cf_called (t : teal) (path : list nat) : list string :=
  dedup_s (flat_map (exit_callee (fs_prog (cf_st t path))) (cf_main_blocks t path)).
Definition cf_used (t : teal) (path : list nat) : list string :=
  used_subs (S (length (t_subs t))) t (cf_called t path) (cf_called t path).
Definition cf_subs (t : teal) (path : list nat) : list subroutine :=
  flat_map (fun n => match find_sub t n with Some s => [s] | None => [] end) (cf_used t path).
Definition cf_func (t : teal) (path : list nat) : func :=
  mkFunc (fs_prog (cf_st t path))
         (cf_main_blocks t path ++ lookup_blocks t (flat_map s_blocks (cf_subs t path)))
         0 (cf_main_ids t path) (cf_subs t path) (t_subs t) (t_intcs t).

Lemma construct_function_shape t path f errs :
  construct_function t path = Ok (f, errs) ->
  walk_path t path [0] [] = Ok path /\ (exists rest, path = 0 :: rest) /\
  f = cf_func t path /\ errs = fs_errs (cf_st t path).
Proof.
  intros H. rewrite construct_function_unfold in H.
  destruct (walk_path t path [0] []) as [pb|e] eqn:Ew; [|discriminate].
  pose proof (dispatch_path_spec t path pb Ew) as (-> & _ & _ & Hhd).
  destruct path as [|entry rest]; [discriminate|].
  pose proof (Hhd entry rest eq_refl) as ->.
  split; [reflexivity|]. split; [eauto|]. cbv zeta in H. inversion H. split; reflexivity.
Qed.

Lemma construct_function_of_shape t path :
  walk_path t path [0] [] = Ok path -> (exists rest, path = 0 :: rest) ->
  construct_function t path = Ok (cf_func t path, fs_errs (cf_st t path)).
Proof.
  intros Hw (rest & ->). rewrite construct_function_unfold, Hw. reflexivity.
Qed.

Lemma removelast_In_cons2 {A} (x : A) : forall l, In x (removelast l) -> In x l.
Proof.
  induction l as [|y l IH]; intros H; [destruct H|]. destruct l as [|z l]; [destruct H|].
  change (removelast (y :: z :: l)) with (y :: removelast (z :: l)) in H.
  destruct H as [<-|H]; [left; reflexivity | right; apply IH; assumption].
Qed.

(* a in removelast path  <->  a has a successor on the path *)
Lemma removelast_split {A} (a : A) : forall l, In a (removelast l) -> exists pre b post, l = pre ++ a :: b :: post.
Proof.
  induction l as [|y l IH]; intros H; [destruct H|]. destruct l as [|z l]; [destruct H|].
  change (removelast (y :: z :: l)) with (y :: removelast (z :: l)) in H. destruct H as [<-|H].
  - exists [], z, l. reflexivity.
  - destruct (IH H) as (pre & b & post & E). exists (y :: pre), b, post. rewrite E. reflexivity.
Qed.

Lemma split_removelast {A} (a b : A) : forall pre post, In a (removelast (pre ++ a :: b :: post)).
Proof.
  induction pre as [|y pre IH]; intros post; simpl app.
  - left. reflexivity.
  - destruct (pre ++ a :: b :: post) as [|z l] eqn:E; [destruct pre; discriminate|].
    change (removelast (y :: z :: l)) with (y :: removelast (z :: l)). right. rewrite <- E. apply IH.
Qed.

Section CutFun.
  Variables (p : prog) (t : teal) (path : list nat).
  Hypothesis Hparse : parse_teal p = Ok t.
  Hypothesis Hwalk : walk_path t path [0] [] = Ok path.
  Hypothesis Hhead : exists rest, path = 0 :: rest.

  Let N0 := S (max_idx (t_blocks t)).
  Let mainl := s_blocks (t_main t).
  Let st := cf_st t path.
  Let bl := fs_blocks st.
  Let mids := cf_main_ids t path.
  Let f' := cf_func t path.

  Lemma cf_nodup : NoDup path.
  Proof. apply dispatch_path_spec in Hwalk. tauto. Qed.
  Lemma cf_chain : chain t [0] path.
  Proof. apply dispatch_path_spec in Hwalk. tauto. Qed.

  Lemma cf_path_main x : In x path -> In x mainl.
  Proof. apply (chain_main p t Hparse path [0] cf_chain). intros y [<-|[]]. apply (zero_main p t Hparse). Qed.

  Lemma cf_state0_cinv : cinv t N0 (fn_state0 t).
  Proof.
    constructor.
    - apply (fn_state0_wf p t Hparse).
    - simpl. unfold N0. lia.
    - exists 0. simpl. rewrite app_nil_r. reflexivity.
    - intros b Hb. left. apply (lookup_blocks_In t) in Hb. destruct Hb as [Hn Hb]. split.
      + apply (retained_lt t). apply (main_retained p t Hparse). exact Hn.
      + exists b. split; [exact Hb|]. split; [reflexivity|].
        induction (b_next b) as [|y l IH]; constructor; [left; reflexivity | exact IH].
    - simpl. rewrite app_nil_r. apply (fn_state0_ids p t Hparse).
    - intros e [].
  Qed.

  Lemma cf_cinv : cinv t N0 st.
  Proof. apply cinv_cut_path. exact cf_state0_cinv. Qed.

  Lemma cf_cpinv : cp_inv N0 (fn_state0 t) path.
  Proof. apply (fn_state0_inv p t Hparse). exact cf_path_main. Qed.

  Lemma cf_closed : fs_closed st.
  Proof. apply (cut_path_closed path (fn_state0 t) (fn_state0_wf p t Hparse) (fn_state0_closed p t Hparse)). Qed.

  Lemma cf_ids_main x : In x mainl -> In x (map b_idx bl).
  Proof.
    intros Hx. apply (cut_path_closed path (fn_state0 t) (fn_state0_wf p t Hparse) (fn_state0_closed p t Hparse)).
    rewrite (fn_state0_ids p t Hparse). exact Hx.
  Qed.

  Lemma cf_zero_main : In 0 mainl.
  Proof. apply (zero_main p t Hparse). Qed.

  Lemma cf_dfs x : In x mids <-> LReach bl 0 x.
  Proof.
    apply (dfs_list_reach bl 0 (fw_nodup _ (ci_wf _ _ _ cf_cinv)) (cf_ids_main 0 cf_zero_main) cf_closed).
  Qed.

  Lemma cf_mids_nodup : NoDup mids.
  Proof.
    apply (dfs_list_reach bl 0 (fw_nodup _ (ci_wf _ _ _ cf_cinv)) (cf_ids_main 0 cf_zero_main) cf_closed).
  Qed.

  Lemma cf_zero_mids : In 0 mids.
  Proof. apply cf_dfs. constructor. Qed.

  Lemma cf_mids_ids x : In x mids -> In x (map b_idx bl).
  Proof.
    intros H. apply cf_dfs in H. induction H as [|x y Hx IH Hy]; [apply cf_ids_main; exact cf_zero_main|].
    unfold lnext in Hy. destruct (get_blk bl x) as [xb|] eqn:E; [|destruct Hy].
    destruct (get_blk_some _ _ _ E) as [Hin _]. eapply cf_closed; eauto.
  Qed.

  Lemma cf_get x : In x (map b_idx bl) -> exists xb, get_blk bl x = Some xb.
  Proof.
    intros H. destruct (get_blk bl x) as [xb|] eqn:E; [eauto|]. apply get_blk_none in E. contradiction.
  Qed.

  Lemma cf_mids_succ x xb y : In x mids -> get_blk bl x = Some xb -> In y (b_next xb) -> In y mids.
  Proof.
    intros Hx Hg Hy. apply cf_dfs. econstructor; [apply cf_dfs; exact Hx|]. unfold lnext. rewrite Hg. exact Hy.
  Qed.

  (* ---------------------------------------------------------------- the blocks of the cut graph *)
  Lemma cf_bl_old x xb' :
    get_blk bl x = Some xb' -> x < N0 ->
    In x mainl /\ exists b0, tblock t x = Some b0 /\ b_ins xb' = b_ins b0 /\ Forall2 (nrel N0) (b_next xb') (b_next b0).
  Proof.
    intros Hg Hlt. destruct (get_blk_some _ _ _ Hg) as [Hin Hidx]. split.
    - assert (Hi : In x (map b_idx bl)) by (rewrite <- Hidx; apply in_map; exact Hin).
      unfold bl in Hi. rewrite (ci_ids _ _ _ cf_cinv) in Hi. apply in_app_iff in Hi. destruct Hi as [Hi|Hi]; [exact Hi|].
      apply (ci_errs _ _ _ cf_cinv) in Hi. lia.
    - destruct (ci_blk _ _ _ cf_cinv xb' Hin) as [(_ & b0 & Hb0 & Hins & Hnx)|(Hge & _)]; [|lia].
      rewrite Hidx in Hb0. eauto.
  Qed.

  Lemma cf_bl_err x xb' :
    get_blk bl x = Some xb' -> N0 <= x ->
    exists pos, b_ins xb' = [pos] /\ b_next xb' = [] /\ op_at (fs_prog st) pos = Some ICustomErr /\
                length (t_prog t) <= pos.
  Proof.
    intros Hg Hge. destruct (get_blk_some _ _ _ Hg) as [Hin Hidx].
    destruct (ci_blk _ _ _ cf_cinv xb' Hin) as [(Hlt & _)|(_ & H)]; [lia | exact H].
  Qed.

  Lemma cf_bl_unchanged x b0 :
    In x mainl -> ~ In x (removelast path) -> tblock t x = Some b0 ->
    exists xb', get_blk bl x = Some xb' /\ b_ins xb' = b_ins b0 /\ b_next xb' = b_next b0.
  Proof.
    intros Hx Hn Hb0.
    destruct (cut_path_frame N0 path (fn_state0 t) cf_cpinv cf_nodup) as (_ & _ & _ & _ & Fr).
    apply (Fr x b0 Hn). rewrite (fn_state0_get p t Hparse x Hx). exact Hb0.
  Qed.

  Lemma cf_bl_cut pre a b post ab :
    path = pre ++ a :: b :: post -> tblock t a = Some ab ->
    exists ab' e0, get_blk bl a = Some ab' /\ b_ins ab' = b_ins ab /\
                   b_next ab' = cut_next (b_next ab) b e0 /\ N0 <= e0.
  Proof.
    intros E Hab.
    assert (Ha : In a mainl) by (apply cf_path_main; rewrite E; apply in_or_app; right; left; reflexivity).
    assert (Hg : get_blk (fs_blocks (fn_state0 t)) a = Some ab) by (rewrite (fn_state0_get p t Hparse a Ha); exact Hab).
    destruct (cut_path_spec N0 pre (fn_state0 t) path a b post ab cf_cpinv cf_nodup E Hg) as (ab' & e0 & G & I & Nx & HN & _).
    exists ab', e0. auto.
  Qed.

  Lemma cf_path_succ pre a b post ab : path = pre ++ a :: b :: post -> tblock t a = Some ab -> In b (b_next ab).
  Proof.
    intros E Hab. pose proof (chain_consecutive t path [0] pre a b post cf_chain E) as H.
    unfold tnext in H. rewrite Hab in H. exact H.
  Qed.

  Lemma cf_main_tblock x : In x mainl -> exists b0, tblock t x = Some b0.
  Proof. apply (main_tblock p t Hparse). Qed.

  Lemma cf_path_mids x : In x path -> In x mids.
  Proof.
    intros Hx. apply cf_dfs. destruct Hhead as (rest & Ep). rewrite Ep in Hx.
    apply (path_LReach bl rest 0); [|exact Hx].
    intros l1 u w l2 E. rewrite <- Ep in E.
    assert (Hu : In u mainl) by (apply cf_path_main; rewrite E; apply in_or_app; right; left; reflexivity).
    destruct (cf_main_tblock u Hu) as (ub & Hub).
    destruct (cf_bl_cut l1 u w l2 ub E Hub) as (ub' & e0 & G & _ & Nx & _).
    unfold lnext. rewrite G, Nx. apply cut_next_keeps. eapply cf_path_succ; eauto.
  Qed.

  (* ---------------------------------------------------------------- block lookup in the function *)
  Lemma cf_main_blocks_ids x : In x (map b_idx (cf_main_blocks t path)) -> In x mids.
  Proof.
    intros H. apply in_map_iff in H. destruct H as (b & <- & Hb). unfold cf_main_blocks in Hb.
    apply in_flat_map in Hb. destruct Hb as (n & Hn & Hb). fold st in Hb. fold bl in Hb.
    destruct (get_blk bl n) as [nb|] eqn:E; [|destruct Hb]. destruct Hb as [<-|[]].
    simpl. rewrite (proj2 (get_blk_some _ _ _ E)). exact Hn.
  Qed.

  Lemma cf_fblock_main x xb : In x mids -> get_blk bl x = Some xb -> fblock f' x = Some (prune_by mids xb).
  Proof.
    intros Hx Hg. unfold fblock, f', cf_func. cbn [fn_blocks].
    change (find (fun b0 => Nat.eqb (b_idx b0) x)) with (fun l => get_blk l x). cbv beta.
    rewrite get_blk_app.
    assert (E : get_blk (cf_main_blocks t path) x = Some (prune_by mids xb)).
    { unfold cf_main_blocks. fold st. fold bl. fold mids.
      rewrite (flat_map_ext_in _ (fun n => match option_map (prune_by mids) (get_blk bl n) with Some b0 => [b0] | None => [] end)).
      - apply get_blk_flat; [|exact Hx | rewrite Hg; reflexivity].
        intros n b0 H0. destruct (get_blk bl n) as [b1|] eqn:E1; [|discriminate]. simpl in H0.
        inversion H0; subst b0. simpl. apply (get_blk_some _ _ _ E1).
      - intros n _. destruct (get_blk bl n); reflexivity. }
    rewrite E. reflexivity.
  Qed.

  Lemma cf_fblock_sub x :
    ~ In x mids -> fblock f' x = get_blk (lookup_blocks t (flat_map s_blocks (cf_subs t path))) x.
  Proof.
    intros Hx. unfold fblock, f', cf_func. cbn [fn_blocks].
    change (find (fun b0 => Nat.eqb (b_idx b0) x)) with (fun l => get_blk l x). cbv beta.
    rewrite get_blk_app.
    assert (E : get_blk (cf_main_blocks t path) x = None).
    { apply get_blk_none. intro H. apply Hx. apply cf_main_blocks_ids. exact H. }
    rewrite E. reflexivity.
  Qed.

  Lemma cf_tblock_idx n b : tblock t n = Some b -> b_idx b = n.
  Proof. unfold tblock. intros H. apply find_some in H. apply Nat.eqb_eq. tauto. Qed.

  Lemma cf_fblock_sub_spec x xb :
    ~ In x mids ->
    (fblock f' x = Some xb <-> tblock t x = Some xb /\ exists s, In s (cf_subs t path) /\ In x (s_blocks s)).
  Proof.
    intros Hx. rewrite (cf_fblock_sub x Hx). split.
    - intros H. destruct (get_blk_some _ _ _ H) as [Hin Hidx]. apply (lookup_blocks_In t) in Hin.
      rewrite Hidx in Hin. destruct Hin as [Hi Hb]. split; [exact Hb|]. apply in_flat_map in Hi. exact Hi.
    - intros (Hb & s & Hs & Hxs). unfold lookup_blocks.
      apply (get_blk_flat (tblock t) cf_tblock_idx); [|exact Hb]. apply in_flat_map. eauto.
  Qed.

  (* every block of the function, classified *)
  Lemma cf_fblock_inv x xb' :
    fblock f' x = Some xb' ->
    (In x mids /\ exists xb, get_blk bl x = Some xb /\ xb' = prune_by mids xb) \/
    (~ In x mids /\ tblock t x = Some xb' /\ exists s, In s (cf_subs t path) /\ In x (s_blocks s)).
  Proof.
    intros H. destruct (in_dec Nat.eq_dec x mids) as [Hx|Hx].
    - left. split; [exact Hx|]. destruct (cf_get x (cf_mids_ids x Hx)) as (xb & Hg).
      rewrite (cf_fblock_main x xb Hx Hg) in H. inversion H. eauto.
    - right. split; [exact Hx|]. apply (cf_fblock_sub_spec x xb' Hx). exact H.
  Qed.

  Lemma cf_prog : exists m, fn_prog f' = t_prog t ++ repeat ERRI m.
  Proof. exact (ci_prog _ _ _ cf_cinv). Qed.

  (* ---------------------------------------------------------------- instructions *)
  Lemma cf_tprog : t_prog t = p.
  Proof. destruct (parse_teal_inv p t Hparse) as (bs & subs0 & _ & _ & _ & H & _). exact H. Qed.

  Lemma tblock_ins_lt x b0 k : tblock t x = Some b0 -> In k (b_ins b0) -> k < length (t_prog t).
  Proof.
    intros Hb Hk. rewrite cf_tprog.
    destruct (parse_teal_inv p t Hparse) as (bs & subs0 & Hne & Hbs & _).
    destruct (retained_char p t bs Hparse Hbs) as (_ & _ & _ & Hchar & _).
    destruct (Hchar x b0 Hb) as (b & Hn0 & _ & Hins & _).
    destruct (build_blocks_spec p bs Hbs) as (rbs & nexts & Hc & _ & _ & _ & Hn).
    destruct (Hn x b Hn0) as (rb & nx & Hrb & _ & _ & E).
    assert (Hin : In k (concat (map rb_ins rbs))).
    { apply in_concat. exists (rb_ins rb). split; [apply in_map; eapply nth_error_In; eauto|].
      rewrite Hins, E in Hk. exact Hk. }
    rewrite (blocks_partition p rbs Hc Hne) in Hin. apply in_seq in Hin. lia.
  Qed.

  Lemma last_In_ne {A} (l : list A) d : l <> [] -> In (last l d) l.
  Proof.
    induction l as [|a l IH]; intros H; [contradiction|]. destruct l as [|b l]; [left; reflexivity|].
    right. apply IH. discriminate.
  Qed.

  Lemma cf_op_at_old k : k < length (t_prog t) -> op_at (fn_prog f') k = op_at (t_prog t) k.
  Proof. intros H. destruct cf_prog as (m & ->). apply op_at_app_l. exact H. Qed.

  Lemma cf_op_at_new k : length (t_prog t) <= k -> op_at (fn_prog f') k = Some ICustomErr \/ op_at (fn_prog f') k = None.
  Proof.
    intros H. destruct cf_prog as (m & ->). unfold op_at. rewrite nth_error_app2 by exact H.
    destruct (nth_error (repeat ERRI m) (k - length (t_prog t))) as [i|] eqn:E; [|right; reflexivity].
    left. apply nth_error_In in E. apply repeat_spec in E. subst i. reflexivity.
  Qed.

  (* exit instruction of a block that keeps the instructions of a contract block *)
  Lemma cf_fexit_same blk' x b0 : tblock t x = Some b0 -> b_ins blk' = b_ins b0 -> fexit_op f' blk' = exit_op t b0.
  Proof.
    intros Hb Hins. unfold fexit_op, exit_op. rewrite Hins. destruct (b_ins b0) as [|k l] eqn:E; [reflexivity|].
    apply cf_op_at_old. apply (tblock_ins_lt x b0 _ Hb). rewrite E. apply last_In_ne. discriminate.
  Qed.

  Lemma cf_find_sub name : f_find_sub f' name = find_sub t name.
  Proof. reflexivity. Qed.

  (* err blocks *)
  Definition is_err_block (x : nat) : Prop := max_idx (t_blocks t) < x.

  Lemma cf_err_block x blk :
    fblock f' x = Some blk -> is_err_block x ->
    In x mids /\ exists pos, b_ins blk = [pos] /\ b_next blk = [] /\ op_at (fn_prog f') pos = Some ICustomErr /\
                             fexit_op f' blk = Some ICustomErr.
  Proof.
    intros Hb He. unfold is_err_block in He.
    destruct (cf_fblock_inv x blk Hb) as [(Hx & xb & Hg & ->)|(Hx & Htb & _)].
    - split; [exact Hx|]. destruct (cf_bl_err x xb Hg) as (pos & Hi & Hn & Hop & _); [unfold N0; lia|].
      exists pos. cbn [prune_by b_ins b_next]. split; [exact Hi|]. split; [exact Hn|]. split; [exact Hop|].
      unfold fexit_op. cbn [prune_by b_ins]. rewrite Hi. exact Hop.
    - exfalso. pose proof (cf_tblock_idx x blk Htb) as Hi. apply (tblock_In t) in Htb.
      pose proof (max_idx_ge _ _ Htb) as Hle. lia.
  Qed.

  (* ---------------------------------------------------------------- subroutines of the function *)
  Lemma exit_callee_fexit b l :
    In l (exit_callee (fn_prog f') b) <-> fexit_op f' b = Some (ICallsub l).
  Proof.
    unfold exit_callee, fexit_op. destruct (b_ins b) as [|k r]; [split; [intros [] | discriminate]|].
    destruct (op_at (fn_prog f') (last (k :: r) 0)) as [[]|]; try (split; [intros [] | discriminate]).
    split; [intros [->|[]]; reflexivity | intros H; inversion H; left; reflexivity].
  Qed.

  Lemma cf_main_blocks_In b :
    In b (cf_main_blocks t path) <-> exists n nb, In n mids /\ get_blk bl n = Some nb /\ b = prune_by mids nb.
  Proof.
    unfold cf_main_blocks. fold st. fold bl. fold mids. rewrite in_flat_map. split.
    - intros (n & Hn & Hb). destruct (get_blk bl n) as [nb|] eqn:E; [|destruct Hb]. destruct Hb as [<-|[]]. eauto.
    - intros (n & nb & Hn & Hg & ->). exists n. split; [exact Hn|]. rewrite Hg. left. reflexivity.
  Qed.

  Lemma cf_called_In l :
    In l (cf_called t path) <->
    exists x blk, In x mids /\ fblock f' x = Some blk /\ fexit_op f' blk = Some (ICallsub l).
  Proof.
    unfold cf_called. rewrite dedup_s_In, in_flat_map. split.
    - intros (b & Hb & Hl). apply cf_main_blocks_In in Hb. destruct Hb as (n & nb & Hn & Hg & ->).
      exists n, (prune_by mids nb). split; [exact Hn|]. split; [apply cf_fblock_main; assumption|].
      apply exit_callee_fexit. exact Hl.
    - intros (x & blk & Hx & Hb & Hop). destruct (cf_get x (cf_mids_ids x Hx)) as (xb & Hg).
      rewrite (cf_fblock_main x xb Hx Hg) in Hb. inversion Hb; subst blk.
      exists (prune_by mids xb). split; [apply cf_main_blocks_In; eauto|]. apply exit_callee_fexit. exact Hop.
  Qed.

  (* a main block of the function that is no err block, seen from the contract *)
  Lemma cf_main_block_old x blk :
    In x mids -> fblock f' x = Some blk -> ~ is_err_block x ->
    In x mainl /\ exists b0, tblock t x = Some b0 /\ b_ins blk = b_ins b0 /\ Forall2 (nrel N0) (b_next blk) (b_next b0) /\
                             fexit_op f' blk = exit_op t b0.
  Proof.
    intros Hx Hb Hne. destruct (cf_get x (cf_mids_ids x Hx)) as (xb & Hg).
    rewrite (cf_fblock_main x xb Hx Hg) in Hb. inversion Hb; subst blk.
    destruct (cf_bl_old x xb Hg) as (Hm & b0 & Hb0 & Hi & Hn); [unfold is_err_block in Hne; unfold N0; lia|].
    split; [exact Hm|]. exists b0. cbn [prune_by b_ins b_next]. split; [exact Hb0|]. split; [exact Hi|]. split; [exact Hn|].
    apply (cf_fexit_same _ x b0 Hb0). exact Hi.
  Qed.

  Lemma cf_sub_block x blk :
    ~ In x mids -> fblock f' x = Some blk ->
    tblock t x = Some blk /\ fexit_op f' blk = exit_op t blk /\ exists s, In s (cf_subs t path) /\ In x (s_blocks s).
  Proof.
    intros Hx Hb. apply (cf_fblock_sub_spec x blk Hx) in Hb. destruct Hb as (Htb & Hs).
    split; [exact Htb|]. split; [apply (cf_fexit_same blk x blk Htb eq_refl) | exact Hs].
  Qed.

  Lemma cf_called_names l : In l (cf_called t path) -> In l (map s_name (t_subs t)).
  Proof.
    intros H. apply cf_called_In in H. destruct H as (x & blk & Hx & Hb & Hop).
    assert (Hne : ~ is_err_block x).
    { intro He. destruct (cf_err_block x blk Hb He) as (_ & pos & _ & _ & _ & Hop'). congruence. }
    destruct (cf_main_block_old x blk Hx Hb Hne) as (_ & b0 & Hb0 & _ & _ & Hex). rewrite Hex in Hop.
    destruct (find_sub_called p t Hparse b0 l x Hb0 Hop) as (s & _ & Hin & Hn). rewrite <- Hn. apply in_map. exact Hin.
  Qed.

  Lemma cf_used_spec :
    NoDup (cf_used t path) /\ incl (cf_called t path) (cf_used t path) /\
    (forall u, In u (cf_used t path) -> incl (callees t u) (cf_used t path)).
  Proof.
    unfold cf_used. apply (used_subs_spec t (map s_name (t_subs t)) (callees_names p t Hparse)).
    - apply dedup_s_NoDup.
    - apply incl_refl.
    - intros l Hl. apply cf_called_names. exact Hl.
    - intros u Hu Hn. contradiction.
    - rewrite map_length. lia.
  Qed.

  Lemma cf_subs_In s : In s (cf_subs t path) <-> exists n, In n (cf_used t path) /\ find_sub t n = Some s.
  Proof.
    unfold cf_subs. rewrite in_flat_map. split.
    - intros (n & Hn & Hs). exists n. split; [assumption|].
      destruct (find_sub t n) as [s'|]; [|destruct Hs]. destruct Hs as [->|[]]. reflexivity.
    - intros (n & Hn & Hs). exists n. split; [assumption|]. rewrite Hs. left; reflexivity.
  Qed.

  Lemma cf_subs_sub s : In s (cf_subs t path) -> In s (t_subs t).
  Proof. intros H. apply cf_subs_In in H. destruct H as (n & _ & H). apply find_sub_some in H. tauto. Qed.

  (* calls made by blocks of the function stay inside the function *)
  Lemma cf_call_closure x blk l :
    fblock f' x = Some blk -> fexit_op f' blk = Some (ICallsub l) ->
    exists s, find_sub t l = Some s /\ In s (cf_subs t path) /\ s_name s = l.
  Proof.
    intros Hb Hop. destruct cf_used_spec as (_ & Hd & Hcl).
    destruct (in_dec Nat.eq_dec x mids) as [Hx|Hx].
    - assert (Hne : ~ is_err_block x).
      { intro He. destruct (cf_err_block x blk Hb He) as (_ & pos & _ & _ & _ & Hop'). congruence. }
      destruct (cf_main_block_old x blk Hx Hb Hne) as (_ & b0 & Hb0 & _ & _ & Hex). rewrite Hex in Hop.
      destruct (find_sub_called p t Hparse b0 l x Hb0 Hop) as (s & Hf & _ & Hn).
      exists s. split; [exact Hf|]. split; [|exact Hn]. apply cf_subs_In. exists l. split; [|exact Hf].
      apply Hd. apply cf_called_In. exists x, blk. rewrite Hex. auto.
    - destruct (cf_sub_block x blk Hx Hb) as (Htb & Hex & s0 & Hs0 & Hxs). rewrite Hex in Hop.
      destruct (find_sub_called p t Hparse blk l x Htb Hop) as (s & Hf & _ & Hn).
      exists s. split; [exact Hf|]. split; [|exact Hn]. apply cf_subs_In. exists l. split; [|exact Hf].
      apply cf_subs_In in Hs0. destruct Hs0 as (u & Hu & Hfu). apply (Hcl u Hu).
      unfold callees. rewrite Hfu. apply called_from_In. exists x, blk. auto.
  Qed.

  (* the subroutines of the function are among those of the whole contract's function *)
  Lemma used_subs_incl (S : list string) :
    (forall u, In u S -> incl (callees t u) S) ->
    forall fuel work acc, incl work S -> incl acc S -> incl (used_subs fuel t work acc) S.
  Proof.
    intros HS. induction fuel as [|fu IH]; intros work acc Hw Ha; [exact Ha|].
    destruct work as [|s w]; [exact Ha|]. rewrite used_subs_S.
    assert (Hnew : incl (new_callees t acc s) S).
    { intros x Hx. apply new_callees_In in Hx. apply (HS s); [apply Hw; left; reflexivity | tauto]. }
    apply IH.
    - intros x Hx. apply in_app_iff in Hx. destruct Hx as [Hx|Hx]; [apply Hw; right; exact Hx | apply Hnew; exact Hx].
    - intros x Hx. apply in_app_iff in Hx. destruct Hx as [Hx|Hx]; [apply Ha; exact Hx | apply Hnew; exact Hx].
  Qed.

  Lemma cf_called_direct : incl (cf_called t path) (wf_direct t).
  Proof.
    intros l H. apply cf_called_In in H. destruct H as (x & blk & Hx & Hb & Hop).
    assert (Hne : ~ is_err_block x).
    { intro He. destruct (cf_err_block x blk Hb He) as (_ & pos & _ & _ & _ & Hop'). congruence. }
    destruct (cf_main_block_old x blk Hx Hb Hne) as (Hm & b0 & Hb0 & _ & _ & Hex). rewrite Hex in Hop.
    unfold wf_direct. apply dedup_s_In. apply called_from_In. exists x, b0. auto.
  Qed.

  Lemma cf_used_incl : incl (cf_used t path) (wf_used t).
  Proof.
    destruct (wf_used_spec p t Hparse) as (_ & Hd & Hcl). unfold cf_used.
    apply (used_subs_incl (wf_used t) Hcl); intros l Hl; apply Hd; apply cf_called_direct; exact Hl.
  Qed.

  Lemma cf_subs_incl s : In s (cf_subs t path) -> In s (wf_subs t).
  Proof.
    intros H. apply cf_subs_In in H. destruct H as (n & Hn & Hf). apply wf_subs_In. exists n.
    split; [apply cf_used_incl; exact Hn | exact Hf].
  Qed.

  (* ================================================================== C. runs that follow the path *)
  (* b is the block after a on the path *)
  Definition path_next (a b : nat) : Prop := exists pre post, path = pre ++ a :: b :: post.

  (* the step c -> c' respects the path: an EDGE step out of a path block a that has a successor b on the path
     goes to b, and so does the RET step that returns from a call made by a *)
  Definition step_follows (c c' : rconfig) : Prop :=
    forall a b, path_next a b ->
      (snd c' = snd c -> fst c = a -> fst c' = b) /\
      (snd c = snd c' ++ [a] -> fst c' = b).

  Definition follows (cfgs : list rconfig) : Prop :=
    forall pre c c' post, cfgs = pre ++ c :: c' :: post -> step_follows c c'.

  Lemma follows_one c : follows [c].
  Proof. intros pre c0 c1 post E. destruct pre as [|x [|y pre]]; discriminate. Qed.

  Lemma follows_cons c c' rest : follows (c :: c' :: rest) <-> step_follows c c' /\ follows (c' :: rest).
  Proof.
    split.
    - intros H. split; [apply (H [] c c' rest); reflexivity|].
      intros pre a a' post E. apply (H (c :: pre) a a' post). rewrite E. reflexivity.
    - intros [H1 H2] pre a a' post E. destruct pre as [|x pre]; simpl in E.
      + inversion E; subst. exact H1.
      + inversion E; subst. apply (H2 pre a a' post). assumption.
  Qed.

  Lemma path_next_removelast a b : path_next a b -> In a (removelast path).
  Proof. intros (pre & post & ->). apply split_removelast. Qed.

  Lemma path_next_exists a : In a (removelast path) -> exists b, path_next a b.
  Proof. intros H. destruct (removelast_split a path H) as (pre & b & post & E). exists b, pre, post. exact E. Qed.

  Lemma path_next_fun a b b' : path_next a b -> path_next a b' -> b = b'.
  Proof.
    intros (pre & post & E) (pre' & post' & E'). pose proof cf_nodup as Hnd.
    assert (Hgen : forall l pre pre' post post', NoDup l -> l = pre ++ a :: b :: post -> l = pre' ++ a :: b' :: post' -> b = b').
    { clear. induction l as [|x l IH]; intros pre pre' post post' Hnd E E'; [destruct pre; discriminate|].
      apply NoDup_cons_iff in Hnd. destruct Hnd as [Hx Hnd].
      destruct pre as [|y pre]; destruct pre' as [|y' pre']; simpl in E, E';
        injection E as E1 E2; injection E' as E1' E2'.
      - rewrite E2 in E2'. injection E2' as E3 _. exact E3.
      - exfalso. apply Hx. rewrite E1, E2'. apply in_or_app. right. left. reflexivity.
      - exfalso. apply Hx. rewrite E1', E2. apply in_or_app. right. left. reflexivity.
      - eapply IH; eauto. }
    eapply Hgen; eauto.
  Qed.

  Lemma path_next_In a b : path_next a b -> In a path /\ In b path.
  Proof.
    intros (pre & post & ->). split; apply in_or_app; right; [left; reflexivity | right; left; reflexivity].
  Qed.

  (* ---------------------------------------------------------------- blocks of the contract's function *)
  Notation W := (whole_function t).

  Lemma W_prog : fn_prog W = t_prog t. Proof. reflexivity. Qed.
  Lemma W_entry : fn_entry W = 0. Proof. reflexivity. Qed.
  Lemma cf_entry : fn_entry f' = 0. Proof. reflexivity. Qed.

  Lemma W_fblock_tblock x b0 : fblock W x = Some b0 -> tblock t x = Some b0.
  Proof. intros H. apply fblock_whole in H. tauto. Qed.

  Lemma W_not_err x b0 : tblock t x = Some b0 -> ~ is_err_block x.
  Proof.
    intros Htb He. pose proof (cf_tblock_idx x b0 Htb) as Hi. apply (tblock_In t) in Htb.
    pose proof (max_idx_ge _ _ Htb). unfold is_err_block in He. lia.
  Qed.

  (* how the function's block x relates to the contract's block x *)
  Lemma cf_block_fwd x b0 blk' :
    fblock W x = Some b0 -> fblock f' x = Some blk' ->
    b_ins blk' = b_ins b0 /\ fexit_op f' blk' = fexit_op W b0 /\
    ((forall b, ~ path_next x b) /\ b_next blk' = b_next b0 \/
     exists b e0, path_next x b /\ In b (b_next b0) /\ b_next blk' = cut_next (b_next b0) b e0 /\ N0 <= e0).
  Proof.
    intros HW Hb. apply W_fblock_tblock in HW.
    destruct (cf_fblock_inv x blk' Hb) as [(Hx & xb & Hg & ->)|(Hx & Htb & _)].
    - destruct (cf_bl_old x xb Hg) as (Hm & b1 & Hb1 & Hi & _).
      { pose proof (W_not_err x b0 HW). unfold is_err_block in H. unfold N0. lia. }
      rewrite HW in Hb1. inversion Hb1; subst b1. cbn [prune_by b_ins b_next].
      split; [exact Hi|]. split; [apply (cf_fexit_same _ x b0 HW); exact Hi|].
      destruct (in_dec Nat.eq_dec x (removelast path)) as [Hr|Hr].
      + right. destruct (removelast_split x path Hr) as (pre & b & post & E).
        destruct (cf_bl_cut pre x b post b0 E HW) as (ab' & e0 & G & _ & Nx & HN).
        rewrite Hg in G. inversion G; subst ab'. exists b, e0. split; [exists pre, post; exact E|].
        split; [eapply cf_path_succ; eauto|]. auto.
      + left. split; [intros b Hn; apply Hr; eapply path_next_removelast; eauto|].
        destruct (cf_bl_unchanged x b0 Hm Hr HW) as (xb' & G & _ & Nx). rewrite Hg in G. inversion G; subst xb'. exact Nx.
    - rewrite HW in Htb. inversion Htb; subst blk'. split; [reflexivity|].
      split; [apply (cf_fexit_same b0 x b0 HW eq_refl)|]. left. split; [|reflexivity].
      intros b Hn. apply Hx. apply cf_path_mids. apply (path_next_In x b Hn).
  Qed.

  Lemma cf_block_bwd x blk' :
    fblock f' x = Some blk' -> ~ is_err_block x ->
    exists b0, fblock W x = Some b0 /\ b_ins blk' = b_ins b0 /\ fexit_op f' blk' = fexit_op W b0 /\
               Forall2 (nrel N0) (b_next blk') (b_next b0).
  Proof.
    intros Hb Hne. destruct (in_dec Nat.eq_dec x mids) as [Hx|Hx].
    - destruct (cf_main_block_old x blk' Hx Hb Hne) as (Hm & b0 & Hb0 & Hi & Hn & Hex).
      exists b0. split; [apply fblock_whole; split; [apply wf_ids_In; left; exact Hm | exact Hb0]|]. auto.
    - destruct (cf_sub_block x blk' Hx Hb) as (Htb & Hex & s & Hs & Hxs).
      exists blk'. split.
      + apply fblock_whole. split; [|exact Htb]. apply wf_ids_In. right. exists s. split; [apply cf_subs_incl; exact Hs | exact Hxs].
      + split; [reflexivity|]. split; [exact Hex|].
        induction (b_next blk') as [|y l IH]; constructor; [left; reflexivity | exact IH].
  Qed.

  (* blocks of the function: closed under local successors and calls *)
  Definition in_fun (x : nat) : Prop := exists blk, fblock f' x = Some blk.

  Lemma cf_sub_in s n : In s (cf_subs t path) -> In n (s_blocks s) -> in_fun n.
  Proof.
    intros Hs Hn. destruct (in_dec Nat.eq_dec n mids) as [Hm|Hm].
    - destruct (cf_get n (cf_mids_ids n Hm)) as (xb & Hg). eexists. apply (cf_fblock_main n xb Hm Hg).
    - destruct (parse_teal_blocks p t Hparse) as (bs & Hbs).
      destruct (wf_ids_tblock p t bs Hparse Hbs n) as (b & Hb).
      { apply wf_ids_In. right. exists s. split; [apply cf_subs_incl; exact Hs | exact Hn]. }
      exists b. apply (cf_fblock_sub_spec n b Hm). eauto.
  Qed.

  Lemma cf_succ_in x blk y : fblock f' x = Some blk -> In y (b_next blk) -> in_fun y.
  Proof.
    intros Hb Hy. destruct (cf_fblock_inv x blk Hb) as [(Hx & xb & Hg & ->)|(Hx & Htb & s & Hs & Hxs)].
    - cbn [prune_by b_next] in Hy. pose proof (cf_mids_succ x xb y Hx Hg Hy) as Hm.
      destruct (cf_get y (cf_mids_ids y Hm)) as (yb & Hgy). eexists. apply (cf_fblock_main y yb Hm Hgy).
    - apply (cf_sub_in s y Hs). destruct (parse_teal_blocks p t Hparse) as (bs & Hbs).
      pose proof (cf_subs_sub s Hs) as Hs'.
      apply (sub_reach p t bs Hparse Hbs s y Hs'). apply (sub_reach p t bs Hparse Hbs s x Hs') in Hxs.
      apply (Reach_step bs (s_entry s) x y Hxs). rewrite <- (tblock_next p t bs x blk Hparse Hbs Htb). exact Hy.
  Qed.

  Lemma cf_call_in x blk l s :
    fblock f' x = Some blk -> fexit_op f' blk = Some (ICallsub l) -> find_sub t l = Some s -> in_fun (s_entry s).
  Proof.
    intros Hb Hop Hs. destruct (cf_call_closure x blk l Hb Hop) as (s' & Hf & Hin & _).
    rewrite Hs in Hf. inversion Hf; subst s'. apply (cf_sub_in s _ Hin).
    destruct (parse_teal_blocks p t Hparse) as (bs & Hbs).
    apply (sub_entry_in_blocks p t bs Hparse Hbs s (cf_subs_sub s Hin)).
  Qed.

  Lemma cf_flags blk' b0 :
    fexit_op f' blk' = fexit_op W b0 ->
    f_is_callsub f' blk' = f_is_callsub W b0 /\ f_is_retsub f' blk' = f_is_retsub W b0.
  Proof. intros H. unfold f_is_callsub, f_is_retsub. rewrite H. split; reflexivity. Qed.

  (* ================================================================== D. completeness *)
  Definition cfg_in (c : rconfig) : Prop := in_fun (fst c) /\ Forall in_fun (snd c).

  Lemma srp_In b r : sub_return_point b = Some r -> In r (b_next b).
  Proof. unfold sub_return_point. destruct (b_next b); [discriminate|]. intros H. inversion H. left. reflexivity. Qed.

  Lemma srp_cut b b' v e0 : sub_return_point b = Some v -> b_next b' = cut_next (b_next b) v e0 -> sub_return_point b' = Some v.
  Proof.
    unfold sub_return_point. intros H E. rewrite E. destruct (b_next b) as [|r l]; [discriminate|].
    inversion H; subst r. simpl. rewrite Nat.eqb_refl. reflexivity.
  Qed.

  Lemma cf_step_fwd c c' : rstep W c c' -> step_follows c c' -> cfg_in c -> rstep f' c c' /\ cfg_in c'.
  Proof.
    intros Hstep Hf [Hin Hst].
    inversion Hstep as [b st0 blk l s Hb Hop Hs|b st0 cs blk cb rp Hb Hop Hcs Hrp|b st0 blk b' Hb Hnc Hnr Hn];
      subst; cbn [fst snd] in *; destruct Hin as (blk' & Hb');
      destruct (cf_block_fwd b blk blk' Hb Hb') as (Hi & Hex & Hnx).
    - (* CALL *)
      assert (Hop' : fexit_op f' blk' = Some (ICallsub l)) by congruence.
      split; [exact (RS_call f' b st0 blk' l s Hb' Hop' Hs)|].
      split; [eapply cf_call_in; eauto|]. cbn [snd]. apply Forall_app. split; [exact Hst|].
      constructor; [exists blk'; exact Hb' | constructor].
    - (* RET *)
      assert (Hop' : fexit_op f' blk' = Some IRetsub) by congruence.
      apply Forall_app in Hst. destruct Hst as [Hst Hcsin]. inversion Hcsin as [|x l0 (cb' & Hcb') _]; subst.
      destruct (cf_block_fwd cs cb cb' Hcs Hcb') as (_ & _ & Hcn).
      assert (Hrp' : sub_return_point cb' = Some rp).
      { destruct Hcn as [(_ & E)|(b2 & e0 & Hpn & _ & E & _)].
        - unfold sub_return_point in *. rewrite E. exact Hrp.
        - destruct (Hf cs b2 Hpn) as [_ H2]. cbn [fst snd] in H2. specialize (H2 eq_refl). subst b2.
          eapply srp_cut; eauto. }
      split; [exact (RS_ret f' b st0 cs blk' cb' rp Hb' Hop' Hcb' Hrp')|].
      split; [|exact Hst]. cbn [fst]. apply (cf_succ_in cs cb' rp Hcb'). apply srp_In. exact Hrp'.
    - (* EDGE *)
      destruct (cf_flags blk' blk Hex) as [Hc Hr].
      assert (Hn' : In b' (b_next blk')).
      { destruct Hnx as [(_ & E)|(b2 & e0 & Hpn & Hb2 & E & _)]; [rewrite E; exact Hn|].
        destruct (Hf b b2 Hpn) as [H1 _]. cbn [fst snd] in H1. specialize (H1 eq_refl eq_refl). subst b2.
        rewrite E. apply cut_next_keeps. exact Hn. }
      split; [apply (RS_edge f' b st0 blk' b' Hb'); congruence|].
      split; [|exact Hst]. cbn [fst]. apply (cf_succ_in b blk' b' Hb' Hn').
  Qed.

  Lemma cf_init_in : cfg_in (0, []).
  Proof.
    split; [|constructor]. cbn [fst]. destruct (cf_get 0 (cf_mids_ids 0 cf_zero_mids)) as (xb & Hg).
    eexists. apply (cf_fblock_main 0 xb cf_zero_mids Hg).
  Qed.

  Lemma cf_runfrom_fwd : forall c cfgs, RunFrom W c cfgs -> follows cfgs -> cfg_in c ->
    RunFrom f' c cfgs /\ forall c', In c' cfgs -> cfg_in c'.
  Proof.
    induction 1 as [c|c c' rest Hstep Hrun IH]; intros Hf Hin.
    - split; [constructor|]. intros c' [<-|[]]. exact Hin.
    - destruct (RunFrom_head W _ _ Hrun) as (rest' & ->). apply follows_cons in Hf. destruct Hf as [Hf1 Hf2].
      destruct (cf_step_fwd c c' Hstep Hf1 Hin) as [Hs' Hin'].
      destruct (IH Hf2 Hin') as [Hr' Hall]. split; [econstructor; eauto|].
      intros x [<-|Hx]; [exact Hin | apply Hall; exact Hx].
  Qed.

  (* (1) every run of the contract that follows the path is a run of the cut function *)
  Theorem cut_run_complete cfgs : Run W cfgs -> follows cfgs -> Run f' cfgs.
  Proof. intros Hr Hf. apply (cf_runfrom_fwd (0, []) cfgs Hr Hf cf_init_in). Qed.

  Lemma cf_leaf_fwd x b0 blk' :
    fblock W x = Some b0 -> fblock f' x = Some blk' -> leaf_global W b0 = true -> leaf_global f' blk' = true.
  Proof.
    intros HW Hb Hl. destruct (cf_block_fwd x b0 blk' HW Hb) as (_ & Hex & Hnx).
    destruct (cf_flags blk' b0 Hex) as [Hc Hr]. unfold leaf_global in *. rewrite Hc, Hr.
    destruct Hnx as [(_ & E)|(b2 & e0 & _ & _ & E & _)]; rewrite E; [exact Hl|].
    destruct (b_next b0); [exact Hl | discriminate].
  Qed.

  Theorem cut_accepting_run_complete cfgs : AcceptingRun W cfgs -> follows cfgs -> AcceptingRun f' cfgs.
  Proof.
    intros [Hr (b0 & HW & Hl)] Hf. destruct (cf_runfrom_fwd (0, []) cfgs Hr Hf cf_init_in) as [Hr' Hall].
    split; [exact Hr'|]. change (final f' cfgs) with (final W cfgs).
    assert (Hfin : In (final W cfgs) cfgs).
    { unfold final. destruct (RunFrom_head W _ _ Hr) as (rest & ->). apply last_In_ne. discriminate. }
    destruct (Hall _ Hfin) as [(blk' & Hb') _]. exists blk'. split; [exact Hb'|].
    eapply cf_leaf_fwd; eauto.
  Qed.

  (* ---------------------------------------------------------------- concrete executions *)
  Lemma crun_tr_agree (sem : opsem) (p1 p2 : prog) : forall poss cs,
    (forall k, In k poss -> op_at p2 k = op_at p1 k) ->
    crun_tr cval sem p2 poss cs = crun_tr cval sem p1 poss cs.
  Proof.
    induction poss as [|k r IH]; intros cs H; [reflexivity|]. cbn [crun_tr].
    rewrite (H k (or_introl eq_refl)). destruct (op_at p1 k) as [op|]; [|reflexivity].
    destruct (cstep cval sem op k cs) as [[[args outs] cs1]|]; [|reflexivity].
    rewrite IH; [reflexivity|]. intros j Hj. apply H. right. exact Hj.
  Qed.

  (* a block with the instructions of the contract's block b0 executes in the function's program exactly as b0
     does in the contract's program *)
  Lemma cf_bexec_iff e sem x b0 blk' cs tr cs' :
    tblock t x = Some b0 -> b_ins blk' = b_ins b0 ->
    (bexec e sem (fn_prog f') blk' cs tr cs' <-> bexec e sem (fn_prog W) b0 cs tr cs').
  Proof.
    intros Htb Hi. unfold bexec. rewrite Hi.
    assert (Hag : forall k, In k (b_ins b0) -> op_at (fn_prog f') k = op_at (fn_prog W) k).
    { intros k Hk. apply cf_op_at_old. eapply tblock_ins_lt; eauto. }
    rewrite (crun_tr_agree sem (fn_prog W) (fn_prog f') (b_ins b0) cs Hag).
    split; intros [Hc Hnf]; (split; [exact Hc|]); intros pos args outs op Hin Hop;
      pose proof (crun_tr_positions _ _ _ _ _ _ _ Hc) as Hp;
      assert (Hk : In pos (b_ins b0)) by (rewrite <- Hp; apply (in_map (tr_pos cval) _ _ Hin));
      apply (Hnf pos args outs op Hin); first [rewrite (Hag pos Hk); exact Hop | rewrite <- (Hag pos Hk); exact Hop].
  Qed.

  (* "the branch targets the next line" is read off the jump target: the appended err instructions do not matter *)
  Lemma exit_to_next_cut blk' b0 :
    b_ins blk' = b_ins b0 -> fexit_op f' blk' = fexit_op W b0 -> exit_to_next f' blk' = exit_to_next W b0.
  Proof.
    intros Hi Hex. unfold exit_to_next. rewrite Hex, Hi. destruct (fexit_op W b0) as [br|]; [|reflexivity].
    destruct cf_prog as (m & E). rewrite E, W_prog. apply branch_to_next_errs.
  Qed.

  Lemma jump_ok_fwd blk' b0 jumped b' :
    b_ins blk' = b_ins b0 -> fexit_op f' blk' = fexit_op W b0 ->
    (b_next blk' = b_next b0 \/ exists e0, b_next blk' = cut_next (b_next b0) b' e0) ->
    jump_ok W b0 jumped b' -> jump_ok f' blk' jumped b'.
  Proof.
    intros Hi Hex Hnx Hj. unfold jump_ok in *. rewrite (exit_to_next_cut blk' b0 Hi Hex).
    destruct Hnx as [E|(e0 & E)]; rewrite E.
    - exact Hj.
    - destruct (b_next b0) as [|d [|j r]]; cbn [cut_next].
      + exact Hj.
      + destruct (Nat.eqb d b'); exact Hj.
      + subst b'. destruct jumped.
        * pose proof (Nat.eqb_refl j) as Ej. destruct (Nat.eqb d j); destruct (Nat.eqb j j); try discriminate; reflexivity.
        * pose proof (Nat.eqb_refl d) as Ed. destruct (Nat.eqb d d); [|discriminate]. destruct (Nat.eqb j d); reflexivity.
  Qed.

  Lemma cf_exec_step_fwd e sem c c' blk cs tr cs' :
    fblock W (fst c) = Some blk -> bexec e sem (fn_prog W) blk cs tr cs' -> rstep W c c' ->
    branch_ok W blk tr (fst c') -> step_follows c c' -> cfg_in c ->
    exists blk', fblock f' (fst c) = Some blk' /\ bexec e sem (fn_prog f') blk' cs tr cs' /\
                 branch_ok f' blk' tr (fst c').
  Proof.
    intros Hb Hex Hstep Hbr Hf [(blk' & Hb') _]. exists blk'. split; [exact Hb'|].
    destruct (cf_block_fwd (fst c) blk blk' Hb Hb') as (Hi & Hexit & Hnx).
    split; [apply (cf_bexec_iff e sem (fst c) blk blk' cs tr cs' (W_fblock_tblock _ _ Hb) Hi); exact Hex|].
    unfold branch_ok in *. rewrite Hexit.
    assert (Hedge : forall l, fexit_op W blk = Some (IBZ l) \/ fexit_op W blk = Some (IBNZ l) ->
                    b_next blk' = b_next blk \/ exists e0, b_next blk' = cut_next (b_next blk) (fst c') e0).
    { intros l Hop. destruct Hnx as [(_ & E)|(b2 & e0 & Hpn & _ & E & _)]; [left; exact E|]. right. exists e0.
      destruct (Hf (fst c) b2 Hpn) as [H1 _].
      inversion Hstep as [b st0 blk0 l0 s Hb0 Hop0 Hs|b st0 cs0 blk0 cb rp Hb0 Hop0 Hcs Hrp|b st0 blk0 b0' Hb0 Hnc Hnr Hn];
        subst; cbn [fst snd] in *; rewrite Hb in Hb0; inversion Hb0; subst blk0.
      - destruct Hop; congruence.
      - destruct Hop; congruence.
      - rewrite <- (H1 eq_refl eq_refl) in E. exact E. }
    destruct (fexit_op W blk) as [[]|] eqn:Eop; try exact I;
      destruct (popped tr) as [|v [|? ?]]; try exact I;
      (eapply jump_ok_fwd; [exact Hi | rewrite Eop; exact Hexit | eapply Hedge; eauto | exact Hbr]).
  Qed.

  Lemma cf_execfrom_fwd e sem : forall c cs cfgs, ExecFrom e sem W c cs cfgs -> follows cfgs -> cfg_in c ->
    ExecFrom e sem f' c cs cfgs.
  Proof.
    induction 1 as [c cs blk tr cs' Hb Hex|c c' rest cs blk tr cs' Hb Hex Hstep Hbr Hrest IH]; intros Hf Hin.
    - destruct Hin as [(blk' & Hb') _]. destruct (cf_block_fwd (fst c) blk blk' Hb Hb') as (Hi & _).
      apply (EF_last e sem f' c cs blk' tr cs' Hb').
      apply (cf_bexec_iff e sem (fst c) blk blk' cs tr cs' (W_fblock_tblock _ _ Hb) Hi). exact Hex.
    - destruct (ExecFrom_head _ _ _ _ _ _ Hrest) as (rest' & ->). apply follows_cons in Hf. destruct Hf as [Hf1 Hf2].
      destruct (cf_exec_step_fwd e sem c c' blk cs tr cs' Hb Hex Hstep Hbr Hf1 Hin) as (blk' & Hb' & Hex' & Hbr').
      destruct (cf_step_fwd c c' Hstep Hf1 Hin) as [Hs' Hin'].
      exact (EF_step e sem f' c c' _ cs blk' tr cs' Hb' Hex' Hs' Hbr' (IH Hf2 Hin')).
  Qed.

  Theorem cut_exec_complete e sem cfgs : Exec e sem W cfgs -> follows cfgs -> Exec e sem f' cfgs.
  Proof. intros H Hf. apply (cf_execfrom_fwd e sem (0, []) [] cfgs H Hf cf_init_in). Qed.

  (* (1) every approving execution of the contract that follows the path is one of the cut function *)
  Theorem cut_accepts_complete e sem cfgs : Accepts e sem W cfgs -> follows cfgs -> Accepts e sem f' cfgs.
  Proof.
    intros (Hex & Hacc & Hret & b0 & HW & Hop) Hf.
    split; [apply cut_exec_complete; assumption|]. split; [apply cut_accepting_run_complete; assumption|].
    split; [exact Hret|]. change (final f' cfgs) with (final W cfgs).
    destruct (cut_accepting_run_complete cfgs Hacc Hf) as [_ (blk' & Hb' & _)].
    change (final f' cfgs) with (final W cfgs) in Hb'. exists blk'. split; [exact Hb'|].
    destruct (cf_block_fwd _ b0 blk' HW Hb') as (_ & Hexit & _). congruence.
  Qed.

  (* ================================================================== E. soundness *)
  Lemma nrel_old y' y : nrel N0 y' y -> ~ is_err_block y' -> y' = y.
  Proof. intros [H|H] Hne; [exact H|]. exfalso. apply Hne. unfold is_err_block. unfold N0 in H. lia. Qed.

  Lemma nrel_In l' l y' : Forall2 (nrel N0) l' l -> In y' l' -> ~ is_err_block y' -> In y' l.
  Proof.
    intros H. induction H as [|a a0 l' l Ha Hl IH]; intros Hin Hne; [destruct Hin|].
    destruct Hin as [<-|Hin]; [left; symmetry; apply nrel_old; assumption | right; apply IH; assumption].
  Qed.

  Lemma nrel_srp b' b0 rp :
    Forall2 (nrel N0) (b_next b') (b_next b0) -> sub_return_point b' = Some rp -> ~ is_err_block rp ->
    sub_return_point b0 = Some rp.
  Proof.
    unfold sub_return_point. intros H Hrp Hne. destruct H as [|a a0 l' l Ha Hl]; [discriminate|].
    inversion Hrp; subst a. rewrite (nrel_old rp a0 Ha Hne). reflexivity.
  Qed.

  Lemma path_block_not_err a b : path_next a b -> ~ is_err_block a.
  Proof.
    intros Hpn. destruct (cf_main_tblock a) as (ab & Hab); [apply cf_path_main; apply (path_next_In a b Hpn)|].
    eapply W_not_err; eauto.
  Qed.

  (* in the function, the only successor of a path block (before the last) that is no err block is the next
     path block *)
  Lemma cut_succ_on_path a blk' b y :
    fblock f' a = Some blk' -> path_next a b -> In y (b_next blk') -> ~ is_err_block y -> y = b.
  Proof.
    intros Hb Hpn Hy Hne. destruct (cf_block_bwd a blk' Hb (path_block_not_err a b Hpn)) as (b0 & HW & _).
    destruct (cf_block_fwd a b0 blk' HW Hb) as (_ & _ & [(Hno & _)|(b2 & e0 & Hpn2 & _ & E & HN)]).
    - exfalso. eapply Hno; eauto.
    - rewrite (path_next_fun a b b2 Hpn Hpn2). rewrite E in Hy. apply cut_next_In in Hy.
      destruct Hy as [[Hy _]|Hy]; [exact Hy|]. exfalso. apply Hne. unfold is_err_block. unfold N0 in HN. lia.
  Qed.

  Lemma app_self_neq {A} (l r : list A) x : l = l ++ x :: r -> False.
  Proof. intros H. apply (f_equal (@length A)) in H. rewrite app_length in H. simpl in H. lia. Qed.

  (* a step of the function between blocks that are no err blocks is a step of the contract following the path *)
  Lemma cf_step_bwd c c' :
    rstep f' c c' -> ~ is_err_block (fst c) -> ~ is_err_block (fst c') -> rstep W c c' /\ step_follows c c'.
  Proof.
    intros Hstep Hne Hne'.
    inversion Hstep as [b st0 blk' l s Hb Hop Hs|b st0 cs blk' cb' rp Hb Hop Hcs Hrp|b st0 blk' b' Hb Hnc Hnr Hn];
      subst; cbn [fst snd] in *; destruct (cf_block_bwd b blk' Hb Hne) as (b0 & HW & Hi & Hex & Hnx).
    - (* CALL *) split.
      + apply (RS_call W b st0 b0 l s HW); [congruence | exact Hs].
      + intros a b2 Hpn. cbn [fst snd]. split; intros H; exfalso.
        * symmetry in H. eapply app_self_neq; eauto.
        * rewrite <- app_assoc in H. eapply app_self_neq; eauto.
    - (* RET *)
      assert (Hcsne : ~ is_err_block cs).
      { intro He. destruct (cf_err_block cs cb' Hcs He) as (_ & pos & _ & En & _).
        unfold sub_return_point in Hrp. rewrite En in Hrp. discriminate. }
      destruct (cf_block_bwd cs cb' Hcs Hcsne) as (cb0 & HWc & _ & _ & Hcn). split.
      + apply (RS_ret W b st0 cs b0 cb0 rp HW); [congruence | exact HWc | eapply nrel_srp; eauto].
      + intros a b2 Hpn. cbn [fst snd]. split; intros H.
        * exfalso. eapply app_self_neq; eauto.
        * apply app_inj_tail in H. destruct H as [_ <-].
          apply (cut_succ_on_path cs cb' b2 rp Hcs Hpn); [apply srp_In; exact Hrp | exact Hne'].
    - (* EDGE *)
      destruct (cf_flags blk' b0 Hex) as [Hc Hr]. split.
      + apply (RS_edge W b st0 b0 b' HW); [congruence | congruence | eapply nrel_In; eauto].
      + intros a b2 Hpn. cbn [fst snd]. split.
        * intros _ <-. apply (cut_succ_on_path b blk' b2 b' Hb Hpn Hn Hne').
        * intros H. exfalso. eapply app_self_neq; eauto.
  Qed.

  (* err blocks: no step leaves them, they do not execute *)
  Theorem err_block_terminal c c' : rstep f' c c' -> ~ is_err_block (fst c).
  Proof.
    intros Hstep He.
    inversion Hstep as [b st0 blk' l s Hb Hop Hs|b st0 cs blk' cb' rp Hb Hop Hcs Hrp|b st0 blk' b' Hb Hnc Hnr Hn];
      subst; cbn [fst] in He; destruct (cf_err_block b blk' Hb He) as (_ & pos & _ & En & _ & Hop').
    - congruence.
    - congruence.
    - rewrite En in Hn. destruct Hn.
  Qed.

  Theorem err_block_fails e sem x blk cs tr cs' :
    fblock f' x = Some blk -> is_err_block x -> ~ bexec e sem (fn_prog f') blk cs tr cs'.
  Proof.
    intros Hb He [Hc Hnf]. destruct (cf_err_block x blk Hb He) as (_ & pos & Ei & _ & Hop & _).
    rewrite Ei in Hc. pose proof (crun_tr_positions _ _ _ _ _ _ _ Hc) as Hp.
    destruct tr as [|[[k a] o] tr']; [discriminate|]. simpl in Hp. inversion Hp; subst k.
    pose proof (Hnf pos a o ICustomErr (or_introl eq_refl) Hop) as Hf. discriminate.
  Qed.

  Theorem err_block_leaf x blk : fblock f' x = Some blk -> is_err_block x -> leaf_global f' blk = true.
  Proof.
    intros Hb He. destruct (cf_err_block x blk Hb He) as (_ & pos & _ & En & _ & Hop).
    unfold leaf_global, f_is_retsub, f_is_callsub. rewrite En, Hop. reflexivity.
  Qed.

  (* (2), runs: a run of the function that meets no err block is a run of the contract that follows the path *)
  Lemma cf_runfrom_bwd : forall c cfgs, RunFrom f' c cfgs -> (forall c0, In c0 cfgs -> ~ is_err_block (fst c0)) ->
    RunFrom W c cfgs /\ follows cfgs.
  Proof.
    induction 1 as [c|c c' rest Hstep Hrun IH]; intros Hne.
    - split; [constructor | apply follows_one].
    - destruct (RunFrom_head f' _ _ Hrun) as (rest' & ->).
      destruct (cf_step_bwd c c' Hstep (Hne c (or_introl eq_refl)) (Hne c' (or_intror (or_introl eq_refl)))) as [Hs Hf].
      destruct IH as [Hr Hfs]; [intros c0 H0; apply Hne; right; exact H0|].
      split; [econstructor; eauto | apply follows_cons; split; assumption].
  Qed.

  Theorem cut_run_sound cfgs :
    Run f' cfgs -> (forall c, In c cfgs -> ~ is_err_block (fst c)) -> Run W cfgs /\ follows cfgs.
  Proof. intros H Hne. exact (cf_runfrom_bwd (0, []) cfgs H Hne). Qed.

  (* an err block can only be the last block of a run *)
  Theorem cut_run_err_last : forall cfgs, Run f' cfgs ->
    forall pre c post, cfgs = pre ++ c :: post -> is_err_block (fst c) -> post = [].
  Proof.
    intros cfgs Hr pre c post E He. destruct post as [|c' post]; [reflexivity|]. exfalso.
    rewrite E in Hr. pose proof (RunFrom_suffix f' _ _ Hr pre c (c' :: post) eq_refl) as Hs.
    inversion Hs as [|c0 c1 rest Hstep Hrest]; subst.
    destruct (RunFrom_head f' _ _ Hrest) as (r & Er). inversion Er; subst.
    exact (err_block_terminal c c1 Hstep He).
  Qed.

  (* ---------------------------------------------------------------- concrete executions *)
  Lemma jump_ok_bwd blk' b0 jumped b' :
    b_ins blk' = b_ins b0 -> fexit_op f' blk' = fexit_op W b0 ->
    Forall2 (nrel N0) (b_next blk') (b_next b0) -> ~ is_err_block b' ->
    jump_ok f' blk' jumped b' -> jump_ok W b0 jumped b'.
  Proof.
    intros Hi Hex Hnx Hne Hj. unfold jump_ok in *. rewrite (exit_to_next_cut blk' b0 Hi Hex) in Hj.
    destruct Hnx as [|d' d l' l Hd Hr]; [exact Hj|].
    destruct Hr as [|j' j l' l Hj' Hr]; [exact Hj|].
    subst b'. destruct jumped; [apply (nrel_old j' j Hj' Hne) | apply (nrel_old d' d Hd Hne)].
  Qed.

  Lemma ExecFrom_head_exec e sem f c cs cfgs :
    ExecFrom e sem f c cs cfgs -> exists blk tr cs', fblock f (fst c) = Some blk /\ bexec e sem (fn_prog f) blk cs tr cs'.
  Proof. intros H. inversion H; subst; eauto. Qed.

  Lemma cf_execfrom_bwd e sem :
    forall c cs cfgs, ExecFrom e sem f' c cs cfgs -> ExecFrom e sem W c cs cfgs /\ follows cfgs.
  Proof.
    induction 1 as [c cs blk' tr cs' Hb Hex|c c' rest cs blk' tr cs' Hb Hex Hstep Hbr Hrest IH].
    - assert (Hne : ~ is_err_block (fst c)) by (intro He; exact (err_block_fails e sem _ _ _ _ _ Hb He Hex)).
      destruct (cf_block_bwd (fst c) blk' Hb Hne) as (b0 & HW & Hi & _).
      split; [|apply follows_one]. apply (EF_last e sem W c cs b0 tr cs' HW).
      apply (cf_bexec_iff e sem (fst c) b0 blk' cs tr cs' (W_fblock_tblock _ _ HW) Hi). exact Hex.
    - assert (Hne : ~ is_err_block (fst c)) by (intro He; exact (err_block_fails e sem _ _ _ _ _ Hb He Hex)).
      assert (Hne' : ~ is_err_block (fst c')).
      { destruct (ExecFrom_head_exec _ _ _ _ _ _ Hrest) as (blk1 & tr1 & cs1 & Hb1 & Hex1).
        intro He. exact (err_block_fails e sem _ _ _ _ _ Hb1 He Hex1). }
      destruct (ExecFrom_head _ _ _ _ _ _ Hrest) as (rest' & ->).
      destruct (cf_step_bwd c c' Hstep Hne Hne') as [Hs Hf]. destruct IH as [Hr Hfs].
      destruct (cf_block_bwd (fst c) blk' Hb Hne) as (b0 & HW & Hi & Hexit & Hnx).
      split; [|apply follows_cons; split; assumption].
      apply (EF_step e sem W c c' _ cs b0 tr cs' HW); [|exact Hs| |exact Hr].
      + apply (cf_bexec_iff e sem (fst c) b0 blk' cs tr cs' (W_fblock_tblock _ _ HW) Hi). exact Hex.
      + unfold branch_ok in *. rewrite Hexit in Hbr.
        destruct (fexit_op W b0) as [[]|] eqn:Eop; try exact I;
          destruct (popped tr) as [|v [|? ?]]; try exact I;
          (eapply jump_ok_bwd; [exact Hi | first [exact Hexit | rewrite Eop; exact Hexit] | exact Hnx | exact Hne' | exact Hbr]).
  Qed.

  Theorem cut_exec_sound e sem cfgs :
    Exec e sem f' cfgs -> Exec e sem W cfgs /\ follows cfgs.
  Proof. intros H. exact (cf_execfrom_bwd e sem (0, []) [] cfgs H). Qed.

  (* (2) every approving execution of the cut function is an approving execution of the contract that follows the path *)
  Theorem cut_accepts_sound e sem cfgs :
    Accepts e sem f' cfgs -> Accepts e sem W cfgs /\ follows cfgs.
  Proof.
    intros (Hex & [Hrun (lb & Hlb & Hleaf)] & Hret & blk' & Hb' & Hop).
    destruct (cut_exec_sound e sem cfgs Hex) as [HexW Hf]. split; [|exact Hf].
    change (final f' cfgs) with (final W cfgs) in *. rewrite Hb' in Hlb. inversion Hlb; subst lb.
    assert (Hne : ~ is_err_block (fst (final W cfgs))).
    { intro He. destruct (cf_err_block _ blk' Hb' He) as (_ & pos & _ & _ & _ & Hop'). congruence. }
    destruct (cf_block_bwd _ blk' Hb' Hne) as (b0 & HW & _ & Hexit & Hnx).
    split; [exact HexW|]. split.
    - split; [apply (Exec_Run e sem W cfgs HexW)|]. exists b0. split; [exact HW|].
      destruct (cf_flags blk' b0 Hexit) as [Hc Hr]. unfold leaf_global in *. rewrite <- Hc, <- Hr.
      destruct Hnx as [|y' y l' l _ _]; [exact Hleaf | discriminate].
    - split; [exact Hret|]. exists b0. split; [exact HW | congruence].
  Qed.

  (* the two directions together *)
  Theorem cut_accepts_iff e sem cfgs :
    Accepts e sem f' cfgs <-> Accepts e sem W cfgs /\ follows cfgs.
  Proof.
    split; [apply cut_accepts_sound|]. intros [H Hf]. apply cut_accepts_complete; assumption.
  Qed.

  (* ================================================================== F. the statements in prefix form *)
  (* no block of the path before the last one ends in a callsub (its successor on the path would be the return
     point, and the run visits the callee in between) *)
  Definition path_plain : Prop :=
    forall a b ab, path_next a b -> tblock t a = Some ab -> is_callsub_block t ab = false.

  Lemma nth_error_split2 {A} (l : list A) : forall i x y,
    nth_error l i = Some x -> nth_error l (S i) = Some y -> exists pre post, l = pre ++ x :: y :: post /\ length pre = i.
  Proof.
    induction l as [|a l IH]; intros i x y Hx Hy; [destruct i; discriminate|]. destruct i as [|i].
    - simpl in Hx. inversion Hx; subst a. destruct l as [|b l]; [discriminate|]. simpl in Hy. inversion Hy; subst b.
      exists [], l. split; reflexivity.
    - simpl in Hx. change (nth_error l (S i) = Some y) in Hy. destruct (IH i x y Hx Hy) as (pre & post & -> & Hl).
      exists (a :: pre), post. split; [reflexivity | simpl; rewrite Hl; reflexivity].
  Qed.

  Lemma nth_error_app_mid {A} (pre : list A) x post : nth_error (pre ++ x :: post) (length pre) = Some x.
  Proof. induction pre as [|a pre IH]; [reflexivity | exact IH]. Qed.

  Lemma nth_path_next i a b : nth_error path i = Some a -> nth_error path (S i) = Some b -> path_next a b.
  Proof. intros Ha Hb. destruct (nth_error_split2 path i a b Ha Hb) as (pre & post & E & _). exists pre, post. exact E. Qed.

  Lemma path_next_nth i a b : path_next a b -> nth_error path i = Some a -> nth_error path (S i) = Some b.
  Proof.
    intros (pre & post & E) Ha.
    assert (Hi : i = length pre).
    { pose proof cf_nodup as Hnd. apply (proj1 (NoDup_nth_error path) Hnd).
      - apply nth_error_Some. rewrite Ha. discriminate.
      - rewrite Ha. rewrite E. symmetry. apply nth_error_app_mid. }
    subst i. rewrite E. replace (pre ++ a :: b :: post) with ((pre ++ [a]) ++ b :: post) by (rewrite <- app_assoc; reflexivity).
    replace (S (length pre)) with (length (pre ++ [a])) by (rewrite app_length; simpl; lia).
    apply nth_error_app_mid.
  Qed.

  Lemma RunFrom_step_at f : forall c cfgs, RunFrom f c cfgs ->
    forall pre x y post, cfgs = pre ++ x :: y :: post -> rstep f x y.
  Proof.
    intros c cfgs Hr pre x y post E. pose proof (RunFrom_suffix f _ _ Hr pre x (y :: post) E) as Hs.
    inversion Hs as [|c0 c1 rest Hstep Hrest]; subst. destruct (RunFrom_head f _ _ Hrest) as (r & Er).
    inversion Er; subst. exact Hstep.
  Qed.

  Lemma W_callsub_flag b0 : f_is_callsub W b0 = is_callsub_block t b0.
  Proof. reflexivity. Qed.

  (* a run of the contract that follows a plain path visits the path blocks first, in main's activation *)
  Lemma follows_prefix cfgs :
    Run W cfgs -> follows cfgs -> path_plain ->
    forall i c, nth_error cfgs i = Some c -> i < length path -> nth_error path i = Some (fst c) /\ snd c = [].
  Proof.
    intros Hr Hf Hpl. induction i as [|i IH]; intros c Hc Hi.
    - destruct (RunFrom_head W _ _ Hr) as (rest & E). rewrite E in Hc. simpl in Hc. inversion Hc; subst c.
      destruct Hhead as (r & ->). split; reflexivity.
    - assert (Hex : exists c0, nth_error cfgs i = Some c0).
      { destruct (nth_error cfgs i) as [c0|] eqn:E0; [eauto|]. apply nth_error_None in E0.
        assert (nth_error cfgs (S i) <> None) by (rewrite Hc; discriminate). apply nth_error_Some in H. lia. }
      destruct Hex as (c0 & Hc0). destruct (IH c0 Hc0) as [Hp0 Hs0]; [lia|].
      destruct (nth_error path (S i)) as [b|] eqn:Eb; [|apply nth_error_None in Eb; lia].
      pose proof (nth_path_next i (fst c0) b Hp0 Eb) as Hpn.
      destruct (nth_error_split2 cfgs i c0 c Hc0 Hc) as (pre & post & E & _).
      pose proof (RunFrom_step_at W _ _ Hr pre c0 c post E) as Hstep.
      destruct (Hf pre c0 c post E (fst c0) b Hpn) as [H1 _].
      inversion Hstep as [x st0 blk l s Hb Hop Hs|x st0 cs blk cb rp Hb Hop Hcs Hrp|x st0 blk b' Hb Hnc Hnr Hn];
        subst; cbn [fst snd] in *.
      + exfalso. pose proof (Hpl x b blk Hpn (W_fblock_tblock _ _ Hb)) as Hc'.
        rewrite <- W_callsub_flag in Hc'. unfold f_is_callsub in Hc'. rewrite Hop in Hc'. discriminate.
      + destruct st0; discriminate.
      + rewrite (H1 eq_refl eq_refl). split; [reflexivity | exact Hs0].
  Qed.

  Lemma nth_error_firstn {A} (l : list A) : forall n i, nth_error (firstn n l) i = if Nat.ltb i n then nth_error l i else None.
  Proof.
    induction l as [|a l IH]; intros n i.
    - rewrite firstn_nil. destruct i; destruct (Nat.ltb _ n); reflexivity.
    - destruct n as [|n]; [destruct i; reflexivity|]. destruct i as [|i]; [reflexivity|]. simpl firstn. simpl nth_error.
      rewrite IH. reflexivity.
  Qed.

  Lemma list_eq_nth {A} : forall l1 l2 : list A, (forall i, nth_error l1 i = nth_error l2 i) -> l1 = l2.
  Proof.
    induction l1 as [|a l1 IH]; intros l2 H.
    - destruct l2 as [|b l2]; [reflexivity|]. specialize (H 0). discriminate.
    - destruct l2 as [|b l2]; [specialize (H 0); discriminate|].
      pose proof (H 0) as H0. simpl in H0. inversion H0; subst b. f_equal. apply IH. intros i. exact (H (S i)).
  Qed.

  (* list form: the run and the path agree on their common length *)
  Lemma follows_prefix_list cfgs :
    Run W cfgs -> follows cfgs -> path_plain ->
    map fst (firstn (length path) cfgs) = firstn (length cfgs) path.
  Proof.
    intros Hr Hf Hpl. apply list_eq_nth. intros i. rewrite nth_error_map, !nth_error_firstn.
    destruct (Nat.ltb i (length path)) eqn:E1; destruct (Nat.ltb i (length cfgs)) eqn:E2.
    - apply Nat.ltb_lt in E1. destruct (nth_error cfgs i) as [c|] eqn:Ec.
      + destruct (follows_prefix cfgs Hr Hf Hpl i c Ec E1) as [H _]. rewrite H. transitivity (option_map (@fst nat (list nat)) (Some c)); [f_equal; exact Ec | reflexivity].
      + apply nth_error_None in Ec. apply Nat.ltb_lt in E2. lia.
    - apply Nat.ltb_ge in E2. apply nth_error_None in E2. unfold rconfig in *. rewrite E2. reflexivity.
    - apply Nat.ltb_ge in E1. apply nth_error_None in E1. rewrite E1. reflexivity.
    - reflexivity.
  Qed.

  (* (2), prefix form *)
  Theorem cut_accepts_sound_prefix e sem cfgs :
    path_plain -> Accepts e sem f' cfgs ->
    Accepts e sem W cfgs /\ map fst (firstn (length path) cfgs) = firstn (length cfgs) path.
  Proof.
    intros Hpl H. destruct (cut_accepts_sound e sem cfgs H) as [HW Hf]. split; [exact HW|].
    apply follows_prefix_list; [|exact Hf | exact Hpl]. destruct HW as (Hex & _). exact (Exec_Run e sem W cfgs Hex).
  Qed.

  Corollary cut_accepts_sound_prefix_long e sem cfgs :
    path_plain -> Accepts e sem f' cfgs -> length path <= length cfgs ->
    Accepts e sem W cfgs /\ map fst (firstn (length path) cfgs) = path.
  Proof.
    intros Hpl H Hlen. destruct (cut_accepts_sound_prefix e sem cfgs Hpl H) as [HW E]. split; [exact HW|].
    rewrite E. apply firstn_all2. exact Hlen.
  Qed.

  Theorem cut_run_sound_prefix cfgs :
    path_plain -> Run f' cfgs -> (forall c, In c cfgs -> ~ is_err_block (fst c)) ->
    Run W cfgs /\ map fst (firstn (length path) cfgs) = firstn (length cfgs) path.
  Proof.
    intros Hpl H Hne. destruct (cut_run_sound cfgs H Hne) as [HW Hf]. split; [exact HW|].
    apply follows_prefix_list; assumption.
  Qed.

  (* ---------------------------------------------------------------- (1), prefix form *)
  (* frames on the call stack of a run are callsub blocks *)
  Lemma run_stack_callsub f : forall c cfgs, RunFrom f c cfgs ->
    (forall cs, In cs (snd c) -> exists cb, fblock f cs = Some cb /\ f_is_callsub f cb = true) ->
    forall c', In c' cfgs -> forall cs, In cs (snd c') -> exists cb, fblock f cs = Some cb /\ f_is_callsub f cb = true.
  Proof.
    induction 1 as [c|c c1 rest Hstep Hrun IH]; intros Hc c' Hin.
    - destruct Hin as [<-|[]]. exact Hc.
    - destruct Hin as [<-|Hin]; [exact Hc|]. apply IH; [|exact Hin].
      inversion Hstep as [x st0 blk l s Hb Hop Hs|x st0 cs0 blk cb rp Hb Hop Hcs Hrp|x st0 blk b' Hb Hnc Hnr Hn];
        subst; cbn [fst snd] in *; intros cs Hcs'.
      + apply in_app_iff in Hcs'. destruct Hcs' as [H|[<-|[]]]; [apply Hc; exact H|].
        exists blk. split; [exact Hb|]. unfold f_is_callsub. rewrite Hop. reflexivity.
      + apply Hc. apply in_or_app. left. exact Hcs'.
      + apply Hc. exact Hcs'.
  Qed.

  (* the run's first |path| blocks are the path, and it never comes back to a path block before the last one *)
  Definition starts_with_path (cfgs : list rconfig) : Prop :=
    map fst (firstn (length path) cfgs) = path /\
    forall j c, nth_error cfgs j = Some c -> length path <= S j -> ~ In (fst c) (removelast path).

  Lemma follows_of_prefix cfgs : Run W cfgs -> path_plain -> starts_with_path cfgs -> follows cfgs.
  Proof.
    intros Hr Hpl [Hpre Hno] pre c c' post E a b Hpn.
    assert (Hc : nth_error cfgs (length pre) = Some c) by (rewrite E; apply nth_error_app_mid).
    assert (Hc' : nth_error cfgs (S (length pre)) = Some c').
    { rewrite E. replace (pre ++ c :: c' :: post) with ((pre ++ [c]) ++ c' :: post) by (rewrite <- app_assoc; reflexivity).
      replace (S (length pre)) with (length (pre ++ [c])) by (rewrite app_length; simpl; lia). apply nth_error_app_mid. }
    assert (Hnth : forall j x, nth_error cfgs j = Some x -> j < length path -> nth_error path j = Some (fst x)).
    { intros j x Hx Hj. rewrite <- Hpre at 1. rewrite nth_error_map, nth_error_firstn.
      apply Nat.ltb_lt in Hj. rewrite Hj. unfold rconfig in *. rewrite Hx. reflexivity. }
    split.
    - intros _ Ha. set (j := length pre) in *.
      assert (Hj : S j < length path).
      { destruct (Nat.lt_ge_cases (S j) (length path)) as [H|H]; [exact H|]. exfalso.
        apply (Hno j c Hc H). rewrite Ha. eapply path_next_removelast; eauto. }
      pose proof (Hnth j c Hc (Nat.lt_succ_l _ _ Hj)) as H1. rewrite Ha in H1.
      pose proof (Hnth (S j) c' Hc' Hj) as H2. rewrite (path_next_nth j a b Hpn H1) in H2. inversion H2. reflexivity.
    - intros Hs. exfalso.
      assert (Hin : In c cfgs) by (rewrite E; apply in_or_app; right; left; reflexivity).
      destruct (run_stack_callsub W _ _ Hr (fun cs (H : In cs []) => match H with end) c Hin a) as (cb & Hcb & Hcs).
      { rewrite Hs. apply in_or_app. right. left. reflexivity. }
      rewrite W_callsub_flag in Hcs. rewrite (Hpl a b cb Hpn (W_fblock_tblock _ _ Hcb)) in Hcs. discriminate.
  Qed.

  Theorem cut_run_complete_prefix cfgs : path_plain -> Run W cfgs -> starts_with_path cfgs -> Run f' cfgs.
  Proof. intros Hpl Hr Hs. apply cut_run_complete; [exact Hr | apply follows_of_prefix; assumption]. Qed.

  Theorem cut_accepting_run_complete_prefix cfgs :
    path_plain -> AcceptingRun W cfgs -> starts_with_path cfgs -> AcceptingRun f' cfgs.
  Proof.
    intros Hpl Hr Hs. apply cut_accepting_run_complete; [exact Hr|]. destruct Hr as [Hr _]. apply follows_of_prefix; assumption.
  Qed.

  Theorem cut_accepts_complete_prefix e sem cfgs :
    path_plain -> Accepts e sem W cfgs -> starts_with_path cfgs -> Accepts e sem f' cfgs.
  Proof.
    intros Hpl H Hs. apply cut_accepts_complete; [exact H|]. destruct H as (Hex & _).
    apply follows_of_prefix; [exact (Exec_Run e sem W cfgs Hex) | exact Hpl | exact Hs].
  Qed.

  (* ================================================================== G. subroutines, err ids *)
  (* the function's subroutine records are records of the contract, all of them used by the contract's function *)
  Theorem cut_subs_incl s : In s (fn_subs f') -> In s (fn_subs W).
  Proof. exact (cf_subs_incl s). Qed.

  Theorem cut_all_subs : fn_all_subs f' = fn_all_subs W /\ fn_intcs f' = fn_intcs W /\ fn_entry f' = fn_entry W.
  Proof. repeat split. Qed.

  (* they are exactly the subroutines reachable by calls from the function's main blocks *)
  Theorem cut_subs_closed x blk l :
    fblock f' x = Some blk -> fexit_op f' blk = Some (ICallsub l) ->
    exists s, f_find_sub f' l = Some s /\ In s (fn_subs f') /\ s_name s = l.
  Proof. exact (cf_call_closure x blk l). Qed.

  (* and their blocks are the contract's blocks, unchanged *)
  Theorem cut_sub_blocks_shared s n :
    In s (fn_subs f') -> In n (s_blocks s) -> ~ In n (fn_main f') -> fblock f' n = fblock W n.
  Proof.
    intros Hs Hn Hm. change (fn_main f') with mids in Hm.
    destruct (fblock W n) as [b|] eqn:E2.
    - apply (cf_fblock_sub_spec n b Hm). split; [apply (W_fblock_tblock n b E2) | eauto].
    - destruct (fblock f' n) as [b|] eqn:E1; [|reflexivity]. exfalso.
      apply (cf_fblock_sub_spec n b Hm) in E1. destruct E1 as (Htb & _).
      assert (HW : fblock W n = Some b).
      { apply fblock_whole. split; [|exact Htb]. apply wf_ids_In. right. exists s. split; [apply cf_subs_incl; exact Hs | exact Hn]. }
      congruence.
  Qed.

  (* the ids reported as errs are the ids above the contract's block ids *)
  Theorem cut_err_ids x : in_fun x -> (is_err_block x <-> In x (map fst (fs_errs st))).
  Proof.
    intros (blk & Hb). split.
    - intros He. destruct (cf_err_block x blk Hb He) as (Hx & _). apply cf_mids_ids in Hx.
      unfold bl in Hx. rewrite (ci_ids _ _ _ cf_cinv) in Hx. apply in_app_iff in Hx. destruct Hx as [Hx|Hx]; [|exact Hx].
      exfalso. destruct (cf_main_tblock x Hx) as (b0 & Hb0). exact (W_not_err x b0 Hb0 He).
    - intros Hx. apply (ci_errs _ _ _ cf_cinv) in Hx. unfold is_err_block. unfold N0 in Hx. lia.
  Qed.
  (* every recorded err block hangs off a path block before the last one, and is a block of the function *)
  Theorem cut_errs_blocks e nx a :
    In (e, (nx, a)) (fs_errs st) ->
    In a (removelast path) /\ is_err_block e /\
    exists ab eb, fblock f' a = Some ab /\ In e (b_next ab) /\ fblock f' e = Some eb.
  Proof.
    intros Hin.
    assert (Hinv : einv st ([] ++ removelast path)).
    { apply einv_cut_path; [apply (fn_state0_wf p t Hparse) | exact cf_nodup | intros x _ [] | intros e0 nx0 a0 []]. }
    destruct (Hinv e nx a Hin) as (Ha & ab & Hab & He). simpl in Ha.
    assert (Ham : In a mids) by (apply cf_path_mids; apply removelast_In_cons2; exact Ha).
    pose proof (cf_mids_succ a ab e Ham Hab He) as Hem.
    destruct (cf_get e (cf_mids_ids e Hem)) as (eb & Heb).
    split; [exact Ha|]. split.
    - assert (Hi : In e (map fst (fs_errs st))) by (apply in_map_iff; exists (e, (nx, a)); auto).
      apply (ci_errs _ _ _ cf_cinv) in Hi. unfold is_err_block. unfold N0 in Hi. lia.
    - exists (prune_by mids ab), (prune_by mids eb). split; [apply cf_fblock_main; assumption|].
      split; [exact He | apply cf_fblock_main; assumption].
  Qed.
End CutFun.

(* ================================================================== H. checked conditions, contexts *)
Lemma emulate_agree (p1 p2 : prog) : forall poss st,
  (forall k, In k poss -> op_at p2 k = op_at p1 k) -> emulate p2 poss st = emulate p1 poss st.
Proof.
  induction poss as [|k r IH]; intros st H; [reflexivity|]. cbn [emulate].
  rewrite (H k (or_introl eq_refl)). destruct (op_at p1 k) as [op|]; [|reflexivity].
  destruct (emulate_ins op k st) as [[args st']|]; [|reflexivity].
  rewrite IH; [reflexivity|]. intros j Hj. apply H. right. exact Hj.
Qed.

Section CutLeaves.
  Variables (p : prog) (t : teal) (path : list nat).
  Hypothesis Hparse : parse_teal p = Ok t.
  Hypothesis Hwalk : walk_path t path [0] [] = Ok path.
  Hypothesis Hhead : exists rest, path = 0 :: rest.
  Notation W := (whole_function t).
  Notation f' := (cf_func t path).

  (* every condition leaf checked by the function is a condition leaf checked by the contract *)
  Lemma cut_prog_leaf op pos args : prog_leaf f' op pos args -> prog_leaf W op pos args.
  Proof.
    intros (b & blk & Hb & ast & k & o & a & rest & Hast & Hin & Hchk & Hleaf).
    destruct (le_lt_dec b (max_idx (t_blocks t))) as [Hle|Hlt].
    - assert (Hne : ~ is_err_block t b) by (unfold is_err_block; lia).
      destruct (cf_block_bwd p t path Hparse b blk Hb Hne) as (b0 & HW & Hi & _).
      exists b, b0. split; [exact HW|]. exists ast, k, o, a, rest. split; [|auto].
      rewrite <- Hast, Hi. symmetry. apply emulate_agree. intros j Hj.
      apply (cf_op_at_old p t path Hparse). apply (tblock_ins_lt p t Hparse b b0 j); [|exact Hj].
      apply fblock_whole in HW. tauto.
    - exfalso. destruct (cf_err_block p t path Hparse b blk Hb Hlt) as (_ & pos0 & Ei & _ & Hop & _).
      rewrite Ei in Hast. cbn [emulate] in Hast. rewrite Hop, emulate_ins_custom_err in Hast.
      inversion Hast; subst ast. destruct Hin as [E|[]]. inversion E.
  Qed.

  Lemma cut_fee_leaves_ok fam : fee_leaves_ok W fam -> fee_leaves_ok f' fam.
  Proof. intros H op pos args Hl. exact (H op pos args (cut_prog_leaf op pos args Hl)). Qed.

  Lemma cut_int_leaves_ok sz : int_leaves_ok W sz -> int_leaves_ok f' sz.
  Proof. intros H op pos args Hl. exact (H op pos args (cut_prog_leaf op pos args Hl)). Qed.

  Lemma cut_addr_leaves_ok e fam fld : addr_leaves_ok e W fam fld -> addr_leaves_ok e f' fam fld.
  Proof. intros H op pos args Hl. exact (H op pos args (cut_prog_leaf op pos args Hl)). Qed.
End CutLeaves.

(* ================================================================== the theorems, for construct_function's result *)
Ltac cf_shape H :=
  let Hw := fresh "Hwalk" in let Hh := fresh "Hhead" in
  destruct (construct_function_shape _ _ _ _ H) as (Hw & Hh & -> & ->).

Section Final.
  Variables (p : prog) (t : teal) (path : list nat) (f' : func) (errs : list (nat * (nat * nat))).
  Hypothesis Hparse : parse_teal p = Ok t.
  Hypothesis Hcf : construct_function t path = Ok (f', errs).
  Notation W := (whole_function t).

  (* (1) completeness *)
  Theorem cutfun_run_complete cfgs : Run W cfgs -> follows path cfgs -> Run f' cfgs.
  Proof. cf_shape Hcf. apply (cut_run_complete p t path); assumption. Qed.

  Theorem cutfun_accepting_run_complete cfgs : AcceptingRun W cfgs -> follows path cfgs -> AcceptingRun f' cfgs.
  Proof. cf_shape Hcf. apply (cut_accepting_run_complete p t path); assumption. Qed.

  Theorem cutfun_exec_complete e sem cfgs : Exec e sem W cfgs -> follows path cfgs -> Exec e sem f' cfgs.
  Proof. cf_shape Hcf. apply (cut_exec_complete p t path); assumption. Qed.

  Theorem cutfun_accepts_complete e sem cfgs : Accepts e sem W cfgs -> follows path cfgs -> Accepts e sem f' cfgs.
  Proof. cf_shape Hcf. apply (cut_accepts_complete p t path); assumption. Qed.

  (* (1) in prefix form: plain path, the run starts with the path and does not come back to it *)
  Theorem cutfun_run_complete_prefix cfgs :
    path_plain t path -> Run W cfgs -> starts_with_path path cfgs -> Run f' cfgs.
  Proof. cf_shape Hcf. apply (cut_run_complete_prefix p t path); assumption. Qed.

  Theorem cutfun_accepting_run_complete_prefix cfgs :
    path_plain t path -> AcceptingRun W cfgs -> starts_with_path path cfgs -> AcceptingRun f' cfgs.
  Proof. cf_shape Hcf. apply (cut_accepting_run_complete_prefix p t path); assumption. Qed.

  Theorem cutfun_accepts_complete_prefix e sem cfgs :
    path_plain t path -> Accepts e sem W cfgs -> starts_with_path path cfgs -> Accepts e sem f' cfgs.
  Proof. cf_shape Hcf. apply (cut_accepts_complete_prefix p t path); assumption. Qed.

  (* (2) soundness *)
  Theorem cutfun_run_sound cfgs :
    Run f' cfgs -> (forall c, In c cfgs -> ~ is_err_block t (fst c)) -> Run W cfgs /\ follows path cfgs.
  Proof. cf_shape Hcf. apply (cut_run_sound p t path); assumption. Qed.

  Theorem cutfun_exec_sound e sem cfgs :
    Exec e sem f' cfgs -> Exec e sem W cfgs /\ follows path cfgs.
  Proof. cf_shape Hcf. apply (cut_exec_sound p t path); assumption. Qed.

  Theorem cutfun_accepts_sound e sem cfgs :
    Accepts e sem f' cfgs -> Accepts e sem W cfgs /\ follows path cfgs.
  Proof. cf_shape Hcf. apply (cut_accepts_sound p t path); assumption. Qed.

  Theorem cutfun_accepts_iff e sem cfgs :
    Accepts e sem f' cfgs <-> Accepts e sem W cfgs /\ follows path cfgs.
  Proof. cf_shape Hcf. apply (cut_accepts_iff p t path); assumption. Qed.

  (* (2) in prefix form *)
  Theorem cutfun_accepts_sound_prefix e sem cfgs :
    path_plain t path -> Accepts e sem f' cfgs ->
    Accepts e sem W cfgs /\ map fst (firstn (length path) cfgs) = firstn (length cfgs) path.
  Proof. cf_shape Hcf. apply (cut_accepts_sound_prefix p t path); assumption. Qed.

  Theorem cutfun_accepts_sound_prefix_long e sem cfgs :
    path_plain t path -> Accepts e sem f' cfgs -> length path <= length cfgs ->
    Accepts e sem W cfgs /\ map fst (firstn (length path) cfgs) = path.
  Proof. cf_shape Hcf. apply (cut_accepts_sound_prefix_long p t path); assumption. Qed.

  Theorem cutfun_run_sound_prefix cfgs :
    path_plain t path -> Run f' cfgs -> (forall c, In c cfgs -> ~ is_err_block t (fst c)) ->
    Run W cfgs /\ map fst (firstn (length path) cfgs) = firstn (length cfgs) path.
  Proof. cf_shape Hcf. apply (cut_run_sound_prefix p t path); assumption. Qed.

  (* err blocks *)
  Theorem cutfun_err_ids x blk : fblock f' x = Some blk -> (max_idx (t_blocks t) < x <-> In x (map fst errs)).
  Proof. cf_shape Hcf. intros Hb. apply (cut_err_ids p t path Hparse x). exists blk. exact Hb. Qed.

  Theorem cutfun_errs_blocks e nx a :
    In (e, (nx, a)) errs ->
    In a (removelast path) /\ max_idx (t_blocks t) < e /\
    exists ab eb, fblock f' a = Some ab /\ In e (b_next ab) /\ fblock f' e = Some eb.
  Proof. cf_shape Hcf. apply (cut_errs_blocks p t path Hparse Hwalk Hhead). Qed.

  Theorem cutfun_err_terminal c c' : rstep f' c c' -> ~ max_idx (t_blocks t) < fst c.
  Proof. cf_shape Hcf. apply (err_block_terminal p t path Hparse). Qed.

  Theorem cutfun_err_fails e sem x blk cs tr cs' :
    fblock f' x = Some blk -> max_idx (t_blocks t) < x -> ~ bexec e sem (fn_prog f') blk cs tr cs'.
  Proof. cf_shape Hcf. apply (err_block_fails p t path Hparse). Qed.

  Theorem cutfun_err_leaf x blk : fblock f' x = Some blk -> max_idx (t_blocks t) < x -> leaf_global f' blk = true.
  Proof. cf_shape Hcf. apply (err_block_leaf p t path Hparse). Qed.

  Theorem cutfun_run_err_last cfgs pre c post :
    Run f' cfgs -> cfgs = pre ++ c :: post -> max_idx (t_blocks t) < fst c -> post = [].
  Proof. cf_shape Hcf. intros Hr. apply (cut_run_err_last p t path Hparse cfgs Hr). Qed.

  (* (4) subroutines *)
  Theorem cutfun_subs_incl s : In s (fn_subs f') -> In s (fn_subs W).
  Proof. cf_shape Hcf. apply (cut_subs_incl p t path); assumption. Qed.

  Theorem cutfun_all_subs : fn_all_subs f' = fn_all_subs W /\ fn_intcs f' = fn_intcs W /\ fn_entry f' = fn_entry W.
  Proof. cf_shape Hcf. repeat split. Qed.

  Theorem cutfun_subs_closed x blk l :
    fblock f' x = Some blk -> fexit_op f' blk = Some (ICallsub l) ->
    exists s, f_find_sub f' l = Some s /\ In s (fn_subs f') /\ s_name s = l.
  Proof. cf_shape Hcf. apply (cut_subs_closed p t path); assumption. Qed.

  Theorem cutfun_sub_blocks_shared s n :
    In s (fn_subs f') -> In n (s_blocks s) -> ~ In n (fn_main f') -> fblock f' n = fblock W n.
  Proof. cf_shape Hcf. apply (cut_sub_blocks_shared p t path); assumption. Qed.

  (* the program text: the contract's, followed by one err instruction per err block *)
  Theorem cutfun_prog : exists m, fn_prog f' = fn_prog W ++ repeat ERRI m.
  Proof. cf_shape Hcf. apply (cf_prog p t path); assumption. Qed.

  (* (3) contexts: what the analyses of the cut function report for a block holds for every approving
     execution of the CONTRACT that follows the path and visits the block *)
  Theorem cutfun_fee_context_sound e sem fam tx fee bc fuel lo cfgs :
    graph_ok f' ->
    sem_ok e sem -> env_ok e -> fn_intcs W = e_intcs e ->
    key_txn e fam = Some tx -> e_field e tx "Fee"%string = VInt fee -> (0 <= fee <= MAX_UINT64z)%Z ->
    fee_leaves_ok W fam ->
    init_constraints feeval fee_universal_set fee_null_set fee_union fee_intersection
      (fee_single (fn_intcs f') fam) f' = Some bc ->
    solve feeval feeval_eqb fee_universal_set fee_null_set fee_union fee_intersection
      (fee_single (fn_intcs f') fam) f' fuel bc = Done lo ->
    Accepts e sem W cfgs -> follows path cfgs ->
    forall b st, In (b, st) cfgs -> exists v, lookup feeval lo b = Some v /\ fee_gamma v fee.
  Proof.
    intros Hg Hsem Henv Hi Hk Hf Hr Hl Hinit Hs Hacc Hfol.
    pose proof (cutfun_accepts_complete e sem cfgs Hacc Hfol) as Hacc'.
    revert Hg Hinit Hs Hacc'. cf_shape Hcf. intros Hg Hinit Hs Hacc'.
    apply (fee_analysis_sound e sem (cf_func t path) fam tx fee bc fuel lo cfgs Hsem Henv Hi Hg Hk Hf Hr); try assumption.
    apply (cut_fee_leaves_ok p t path Hparse fam Hl).
  Qed.

  Theorem cutfun_int_context_sound e sem sz fuel lo cfgs :
    graph_ok f' ->
    sem_ok e sem -> env_ok e -> fn_intcs W = e_intcs e ->
    int_leaves_ok W sz ->
    run_int f' fuel sz = Done lo ->
    Accepts e sem W cfgs -> follows path cfgs ->
    forall b st, In (b, st) cfgs -> exists v, lookup (list Z) lo b = Some v /\ In (int_value sz e) v.
  Proof.
    intros Hg Hsem Henv Hi Hl Hrun Hacc Hfol.
    pose proof (cutfun_accepts_complete e sem cfgs Hacc Hfol) as Hacc'.
    revert Hg Hrun Hacc'. cf_shape Hcf. intros Hg Hrun Hacc'.
    apply (C06_sound_partial e sem (cf_func t path) sz fuel lo cfgs Hsem Henv Hi Hg); try assumption.
    apply (cut_int_leaves_ok p t path Hparse sz Hl).
  Qed.
End Final.

Print Assumptions cutfun_accepts_iff.
Print Assumptions cutfun_accepts_complete.
Print Assumptions cutfun_accepts_complete_prefix.
Print Assumptions cutfun_accepting_run_complete_prefix.
Print Assumptions cutfun_run_complete_prefix.
Print Assumptions cutfun_accepts_sound_prefix_long.
Print Assumptions cutfun_run_sound_prefix.
Print Assumptions cutfun_err_ids.
Print Assumptions cutfun_errs_blocks.
Print Assumptions cutfun_err_terminal.
Print Assumptions cutfun_err_fails.
Print Assumptions cutfun_run_err_last.
Print Assumptions cutfun_subs_incl.
Print Assumptions cutfun_subs_closed.
Print Assumptions cutfun_sub_blocks_shared.
Print Assumptions cutfun_prog.
Print Assumptions cutfun_fee_context_sound.
Print Assumptions cutfun_int_context_sound.
