(* Closing the loop from source programs to the end-to-end soundness theorems of Lemmas/ExecLemmas.v:
   the whole-contract function of every parsed program that satisfies the structural hypotheses
   GraphWf.struct_ok satisfies ExecLemmas.graph_ok.  No hypothesis beyond struct_ok is needed. *)
From Coq Require Import String List NArith ZArith Bool Ascii Arith Lia.
From Tealer Require Import Tables LeafPrelude Leaves Syntax Parse Cfg StackAst Keys Analysis Domains Detect.
From Tealer Require Import CfgLemmas SolverLemmas SubLemmas GraphWf.
From Tealer Require Import LeafLemmas AssertedLemmas StackLemmas Instances Eval SingleLemmas.
From Tealer Require Import Runs RunLemmas Exec ExecLemmas.
Import ListNotations.
Open Scope string_scope.
Open Scope nat_scope.
Open Scope list_scope.

(* ================================================================== list helper *)
Lemma NoDup_concat_In {A} (ll : list (list A)) : forall l, NoDup (concat ll) -> In l ll -> NoDup l.
Proof.
  induction ll as [|a ll IH]; intros l Hnd Hin; [destruct Hin|].
  simpl in Hnd. destruct Hin as [->|Hin].
  - clear IH. induction l as [|x l IHl]; [constructor|].
    simpl in Hnd. apply NoDup_cons_iff in Hnd. destruct Hnd as [Hx Hnd].
    constructor; [|apply IHl; assumption].
    intros Hxl. apply Hx. apply in_or_app. left; assumption.
  - apply IH; [|assumption]. eapply NoDup_app_r; eauto.
Qed.

(* ================================================================== the remaining fields of graph_ok *)
Section WholeOk.
  Variables (p : prog) (t : teal).
  Hypothesis Hparse : parse_teal p = Ok t.
  Notation f := (whole_function t).

  Lemma whole_prog : fn_prog f = p.
  Proof. destruct (parse_teal_inv p t Hparse) as (bs & subs0 & _ & _ & _ & Hprog & _). exact Hprog. Qed.

  (* a block of the function comes from a raw block of create_bb whose exit instruction has successors *)
  Lemma fblock_raw n b :
    fblock f n = Some b ->
    exists rbs rb nx, create_bb p = Some rbs /\ p <> [] /\ nth_error rbs n = Some rb /\
                      raw_next p rbs n rb = Some nx /\ b_ins b = rb_ins rb.
  Proof.
    intros Hb. apply fblock_whole in Hb. destruct Hb as [_ Htb].
    destruct (parse_teal_inv p t Hparse) as (bs & subs0 & Hne & Hbs & _).
    destruct (retained_char p t bs Hparse Hbs) as (_ & _ & _ & Hchar & _).
    destruct (Hchar n b Htb) as (b0 & Hn0 & _ & Hins & _).
    destruct (build_blocks_spec p bs Hbs) as (rbs & nexts & Hc & _ & _ & _ & Hn).
    destruct (Hn n b0 Hn0) as (rb & nx & Hrb & _ & Hr & E).
    exists rbs, rb, nx. split; [assumption|]. split; [assumption|]. split; [assumption|].
    split; [assumption|]. rewrite Hins, E. reflexivity.
  Qed.

  (* ---------------------------------------------------------------- fields that need no structural hypothesis *)
  Theorem whole_sub_entry_in : sub_entry_in_P f.
  Proof.
    destruct (parse_teal_blocks p t Hparse) as (bs & Hbs).
    intros l s Hs. rewrite f_find_sub_whole in Hs. apply find_sub_some in Hs. destruct Hs as [Hs _].
    exact (sub_entry_in_blocks p t bs Hparse Hbs s Hs).
  Qed.

  Theorem whole_sub_closed : sub_closed_P f.
  Proof.
    destruct (parse_teal_blocks p t Hparse) as (bs & Hbs).
    intros l s b blk b' Hs Hin Hb Hn. rewrite f_find_sub_whole in Hs.
    apply find_sub_some in Hs. destruct Hs as [Hs _].
    apply fblock_whole in Hb. destruct Hb as [_ Htb].
    apply (sub_reach p t bs Hparse Hbs s b' Hs).
    apply (sub_reach p t bs Hparse Hbs s b Hs) in Hin.
    apply (Reach_step bs (s_entry s) b b' Hin).
    rewrite <- (tblock_next p t bs b blk Hparse Hbs Htb). exact Hn.
  Qed.

  Theorem whole_callsub_one_next : callsub_one_next_P f.
  Proof.
    intros b blk Hb Hc. apply fblock_whole in Hb. destruct Hb as [_ Htb].
    destruct (return_point p t b blk Hparse Htb Hc) as [[E _]|[E _]]; rewrite E; simpl; lia.
  Qed.

  (* block instruction positions are duplicate-free: the raw blocks partition seq 0 (length p) *)
  Theorem whole_ins_nodup : ins_nodup_P f.
  Proof.
    intros n b Hb. destruct (fblock_raw n b Hb) as (rbs & rb & nx & Hc & Hne & Hrb & _ & E).
    rewrite E. apply (NoDup_concat_In (map rb_ins rbs)).
    - rewrite (blocks_partition p rbs Hc Hne). apply seq_NoDup.
    - apply in_map. eapply nth_error_In; eauto.
  Qed.

  Theorem whole_next_nodup_P : next_nodup_P f.
  Proof.
    destruct (parse_teal_blocks p t Hparse) as (bs & Hbs).
    intros n b Hb. exact (whole_next_nodup p t bs Hparse Hbs n b Hb).
  Qed.

  (* the label of a bz / bnz that ends a block of the function is defined: build_blocks evaluated
     ins_next on the exit instruction of every raw block *)
  Theorem whole_branch_labels : branch_labels_P f.
  Proof.
    intros n b l Hb Hop. rewrite whole_prog.
    destruct (fblock_raw n b Hb) as (rbs & rb & nx & _ & _ & _ & Hr & E).
    destruct (raw_next_spec p rbs n rb nx Hr) as (_ & inx & tb & Hinx & _).
    assert (Hex : op_at p (last (rb_ins rb) 0) = Some (IBZ l) \/ op_at p (last (rb_ins rb) 0) = Some (IBNZ l)).
    { destruct Hop as [Hop|Hop]; apply fexit_op_inv in Hop; destruct Hop as [_ Hop];
        rewrite whole_prog, E in Hop; auto. }
    unfold ins_next in Hinx. intros Hnone.
    destruct Hex as [Hex|Hex]; rewrite Hex in Hinx; simpl in Hinx; rewrite Hnone in Hinx; discriminate.
  Qed.

  (* ---------------------------------------------------------------- fields that use struct_ok *)
  Hypothesis Hok : struct_ok t.

  Lemma zero_in_ids : In 0 (wf_ids t).
  Proof.
    destruct (parse_teal_blocks p t Hparse) as (bs & Hbs).
    apply wf_ids_In. left. apply (main_reach p t bs Hparse Hbs). constructor.
  Qed.

  (* so_entries: the entry block has no local predecessor, so it is no return point *)
  Theorem whole_entry_ok : entry_ok_P f.
  Proof.
    destruct (parse_teal_blocks p t Hparse) as (bs & Hbs).
    destruct (wf_ids_tblock p t bs Hparse Hbs 0 zero_in_ids) as (eb & Heb).
    exists eb. split.
    - change (fn_entry f) with 0. apply fblock_whole. split; [exact zero_in_ids | exact Heb].
    - unfold is_sub_return_point. rewrite (so_entries t Hok 0 eb (or_introl eq_refl) Heb). reflexivity.
  Qed.

  (* so_entries (targets of callsub blocks) and so_retpoints (targets of plain blocks) *)
  Theorem whole_target_not_rp : target_not_rp_P f.
  Proof.
    destruct (parse_teal_blocks p t Hparse) as (bs & Hbs).
    intros b blk nx b' xb' Hb Hnr Hnx Hin Hb'.
    destruct (proj1 (fblock_whole t b blk) Hb) as [Hbi Htb].
    destruct (proj1 (fblock_whole t b' xb') Hb') as [Hb'i Htb'].
    rewrite f_is_retsub_whole in Hnr.
    destruct (is_callsub_block t blk) eqn:Hc.
    - (* callsub block: the target is the entry of the callee *)
      destruct (callsub_exit t blk Hc) as (l & He).
      destruct (callsub_closure p t Hparse b blk l Hb He) as (s & Hfs & Hsw & _).
      rewrite (next_global_callsub t blk l s He Hfs) in Hnx. inversion Hnx; subst nx.
      destruct Hin as [<-|[]].
      assert (Hent : s_entry s = 0 \/ exists s0, In s0 (t_subs t) /\ s_entry s = s_entry s0).
      { right. exists s. split; [apply wf_subs_sub; assumption | reflexivity]. }
      unfold is_sub_return_point. rewrite (so_entries t Hok (s_entry s) xb' Hent Htb'). reflexivity.
    - (* plain block: a local edge; a return point is entered from its callsub block only *)
      rewrite (next_global_plain t blk Hnr Hc) in Hnx. inversion Hnx; subst nx.
      destruct (is_sub_return_point f xb') eqn:Hrp; [|reflexivity]. exfalso.
      destruct (is_rp_callsub_block t xb' Hrp) as (c & Hcc).
      destruct (callsub_block_of_some t xb' c Hcc) as (Hcp & cb & Hcb & Hcs).
      pose proof (proj2 (proj1 (fblock_whole t c cb) Hcb)) as Htc.
      assert (Hbc : In b' (b_next cb)) by (apply (tblock_mirror p t c b' cb xb' Hparse Htc Htb'); assumption).
      assert (Hxp : In b (b_prev xb')) by (apply (tblock_mirror p t b b' blk xb' Hparse Htb Htb'); assumption).
      pose proof (so_retpoints t Hok c cb b' xb' b Htc Hcs Hbc Htb' Hxp) as E. subst c.
      rewrite Hb in Hcb. inversion Hcb; subst cb. congruence.
  Qed.

  (* so_main_disj / so_sub_disj: the subroutine assigned to a block is the one whose block set contains it *)
  Theorem whole_sub_of : sub_of_P f.
  Proof.
    intros l s b Hs Hin. rewrite f_find_sub_whole in Hs. apply find_sub_some in Hs.
    destruct Hs as [Hs Hname]. rewrite <- Hname. exact (f_sub_of_sub t Hok s b Hs Hin).
  Qed.

  Theorem whole_ret_in_next : ret_in_next_P f.
  Proof. exact (ret_in_next_from f whole_sub_of whole_callsub_one_next). Qed.

  (* ---------------------------------------------------------------- the record *)
  Theorem whole_graph_ok : graph_ok f.
  Proof.
    destruct (parse_teal_blocks p t Hparse) as (bs & Hbs).
    constructor.
    - exact (whole_cover_prev p t bs Hparse Hbs Hok).
    - exact (whole_cover_ret p t Hparse).
    - exact (whole_cover_next p t bs Hparse Hbs Hok).
    - exact (whole_cover_call p t bs Hparse Hbs).
    - exact whole_entry_ok.
    - exact whole_target_not_rp.
    - exact whole_sub_entry_in.
    - exact whole_sub_closed.
    - exact whole_ret_in_next.
    - exact (whole_forward_cover p t bs Hparse Hbs).
    - exact (whole_backward_cover p t bs Hparse Hbs).
    - exact whole_ins_nodup.
    - exact whole_next_nodup_P.
    - exact whole_branch_labels.
  Qed.
End WholeOk.

(* ================================================================== the main theorem *)
Theorem graph_ok_whole_function p t :
  parse_teal p = Ok t -> struct_ok t -> graph_ok (whole_function t).
Proof. intros H Hok. exact (whole_graph_ok p t H Hok). Qed.

Corollary graph_ok_whole_function_b p t :
  parse_teal p = Ok t -> struct_okb t = true -> graph_ok (whole_function t).
Proof. intros H Hb. apply (graph_ok_whole_function p t H). apply struct_okb_sound. exact Hb. Qed.

(* the fields that hold for every parsed contract *)
Theorem graph_ok_unconditional_fields p t :
  parse_teal p = Ok t ->
  let f := whole_function t in
  sub_entry_in_P f /\ sub_closed_P f /\ callsub_one_next_P f /\
  ins_nodup_P f /\ next_nodup_P f /\ branch_labels_P f.
Proof.
  intros H f.
  split; [exact (whole_sub_entry_in p t H)|].
  split; [exact (whole_sub_closed p t H)|].
  split; [exact (whole_callsub_one_next p t H)|].
  split; [exact (whole_ins_nodup p t H)|].
  split; [exact (whole_next_nodup_P p t H) | exact (whole_branch_labels p t H)].
Qed.

Print Assumptions graph_ok_whole_function.
Print Assumptions graph_ok_whole_function_b.
Print Assumptions graph_ok_unconditional_fields.

(* struct_ok cannot be dropped: the loop back to the entry block (GraphWf.ex_loop) parses, and its function
   violates cover_next_P, hence graph_ok *)
Example graph_ok_whole_function_needs_struct_ok :
  exists p t, parse_teal p = Ok t /\ ~ graph_ok (whole_function t).
Proof.
  exists ex_loop_prog. pose proof ex_loop_reason as Hr. unfold func_of_lines in Hr.
  rewrite ex_loop_parses in Hr.
  destruct (parse_teal ex_loop_prog) as [t|e] eqn:Ep; [|discriminate].
  exists t. split; [reflexivity|]. intros Hg.
  assert (Hn : cover_next_b (whole_function t) = true).
  { apply cover_next_complete; [apply fn_blocks_fblock | exact (g_cover_next _ Hg)]. }
  simpl in Hr. rewrite Hn in Hr. inversion Hr.
Qed.

(* ================================================================== end-to-end corollaries for source programs *)
(* C09: fee bound *)
Theorem C09_sound_program p t e sem fee bc fuel lo cfgs :
  parse_teal p = Ok t -> struct_ok t ->
  let f := whole_function t in
  sem_ok e sem -> env_ok e -> fn_intcs f = e_intcs e ->
  e_field e (e_own e) "Fee" = VInt fee -> (0 <= fee <= MAX_UINT64z)%Z ->
  fee_leaves_ok f KSelf ->
  init_constraints feeval fee_universal_set fee_null_set fee_union fee_intersection
    (fee_single (fn_intcs f) KSelf) f = Some bc ->
  solve feeval feeval_eqb fee_universal_set fee_null_set fee_union fee_intersection
    (fee_single (fn_intcs f) KSelf) f fuel bc = Done lo ->
  Accepts e sem f cfgs ->
  forall b st, In (b, st) cfgs -> exists v, lookup feeval lo b = Some v /\ fee_gamma v fee.
Proof.
  intros H Hok f Hsem Henv Hi.
  exact (C09_sound e sem f fee bc fuel lo cfgs Hsem Henv Hi (graph_ok_whole_function p t H Hok)).
Qed.

(* C06 (sz = true: GroupSize, sz = false: GroupIndex), with the D2 exclusion *)
Theorem C06_sound_partial_program p t e sem sz fuel lo cfgs :
  parse_teal p = Ok t -> struct_ok t ->
  let f := whole_function t in
  sem_ok e sem -> env_ok e -> fn_intcs f = e_intcs e ->
  int_leaves_ok f sz ->
  run_int f fuel sz = Done lo ->
  Accepts e sem f cfgs ->
  forall b st, In (b, st) cfgs -> exists v, lookup (list Z) lo b = Some v /\ In (int_value sz e) v.
Proof.
  intros H Hok f Hsem Henv Hi.
  exact (C06_sound_partial e sem f sz fuel lo cfgs Hsem Henv Hi (graph_ok_whole_function p t H Hok)).
Qed.

(* C08: address fields *)
Theorem C08_sound_partial_program p t e sem fld a bc fuel lo cfgs :
  parse_teal p = Ok t -> struct_ok t ->
  let f := whole_function t in
  sem_ok e sem -> env_ok e -> fn_intcs f = e_intcs e ->
  In fld addr_fields_list ->
  e_field e (e_own e) fld = VAddr a -> a <> "ZERO" -> is_marker a = false ->
  addr_leaves_ok e f KSelf fld ->
  init_constraints sset addr_universal_set addr_null_set addr_union addr_intersection
    (addr_single (fn_intcs f) KSelf fld) f = Some bc ->
  solve sset sset_seteqb addr_universal_set addr_null_set addr_union addr_intersection
    (addr_single (fn_intcs f) KSelf fld) f fuel bc = Done lo ->
  Accepts e sem f cfgs ->
  forall b st, In (b, st) cfgs -> exists v, lookup sset lo b = Some v /\ addr_gamma v (abs_name e a).
Proof.
  intros H Hok f Hsem Henv Hi.
  exact (C08_sound_partial e sem f fld a bc fuel lo cfgs Hsem Henv Hi (graph_ok_whole_function p t H Hok)).
Qed.

(* the same with the executable structural check *)
Corollary C09_sound_program_b p t e sem fee bc fuel lo cfgs :
  parse_teal p = Ok t -> struct_okb t = true ->
  let f := whole_function t in
  sem_ok e sem -> env_ok e -> fn_intcs f = e_intcs e ->
  e_field e (e_own e) "Fee" = VInt fee -> (0 <= fee <= MAX_UINT64z)%Z ->
  fee_leaves_ok f KSelf ->
  init_constraints feeval fee_universal_set fee_null_set fee_union fee_intersection
    (fee_single (fn_intcs f) KSelf) f = Some bc ->
  solve feeval feeval_eqb fee_universal_set fee_null_set fee_union fee_intersection
    (fee_single (fn_intcs f) KSelf) f fuel bc = Done lo ->
  Accepts e sem f cfgs ->
  forall b st, In (b, st) cfgs -> exists v, lookup feeval lo b = Some v /\ fee_gamma v fee.
Proof. intros H Hb. exact (C09_sound_program p t e sem fee bc fuel lo cfgs H (struct_okb_sound t Hb)). Qed.

Print Assumptions C09_sound_program.
Print Assumptions C06_sound_partial_program.
Print Assumptions C08_sound_partial_program.
Print Assumptions C09_sound_program_b.

(* ================================================================== a concrete program with one subroutine *)
Definition ex_sub_lines : list string :=
  ["#pragma version 6"; "txn Fee"; "int 1000"; "<="; "bz fail"; "callsub check"; "int 1"; "return";
   "fail:"; "err";
   "check:"; "txn RekeyTo"; "global ZeroAddress"; "=="; "assert"; "retsub"].

Definition ex_sub_prog : prog :=
  Eval vm_compute in match parse_program (unlines ex_sub_lines) with Ok p => p | Err _ => [] end.

Definition ex_sub_teal : teal :=
  Eval vm_compute in
    match parse_teal ex_sub_prog with
    | Ok t => t
    | Err _ => mkTeal 0 MAny [] [] [] (mkSub "" 0 [] []) [] None
    end.

Example ex_sub_parses : parse_program (unlines ex_sub_lines) = Ok ex_sub_prog.
Proof. vm_compute. reflexivity. Qed.

Example ex_sub_teal_parses : parse_teal ex_sub_prog = Ok ex_sub_teal.
Proof. vm_compute. reflexivity. Qed.

(* exactly one subroutine, which is used by the function *)
Example ex_sub_one_subroutine :
  map s_name (t_subs ex_sub_teal) = ["check"] /\ map s_name (fn_subs (whole_function ex_sub_teal)) = ["check"].
Proof. vm_compute. split; reflexivity. Qed.

Example ex_sub_struct_okb : struct_okb ex_sub_teal = true.
Proof. vm_compute. reflexivity. Qed.

Example ex_sub_graph_ok : graph_ok (whole_function ex_sub_teal).
Proof. exact (graph_ok_whole_function_b ex_sub_prog ex_sub_teal ex_sub_teal_parses ex_sub_struct_okb). Qed.

(* the boolean graph check of GraphWf agrees *)
Example ex_sub_graph_wf : graph_wf (whole_function ex_sub_teal) = true.
Proof. vm_compute. reflexivity. Qed.

Print Assumptions ex_sub_graph_ok.
