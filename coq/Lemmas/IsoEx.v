(* Non-vacuity of Lemmas/IsoLemmas.v: two concrete parsed programs that differ by moving a whole subroutine body.
   P  = main ; s1-body ; s2-body        P' = main ; s2-body ; s1-body
   The model's check accepts the pair under the induced renamings (blocks: swap_shift 3 1 3, positions:
   swap_shift 9 6 8), both analyses terminate, and the reported paths are the renamed paths (a non-empty list that
   visits the moved blocks), while the detectors that are silent on P are silent on P'. *)
From Coq Require Import String List NArith ZArith Bool Arith Ascii.
From Tealer Require Import Tables LeafPrelude Leaves Syntax Parse Cfg StackAst Keys Analysis Domains Detect IsoLemmas.
Import ListNotations.
Open Scope string_scope.
Open Scope list_scope.

Definition ie_nl : string := String "010"%char EmptyString.
Definition ie_dummy_teal : teal := mkTeal 0 MAny [] [] [] (mkSub "" 0 [] []) [] None.
Definition ie_parse (s : string) : res teal :=
  match parse_program s with Ok p => parse_teal p | Err e => Err e end.

Definition ie_main : list string :=
  [ "#pragma version 6"; "txn Fee"; "int 1000"; "<="; "assert"; "callsub s1"; "callsub s2"; "int 1"; "return" ].
Definition ie_s1 : list string :=
  [ "s1:"; "txn RekeyTo"; "global ZeroAddress"; "=="; "assert"; "retsub" ].
Definition ie_s2 : list string :=
  [ "s2:"; "txn CloseRemainderTo"; "global ZeroAddress"; "=="; "bz bad"; "retsub"; "bad:"; "err" ].

Definition ie_src : string := String.concat ie_nl (ie_main ++ ie_s1 ++ ie_s2).
Definition ie_src' : string := String.concat ie_nl (ie_main ++ ie_s2 ++ ie_s1).

Definition ie_t : teal := Eval vm_compute in match ie_parse ie_src with Ok t => t | Err _ => ie_dummy_teal end.
Definition ie_t' : teal := Eval vm_compute in match ie_parse ie_src' with Ok t => t | Err _ => ie_dummy_teal end.
Example ie_parse_ok : ie_parse ie_src = Ok ie_t /\ ie_parse ie_src' = Ok ie_t'.
Proof. split; vm_compute; reflexivity. Qed.

Definition ie_f : func := whole_function ie_t.
Definition ie_f' : func := whole_function ie_t'.
Definition ie_r : nat -> nat := swap_shift 3 1 3.     (* block s1 = 3 moves behind the three blocks of s2 *)
Definition ie_g : nat -> nat := swap_shift 9 6 8.     (* the 6 instructions of s1 move behind the 8 of s2 *)

(* the two functions really differ ... *)
Example ie_differ : map b_idx (fn_blocks ie_f) = [0; 1; 2; 3; 4; 6; 5] /\
                    map b_idx (fn_blocks ie_f') = [0; 1; 2; 6; 3; 5; 4] /\
                    map b_ins (fn_blocks ie_f) <> map b_ins (fn_blocks ie_f').
Proof. repeat split; try (vm_compute; reflexivity). vm_compute. discriminate. Qed.

(* ... and the model's check accepts the pair *)
Example ie_iso_check : iso_check ie_r ie_g ie_f ie_f' = true.
Proof. vm_compute. reflexivity. Qed.

Example ie_fiso : fiso ie_r ie_g ie_f ie_f'.
Proof. apply iso_check_sound; [apply swap_shift_inj|apply swap_shift_inj|exact ie_iso_check]. Qed.

Definition ie_res : fn_result :=
  Eval vm_compute in match run_all ie_f 100 with Done r => r | _ => mkRes [] [] [] [] [] end.
Example ie_run_all : run_all ie_f 100 = Done ie_res.
Proof. vm_compute. reflexivity. Qed.

(* both sides computed independently: the result on P' is the renamed result on P *)
Example ie_run_all' : run_all ie_f' 100 = Done (ren_result ie_r ie_res).
Proof. vm_compute. reflexivity. Qed.

(* can-close-asset reports one path through main, s1, s2; on P' the same path with the moved blocks renamed *)
Example ie_paths :
  run_detector ie_f ie_res 100 "can-close-asset" checks_can_close_asset = Done [[0; 3; 1; 4; 5; 2]] /\
  run_detector ie_f' (ren_result ie_r ie_res) 100 "can-close-asset" checks_can_close_asset = Done [[0; 6; 1; 3; 4; 2]] /\
  map (map ie_r) [[0; 3; 1; 4; 5; 2]] = [[0; 6; 1; 3; 4; 2]].
Proof. repeat split; vm_compute; reflexivity. Qed.

(* rekey-to and can-close-account are silent on both *)
Example ie_silent :
  run_detector ie_f ie_res 100 "rekey-to" checks_rekey_to = Done [] /\
  run_detector ie_f' (ren_result ie_r ie_res) 100 "rekey-to" checks_rekey_to = Done [] /\
  run_detector ie_f ie_res 100 "can-close-account" checks_can_close_account = Done [] /\
  run_detector ie_f' (ren_result ie_r ie_res) 100 "can-close-account" checks_can_close_account = Done [].
Proof. repeat split; vm_compute; reflexivity. Qed.

(* the theorem applied: all nine detectors at once *)
Example ie_theorem : forall name checks fuel',
  run_detector ie_f' (ren_result ie_r ie_res) fuel' name checks =
  omap (ren_paths ie_r) (run_detector ie_f ie_res fuel' name checks).
Proof.
  intros name checks fuel'.
  destruct (iso_verdicts ie_r ie_g ie_f ie_f' ie_fiso 100) as [_ H]. destruct (H ie_res) as [_ [_ Hd]]. apply Hd.
Qed.
