(* L5: soundness of the forward / backward dataflow passes (and of Domains.solve) along interprocedural runs
   (Spec/Runs.v): every value that passes along an accepting run whose calls all return is in the analysis
   result of every block on the run. *)
From Coq Require Import String List NArith ZArith Bool Arith Lia.
From Tealer Require Import Tables Syntax Parse Cfg StackAst Keys Analysis.
From Tealer Require Domains.
From Tealer Require Import SolverLemmas Runs.
Import ListNotations.
Open Scope list_scope.

(* ================================================================== 1. runs: generic facts *)
Section RunFacts.
  Variable f : func.
  Notation rstep := (Runs.rstep f).
  Notation RunFrom := (Runs.RunFrom f).

  Lemma RunFrom_head c cfgs : RunFrom c cfgs -> exists rest, cfgs = c :: rest.
  Proof. intros H. inversion H; subst; eauto. Qed.

  Lemma RunFrom_In_head c cfgs : RunFrom c cfgs -> In c cfgs.
  Proof. intros H. destruct (RunFrom_head _ _ H) as [rest ->]. left. reflexivity. Qed.

  Lemma last_cons_RunFrom c c' rest d : RunFrom c' rest -> last (c :: rest) d = last rest d.
  Proof. intros H. destruct (RunFrom_head _ _ H) as [r ->]. reflexivity. Qed.

  Lemma snoc_split (A : Type) (st st' : list A) cs cs' ext :
    st ++ cs :: ext = st' ++ [cs'] ->
    (ext = [] /\ st' = st /\ cs' = cs) \/ (exists ext', ext = ext' ++ [cs'] /\ st' = st ++ cs :: ext').
  Proof.
    induction ext as [|e ext' _] using rev_ind; intros H.
    - left. apply app_inj_tail in H. destruct H; subst; auto.
    - right. exists ext'.
      assert (H' : (st ++ cs :: ext') ++ [e] = st' ++ [cs']) by (rewrite <- app_assoc; exact H).
      apply app_inj_tail in H'. destruct H'; subst; auto.
  Qed.

  (* a step out of a block: the block is not a leaf *)
  Lemma rstep_not_leaf b st c' blk : rstep (b, st) c' -> fblock f b = Some blk -> leaf_global f blk = false.
  Proof.
    intros H Hb. unfold leaf_global, f_is_retsub, f_is_callsub.
    inversion H as [b0 st0 blk0 l s Hb0 Hop Hs|b0 st0 cs blk0 cb rp Hb0 Hop Hcs Hrp|b0 st0 blk0 b' Hb0 Hc Hr Hn];
      subst; rewrite Hb in Hb0; inversion Hb0; subst blk0.
    - rewrite Hop. rewrite andb_false_r. reflexivity.
    - rewrite Hop. simpl. rewrite andb_false_r. reflexivity.
    - destruct (b_next blk); [contradiction|reflexivity].
  Qed.

  (* ---------------------------------------------------------------- calls return.
     If the run ends with an empty stack, every frame cs that is on the stack somewhere on the run (in
     particular the frame pushed by a CALL step) is popped later on the run by a RET step, from a retsub
     block r executing in exactly that frame to the return point of cs, with the stack below restored. *)
  Lemma call_returns : forall c cfgs, RunFrom c cfgs ->
    forall st cs ext d, snd c = st ++ cs :: ext -> snd (last cfgs d) = [] ->
    exists pre r cb rp post,
      cfgs = pre ++ (r, st ++ [cs]) :: (rp, st) :: post /\
      rstep (r, st ++ [cs]) (rp, st) /\
      fblock f cs = Some cb /\ sub_return_point cb = Some rp.
  Proof.
    induction 1 as [c|c c' rest Hstep Hrun IH]; intros st cs ext d Hc Hlast.
    - simpl in Hlast. rewrite Hc in Hlast. destruct st; discriminate.
    - rewrite (last_cons_RunFrom c c' rest d Hrun) in Hlast.
      assert (Hrec : forall ext', snd c' = st ++ cs :: ext' ->
                exists pre r cb rp post,
                  c :: rest = pre ++ (r, st ++ [cs]) :: (rp, st) :: post /\
                  rstep (r, st ++ [cs]) (rp, st) /\ fblock f cs = Some cb /\ sub_return_point cb = Some rp).
      { intros ext' He. destruct (IH st cs ext' d He Hlast) as [pre [r [cb [rp [post [E R]]]]]].
        exists (c :: pre), r, cb, rp, post. split; [rewrite E; reflexivity|exact R]. }
      inversion Hstep as [b st0 blk l s Hb Hop Hs|b st0 cs0 blk cb rp Hb Hop Hcs Hrp|b st0 blk b' Hb Hnc Hnr Hn]; subst; simpl in Hc.
      + (* CALL *) apply (Hrec (ext ++ [b])). simpl. rewrite Hc, <- app_assoc. reflexivity.
      + (* RET *) symmetry in Hc. apply snoc_split in Hc.
        destruct Hc as [[-> [-> ->]]|[ext' [-> ->]]].
        * destruct (RunFrom_head _ _ Hrun) as [rest' ->].
          exists [], b, cb, rp, rest'. repeat split; auto.
        * apply (Hrec ext'). reflexivity.
      + (* EDGE *) apply (Hrec ext). exact Hc.
  Qed.

  (* a suffix of a run is a run from its first configuration, with the same last configuration *)
  Lemma RunFrom_suffix : forall c cfgs, RunFrom c cfgs ->
    forall pre c1 post, cfgs = pre ++ c1 :: post -> RunFrom c1 (c1 :: post).
  Proof.
    induction 1 as [c|c c' rest Hstep Hrun IH]; intros pre c1 post E.
    - destruct pre as [|p pre]; simpl in E.
      + inversion E; subst. constructor.
      + inversion E. destruct pre; discriminate.
    - destruct pre as [|p pre]; simpl in E.
      + inversion E; subst. econstructor; eauto.
      + inversion E; subst. eapply IH; eauto.
  Qed.

  Lemma last_app_cons (A : Type) (pre : list A) a post d : last (pre ++ a :: post) d = last (a :: post) d.
  Proof.
    induction pre as [|p pre IH]; auto.
    rewrite <- IH. simpl. destruct (pre ++ a :: post) eqn:E; auto. destruct pre; discriminate.
  Qed.

  (* what Spec/Runs.returns_all means: every CALL step of the run (b pushes itself and enters e) is matched,
     later on the run, by the RET step that pops b and resumes at b's return point *)
  Theorem returns_all_matched cfgs :
    Run f cfgs -> returns_all f cfgs ->
    forall pre b st e post, cfgs = pre ++ (b, st) :: (e, st ++ [b]) :: post ->
    exists mid r cb rp post',
      (e, st ++ [b]) :: post = mid ++ (r, st ++ [b]) :: (rp, st) :: post' /\
      rstep (r, st ++ [b]) (rp, st) /\
      fblock f b = Some cb /\ sub_return_point cb = Some rp.
  Proof.
    intros Hrun Hret pre b st e post E. unfold returns_all, final in Hret.
    assert (E' : cfgs = (pre ++ [(b, st)]) ++ (e, st ++ [b]) :: post) by (rewrite <- app_assoc; exact E).
    pose proof (RunFrom_suffix _ _ Hrun _ _ _ E') as Hsuf.
    rewrite E', last_app_cons in Hret.
    exact (call_returns _ _ Hsuf st b [] _ eq_refl Hret).
  Qed.

  (* ---------------------------------------------------------------- the activation invariant.
     in_act st b: block b belongs to the subroutine whose activation is innermost in st (no constraint in main) *)
  Definition in_act (st : list nat) (b : nat) : Prop :=
    forall st' cs, st = st' ++ [cs] ->
      exists cb l s, fblock f cs = Some cb /\ fexit_op f cb = Some (ICallsub l) /\ f_find_sub f l = Some s /\
                     In b (s_blocks s).
  (* every frame's callsub block belongs to the activation below it *)
  Definition stack_ok (st : list nat) : Prop :=
    forall st' cs ext, st = st' ++ cs :: ext -> in_act st' cs.
  Definition act_inv (c : rconfig) : Prop := stack_ok (snd c) /\ in_act (snd c) (fst c).

  (* subroutine block sets contain the entry and are closed under local successors
     (s_blocks is the DFS closure of the entry over b_next) *)
  Definition sub_entry_in_P : Prop :=
    forall l s, f_find_sub f l = Some s -> In (s_entry s) (s_blocks s).
  Definition sub_closed_P : Prop :=
    forall l s b blk b', f_find_sub f l = Some s -> In b (s_blocks s) -> fblock f b = Some blk ->
      In b' (b_next blk) -> In b' (s_blocks s).

  Lemma in_act_next st b blk b' :
    sub_closed_P -> in_act st b -> fblock f b = Some blk -> In b' (b_next blk) -> in_act st b'.
  Proof.
    intros Hcl Hin Hb Hn st' cs E. destruct (Hin st' cs E) as [cb [l [s [H1 [H2 [H3 H4]]]]]].
    exists cb, l, s. repeat split; auto. eapply Hcl; eauto.
  Qed.

  Lemma act_inv_step c c' : sub_entry_in_P -> sub_closed_P -> rstep c c' -> act_inv c -> act_inv c'.
  Proof.
    intros Hen Hcl Hstep [Hso Hin]. inversion Hstep as [b st0 blk l s Hb Hop Hs|b st0 cs0 blk cb rp Hb Hop Hcs Hrp|b st0 blk b' Hb Hnc Hnr Hn]; subst; simpl in *.
    - (* CALL *) split.
      + intros st' cs ext E. simpl in E. symmetry in E. apply snoc_split in E.
        destruct E as [[-> [E1 E2]]|[ext' [-> E1]]].
        * subst. exact Hin.
        * eapply Hso. exact E1.
      + intros st' cs E. simpl in E. apply app_inj_tail in E. destruct E as [_ <-].
        exists blk, l, s. repeat split; auto. eapply Hen; eauto.
    - (* RET *) split.
      + intros st' c0 ext E. simpl in E. apply (Hso st' c0 (ext ++ [cs0])). rewrite E, <- app_assoc. reflexivity.
      + assert (Hcs0 : in_act st0 cs0) by (apply (Hso st0 cs0 []); reflexivity).
        eapply in_act_next; eauto.
        unfold sub_return_point in Hrp. destruct (b_next cb); [discriminate|]. inversion Hrp. left. reflexivity.
    - (* EDGE *) split; auto. eapply in_act_next; eauto.
  Qed.

  Lemma act_inv_run : sub_entry_in_P -> sub_closed_P ->
    forall c cfgs, RunFrom c cfgs -> act_inv c -> forall c', In c' cfgs -> act_inv c'.
  Proof.
    intros Hen Hcl. induction 1 as [c|c c1 rest Hstep Hrun IH]; intros Hc c' Hin.
    - destruct Hin as [<-|[]]. exact Hc.
    - destruct Hin as [<-|Hin]; auto. apply IH; auto. eapply act_inv_step; eauto.
  Qed.

  Lemma act_inv_init b : act_inv (b, []).
  Proof.
    split.
    - intros st' cs ext E. destruct st'; discriminate.
    - intros st' cs E. destruct st'; discriminate.
  Qed.

  (* a retsub block executing in the frame of cs is one of the callee's retsub blocks *)
  Lemma act_retsub st cs r rblk :
    in_act (st ++ [cs]) r -> fblock f r = Some rblk -> f_is_retsub f rblk = true ->
    exists cb l s, fblock f cs = Some cb /\ fexit_op f cb = Some (ICallsub l) /\ f_find_sub f l = Some s /\
                   In r (s_blocks s) /\ In r (sub_retsub_blocks f s).
  Proof.
    intros Hin Hr Hret. destruct (Hin st cs eq_refl) as [cb [l [s [H1 [H2 [H3 H4]]]]]].
    exists cb, l, s. repeat split; auto.
    unfold sub_retsub_blocks. apply filter_In. split; auto. rewrite Hr. exact Hret.
  Qed.

  (* ---------------------------------------------------------------- run_passes, unfolded along the run *)
  Section Adm.
    Variable okb : nat -> Prop.
    Variable oke : nat -> nat -> Prop.
    Lemma passes_tail c rest : run_passes okb oke (c :: rest) -> run_passes okb oke rest.
    Proof.
      intros [H1 H2]. split.
      - intros c' Hin. apply H1. right. exact Hin.
      - intros pre a a' post E. apply (H2 (c :: pre) a a' post). rewrite E. reflexivity.
    Qed.
    Lemma passes_head c rest : run_passes okb oke (c :: rest) -> okb (fst c).
    Proof. intros [H1 _]. apply H1. left. reflexivity. Qed.
    Lemma passes_edge c c' rest : run_passes okb oke (c :: c' :: rest) -> oke (fst c) (fst c').
    Proof. intros [_ H2]. apply (H2 [] c c' rest). reflexivity. Qed.
  End Adm.

  (* ---------------------------------------------------------------- graph facts about return steps *)
  (* the subroutine a block is assigned to is the one whose block set contains it (block sets are disjoint) *)
  Definition sub_of_P : Prop :=
    forall l s b, f_find_sub f l = Some s -> In b (s_blocks s) -> f_sub_of f b = Some l.
  (* a callsub block has at most one local successor, its return point *)
  Definition callsub_one_next_P : Prop :=
    forall b blk, fblock f b = Some blk -> f_is_callsub f blk = true -> length (b_next blk) <= 1.

  (* RET steps follow next_global: the return point of any caller of l is a global successor of the retsub blocks of l *)
  Definition ret_in_next_P : Prop :=
    forall r rblk cs cb l s rp nx,
      fblock f r = Some rblk -> f_is_retsub f rblk = true ->
      fblock f cs = Some cb -> fexit_op f cb = Some (ICallsub l) -> f_find_sub f l = Some s ->
      In r (s_blocks s) -> sub_return_point cb = Some rp ->
      next_global f rblk = Some nx -> In rp nx.

  Lemma ret_in_next_from : sub_of_P -> callsub_one_next_P -> ret_in_next_P.
  Proof.
    intros Hso Hone r rblk cs cb l s rp nx Hr Hret Hcs Hop Hs Hin Hrp Hnx.
    unfold next_global in Hnx. rewrite Hret in Hnx.
    rewrite (fblock_idx _ _ _ Hr), (Hso l s r Hs Hin) in Hnx.
    destruct (f_used_sub f l); [|discriminate]. inversion Hnx; subst nx.
    unfold f_return_points. apply in_flat_map. exists cb. split.
    - unfold f_callers. apply filter_In. split; [eapply fblock_In; eauto|].
      rewrite Hop. apply String.eqb_refl.
    - assert (Hc : f_is_callsub f cb = true) by (unfold f_is_callsub; rewrite Hop; reflexivity).
      pose proof (Hone cs cb Hcs Hc) as Hlen.
      unfold sub_return_point in Hrp. destruct (b_next cb) as [|x [|y t]]; [discriminate| |simpl in Hlen; lia].
      inversion Hrp. left. reflexivity.
  Qed.

  (* ---------------------------------------------------------------- further graph facts used by the soundness proofs *)
  (* the entry is a block and is not the return point of a callsub *)
  Definition entry_ok_P : Prop :=
    exists eb, fblock f (fn_entry f) = Some eb /\ is_sub_return_point f eb = false.
  (* return points are entered by RET steps only: no global successor of a non-retsub block is a return point
     (excludes finding D3: a return point that is also a jump target) *)
  Definition target_not_rp_P : Prop :=
    forall b blk nx b' xb', fblock f b = Some blk -> f_is_retsub f blk = false ->
      next_global f blk = Some nx -> In b' nx -> fblock f b' = Some xb' -> is_sub_return_point f xb' = false.
  (* next_blocks_global is defined on every block (init_constraints evaluates it eagerly) *)
  Definition next_defined_P : Prop :=
    forall b blk, fblock f b = Some blk -> exists nx, next_global f blk = Some nx.

  Lemma next_global_call blk l s :
    fexit_op f blk = Some (ICallsub l) -> f_find_sub f l = Some s -> next_global f blk = Some [s_entry s].
  Proof. intros Hop Hs. unfold next_global, f_is_retsub. rewrite Hop, Hs. reflexivity. Qed.

  Lemma next_global_edge blk :
    f_is_callsub f blk = false -> f_is_retsub f blk = false -> next_global f blk = Some (b_next blk).
  Proof.
    intros Hc Hr. unfold next_global. rewrite Hr. unfold f_is_callsub in Hc.
    destruct (fexit_op f blk) as [[]|]; try reflexivity; discriminate.
  Qed.

  Lemma retsub_of_op blk : fexit_op f blk = Some IRetsub -> f_is_retsub f blk = true.
  Proof. intros H. unfold f_is_retsub. rewrite H. reflexivity. Qed.
  Lemma not_retsub_of_call blk l : fexit_op f blk = Some (ICallsub l) -> f_is_retsub f blk = false.
  Proof. intros H. unfold f_is_retsub. rewrite H. reflexivity. Qed.
End RunFacts.

(* ================================================================== 2. soundness of the two passes along runs *)
Section Soundness.
  Variable T : Type.
  Variable t_eqb : T -> T -> bool.
  Variable univ null : T.
  Variable union inter : T -> T -> T.
  Variable single : instr -> nat -> list sval -> T * T.
  Variable f : func.

  (* concretisation, for one fixed concrete value x *)
  Variable V : Type.
  Variable gamma : T -> V -> Prop.
  Variable x : V.
  Hypothesis gamma_univ : gamma univ x.
  Hypothesis gamma_union_l : forall a b, gamma a x -> gamma (union a b) x.
  Hypothesis gamma_union_r : forall a b, gamma b x -> gamma (union a b) x.
  Hypothesis gamma_inter : forall a b, gamma a x -> gamma b x -> gamma (inter a b) x.
  Hypothesis gamma_eqb : forall a b, t_eqb a b = true -> (gamma a x <-> gamma b x).

  Notation state := (Analysis.state T).
  Notation lookup := (Analysis.lookup T).
  Notation reachin := (Analysis.reachin T univ null union inter single f).
  Notation livein := (Analysis.livein T null union inter f).
  Notation edgec := (edge_constraint T univ null union inter single f).
  Notation rst := (SolverLemmas.rstep T univ null union inter single f).
  Notation lst := (SolverLemmas.lstep T union).
  Notation rstep := (Runs.rstep f).
  Notation RunFrom := (Runs.RunFrom f).

  (* block-level constraints (the init_constraints result) *)
  Variable bc : list (nat * T).

  (* x passes block b / x can take the edge b -> b' *)
  Definition okb (b : nat) : Prop := exists c, lookup bc b = Some c /\ gamma c x.
  Definition oke (b b' : nat) : Prop :=
    forall pb c, fblock f b = Some pb -> edgec pb b' = Some c -> gamma c x.

  (* x is in the value the state holds for block b *)
  Definition G (st : state) (b : nat) : Prop := exists v, lookup st b = Some v /\ gamma v x.

  (* ---------------------------------------------------------------- reachin / livein preserve x *)
  Lemma rfold_acc st xb ps : forall a r, fold_left (rst st xb) ps (Some a) = Some r -> gamma a x -> gamma r x.
  Proof.
    induction ps as [|p ps IH]; intros a r H Ha.
    - simpl in H. inversion H; subst; auto.
    - cbn [fold_left] in H.
      destruct (rst st xb (Some a) p) as [a'|] eqn:E; [|rewrite rfold_none in H; discriminate].
      apply (IH a' r H). unfold SolverLemmas.rstep in E.
      destruct (lookup st p); [|discriminate]. destruct (fblock f p) as [pb|]; [|discriminate].
      destruct (edgec pb (b_idx xb)); [|discriminate]. inversion E; subst. auto.
  Qed.

  Lemma rfold_in st xb ps : forall a r p, fold_left (rst st xb) ps (Some a) = Some r ->
    In p ps -> G st p -> oke p (b_idx xb) -> gamma r x.
  Proof.
    induction ps as [|q ps IH]; intros a r p H Hin Hg Ho; [destruct Hin|].
    cbn [fold_left] in H.
    destruct (rst st xb (Some a) q) as [a'|] eqn:E; [|rewrite rfold_none in H; discriminate].
    destruct Hin as [->|Hin]; [|eapply IH; eauto].
    apply (rfold_acc st xb ps a' r H). unfold SolverLemmas.rstep in E.
    destruct Hg as [v [Ev Hv]]. rewrite Ev in E. destruct (fblock f p) as [pb|] eqn:Ep; [|discriminate].
    destruct (edgec pb (b_idx xb)) as [ec|] eqn:Ee; [|discriminate]. inversion E; subst.
    apply gamma_union_r, gamma_inter; auto. eapply Ho; eauto.
  Qed.

  Lemma reachin_sound st xb ri : reachin st xb = Some ri ->
    (b_idx xb = fn_entry f \/
     exists ps p, prev_global f xb = Some ps /\ In p ps /\ G st p /\ oke p (b_idx xb)) ->
    (is_sub_return_point f xb = true -> forall c, callsub_block_of f xb = Some c -> G st c) ->
    gamma ri x.
  Proof.
    rewrite reachin_unfold. intros H Hsrc Hrp.
    destruct (prev_global f xb) as [ps|] eqn:Hps; [|discriminate].
    destruct (fold_left (rst st xb) ps _) as [acc|] eqn:F; [|discriminate].
    assert (Hacc : gamma acc x).
    { destruct Hsrc as [He|[ps' [p [E [Hin [Hg Ho]]]]]].
      - eapply rfold_acc; eauto. apply Nat.eqb_eq in He. rewrite He. exact gamma_univ.
      - inversion E; subst ps'. eapply rfold_in; eauto. }
    destruct (is_sub_return_point f xb).
    - destruct (callsub_block_of f xb) as [c|]; [|discriminate].
      destruct (Hrp eq_refl c eq_refl) as [v [E Hv]]. rewrite E in H. inversion H; subst. auto.
    - inversion H; subst; auto.
  Qed.

  Lemma lfold_acc st nx : forall a r, fold_left (lst st) nx (Some a) = Some r -> gamma a x -> gamma r x.
  Proof.
    induction nx as [|p nx IH]; intros a r H Ha.
    - simpl in H. inversion H; subst; auto.
    - cbn [fold_left] in H.
      destruct (lst st (Some a) p) as [a'|] eqn:E; [|rewrite lfold_none in H; discriminate].
      apply (IH a' r H). unfold lstep in E.
      destruct (lookup st p); [|discriminate]. inversion E; subst. auto.
  Qed.

  Lemma lfold_in st nx : forall a r s, fold_left (lst st) nx (Some a) = Some r -> In s nx -> G st s -> gamma r x.
  Proof.
    induction nx as [|q nx IH]; intros a r s H Hin Hg; [destruct Hin|].
    cbn [fold_left] in H.
    destruct (lst st (Some a) q) as [a'|] eqn:E; [|rewrite lfold_none in H; discriminate].
    destruct Hin as [->|Hin]; [|eapply IH; eauto].
    apply (lfold_acc st nx a' r H). unfold lstep in E.
    destruct Hg as [v [Ev Hv]]. rewrite Ev in E. inversion E; subst. auto.
  Qed.

  Lemma livein_defined_next st xb li : livein st xb = Some li -> exists nx, next_global f xb = Some nx.
  Proof. rewrite livein_unfold. destruct (next_global f xb); [eauto|discriminate]. Qed.

  Lemma livein_sound st xb li : livein st xb = Some li ->
    (forall nx, next_global f xb = Some nx -> exists s, In s nx /\ G st s) ->
    (forall l rp s, fexit_op f xb = Some (ICallsub l) -> sub_return_point xb = Some rp ->
        f_find_sub f l = Some s -> sub_retsub_blocks f s <> [] -> G st rp) ->
    gamma li x.
  Proof.
    rewrite livein_unfold. intros H Hsrc Hrp.
    destruct (next_global f xb) as [nx|] eqn:Hnx; [|discriminate].
    destruct (fold_left (lst st) nx _) as [acc|] eqn:F; [|discriminate].
    assert (Hacc : gamma acc x).
    { destruct (Hsrc nx eq_refl) as [s [Hin Hg]]. eapply lfold_in; eauto. }
    assert (Hdef : Some acc = Some li -> gamma li x) by (intros E; inversion E; subst; auto).
    destruct (fexit_op f xb) as [[]|]; auto.
    destruct (sub_return_point xb) as [rp|]; auto.
    destruct (f_find_sub f _) as [s|] eqn:Es; [|discriminate].
    destruct (sub_retsub_blocks f s) eqn:Er; auto.
    destruct (Hrp _ rp s eq_refl eq_refl Es) as [v [E Hv]]; [rewrite Er; discriminate|].
    rewrite E in H. inversion H; subst. auto.
  Qed.

  (* ================================================================ (A) the forward pass *)
  Section ForwardSound.
    Variable ro : state.
    (* ro satisfies every forward equation (forward_fixpoint_initial) *)
    Hypothesis Hfwd : forall b, In b (ids f) -> fwd_ok T t_eqb univ null union inter single f (lookup bc) ro b.
    Hypothesis cover_next : cover_next_P f.
    Hypothesis cover_call : cover_call_P f.
    Hypothesis entry_ok : entry_ok_P f.
    Hypothesis target_not_rp : target_not_rp_P f.
    Hypothesis sub_entry_in : sub_entry_in_P f.
    Hypothesis sub_closed : sub_closed_P f.
    Hypothesis ret_in_next : ret_in_next_P f.
    Hypothesis next_defined : next_defined_P f.

    Lemma fwd_block_sound b xb :
      fblock f b = Some xb -> okb b -> (forall ri, reachin ro xb = Some ri -> gamma ri x) -> G ro b.
    Proof.
      intros Hb [c [Ec Hc]] Hri.
      destruct (Hfwd b) as [xb' [ri [bcv [old [H1 [H2 [H3 [H4 H5]]]]]]]].
      { apply fblock_ids. eauto. }
      rewrite Hb in H1. inversion H1; subst xb'. rewrite Ec in H3. inversion H3; subst bcv.
      exists old. split; auto. apply (gamma_eqb _ _ H5). apply gamma_inter; auto.
    Qed.

    (* the forward invariant of a configuration *)
    Definition FInv (c : rconfig) : Prop :=
      act_inv f c /\ G ro (fst c) /\ forall cs, In cs (snd c) -> G ro cs.

    Lemma fwd_entry : okb (fn_entry f) -> FInv (fn_entry f, []).
    Proof.
      intros Hok. split; [apply act_inv_init|]. split; [|intros cs []]. simpl.
      destruct entry_ok as [eb [He Hnrp]].
      apply (fwd_block_sound _ eb He Hok). intros ri Hri.
      eapply reachin_sound; eauto.
      - left. eapply fblock_idx; eauto.
      - rewrite Hnrp. discriminate.
    Qed.

    (* a step that follows next_global out of a non-retsub block *)
    Lemma fwd_nonret_target b blk nx b' :
      fblock f b = Some blk -> leaf_global f blk = false -> f_is_retsub f blk = false ->
      next_global f blk = Some nx -> In b' nx ->
      G ro b -> okb b' -> oke b b' -> G ro b'.
    Proof.
      intros Hb Hlf Hnr Hnx Hin Hg Hok Hoe.
      destruct (cover_next b' b blk nx Hb Hlf Hnx Hin) as [bb [ps [Hb' [Hps Hp]]]].
      apply (fwd_block_sound _ bb Hb' Hok). intros ri Hri.
      eapply reachin_sound; eauto.
      - right. exists ps, b. rewrite (fblock_idx _ _ _ Hb'). auto.
      - rewrite (target_not_rp b blk nx b' bb Hb Hnr Hnx Hin Hb'). discriminate.
    Qed.

    Lemma fwd_step c c' : rstep c c' -> okb (fst c') -> oke (fst c) (fst c') -> FInv c -> FInv c'.
    Proof.
      intros Hstep Hok Hoe [Hact [Hg Hst]].
      split; [eapply act_inv_step; eauto|].
      inversion Hstep as [b st0 blk l s Hb Hop Hs|b st0 cs0 blk cb rp Hb Hop Hcs Hrp|b st0 blk b' Hb Hnc Hnr Hn];
        subst; simpl in *.
      - (* CALL *) split.
        + eapply (fwd_nonret_target b blk [s_entry s]); eauto.
          * eapply rstep_not_leaf; eauto.
          * eapply (not_retsub_of_call f blk l); eauto.
          * apply (next_global_call f blk l s); auto.
          * left. reflexivity.
        + intros cs Hin. apply in_app_or in Hin. destruct Hin as [Hin|[<-|[]]]; auto.
      - (* RET *) split; [|intros cs Hin; apply Hst, in_or_app; auto].
        assert (Hret : f_is_retsub f blk = true) by (apply retsub_of_op; auto).
        destruct (act_retsub f st0 cs0 b blk (proj2 Hact) Hb Hret) as [cb' [l [s [H1 [H2 [H3 [H4 H5]]]]]]].
        rewrite Hcs in H1. inversion H1; subst cb'.
        destruct (next_defined b blk Hb) as [nx Hnx].
        pose proof (ret_in_next b blk cs0 cb l s rp nx Hb Hret Hcs H2 H3 H4 Hrp Hnx) as Hin.
        destruct (cover_next rp b blk nx Hb (rstep_not_leaf f _ _ _ _ Hstep Hb) Hnx Hin) as [rb [ps [Hrb [Hps Hp]]]].
        destruct (cover_call cs0 cb l rp s Hcs H2 Hrp H3) as [rb' [Hrb' [Hisrp Hcsb]]].
        { intros E. rewrite E in H5. destruct H5. }
        rewrite Hrb in Hrb'. inversion Hrb'; subst rb'.
        apply (fwd_block_sound _ rb Hrb Hok). intros ri Hri.
        eapply reachin_sound; eauto.
        + right. exists ps, b. rewrite (fblock_idx _ _ _ Hrb). auto.
        + intros _ c Hc. rewrite Hcsb in Hc. inversion Hc; subst c. apply Hst, in_or_app. right. left. reflexivity.
      - (* EDGE *) split; auto.
        eapply (fwd_nonret_target b blk (b_next blk)); eauto.
        + eapply rstep_not_leaf; eauto.
        + apply next_global_edge; auto.
    Qed.

    Lemma fwd_run : forall c cfgs, RunFrom c cfgs -> run_passes okb oke cfgs -> FInv c ->
      forall c', In c' cfgs -> FInv c'.
    Proof.
      induction 1 as [c|c c1 rest Hstep Hrun IH]; intros Hadm Hc c' Hin.
      - destruct Hin as [<-|[]]. exact Hc.
      - destruct Hin as [<-|Hin]; auto.
        destruct (RunFrom_head f _ _ Hrun) as [rest' ->].
        apply IH; auto.
        + eapply passes_tail; eauto.
        + eapply fwd_step; eauto.
          * eapply passes_head, passes_tail; eauto.
          * eapply passes_edge; eauto.
    Qed.

    (* (A) along ANY run that lets x through (accepting or not): x is in the forward value of the current block
       and of every callsub block on the call stack *)
    Theorem forward_sound_gen cfgs :
      Run f cfgs -> run_passes okb oke cfgs ->
      forall c, In c cfgs -> FInv c.
    Proof.
      intros Hrun Hadm. apply (fwd_run _ _ Hrun Hadm).
      apply fwd_entry. destruct (RunFrom_head f _ _ Hrun) as [rest ->].
      apply (passes_head _ _ _ _ Hadm).
    Qed.
  End ForwardSound.

  (* ================================================================ (B) the backward pass *)
  Section BackwardSound.
    Variable ro lo : state.
    (* lo satisfies every backward equation, with the forward result ro as block constraint (backward_fixpoint_initial) *)
    Hypothesis Hbwd : forall b, In b (ids f) -> bwd_ok T t_eqb null union inter f (lookup ro) lo b.
    (* leaves keep the forward value (backward_leaf_unchanged + the start state of Domains.solve) *)
    Hypothesis Hleaf : forall b blk v, fblock f b = Some blk -> leaf_global f blk = true ->
      lookup ro b = Some v -> lookup lo b = Some v.
    Hypothesis ret_in_next : ret_in_next_P f.

    Lemma bwd_block_sound b blk :
      fblock f b = Some blk -> leaf_global f blk = false -> G ro b ->
      (forall li, livein lo blk = Some li -> gamma li x) -> G lo b.
    Proof.
      intros Hb Hlf [v [Ev Hv]] Hli.
      destruct (Hbwd b) as [xb [H1 [H2|[li [bcv [old [H2 [H3 [H4 H5]]]]]]]]].
      { apply fblock_ids. eauto. }
      - rewrite Hb in H1. inversion H1; subst xb. congruence.
      - rewrite Hb in H1. inversion H1; subst xb. rewrite Ev in H3. inversion H3; subst bcv.
        exists old. split; auto. apply (gamma_eqb _ _ H5). apply gamma_inter; auto.
    Qed.

    (* induction from the end of the run *)
    Lemma bwd_suffix d : forall c cfgs, RunFrom c cfgs ->
      (forall c', In c' cfgs -> G ro (fst c') /\ act_inv f c') ->
      snd (last cfgs d) = [] ->
      (exists blk, fblock f (fst (last cfgs d)) = Some blk /\ leaf_global f blk = true) ->
      forall c', In c' cfgs -> G lo (fst c').
    Proof.
      induction 1 as [c|c c1 rest Hstep Hrun IH]; intros Hro Hlast Hlf c' Hin.
      - destruct Hin as [<-|[]]. simpl in Hlf. destruct Hlf as [blk [Hb Hl]].
        destruct (Hro c (or_introl eq_refl)) as [[v [Ev Hv]] _].
        exists v. split; auto. eapply Hleaf; eauto.
      - rewrite (last_cons_RunFrom f c c1 rest d Hrun) in Hlast, Hlf.
        assert (IH' : forall c', In c' rest -> G lo (fst c')).
        { apply IH; auto. intros c0 H0. apply Hro. right; auto. }
        destruct Hin as [<-|Hin]; auto.
        destruct (Hro c (or_introl eq_refl)) as [Hg Hact].
        assert (Hc1 : G lo (fst c1)) by (apply IH'; eapply RunFrom_In_head; eauto).
        inversion Hstep as [b st0 blk l s Hb Hop Hs|b st0 cs0 blk cb rp Hb Hop Hcs Hrp|b st0 blk b' Hb Hnc Hnr Hn];
          subst; simpl in *.
        + (* CALL: livein reads the callee's entry and, if the callee has retsub blocks, the return point,
             which occurs later on the run because the call returns *)
          apply (bwd_block_sound b blk Hb (rstep_not_leaf f _ _ _ _ Hstep Hb) Hg). intros li Hli.
          apply (livein_sound lo blk li Hli).
          * intros nx Hnx. rewrite (next_global_call f blk l s Hop Hs) in Hnx. inversion Hnx; subst nx.
            exists (s_entry s). split; [left; reflexivity|exact Hc1].
          * intros l' rp s' Hop' Hrp' Hs' Hne.
            destruct (call_returns f _ _ Hrun st0 b [] d eq_refl Hlast)
              as [pre [r [cb [rp' [post [E [_ [Hcb Hrp'']]]]]]]].
            rewrite Hb in Hcb. inversion Hcb; subst cb. rewrite Hrp' in Hrp''. inversion Hrp''; subst rp'.
            apply (IH' (rp, st0)). rewrite E. apply in_or_app. right. right. left. reflexivity.
        + (* RET: livein reads the return points of the callee's callers *)
          assert (Hret : f_is_retsub f blk = true) by (apply retsub_of_op; auto).
          destruct (act_retsub f st0 cs0 b blk (proj2 Hact) Hb Hret) as [cb' [l [s [H1 [H2 [H3 [H4 H5]]]]]]].
          rewrite Hcs in H1. inversion H1; subst cb'.
          apply (bwd_block_sound b blk Hb (rstep_not_leaf f _ _ _ _ Hstep Hb) Hg). intros li Hli.
          apply (livein_sound lo blk li Hli).
          * intros nx Hnx. exists rp. split; [|exact Hc1].
            eapply (ret_in_next b blk cs0 cb l s rp nx); eauto.
          * intros l' rp' s' Hop'. rewrite Hop in Hop'. discriminate.
        + (* EDGE *)
          apply (bwd_block_sound b blk Hb (rstep_not_leaf f _ _ _ _ Hstep Hb) Hg). intros li Hli.
          apply (livein_sound lo blk li Hli).
          * intros nx Hnx. rewrite (next_global_edge f blk Hnc Hnr) in Hnx. inversion Hnx; subst nx.
            exists b'. split; auto.
          * intros l' rp' s' Hop'. unfold f_is_callsub in Hnc. rewrite Hop' in Hnc. discriminate.
    Qed.

    (* (B), abstractly: given (A) for the blocks of the run *)
    Theorem backward_sound_gen cfgs :
      AcceptingRun f cfgs -> returns_all f cfgs ->
      (forall c, In c cfgs -> G ro (fst c) /\ act_inv f c) ->
      forall c, In c cfgs -> G lo (fst c).
    Proof.
      intros [Hrun Hacc] Hret Hro. unfold returns_all, final in *.
      eapply bwd_suffix; eauto.
    Qed.
  End BackwardSound.

  (* ================================================================ the concrete passes *)
  Lemma next_defined_of_bwd blockc lo :
    (forall b, In b (ids f) -> bwd_ok T t_eqb null union inter f blockc lo b) -> next_defined_P f.
  Proof.
    intros Hbwd b blk Hb.
    destruct (Hbwd b) as [xb [H1 [H2|[li [bcv [old [H2 _]]]]]]].
    { apply fblock_ids. eauto. }
    - rewrite Hb in H1. inversion H1; subst xb. unfold leaf_global in H2.
      apply andb_true_iff in H2. destruct H2 as [H2 H3]. apply andb_true_iff in H2. destruct H2 as [_ H2].
      apply negb_true_iff in H2, H3. rewrite (next_global_edge f blk H3 H2). eauto.
    - rewrite Hb in H1. inversion H1; subst xb. eapply livein_defined_next; eauto.
  Qed.

  (* init_constraints evaluates next_global on every block *)
  Lemma next_defined_of_init bc0 :
    Domains.init_constraints T univ null union inter single f = Some bc0 -> next_defined_P f.
  Proof.
    unfold Domains.init_constraints. intros H b blk Hb.
    destruct (forallb _ (fn_blocks f)) eqn:E; [|discriminate].
    rewrite forallb_forall in E. specialize (E blk (fblock_In _ _ _ Hb)).
    destruct (next_global f blk); [eauto|discriminate].
  Qed.

  Section Passes.
    Hypothesis teq_refl : forall a, t_eqb a a = true.
    Hypothesis cover_prev : cover_prev_P f.
    Hypothesis cover_ret : cover_ret_P f.
    Hypothesis cover_next : cover_next_P f.
    Hypothesis cover_call : cover_call_P f.
    Hypothesis entry_ok : entry_ok_P f.
    Hypothesis target_not_rp : target_not_rp_P f.
    Hypothesis sub_entry_in : sub_entry_in_P f.
    Hypothesis sub_closed : sub_closed_P f.
    Hypothesis ret_in_next : ret_in_next_P f.

    Notation forward := (Analysis.forward T t_eqb univ null union inter single f).
    Notation backward := (Analysis.backward T t_eqb null union inter f).

    (* (A) for the forward pass started from the all-null state with a covering worklist *)
    Theorem forward_sound fuel wl0 ro cfgs :
      next_defined_P f ->
      (forall b, In b (ids f) -> In b wl0) ->
      forward (lookup bc) fuel wl0 (fwd_st0 T null f) = Done ro ->
      Run f cfgs -> run_passes okb oke cfgs ->
      forall b st, In (b, st) cfgs -> G ro b /\ forall cs, In cs st -> G ro cs.
    Proof.
      intros Hnd Hcov Hfw Hrun Hadm b st Hin.
      assert (Hfix : forall b, In b (ids f) -> fwd_ok T t_eqb univ null union inter single f (lookup bc) ro b)
        by exact (forward_fixpoint_initial T t_eqb univ null union inter single f (lookup bc) teq_refl
                    cover_prev cover_ret fuel wl0 _ ro Hcov Hfw).
      destruct (forward_sound_gen ro Hfix cover_next cover_call entry_ok target_not_rp sub_entry_in sub_closed
                  ret_in_next Hnd cfgs Hrun Hadm (b, st) Hin) as [_ [H1 H2]].
      split; auto.
    Qed.

    (* (B) for the backward pass seeded from the forward result, as in Domains.solve *)
    Theorem backward_sound fuelF fuelB wlF wlB ro lo cfgs :
      (forall b, In b (ids f) -> In b wlF) ->
      (forall b xb, fblock f b = Some xb -> leaf_global f xb = false -> In b wlB) ->
      forward (lookup bc) fuelF wlF (fwd_st0 T null f) = Done ro ->
      backward (lookup ro) fuelB wlB (bwd_st0 T null f ro) = Done lo ->
      AcceptingRun f cfgs -> returns_all f cfgs -> run_passes okb oke cfgs ->
      forall b st, In (b, st) cfgs -> G lo b.
    Proof.
      intros HcovF HcovB Hfw Hbw Hacc Hret Hadm b st Hin.
      assert (HfixF : forall b, In b (ids f) -> fwd_ok T t_eqb univ null union inter single f (lookup bc) ro b)
        by exact (forward_fixpoint_initial T t_eqb univ null union inter single f (lookup bc) teq_refl
                    cover_prev cover_ret fuelF wlF _ ro HcovF Hfw).
      assert (HfixB : forall b, In b (ids f) -> bwd_ok T t_eqb null union inter f (lookup ro) lo b)
        by exact (backward_fixpoint_initial T t_eqb null union inter f (lookup ro) teq_refl
                    cover_next cover_call fuelB wlB _ lo HcovB Hbw).
      assert (Hnd : next_defined_P f) by (eapply next_defined_of_bwd; eauto).
      assert (HA : forall c, In c cfgs -> G ro (fst c) /\ act_inv f c).
      { intros c Hc.
        destruct (forward_sound_gen ro HfixF cover_next cover_call entry_ok target_not_rp sub_entry_in sub_closed
                    ret_in_next Hnd cfgs (proj1 Hacc) Hadm c Hc) as [H0 [H1 _]]. auto. }
      assert (Hleaf : forall b blk v, fblock f b = Some blk -> leaf_global f blk = true ->
                lookup ro b = Some v -> lookup lo b = Some v).
      { intros b0 blk v Hb Hl Hv.
        rewrite (backward_leaf_unchanged T t_eqb null union inter f (lookup ro) fuelB wlB (bwd_st0 T null f ro) lo b0).
        - unfold bwd_st0. rewrite lookup_map_blocks, Hb. simpl.
          rewrite Hl, (fblock_idx _ _ _ Hb), Hv. reflexivity.
        - intros xb Hxb. rewrite Hb in Hxb. inversion Hxb; subst xb. exact Hl.
        - exact Hbw. }
      exact (backward_sound_gen ro lo HfixB Hleaf ret_in_next cfgs Hacc Hret HA (b, st) Hin).
    Qed.

    (* (C) Domains.solve *)
    Theorem solve_sound fuel lo cfgs :
      (forall b, In b (ids f) -> In b (forward_worklist f)) ->
      (forall b xb, fblock f b = Some xb -> leaf_global f xb = false -> In b (backward_worklist f)) ->
      Domains.solve T t_eqb univ null union inter single f fuel bc = Done lo ->
      AcceptingRun f cfgs -> returns_all f cfgs -> run_passes okb oke cfgs ->
      forall b st, In (b, st) cfgs -> exists v, lookup lo b = Some v /\ gamma v x.
    Proof.
      intros HcovF HcovB Hs Hacc Hret Hadm b st Hin.
      apply solve_passes in Hs. destruct Hs as [ro [Hfw Hbw]].
      exact (backward_sound fuel fuel _ _ ro lo cfgs HcovF HcovB Hfw Hbw Hacc Hret Hadm b st Hin).
    Qed.
  End Passes.
End Soundness.

(* ================================================================== 3. non-vacuity: a graph with a call and a return
   satisfies every graph hypothesis of solve_sound, and has an accepting run whose call returns *)
Module Witness.
  Local Open Scope string_scope.
  (* callsub foo; int 1 / return; foo: retsub   as three one-instruction blocks *)
  Definition p0 : prog := [mkIns 0 (ICallsub "foo"); mkIns 1 IReturn; mkIns 2 IRetsub].
  Definition B0 := mkBlock 0 [0] [1] [].
  Definition B1 := mkBlock 1 [1] [] [0].
  Definition B2 := mkBlock 2 [2] [] [].
  Definition foo := mkSub "foo" 2 [2] [0].
  Definition f0 : func := mkFunc p0 [B0; B1; B2] 0 [0; 1] [foo] [foo] None.
  Definition run0 : list rconfig := [(0, []); (2, [0]); (1, [])].

  Lemma f0_blocks b blk : fblock f0 b = Some blk -> (b = 0 /\ blk = B0) \/ (b = 1 /\ blk = B1) \/ (b = 2 /\ blk = B2).
  Proof. destruct b as [|[|[|b]]]; simpl; intros H; try discriminate; inversion H; auto 6. Qed.
  Ltac blk H := apply f0_blocks in H; destruct H as [[? ?]|[[? ?]|[? ?]]]; subst.

  Ltac one Hin := simpl in Hin; first [contradiction | destruct Hin as [Hin|Hin]; [subst|contradiction]].

  Lemma f0_sub l s : f_find_sub f0 l = Some s -> l = "foo" /\ s = foo.
  Proof.
    change (f_find_sub f0 l) with (if "foo" =? l then Some foo else None). intros H. destruct ("foo" =? l) eqn:E; [|discriminate].
    apply String.eqb_eq in E. inversion H. auto.
  Qed.

  Lemma w_cover_next : cover_next_P f0.
  Proof.
    intros b x xb nx Hx Hl Hn Hin. blk Hx; cbv in Hl, Hn; try discriminate;
      inversion Hn; subst nx; destruct Hin as [<-|[]];
      eexists; eexists; (split; [reflexivity|split; [reflexivity|cbv; auto]]).
  Qed.

  Lemma w_cover_prev : cover_prev_P f0.
  Proof.
    intros b x xb ps Hx Hp Hin. blk Hx; cbv in Hp; inversion Hp; subst ps; one Hin;
      eexists; eexists; (split; [reflexivity|split; [reflexivity|cbv; auto]]).
  Qed.

  Lemma w_cover_ret : cover_ret_P f0.
  Proof.
    intros x xb c Hx Hr Hc. blk Hx; cbv in Hr, Hc; try discriminate.
    inversion Hc; subst c. eexists. split; [reflexivity|split; reflexivity].
  Qed.

  Lemma w_cover_call : cover_call_P f0.
  Proof.
    intros x xb l r s Hx Hop Hr Hs _. blk Hx; cbv in Hop, Hr; try discriminate.
    inversion Hr; subst r. eexists. split; [reflexivity|split; reflexivity].
  Qed.

  Lemma w_entry_ok : entry_ok_P f0.
  Proof. exists B0. split; reflexivity. Qed.

  Lemma w_target_not_rp : target_not_rp_P f0.
  Proof.
    intros b blk nx b' xb' Hb Hr Hn Hin Hb'. blk Hb; cbv in Hr, Hn; try discriminate;
      inversion Hn; subst nx; one Hin.
    blk Hb'; try discriminate. reflexivity.
  Qed.

  Lemma w_sub_entry_in : sub_entry_in_P f0.
  Proof. intros l s Hs. apply f0_sub in Hs. destruct Hs as [-> ->]. left. reflexivity. Qed.

  Lemma w_sub_closed : sub_closed_P f0.
  Proof.
    intros l s b blk b' Hs Hin Hb Hn. apply f0_sub in Hs. destruct Hs as [-> ->].
    destruct Hin as [<-|[]]. blk Hb; try discriminate. destruct Hn.
  Qed.

  Lemma w_sub_of : sub_of_P f0.
  Proof.
    intros l s b Hs Hin. apply f0_sub in Hs. destruct Hs as [-> ->]. destruct Hin as [<-|[]]. reflexivity.
  Qed.

  Lemma w_callsub_one_next : callsub_one_next_P f0.
  Proof. intros b blk Hb _. blk Hb; simpl; lia. Qed.

  Lemma w_cov_fwd : forall b, In b (ids f0) -> In b (forward_worklist f0).
  Proof. cbv. tauto. Qed.

  Lemma w_cov_bwd : forall b xb, fblock f0 b = Some xb -> leaf_global f0 xb = false -> In b (backward_worklist f0).
  Proof. intros b xb Hb Hl. blk Hb; cbv in Hl; try discriminate; cbv; auto. Qed.

  Lemma w_run : AcceptingRun f0 run0 /\ returns_all f0 run0.
  Proof.
    split; [split|reflexivity].
    - unfold Run, run0. simpl.
      eapply RF_step; [exact (RS_call f0 0 [] B0 "foo" foo eq_refl eq_refl eq_refl)|].
      eapply RF_step; [exact (RS_ret f0 2 [] 0 B2 B0 1 eq_refl eq_refl eq_refl eq_refl)|].
      apply RF_one.
    - exists B1. split; reflexivity.
  Qed.

  (* solve_sound instantiated: all graph hypotheses are discharged *)
  Theorem w_solve_sound (T : Type) (t_eqb : T -> T -> bool) (univ null : T) (union inter : T -> T -> T)
      (single : instr -> nat -> list sval -> T * T) (V : Type) (gamma : T -> V -> Prop) (x : V)
      (bc : list (nat * T)) (fuel : nat) (lo : list (nat * T)) :
    gamma univ x ->
    (forall a b, gamma a x -> gamma (union a b) x) ->
    (forall a b, gamma b x -> gamma (union a b) x) ->
    (forall a b, gamma a x -> gamma b x -> gamma (inter a b) x) ->
    (forall a b, t_eqb a b = true -> gamma a x <-> gamma b x) ->
    (forall a, t_eqb a a = true) ->
    Domains.solve T t_eqb univ null union inter single f0 fuel bc = Done lo ->
    run_passes (okb T V gamma x bc) (oke T univ null union inter single f0 V gamma x) run0 ->
    forall b, In b [0; 2; 1] -> exists v, Analysis.lookup T lo b = Some v /\ gamma v x.
  Proof.
    intros G1 G2 G3 G4 G5 Hrefl Hs Hadm.
    destruct w_run as [Hacc Hret].
    assert (Hall : forall b st, In (b, st) run0 -> exists v, Analysis.lookup T lo b = Some v /\ gamma v x).
    { exact (solve_sound T t_eqb univ null union inter single f0 V gamma x G1 G2 G3 G4 G5 bc Hrefl
               w_cover_prev w_cover_ret w_cover_next w_cover_call w_entry_ok w_target_not_rp
               w_sub_entry_in w_sub_closed (ret_in_next_from f0 w_sub_of w_callsub_one_next)
               fuel lo run0 w_cov_fwd w_cov_bwd Hs Hacc Hret Hadm). }
    intros b [<-|[<-|[<-|[]]]].
    - apply (Hall 0 []). simpl. auto.
    - apply (Hall 2 [0]). simpl. auto.
    - apply (Hall 1 []). simpl. auto.
  Qed.
End Witness.

Print Assumptions call_returns.
Print Assumptions returns_all_matched.
Print Assumptions ret_in_next_from.
Print Assumptions forward_sound_gen.
Print Assumptions backward_sound_gen.
Print Assumptions forward_sound.
Print Assumptions backward_sound.
Print Assumptions solve_sound.
Print Assumptions Witness.w_solve_sound.
