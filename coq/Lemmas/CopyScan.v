(* create_bb of the sub-program made of a successor-closed selection of blocks (Lemmas/CopyDefs.v):
   1. a closed form of create_bb (grp over the per-position closing decision cl),
   2. soundness and completeness of grp with respect to ok_blocks,
   3. transfer of the closing decisions from the program to its copy. *)
From Coq Require Import String List NArith ZArith Bool Arith Lia.
From Tealer Require Import Tables Syntax Parse Cfg CfgLemmas CopyDefs.
Import ListNotations.
Close Scope string_scope.
Open Scope nat_scope.
Open Scope list_scope.

(* ------------------------------------------------------------------ 1. closed form of create_bb *)
Definition is_cs (i : instr) : bool := match i with ICallsub _ => true | _ => false end.
Definition is_lbl (i : instr) : bool := match i with ILabel _ => true | _ => false end.

Definition act_i (i : instr) (n : nat) : option bool :=
  if ((1 <? n) || is_cs i)%bool then Some true
  else if ((n =? 0) || is_b i)%bool then Some false else None.

Definition nn (p : prog) (k : nat) : nat :=
  match ins_next p k with Some nx => length nx | None => 0 end.

(* the instruction at k closes its block by itself, with the given default-edge flag *)
Definition act (p : prog) (k : nat) : option bool :=
  if k =? pred (length p) then None
  else match op_at p k with Some i => act_i i (nn p k) | None => None end.

Definition lbl (p : prog) (k : nat) : bool :=
  match op_at p k with Some i => is_lbl i | None => false end.

(* the block containing k ends at k: by itself, or because a label follows *)
Definition cl (p : prog) (k : nat) : option bool :=
  match act p k with
  | Some d => Some d
  | None => if lbl p (S k) then Some true else None
  end.

Fixpoint grp (T : list (nat * option bool)) (cur : list nat) : list rawblock :=
  match T with
  | [] => [mkRaw (rev cur) false]
  | (k, None) :: T' => grp T' (k :: cur)
  | (k, Some d) :: T' => mkRaw (rev (k :: cur)) d :: grp T' []
  end.

Definition tab (p : prog) (k n : nat) : list (nat * option bool) :=
  map (fun k => (k, cl p k)) (seq k n).

(* abstract scan step *)
Definition step (p : prog) (st : list rawblock * list nat) (k : nat) : list rawblock * list nat :=
  let '(done, cur) := st in
  let '(done1, cur1) :=
    if lbl p k then match cur with [] => (done, cur) | _ :: _ => (mkRaw (rev cur) true :: done, []) end
    else (done, cur) in
  match act p k with
  | Some d => (mkRaw (rev (k :: cur1)) d :: done1, [])
  | None => (done1, k :: cur1)
  end.

Lemma phase1_lbl done cur i :
  phase1 done cur i =
  if is_lbl i then match cur with [] => (done, cur) | _ :: _ => (mkRaw (rev cur) true :: done, []) end
  else (done, cur).
Proof. destruct i; destruct cur; reflexivity. Qed.

Lemma scan_step_step p done cur k i nx :
  op_at p k = Some i -> ins_next p k = Some nx ->
  scan_step p (pred (length p)) (done, cur) k i (length nx) = step p (done, cur) k.
Proof.
  intros Hop Hn. rewrite scan_step_eq, phase1_lbl. unfold step, lbl, act, nn. rewrite Hop, Hn.
  fold (is_cs i). unfold act_i.
  destruct (is_lbl i); destruct cur as [|h t];
    destruct ((1 <? length nx) || is_cs i)%bool; destruct ((length nx =? 0) || is_b i)%bool;
    destruct (k =? pred (length p)); reflexivity.
Qed.

Lemma scan_fold p : forall rest pre st st',
  p = pre ++ rest ->
  scan p (pred (length p)) rest (length pre) st = Some st' ->
  st' = fold_left (step p) (seq (length pre) (length rest)) st.
Proof.
  induction rest as [|a rest IH]; intros pre st st' Hp Hs.
  - simpl in Hs. inversion Hs. reflexivity.
  - cbn [scan] in Hs. destruct (ins_next p (length pre)) as [nx|] eqn:Hn; [|discriminate].
    assert (Hop : op_at p (length pre) = Some (i_op a)).
    { unfold op_at. rewrite Hp, nth_error_app2, Nat.sub_diag by lia. reflexivity. }
    destruct st as [done cur]. rewrite (scan_step_step p done cur _ _ _ Hop Hn) in Hs.
    assert (El : length (pre ++ [a]) = S (length pre)) by (rewrite app_length; simpl; lia).
    cbn [length seq fold_left]. rewrite <- El. apply IH.
    + rewrite <- app_assoc. assumption.
    + rewrite El. assumption.
Qed.

Lemma scan_fold_some p : forall rest pre st,
  p = pre ++ rest ->
  (forall k, k < length p -> ins_next p k <> None) ->
  scan p (pred (length p)) rest (length pre) st =
  Some (fold_left (step p) (seq (length pre) (length rest)) st).
Proof.
  induction rest as [|a rest IH]; intros pre st Hp Hall.
  - reflexivity.
  - cbn [scan].
    assert (Hlt : length pre < length p) by (rewrite Hp, app_length; simpl; lia).
    destruct (ins_next p (length pre)) as [nx|] eqn:Hn; [|exfalso; exact (Hall _ Hlt Hn)].
    assert (Hop : op_at p (length pre) = Some (i_op a)).
    { unfold op_at. rewrite Hp, nth_error_app2, Nat.sub_diag by lia. reflexivity. }
    destruct st as [done cur]. rewrite (scan_step_step p done cur _ _ _ Hop Hn).
    assert (El : length (pre ++ [a]) = S (length pre)) by (rewrite app_length; simpl; lia).
    cbn [length seq fold_left]. rewrite <- El. apply IH.
    + rewrite <- app_assoc. assumption.
    + assumption.
Qed.

(* the result of the abstract scan, as grp: a block closed by a following label is closed one step later *)
Definition pend (p : prog) (k n : nat) (cur : list nat) : list rawblock :=
  if (lbl p k && negb (n =? 0) && match cur with [] => false | _ => true end)%bool
  then mkRaw (rev cur) true :: grp (tab p k n) []
  else grp (tab p k n) cur.

Lemma fold_grp p : forall n k done cur done' cur',
  lbl p (k + n) = false ->
  fold_left (step p) (seq k n) (done, cur) = (done', cur') ->
  rev (mkRaw (rev cur') false :: done') = rev done ++ pend p k n cur.
Proof.
  induction n as [|n IH]; intros k done cur done' cur' HL H.
  - simpl in H. inversion H; subst. unfold pend. rewrite andb_false_r. reflexivity.
  - cbn [seq fold_left] in H.
    destruct (step p (done, cur) k) as [d2 c2] eqn:Es.
    assert (HL' : lbl p (S k + n) = false) by (rewrite <- HL; f_equal; lia).
    rewrite (IH (S k) d2 c2 done' cur' HL' H). clear IH H.
    unfold step in Es. unfold pend at 2. unfold tab. cbn [seq map]. fold (tab p (S k) n).
    unfold cl at 1 2.
    change (negb (S n =? 0)) with true. rewrite andb_true_r.
    assert (Hp1 : forall c1, act p k = None ->
              pend p (S k) n (k :: c1) =
              grp ((k, if lbl p (S k) then Some true else None) :: tab p (S k) n) c1).
    { intros c1 _. unfold pend. rewrite andb_true_r. destruct (lbl p (S k)) eqn:EL.
      - destruct n as [|n'].
        + exfalso. rewrite Nat.add_0_r in HL'. congruence.
        + reflexivity.
      - reflexivity. }
    destruct (lbl p k) eqn:Elk; destruct cur as [|h t]; cbn [andb];
      destruct (act p k) as [d|] eqn:Ea; inversion Es; subst d2 c2; clear Es;
      cbn [rev grp]; try rewrite (Hp1 _ eq_refl); cbn [grp];
      try (rewrite <- !app_assoc; reflexivity);
      try (unfold pend; rewrite andb_false_r; cbn [app]; rewrite <- ?app_assoc; reflexivity);
      try reflexivity.
Qed.

Lemma lbl_end p : lbl p (length p) = false.
Proof.
  unfold lbl, op_at. assert (E : nth_error p (length p) = None) by (apply nth_error_None; lia).
  rewrite E. reflexivity.
Qed.

Lemma pend_nil p n : pend p 0 n [] = grp (tab p 0 n) [].
Proof. unfold pend. rewrite andb_false_r. reflexivity. Qed.

Theorem create_bb_grp p rbs :
  create_bb p = Some rbs -> rbs = grp (tab p 0 (length p)) [].
Proof.
  unfold create_bb. intros H.
  destruct (scan p (pred (length p)) p 0 ([], [])) as [[done cur]|] eqn:Hs; [|discriminate].
  inversion H; subst rbs; clear H.
  apply (scan_fold p p [] ([], []) (done, cur) eq_refl) in Hs. symmetry in Hs.
  change (rev (mkRaw (rev cur) false :: done) = grp (tab p 0 (length p)) []).
  rewrite (fold_grp p _ 0 [] [] done cur (lbl_end p) Hs). apply pend_nil.
Qed.

Theorem grp_create_bb p :
  (forall k, k < length p -> ins_next p k <> None) ->
  create_bb p = Some (grp (tab p 0 (length p)) []).
Proof.
  intros Hall. unfold create_bb.
  change (scan p (pred (length p)) p 0 ([], [])) with (scan p (pred (length p)) p (length (@nil ins)) ([], [])).
  rewrite (scan_fold_some p p [] ([], []) eq_refl Hall).
  destruct (fold_left (step p) (seq (length (@nil ins)) (length p)) ([], [])) as [done cur] eqn:Hf.
  rewrite (fold_grp p _ 0 [] [] done cur (lbl_end p) Hf). rewrite pend_nil. reflexivity.
Qed.

(* ------------------------------------------------------------------ 2. characterisation of grp *)
Definition blk_mid (c : nat -> option bool) (b : rawblock) : Prop :=
  exists l e, rb_ins b = l ++ [e] /\ Forall (fun k => c k = None) l /\ c e = Some (rb_dflt b).
Definition blk_end (c : nat -> option bool) (b : rawblock) : Prop :=
  Forall (fun k => c k = None) (rb_ins b) /\ rb_dflt b = false.
Inductive ok_blocks (c : nat -> option bool) : list rawblock -> Prop :=
| ok_last b : blk_end c b -> ok_blocks c [b]
| ok_cons b r : blk_mid c b -> ok_blocks c r -> ok_blocks c (b :: r).

Definition ctab (c : nat -> option bool) (ks : list nat) : list (nat * option bool) :=
  map (fun k => (k, c k)) ks.

Lemma grp_none c : forall l r cur,
  Forall (fun k => c k = None) l ->
  grp (ctab c (l ++ r)) cur = grp (ctab c r) (rev l ++ cur).
Proof.
  induction l as [|k l IH]; intros r cur H; [reflexivity|].
  inversion H as [|k' l' Hk Hl]; subst. unfold ctab. cbn [app map]. rewrite Hk. cbn [grp].
  fold (ctab c (l ++ r)). rewrite (IH r (k :: cur) Hl). cbn [rev]. rewrite <- app_assoc. reflexivity.
Qed.

Theorem grp_complete c bs : ok_blocks c bs -> grp (ctab c (concat (map rb_ins bs))) [] = bs.
Proof.
  induction 1 as [b [Hn Hd] | b r (l & e & El & Hl & He) Hr IH].
  - cbn [map concat]. rewrite (grp_none c _ [] [] Hn). rewrite !app_nil_r. cbn [ctab map grp].
    rewrite rev_involutive. destruct b as [bi bd]. simpl in *. subst bd. reflexivity.
  - cbn [map concat]. rewrite El, <- app_assoc. rewrite (grp_none c _ _ [] Hl). rewrite app_nil_r.
    unfold ctab. cbn [app map]. rewrite He. cbn [grp]. fold (ctab c (concat (map rb_ins r))).
    rewrite IH. cbn [rev]. rewrite rev_involutive, <- El. destruct b; reflexivity.
Qed.

Theorem grp_sound c : forall ks cur,
  Forall (fun k => c k = None) cur ->
  ok_blocks c (grp (ctab c ks) cur) /\ concat (map rb_ins (grp (ctab c ks) cur)) = rev cur ++ ks.
Proof.
  induction ks as [|k ks IH]; intros cur Hc.
  - cbn [ctab map grp]. split.
    + apply ok_last. split; [|reflexivity]. cbn [rb_ins]. apply Forall_rev. assumption.
    + cbn [map concat rb_ins]. reflexivity.
  - unfold ctab. cbn [map]. fold (ctab c ks). destruct (c k) as [d|] eqn:Ek; cbn [grp].
    + destruct (IH [] (Forall_nil _)) as [Hok Hcc]. split.
      * apply ok_cons; [|assumption]. exists (rev cur), k. cbn [rb_ins rb_dflt rev].
        split; [reflexivity|]. split; [apply Forall_rev; assumption | assumption].
      * cbn [map concat rb_ins]. rewrite Hcc. cbn [rev app]. rewrite <- app_assoc. reflexivity.
    + destruct (IH (k :: cur)) as [Hok Hcc]; [constructor; assumption|]. split; [assumption|].
      rewrite Hcc. cbn [rev]. rewrite <- app_assoc. reflexivity.
Qed.

Lemma tab_ctab p k n : tab p k n = ctab (cl p) (seq k n).
Proof. reflexivity. Qed.

Corollary create_bb_ok p rbs : create_bb p = Some rbs -> ok_blocks (cl p) rbs.
Proof.
  intros H. rewrite (create_bb_grp p rbs H), tab_ctab. apply (grp_sound (cl p) _ []). constructor.
Qed.

Corollary ok_create_bb p rbs :
  (forall k, k < length p -> ins_next p k <> None) ->
  ok_blocks (cl p) rbs -> concat (map rb_ins rbs) = seq 0 (length p) ->
  create_bb p = Some rbs.
Proof.
  intros Hall Hok Hc. rewrite (grp_create_bb p Hall), tab_ctab, <- Hc, (grp_complete _ _ Hok). reflexivity.
Qed.

(* ------------------------------------------------------------------ 3a. list helpers: the selection as a recursive filter *)
Fixpoint selL {A} (M : list nat) (o : nat) (l : list A) : list A :=
  match l with
  | [] => []
  | b :: r => if nat_mem o M then b :: selL M (S o) r else selL M (S o) r
  end.

Lemma sel_flat {A B} (g : A -> list B) M : forall l X,
  flat_map (fun n => match nth_error (X ++ l) n with Some b => g b | None => [] end)
           (filter (fun m => nat_mem m M) (seq (length X) (length l)))
  = flat_map g (selL M (length X) l).
Proof.
  induction l as [|a l IH]; intros X; [reflexivity|].
  assert (El : length (X ++ [a]) = S (length X)) by (rewrite app_length; simpl; lia).
  specialize (IH (X ++ [a])). rewrite <- app_assoc, El in IH. cbn [app] in IH.
  cbn [length seq filter selL]. destruct (nat_mem (length X) M).
  - cbn [flat_map]. rewrite nth_error_app2, Nat.sub_diag by lia. cbn [nth_error]. rewrite IH. reflexivity.
  - exact IH.
Qed.

Lemma selL_map_eq {A1 A2 B} (g1 : A1 -> list B) (g2 : A2 -> list B) M : forall l1 l2 o,
  map g1 l1 = map g2 l2 -> flat_map g1 (selL M o l1) = flat_map g2 (selL M o l2).
Proof.
  induction l1 as [|a l1 IH]; intros l2 o H; destruct l2 as [|b l2]; try discriminate; [reflexivity|].
  cbn [map] in H. inversion H as [[H1 H2]]. cbn [selL]. destruct (nat_mem o M).
  - cbn [flat_map]. rewrite H1, (IH l2 (S o) H2). reflexivity.
  - apply IH; assumption.
Qed.

Lemma flat_map_single {A} (l : list A) : flat_map (fun b => [b]) l = l.
Proof. induction l as [|a l IH]; [reflexivity|]. cbn [flat_map app]. rewrite IH. reflexivity. Qed.

Lemma selL_In {A} M : forall (l : list A) o x, In x (selL M o l) -> In x l.
Proof.
  induction l as [|a l IH]; intros o x H; [destruct H|]. cbn [selL] in H.
  destruct (nat_mem o M).
  - destruct H as [->|H]; [left; reflexivity | right; eapply IH; eauto].
  - right; eapply IH; eauto.
Qed.

Lemma selL_nonempty {A} M : forall (l : list A) o n,
  In n M -> o <= n < o + length l -> selL M o l <> [].
Proof.
  induction l as [|a l IH]; intros o n Hin Hn; [simpl in Hn; lia|].
  cbn [selL]. destruct (nat_mem o M) eqn:Em; [discriminate|].
  apply (IH (S o) n Hin). cbn [length] in Hn.
  assert (n <> o). { intros ->. apply nat_mem_In in Hin. congruence. }
  lia.
Qed.

Lemma renum_concat : forall l a, concat (map rb_ins (renum a l)) = seq a (length (flat_map rb_ins l)).
Proof.
  induction l as [|b l IH]; intros a; [reflexivity|].
  cbn [renum map concat rb_ins flat_map]. rewrite IH, app_length, seq_app. reflexivity.
Qed.

Lemma seq_app_inv : forall (X Y : list nat) s n,
  X ++ Y = seq s n -> X = seq s (length X) /\ Y = seq (s + length X) (n - length X).
Proof.
  induction X as [|x X IH]; intros Y s n H.
  - cbn [app length] in *. rewrite Nat.add_0_r, Nat.sub_0_r. split; [reflexivity | assumption].
  - destruct n as [|n]; [discriminate|]. cbn [app seq] in H. inversion H as [[Hx Hr]].
    destruct (IH Y (S s) n Hr) as [H1 H2]. cbn [length seq]. split.
    + rewrite <- H1. reflexivity.
    + rewrite H2 at 1. f_equal; lia.
Qed.

Lemma Forall2_nth {A B} (R : A -> B -> Prop) : forall l1 l2 j k,
  Forall2 R l1 l2 -> nth_error l2 j = Some k -> exists c, nth_error l1 j = Some c /\ R c k.
Proof.
  intros l1 l2 j k H. revert j. induction H as [|x y l1 l2 Hxy H IH]; intros j Hj.
  - destruct j; discriminate.
  - destruct j as [|j]; simpl in Hj.
    + inversion Hj; subst. exists x. split; [reflexivity | assumption].
    + apply IH; assumption.
Qed.

Lemma Forall2_len {A B} (R : A -> B -> Prop) l1 l2 : Forall2 R l1 l2 -> length l1 = length l2.
Proof. induction 1 as [|x y l1 l2 _ _ IH]; [reflexivity | simpl; congruence]. Qed.

Lemma map_eq_nth {A1 A2 B} (g1 : A1 -> B) (g2 : A2 -> B) : forall l1 l2,
  length l1 = length l2 ->
  (forall n x, nth_error l1 n = Some x -> exists y, nth_error l2 n = Some y /\ g1 x = g2 y) ->
  map g1 l1 = map g2 l2.
Proof.
  induction l1 as [|a l1 IH]; intros l2 Hl H; destruct l2 as [|b l2]; try discriminate; [reflexivity|].
  cbn [map]. f_equal.
  - destruct (H 0 a eq_refl) as (y & Hy & E). inversion Hy; subst. assumption.
  - apply IH; [simpl in Hl; lia|]. intros n x Hx. apply (H (S n) x Hx).
Qed.

Lemma ok_blocks_nonnil c bs : ok_blocks c bs -> bs <> [].
Proof. intros H; inversion H; discriminate. Qed.

(* ------------------------------------------------------------------ 3b. transfer of the closing decisions *)
Section Transfer.
Variables (p pc : prog) (ks : list nat).
Hypothesis Hcopy : copy_of p ks pc.
Hypothesis Hnext : next_sel p pc ks.

Lemma len_pc : length pc = length ks.
Proof. exact (Forall2_len _ _ _ Hcopy). Qed.

Lemma op_tr j k : nth_error ks j = Some k -> op_at pc j = op_at p k /\ exists i, op_at p k = Some i.
Proof.
  intros Hj. destruct (Forall2_nth _ _ _ _ _ Hcopy Hj) as (c & Hc & Hop).
  unfold op_at at 1. rewrite Hc. cbn [option_map]. split; [symmetry; exact Hop | eauto].
Qed.

Lemma k_lt j k : nth_error ks j = Some k -> k < length p.
Proof.
  intros Hj. destruct (op_tr j k Hj) as (_ & i & Hi). unfold op_at in Hi.
  apply nth_error_Some. intros E. rewrite E in Hi. discriminate.
Qed.

Lemma lbl_tr j k : nth_error ks j = Some k -> lbl pc j = lbl p k.
Proof. intros Hj. unfold lbl. destruct (op_tr j k Hj) as (-> & _). reflexivity. Qed.

Lemma nn_tr j k : nth_error ks j = Some k -> nn pc j = nn p k.
Proof.
  intros Hj. destruct (Hnext j k Hj) as (nx & H1 & _ & H2). unfold nn. rewrite H1, H2.
  apply map_length.
Qed.

Lemma act_tr j k : nth_error ks j = Some k -> S j < length ks -> S k < length p -> act pc j = act p k.
Proof.
  intros Hj Hlj Hlk. unfold act. rewrite len_pc.
  assert (E1 : j =? pred (length ks) = false) by (apply Nat.eqb_neq; lia).
  assert (E2 : k =? pred (length p) = false) by (apply Nat.eqb_neq; lia).
  rewrite E1, E2. destruct (op_tr j k Hj) as (-> & _). rewrite (nn_tr j k Hj). reflexivity.
Qed.

Lemma cl_same j k : nth_error ks j = Some k -> nth_error ks (S j) = Some (S k) -> cl pc j = cl p k.
Proof.
  intros Hj Hj'. unfold cl.
  assert (S j < length ks) by (apply nth_error_Some; congruence).
  pose proof (k_lt _ _ Hj').
  rewrite (act_tr j k Hj), (lbl_tr (S j) (S k) Hj') by assumption. reflexivity.
Qed.

Lemma cl_act j k d : nth_error ks j = Some k -> S j < length ks -> act p k = Some d -> cl pc j = Some d.
Proof.
  intros Hj Hlj Ha. unfold cl. rewrite (act_tr j k Hj Hlj).
  - rewrite Ha. reflexivity.
  - pose proof (k_lt _ _ Hj). unfold act in Ha. destruct (k =? pred (length p)) eqn:E; [discriminate|].
    apply Nat.eqb_neq in E. lia.
Qed.

Lemma cl_last j : S j = length ks -> cl pc j = None.
Proof.
  intros Hj. unfold cl, act. rewrite len_pc.
  assert (E : j =? pred (length ks) = true) by (apply Nat.eqb_eq; lia). rewrite E.
  rewrite Hj, <- len_pc, lbl_end. reflexivity.
Qed.

End Transfer.

(* ------------------------------------------------------------------ 3c. the selected blocks are ok for the copy *)
Lemma blk_end_seq c b s :
  blk_end c b -> rb_ins b = seq s (length (rb_ins b)) ->
  forall i, i < length (rb_ins b) -> c (s + i) = None.
Proof.
  intros [Hl _] Hb i Hi. rewrite Forall_forall in Hl. apply Hl. rewrite Hb. apply in_seq. lia.
Qed.

Lemma blk_mid_seq c b s :
  blk_mid c b -> rb_ins b = seq s (length (rb_ins b)) ->
  exists m, length (rb_ins b) = S m /\ (forall i, i < m -> c (s + i) = None) /\ c (s + m) = Some (rb_dflt b).
Proof.
  intros (l & e & El & Hl & He) Hb. exists (length l). rewrite El in Hb.
  destruct (seq_app_inv _ _ _ _ Hb) as [H1 H2].
  rewrite app_length in H2. cbn [length] in H2.
  replace (length l + 1 - length l) with 1 in H2 by lia. cbn [seq] in H2. inversion H2 as [He'].
  split; [rewrite El, app_length; simpl; lia|]. split.
  - intros i Hi. rewrite Forall_forall in Hl. apply Hl. rewrite H1. apply in_seq. lia.
  - rewrite <- He'. exact He.
Qed.

Section Main.
Variables (p pc : prog) (ks : list nat) (rbs : list rawblock) (M : list nat).
Hypothesis Hcopy : copy_of p ks pc.
Hypothesis Hnext : next_sel p pc ks.
Hypothesis Hclosed : forall o b, nth_error rbs o = Some b -> In o M -> rb_dflt b = true -> In (S o) M.
Hypothesis Hne : forall b, In b rbs -> rb_ins b <> [].

Lemma sel_ok : forall rest pre A s n,
  rbs = pre ++ rest -> ok_blocks (cl p) rest -> concat (map rb_ins rest) = seq s n ->
  ks = A ++ flat_map rb_ins (selL M (length pre) rest) ->
  selL M (length pre) rest <> [] ->
  ok_blocks (cl pc) (renum (length A) (selL M (length pre) rest)).
Proof.
  induction rest as [|b r IH]; intros pre A s n Hr Hok Hpart Hks Hsel; [exfalso; apply Hsel; reflexivity|].
  cbn [map concat] in Hpart. destruct (seq_app_inv _ _ _ _ Hpart) as [Hb Hpart'].
  assert (El : length (pre ++ [b]) = S (length pre)) by (rewrite app_length; simpl; lia).
  assert (Hr' : rbs = (pre ++ [b]) ++ r) by (rewrite <- app_assoc; exact Hr).
  assert (Hnb : nth_error rbs (length pre) = Some b).
  { rewrite Hr, nth_error_app2, Nat.sub_diag by lia. reflexivity. }
  assert (Hcase : (r = [] /\ blk_end (cl p) b) \/ (blk_mid (cl p) b /\ ok_blocks (cl p) r)).
  { inversion Hok; subst; auto. }
  cbn [selL] in Hks, Hsel |- *.
  destruct (nat_mem (length pre) M) eqn:Em.
  2:{ destruct Hcase as [[Er _]|[_ Hokr]]; [subst r; exfalso; apply Hsel; reflexivity|].
      specialize (IH (pre ++ [b]) A (s + length (rb_ins b)) (n - length (rb_ins b)) Hr' Hokr Hpart').
      rewrite El in IH. apply IH; assumption. }
  apply nat_mem_In in Em. cbn [flat_map] in Hks.
  set (len := length (rb_ins b)) in *. set (a := length A) in *.
  set (Z := flat_map rb_ins (selL M (S (length pre)) r)) in *.
  assert (Hpos : forall i, i < len -> nth_error ks (a + i) = Some (s + i)).
  { intros i Hi. rewrite Hks, nth_error_app2 by (unfold a; lia).
    replace (a + i - length A) with i by (unfold a; lia).
    rewrite nth_error_app1 by (fold len; lia). rewrite Hb, nth_error_seq'.
    apply Nat.ltb_lt in Hi. rewrite Hi. reflexivity. }
  assert (Hlenks : length ks = a + len + length Z).
  { rewrite Hks, !app_length. fold len a. lia. }
  assert (Hint : forall i, S i < len -> cl p (s + i) = None -> cl pc (a + i) = None).
  { intros i Hi Hc. rewrite <- Hc. apply (cl_same p pc ks Hcopy Hnext).
    - apply Hpos; lia.
    - replace (S (a + i)) with (a + S i) by lia. replace (S (s + i)) with (s + S i) by lia. apply Hpos; lia. }
  cbn [renum]. fold len. fold a.
  destruct (selL M (S (length pre)) r) as [|b' sr] eqn:Esr.
  - (* b is the last selected block *)
    cbn [renum]. apply ok_last. split.
    + cbn [rb_ins]. apply Forall_forall. intros j Hj. apply in_seq in Hj.
      replace j with (a + (j - a)) by lia. set (i := j - a). assert (Hi : i < len) by (unfold i; lia).
      destruct (Nat.eq_dec (S i) len) as [E|E].
      * apply (cl_last p pc ks Hcopy). unfold Z in Hlenks. cbn [flat_map length] in Hlenks. lia.
      * apply Hint; [lia|]. destruct Hcase as [[_ Hend]|[Hmid _]].
        -- apply (blk_end_seq _ _ _ Hend Hb). exact Hi.
        -- destruct (blk_mid_seq _ _ _ Hmid Hb) as (m & Hm & Hnone & _). apply Hnone. fold len in Hm. lia.
    + cbn [rb_dflt]. destruct Hcase as [[_ [_ Hd]]|[Hmid Hokr]]; [exact Hd|].
      destruct (rb_dflt b) eqn:Ed; [exfalso | reflexivity].
      pose proof (Hclosed _ _ Hnb Em Ed) as HS. apply nat_mem_In in HS.
      destruct r as [|b2 r2]; [exact (ok_blocks_nonnil _ _ Hokr eq_refl)|].
      cbn [selL] in Esr. rewrite HS in Esr. discriminate.
  - (* a later selected block exists *)
    destruct Hcase as [[Er _]|[Hmid Hokr]]; [subst r; discriminate Esr|].
    apply ok_cons.
    + destruct (blk_mid_seq _ _ _ Hmid Hb) as (m & Hm & Hnone & Hex). fold len in Hm.
      exists (seq a m), (a + m). cbn [rb_ins rb_dflt]. split; [rewrite Hm, seq_S; reflexivity|]. split.
      * apply Forall_forall. intros j Hj. apply in_seq in Hj.
        replace j with (a + (j - a)) by lia. apply Hint; [lia|]. apply Hnone. lia.
      * assert (Hb'in : In b' rbs).
        { rewrite Hr. apply in_or_app. right. right. apply (selL_In M r (S (length pre))).
          rewrite Esr. left. reflexivity. }
        assert (HZ : length Z <> 0).
        { unfold Z. cbn [flat_map]. rewrite app_length. pose proof (Hne b' Hb'in) as Hn'.
          destruct (rb_ins b'); [congruence | simpl; lia]. }
        assert (Hpm : nth_error ks (a + m) = Some (s + m)) by (apply Hpos; lia).
        pose proof Hex as Hex0. unfold cl in Hex.
        destruct (act p (s + m)) as [d0|] eqn:Ea.
        -- rewrite <- Hex. apply (cl_act p pc ks Hcopy Hnext _ _ _ Hpm); [lia | exact Ea].
        -- destruct (lbl p (S (s + m))) eqn:EL; [|discriminate]. inversion Hex as [Ed]. symmetry in Ed.
           pose proof (Hclosed _ _ Hnb Em Ed) as HS. apply nat_mem_In in HS.
           destruct r as [|b2 r2]; [discriminate Esr|].
           cbn [selL] in Esr. rewrite HS in Esr. inversion Esr; subst b2.
           cbn [map concat] in Hpart'. destruct (seq_app_inv _ _ _ _ Hpart') as [Hb' _].
           pose proof (Hne b' Hb'in) as Hn'.
           rewrite Ed in Hex0. rewrite <- Hex0. apply (cl_same p pc ks Hcopy Hnext _ _ Hpm).
           replace (S (a + m)) with (a + len) by lia. replace (S (s + m)) with (s + len) by lia.
           rewrite Hks, nth_error_app2 by (unfold a; lia).
           replace (a + len - length A) with len by (unfold a; lia).
           rewrite nth_error_app2 by (fold len; lia). fold len. rewrite Nat.sub_diag.
           unfold Z. cbn [flat_map]. rewrite Hb'.
           destruct (length (rb_ins b')) eqn:El'; [destruct (rb_ins b'); [congruence | discriminate]|].
           reflexivity.
    + specialize (IH (pre ++ [b]) (A ++ rb_ins b) (s + len) (n - len) Hr' Hokr Hpart').
      rewrite El, app_length in IH. fold a len in IH. rewrite Esr in IH. apply IH.
      * rewrite <- app_assoc. exact Hks.
      * discriminate.
Qed.

End Main.

(* ------------------------------------------------------------------ 3d. the theorem *)
Lemma sel_pos_selL p bs rbs M :
  create_bb p = Some rbs -> build_blocks p = Some bs ->
  length bs = length rbs /\ sel_pos bs M = flat_map rb_ins (selL M 0 rbs).
Proof.
  intros Hc Hb. destruct (build_blocks_spec p bs Hb) as (rbs0 & nexts & Hc0 & _ & _ & Hlen & Hn).
  rewrite Hc in Hc0. inversion Hc0; subst rbs0; clear Hc0. split; [assumption|].
  unfold sel_pos, sel.
  pose proof (sel_flat b_ins M bs []) as E. cbn [app length] in E. rewrite E.
  apply selL_map_eq. apply map_eq_nth; [assumption|].
  intros n B HB. destruct (Hn n B HB) as (rb & nx & Hrb & _ & _ & EB). exists rb.
  split; [assumption|]. subst B. reflexivity.
Qed.

Lemma sel_raw_selL rbs M : sel_raw rbs M = renum 0 (selL M 0 rbs).
Proof.
  unfold sel_raw, sel. pose proof (sel_flat (fun b : rawblock => [b]) M rbs []) as E.
  cbn [app length] in E. rewrite E, flat_map_single. reflexivity.
Qed.

Lemma closed_raw p bs rbs M :
  create_bb p = Some rbs -> build_blocks p = Some bs -> closed bs M ->
  forall o b, nth_error rbs o = Some b -> In o M -> rb_dflt b = true -> In (S o) M.
Proof.
  intros Hc Hb Hcl o b Ho Hin Hd.
  destruct (build_blocks_spec p bs Hb) as (rbs0 & nexts & Hc0 & _ & _ & Hlen & Hn).
  rewrite Hc in Hc0. inversion Hc0; subst rbs0; clear Hc0.
  assert (Hlt : o < length bs) by (rewrite Hlen; apply nth_error_Some; congruence).
  apply (Hcl o (S o) Hin Hlt). unfold next_of, get_block.
  destruct (nth_error bs o) as [B|] eqn:EB; [|apply nth_error_None in EB; lia].
  destruct (Hn o B EB) as (rb & nx & Hrb & _ & Hrn & E). rewrite Ho in Hrb. inversion Hrb; subst rb.
  subst B. cbn [b_next].
  destruct (raw_next_spec _ _ _ _ _ Hrn) as (_ & inx & tb & _ & _ & Enx). subst nx.
  apply add_new_In. left. rewrite Hd. left. reflexivity.
Qed.

Theorem create_bb_sel p rbs bs M pc :
  create_bb p = Some rbs -> build_blocks p = Some bs ->
  closed bs M -> nonempty_sel bs M ->
  copy_of p (sel_pos bs M) pc -> next_sel p pc (sel_pos bs M) ->
  create_bb pc = Some (sel_raw rbs M).
Proof.
  intros Hc Hb Hcl Hsel Hcopy Hnext.
  assert (Hp : p <> []) by (intros ->; rewrite build_blocks_nil in Hb; discriminate).
  destruct (sel_pos_selL p bs rbs M Hc Hb) as [Hlen Epos].
  rewrite sel_raw_selL. rewrite Epos in Hcopy, Hnext.
  set (ks := flat_map rb_ins (selL M 0 rbs)) in *.
  pose proof (len_pc p pc ks Hcopy) as Hlpc.
  apply ok_create_bb.
  - intros j Hj. rewrite Hlpc in Hj.
    destruct (nth_error ks j) as [k|] eqn:Ek; [|apply nth_error_None in Ek; lia].
    destruct (Hnext j k Ek) as (nx & _ & _ & H2). congruence.
  - apply (sel_ok p pc ks rbs M Hcopy Hnext (closed_raw p bs rbs M Hc Hb Hcl)
                  (blocks_nonempty p rbs Hc Hp) rbs [] [] 0 (length p)).
    + reflexivity.
    + apply create_bb_ok. assumption.
    + apply blocks_partition; assumption.
    + reflexivity.
    + destruct Hsel as (n & Hin & Hn). apply (selL_nonempty M rbs 0 n Hin). lia.
  - rewrite renum_concat. fold ks. rewrite Hlpc. reflexivity.
Qed.

Print Assumptions create_bb_grp.
Print Assumptions grp_create_bb.
Print Assumptions grp_sound.
Print Assumptions grp_complete.
Print Assumptions create_bb_sel.
