(* Lemmas/GroupConfigGenLemmas.v -- the CONTRACTS PART of a group configuration regenerated from tealer's Python source
   (Gen/GroupInitGen.v, part 2, written by tools/translate_groupinit.py from utils/command_line/group_config.py
   GroupConfigFunction / GroupConfigContract / GroupConfig .from_yaml, GROUP_CONFIG_CONTRACT_TYPES, utils/teal_enums.py
   contract_type_from_txt, and the contracts loop of utils/command_line/common.py init_tealer_from_config).

   This file depends on the generated file and on the prelude of Gen/GroupGen.v only (not on GroupInitGenLemmas.v).

   1. str methods: is_block_id_iff -- `s.startswith("B") and s[1:].isdigit()` holds iff s = "B" ++ d with d a non-empty
      text of ASCII decimal digits (ch_isdigit_iff: the ten characters 0..9).
   2. GroupConfigFunction.from_yaml: function_from_yaml_unfold (conversion), function_from_yaml_spec (for EVERY map:
      generated = functional program function_spec, same exception in the same case), function_from_yaml_ok_iff
      (returns f iff "name" is a str, "dispatch_path" a list of str, all of them block ids, and f carries them),
      function_from_yaml_roundtrip.
   3. GroupConfigContract.from_yaml / GroupConfig.from_yaml: contract_from_yaml_unfold (conversion), the two loops as
      functional programs (required_loop_eq, functions_loop_eq), contract_from_yaml_roundtrip (for EVERY configuration
      record: the canonical YAML of c reads back as c iff its type is listed and all block ids are well-formed, with
      the exact exception otherwise), config_from_yaml_unfold, examples for every raise.
   4. contract_type_from_txt: contract_type_from_txt_gen_eq -- for every text: the identity on
      GROUP_CONFIG_CONTRACT_TYPES, KeyError elsewhere (so a configuration accepted by from_yaml never raises here).
   5. the contracts loop: init_contracts_gen_unfold (conversion), init_contracts_gen_spec (for EVERY configuration and
      EVERY behaviour of the two uninterpreted calls: generated = contracts_spec, a functional program without loops
      state), contracts_entry (the table maps the name of every configured contract -- the LAST one of that name -- to
      the parsed contract with the configured type and functions = fn_dict: configured names in order with consecutive
      indices), fn_dict_nodup / fn_dict_get (later duplicates overwrite in place), contracts_ftable (the table of
      constructed functions lists (type, dispatch path, name) of all configured functions in order). *)
From Coq Require Import String List NArith ZArith Bool Arith Lia Ascii.
From Tealer Require Import Tables LeafPrelude Syntax Cfg Keys KeysGen Analysis Domains Detect SearchGen Group GroupGen GroupInitGen.
Import ListNotations.
Open Scope string_scope.
Open Scope list_scope.

(* ====================================================================== *)
(* 0. Prelude facts                                                         *)
(* ====================================================================== *)
Lemma cg_existsb_find {A} (p : A -> bool) l : existsb p l = match find p l with Some _ => true | None => false end.
Proof. induction l as [|a l IH]; [reflexivity|]. cbn [existsb find]. destruct (p a); [reflexivity | exact IH]. Qed.

Definition yfind (k : string) (m : list (string * yv)) : option yv :=
  match find (fun kv => String.eqb (fst kv) k) m with Some kv => Some (snd kv) | None => None end.

Lemma sdict_mem_yfind k m : sdict_mem k m = match yfind k m with Some _ => true | None => false end.
Proof. unfold sdict_mem, yfind. rewrite cg_existsb_find. destruct (find _ m); reflexivity. Qed.

Lemma sdict_get_yfind k m : sdict_get k m = match yfind k m with Some v => Ok v | None => Raise EKeyError end.
Proof. unfold sdict_get, yfind. destruct (find _ m); reflexivity. Qed.

(* check_fields_are_present: the required fields that are not keys, in order *)
Lemma check_fields_loop : forall (config : list (string * yv)) req acc,
  foldE (fun (st : list string) (field : string) =>
    let absent_fields := st in
    rbind (if (negb (sdict_mem field config)) then let absent_fields := absent_fields ++ [field] in Ok absent_fields else Ok absent_fields)
          (fun (st : list string) => let absent_fields := st in Ok absent_fields)) req acc
  = Ok (acc ++ filter (fun f => negb (sdict_mem f config)) req).
Proof.
  intros config req. induction req as [|f t IH]; intros acc; cbn [foldE filter].
  - rewrite app_nil_r. reflexivity.
  - destruct (negb (sdict_mem f config)); cbn [rbind]; rewrite IH; [rewrite <- app_assoc|]; reflexivity.
Qed.

Lemma check_fields_are_present_eq req config :
  check_fields_are_present_gen req config = Ok (filter (fun f => negb (sdict_mem f config)) req).
Proof. unfold check_fields_are_present_gen. rewrite check_fields_loop. reflexivity. Qed.

(* ====================================================================== *)
(* 1. str methods: block ids                                                *)
(* ====================================================================== *)
Definition is_block_id (s : string) : bool := (s_startswith s "B" && s_isdigit (s_slice_from 1 s))%bool.
Definition digits : list ascii := list_ascii_of_string "0123456789".

Lemma ch_isdigit_digits : forall c, ch_isdigit c = existsb (Ascii.eqb c) digits.
Proof. intros c. destruct c as [[] [] [] [] [] [] [] []]; vm_compute; reflexivity. Qed.

Theorem ch_isdigit_iff : forall c, ch_isdigit c = true <-> In c digits.
Proof.
  intros c. rewrite ch_isdigit_digits, existsb_exists. split.
  - intros (x & Hin & E). apply Ascii.eqb_eq in E. subst x. exact Hin.
  - intros Hin. exists c. split; [exact Hin | apply Ascii.eqb_refl].
Qed.

Theorem is_block_id_iff : forall s,
  is_block_id s = true <-> exists d, s = ("B" ++ d)%string /\ d <> "" /\ s_forall ch_isdigit d = true.
Proof.
  intros s. unfold is_block_id, s_startswith, s_isdigit. split.
  - intros H. apply andb_true_iff in H. destruct H as [Hp Hd].
    destruct s as [|c t]; [cbn in Hp; discriminate|].
    cbn [String.prefix] in Hp. destruct (ascii_dec "B" c) as [E|E]; [|discriminate]. subst c.
    cbn [s_slice_from] in Hd. apply andb_true_iff in Hd. destruct Hd as [Hne Hall].
    exists t. split; [reflexivity|]. split; [|exact Hall].
    intros E. subst t. cbn in Hne. discriminate.
  - intros (d & E & Hne & Hall). subst s. cbn [append String.prefix s_slice_from].
    destruct (ascii_dec "B" "B") as [_|N]; [|exfalso; apply N; reflexivity].
    destruct d as [|c t]; [exfalso; apply Hne; reflexivity|].
    rewrite Hall. reflexivity.
Qed.

(* the test of the source, `not s.startswith("B") or not s[1:].isdigit()`, is the negation *)
Lemma block_test_eq s : (negb (s_startswith s "B") || negb (s_isdigit (s_slice_from 1 s)))%bool = negb (is_block_id s).
Proof. unfold is_block_id. rewrite negb_andb. reflexivity. Qed.

Example is_block_id_examples :
  map is_block_id ["B0"; "B12"; "B007"; "B"; "b1"; "B1a"; ""; "1"; "BB1"; "B 1"; "B-1"; "AB1"]
  = [true; true; true; false; false; false; false; false; false; false; false; false].
Proof. vm_compute. reflexivity. Qed.

(* ====================================================================== *)
(* 2. GroupConfigFunction.from_yaml                                          *)
(* ====================================================================== *)
Definition E_fn_no_name := EInvalid "function name is not given".
Definition E_fn_absent := EInvalid "Function name: {}\n\nFollowing Required fields are absent: {}".
Definition E_fn_block := EInvalid "Function name: {}\nIncorrect block id in dispatch path: {}".

Definition block_loop_body (st : unit) (block_id : string) : rs unit :=
  if ((negb (s_startswith block_id "B")) || (negb (s_isdigit (s_slice_from 1 block_id))))%bool then Raise E_fn_block else Ok tt.

(* conversion: the generated reader is this text (an edit of the Python breaks this lemma) *)
Lemma function_from_yaml_unfold : forall function,
  GroupConfigFunction_from_yaml_gen function =
  if negb (sdict_mem "name" function) then Raise E_fn_no_name else
  rbind (sdict_get "name" function) (fun v => rbind (as_str v) (fun name =>
  rbind (check_fields_are_present_gen ["dispatch_path"] function) (fun absent_fields =>
  if (match absent_fields with [] => false | _ => true end) then Raise E_fn_absent else
  rbind (sdict_get "dispatch_path" function) (fun p => rbind (as_list_of as_str p) (fun dispatch_path =>
  rbind (foldE block_loop_body dispatch_path tt) (fun _ => Ok (mkGroupConfigFunction name dispatch_path))))))).
Proof. intros function. reflexivity. Qed.

Lemma block_loop_eq : forall l, foldE block_loop_body l tt = if forallb is_block_id l then Ok tt else Raise E_fn_block.
Proof.
  induction l as [|b t IH]; [reflexivity|]. cbn [foldE forallb]. unfold block_loop_body at 1.
  rewrite block_test_eq. destruct (is_block_id b); cbn [negb rbind andb]; [exact IH | reflexivity].
Qed.

(* the functional program *)
Definition function_spec (m : list (string * yv)) : rs GroupConfigFunction :=
  match yfind "name" m with
  | None => Raise E_fn_no_name
  | Some vn =>
    rbind (as_str vn) (fun name =>
    match yfind "dispatch_path" m with
    | None => Raise E_fn_absent
    | Some vp =>
      rbind (as_list_of as_str vp) (fun path =>
      if forallb is_block_id path then Ok (mkGroupConfigFunction name path) else Raise E_fn_block)
    end)
  end.

Theorem function_from_yaml_spec : forall m, GroupConfigFunction_from_yaml_gen m = function_spec m.
Proof.
  intros m. rewrite function_from_yaml_unfold. unfold function_spec.
  rewrite sdict_mem_yfind, sdict_get_yfind. destruct (yfind "name" m) as [vn|]; [|reflexivity].
  cbn [negb rbind]. destruct (as_str vn) as [name|e]; [|reflexivity]. cbn [rbind].
  rewrite check_fields_are_present_eq. cbn [filter rbind]. rewrite sdict_mem_yfind, sdict_get_yfind.
  destruct (yfind "dispatch_path" m) as [vp|]; [|reflexivity]. cbn [negb rbind].
  destruct (as_list_of as_str vp) as [path|e]; [|reflexivity]. cbn [rbind].
  rewrite block_loop_eq. destruct (forallb is_block_id path); reflexivity.
Qed.

Lemma as_all_str_map : forall r, as_all as_str (map YStr r) = Ok r.
Proof. induction r as [|s r IH]; [reflexivity|]. cbn [map as_all as_str rbind]. rewrite IH. reflexivity. Qed.

Lemma as_all_str_inv : forall l r, as_all as_str l = Ok r -> l = map YStr r.
Proof.
  induction l as [|v t IH]; intros r H; cbn [as_all] in H.
  - inversion H. reflexivity.
  - destruct v as [|b|z|s|l'|m']; cbn [as_str rbind] in H; try discriminate.
    destruct (as_all as_str t) as [r'|e] eqn:E; cbn [rbind] in H; [|discriminate].
    inversion H. subst r. cbn [map]. rewrite (IH r' eq_refl). reflexivity.
Qed.

Lemma as_all_str_ok : forall l r, as_all as_str l = Ok r <-> l = map YStr r.
Proof. intros l r. split; [apply as_all_str_inv | intros H; subst l; apply as_all_str_map]. Qed.

Lemma as_list_of_str_ok v r : as_list_of as_str v = Ok r <-> v = YList (map YStr r).
Proof.
  unfold as_list_of. destruct v as [|b|z|s|l|m]; cbn [as_list rbind]; try (split; discriminate).
  rewrite as_all_str_ok. split; [intros H; subst l; reflexivity | intros H; inversion H; reflexivity].
Qed.

(* returns f iff: "name" is the str cf_name f, "dispatch_path" is the list of str cf_dispatch_path f, all block ids *)
Theorem function_from_yaml_ok_iff : forall m f,
  GroupConfigFunction_from_yaml_gen m = Ok f <->
  yfind "name" m = Some (YStr (cf_name f)) /\ yfind "dispatch_path" m = Some (YList (map YStr (cf_dispatch_path f)))
  /\ forallb is_block_id (cf_dispatch_path f) = true.
Proof.
  intros m f. rewrite function_from_yaml_spec. unfold function_spec. split.
  - intros H. destruct (yfind "name" m) as [vn|]; [|discriminate].
    destruct vn as [|b|z|s|l|m']; cbn [as_str rbind] in H; try discriminate.
    destruct (yfind "dispatch_path" m) as [vp|]; [|discriminate].
    destruct (as_list_of as_str vp) as [path|e] eqn:Ep; cbn [rbind] in H; [|discriminate].
    destruct (forallb is_block_id path) eqn:Eb; [|discriminate]. inversion H. subst f. cbn [cf_name cf_dispatch_path].
    apply as_list_of_str_ok in Ep. subst vp. split; [reflexivity | split; [reflexivity | exact Eb]].
  - intros (Hn & Hp & Hb). rewrite Hn, Hp. cbn [as_str rbind].
    assert (Ep : as_list_of as_str (YList (map YStr (cf_dispatch_path f))) = Ok (cf_dispatch_path f)) by (apply as_list_of_str_ok; reflexivity).
    rewrite Ep. cbn [rbind]. rewrite Hb. destruct f; reflexivity.
Qed.

(* which exception: the four raising cases of the typed reading, each with its condition *)
Theorem function_from_yaml_raises : forall m,
  (yfind "name" m = None -> GroupConfigFunction_from_yaml_gen m = Raise E_fn_no_name) /\
  (forall n, yfind "name" m = Some (YStr n) -> yfind "dispatch_path" m = None -> GroupConfigFunction_from_yaml_gen m = Raise E_fn_absent) /\
  (forall n p, yfind "name" m = Some (YStr n) -> yfind "dispatch_path" m = Some (YList (map YStr p)) -> forallb is_block_id p = false ->
     GroupConfigFunction_from_yaml_gen m = Raise E_fn_block).
Proof.
  intros m. rewrite function_from_yaml_spec. unfold function_spec. repeat split.
  - intros H. rewrite H. reflexivity.
  - intros n Hn Hp. rewrite Hn, Hp. reflexivity.
  - intros n p Hn Hp Hb. rewrite Hn, Hp. cbn [as_str rbind].
    assert (Ep : as_list_of as_str (YList (map YStr p)) = Ok p) by (apply as_list_of_str_ok; reflexivity).
    rewrite Ep. cbn [rbind]. rewrite Hb. reflexivity.
Qed.

Definition yaml_of_function (f : GroupConfigFunction) : list (string * yv) :=
  [("name", YStr (cf_name f)); ("dispatch_path", YList (map YStr (cf_dispatch_path f)))].

Theorem function_from_yaml_roundtrip : forall f,
  GroupConfigFunction_from_yaml_gen (yaml_of_function f) = if forallb is_block_id (cf_dispatch_path f) then Ok f else Raise E_fn_block.
Proof.
  intros f. rewrite function_from_yaml_spec. unfold function_spec, yaml_of_function. cbn [yfind find fst snd String.eqb Ascii.eqb Bool.eqb as_str rbind].
  assert (Ep : as_list_of as_str (YList (map YStr (cf_dispatch_path f))) = Ok (cf_dispatch_path f)) by (apply as_list_of_str_ok; reflexivity).
  rewrite Ep. cbn [rbind]. destruct f; reflexivity.
Qed.

Example function_from_yaml_examples :
  GroupConfigFunction_from_yaml_gen [("name", YStr "f"); ("dispatch_path", YList [YStr "B0"; YStr "B12"])] = Ok (mkGroupConfigFunction "f" ["B0"; "B12"])
  /\ GroupConfigFunction_from_yaml_gen [("dispatch_path", YList [])] = Raise (EInvalid "function name is not given")
  /\ GroupConfigFunction_from_yaml_gen [("name", YStr "f")] = Raise (EInvalid "Function name: {}\n\nFollowing Required fields are absent: {}")
  /\ GroupConfigFunction_from_yaml_gen [("name", YStr "f"); ("dispatch_path", YList [YStr "B0"; YStr "b1"])] = Raise (EInvalid "Function name: {}\nIncorrect block id in dispatch path: {}")
  /\ GroupConfigFunction_from_yaml_gen [("name", YStr "f"); ("dispatch_path", YList [YStr "B"])] = Raise (EInvalid "Function name: {}\nIncorrect block id in dispatch path: {}")
  /\ GroupConfigFunction_from_yaml_gen [("name", YStr "f"); ("dispatch_path", YList [YStr "BB1"])] = Raise (EInvalid "Function name: {}\nIncorrect block id in dispatch path: {}")
  /\ GroupConfigFunction_from_yaml_gen [("name", YStr "f"); ("dispatch_path", YList [YInt 0])] = Raise ETypeError
  /\ GroupConfigFunction_from_yaml_gen [("name", YInt 1); ("dispatch_path", YList [])] = Raise ETypeError
  /\ GroupConfigFunction_from_yaml_gen [("name", YStr "f"); ("dispatch_path", YList [])] = Ok (mkGroupConfigFunction "f" []).
Proof. vm_compute. repeat split. Qed.

(* ====================================================================== *)
(* 3. GroupConfigContract.from_yaml, GroupConfig.from_yaml                   *)
(* ====================================================================== *)
Definition E_c_no_name := EInvalid "contract name is not given".
Definition E_c_absent := EInvalid "Contract name: {}\n\nFollowing Required fields are absent: {}".
Definition E_c_type := EInvalid "Contract name: {}\n Invalid contract type: {}".
(* the message of the re-raised exception: the handler's prefix followed by the message of the caught one *)
Definition E_c_fn_no_name := EInvalid "Contract name: {}\nfunction name is not given".
Definition E_c_fn_absent := EInvalid "Contract name: {}\nFunction name: {}\n\nFollowing Required fields are absent: {}".
Definition E_c_fn_block := EInvalid "Contract name: {}\nFunction name: {}\nIncorrect block id in dispatch path: {}".
Definition contract_required : list string := ["file_path"; "type"; "version"; "subroutines"; "functions"].

Definition required_loop_body (contract : list (string * yv)) (st : list string) (field : string) : rs (list string) :=
  let absent_fields := st in
  rbind (if (negb (sdict_mem field contract)) then let absent_fields := absent_fields ++ [field] in Ok absent_fields else Ok absent_fields)
        (fun (st : list string) => let absent_fields := st in Ok absent_fields).

Definition functions_loop_body (st : list GroupConfigFunction) (function : list (string * yv)) : rs (list GroupConfigFunction) :=
  let parsed_functions := st in
  rbind (try_reraise_invalid "Contract name: {}\n" (
    rbind (GroupConfigFunction_from_yaml_gen function) (fun f => let parsed_functions := parsed_functions ++ [f] in Ok parsed_functions)))
    (fun (st : list GroupConfigFunction) => Ok st).

(* conversion: the generated reader is this text (an edit of the Python breaks this lemma) *)
Lemma contract_from_yaml_unfold : forall contract,
  GroupConfigContract_from_yaml_gen contract =
  if negb (sdict_mem "name" contract) then Raise E_c_no_name else
  rbind (sdict_get "name" contract) (fun v0 => rbind (as_str v0) (fun name =>
  rbind (foldE (required_loop_body contract) contract_required []) (fun absent_fields =>
  if (match absent_fields with [] => false | _ => true end) then Raise E_c_absent else
  rbind (sdict_get "file_path" contract) (fun v1 => rbind (as_str v1) (fun file_path =>
  rbind (sdict_get "type" contract) (fun v2 => rbind (as_str v2) (fun contract_type =>
  rbind (sdict_get "version" contract) (fun v3 => rbind (as_int v3) (fun version =>
  rbind (sdict_get "subroutines" contract) (fun v4 => rbind (as_list_of as_str v4) (fun subroutines =>
  if negb (s_in_list contract_type GROUP_CONFIG_CONTRACT_TYPES) then Raise E_c_type else
  rbind (sdict_get "functions" contract) (fun v5 => rbind (as_list_of as_map v5) (fun functions =>
  rbind (foldE functions_loop_body functions []) (fun parsed_functions =>
  Ok (mkGroupConfigContract name file_path contract_type version subroutines parsed_functions))))))))))))))).
Proof. intros contract. reflexivity. Qed.

(* the inline required-field loop is check_fields_are_present on the five names *)
Lemma required_loop_eq : forall contract req acc,
  foldE (required_loop_body contract) req acc = Ok (acc ++ filter (fun f => negb (sdict_mem f contract)) req).
Proof. intros contract req acc. exact (check_fields_loop contract req acc). Qed.

(* the try / except around GroupConfigFunction.from_yaml: the first function that is refused ends the loop with the
   contract's prefix before its message; every other exception passes unchanged *)
Fixpoint functions_spec (fs : list (list (string * yv))) : rs (list GroupConfigFunction) :=
  match fs with
  | [] => Ok []
  | m :: t => rbind (try_reraise_invalid "Contract name: {}\n" (GroupConfigFunction_from_yaml_gen m)) (fun f => rbind (functions_spec t) (fun r => Ok (f :: r)))
  end.

Lemma functions_loop_eq : forall fs acc,
  foldE functions_loop_body fs acc = rbind (functions_spec fs) (fun r => Ok (acc ++ r)).
Proof.
  induction fs as [|m t IH]; intros acc; cbn [foldE functions_spec rbind].
  - rewrite app_nil_r. reflexivity.
  - unfold functions_loop_body at 1. destruct (GroupConfigFunction_from_yaml_gen m) as [f|e]; cbn [rbind try_reraise_invalid].
    + rewrite IH. destruct (functions_spec t) as [r|e]; cbn [rbind]; [rewrite <- app_assoc|]; reflexivity.
    + destruct e; reflexivity.
Qed.

(* ---- the canonical YAML of a configuration record reads back *)
Definition yaml_of_contract (c : GroupConfigContract) : list (string * yv) :=
  [("name", YStr (cc_name c)); ("file_path", YStr (cc_file_path c)); ("type", YStr (cc_contract_type c)); ("version", YInt (cc_version c));
   ("subroutines", YList (map YStr (cc_subroutines c))); ("functions", YList (map (fun f => YMap (yaml_of_function f)) (cc_functions c)))].
Definition function_ok (f : GroupConfigFunction) : bool := forallb is_block_id (cf_dispatch_path f).

Lemma as_all_map_functions : forall fns, as_all as_map (map (fun f => YMap (yaml_of_function f)) fns) = Ok (map yaml_of_function fns).
Proof. induction fns as [|f t IH]; [reflexivity|]. cbn [map as_all as_map rbind]. rewrite IH. reflexivity. Qed.

Lemma functions_spec_roundtrip : forall fns,
  functions_spec (map yaml_of_function fns) = if forallb function_ok fns then Ok fns else Raise E_c_fn_block.
Proof.
  induction fns as [|f t IH]; [reflexivity|]. cbn [map functions_spec forallb]. rewrite function_from_yaml_roundtrip. fold (function_ok f).
  destruct (function_ok f); cbn [try_reraise_invalid rbind andb]; [|reflexivity].
  rewrite IH. destruct (forallb function_ok t); reflexivity.
Qed.

(* for EVERY record c: its canonical YAML is read as c iff the type is listed and every block id is well-formed;
   otherwise exactly the exception of the first failing check *)
Theorem contract_from_yaml_roundtrip : forall c,
  GroupConfigContract_from_yaml_gen (yaml_of_contract c) =
  if negb (s_in_list (cc_contract_type c) GROUP_CONFIG_CONTRACT_TYPES) then Raise E_c_type
  else if forallb function_ok (cc_functions c) then Ok c else Raise E_c_fn_block.
Proof.
  intros c. rewrite contract_from_yaml_unfold. rewrite required_loop_eq.
  replace (filter (fun f => negb (sdict_mem f (yaml_of_contract c))) contract_required) with (@nil string) by reflexivity.
  rewrite sdict_mem_yfind, !sdict_get_yfind.
  replace (yfind "name" (yaml_of_contract c)) with (Some (YStr (cc_name c))) by reflexivity.
  replace (yfind "file_path" (yaml_of_contract c)) with (Some (YStr (cc_file_path c))) by reflexivity.
  replace (yfind "type" (yaml_of_contract c)) with (Some (YStr (cc_contract_type c))) by reflexivity.
  replace (yfind "version" (yaml_of_contract c)) with (Some (YInt (cc_version c))) by reflexivity.
  replace (yfind "subroutines" (yaml_of_contract c)) with (Some (YList (map YStr (cc_subroutines c)))) by reflexivity.
  replace (yfind "functions" (yaml_of_contract c)) with (Some (YList (map (fun f => YMap (yaml_of_function f)) (cc_functions c)))) by reflexivity.
  cbn [negb rbind as_str as_int app].
  assert (Es : as_list_of as_str (YList (map YStr (cc_subroutines c))) = Ok (cc_subroutines c)) by (apply as_list_of_str_ok; reflexivity).
  rewrite Es. cbn [rbind]. destruct (s_in_list (cc_contract_type c) GROUP_CONFIG_CONTRACT_TYPES); cbn [negb]; [|reflexivity].
  unfold as_list_of at 1. cbn [as_list rbind]. rewrite as_all_map_functions. cbn [rbind].
  rewrite functions_loop_eq, functions_spec_roundtrip.
  destruct (forallb function_ok (cc_functions c)); cbn [rbind app]; [destruct c; reflexivity | reflexivity].
Qed.

Definition ex_contract_yaml (ty : string) (fns : yv) : list (string * yv) :=
  [("name", YStr "app"); ("file_path", YStr "a.teal"); ("type", YStr ty); ("version", YInt 6); ("subroutines", YList [YStr "sub"]); ("functions", fns)].
Definition ex_fn_yaml (blk : string) : yv := YMap [("name", YStr "f"); ("dispatch_path", YList [YStr "B0"; YStr blk])].

Example contract_from_yaml_examples :
  GroupConfigContract_from_yaml_gen (ex_contract_yaml "ApprovalProgram" (YList [ex_fn_yaml "B1"]))
    = Ok (mkGroupConfigContract "app" "a.teal" "ApprovalProgram" 6 ["sub"] [mkGroupConfigFunction "f" ["B0"; "B1"]])
  /\ GroupConfigContract_from_yaml_gen [("file_path", YStr "a.teal")] = Raise (EInvalid "contract name is not given")
  /\ GroupConfigContract_from_yaml_gen [("name", YStr "app"); ("file_path", YStr "a.teal"); ("type", YStr "LogicSig"); ("version", YInt 6); ("functions", YList [])]
       = Raise (EInvalid "Contract name: {}\n\nFollowing Required fields are absent: {}")
  /\ GroupConfigContract_from_yaml_gen [("name", YStr "app"); ("type", YStr "LogicSig"); ("version", YInt 6); ("subroutines", YList []); ("functions", YList [])]
       = Raise (EInvalid "Contract name: {}\n\nFollowing Required fields are absent: {}")
  /\ GroupConfigContract_from_yaml_gen (ex_contract_yaml "Unknown" (YList [])) = Raise (EInvalid "Contract name: {}\n Invalid contract type: {}")
  /\ GroupConfigContract_from_yaml_gen (ex_contract_yaml "LogicSig" (YList [ex_fn_yaml "b1"]))
       = Raise (EInvalid "Contract name: {}\nFunction name: {}\nIncorrect block id in dispatch path: {}")
  /\ GroupConfigContract_from_yaml_gen (ex_contract_yaml "LogicSig" (YList [YMap [("dispatch_path", YList [])]]))
       = Raise (EInvalid "Contract name: {}\nfunction name is not given")
  /\ GroupConfigContract_from_yaml_gen (ex_contract_yaml "LogicSig" (YList [YMap [("name", YStr "f")]]))
       = Raise (EInvalid "Contract name: {}\nFunction name: {}\n\nFollowing Required fields are absent: {}")
  /\ GroupConfigContract_from_yaml_gen (ex_contract_yaml "LogicSig" (YList [YMap [("name", YInt 0); ("dispatch_path", YList [])]])) = Raise ETypeError
  /\ GroupConfigContract_from_yaml_gen (ex_contract_yaml "LogicSig" (YStr "f")) = Raise ETypeError.
Proof. vm_compute. repeat split. Qed.

(* GroupConfig.from_yaml *)
Definition E_cfg_absent := EInvalid "Config:\n\nFollowing Required fields are absent: {}".

Lemma config_from_yaml_unfold : forall config,
  GroupConfig_from_yaml_gen config =
  rbind (check_fields_are_present_gen ["name"; "contracts"; "groups"] config) (fun absent_fields =>
  if (match absent_fields with [] => false | _ => true end) then Raise E_cfg_absent else
  rbind (sdict_get "name" config) (fun name =>
  rbind (sdict_get "contracts" config) (fun v1 => rbind (as_list v1) (fun l1 =>
  rbind (foldE (fun (contracts : list GroupConfigContract) (contract : yv) =>
           rbind (as_map contract) (fun m => rbind (GroupConfigContract_from_yaml_gen m) (fun c => Ok (contracts ++ [c])))) l1 []) (fun contracts =>
  rbind (sdict_get "groups" config) (fun v2 => rbind (as_list v2) (fun l2 =>
  rbind (foldE (fun (groups : list GroupConfigGroup) (group : yv) =>
           rbind (as_map group) (fun m => rbind (GroupConfigGroup_from_yaml_gen m) (fun g => Ok (groups ++ [g])))) l2 []) (fun groups =>
  rbind (as_str name) (fun n => Ok (mkGroupConfig n contracts groups)))))))))).
Proof. intros config. reflexivity. Qed.

(* a loop that appends the reading of every member: the readings in order, the first exception ends it *)
Lemma append_loop_eq {A} (f : list (string * yv) -> rs A) : forall l acc,
  foldE (fun (st : list A) (v : yv) => rbind (as_map v) (fun m => rbind (f m) (fun a => Ok (st ++ [a])))) l acc
  = rbind (mapR (fun v => rbind (as_map v) f) l) (fun r => Ok (acc ++ r)).
Proof.
  induction l as [|v t IH]; intros acc; cbn [foldE mapR rbind].
  - rewrite app_nil_r. reflexivity.
  - destruct (as_map v) as [m|e]; cbn [rbind]; [|reflexivity]. destruct (f m) as [a|e]; cbn [rbind]; [|reflexivity].
    rewrite IH. destruct (mapR _ t) as [r|e]; cbn [rbind]; [rewrite <- app_assoc|]; reflexivity.
Qed.

(* for EVERY map: the three fields must be present; contracts and groups are read member by member, in this order *)
Theorem config_from_yaml_spec : forall config,
  GroupConfig_from_yaml_gen config =
  match yfind "name" config, yfind "contracts" config, yfind "groups" config with
  | Some name, Some cs, Some gs =>
    rbind (as_list cs) (fun l1 => rbind (mapR (fun v => rbind (as_map v) GroupConfigContract_from_yaml_gen) l1) (fun contracts =>
    rbind (as_list gs) (fun l2 => rbind (mapR (fun v => rbind (as_map v) GroupConfigGroup_from_yaml_gen) l2) (fun groups =>
    rbind (as_str name) (fun n => Ok (mkGroupConfig n contracts groups))))))
  | _, _, _ => Raise E_cfg_absent
  end.
Proof.
  intros config. rewrite config_from_yaml_unfold, check_fields_are_present_eq. cbn [filter]. rewrite !sdict_mem_yfind, !sdict_get_yfind.
  destruct (yfind "name" config) as [name|], (yfind "contracts" config) as [cs|], (yfind "groups" config) as [gs|]; cbn [negb rbind]; try reflexivity.
  destruct (as_list cs) as [l1|e]; cbn [rbind]; [|reflexivity].
  rewrite (append_loop_eq GroupConfigContract_from_yaml_gen). destruct (mapR _ l1) as [contracts|e]; cbn [rbind app]; [|reflexivity].
  destruct (as_list gs) as [l2|e]; cbn [rbind]; [|reflexivity].
  rewrite (append_loop_eq GroupConfigGroup_from_yaml_gen). destruct (mapR _ l2) as [groups|e]; cbn [rbind app]; reflexivity.
Qed.

Example config_from_yaml_examples :
  GroupConfig_from_yaml_gen [("name", YStr "cfg"); ("contracts", YList [YMap (ex_contract_yaml "LogicSig" (YList [ex_fn_yaml "B1"]))]);
                             ("groups", YList [YMap [("operation", YStr "op"); ("transactions", YList [YMap [("txn_id", YStr "t0"); ("txn_type", YStr "pay")]])]])]
    = Ok (mkGroupConfig "cfg" [mkGroupConfigContract "app" "a.teal" "LogicSig" 6 ["sub"] [mkGroupConfigFunction "f" ["B0"; "B1"]]]
            [mkGroupConfigGroup "op" [mkGroupConfigTransaction "t0" "pay" None None None None None]])
  /\ GroupConfig_from_yaml_gen [("name", YStr "cfg"); ("contracts", YList [])] = Raise (EInvalid "Config:\n\nFollowing Required fields are absent: {}")
  /\ GroupConfig_from_yaml_gen [("name", YStr "cfg"); ("contracts", YList [YMap (ex_contract_yaml "Nope" (YList []))]); ("groups", YList [])]
       = Raise (EInvalid "Contract name: {}\n Invalid contract type: {}")
  /\ GroupConfig_from_yaml_gen [("name", YStr "cfg"); ("contracts", YList []); ("groups", YList [YMap []])]
       = Raise (EInvalid "Group:\n\nFollowing Required fields are absent: {}")
  /\ GroupConfig_from_yaml_gen [("name", YInt 3); ("contracts", YList []); ("groups", YList [])] = Raise ETypeError.
Proof. vm_compute. repeat split. Qed.

(* ====================================================================== *)
(* 4. contract_type_from_txt                                                *)
(* ====================================================================== *)
(* for EVERY text: the identity on the listed contract types, KeyError elsewhere.  GroupConfigContract.from_yaml only
   accepts the types of GROUP_CONFIG_CONTRACT_TYPES, so the contracts loop never raises KeyError on a configuration
   that was read by from_yaml; the ContractType member NAME is the configured text *)
Theorem contract_type_from_txt_gen_eq : forall s,
  contract_type_from_txt_gen s = if s_in_list s GROUP_CONFIG_CONTRACT_TYPES then Ok s else Raise EKeyError.
Proof.
  intros s. unfold contract_type_from_txt_gen, sdict_get, s_in_list, GROUP_CONFIG_CONTRACT_TYPES. cbn [find fst snd existsb].
  rewrite !(String.eqb_sym s).
  destruct (String.eqb_spec "ApprovalProgram" s) as [E1|N1]; [subst s; reflexivity|].
  destruct (String.eqb_spec "ClearStateProgram" s) as [E2|N2]; [subst s; reflexivity|].
  destruct (String.eqb_spec "LogicSig" s) as [E3|N3]; [subst s; reflexivity|]. reflexivity.
Qed.

Example contract_type_from_txt_examples :
  map contract_type_from_txt_gen ["LogicSig"; "ApprovalProgram"; "ClearStateProgram"; "Unknown"; "logicsig"]
  = [Ok "LogicSig"; Ok "ApprovalProgram"; Ok "ClearStateProgram"; Raise EKeyError; Raise EKeyError].
Proof. vm_compute. reflexivity. Qed.

(* ====================================================================== *)
(* 5. the contracts loop of init_tealer_from_config                         *)
(* ====================================================================== *)
Lemma sdict_get_set_same {V} k (v : V) d : sdict_get k (sdict_set k v d) = Ok v.
Proof.
  unfold sdict_get, sdict_set. induction d as [|[k0 v0] t IH]; cbn [GroupGen.dict_set find fst snd].
  - rewrite String.eqb_refl. reflexivity.
  - destruct (String.eqb k0 k) eqn:E; cbn [find fst snd]; rewrite E; [reflexivity | exact IH].
Qed.

Lemma sdict_get_set_other {V} k k' (v : V) d : k <> k' -> sdict_get k (sdict_set k' v d) = sdict_get k d.
Proof.
  intros N. unfold sdict_get, sdict_set. induction d as [|[k0 v0] t IH]; cbn [GroupGen.dict_set find fst snd].
  - destruct (String.eqb_spec k' k) as [E|_]; [exfalso; apply N; symmetry; exact E | reflexivity].
  - destruct (String.eqb_spec k0 k') as [E1|N1]; cbn [find fst snd].
    + subst k0. destruct (String.eqb_spec k' k) as [E|_]; [exfalso; apply N; symmetry; exact E | reflexivity].
    + destruct (String.eqb k0 k); [reflexivity | exact IH].
Qed.

Lemma sdict_set_new {V} k (v : V) d : sdict_mem k d = false -> sdict_set k v d = d ++ [(k, v)].
Proof.
  unfold sdict_mem, sdict_set. induction d as [|[k0 v0] t IH]; cbn [existsb GroupGen.dict_set fst app]; intros H; [reflexivity|].
  apply orb_false_iff in H. destruct H as [H0 Ht]. rewrite H0. rewrite (IH Ht). reflexivity.
Qed.

Lemma sdict_mem_app {V} k (d1 d2 : list (string * V)) : sdict_mem k (d1 ++ d2) = (sdict_mem k d1 || sdict_mem k d2)%bool.
Proof. unfold sdict_mem. apply existsb_app. Qed.

Definition ftable_t : Type := list (tcontract * list string * string).

(* contract_functions of one contract: the configured names in order, numbered from `start`; a name that occurs again
   overwrites the index in place (the position of its first occurrence), like a Python dict *)
Fixpoint fn_dict (start : nat) (fns : list GroupConfigFunction) (d : list (string * nat)) : list (string * nat) :=
  match fns with
  | [] => d
  | f :: t => fn_dict (S start) t (sdict_set (cf_name f) start d)
  end.

Fixpoint last_idx (n : string) (fns : list GroupConfigFunction) : option nat :=
  match fns with
  | [] => None
  | f :: t => match last_idx n t with Some i => Some (S i) | None => if String.eqb (cf_name f) n then Some O else None end
  end.

(* lookup of a function name: the index of its LAST configuration entry *)
Theorem fn_dict_get : forall n fns start d,
  sdict_get n (fn_dict start fns d) = match last_idx n fns with Some i => Ok (start + i)%nat | None => sdict_get n d end.
Proof.
  intros n fns. induction fns as [|f t IH]; intros start d; cbn [fn_dict last_idx]; [reflexivity|].
  rewrite IH. destruct (last_idx n t) as [i|].
  - f_equal. lia.
  - destruct (String.eqb_spec (cf_name f) n) as [E|N].
    + subst n. rewrite sdict_get_set_same. f_equal. lia.
    + apply sdict_get_set_other. intros E. apply N. symmetry. exact E.
Qed.

(* pairwise distinct names: the names in order with consecutive indices *)
Theorem fn_dict_nodup : forall fns start d,
  NoDup (map cf_name fns) -> (forall f, In f fns -> sdict_mem (cf_name f) d = false) ->
  fn_dict start fns d = d ++ combine (map cf_name fns) (seq start (length fns)).
Proof.
  induction fns as [|f t IH]; intros start d Hnd Hfresh; cbn [fn_dict map length seq combine].
  - rewrite app_nil_r. reflexivity.
  - inversion Hnd as [|x l Hnotin Hnd']. subst x l.
    rewrite sdict_set_new by (apply Hfresh; left; reflexivity).
    rewrite IH.
    + rewrite <- app_assoc. reflexivity.
    + exact Hnd'.
    + intros g Hg. rewrite sdict_mem_app. rewrite (Hfresh g (or_intror Hg)). cbn [sdict_mem existsb fst orb].
      destruct (String.eqb_spec (cf_name f) (cf_name g)) as [E|_]; [|reflexivity].
      exfalso. apply Hnotin. rewrite E. apply in_map. exact Hg.
Qed.

Example fn_dict_example :
  fn_dict 3 [mkGroupConfigFunction "a" ["B0"]; mkGroupConfigFunction "b" ["B1"]; mkGroupConfigFunction "a" ["B2"]; mkGroupConfigFunction "c" []] []
  = [("a", 5%nat); ("b", 4%nat); ("c", 6%nat)].
Proof. vm_compute. reflexivity. Qed.

Section ContractsLoop.
Variable load_and_parse : string -> string -> rs tcontract.
Variable construct_function_call : tcontract -> list string -> string -> rs unit.

Definition inner_body (teal : tcontract) (st : ftable_t * list (string * nat)) (function_config : GroupConfigFunction) : rs (ftable_t * list (string * nat)) :=
  let '(ftable, contract_functions) := st in
  rbind (construct_function_call teal (cf_dispatch_path function_config) (cf_name function_config)) (fun _ =>
  let func := length ftable in
  let ftable := ftable ++ [(teal, cf_dispatch_path function_config, cf_name function_config)] in
  let contract_functions := sdict_set (cf_name function_config) func contract_functions in
  Ok (ftable, contract_functions)).

Definition contract_body (st : ftable_t * list (string * tcontract)) (contract_config : GroupConfigContract) : rs (ftable_t * list (string * tcontract)) :=
  let '(ftable, contracts) := st in
  rbind (load_and_parse (cc_file_path contract_config) (cc_name contract_config)) (fun teal =>
  rbind (contract_type_from_txt_gen (cc_contract_type contract_config)) (fun given_contract_type =>
  let teal := set_c_contract_type given_contract_type teal in
  rbind (foldE (inner_body teal) (cc_functions contract_config) (ftable, [])) (fun st' =>
  let '(ftable, contract_functions) := st' in
  let teal := set_c_functions contract_functions teal in
  Ok (ftable, sdict_set (cc_name contract_config) teal contracts)))).

(* conversion: the generated loop is this text (an edit of the Python breaks this lemma) *)
Lemma init_contracts_gen_unfold : forall config,
  init_contracts_gen load_and_parse construct_function_call config =
  rbind (foldE contract_body (gc_contracts config) ([], [])) (fun st => let '(ftable, contracts) := st in Ok (contracts, ftable)).
Proof. intros config. reflexivity. Qed.

(* ---- the functional program *)
Fixpoint construct_all (teal : tcontract) (fns : list GroupConfigFunction) : rs unit :=
  match fns with
  | [] => Ok tt
  | f :: t => rbind (construct_function_call teal (cf_dispatch_path f) (cf_name f)) (fun _ => construct_all teal t)
  end.
Definition fn_rows (teal : tcontract) (fns : list GroupConfigFunction) : ftable_t := map (fun f => (teal, cf_dispatch_path f, cf_name f)) fns.

Fixpoint contracts_spec (cs : list GroupConfigContract) (ft : ftable_t) (tbl : list (string * tcontract)) : rs (list (string * tcontract) * ftable_t) :=
  match cs with
  | [] => Ok (tbl, ft)
  | c :: t =>
    rbind (load_and_parse (cc_file_path c) (cc_name c)) (fun parsed =>
    if s_in_list (cc_contract_type c) GROUP_CONFIG_CONTRACT_TYPES then
      let teal := set_c_contract_type (cc_contract_type c) parsed in
      rbind (construct_all teal (cc_functions c)) (fun _ =>
      contracts_spec t (ft ++ fn_rows teal (cc_functions c))
        (sdict_set (cc_name c) (set_c_functions (fn_dict (length ft) (cc_functions c) []) teal) tbl))
    else Raise EKeyError)
  end.

Lemma inner_loop_eq : forall teal fns ft cf,
  foldE (inner_body teal) fns (ft, cf) = rbind (construct_all teal fns) (fun _ => Ok (ft ++ fn_rows teal fns, fn_dict (length ft) fns cf)).
Proof.
  intros teal fns. induction fns as [|f t IH]; intros ft cf; cbn [foldE construct_all fn_rows map fn_dict].
  - rewrite app_nil_r. reflexivity.
  - unfold inner_body at 1. destruct (construct_function_call teal (cf_dispatch_path f) (cf_name f)) as [u|e]; cbn [rbind]; [|reflexivity].
    rewrite IH. rewrite app_length. cbn [length]. rewrite Nat.add_1_r. unfold fn_rows. rewrite <- app_assoc. reflexivity.
Qed.

Lemma contracts_loop_eq : forall cs ft tbl,
  rbind (foldE contract_body cs (ft, tbl)) (fun st => let '(ftable, contracts) := st in Ok (contracts, ftable)) = contracts_spec cs ft tbl.
Proof.
  induction cs as [|c t IH]; intros ft tbl; cbn [foldE contracts_spec]; [reflexivity|].
  unfold contract_body at 1. destruct (load_and_parse (cc_file_path c) (cc_name c)) as [parsed|e]; cbn [rbind]; [|reflexivity].
  rewrite contract_type_from_txt_gen_eq. destruct (s_in_list (cc_contract_type c) GROUP_CONFIG_CONTRACT_TYPES); cbn [rbind]; [|reflexivity].
  rewrite inner_loop_eq. destruct (construct_all (set_c_contract_type (cc_contract_type c) parsed) (cc_functions c)) as [u|e]; cbn [rbind]; [|reflexivity].
  apply IH.
Qed.

(* for EVERY configuration and EVERY behaviour of parse_teal / construct_function: same result, same exception *)
Theorem init_contracts_gen_spec : forall config,
  init_contracts_gen load_and_parse construct_function_call config = contracts_spec (gc_contracts config) [] [].
Proof. intros config. rewrite init_contracts_gen_unfold. apply contracts_loop_eq. Qed.

(* ---- what the table holds when the loop returns *)
Lemma contracts_spec_keep : forall cs ft tbl tbl' ft' k,
  contracts_spec cs ft tbl = Ok (tbl', ft') -> ~ In k (map cc_name cs) -> sdict_get k tbl' = sdict_get k tbl.
Proof.
  induction cs as [|c t IH]; intros ft tbl tbl' ft' k H Hnot; cbn [contracts_spec] in H.
  - inversion H. reflexivity.
  - destruct (load_and_parse (cc_file_path c) (cc_name c)) as [parsed|e]; cbn [rbind] in H; [|discriminate].
    destruct (s_in_list (cc_contract_type c) GROUP_CONFIG_CONTRACT_TYPES); [|discriminate].
    cbn zeta in H. destruct (construct_all _ (cc_functions c)) as [u|e]; cbn [rbind] in H; [|discriminate].
    rewrite (IH _ _ _ _ k H) by (intros X; apply Hnot; right; exact X).
    apply sdict_get_set_other. intros E. apply Hnot. left. symmetry. exact E.
Qed.

(* the name of every configured contract c (for a repeated name: its LAST configuration entry) is mapped to the parsed
   contract with the configured type and functions = the configured names in order, numbered consecutively from the
   number of functions constructed before *)
Theorem contracts_entry : forall pre c post ft tbl tbl' ft',
  contracts_spec (pre ++ c :: post) ft tbl = Ok (tbl', ft') -> ~ In (cc_name c) (map cc_name post) ->
  exists parsed, load_and_parse (cc_file_path c) (cc_name c) = Ok parsed
    /\ s_in_list (cc_contract_type c) GROUP_CONFIG_CONTRACT_TYPES = true
    /\ sdict_get (cc_name c) tbl' =
       Ok (mkContract (c_contract_name parsed) (cc_contract_type c)
             (fn_dict (length ft + length (flat_map cc_functions pre)) (cc_functions c) [])).
Proof.
  induction pre as [|c0 pre IH]; intros c post ft tbl tbl' ft' H Hlast; cbn [app contracts_spec] in H.
  - destruct (load_and_parse (cc_file_path c) (cc_name c)) as [parsed|e]; cbn [rbind] in H; [|discriminate].
    destruct (s_in_list (cc_contract_type c) GROUP_CONFIG_CONTRACT_TYPES) eqn:Ety; [|discriminate].
    cbn zeta in H. destruct (construct_all _ (cc_functions c)) as [u|e]; cbn [rbind] in H; [|discriminate].
    exists parsed. split; [reflexivity|]. split; [reflexivity|].
    rewrite (contracts_spec_keep _ _ _ _ _ _ H Hlast). rewrite sdict_get_set_same.
    cbn [flat_map length]. rewrite Nat.add_0_r. reflexivity.
  - destruct (load_and_parse (cc_file_path c0) (cc_name c0)) as [parsed0|e]; cbn [rbind] in H; [|discriminate].
    destruct (s_in_list (cc_contract_type c0) GROUP_CONFIG_CONTRACT_TYPES); [|discriminate].
    cbn zeta in H. destruct (construct_all _ (cc_functions c0)) as [u|e]; cbn [rbind] in H; [|discriminate].
    destruct (IH c post _ _ _ _ H Hlast) as (parsed & Hp & Hty & Hget).
    exists parsed. split; [exact Hp|]. split; [exact Hty|]. rewrite Hget.
    unfold fn_rows. rewrite app_length, map_length. cbn [flat_map]. rewrite app_length.
    replace (length ft + length (cc_functions c0) + length (flat_map cc_functions pre))%nat
       with (length ft + (length (cc_functions c0) + length (flat_map cc_functions pre)))%nat by lia.
    reflexivity.
Qed.

(* the table of constructed functions: (contract type, dispatch path, name) of all configured functions, in order *)
Definition row3 (e : tcontract * list string * string) : string * list string * string := (c_contract_type (fst (fst e)), snd (fst e), snd e).
Definition cfg_rows (c : GroupConfigContract) : list (string * list string * string) :=
  map (fun f => (cc_contract_type c, cf_dispatch_path f, cf_name f)) (cc_functions c).

Theorem contracts_ftable : forall cs ft tbl tbl' ft',
  contracts_spec cs ft tbl = Ok (tbl', ft') -> map row3 ft' = map row3 ft ++ flat_map cfg_rows cs.
Proof.
  induction cs as [|c t IH]; intros ft tbl tbl' ft' H; cbn [contracts_spec] in H.
  - inversion H. cbn [flat_map]. rewrite app_nil_r. reflexivity.
  - destruct (load_and_parse (cc_file_path c) (cc_name c)) as [parsed|e]; cbn [rbind] in H; [|discriminate].
    destruct (s_in_list (cc_contract_type c) GROUP_CONFIG_CONTRACT_TYPES); [|discriminate].
    cbn zeta in H. destruct (construct_all _ (cc_functions c)) as [u|e]; cbn [rbind] in H; [|discriminate].
    rewrite (IH _ _ _ _ H). rewrite map_app. rewrite <- app_assoc. cbn [flat_map]. f_equal. f_equal.
    unfold fn_rows, cfg_rows. rewrite map_map. reflexivity.
Qed.

Corollary contracts_ftable_length : forall cs tbl' ft',
  contracts_spec cs [] [] = Ok (tbl', ft') -> length ft' = length (flat_map cc_functions cs).
Proof.
  intros cs tbl' ft' H. apply contracts_ftable in H. cbn [map app] in H.
  rewrite <- (map_length row3 ft'), H. clear H. induction cs as [|c t IH]; [reflexivity|].
  cbn [flat_map]. rewrite !app_length, IH. unfold cfg_rows. rewrite map_length. reflexivity.
Qed.

(* every call succeeds and every type is listed: the loop returns *)
Theorem contracts_spec_returns : forall cs ft tbl,
  (forall p n, exists c, load_and_parse p n = Ok c) -> (forall t p n, construct_function_call t p n = Ok tt) ->
  Forall (fun c => s_in_list (cc_contract_type c) GROUP_CONFIG_CONTRACT_TYPES = true) cs ->
  exists r, contracts_spec cs ft tbl = Ok r.
Proof.
  intros cs ft tbl Hl Hc. revert ft tbl. induction cs as [|c t IH]; intros ft tbl Hty; cbn [contracts_spec].
  - eexists. reflexivity.
  - inversion Hty as [|x l Hx Ht]. subst x l. destruct (Hl (cc_file_path c) (cc_name c)) as [parsed Hp]. rewrite Hp. cbn [rbind]. rewrite Hx. cbn zeta.
    assert (Hall : forall teal fns, construct_all teal fns = Ok tt).
    { intros teal fns. induction fns as [|f fs IHf]; [reflexivity|]. cbn [construct_all]. rewrite Hc. cbn [rbind]. exact IHf. }
    rewrite Hall. cbn [rbind]. apply IH. exact Ht.
Qed.
End ContractsLoop.

(* ---- non-vacuity: two contracts (the second has a repeated function name), a parser that always answers Unknown *)
Definition ex_parse (p n : string) : rs tcontract := if String.eqb p "missing.teal" then Raise (ETealer "no such file") else Ok (mkContract n "Unknown" []).
Definition ex_construct (t : tcontract) (p : list string) (n : string) : rs unit := if s_in_list "B99" p then Raise (ETealer "no such block") else Ok tt.
Definition ex_config (path2 ty2 : string) (blk : string) : GroupConfig :=
  mkGroupConfig "g"
    [ mkGroupConfigContract "lsig" "l.teal" "LogicSig" 6 [] [mkGroupConfigFunction "lsig" ["B0"]];
      mkGroupConfigContract "app" path2 ty2 6 [] [mkGroupConfigFunction "f" ["B0"; "B1"]; mkGroupConfigFunction "g" ["B0"; blk]; mkGroupConfigFunction "f" ["B0"; "B3"]] ]
    [].

Example init_contracts_example :
  init_contracts_gen ex_parse ex_construct (ex_config "a.teal" "ApprovalProgram" "B2")
  = Ok ([("lsig", mkContract "lsig" "LogicSig" [("lsig", 0%nat)]); ("app", mkContract "app" "ApprovalProgram" [("f", 3%nat); ("g", 2%nat)])],
        [(mkContract "lsig" "LogicSig" [], ["B0"], "lsig"); (mkContract "app" "ApprovalProgram" [], ["B0"; "B1"], "f");
         (mkContract "app" "ApprovalProgram" [], ["B0"; "B2"], "g"); (mkContract "app" "ApprovalProgram" [], ["B0"; "B3"], "f")]).
Proof. vm_compute. reflexivity. Qed.

Example init_contracts_example_errors :
  init_contracts_gen ex_parse ex_construct (ex_config "missing.teal" "ApprovalProgram" "B2") = Raise (ETealer "no such file")
  /\ init_contracts_gen ex_parse ex_construct (ex_config "a.teal" "Unknown" "B2") = Raise EKeyError
  /\ init_contracts_gen ex_parse ex_construct (ex_config "a.teal" "ApprovalProgram" "B99") = Raise (ETealer "no such block").
Proof. vm_compute. repeat split. Qed.

(* the whole of init_tealer_from_config on a configuration with one group that runs lsig as logic-sig and app.f *)
Example init_tealer_from_config_example :
  match init_tealer_from_config_gen ex_parse ex_construct
          (mkGroupConfig "g" (gc_contracts (ex_config "a.teal" "ApprovalProgram" "B2"))
             [mkGroupConfigGroup "op" [mkGroupConfigTransaction "t0" "pay" None None (Some (mkGroupConfigFunctionCall "lsig" "lsig")) None None;
                                       mkGroupConfigTransaction "t1" "appl" (Some (mkGroupConfigFunctionCall "app" "f")) None None None None]]) with
  | Ok (_, ft, [(heap, g)]) => (length ft, map (fun o => (o_transacton_id o, o_has_logic_sig o, option_map fst (o_logic_sig o), option_map fst (o_application o))) heap)
  | _ => (0%nat, [])
  end = (4%nat, [("t0", true, Some 0%nat, None); ("t1", false, None, Some 3%nat)]).
Proof. vm_compute. reflexivity. Qed.
