(* Definitions and concrete instances (vm_compute) for the regenerated copy_main_cfg (Gen/CopyGen.v).  This file does
   not depend on the text of the generated function: tools/test_translate_copy.py compiles it against mutated versions
   of Gen/CopyGen.v to tell behaviour-changing mutants (an instance fails) from text-only changes.
   The general theorems are in Lemmas/CopyGenLemmas.v.  The source lines of the instances are short on purpose: the
   regenerated line parser (Gen/LineGen.v) is slow under vm_compute on long lines. *)
From Coq Require Import String List NArith ZArith Bool Ascii Arith.
From Tealer Require Import Tables LeafPrelude Leaves Syntax Parse Cfg StackAst Keys Analysis Domains Detect Group.
From Tealer Require Import KeysGen FunctionGen CopyGen.
From Tealer Require Import GroupLemmas FunctionGenLemmas.
Import ListNotations.
Open Scope string_scope.
Open Scope list_scope.

(* a comment line of first_pass / a line that is not one *)
Definition is_comment_line (l : string) : bool := LineGen.str_startswith (LineGen.str_strip l) "//".

(* the attributes first_pass / parse_line store on the Instruction objects while parsing the lines of a source:
   source_code = the line; comments_before_ins = the comment lines accumulated since the previous instruction *)
Fixpoint attrs_of_lines (ls : list string) (cm : list string) : py ins_attrs :=
  match ls with
  | [] => ret []
  | l :: r =>
      if is_comment_line l then attrs_of_lines r (cm ++ [l])
      else bind (LineGen.parse_line_top l) (fun oi =>
           match oi with
           | Some _ => bind (attrs_of_lines r []) (fun rest => ret ((l, cm) :: rest))
           | None => attrs_of_lines r cm
           end)
  end.


(* the model's initial state with the predecessor lists restricted to main: what copy_main_cfg really builds *)
Definition main_only (t : teal) (c : block) : block :=
  mkBlock (b_idx c) (b_ins c) (b_next c) (filter (fun m => nat_mem m (s_blocks (t_main t))) (b_prev c)).
Definition heap0m (t : teal) : fheap :=
  mkFH (map (main_only t) (fs_blocks (fn_state0 t))) (t_prog t) (S (max_idx (t_blocks t))) [] [].

(* parse the lines with the regenerated line parser, build the contract, copy its main CFG:
   (the copy read as a function state, the model's initial state, the initial state restricted to main) *)
Definition run_lines (ls : list string) : option ((list nat * fheap) * (list nat * fheap) * fheap) :=
  bind (first_pass_lines ls 1) (fun p => bind (attrs_of_lines ls []) (fun attrs =>
  match parse_teal p with
  | Ok t => bind (copy_main_cfg_state t attrs) (fun r => ret (r, (function_blocks0 t, heap0 t), heap0m t))
  | Err _ => None
  end)).

(* a subroutine in the middle of the main code, comments, blank lines: the copy is the model's initial state *)
Definition ex_mid : list string :=
  ["callsub f"; "// c"; ""; "b e //x"; "f:"; "int 1"; "retsub"; "// d"; "//e"; "e:"; " int 1"; "return"].
Example ex_mid_ok : match run_lines ex_mid with Some (a, b, _) => a = b | None => False end.
Proof. vm_compute. reflexivity. Qed.

(* a subroutine that jumps into a main block (block 1 = "L: int 1 return" has the predecessors 0 and 2 in the contract,
   the copy only has 0): the copy is heap0m, NOT the model's heap0 *)
Definition ex_shared : list string := ["callsub f"; "L:"; "int 1"; "return"; "f:"; "b L"].
Example ex_shared_run :
  match run_lines ex_shared with
  | Some (a, b, hm) => a = (fst b, hm) /\ a <> b /\
      option_map b_prev (get_blk (fh_blocks (snd a)) 1) = Some [0] /\ option_map b_prev (get_blk (fh_blocks (snd b)) 1) = Some [0; 2]
  | None => False end.
Proof. vm_compute. repeat split; try reflexivity. discriminate. Qed.


(* a two-way branch: the DFS order of teal.main.blocks (0, 2, 3, 1) is not the idx order *)
Definition ex_branch : list string := ["int 1"; "bnz a"; "int 2"; "b e"; "a:"; "int 3"; "e:"; "return"].
Example ex_branch_ok : match run_lines ex_branch with Some (a, b, _) => a = b | None => False end.
Proof. vm_compute. reflexivity. Qed.
