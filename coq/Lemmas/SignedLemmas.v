(* Signed immediates.  The AVM assembler reads the immediate of `frame_dig i` / `frame_bury i` as an int8; negative
   offsets address the arguments below the frame pointer and are the common case in compiled code.  The model reads
   the immediate of these two classes (Parse.signed_imm_class) with Parse.parse_sint and keeps it as the parameter form
   Syntax.PSInt z; every other class keeps the natural-number forms of parse_shape (Parse.parse_imm).

   PART 1  parse_sint on printed integers: string_of_Z z, "-" ++ string_of_N k, the hex / octal spellings
   PART 2  round trips: parse_line (print i) = i for FrameDig / FrameBury with ANY integer immediate (in particular
           every int8), `frame_dig -k` / `frame_bury -k` parse to that instruction for every k; what the parsed
           instruction denotes (class data of the regenerated table: arity, version, mode, cost; emulate_ins)
   PART 3  the signed form is produced exactly for the signed classes, on every line parse_line accepts
   PART 4  the regenerated lambdas of the two rules (Gen/ShapeGen.v) against parse_imm: equal values and exception
           class where the immediate is spelled plainly (LineGenLemmas.sint_plain), the model never accepts more
   Examples on concrete lines (vm_compute) after each main theorem. *)
From Coq Require Import String List NArith ZArith Bool Ascii Arith Lia.
From Tealer Require Import Tables Syntax Parse Cfg StackAst KeysGen LineGen ShapeGen ParseLemmas ParseLemmas2
  LineGenLemmas ShapeGenLemmas TotalParse.
Import ListNotations.
Open Scope list_scope.
Open Scope nat_scope.
Open Scope string_scope.

(* ====================================================================== *)
(* PART 1 : parse_sint on printed integers                                  *)
(* ====================================================================== *)
Lemma parse_base10_string_of_N : forall n, parse_base 10 (string_of_N n) = Some n.
Proof.
  intros n. rewrite string_of_N_base.
  pose proof (base_digits_value 10 n ltac:(lia) ltac:(lia)) as Hv.
  destruct (base_digits_head_fuel 10 n ltac:(lia)) as [d [t [E _]]].
  rewrite E in *. unfold parse_base. exact Hv.
Qed.

Lemma digit_char_not_minus : forall c,
  (Nat.leb 48 (nat_of_ascii c) && Nat.leb (nat_of_ascii c) 57)%bool = true -> Ascii.eqb c "-" = false.
Proof. intros c. destruct c as [[] [] [] [] [] [] [] []]; vm_compute; intros H; try discriminate H; reflexivity. Qed.

(* a printed natural number does not start with the sign *)
Lemma string_of_N_head : forall n, exists c t, string_of_N n = String c t /\ Ascii.eqb c "-" = false.
Proof.
  intros n. destruct (string_of_N_digits n) as [Hne Hd]. destruct (string_of_N n) as [|c t]; [congruence|].
  exists c, t. split; [reflexivity|]. cbn [all_digits] in Hd. apply andb_true_iff in Hd. destruct Hd as [Hc _].
  apply digit_char_not_minus. exact Hc.
Qed.

Theorem parse_sint_string_of_N : forall n, parse_sint (string_of_N n) = Ok (Z.of_N n).
Proof.
  intros n. destruct (string_of_N_head n) as [c [t [E Hc]]]. unfold parse_sint. rewrite E, Hc, <- E.
  rewrite parse_int_decimal. reflexivity.
Qed.
(* "-k" for every k (k = 0 included: "-0" is the integer 0) *)
Theorem parse_sint_neg : forall k, parse_sint ("-" ++ string_of_N k) = Ok (Z.opp (Z.of_N k)).
Proof.
  intros k. change ("-" ++ string_of_N k) with (String "-" (string_of_N k)). unfold parse_sint.
  change (Ascii.eqb "-" "-") with true. cbv iota. rewrite parse_base10_string_of_N. reflexivity.
Qed.
(* the printed form of every integer is read back as that integer *)
Theorem parse_sint_string_of_Z : forall z, parse_sint (string_of_Z z) = Ok z.
Proof.
  intros [|p|p].
  - reflexivity.
  - change (string_of_Z (Z.pos p)) with (string_of_N (Npos p)). rewrite parse_sint_string_of_N. reflexivity.
  - change (string_of_Z (Z.neg p)) with ("-" ++ string_of_N (Npos p)). rewrite parse_sint_neg. reflexivity.
Qed.
(* non-negative immediates keep the three spellings of parse_int *)
Theorem parse_sint_spellings : forall n,
  parse_sint (string_of_N n) = Ok (Z.of_N n) /\ parse_sint ("0x" ++ hex_of_N n) = Ok (Z.of_N n) /\
  parse_sint ("0" ++ oct_of_N n) = Ok (Z.of_N n).
Proof.
  intros n. split; [apply parse_sint_string_of_N|]. split.
  - change ("0x" ++ hex_of_N n) with (String "0" (String "x" (hex_of_N n))). unfold parse_sint.
    change (Ascii.eqb "0" "-") with false. cbv iota.
    change (String "0" (String "x" (hex_of_N n))) with ("0x" ++ hex_of_N n). rewrite parse_int_hex. reflexivity.
  - change ("0" ++ oct_of_N n) with (String "0" (oct_of_N n)). unfold parse_sint.
    change (Ascii.eqb "0" "-") with false. cbv iota.
    change (String "0" (oct_of_N n)) with ("0" ++ oct_of_N n). rewrite parse_int_oct. reflexivity.
Qed.
(* parse_sint extends parse_int: on a string that does not start with the sign it is parse_int *)
Theorem parse_sint_unsigned : forall x n, parse_int x = Ok n -> parse_sint x = Ok (Z.of_N n).
Proof.
  intros x n H. destruct x as [|c t]; unfold parse_sint; [rewrite H; reflexivity|].
  destruct (Ascii.eqb c "-") eqn:E; [|rewrite H; reflexivity].
  apply Ascii.eqb_eq in E. subst c. exfalso. unfold parse_int in H.
  change (starts_with "0x" (String "-" t)) with false in H. change (starts_with "0" (String "-" t)) with false in H.
  cbv iota in H. cbn [parse_base parse_base_acc] in H. change (digit_val "-") with (@None N) in H. discriminate.
Qed.

(* words *)
Lemma word_ok_minus : forall w, word_ok w = true -> word_ok (String "-" w) = true.
Proof.
  intros w H. apply word_ok_elim in H. destruct H as [_ [Hs Hp]]. unfold word_ok.
  cbn [no_space plain]. change (is_space "-") with false. change (Ascii.eqb "-" """") with false.
  change (starts_with "//" (String "-" w)) with false. rewrite Hs, Hp. reflexivity.
Qed.
Lemma word_ok_string_of_Z : forall z, word_ok (string_of_Z z) = true.
Proof.
  intros [|p|p].
  - reflexivity.
  - apply (word_ok_string_of_N (Npos p)).
  - change (string_of_Z (Z.neg p)) with (String "-" (string_of_N (Npos p))). apply word_ok_minus, word_ok_string_of_N.
Qed.

(* ====================================================================== *)
(* PART 2 : round trips                                                     *)
(* ====================================================================== *)
Definition frame_dig (z : Z) : instr := IOther "FrameDig" [PSInt z].
Definition frame_bury (z : Z) : instr := IOther "FrameBury" [PSInt z].

Lemma str_frame_dig : forall z, str_of_instr (frame_dig z) = "frame_dig " ++ string_of_Z z.
Proof. intros. unfold frame_dig. str_instr. reflexivity. Qed.
Lemma str_frame_bury : forall z, str_of_instr (frame_bury z) = "frame_bury " ++ string_of_Z z.
Proof. intros. unfold frame_bury. str_instr. reflexivity. Qed.

Lemma new_frame_dig : forall z, of_generic "FrameDig" (fix_params "FrameDig" [PSInt z]) = frame_dig z.
Proof. intros z. unfold fix_params. replace (label_strip "FrameDig") with false by vmr. reflexivity. Qed.
Lemma new_frame_bury : forall z, of_generic "FrameBury" (fix_params "FrameBury" [PSInt z]) = frame_bury z.
Proof. intros z. unfold fix_params. replace (label_strip "FrameBury") with false by vmr. reflexivity. Qed.

(* the line `frame_dig w` for a word w that parse_sint reads as z *)
Theorem parse_frame_dig_word : forall w z, word_ok w = true -> parse_sint w = Ok z ->
  parse_line ("frame_dig " ++ w) = Ok (Some (frame_dig z)).
Proof.
  intros w z Hw Hp. use_engine ["frame_dig"] "frame_dig " "FrameDig" SInt w.
  - rewrite parse_imm_signed by vmr. cbn [join]. rewrite Hp. cbn [Parse.bind]. rewrite new_frame_dig. reflexivity.
  - exact Hw.
Qed.
Theorem parse_frame_bury_word : forall w z, word_ok w = true -> parse_sint w = Ok z ->
  parse_line ("frame_bury " ++ w) = Ok (Some (frame_bury z)).
Proof.
  intros w z Hw Hp. use_engine ["frame_bury"] "frame_bury " "FrameBury" SInt w.
  - rewrite parse_imm_signed by vmr. cbn [join]. rewrite Hp. cbn [Parse.bind]. rewrite new_frame_bury. reflexivity.
  - exact Hw.
Qed.

(* MAIN: the printed form parses back, for EVERY integer immediate (no range condition: tealer has none either) *)
Theorem roundtrip_frame_dig : forall z, parse_line (str_of_instr (frame_dig z)) = Ok (Some (frame_dig z)).
Proof. intros z. rewrite str_frame_dig. apply parse_frame_dig_word; [apply word_ok_string_of_Z|apply parse_sint_string_of_Z]. Qed.
Theorem roundtrip_frame_bury : forall z, parse_line (str_of_instr (frame_bury z)) = Ok (Some (frame_bury z)).
Proof. intros z. rewrite str_frame_bury. apply parse_frame_bury_word; [apply word_ok_string_of_Z|apply parse_sint_string_of_Z]. Qed.
(* ... in particular for every int8, the range the AVM gives the immediate *)
Corollary roundtrip_frame_int8 : forall z, (-128 <= z <= 127)%Z ->
  parse_line (str_of_instr (frame_dig z)) = Ok (Some (frame_dig z)) /\
  parse_line (str_of_instr (frame_bury z)) = Ok (Some (frame_bury z)).
Proof. intros z _. split; [apply roundtrip_frame_dig|apply roundtrip_frame_bury]. Qed.
(* `frame_dig -k` / `frame_bury -k` parse to the instruction with the offset -k, for every k, and print back as written *)
Theorem parse_frame_dig_neg : forall k,
  parse_line ("frame_dig -" ++ string_of_N k) = Ok (Some (frame_dig (Z.opp (Z.of_N k)))).
Proof.
  intros k. change ("frame_dig -" ++ string_of_N k) with ("frame_dig " ++ String "-" (string_of_N k)).
  apply parse_frame_dig_word; [apply word_ok_minus, word_ok_string_of_N|apply (parse_sint_neg k)].
Qed.
Theorem parse_frame_bury_neg : forall k,
  parse_line ("frame_bury -" ++ string_of_N k) = Ok (Some (frame_bury (Z.opp (Z.of_N k)))).
Proof.
  intros k. change ("frame_bury -" ++ string_of_N k) with ("frame_bury " ++ String "-" (string_of_N k)).
  apply parse_frame_bury_word; [apply word_ok_minus, word_ok_string_of_N|apply (parse_sint_neg k)].
Qed.
Theorem print_frame_neg : forall p,
  str_of_instr (frame_dig (Z.neg p)) = "frame_dig -" ++ string_of_N (Npos p) /\
  str_of_instr (frame_bury (Z.neg p)) = "frame_bury -" ++ string_of_N (Npos p).
Proof. intros p. rewrite str_frame_dig, str_frame_bury. split; reflexivity. Qed.
(* non-negative offsets: all three integer spellings *)
Theorem parse_frame_dig_spellings : forall n,
  parse_line ("frame_dig " ++ string_of_N n) = Ok (Some (frame_dig (Z.of_N n))) /\
  parse_line ("frame_bury " ++ string_of_N n) = Ok (Some (frame_bury (Z.of_N n))).
Proof.
  intros n. split; [apply parse_frame_dig_word|apply parse_frame_bury_word];
    try apply word_ok_string_of_N; apply parse_sint_string_of_N.
Qed.

Example ex_frame_lines :
  parse_line "frame_dig -1" = Ok (Some (frame_dig (-1))) /\ str_of_instr (frame_dig (-1)) = "frame_dig -1" /\
  parse_line "frame_bury -2" = Ok (Some (frame_bury (-2))) /\ str_of_instr (frame_bury (-2)) = "frame_bury -2" /\
  parse_line "  frame_dig   -128 // arg" = Ok (Some (frame_dig (-128))) /\
  parse_line "frame_dig 0x7f" = Ok (Some (frame_dig 127)) /\ parse_line "frame_dig -0" = Ok (Some (frame_dig 0)) /\
  parse_line "frame_dig -010" = Ok (Some (frame_dig (-10))) /\
  parse_line "frame_dig -0x1" = Err "ValueError: int -0x1" /\ parse_line "frame_dig - 1" = Err "ValueError: int - 1" /\
  (* the signed reading is NOT extended to the other classes *)
  parse_line "load -1" = Err "ValueError: int -1" /\ parse_line "dig -1" = Err "ValueError: int -1" /\
  parse_line "frame_dig 3" = Ok (Some (frame_dig 3)).
Proof. vm_compute. repeat split. Qed.

(* what the parsed instruction denotes: the class data of the regenerated table is defined on the signed form and does
   not depend on the immediate (instructions.py: FrameDig pushes 1; FrameBury pops 1 and -- finding D9 -- pushes 1) *)
Theorem frame_dig_denotes : forall z v,
  cls_of (frame_dig z) = "FrameDig" /\ params_of (frame_dig z) = [PSInt z] /\
  stack_pop_size (frame_dig z) = Some 0 /\ stack_push_size (frame_dig z) = Some 1 /\
  ins_version (frame_dig z) = Some 8%N /\ ins_mode (frame_dig z) = Some MAny /\ ins_cost v (frame_dig z) = Some 1%N.
Proof. intros z v. repeat split; reflexivity. Qed.
Theorem frame_bury_denotes : forall z v,
  cls_of (frame_bury z) = "FrameBury" /\ params_of (frame_bury z) = [PSInt z] /\
  stack_pop_size (frame_bury z) = Some 1 /\ stack_push_size (frame_bury z) = Some 1 /\
  ins_version (frame_bury z) = Some 8%N /\ ins_mode (frame_bury z) = Some MAny /\ ins_cost v (frame_bury z) = Some 1%N.
Proof. intros z v. repeat split; reflexivity. Qed.
(* C11: the operand reconstruction steps over the signed forms -- frame_dig pops nothing and pushes one value it
   produced, frame_bury takes the top of the stack -- whatever the offset *)
Theorem emulate_frame_dig : forall z pos st,
  emulate_ins (frame_dig z) pos st = Some ([], SKnown (frame_dig z) pos [] 0 :: st).
Proof. intros z pos st. reflexivity. Qed.
Theorem emulate_frame_bury : forall z pos v st,
  emulate_ins (frame_bury z) pos (v :: st) = Some ([v], SKnown (frame_bury z) pos [v] 0 :: st).
Proof. intros z pos v st. reflexivity. Qed.
Theorem emulate_frame_bury_empty : forall z pos,
  emulate_ins (frame_bury z) pos [] = Some ([SUnknown], [SKnown (frame_bury z) pos [SUnknown] 0]).
Proof. intros z pos. reflexivity. Qed.

Example ex_frame_program :
  match parse_program "#pragma version 8
proto 2 1
frame_dig -1
frame_dig -2
+
frame_bury 0
retsub" with
  | Ok p => option_map (map (fun '(k, op, args) => (k, str_of_instr op, length args))) (emulate p [1; 2; 3; 4; 5] [])
  | Err _ => None
  end = Some [(1, "proto 2 1", 0); (2, "frame_dig -1", 0); (3, "frame_dig -2", 0); (4, "+", 2); (5, "frame_bury 0", 1)].
Proof. vm_compute. reflexivity. Qed.

(* ====================================================================== *)
(* PART 3 : the signed form is produced exactly for the signed classes      *)
(* ====================================================================== *)
Definition shape_is_int (sh : shape) : bool := match sh with SInt => true | _ => false end.
(* table check over the regenerated rules: a rule of a signed class takes one integer immediate ... *)
Lemma signed_rules_are_int :
  forallb (fun r => implb (signed_imm_class (fst (snd r))) (shape_is_int (snd (snd r)))) parser_rules = true.
Proof. vmr. Qed.
(* ... and these are exactly the rules of frame_dig and frame_bury *)
Theorem signed_rules :
  filter (fun r => signed_imm_class (fst (snd r))) parser_rules =
  [("frame_dig ", ("FrameDig", SInt)); ("frame_bury ", ("FrameBury", SInt))].
Proof. vmr. Qed.

Lemma shape_kinds_no_sint : forall sh ks, In ks (shape_kinds sh) -> ~ In KSInt ks.
Proof.
  intros sh ks H. destruct sh; cbn [shape_kinds In] in H;
    repeat (destruct H as [<-|H]; [cbn [In]; intros F; repeat (destruct F as [F|F]; [discriminate F|]); exact F|]);
    destruct H.
Qed.
Lemma in_param_kind : forall z ps, In (PSInt z) ps -> In KSInt (map kind_of ps).
Proof. intros z ps H. apply (in_map kind_of) in H. exact H. Qed.
Lemma fix_params_sint : forall c z, fix_params c [PSInt z] = [PSInt z].
Proof. intros c z. unfold fix_params. destruct (label_strip c); reflexivity. Qed.

Definition signed_spec (i : instr) : Prop :=
  if signed_imm_class (cls_of i) then exists z, params_of i = [PSInt z] else forall z, ~ In (PSInt z) (params_of i).

(* MAIN: on every line parse_line accepts, an instruction of a signed class carries exactly one PSInt, and an
   instruction of any other class carries none *)
Theorem parse_line_signed_exact : forall line i, parse_line line = Ok (Some i) -> signed_spec i.
Proof.
  intros line i. unfold parse_line. destruct (strip line =? ""); [discriminate|].
  unfold Parse.bind. destruct (tokenize line) as [fields0|e]; [|discriminate].
  set (fields := if starts_with "//" (last fields0 "") && negb (in_b64 (last (but_last fields0) "") "")
                 then but_last fields0 else fields0). clearbody fields.
  destruct fields as [|f0 rest]; [discriminate|].
  assert (Hstr : forall c s, signed_imm_class c = false -> signed_spec (IOther c [PStr s])).
  { intros c s Hc. unfold signed_spec. cbn [cls_of params_of]. rewrite Hc. intros z [F|[]]. discriminate F. }
  assert (Hstrs : forall c l, signed_imm_class c = false -> signed_spec (IOther c [PStrs l])).
  { intros c l Hc. unfold signed_spec. cbn [cls_of params_of]. rewrite Hc. intros z [F|[]]. discriminate F. }
  destruct (match last_char f0 with Some c => Ascii.eqb c ":"%char | None => false end).
  { destruct rest; [|discriminate]. intros H. inversion H; subst. unfold signed_spec. cbn [cls_of params_of].
    change (signed_imm_class "Label") with false. cbv iota. intros z [F|[]]. discriminate F. }
  destruct ((f0 =? "byte") || (f0 =? "pushbytes") || (f0 =? "method")).
  { destruct (parse_byte_args (S (length rest)) rest) as [imm|e]; [|discriminate].
    destruct imm as [|b [|b2 r]]; try discriminate. intros H. inversion H; subst.
    apply Hstr. destruct (f0 =? "byte"); [reflexivity|]. destruct (f0 =? "pushbytes"); reflexivity. }
  destruct (f0 =? "bytecblock").
  { destruct (parse_byte_args (S (length rest)) rest) as [imm|e]; [|discriminate].
    intros H. inversion H; subst. apply Hstrs. reflexivity. }
  destruct (f0 =? "pushbytess").
  { destruct (parse_byte_args (S (length rest)) rest) as [imm|e]; [|discriminate].
    intros H. inversion H; subst. apply Hstrs. reflexivity. }
  cbv zeta.
  destruct (first_rule (join " " (f0 :: rest)) parser_rules) as [[[key cls] sh]|] eqn:Er.
  - destruct (parse_imm cls sh _) as [ps|e] eqn:Es; [|discriminate].
    intros H. inversion H; subst. unfold signed_spec.
    destruct (of_generic_inv cls (fix_params cls ps)) as [-> ->].
    destruct (signed_imm_class cls) eqn:Ec.
    + apply first_rule_In in Er. pose proof signed_rules_are_int as Hr. rewrite forallb_forall in Hr.
      specialize (Hr _ Er). cbn [fst snd] in Hr. rewrite Ec in Hr. destruct sh; try discriminate Hr.
      rewrite (parse_imm_signed cls _ Ec) in Es. destruct (parse_sint _) as [z|e]; [|discriminate].
      cbn [Parse.bind] in Es. injection Es as <-. exists z. apply fix_params_sint.
    + rewrite (parse_imm_unsigned cls sh _ Ec) in Es. intros z Hin. apply in_param_kind in Hin.
      rewrite fix_params_kinds in Hin. exact (shape_kinds_no_sint sh _ (parse_shape_kinds sh _ ps Es) Hin).
  - intros H. inversion H; subst. apply Hstr. reflexivity.
Qed.
Corollary parse_line_signed_only : forall line i z, parse_line line = Ok (Some i) -> In (PSInt z) (params_of i) ->
  cls_of i = "FrameDig" \/ cls_of i = "FrameBury".
Proof.
  intros line i z H Hin. pose proof (parse_line_signed_exact line i H) as S. unfold signed_spec in S.
  destruct (signed_imm_class (cls_of i)) eqn:E; [|exfalso; exact (S z Hin)].
  unfold signed_imm_class in E. apply orb_true_iff in E. destruct E as [E|E]; apply String.eqb_eq in E; auto.
Qed.
Corollary parse_line_frame_form : forall line i, parse_line line = Ok (Some i) ->
  (cls_of i = "FrameDig" -> exists z, i = frame_dig z) /\ (cls_of i = "FrameBury" -> exists z, i = frame_bury z).
Proof.
  intros line i H. pose proof (parse_line_signed_exact line i H) as S. unfold signed_spec in S.
  split; intros E; rewrite E in S; change (signed_imm_class _) with true in S; cbv iota in S; destruct S as [z Hz];
    exists z; destruct i; cbn [cls_of params_of] in E, Hz; try discriminate E; try discriminate Hz; subst; reflexivity.
Qed.
(* the same for whole programs *)
Lemma parse_lines_signed_exact : forall ls n p, parse_lines ls n = Ok p -> forall i, In i p -> signed_spec (i_op i).
Proof.
  induction ls as [|l ls IH]; intros n p H i Hi; simpl in H.
  - inversion H; subst. destruct Hi.
  - destruct (starts_with "//" (strip l)); [eapply IH; eauto|].
    unfold Parse.bind in H. destruct (parse_line l) as [oi|e] eqn:El; [|discriminate].
    destruct (parse_lines ls (S n)) as [r|e] eqn:Er; [|discriminate].
    destruct oi as [op|]; inversion H; subst.
    + destruct Hi as [<-|Hi]; [simpl; eapply parse_line_signed_exact; eauto|eapply IH; eauto].
    + eapply IH; eauto.
Qed.
Theorem parse_program_signed_exact : forall src p, parse_program src = Ok p -> forall i, In i p -> signed_spec (i_op i).
Proof. unfold parse_program. intros src p. apply parse_lines_signed_exact. Qed.

(* ====================================================================== *)
(* PART 4 : the regenerated lambdas of the signed rules against parse_imm   *)
(* ====================================================================== *)
Lemma of_res_x_parse_sint : forall y, of_res_x (parse_sint y) = raising ValueError (of_res (parse_sint y)).
Proof.
  intros y.
  assert (U : forall x, of_res_x (Parse.bind (parse_int x) (fun n => Ok (Z.of_N n))) =
                        raising ValueError (of_res (Parse.bind (parse_int x) (fun n => Ok (Z.of_N n))))).
  { intros x. unfold parse_int.
    destruct (if starts_with "0x" x then parse_base 16 (drop 2 x) else if starts_with "0" x then parse_base 8 x else parse_base 10 x);
      reflexivity. }
  destruct y as [|c t]; [exact (U "")|]. unfold parse_sint. destruct (Ascii.eqb c "-"); [|exact (U _)].
  destruct (parse_base 10 t); reflexivity.
Qed.
(* the object the model's parse_imm stands for, resp. the exception class *)
Definition model_imm_x (cls : string) (sh : shape) (x : string) : pyx pval :=
  mapx (fun ps => VObj cls (map embed_param ps)) (of_res_x (parse_imm cls sh x)).

(* MAIN: through the dispatcher, for a line whose first matching rule belongs to a signed class: the regenerated lambda
   of that rule returns the object / raises the exception class of parse_imm on every plainly spelled immediate, and
   on EVERY string the model accepts it returns the same object *)
Theorem signed_dispatch_eq_partial : forall line key cls sh,
  first_rule line parser_rules = Some (key, cls, sh) -> signed_imm_class cls = true ->
  exists g, first_rule_gen line shape_rules_gen = Some (key, g) /\
    (forall x, sint_plain x = true -> g x = model_imm_x cls sh x) /\
    (forall x ps, parse_imm cls sh x = Ok ps -> g x = Val (VObj cls (map embed_param ps))).
Proof.
  intros line key cls sh H Hc. destruct (shape_dispatch_eq_partial line key cls sh H) as [g [Hg [_ [_ [_ [_ Hw]]]]]].
  exists g. split; [exact Hg|]. split.
  - intros x Hx. rewrite Hw. unfold model_imm_x.
    apply first_rule_In in H. pose proof signed_rules_are_int as Hr. rewrite forallb_forall in Hr.
    specialize (Hr _ H). cbn [fst snd] in Hr. rewrite Hc in Hr. destruct sh; try discriminate Hr.
    rewrite (parse_imm_signed cls x Hc). unfold parse_shape_w.
    rewrite parse_int_x_gen_raising, (parse_sint_gen_eq_partial x Hx).
    pose proof (of_res_x_parse_sint x) as E. destruct (parse_sint x) as [z|e]; [reflexivity|].
    cbn [Parse.bind of_res_x of_res raising mapx] in E |- *. injection E as E. rewrite E. reflexivity.
  - intros x ps Hp. rewrite Hw. exact (parse_imm_backed cls sh x ps Hp).
Qed.
(* outside the domain the code still accepts more; and the exception class is ValueError on both sides *)
Theorem signed_dispatch_eq_refuted :
  exists g, first_rule_gen "frame_dig -1_0" shape_rules_gen = Some ("frame_dig ", g) /\
    first_rule "frame_dig -1_0" parser_rules = Some ("frame_dig ", "FrameDig", SInt) /\
    g "-1_0" = Val (VObj "FrameDig" [VInt (-10)]) /\ model_imm_x "FrameDig" SInt "-1_0" = Raise ValueError /\
    sint_plain "-1_0" = false.
Proof. eexists. split; [reflexivity|]. repeat split. Qed.
Example ex_signed_lambdas :
  rule_fun "frame_dig " "-1" = Val (VObj "FrameDig" [VInt (-1)]) /\
  model_imm_x "FrameDig" SInt "-1" = Val (VObj "FrameDig" [VInt (-1)]) /\ sint_plain "-1" = true /\
  rule_fun "frame_bury " "-128" = Val (VObj "FrameBury" [VInt (-128)]) /\
  model_imm_x "FrameBury" SInt "-128" = Val (VObj "FrameBury" [VInt (-128)]) /\
  rule_fun "frame_dig " "-x" = Raise ValueError /\ model_imm_x "FrameDig" SInt "-x" = Raise ValueError /\
  sint_plain "-x" = true /\
  (* parse_shape (no class) still rejects the sign: the signed reading is tied to the class *)
  model_rule_x "FrameDig" SInt "-1" = Raise ValueError /\ model_imm_x "Load" SInt "-1" = Raise ValueError.
Proof. vm_compute. repeat split. Qed.

Print Assumptions roundtrip_frame_dig.
Print Assumptions roundtrip_frame_bury.
Print Assumptions parse_frame_dig_neg.
Print Assumptions parse_frame_bury_neg.
Print Assumptions parse_line_signed_exact.
Print Assumptions parse_program_signed_exact.
Print Assumptions signed_dispatch_eq_partial.
Print Assumptions emulate_frame_dig.
