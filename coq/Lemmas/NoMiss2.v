(* C01 end to end ("detectors never miss") for the seven detectors not covered by Lemmas/NoMiss.v:

     concrete accepting execution carrying the dangerous value
       ==> (soundness of the tool's contexts: ExecLemmas for addresses / group sizes, TypeExec for kinds)
           every block of the run is unvalidated
       ==> (PathCut / SearchLemmas) the detector's DFS reports at least one path.

   - C01_closeto_no_miss_partial                can-close-account      CloseRemainderTo of a pay transaction
   - C01_assetcloseto_no_miss_partial           can-close-asset        AssetCloseTo of an axfer transaction
   - C01_updatable_no_miss_partial              is-updatable           OnCompletion = UpdateApplication
   - C01_deletable_no_miss_partial              is-deletable           OnCompletion = DeleteApplication
   - C01_unprotected_updatable_no_miss_partial  unprotected-updatable  ... and a Sender the contract never names
   - C01_unprotected_deletable_no_miss_partial  unprotected-deletable
   - C01_groupsize_no_miss_partial              group-size-check       a group of the maximal size, a block that reads
                                                                       by absolute index outside the run's cycles
   `_partial`: the theorems inherit the exclusions of type_leaves_ok (D16 + fragment of Spec/Eval.v),
   addr_leaves_ok (D19, creator literal), int_leaves_ok (D2); group-size-check excludes D21 (see uncut_access). *)
From Coq Require Import String List NArith ZArith Bool Arith Lia.
From Tealer Require Import Tables LeafPrelude Leaves Syntax Parse Cfg StackAst Keys Analysis Domains Detect.
From Tealer Require Import Runs Paths Eval Exec LeafLemmas StackLemmas SingleLemmas SearchLemmas RunLemmas PathCut Compose.
From Tealer Require Import ExecLemmas TypeLemmas GraphWf GraphOk NoMiss TypeExec.
Import ListNotations.
Open Scope string_scope.
Open Scope list_scope.

(* ====================================================================== *)
(* A. two-field detectors: address field + transaction kind                *)
(* ====================================================================== *)
(* kind_fields e t 1 0 0: member t is a payment (TypeEnum = pay; OnCompletion and ApplicationID read 0, as the
   AVM guarantees for non-application transactions -- TypeLemmas.in_range) *)
Lemma in_range_pay : in_range 1 0 0.
Proof. apply in_range_b_spec. reflexivity. Qed.
Lemma in_range_axfer : in_range 4 0 0.
Proof. apply in_range_b_spec. reflexivity. Qed.
Lemma in_range_appl oc ap : (oc <= 5)%N -> in_range 6 oc ap.
Proof. intros H. split; [lia|]. split; [exact H|]. intros E. exfalso. apply E. reflexivity. Qed.

Lemma label_in l : In l c07_labels <-> l = "Pay" \/ l = "Axfer" \/ l = "ApplUpdateApplication" \/ l = "ApplDeleteApplication".
Proof. unfold c07_labels. simpl. intuition. Qed.

(* the kind hypothesis of NoMiss.C01_closeto_no_miss_conditional, from the soundness of the kind domain *)
Lemma kind_possible_sound e sem f fuel res cfgs L ty oc ap :
  sem_ok e sem -> env_ok e -> fn_intcs f = e_intcs e -> graph_ok f ->
  type_leaves_ok f KSelf L ty oc ap -> type_leaves_ok f (KAtIndex (e_own e)) L ty oc ap ->
  int_leaves_ok f true -> int_leaves_ok f false ->
  run_all f fuel = Done res -> Accepts e sem f cfgs ->
  kind_fields e (e_own e) ty oc ap -> in_range ty oc ap -> In L c07_labels -> carries ty oc ap L = true ->
  kind_possible res (e_own e) cfgs L.
Proof.
  intros Hsem Hok Hi Hg Hls Hla Ht Hf Hrun Hacc Hfl Hr HL Hc b st Hin.
  exact (own_kind_in_ctx e sem f fuel res cfgs L ty oc ap Hsem Hok Hi Hg Hls Hla Ht Hf Hrun Hacc Hfl Hr HL Hc b st Hin).
Qed.

(* can-close-account.  Hypotheses beyond C01_rekey_no_miss_partial:
   - kind_fields e (e_own e) 1 0 0: the transaction is a payment;
   - type_leaves_ok ... "Pay" 1 0 0 (own key and at-own-index key): no checked comparison of the contract is a D16
     pattern for a payment -- i.e. the contract does not branch / assert on `txn OnCompletion ==/!= c`,
     `txn ApplicationID == 0`, or a bare `txn ApplicationID` (on the side a payment takes: the tool's flat label set
     then forgets "Pay"), and writes the constants of kind comparisons numerically (fragment of Spec/Eval.v). *)
Theorem C01_closeto_no_miss_partial e sem f fuel fuel' res cfgs ps a :
  sem_ok e sem -> env_ok e -> fn_intcs f = e_intcs e -> graph_ok f ->
  addr_leaves_ok e f KSelf "CloseRemainderTo" -> addr_leaves_ok e f (KAtIndex (e_own e)) "CloseRemainderTo" ->
  type_leaves_ok f KSelf "Pay" 1 0 0 -> type_leaves_ok f (KAtIndex (e_own e)) "Pay" 1 0 0 ->
  int_leaves_ok f true -> int_leaves_ok f false ->
  run_all f fuel = Done res -> Accepts e sem f cfgs -> nonrecursive f cfgs ->
  kind_fields e (e_own e) 1 0 0 ->
  e_field e (e_own e) "CloseRemainderTo" = VAddr a -> a <> "ZERO" -> is_marker a = false ->
  fresh_in res "CloseRemainderTo" (abs_name e a) ->
  run_detector f res fuel' "can-close-account" checks_can_close_account = Done ps -> ps <> [].
Proof.
  intros Hsem Hok Hi Hg Hls Hla Tls Tla Ht Hf Hrun Hacc Hnr Hkf Hfld Hz Hm Hfr.
  apply (C01_closeto_no_miss_conditional e sem f fuel fuel' res cfgs ps a Hsem Hok Hi Hg Hls Hla Ht Hf Hrun Hacc Hnr
           Hfld Hz Hm Hfr).
  apply (kind_possible_sound e sem f fuel res cfgs "Pay" 1 0 0 Hsem Hok Hi Hg Tls Tla Ht Hf Hrun Hacc Hkf in_range_pay).
  - apply label_in. auto.
  - reflexivity.
Qed.

(* can-close-asset: the same for an asset transfer (TypeEnum = axfer = 4) *)
Theorem C01_assetcloseto_no_miss_partial e sem f fuel fuel' res cfgs ps a :
  sem_ok e sem -> env_ok e -> fn_intcs f = e_intcs e -> graph_ok f ->
  addr_leaves_ok e f KSelf "AssetCloseTo" -> addr_leaves_ok e f (KAtIndex (e_own e)) "AssetCloseTo" ->
  type_leaves_ok f KSelf "Axfer" 4 0 0 -> type_leaves_ok f (KAtIndex (e_own e)) "Axfer" 4 0 0 ->
  int_leaves_ok f true -> int_leaves_ok f false ->
  run_all f fuel = Done res -> Accepts e sem f cfgs -> nonrecursive f cfgs ->
  kind_fields e (e_own e) 4 0 0 ->
  e_field e (e_own e) "AssetCloseTo" = VAddr a -> a <> "ZERO" -> is_marker a = false ->
  fresh_in res "AssetCloseTo" (abs_name e a) ->
  run_detector f res fuel' "can-close-asset" checks_can_close_asset = Done ps -> ps <> [].
Proof.
  intros Hsem Hok Hi Hg Hls Hla Tls Tla Ht Hf Hrun Hacc Hnr Hkf Hfld Hz Hm Hfr.
  apply (C01_assetcloseto_no_miss_conditional e sem f fuel fuel' res cfgs ps a Hsem Hok Hi Hg Hls Hla Ht Hf Hrun Hacc Hnr
           Hfld Hz Hm Hfr).
  apply (kind_possible_sound e sem f fuel res cfgs "Axfer" 4 0 0 Hsem Hok Hi Hg Tls Tla Ht Hf Hrun Hacc Hkf in_range_axfer).
  - apply label_in. auto.
  - reflexivity.
Qed.

(* ====================================================================== *)
(* B. is-updatable / is-deletable                                          *)
(* ====================================================================== *)
Lemma kind_check_false (k : string) (chk : bctx -> bool) :
  (forall c, chk c = negb (mem_any k (ctx_transaction_types c))) ->
  forall c, In k (ctx_transaction_types c) -> chk c = false.
Proof.
  intros Hchk c Hin. rewrite Hchk. change (@mem_any string Mem_string) with smem.
  rewrite (proj2 (smem_In _ _) Hin). reflexivity.
Qed.

(* generic: a detector whose check is "the label is not possible" *)
Lemma kind_only_no_miss e sem f fuel fuel' res cfgs ps name chk L oc ap :
  (name =? "group-size-check") = false ->
  (forall c, chk c = negb (mem_any L (ctx_transaction_types c))) ->
  sem_ok e sem -> env_ok e -> fn_intcs f = e_intcs e -> graph_ok f ->
  type_leaves_ok f KSelf L 6 oc ap -> type_leaves_ok f (KAtIndex (e_own e)) L 6 oc ap ->
  int_leaves_ok f true -> int_leaves_ok f false ->
  run_all f fuel = Done res -> Accepts e sem f cfgs -> nonrecursive f cfgs ->
  kind_fields e (e_own e) 6 oc ap -> (oc <= 5)%N -> In L c07_labels -> carries 6 oc ap L = true ->
  run_detector f res fuel' name chk = Done ps -> ps <> [].
Proof.
  intros Hname Hchk Hsem Hok Hi Hg Tls Tla Ht Hf Hrun Hacc Hnr Hkf Hoc HL Hc Hdet.
  pose proof (own_kind_in_ctx e sem f fuel res cfgs L 6 oc ap Hsem Hok Hi Hg Tls Tla Ht Hf Hrun Hacc Hkf
                (in_range_appl oc ap Hoc) HL Hc) as Hin.
  refine (no_miss_generic e sem f fuel fuel' res cfgs name chk ps Hsem Hok Hi Hg Ht Hf Hrun Hacc Hnr Hname _ _ Hdet);
    intros b st Hb; destruct (Hin b st Hb) as [H1 H2]; apply (kind_check_false L chk Hchk); assumption.
Qed.

(* is-updatable.  The governed transaction is an application call (TypeEnum = 6) with OnCompletion =
   UpdateApplication (4), any ApplicationID ap.  type_leaves_ok ... "ApplUpdateApplication" 6 4 ap excludes the D16
   patterns for such a call: `txn TypeEnum == appl` (true side: the tool keeps only "Appl"), `txn TypeEnum != c`
   for c <> appl (idem), `txn ApplicationID == 0` on the true side / a bare `txn ApplicationID` on the false side
   (both only for ap = 0: an update call that is also a creation). *)
Theorem C01_updatable_no_miss_partial e sem f fuel fuel' res cfgs ps ap :
  sem_ok e sem -> env_ok e -> fn_intcs f = e_intcs e -> graph_ok f ->
  type_leaves_ok f KSelf "ApplUpdateApplication" 6 4 ap ->
  type_leaves_ok f (KAtIndex (e_own e)) "ApplUpdateApplication" 6 4 ap ->
  int_leaves_ok f true -> int_leaves_ok f false ->
  run_all f fuel = Done res -> Accepts e sem f cfgs -> nonrecursive f cfgs ->
  kind_fields e (e_own e) 6 4 ap ->
  run_detector f res fuel' "is-updatable" checks_is_updatable = Done ps -> ps <> [].
Proof.
  intros Hsem Hok Hi Hg Tls Tla Ht Hf Hrun Hacc Hnr Hkf.
  apply (kind_only_no_miss e sem f fuel fuel' res cfgs ps "is-updatable" checks_is_updatable "ApplUpdateApplication" 4 ap
           eq_refl (fun _ => eq_refl) Hsem Hok Hi Hg Tls Tla Ht Hf Hrun Hacc Hnr Hkf).
  - lia.
  - apply label_in. auto.
  - reflexivity.
Qed.

(* is-deletable: OnCompletion = DeleteApplication (5) *)
Theorem C01_deletable_no_miss_partial e sem f fuel fuel' res cfgs ps ap :
  sem_ok e sem -> env_ok e -> fn_intcs f = e_intcs e -> graph_ok f ->
  type_leaves_ok f KSelf "ApplDeleteApplication" 6 5 ap ->
  type_leaves_ok f (KAtIndex (e_own e)) "ApplDeleteApplication" 6 5 ap ->
  int_leaves_ok f true -> int_leaves_ok f false ->
  run_all f fuel = Done res -> Accepts e sem f cfgs -> nonrecursive f cfgs ->
  kind_fields e (e_own e) 6 5 ap ->
  run_detector f res fuel' "is-deletable" checks_is_deletable = Done ps -> ps <> [].
Proof.
  intros Hsem Hok Hi Hg Tls Tla Ht Hf Hrun Hacc Hnr Hkf.
  apply (kind_only_no_miss e sem f fuel fuel' res cfgs ps "is-deletable" checks_is_deletable "ApplDeleteApplication" 5 ap
           eq_refl (fun _ => eq_refl) Hsem Hok Hi Hg Tls Tla Ht Hf Hrun Hacc Hnr Hkf).
  - lia.
  - apply label_in. auto.
  - reflexivity.
Qed.

(* ====================================================================== *)
(* C. unprotected-updatable / unprotected-deletable: kind + Sender          *)
(* ====================================================================== *)
Lemma kind_sender_no_miss e sem f fuel fuel' res cfgs ps name chk L oc ap a :
  (name =? "group-size-check") = false ->
  (forall c, chk c = negb (mem_any L (ctx_transaction_types c) && av_any (ctx_sender c))) ->
  sem_ok e sem -> env_ok e -> fn_intcs f = e_intcs e -> graph_ok f ->
  type_leaves_ok f KSelf L 6 oc ap -> type_leaves_ok f (KAtIndex (e_own e)) L 6 oc ap ->
  addr_leaves_ok e f KSelf "Sender" -> addr_leaves_ok e f (KAtIndex (e_own e)) "Sender" ->
  int_leaves_ok f true -> int_leaves_ok f false ->
  run_all f fuel = Done res -> Accepts e sem f cfgs -> nonrecursive f cfgs ->
  kind_fields e (e_own e) 6 oc ap -> (oc <= 5)%N -> In L c07_labels -> carries 6 oc ap L = true ->
  e_field e (e_own e) "Sender" = VAddr a -> a <> "ZERO" -> is_marker a = false ->
  fresh_in res "Sender" (abs_name e a) ->
  run_detector f res fuel' name chk = Done ps -> ps <> [].
Proof.
  intros Hname Hchk Hsem Hok Hi Hg Tls Tla Hls Hla Ht Hf Hrun Hacc Hnr Hkf Hoc HL Hc Hfld Hz Hm Hfr Hdet.
  pose proof (own_kind_in_ctx e sem f fuel res cfgs L 6 oc ap Hsem Hok Hi Hg Tls Tla Ht Hf Hrun Hacc Hkf
                (in_range_appl oc ap Hoc) HL Hc) as Hkind.
  pose proof (own_addr_in_ctx e sem f fuel res cfgs "Sender" a Hsem Hok Hi Hg Hls Hla Ht Hf Hrun Hacc Hfld Hz Hm) as Haddr.
  refine (no_miss_generic e sem f fuel fuel' res cfgs name chk ps Hsem Hok Hi Hg Ht Hf Hrun Hacc Hnr Hname _ _ Hdet);
    intros b st Hb; destruct (Hkind b st Hb) as [K1 K2]; destruct (Haddr b st Hb) as [A1 A2];
    rewrite Hchk; change (@mem_any string Mem_string) with smem.
  - rewrite (proj2 (smem_In _ _) K1). unfold ctx_of. cbn [ctx_sender].
    rewrite (addr_any_true res "Sender" KSelf b _ Hfr A1). reflexivity.
  - rewrite (proj2 (smem_In _ _) K2). unfold ctx_of. cbn [ctx_sender].
    rewrite (addr_any_true res "Sender" (KAtIndex (e_own e)) b _ Hfr A2). reflexivity.
Qed.

(* unprotected-updatable: an UpdateApplication call sent by an address the contract never names.
   Beyond C01_updatable_no_miss_partial: addr_leaves_ok ... "Sender" (every checked comparison of `txn Sender` is with
   global ZeroAddress / CreatorAddress / an address literal; D19 zero-address literal; the creator's address is not
   spelled as a literal) and fresh_in res "Sender": the tool's result names the sender nowhere. *)
Theorem C01_unprotected_updatable_no_miss_partial e sem f fuel fuel' res cfgs ps ap a :
  sem_ok e sem -> env_ok e -> fn_intcs f = e_intcs e -> graph_ok f ->
  type_leaves_ok f KSelf "ApplUpdateApplication" 6 4 ap ->
  type_leaves_ok f (KAtIndex (e_own e)) "ApplUpdateApplication" 6 4 ap ->
  addr_leaves_ok e f KSelf "Sender" -> addr_leaves_ok e f (KAtIndex (e_own e)) "Sender" ->
  int_leaves_ok f true -> int_leaves_ok f false ->
  run_all f fuel = Done res -> Accepts e sem f cfgs -> nonrecursive f cfgs ->
  kind_fields e (e_own e) 6 4 ap ->
  e_field e (e_own e) "Sender" = VAddr a -> a <> "ZERO" -> is_marker a = false ->
  fresh_in res "Sender" (abs_name e a) ->
  run_detector f res fuel' "unprotected-updatable" checks_unprotected_updatable = Done ps -> ps <> [].
Proof.
  intros Hsem Hok Hi Hg Tls Tla Hls Hla Ht Hf Hrun Hacc Hnr Hkf.
  apply (kind_sender_no_miss e sem f fuel fuel' res cfgs ps "unprotected-updatable" checks_unprotected_updatable
           "ApplUpdateApplication" 4 ap a eq_refl (fun _ => eq_refl) Hsem Hok Hi Hg Tls Tla Hls Hla Ht Hf Hrun Hacc Hnr Hkf).
  - lia.
  - apply label_in. auto.
  - reflexivity.
Qed.

Theorem C01_unprotected_deletable_no_miss_partial e sem f fuel fuel' res cfgs ps ap a :
  sem_ok e sem -> env_ok e -> fn_intcs f = e_intcs e -> graph_ok f ->
  type_leaves_ok f KSelf "ApplDeleteApplication" 6 5 ap ->
  type_leaves_ok f (KAtIndex (e_own e)) "ApplDeleteApplication" 6 5 ap ->
  addr_leaves_ok e f KSelf "Sender" -> addr_leaves_ok e f (KAtIndex (e_own e)) "Sender" ->
  int_leaves_ok f true -> int_leaves_ok f false ->
  run_all f fuel = Done res -> Accepts e sem f cfgs -> nonrecursive f cfgs ->
  kind_fields e (e_own e) 6 5 ap ->
  e_field e (e_own e) "Sender" = VAddr a -> a <> "ZERO" -> is_marker a = false ->
  fresh_in res "Sender" (abs_name e a) ->
  run_detector f res fuel' "unprotected-deletable" checks_unprotected_deletable = Done ps -> ps <> [].
Proof.
  intros Hsem Hok Hi Hg Tls Tla Hls Hla Ht Hf Hrun Hacc Hnr Hkf.
  apply (kind_sender_no_miss e sem f fuel fuel' res cfgs ps "unprotected-deletable" checks_unprotected_deletable
           "ApplDeleteApplication" 5 ap a eq_refl (fun _ => eq_refl) Hsem Hok Hi Hg Tls Tla Hls Hla Ht Hf Hrun Hacc Hnr Hkf).
  - lia.
  - apply label_in. auto.
  - reflexivity.
Qed.

(* ====================================================================== *)
(* D. group-size-check                                                     *)
(* ====================================================================== *)
(* The detector reports a path only if one of ITS blocks reads a group member by absolute index
   (Detect.run_detector, `report`).  PathCut cuts the cycles of the run away; a block that the run visits only
   strictly inside a cycle (between two occurrences of one configuration) does not survive the cut: finding D21
   (`loop: gtxn 1 Fee; ...; bnz loop` with the read in a block other than the loop head).
   D.1 strengthens PathCut.cut_aux: the cut keeps every configuration that no cycle of the run spans. *)

(* p keeps the block of every configuration c of the run such that no configuration before c recurs after c *)
Definition keeps (cfgs : list rconfig) (p : list nat) : Prop :=
  forall pre c post, cfgs = pre ++ c :: post -> (forall c', In c' pre -> ~ In c' post) -> In (fst c) p.

Lemma split_align {A} : forall (l1 : list A) x l2 pre c post,
  l1 ++ x :: l2 = pre ++ c :: post -> ~ In x post ->
  exists pre2, x :: l2 = pre2 ++ c :: post /\ incl pre2 pre.
Proof.
  induction l1 as [|a l1 IH]; intros x l2 pre c post E Hx.
  - exists pre. split; [exact E | apply incl_refl].
  - destruct pre as [|a' pre'].
    + simpl in E. inversion E; subst. exfalso. apply Hx. apply in_or_app. right. left. reflexivity.
    + simpl in E. inversion E; subst a'. destruct (IH x l2 pre' c post H1 Hx) as (pre2 & E2 & Hi).
      exists pre2. split; [exact E2 | apply incl_tl; exact Hi].
Qed.

Section Cut2.
  Variable f : func.
  Variable validated : nat -> bool.
  Notation GoodPathFrom := (Paths.GoodPathFrom f validated).
  Notation pstep := (Paths.pstep f validated).
  Notation enterable := (Paths.enterable validated).
  Notation RunFrom := (Runs.RunFrom f).

  Lemma keeps_cons b st rest p' : keeps rest p' -> keeps ((b, st) :: rest) (b :: p').
  Proof.
    intros Hk pre c post E Hno. destruct pre as [|x pre'].
    - simpl in E. inversion E; subst. left. reflexivity.
    - simpl in E. inversion E; subst x. right.
      apply (Hk pre' c post H1). intros c' Hc'. apply Hno. right. exact Hc'.
  Qed.

  Lemma cut_step2 c b st c' b' st' rest :
    pstep c b c' b' -> RunFrom (b', st') rest ->
    (exists p', GoodPathFrom c' b' p' /\ incl p' (map fst rest) /\ last p' 0 = fst (final f rest) /\ keeps rest p') ->
    exists p, GoodPathFrom c b p /\ incl p (map fst ((b, st) :: rest)) /\
              last p 0 = fst (final f ((b, st) :: rest)) /\ keeps ((b, st) :: rest) p.
  Proof.
    intros Hstep Hrun [p' [Hp' [Hincl [Hlast Hk]]]].
    exists (b :: p'). split; [|split; [|split]].
    - econstructor; eassumption.
    - intros x [<-|Hx]; [left; reflexivity|right; apply Hincl; exact Hx].
    - destruct (GoodPathFrom_head' f validated _ _ _ Hp') as [r ->].
      rewrite last_cons_nonempty, Hlast. rewrite (final_cons f _ _ _ Hrun). reflexivity.
    - apply keeps_cons. exact Hk.
  Qed.

  Lemma cut_aux2 : forall n cfgs b st pst ex,
    length cfgs <= n -> RunFrom (b, st) cfgs -> ends_in_leaf f cfgs ->
    (forall c, In c cfgs -> validated (fst c) = false) ->
    nonrecursive f cfgs -> Inv f cfgs st pst ex ->
    exists p, GoodPathFrom (pst, ex) b p /\ incl p (map fst cfgs) /\ last p 0 = fst (final f cfgs) /\ keeps cfgs p.
  Proof.
    induction n as [|n IH]; intros cfgs b st pst ex Hlen Hrun Hleaf Hval Hnr Hinv.
    { inversion Hrun; subst; simpl in Hlen; lia. }
    destruct (RunFrom_head f _ _ Hrun) as [rest ->].
    destruct (in_dec rconfig_eq_dec (b, st) rest) as [Hin|Hnin].
    - (* (b, st) occurs again: drop the loop *)
      apply in_split in Hin. destruct Hin as [pre [post ->]].
      change ((b, st) :: pre ++ (b, st) :: post) with (((b, st) :: pre) ++ (b, st) :: post) in *.
      assert (Hsub : forall c, In c ((b, st) :: post) -> In c (((b, st) :: pre) ++ (b, st) :: post)).
      { intros c Hc. apply in_or_app. right. exact Hc. }
      destruct (IH ((b, st) :: post) b st pst ex) as [p [Hp [Hincl [Hlast Hk]]]].
      + rewrite app_length in Hlen. simpl in Hlen. simpl. unfold rconfig in *. lia.
      + exact (RunFrom_suffix f _ _ Hrun _ _ _ eq_refl).
      + unfold ends_in_leaf in *. rewrite final_suffix in Hleaf. exact Hleaf.
      + intros c Hc. apply Hval, Hsub, Hc.
      + exact (nonrecursive_suffix f _ _ Hnr).
      + exact (Inv_mono f _ _ _ _ _ Hsub Hinv).
      + exists p. split; [exact Hp|split; [|split]].
        * intros x Hx. apply Hincl in Hx. rewrite map_app. apply in_or_app. right. exact Hx.
        * rewrite final_suffix. exact Hlast.
        * intros pre0 c0 post0 E Hno. destruct pre0 as [|x pre0'].
          -- simpl in E. inversion E; subst c0.
             destruct (GoodPathFrom_head' f validated _ _ _ Hp) as [r ->]. left. reflexivity.
          -- assert (Ex : x = (b, st)) by (simpl in E; inversion E; reflexivity). subst x.
             assert (Hx : ~ In (b, st) post0) by (apply Hno; left; reflexivity).
             destruct (split_align ((b, st) :: pre) (b, st) post ((b, st) :: pre0') c0 post0 E Hx) as (pre2 & E2 & Hi2).
             apply (Hk pre2 c0 post0 E2). intros c' Hc'. apply Hno. apply Hi2. exact Hc'.
    - (* last visit of (b, st): emit b *)
      assert (Hent : enterable (pst, ex) b).
      { split.
        - apply (Hval (b, st)). left. reflexivity.
        - simpl. intros Hx. apply (Inv_last f _ _ _ _ Hinv b Hx). left. reflexivity. }
      inversion Hrun as [c|c c' rest' Hstep Hrun']; subst.
      + (* the run ends here: a leaf *)
        destruct Hleaf as [blk [Hb Hl]]. unfold final in Hb. simpl in Hb.
        exists [b]. split; [|split; [|split]].
        * eapply GP_leaf; eassumption.
        * intros x [<-|[]]. left. reflexivity.
        * reflexivity.
        * intros pre0 c0 post0 E _. destruct pre0 as [|x [|y pre0']]; simpl in E; inversion E; subst.
          left. reflexivity.
      + destruct c' as [b' st'].
        assert (Hsub : forall c, In c rest -> In c ((b, st) :: rest)) by (intros c Hc; right; exact Hc).
        assert (Hnrb : forall l, callee_of f b = Some l -> ~ In l (stack_names f st)).
        { intros l Hc. destruct (RunFrom_head f _ _ Hrun') as [r Er].
          apply (Hnr [] b st (b', st') r l); [rewrite Er; reflexivity|exact Hc]. }
        assert (Hinv' : Inv f rest st pst (visit ex b)).
        { apply Inv_visit; [|exact Hnin]. exact (Inv_mono f _ _ _ _ _ Hsub Hinv). }
        assert (IHr : forall pst' ex', Inv f rest st' pst' ex' ->
                  exists p', GoodPathFrom (pst', ex') b' p' /\ incl p' (map fst rest) /\
                             last p' 0 = fst (final f rest) /\ keeps rest p').
        { intros pst' ex' Hi. apply (IH rest b' st' pst' ex').
          - simpl in Hlen. lia.
          - exact Hrun'.
          - unfold ends_in_leaf in *. rewrite (final_cons f _ _ _ Hrun') in Hleaf. exact Hleaf.
          - intros c Hc. apply Hval, Hsub, Hc.
          - exact (nonrecursive_suffix f [(b, st)] rest Hnr).
          - exact Hi. }
        inversion Hstep as [b0 st0 blk l s Hb Hop Hs|b0 st0 cs blk cb rp Hb Hop Hcs Hrp|b0 st0 blk b'' Hb Hnc Hnret Hn];
          subst.
        * (* CALL *)
          pose proof (callee_of_call f _ _ _ Hb Hop) as Hc.
          apply (cut_step2 (pst, ex) b st (pst ++ [(Some b, l)], visit ex b ++ [[]]) (s_entry s) (st ++ [b]) rest).
          -- eapply PS_call; try eassumption.
             ++ exact (rstep_not_leaf f _ _ _ _ Hstep Hb).
             ++ rewrite (Inv_pstack f _ _ _ _ Hinv), pstack_names.
                exact (Hnrb l Hc).
          -- exact Hrun'.
          -- apply IHr.
             replace (Some b, l) with (mkframe f b) by (unfold mkframe, frame_name; rewrite Hc; reflexivity).
             constructor; [exact Hinv'|]. intros x [].
        * (* RET *)
          destruct (Inv_pop f _ _ _ _ _ Hinv') as [pst0 [ex0 [v [Ep [Ee Hi0]]]]].
          assert (E1 : removelast pst = pst0) by (rewrite Ep; apply removelast_last).
          assert (E2 : removelast (visit ex b) = ex0) by (rewrite Ee; apply removelast_last).
          apply (cut_step2 (pst, ex) b (st' ++ [cs]) (removelast pst, removelast (visit ex b)) b' st' rest).
          -- eapply PS_ret with (name := frame_name f cs); try eassumption.
             ++ exact (rstep_not_leaf f _ _ _ _ Hstep Hb).
             ++ rewrite Ep. apply last_last.
          -- exact Hrun'.
          -- rewrite E1, E2. apply IHr. exact Hi0.
        * (* EDGE *)
          apply (cut_step2 (pst, ex) b st' (pst, visit ex b) b' st' rest).
          -- eapply PS_edge; try eassumption.
             exact (rstep_not_leaf f _ _ _ _ Hstep Hb).
          -- exact Hrun'.
          -- apply IHr. exact Hinv'.
  Qed.

  (* PathCut.run_to_goodpath_gen, with the list of configurations that certainly survive the cut *)
  Theorem run_to_goodpath_keeps cfgs :
    AcceptingRun f cfgs ->
    (forall c, In c cfgs -> validated (fst c) = false) ->
    nonrecursive f cfgs ->
    exists p, GoodPath f validated p /\ incl p (map fst cfgs) /\ last p 0 = fst (final f cfgs) /\ keeps cfgs p.
  Proof.
    intros [Hrun Hleaf] Hval Hnr.
    exact (cut_aux2 (length cfgs) cfgs (fn_entry f) [] _ _ (le_n _) Hrun Hleaf Hval Hnr (Inv_init f cfgs)).
  Qed.
End Cut2.

(* D.2 the detector *)
(* some configuration of the run whose block reads a group member by absolute index lies outside every cycle of
   the run: no configuration that precedes it occurs again after it.  This is the exclusion of D21; it holds in
   particular when the reading block is the entry block (pre = []), the final block (post = []), or any block of
   a run that repeats no configuration. *)
Definition uncut_access (f : func) (cfgs : list rconfig) : Prop :=
  exists pre c post, cfgs = pre ++ c :: post /\ (forall c', In c' pre -> ~ In c' post) /\
                     accessed_using_absolute_index f (fst c) = true.

Lemma uncut_access_norepeat f cfgs c : NoDup cfgs -> In c cfgs ->
  accessed_using_absolute_index f (fst c) = true -> uncut_access f cfgs.
Proof.
  intros Hnd Hin Hacc. apply in_split in Hin. destruct Hin as (pre & post & ->).
  exists pre, c, post. split; [reflexivity|]. split; [|exact Hacc].
  intros c' Hpre Hpost. apply NoDup_remove_1 in Hnd.
  induction pre as [|x pre IH]; [destruct Hpre|].
  simpl in Hnd. inversion Hnd as [|? ? Hnx Hd']; subst.
  destruct Hpre as [->|Hpre]; [apply Hnx; apply in_or_app; right; exact Hpost | exact (IH Hd' Hpre)].
Qed.

(* the 16 of checks_group_size_check *)
Lemma group_check_false_self res b :
  In (Z.of_N MAX_GROUP_SIZE) (ctx_group_sizes (ctx_of res b KSelf)) ->
  checks_group_size_check (ctx_of res b KSelf) = false.
Proof.
  intros Hin. unfold checks_group_size_check.
  change (ctx_is_gtxn_context (ctx_of res b KSelf)) with false. cbv iota.
  change (@mem_any Z Mem_Z) with zmem. rewrite (proj2 (zmem_In _ _) Hin). reflexivity.
Qed.

Lemma group_check_false_at res b i : checks_group_size_check (ctx_of res b (KAtIndex i)) = false.
Proof. reflexivity. Qed.

(* group-size-check.  Dangerous value: the program approves (one member of) a group of the maximal size 16 -- so it
   does not pin the group size to what it expects -- and the run reads another member by absolute index
   (Detect.accessed_using_absolute_index: gtxn i f, gtxna/gtxnas, gtxns/gtxnsa/gtxnsas with a constant index).
   Hypotheses: int_leaves_ok (D2: no mirrored `c < global GroupSize`-style comparison) and uncut_access (D21). *)
Theorem C01_groupsize_no_miss_partial e sem f fuel fuel' res cfgs ps :
  sem_ok e sem -> env_ok e -> fn_intcs f = e_intcs e -> graph_ok f ->
  int_leaves_ok f true -> int_leaves_ok f false ->
  run_all f fuel = Done res -> Accepts e sem f cfgs -> nonrecursive f cfgs ->
  e_size e = MAX_GROUP_SIZE ->
  uncut_access f cfgs ->
  run_detector f res fuel' "group-size-check" checks_group_size_check = Done ps -> ps <> [].
Proof.
  intros Hsem Hok Hi Hg Ht Hf Hrun Hacc Hnr Hsz (pre & c & post & Ecfg & Hno & Hab) Hdet.
  unfold run_detector in Hdet. cbn [String.eqb Ascii.eqb Bool.eqb] in Hdet.
  pose proof Hacc as (_ & Har & _ & _).
  destruct (run_all_inv f fuel res Hrun) as (sizes & idx0 & Es & Ex & Esz & _ & _).
  assert (Hval : forall c0, In c0 cfgs -> validated_in_block res checks_group_size_check None (fst c0) = false).
  { intros [b st] Hin. cbn [fst].
    apply (validated_false res checks_group_size_check b (e_own e)).
    - apply group_check_false_self.
      destruct (C06_sound_partial e sem f true fuel sizes cfgs Hsem Hok Hi Hg Ht Es Hacc b st Hin) as (gs & Egs & Hgs).
      unfold ctx_of. cbn [ctx_group_sizes]. rewrite Esz, Egs. cbn [int_value] in Hgs. rewrite Hsz in Hgs. exact Hgs.
    - exact (own_index_listed e sem f fuel res cfgs Hsem Hok Hi Hg Ht Hf Hrun Hacc b st Hin).
    - apply group_check_false_at. }
  destruct (run_to_goodpath_keeps f _ cfgs Har Hval Hnr) as (p & Hgp & _ & _ & Hk).
  assert (Hrep : existsb (accessed_using_absolute_index f) p = true).
  { apply existsb_exists. exists (fst c). split; [exact (Hk pre c post Ecfg Hno) | exact Hab]. }
  pose proof (detect_paths_complete f _ _ fuel' ps p Hgp Hrep Hdet) as Hin.
  intros E. subst ps. destruct Hin.
Qed.

(* a spec-side sufficient condition for accessed_using_absolute_index: the block executes a `gtxn i f` *)
Lemma ExecFrom_bexec e sem f : forall c cs cfgs, ExecFrom e sem f c cs cfgs ->
  forall c0, In c0 cfgs -> exists blk cs0 tr cs0', fblock f (fst c0) = Some blk /\ bexec e sem (fn_prog f) blk cs0 tr cs0'.
Proof.
  induction 1 as [c cs blk tr cs' Hb Hex | c c' rest cs blk tr cs' Hb Hex Hstep Hbr Hrest IH]; intros c0 Hin.
  - destruct Hin as [<-|[]]. eauto 6.
  - destruct Hin as [<-|Hin]; [eauto 6 | exact (IH c0 Hin)].
Qed.

Lemma executed_gtxn_accessed e sem f cfgs b st blk k i fld :
  Accepts e sem f cfgs -> In (b, st) cfgs -> fblock f b = Some blk ->
  In k (b_ins blk) -> op_at (fn_prog f) k = Some (IGtxn i fld) ->
  accessed_using_absolute_index f b = true.
Proof.
  intros (Hex & _) Hin Hb Hk Hop.
  destruct (ExecFrom_bexec e sem f _ _ _ Hex (b, st) Hin) as (blk' & cs0 & tr & cs0' & Hb' & Hbe).
  cbn [fst] in Hb'. rewrite Hb in Hb'. inversion Hb'; subst blk'.
  destruct (crun_emulate sem (fn_prog f) _ _ _ _ (proj1 Hbe) []) as [ast Hast].
  unfold accessed_using_absolute_index. rewrite Hb, Hast.
  rewrite <- (emulate_positions _ _ _ _ Hast) in Hk. apply in_map_iff in Hk.
  destruct Hk as ([[k' op] args] & Ek & Hink). cbn [pos_of] in Ek. subst k'.
  apply existsb_exists. exists (k, op, args). split; [exact Hink|].
  rewrite (emulate_ops _ _ _ _ Hast _ _ _ Hink) in Hop. inversion Hop; subst op. reflexivity.
Qed.

Print Assumptions C01_closeto_no_miss_partial.
Print Assumptions C01_assetcloseto_no_miss_partial.
Print Assumptions C01_updatable_no_miss_partial.
Print Assumptions C01_deletable_no_miss_partial.
Print Assumptions C01_unprotected_updatable_no_miss_partial.
Print Assumptions C01_unprotected_deletable_no_miss_partial.
Print Assumptions run_to_goodpath_keeps.
Print Assumptions C01_groupsize_no_miss_partial.
Print Assumptions executed_gtxn_accessed.

(* ====================================================================== *)
(* E. non-vacuity                                                          *)
(* ====================================================================== *)
(* a leaf that mentions neither the key's address field nor an address literal *)
Definition addr_leaf_plainb (intcs : option (list N)) (fam : keyfam) (fld : string) (args : list sval) : bool :=
  forallb (fun v => match literal_of v with None => true | Some _ => false end) args &&
  forallb (fun v => negb (value_matches intcs fam fld v)) args && forallb tree_wf args.

Lemma addr_leaves_ok_plain e f fam fld :
  forallb (fun '(_, _, args) => addr_leaf_plainb (fn_intcs f) fam fld args) (all_leaves f) = true ->
  addr_leaves_ok e f fam fld.
Proof.
  intros H. unfold addr_leaves_ok.
  apply (leaves_forall f (fun op pos args => addr_const_compared (fn_intcs f) fam fld args /\ zero_literal_ok args /\
                                             creator_not_literal e args /\ forallb tree_wf args = true)).
  apply Forall_forall. intros [[op pos] args] Hin. rewrite forallb_forall in H. specialize (H _ Hin). cbn beta iota in H.
  unfold addr_leaf_plainb in H. apply andb_true_iff in H. destruct H as [H Hw]. apply andb_true_iff in H.
  destruct H as [Hlit Hvm]. rewrite forallb_forall in Hlit, Hvm.
  split; [|split; [|split; [|exact Hw]]].
  - intros a b ->. split; intros M.
    + specialize (Hvm a (or_introl eq_refl)). rewrite M in Hvm. discriminate.
    + specialize (Hvm b (or_intror (or_introl eq_refl))). rewrite M in Hvm. discriminate.
  - intros v lit Hv Hl. specialize (Hlit v Hv). rewrite Hl in Hlit. discriminate.
  - intros v lit Hv Hl. specialize (Hlit v Hv). rewrite Hl in Hlit. discriminate.
Qed.

Lemma int_leaves_ok_b f sz :
  forallb (fun '(op, _, args) => negb (mirrored_ordered sz (fn_intcs f) op args) && forallb tree_wf args) (all_leaves f) = true ->
  int_leaves_ok f sz.
Proof.
  intros H. unfold int_leaves_ok.
  apply (leaves_forall f (fun op pos args => mirrored_ordered sz (fn_intcs f) op args = false /\ forallb tree_wf args = true)).
  apply Forall_forall. intros [[op pos] args] Hin. rewrite forallb_forall in H. specialize (H _ Hin). cbn beta iota in H.
  apply andb_true_iff in H. destruct H as [H1 H2]. apply negb_true_iff in H1. auto.
Qed.

Lemma lookup_In' {T} : forall (l : list (nat * T)) b v, lookup T l b = Some v -> In (b, v) l.
Proof.
  induction l as [|[k w] l IH]; intros b v H; [discriminate|]. cbn [lookup] in H.
  destruct (Nat.eqb_spec k b) as [->|Hne]; [inversion H; left; reflexivity | right; apply IH; exact H].
Qed.

(* the address named n occurs in no set recorded for field fld *)
Lemma fresh_in_b res fld n :
  forallb (fun '(fl, _, l) => negb (fl =? fld) || forallb (fun '(_, s) => negb (smem n s)) l) (r_addrs res) = true ->
  fresh_in res fld n.
Proof.
  intros Hall fam l b s Hin Hl. rewrite forallb_forall in Hall. specialize (Hall _ Hin). cbn beta iota in Hall.
  rewrite String.eqb_refl in Hall. cbn [negb orb] in Hall.
  rewrite forallb_forall in Hall. specialize (Hall _ (lookup_In' l b s Hl)). cbn beta iota in Hall.
  apply negb_true_iff in Hall. exact Hall.
Qed.

(* ---------------------------------------------------------------- E.1 is-updatable, unprotected-updatable *)
(* the contract and the UpdateApplication call of TypeExec.TypeWitness, sent by "S" *)
Module UpdatableWitness.
  Import TypeWitness.

  Lemma w_nonrec : nonrecursive fT runT.
  Proof.
    apply (nonrecursive_intra fT _ _ w_run). intros c0 Hin. simpl in Hin. intuition (subst; reflexivity).
  Qed.

  Definition resT : fn_result :=
    Eval vm_compute in match run_all fT 100 with Done r => r | _ => mkRes [] [] [] [] [] end.
  Lemma w_run_all : run_all fT 100 = Done resT.
  Proof. vm_compute. reflexivity. Qed.

  Lemma w_addr_leaves fam : fam = KSelf \/ fam = KAtIndex 0 -> addr_leaves_ok eU fT fam "Sender".
  Proof. intros [-> | ->]; apply addr_leaves_ok_plain; vm_compute; reflexivity. Qed.

  Lemma w_int : forall sz, int_leaves_ok fT sz.
  Proof. intros [|]; apply int_leaves_ok_b; vm_compute; reflexivity. Qed.

  Theorem w_updatable_no_miss fuel' ps :
    run_detector fT resT fuel' "is-updatable" checks_is_updatable = Done ps -> ps <> [].
  Proof.
    exact (C01_updatable_no_miss_partial eU semU fT 100 fuel' resT runT ps 7 (sem_ref_ok eU) w_env_ok eq_refl w_graph_ok
             (w_type_leaves _ (or_introl eq_refl)) (w_type_leaves _ (or_intror eq_refl)) (w_int true) (w_int false)
             w_run_all w_accepts w_nonrec w_kind_fields).
  Qed.

  Theorem w_unprotected_updatable_no_miss fuel' ps :
    run_detector fT resT fuel' "unprotected-updatable" checks_unprotected_updatable = Done ps -> ps <> [].
  Proof.
    apply (C01_unprotected_updatable_no_miss_partial eU semU fT 100 fuel' resT runT ps 7 "S" (sem_ref_ok eU) w_env_ok eq_refl
             w_graph_ok (w_type_leaves _ (or_introl eq_refl)) (w_type_leaves _ (or_intror eq_refl))
             (w_addr_leaves _ (or_introl eq_refl)) (w_addr_leaves _ (or_intror eq_refl)) (w_int true) (w_int false)
             w_run_all w_accepts w_nonrec w_kind_fields eq_refl).
    - discriminate.
    - reflexivity.
    - apply fresh_in_b. vm_compute. reflexivity.
  Qed.

  (* and the detectors do answer, with the path through the block that handles the update *)
  Example w_updatable_paths : run_detector fT resT 100 "is-updatable" checks_is_updatable = Done [[0; 1]].
  Proof. vm_compute. reflexivity. Qed.
  Example w_unprotected_paths : run_detector fT resT 100 "unprotected-updatable" checks_unprotected_updatable = Done [[0; 1]].
  Proof. vm_compute. reflexivity. Qed.
End UpdatableWitness.

(* ---------------------------------------------------------------- E.2 can-close-account, can-close-asset *)
(*   txn TypeEnum; int 2; !=; assert; int 1; return      ("anything but a key registration")
   run by a payment closing to "X", and by an asset transfer closing to "X" *)
Module CloseWitness.
  Definition linesP : list string := ["#pragma version 6"; "txn TypeEnum"; "int 2"; "!="; "assert"; "int 1"; "return"].
  Definition pP : prog := Eval vm_compute in match parse_program (unlines linesP) with Ok p => p | Err _ => [] end.
  Definition tP : teal :=
    Eval vm_compute in
      match parse_teal pP with Ok t => t | Err _ => mkTeal 0 MAny [] [] [] (mkSub "" 0 [] []) [] None end.
  Definition fP : func := whole_function tP.
  Example tP_parses : parse_program (unlines linesP) = Ok pP /\ parse_teal pP = Ok tP.
  Proof. split; vm_compute; reflexivity. Qed.
  Lemma w_graph_ok : graph_ok fP.
  Proof. apply (graph_ok_whole_function_b pP tP (proj2 tP_parses)). vm_compute. reflexivity. Qed.

  (* ty = 1: payment with CloseRemainderTo = X;  ty = 4: asset transfer with AssetCloseTo = X *)
  Definition eC (ty : Z) : env :=
    mkEnv 1 0 (fun _ fld => if fld =? "TypeEnum" then VInt ty else if fld =? "OnCompletion" then VInt 0
                            else if fld =? "ApplicationID" then VInt 0
                            else if (fld =? "CloseRemainderTo") || (fld =? "AssetCloseTo") then VAddr "X"
                            else VOther) "C" None.
  Definition runP : list rconfig := [(0, [])].
  Definition BP := mkBlock 0 [0; 1; 2; 3; 4; 5; 6] [] [].
  Example BP_is : fblock fP 0 = Some BP.
  Proof. reflexivity. Qed.

  Lemma w_run : Run fP runP.
  Proof. apply RF_one. Qed.
  Lemma w_nonrec : nonrecursive fP runP.
  Proof. apply (nonrecursive_intra fP _ _ w_run). intros c0 Hin. simpl in Hin. intuition (subst; reflexivity). Qed.

  Definition outP (ty : Z) : trace cval * list cval :=
    match crun_tr cval (sem_ref (eC ty)) pP (b_ins BP) [] with Some r => r | None => ([], []) end.

  Lemma w_accepts ty : ty = 1%Z \/ ty = 4%Z -> Accepts (eC ty) (sem_ref (eC ty)) fP runP.
  Proof.
    intros Hty. split; [|split; [|split]].
    - unfold Exec, runP.
      apply (EF_last (eC ty) (sem_ref (eC ty)) fP (0, []) [] BP (fst (outP ty)) (snd (outP ty))).
      + reflexivity.
      + destruct Hty as [-> | ->]; (split; [vm_compute; reflexivity | apply no_fail_b_sound; vm_compute; reflexivity]).
    - split; [exact w_run|]. exists BP. split; reflexivity.
    - reflexivity.
    - exists BP. split; reflexivity.
  Qed.

  Lemma w_env_ok ty : env_ok (eC ty).
  Proof. split; vm_compute; split; congruence. Qed.

  Definition resP : fn_result :=
    Eval vm_compute in match run_all fP 100 with Done r => r | _ => mkRes [] [] [] [] [] end.
  Lemma w_run_all : run_all fP 100 = Done resP.
  Proof. vm_compute. reflexivity. Qed.

  Lemma w_int : forall sz, int_leaves_ok fP sz.
  Proof. intros [|]; apply int_leaves_ok_b; vm_compute; reflexivity. Qed.

  Theorem w_closeto_no_miss fuel' ps :
    run_detector fP resP fuel' "can-close-account" checks_can_close_account = Done ps -> ps <> [].
  Proof.
    apply (C01_closeto_no_miss_partial (eC 1) (sem_ref (eC 1)) fP 100 fuel' resP runP ps "X" (sem_ref_ok _) (w_env_ok 1) eq_refl
             w_graph_ok).
    - apply addr_leaves_ok_plain. vm_compute. reflexivity.
    - apply addr_leaves_ok_plain. vm_compute. reflexivity.
    - apply type_leaves_okb_sound. vm_compute. reflexivity.
    - apply type_leaves_okb_sound. vm_compute. reflexivity.
    - exact (w_int true).
    - exact (w_int false).
    - exact w_run_all.
    - exact (w_accepts 1 (or_introl eq_refl)).
    - exact w_nonrec.
    - repeat split.
    - reflexivity.
    - discriminate.
    - reflexivity.
    - apply fresh_in_b. vm_compute. reflexivity.
  Qed.

  Theorem w_assetcloseto_no_miss fuel' ps :
    run_detector fP resP fuel' "can-close-asset" checks_can_close_asset = Done ps -> ps <> [].
  Proof.
    apply (C01_assetcloseto_no_miss_partial (eC 4) (sem_ref (eC 4)) fP 100 fuel' resP runP ps "X" (sem_ref_ok _) (w_env_ok 4)
             eq_refl w_graph_ok).
    - apply addr_leaves_ok_plain. vm_compute. reflexivity.
    - apply addr_leaves_ok_plain. vm_compute. reflexivity.
    - apply type_leaves_okb_sound. vm_compute. reflexivity.
    - apply type_leaves_okb_sound. vm_compute. reflexivity.
    - exact (w_int true).
    - exact (w_int false).
    - exact w_run_all.
    - exact (w_accepts 4 (or_intror eq_refl)).
    - exact w_nonrec.
    - repeat split.
    - reflexivity.
    - discriminate.
    - reflexivity.
    - apply fresh_in_b. vm_compute. reflexivity.
  Qed.

  Example w_close_paths :
    run_detector fP resP 100 "can-close-account" checks_can_close_account = Done [[0]] /\
    run_detector fP resP 100 "can-close-asset" checks_can_close_asset = Done [[0]].
  Proof. split; vm_compute; reflexivity. Qed.

  (* the D16 exclusion is real: the same contract called as an application update is outside type_leaves_ok
     (`TypeEnum != keyreg`, true side, drops the Appl* labels), and is-updatable is indeed silent on it *)
  Example w_d16 : type_leaves_okb fP KSelf "ApplUpdateApplication" 6 4 7 = false /\
                  run_detector fP resP 100 "is-updatable" checks_is_updatable = Done [].
  Proof. split; vm_compute; reflexivity. Qed.
End CloseWitness.

(* ---------------------------------------------------------------- E.3 group-size-check *)
(*   gtxn 1 Fee; int 1000; <=; assert; int 1; return     run as member 0 of a group of 16 *)
Module GroupWitness.
  Definition linesG : list string := ["#pragma version 6"; "gtxn 1 Fee"; "int 1000"; "<="; "assert"; "int 1"; "return"].
  Definition pG : prog := Eval vm_compute in match parse_program (unlines linesG) with Ok p => p | Err _ => [] end.
  Definition tG : teal :=
    Eval vm_compute in
      match parse_teal pG with Ok t => t | Err _ => mkTeal 0 MAny [] [] [] (mkSub "" 0 [] []) [] None end.
  Definition fG : func := whole_function tG.
  Example tG_parses : parse_program (unlines linesG) = Ok pG /\ parse_teal pG = Ok tG.
  Proof. split; vm_compute; reflexivity. Qed.
  Lemma w_graph_ok : graph_ok fG.
  Proof. apply (graph_ok_whole_function_b pG tG (proj2 tG_parses)). vm_compute. reflexivity. Qed.

  Definition eG (n : N) : env := mkEnv n 0 (fun _ fld => if fld =? "Fee" then VInt 1000 else VOther) "C" None.
  Definition runG : list rconfig := [(0, [])].
  Definition BG := mkBlock 0 [0; 1; 2; 3; 4; 5; 6] [] [].
  Example BG_is : fblock fG 0 = Some BG.
  Proof. reflexivity. Qed.

  Lemma w_run : Run fG runG.
  Proof. apply RF_one. Qed.
  Lemma w_nonrec : nonrecursive fG runG.
  Proof. apply (nonrecursive_intra fG _ _ w_run). intros c0 Hin. simpl in Hin. intuition (subst; reflexivity). Qed.

  Definition outG (n : N) : trace cval * list cval :=
    match crun_tr cval (sem_ref (eG n)) pG (b_ins BG) [] with Some r => r | None => ([], []) end.

  (* the contract approves in groups of every size from 2 to 16 *)
  Lemma w_accepts n : In n [2; 3; 16]%N -> Accepts (eG n) (sem_ref (eG n)) fG runG.
  Proof.
    intros Hn. split; [|split; [|split]].
    - unfold Exec, runG.
      apply (EF_last (eG n) (sem_ref (eG n)) fG (0, []) [] BG (fst (outG n)) (snd (outG n))).
      + reflexivity.
      + destruct Hn as [<- | [<- | [<- | []]]];
          (split; [vm_compute; reflexivity | apply no_fail_b_sound; vm_compute; reflexivity]).
    - split; [exact w_run|]. exists BG. split; reflexivity.
    - reflexivity.
    - exists BG. split; reflexivity.
  Qed.

  Definition resG : fn_result :=
    Eval vm_compute in match run_all fG 100 with Done r => r | _ => mkRes [] [] [] [] [] end.
  Lemma w_run_all : run_all fG 100 = Done resG.
  Proof. vm_compute. reflexivity. Qed.
  Lemma w_int : forall sz, int_leaves_ok fG sz.
  Proof. intros [|]; apply int_leaves_ok_b; vm_compute; reflexivity. Qed.

  Lemma w_uncut : uncut_access fG runG.
  Proof. exists [], (0, []), []. split; [reflexivity|]. split; [intros c' []|]. vm_compute. reflexivity. Qed.

  Theorem w_groupsize_no_miss fuel' ps :
    run_detector fG resG fuel' "group-size-check" checks_group_size_check = Done ps -> ps <> [].
  Proof.
    apply (C01_groupsize_no_miss_partial (eG 16) (sem_ref (eG 16)) fG 100 fuel' resG runG ps (sem_ref_ok _)).
    - split; vm_compute; split; congruence.
    - reflexivity.
    - exact w_graph_ok.
    - exact (w_int true).
    - exact (w_int false).
    - exact w_run_all.
    - apply w_accepts. simpl. auto.
    - exact w_nonrec.
    - reflexivity.
    - exact w_uncut.
  Qed.

  Example w_groupsize_paths : run_detector fG resG 100 "group-size-check" checks_group_size_check = Done [[0]].
  Proof. vm_compute. reflexivity. Qed.
End GroupWitness.

(* ---------------------------------------------------------------- E.4 the dangerous value of group-size-check *)
(* "the contract does not pin the group size" cannot be read as "it approves in groups of two different sizes":
     global GroupSize; int 3; <=; assert; gtxn 1 Fee; int 1000; <=; assert; int 1; return
   approves as member 0 of groups of size 2 and of size 3, reads member 1 by absolute index, satisfies every other
   hypothesis of C01_groupsize_no_miss_partial -- and the detector is silent, because its check only asks whether
   the maximal size 16 is still possible.  Hence the hypothesis e_size e = MAX_GROUP_SIZE. *)
Module GroupBounded.
  Import GroupWitness.
  Definition linesB : list string :=
    ["#pragma version 6"; "global GroupSize"; "int 3"; "<="; "assert";
     "gtxn 1 Fee"; "int 1000"; "<="; "assert"; "int 1"; "return"].
  Definition pB : prog := Eval vm_compute in match parse_program (unlines linesB) with Ok p => p | Err _ => [] end.
  Definition tB : teal :=
    Eval vm_compute in
      match parse_teal pB with Ok t => t | Err _ => mkTeal 0 MAny [] [] [] (mkSub "" 0 [] []) [] None end.
  Definition fB : func := whole_function tB.
  Example tB_parses : parse_program (unlines linesB) = Ok pB /\ parse_teal pB = Ok tB.
  Proof. split; vm_compute; reflexivity. Qed.
  Lemma w_graph_ok : graph_ok fB.
  Proof. apply (graph_ok_whole_function_b pB tB (proj2 tB_parses)). vm_compute. reflexivity. Qed.

  Definition BB := mkBlock 0 [0; 1; 2; 3; 4; 5; 6; 7; 8; 9; 10] [] [].
  Example BB_is : fblock fB 0 = Some BB.
  Proof. reflexivity. Qed.
  Lemma w_run : Run fB runG.
  Proof. apply RF_one. Qed.
  Definition outB (n : N) : trace cval * list cval :=
    match crun_tr cval (sem_ref (eG n)) pB (b_ins BB) [] with Some r => r | None => ([], []) end.

  Lemma w_accepts n : In n [2; 3]%N -> Accepts (eG n) (sem_ref (eG n)) fB runG.
  Proof.
    intros Hn. split; [|split; [|split]].
    - unfold Exec, runG.
      apply (EF_last (eG n) (sem_ref (eG n)) fB (0, []) [] BB (fst (outB n)) (snd (outB n))).
      + reflexivity.
      + destruct Hn as [<- | [<- | []]];
          (split; [vm_compute; reflexivity | apply no_fail_b_sound; vm_compute; reflexivity]).
    - split; [exact w_run|]. exists BB. split; reflexivity.
    - reflexivity.
    - exists BB. split; reflexivity.
  Qed.

  Definition resB : fn_result :=
    Eval vm_compute in match run_all fB 100 with Done r => r | _ => mkRes [] [] [] [] [] end.

  Theorem C01_groupsize_unpinned_refuted :
    exists f res cfgs e2 e3,
      graph_ok f /\ int_leaves_ok f true /\ int_leaves_ok f false /\ run_all f 100 = Done res /\
      env_ok e2 /\ env_ok e3 /\ e_size e2 = 2%N /\ e_size e3 = 3%N /\
      Accepts e2 (sem_ref e2) f cfgs /\ Accepts e3 (sem_ref e3) f cfgs /\ nonrecursive f cfgs /\
      uncut_access f cfgs /\
      run_detector f res 100 "group-size-check" checks_group_size_check = Done [].
  Proof.
    exists fB, resB, runG, (eG 2), (eG 3).
    split; [exact w_graph_ok|]. split; [apply int_leaves_ok_b; vm_compute; reflexivity|].
    split; [apply int_leaves_ok_b; vm_compute; reflexivity|]. split; [vm_compute; reflexivity|].
    split; [split; vm_compute; split; congruence|]. split; [split; vm_compute; split; congruence|].
    split; [reflexivity|]. split; [reflexivity|].
    split; [apply w_accepts; simpl; auto|]. split; [apply w_accepts; simpl; auto|].
    split; [apply (nonrecursive_intra fB _ _ w_run); intros c0 Hin; simpl in Hin; intuition (subst; reflexivity)|].
    split; [exists [], (0, []), []; split; [reflexivity|]; split; [intros c' []|]; vm_compute; reflexivity|].
    vm_compute. reflexivity.
  Qed.
End GroupBounded.

Print Assumptions UpdatableWitness.w_updatable_no_miss.
Print Assumptions UpdatableWitness.w_unprotected_updatable_no_miss.
Print Assumptions CloseWitness.w_closeto_no_miss.
Print Assumptions CloseWitness.w_assetcloseto_no_miss.
Print Assumptions GroupWitness.w_groupsize_no_miss.
Print Assumptions GroupBounded.C01_groupsize_unpinned_refuted.
