(* The operand reconstruction REGENERATED from tealer's Python source (analyses/utils/stack_ast_builder.py) against the
   hand-written model Model/StackAst.v.

     Gen/StackGen.v     (tools/translate_stack.py):    Stack_init_gen, Stack_push_n_values_gen, Stack_pop_n_values_gen,
                                                       construct_stack_ast_gen
     Gen/AssertedGen.v  (tools/translate_asserted.py): flatten_ast_gen, compute_equations_gen

   Results (every statement is about the generated function and the model's real definitions).
   (1) class Stack.  Python keeps the top of the stack at the END of self._values, the model at the HEAD of its sstack:
         Stack_pop_n_values_gen vals n = Some (fst (pop_n (rev vals) n), rev (snd (pop_n (rev vals) n)))   for EVERY vals, n
         Stack_push_n_values_gen vals l = Some (vals ++ l),  and pushing the out-values is push_outs (push_outs_rev).
       Transported: StackLemmas.pop_n_length / pop_n_Forall (Stack_pop_n_values_gen_length / _Forall).
   (2) construct_stack_ast.  For EVERY program p and block bb (no hypothesis):
         construct_stack_ast_gen p bb = option_map dict_of (construct_stack_ast p bb)            (construct_stack_ast_gen_eq)
       where dict_of stores the model's entries (k, op, args) one after the other as d[k] = KnownStackValue(op@k, args, 0)
       (Python returns a dict, the model a list).  When the positions of the block are pairwise distinct -- always the
       case for a block built by the parser -- the dict is the list: map entry_of (construct_stack_ast_gen_nodup), and
       the lookup d[ins].args is the model's args_of (lookup_eq_nodup).  With a repeated position the two lookups DIFFER:
       the dict keeps the LAST value stored under a key, args_of (List.find) returns the FIRST entry (lookup_eq_refuted).
       Transported: Props/C11.C11_operands and C11_args_length (construct_stack_ast_gen_operands).
   (3) _flatten_ast.  On every value whose And (resp. Or) spine nodes have exactly two operands (spine_ok; true of every
       value built by construct_stack_ast_gen: constructed_spine_ok) and every budget fuel >= kdepth:
         option_map (map cond_of) (flatten_ast_gen fuel v k) = Some (kleaves k (cond_of v))               (flatten_ast_gen_eq)
       with kleaves = StackAst.and_leaves_c / or_leaves_c.  Outside spine_ok Python differs from cond_of: an And with
       three operands is flattened along args[0], args[1] (cond_of makes it a leaf: flatten_ast_gen_eq_refuted), an And
       with fewer than two raises IndexError (Lemmas/AssertedGenLemmas.v has more witnesses).
       Transported: Props/C11.C11_flatten_and / C11_flatten_or, for EVERY input (flatten_ast_gen_no_and / _no_or).
   (4) compute_equations = (the leaves that are not CUnknown, whether one is CUnknown)  (compute_equations_gen_eq_model);
       transported: no unknown and no spine node among the equations, for EVERY input (compute_equations_gen_known).
   This file does not depend on Lemmas/AssertedGenLemmas.v. *)
From Coq Require Import String List NArith ZArith Bool Arith Lia.
From Tealer Require Import Tables Syntax Parse Cfg StackAst KeysGen AssertedGen StackGen StackLemmas KeysGenLemmas.
Import ListNotations.
Open Scope list_scope.

Arguments stack_pop_size : simpl never.
Arguments stack_push_size : simpl never.
Arguments op_at : simpl never.

(* ====================================================================== *)
(* 0. Generic facts                                                         *)
(* ====================================================================== *)
Lemma map_const_seq {A : Type} (x : A) : forall n s, map (fun _ => x) (seq s n) = repeat x n.
Proof. induction n as [| n IH]; intros s; cbn [seq map repeat]; [reflexivity | rewrite IH; reflexivity]. Qed.

(* a fold whose step never raises on a defined state *)
Lemma fold_left_some {S A : Type} (G : py S -> A -> py S) (h : S -> A -> S) :
  (forall s a, G (Some s) a = Some (h s a)) ->
  forall l s, fold_left G l (Some s) = Some (fold_left h l s).
Proof.
  intros HG. induction l as [| a t IH]; intros s; cbn [fold_left]; [reflexivity|].
  rewrite HG. apply IH.
Qed.

Lemma fold_left_none {S A : Type} (G : py S -> A -> py S) :
  (forall a, G None a = None) -> forall l, fold_left G l None = None.
Proof. intros HG. induction l as [| a t IH]; cbn [fold_left]; [reflexivity | rewrite HG; exact IH]. Qed.

Lemma fold_append_map {A B : Type} (f : A -> B) : forall l s,
  fold_left (fun s i => s ++ [f i]) l s = s ++ map f l.
Proof.
  induction l as [| a t IH]; intros s; cbn [fold_left map]; [rewrite app_nil_r; reflexivity|].
  rewrite IH, <- app_assoc. reflexivity.
Qed.

(* ====================================================================== *)
(* 1. class Stack                                                           *)
(* ====================================================================== *)
Theorem Stack_init_gen_eq : Stack_init_gen = Some [].
Proof. reflexivity. Qed.

Theorem Stack_push_n_values_gen_eq : forall vals l, Stack_push_n_values_gen vals l = Some (vals ++ l).
Proof. reflexivity. Qed.

(* pop_n_values: Python's list has the top at the end, the model's at the head; the popped values (deepest first) are
   the same list, the unknown bottom is padded on the deep side *)
Theorem Stack_pop_n_values_gen_eq : forall vals n,
  Stack_pop_n_values_gen vals n = Some (fst (pop_n (rev vals) n), rev (snd (pop_n (rev vals) n))).
Proof.
  intros vals n. unfold Stack_pop_n_values_gen, pop_n, ret. rewrite rev_length.
  destruct n as [| n'].
  - cbn [Nat.eqb Nat.leb firstn skipn rev fst snd]. rewrite rev_involutive. reflexivity.
  - cbn [Nat.eqb]. destruct (Nat.leb (S n') (length vals)) eqn:E; cbn [fst snd].
    + unfold slice_from_neg, slice_to_neg. rewrite firstn_rev, skipn_rev, !rev_involutive. reflexivity.
    + unfold py_range. rewrite map_const_seq, rev_involutive. reflexivity.
Qed.

(* pushing the out-values of an instruction is the model's push_outs *)
Lemma push_outs_rev : forall op pos args m vals,
  rev (vals ++ map (fun j => SKnown op pos args j) (seq 0 m)) = push_outs op pos args m (rev vals).
Proof. intros op pos args m vals. unfold push_outs. rewrite rev_app_distr. reflexivity. Qed.

(* transported: StackLemmas.pop_n_length, pop_n_Forall *)
Theorem Stack_pop_n_values_gen_length : forall vals n args vals',
  Stack_pop_n_values_gen vals n = Some (args, vals') -> length args = n.
Proof.
  intros vals n args vals' H. rewrite Stack_pop_n_values_gen_eq in H. injection H as Ha _.
  rewrite <- Ha. apply pop_n_length.
Qed.

Theorem Stack_pop_n_values_gen_Forall : forall (P : sval -> Prop) vals n args vals',
  P SUnknown -> Forall P vals ->
  Stack_pop_n_values_gen vals n = Some (args, vals') -> Forall P args /\ Forall P vals'.
Proof.
  intros P vals n args vals' HU HF H. rewrite Stack_pop_n_values_gen_eq in H. injection H as Ha Hv.
  destruct (pop_n_Forall P (rev vals) n HU (Forall_rev' P vals HF)) as [H1 H2].
  rewrite <- Ha, <- Hv. split; [exact H1 | apply Forall_rev'; exact H2].
Qed.

(* ====================================================================== *)
(* 2. construct_stack_ast                                                   *)
(* ====================================================================== *)
(* the model's entry (k, op, args) as the dictionary item ins -> KnownStackValue(ins, ins_in_values) *)
Definition entry_of (e : nat * instr * list sval) : nat * sval :=
  let '(k, op, args) := e in (k, SKnown op k args 0).
Definition store_entry (d : ast_dict) (e : nat * instr * list sval) : ast_dict :=
  dict_store d (fst (entry_of e)) (snd (entry_of e)).
Definition dict_of (r : list (nat * instr * list sval)) : ast_dict := fold_left store_entry r [].

(* one iteration of the loop of construct_stack_ast, in terms of the model's emulate_ins *)
Definition mstep (p : prog) (s : stackobj * ast_dict) (k : nat) : py (stackobj * ast_dict) :=
  match op_at p k with
  | None => None
  | Some op =>
      match emulate_ins op k (rev (fst s)) with
      | None => None
      | Some (args, st') => Some (rev st', dict_store (snd s) k (SKnown op k args 0))
      end
  end.

Section Walk.
  Variable p : prog.
  Variable G : py (stackobj * ast_dict) -> nat -> py (stackobj * ast_dict).
  Hypothesis G_some : forall s k, G (Some s) k = mstep p s k.
  Hypothesis G_none : forall k, G None k = None.

  Lemma walk_eq : forall poss s,
    option_map snd (fold_left G poss (Some s)) =
    option_map (fun r => fold_left store_entry r (snd s)) (emulate p poss (rev (fst s))).
  Proof.
    induction poss as [| k t IH]; intros s; cbn [fold_left emulate]; [reflexivity|].
    rewrite G_some. unfold mstep.
    destruct (op_at p k) as [op|]; [| rewrite (fold_left_none G G_none); reflexivity].
    destruct (emulate_ins op k (rev (fst s))) as [[args st']|]; [| rewrite (fold_left_none G G_none); reflexivity].
    rewrite IH. cbn [fst snd]. rewrite rev_involutive.
    destruct (emulate p t st') as [r|]; reflexivity.
  Qed.
End Walk.

Theorem construct_stack_ast_gen_eq : forall p bb,
  construct_stack_ast_gen p bb = option_map dict_of (construct_stack_ast p bb).
Proof.
  intros p bb. unfold construct_stack_ast_gen, construct_stack_ast, dict_of, bb_attr_instructions.
  rewrite Stack_init_gen_eq. cbn [bind]. unfold ret.
  match goal with |- context [fold_left ?F (b_ins bb) (Some ([], []))] => set (G := F) end.
  assert (G_none : forall k, G None k = None) by reflexivity.
  assert (G_some : forall s k, G (Some s) k = mstep p s k).
  { intros [vals d] k. unfold G, mstep, emulate_ins, ins_attr_stack_pop_size, ins_attr_stack_push_size.
    cbn [bind fst snd].
    destruct (op_at p k) as [op|] eqn:Hop; cbn [bind]; [| reflexivity].
    destruct (stack_pop_size op) as [n|]; cbn [bind]; [| reflexivity].
    rewrite Stack_pop_n_values_gen_eq. cbn [bind fst snd].
    destruct (pop_n (rev vals) n) as [a s'] eqn:Hp. cbn [fst snd].
    destruct (stack_push_size op) as [m|]; cbn [bind]; [| reflexivity].
    rewrite (fold_left_some _ (fun s i => s ++ [SKnown op k a i])).
    2:{ intros s i. cbn [bind]. unfold new_KnownStackValue. rewrite Hop. reflexivity. }
    rewrite fold_append_map. cbn [bind app].
    rewrite Stack_push_n_values_gen_eq. cbn [bind].
    unfold new_KnownStackValue. rewrite Hop. cbn [bind]. unfold ret.
    unfold push_outs, py_range. rewrite rev_app_distr, rev_involutive. reflexivity. }
  pose proof (walk_eq p G G_some G_none (b_ins bb) ([], [])) as HW. cbn [fst snd rev] in HW.
  rewrite <- HW.
  destruct (fold_left G (b_ins bb) (Some ([], []))) as [[vals d]|]; reflexivity.
Qed.

(* ---- the dictionary as a list: distinct positions *)
Lemma dict_store_fresh : forall d k v, ~ In k (map fst d) -> dict_store d k v = d ++ [(k, v)].
Proof.
  induction d as [| [k' w] t IH]; intros k v Hn; cbn [dict_store app]; [reflexivity|].
  cbn [map fst In] in Hn.
  destruct (Nat.eqb k' k) eqn:E.
  - apply Nat.eqb_eq in E. exfalso. apply Hn. left. exact E.
  - rewrite IH; [reflexivity|]. intros Hin. apply Hn. right. exact Hin.
Qed.

Lemma fst_entry_of : forall e, fst (entry_of e) = pos_of e.
Proof. intros [[k op] args]. reflexivity. Qed.

Lemma fold_store_nodup : forall r d,
  NoDup (map fst d ++ map pos_of r) -> fold_left store_entry r d = d ++ map entry_of r.
Proof.
  induction r as [| e t IH]; intros d Hnd; cbn [fold_left map]; [rewrite app_nil_r; reflexivity|].
  unfold store_entry at 2. rewrite dict_store_fresh.
  - rewrite IH.
    + rewrite <- app_assoc. rewrite <- surjective_pairing. reflexivity.
    + rewrite map_app. cbn [map]. rewrite fst_entry_of, <- app_assoc. exact Hnd.
  - rewrite fst_entry_of. cbn [map] in Hnd. apply NoDup_remove_2 in Hnd.
    intros Hin. apply Hnd. apply in_or_app. left. exact Hin.
Qed.

Lemma dict_of_nodup : forall r, NoDup (map pos_of r) -> dict_of r = map entry_of r.
Proof. intros r H. unfold dict_of. rewrite fold_store_nodup; [reflexivity | exact H]. Qed.

Theorem construct_stack_ast_gen_nodup : forall p bb,
  NoDup (b_ins bb) ->
  construct_stack_ast_gen p bb = option_map (map entry_of) (construct_stack_ast p bb).
Proof.
  intros p bb Hnd. rewrite construct_stack_ast_gen_eq. unfold construct_stack_ast.
  destruct (emulate p (b_ins bb) []) as [ast|] eqn:E; [| reflexivity].
  cbn [option_map]. rewrite dict_of_nodup; [reflexivity|].
  rewrite (emulate_positions p _ _ _ E). exact Hnd.
Qed.

(* every item of the generated dictionary is an entry of the model's list (no hypothesis on the positions) *)
Lemma dict_store_In : forall d k v x, In x (dict_store d k v) -> In x d \/ x = (k, v).
Proof.
  induction d as [| [k' w] t IH]; intros k v x H; cbn [dict_store] in H.
  - destruct H as [H | []]. right. symmetry. exact H.
  - destruct (Nat.eqb k' k) eqn:E.
    + apply Nat.eqb_eq in E. subst k'. destruct H as [H | H]; [right; symmetry; exact H | left; right; exact H].
    + destruct H as [H | H]; [left; left; exact H|].
      destruct (IH k v x H) as [H1 | H1]; [left; right; exact H1 | right; exact H1].
Qed.

Lemma fold_store_In : forall r d x, In x (fold_left store_entry r d) -> In x d \/ exists e, In e r /\ x = entry_of e.
Proof.
  induction r as [| e t IH]; intros d x H; cbn [fold_left] in H; [left; exact H|].
  destruct (IH _ _ H) as [H1 | (e' & He' & Hx)].
  - unfold store_entry in H1. destruct (dict_store_In _ _ _ _ H1) as [H2 | H2]; [left; exact H2|].
    right. exists e. split; [left; reflexivity|]. rewrite H2. symmetry. apply surjective_pairing.
  - right. exists e'. split; [right; exact He' | exact Hx].
Qed.

Theorem construct_stack_ast_gen_items : forall p bb d k v,
  construct_stack_ast_gen p bb = Some d -> In (k, v) d ->
  exists ast op args, construct_stack_ast p bb = Some ast /\ In (k, op, args) ast /\ v = SKnown op k args 0.
Proof.
  intros p bb d k v H Hin. rewrite construct_stack_ast_gen_eq in H.
  destruct (construct_stack_ast p bb) as [ast|]; [| discriminate]. injection H as Hd. subst d.
  destruct (fold_store_In _ _ _ Hin) as [[] | ([[k' op] args] & He & Hx)].
  cbn [entry_of] in Hx. injection Hx as Hk Hv. subst k' v.
  exists ast, op, args. split; [reflexivity | split; [exact He | reflexivity]].
Qed.

(* ---- transported: Props/C11.C11_operands and C11_args_length for the generated function *)
Theorem construct_stack_ast_gen_operands :
  forall (val : Type) (sem : instr -> nat -> list val -> list val),
  (forall op pos vs n m, stack_pop_size op = Some n -> stack_push_size op = Some m -> length vs = n ->
     length (sem op pos vs) = m) ->
  forall p bb cs d tr fin, NoDup (b_ins bb) ->
    construct_stack_ast_gen p bb = Some d ->
    crun_tr val sem p (b_ins bb) cs = Some (tr, fin) ->
    forall k v, In (k, v) d ->
      exists op args cargs,
        v = SKnown op k args 0 /\ op_at p k = Some op /\ stack_pop_size op = Some (length args) /\
        In (k, cargs) (consumed val tr) /\ Forall2 (den val tr) args cargs.
Proof.
  intros val sem Hsem p bb cs d tr fin Hnd H Hrun k v Hin.
  destruct (construct_stack_ast_gen_items p bb d k v H Hin) as (ast & op & args & Hast & He & Hv).
  unfold construct_stack_ast in Hast.
  destruct (emulate_sound val sem Hsem p (b_ins bb) cs ast tr fin Hnd Hast Hrun k op args He) as (cargs & Hc & HF).
  exists op, args, cargs. split; [exact Hv|]. split; [exact (emulate_ops p _ _ _ Hast k op args He)|].
  split; [exact (emulate_args_length p _ _ Hast k op args He)|]. split; [exact Hc | exact HF].
Qed.

(* ---- the lookup construct_stack_ast(bb)[ins].args against the model's args_of *)
(* d[k] : KeyError when absent *)
Fixpoint dict_get (d : ast_dict) (k : nat) : py sval :=
  match d with [] => None | (k', v) :: t => if Nat.eqb k' k then Some v else dict_get t k end.

Lemma dict_get_entries : forall ast k, bind (dict_get (map entry_of ast) k) attr_args = args_of ast k.
Proof.
  unfold args_of. induction ast as [| [[k' op] args] t IH]; intros k; cbn [map entry_of dict_get find]; [reflexivity|].
  destruct (Nat.eqb k' k); [reflexivity | apply IH].
Qed.

Theorem lookup_eq_nodup : forall p bb d ast k,
  NoDup (b_ins bb) ->
  construct_stack_ast_gen p bb = Some d -> construct_stack_ast p bb = Some ast ->
  bind (dict_get d k) attr_args = args_of ast k.
Proof.
  intros p bb d ast k Hnd H Hast. rewrite (construct_stack_ast_gen_nodup p bb Hnd), Hast in H.
  injection H as Hd. subst d. apply dict_get_entries.
Qed.

(* with a repeated position (never produced by the parser: an Instruction object belongs to one block, once) the
   dict keeps the last value stored under the key, List.find returns the first entry *)
Theorem lookup_eq_refuted : exists p bb d ast k,
  construct_stack_ast_gen p bb = Some d /\ construct_stack_ast p bb = Some ast /\
  bind (dict_get d k) attr_args <> args_of ast k.
Proof.
  exists [mkIns 0 INot], (mkBlock 0 [0; 0] [] []),
         [(0, SKnown INot 0 [SKnown INot 0 [SUnknown] 0] 0)],
         [(0, INot, [SUnknown]); (0, INot, [SKnown INot 0 [SUnknown] 0])], 0.
  split; [vm_compute; reflexivity|]. split; [vm_compute; reflexivity|]. vm_compute. discriminate.
Qed.

(* ====================================================================== *)
(* 3. _flatten_ast                                                          *)
(* ====================================================================== *)
Definition kleaves (k : nodeclass) (c : cond) : list cond :=
  match k with K_And => and_leaves_c c | K_Or => or_leaves_c c end.
Fixpoint and_depth (c : cond) : nat :=
  match c with CAnd a b => S (Nat.max (and_depth a) (and_depth b)) | _ => 1 end.
Fixpoint or_depth (c : cond) : nat :=
  match c with COr a b => S (Nat.max (or_depth a) (or_depth b)) | _ => 1 end.
(* the recursion depth of _flatten_ast *)
Definition kdepth (k : nodeclass) (c : cond) : nat :=
  match k with K_And => and_depth c | K_Or => or_depth c end.

(* the nodes of the `node_ins` spine have exactly two operands *)
Inductive spine_ok (k : nodeclass) : sval -> Prop :=
| spine_unknown : spine_ok k SUnknown
| spine_leaf : forall op pos args out, isinstance_node op k = false -> spine_ok k (SKnown op pos args out)
| spine_node : forall op pos a b out,
    isinstance_node op k = true -> spine_ok k a -> spine_ok k b -> spine_ok k (SKnown op pos [a; b] out).

Lemma kdepth_pos : forall k c, 1 <= kdepth k c.
Proof. intros k c. destruct k; destruct c; cbn [kdepth and_depth or_depth]; lia. Qed.

(* a value that is not a `node_ins` node is a leaf of the model's spine *)
Lemma kleaves_leaf : forall k op pos args out,
  isinstance_node op k = false ->
  kleaves k (cond_of (SKnown op pos args out)) = [cond_of (SKnown op pos args out)].
Proof.
  intros k op pos args out H.
  destruct k; destruct op; try discriminate H; try reflexivity;
    destruct args as [| a [| b [| c r]]]; reflexivity.
Qed.

Lemma node_cases : forall k op, isinstance_node op k = true -> (k = K_And /\ op = IAnd) \/ (k = K_Or /\ op = IOr).
Proof. intros k op H. destruct k; destruct op; try discriminate H; [left | right]; split; reflexivity. Qed.

Theorem flatten_ast_gen_eq : forall k fuel v,
  spine_ok k v -> kdepth k (cond_of v) <= fuel ->
  option_map (map cond_of) (flatten_ast_gen fuel v k) = Some (kleaves k (cond_of v)).
Proof.
  intros k. induction fuel as [| n IH]; intros v Hok Hd.
  { pose proof (kdepth_pos k (cond_of v)). lia. }
  inversion Hok as [| op pos args out Hleaf | op pos a b out Hnode Ha Hb]; subst.
  - destruct k; reflexivity.
  - cbn [flatten_ast_gen isinstance_UnknownStackValue attr_instruction bind ret notE option_map ifE].
    rewrite Hleaf. cbn [negb option_map map]. rewrite kleaves_leaf by exact Hleaf. reflexivity.
  - cbn [flatten_ast_gen isinstance_UnknownStackValue attr_instruction attr_args subscript nth_error bind ret notE option_map ifE].
    rewrite Hnode. cbn [negb].
    assert (Hda : kdepth k (cond_of a) <= n /\ kdepth k (cond_of b) <= n).
    { destruct (node_cases k op Hnode) as [[-> ->] | [-> ->]]; cbn [cond_of kdepth and_depth or_depth] in Hd |- *; lia. }
    destruct Hda as [Hda Hdb].
    pose proof (IH a Ha Hda) as Ea. pose proof (IH b Hb Hdb) as Eb.
    destruct (flatten_ast_gen n a k) as [la|]; [| discriminate Ea].
    destruct (flatten_ast_gen n b k) as [lb|]; [| discriminate Eb].
    cbn [option_map] in Ea, Eb. injection Ea as Ea. injection Eb as Eb.
    cbn [bind]. unfold ret. cbn [option_map]. rewrite map_app, Ea, Eb.
    destruct (node_cases k op Hnode) as [[-> ->] | [-> ->]]; reflexivity.
Qed.

(* without spine_ok the equation fails: an And value with three operands (never built by construct_stack_ast: the class
   table gives And two operands) is flattened by Python along args[0], args[1]; cond_of makes it a leaf *)
Theorem flatten_ast_gen_eq_refuted : exists k fuel v,
  kdepth k (cond_of v) <= fuel /\
  option_map (map cond_of) (flatten_ast_gen fuel v k) <> Some (kleaves k (cond_of v)).
Proof.
  exists K_And, 2, (SKnown IAnd 0 [SUnknown; SUnknown; SUnknown] 0).
  split; [cbn; lia | cbn; discriminate].
Qed.

(* transported: C11_flatten_and / C11_flatten_or (StackLemmas.and_leaves_c_no_and / or_leaves_c_no_or), for every input
   on which _flatten_ast returns *)
Lemma flatten_ast_gen_no_node : forall k fuel v l,
  flatten_ast_gen fuel v k = Some l ->
  forall x, In x l -> match x with SKnown op _ _ _ => isinstance_node op k = false | SUnknown => True end.
Proof.
  intros k. induction fuel as [| n IH]; intros v l H x Hin; [discriminate H|].
  destruct v as [| op pos args out].
  - cbn in H. injection H as Hl. subst l. destruct Hin as [<- | []]. exact I.
  - cbn [flatten_ast_gen isinstance_UnknownStackValue attr_instruction bind ret notE option_map ifE] in H.
    destruct (isinstance_node op k) eqn:E; cbn [negb] in H.
    + destruct (bind (attr_args (SKnown op pos args out)) (fun l0 => subscript l0 0)) as [a|]; [| discriminate H].
      cbn [bind] in H.
      destruct (bind (attr_args (SKnown op pos args out)) (fun l0 => subscript l0 1)) as [b|]; [| discriminate H].
      cbn [bind] in H.
      destruct (flatten_ast_gen n a k) as [la|] eqn:Ea; [| discriminate H]. cbn [bind] in H.
      destruct (flatten_ast_gen n b k) as [lb|] eqn:Eb; [| discriminate H]. cbn [bind] in H.
      injection H as Hl. subst l. apply in_app_or in Hin. destruct Hin as [Hin | Hin].
      * exact (IH a la Ea x Hin).
      * exact (IH b lb Eb x Hin).
    + injection H as Hl. subst l. destruct Hin as [<- | []]. exact E.
Qed.

Lemma cond_of_and_inv : forall x a b, cond_of x = CAnd a b -> exists pos args out, x = SKnown IAnd pos args out.
Proof.
  intros [| op pos args out] a b H; [discriminate H|].
  destruct op; try (cbn [cond_of] in H; discriminate H);
    try (destruct args as [| u [| v [| w r]]]; cbn [cond_of] in H; discriminate H).
  exists pos, args, out. reflexivity.
Qed.

Lemma cond_of_or_inv : forall x a b, cond_of x = COr a b -> exists pos args out, x = SKnown IOr pos args out.
Proof.
  intros [| op pos args out] a b H; [discriminate H|].
  destruct op; try (cbn [cond_of] in H; discriminate H);
    try (destruct args as [| u [| v [| w r]]]; cbn [cond_of] in H; discriminate H).
  exists pos, args, out. reflexivity.
Qed.

Theorem flatten_ast_gen_no_and : forall fuel v l x,
  flatten_ast_gen fuel v K_And = Some l -> In x l -> match cond_of x with CAnd _ _ => False | _ => True end.
Proof.
  intros fuel v l x H Hin. pose proof (flatten_ast_gen_no_node K_And fuel v l H x Hin) as Hx.
  destruct (cond_of x) eqn:E; try exact I.
  destruct (cond_of_and_inv x _ _ E) as (pos & args & out & ->). discriminate Hx.
Qed.

Theorem flatten_ast_gen_no_or : forall fuel v l x,
  flatten_ast_gen fuel v K_Or = Some l -> In x l -> match cond_of x with COr _ _ => False | _ => True end.
Proof.
  intros fuel v l x H Hin. pose proof (flatten_ast_gen_no_node K_Or fuel v l H x Hin) as Hx.
  destruct (cond_of x) eqn:E; try exact I.
  destruct (cond_of_or_inv x _ _ E) as (pos & args & out & ->). discriminate Hx.
Qed.

(* ---- every value built by the generated construct_stack_ast satisfies spine_ok (arity of the class table) *)
Lemma pop_size_and : stack_pop_size IAnd = Some 2. Proof. reflexivity. Qed.
Lemma pop_size_or : stack_pop_size IOr = Some 2. Proof. reflexivity. Qed.

Lemma arity_ok_spine : forall k v, arity_ok v -> spine_ok k v.
Proof.
  intros k. induction v as [| op pos args out IH] using sval_ind'; intros H; [constructor|].
  inversion H as [| op' pos' args' j HQ HF]; subst. unfold arityQ in HQ.
  destruct (isinstance_node op k) eqn:E; [| apply spine_leaf; exact E].
  assert (Hlen : length args = 2).
  { destruct (node_cases k op E) as [[_ ->] | [_ ->]].
    - rewrite pop_size_and in HQ. injection HQ as HQ. symmetry. exact HQ.
    - rewrite pop_size_or in HQ. injection HQ as HQ. symmetry. exact HQ. }
  destruct args as [| a [| b [| c r]]]; try discriminate Hlen.
  inversion IH as [| ? ? IHa IHr]; subst. inversion IHr as [| ? ? IHb _]; subst.
  inversion HF as [| ? ? HFa HFr]; subst. inversion HFr as [| ? ? HFb _]; subst.
  apply spine_node; [exact E | apply IHa; exact HFa | apply IHb; exact HFb].
Qed.

Theorem constructed_spine_ok : forall p bb d pos v k,
  construct_stack_ast_gen p bb = Some d -> In (pos, v) d -> spine_ok k v.
Proof.
  intros p bb d pos v k H Hin.
  destruct (construct_stack_ast_gen_items p bb d pos v H Hin) as (ast & op & args & Hast & He & ->).
  apply arity_ok_spine. unfold construct_stack_ast in Hast.
  destruct (emulate_arity_ok p (b_ins bb) ast Hast pos op args He) as [_ Hk]. apply Hk.
Qed.

(* (2) + (3): flattening a value reconstructed by the generated block walk is the model's flattening *)
Theorem flatten_constructed : forall p bb d pos v k fuel,
  construct_stack_ast_gen p bb = Some d -> In (pos, v) d -> kdepth k (cond_of v) <= fuel ->
  option_map (map cond_of) (flatten_ast_gen fuel v k) = Some (kleaves k (cond_of v)).
Proof.
  intros p bb d pos v k fuel H Hin Hd. apply flatten_ast_gen_eq; [| exact Hd].
  exact (constructed_spine_ok p bb d pos v k H Hin).
Qed.

(* ====================================================================== *)
(* 4. compute_equations                                                     *)
(* ====================================================================== *)
Notation isU := isinstance_UnknownStackValue.
Definition is_cunknown (c : cond) : bool := match c with CUnknown => true | _ => false end.

(* compute_equations in terms of _flatten_ast: the known values in order, and whether there is an unknown one *)
Lemma compute_equations_gen_flatten : forall fuel root k,
  compute_equations_gen fuel root k =
  bind (flatten_ast_gen fuel root k) (fun l => Some (filter (fun v => negb (isU v)) l, existsb isU l)).
Proof.
  intros fuel root k. unfold compute_equations_gen.
  destruct (flatten_ast_gen fuel root k) as [l|]; [| reflexivity]. cbn [bind]. unfold ret.
  match goal with |- context [fold_left ?f l (Some (false, []))] =>
    assert (HF : forall l0 h k0, fold_left f l0 (Some (h, k0)) =
                                 Some (orb h (existsb isU l0), k0 ++ filter (fun v => negb (isU v)) l0))
  end.
  { induction l0 as [| e t IHt]; intros h k0; cbn [fold_left existsb filter].
    - rewrite orb_false_r, app_nil_r. reflexivity.
    - cbn [bind fst snd]. destruct (isU e); cbn [negb].
      + rewrite IHt, orb_true_r. reflexivity.
      + rewrite IHt, <- app_assoc, orb_false_l. reflexivity. }
  rewrite HF. reflexivity.
Qed.

Lemma is_cunknown_cond_of : forall v, is_cunknown (cond_of v) = isU v.
Proof.
  intros [| op pos args out]; [reflexivity|].
  destruct op; try reflexivity; destruct args as [| a [| b [| c r]]]; reflexivity.
Qed.

Lemma map_filter_cond : forall l,
  map cond_of (filter (fun v => negb (isU v)) l) = filter (fun c => negb (is_cunknown c)) (map cond_of l).
Proof.
  induction l as [| v t IH]; cbn [filter map]; [reflexivity|].
  rewrite is_cunknown_cond_of. destruct (isU v); cbn [negb map]; rewrite IH; reflexivity.
Qed.

Lemma existsb_cond : forall l, existsb isU l = existsb is_cunknown (map cond_of l).
Proof.
  induction l as [| v t IH]; cbn [existsb map]; [reflexivity|]. rewrite is_cunknown_cond_of, IH. reflexivity.
Qed.

Theorem compute_equations_gen_eq_model : forall k fuel v,
  spine_ok k v -> kdepth k (cond_of v) <= fuel ->
  exists ks b, compute_equations_gen fuel v k = Some (ks, b) /\
    map cond_of ks = filter (fun c => negb (is_cunknown c)) (kleaves k (cond_of v)) /\
    b = existsb is_cunknown (kleaves k (cond_of v)).
Proof.
  intros k fuel v Hok Hd. pose proof (flatten_ast_gen_eq k fuel v Hok Hd) as HF.
  rewrite compute_equations_gen_flatten.
  destruct (flatten_ast_gen fuel v k) as [l|]; [| discriminate HF].
  cbn [option_map] in HF. injection HF as HF. cbn [bind].
  eexists _, _. split; [reflexivity|]. split.
  - rewrite map_filter_cond, HF. reflexivity.
  - rewrite existsb_cond, HF. reflexivity.
Qed.

(* transported (C11_flatten_and / _or through compute_equations), for every input: the equations are known values and
   none of them is a node of the flattened class *)
Theorem compute_equations_gen_known : forall k fuel v ks b,
  compute_equations_gen fuel v k = Some (ks, b) ->
  forall x, In x ks -> exists op pos args out, x = SKnown op pos args out /\ isinstance_node op k = false.
Proof.
  intros k fuel v ks b H x Hin. rewrite compute_equations_gen_flatten in H.
  destruct (flatten_ast_gen fuel v k) as [l|] eqn:E; [| discriminate H]. cbn [bind] in H.
  injection H as Hks _. subst ks. apply filter_In in Hin. destruct Hin as [Hin Hx].
  pose proof (flatten_ast_gen_no_node k fuel v l E x Hin) as Hn.
  destruct x as [| op pos args out]; [discriminate Hx|].
  exists op, pos, args, out. split; [reflexivity | exact Hn].
Qed.

Print Assumptions Stack_pop_n_values_gen_eq.
Print Assumptions Stack_pop_n_values_gen_length.
Print Assumptions Stack_pop_n_values_gen_Forall.
Print Assumptions construct_stack_ast_gen_eq.
Print Assumptions construct_stack_ast_gen_nodup.
Print Assumptions construct_stack_ast_gen_operands.
Print Assumptions lookup_eq_nodup.
Print Assumptions lookup_eq_refuted.
Print Assumptions flatten_ast_gen_eq.
Print Assumptions flatten_ast_gen_eq_refuted.
Print Assumptions flatten_ast_gen_no_and.
Print Assumptions flatten_ast_gen_no_or.
Print Assumptions flatten_constructed.
Print Assumptions compute_equations_gen_eq_model.
Print Assumptions compute_equations_gen_known.
