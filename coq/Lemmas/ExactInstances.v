(* Per-domain instances of the exactness theorems of Lemmas/ExactLemmas.v (restated generically in Props/C03.v).

   PART 1 (generic).  Lemmas/ExactLemmas.v phrases "x passes block b / takes the edge p -> b" with the VALUES the
   analyzer computed (okb: gamma of the block constraint, oke: gamma of the edge constraint).  Here the same two
   predicates are read off the PROGRAM: a literal reading [lit] of the comparison leaves is fixed
   (lit op pos args side: "the leaf may evaluate to [side]"), conditions are closed under && || ! (rsat, unknown
   operands are free), a block passes iff every assert / return condition of the block can be true and the
   block has no err / return 0 (blk_lit), an edge is taken iff the branch condition can have the value the
   branch needs (edge_lit).  Lit lit f b := Literal.LiveOut with these two predicates.  No abstract domain, no
   solver, no fuel appears in Lit.
     solve_lit_justified : x in the result at b  ->  Lit b      (needs only the "inverse" laws of gamma)
     solve_lit_exact     : x in the result at b <->  Lit b      (all laws, graph_wf f = true)
   D12 (the backward pass ignores edge constraints) is reflected exactly as in Spec/Literal.v: LiveOut only asks
   LiveOut of a successor, the edge predicate enters through ReachOut.

   PART 2 (C06) integer sets, PART 3 (C08) address sets, PART 4 (C09) fee bounds. *)
From Coq Require Import String List NArith ZArith Bool Arith Lia ZifyBool.
From Tealer Require Import Tables LeafPrelude Leaves Syntax Parse Cfg StackAst Keys Analysis Domains Detect.
From Tealer Require Import LeafLemmas AssertedLemmas StackLemmas SolverLemmas Instances Eval SingleLemmas.
From Tealer Require Import Runs RunLemmas Exec ExecLemmas CfgLemmas SubLemmas GraphWf Literal ExactLemmas.
Import ListNotations.
Open Scope list_scope.

(* ====================================================================== *)
(* PART 1a. the literal reading of conditions, blocks and edges (specification side) *)
(* ====================================================================== *)
Section LitSpec.
  (* lit op pos args side: the comparison leaf (op at pos applied to args) may evaluate to [side] *)
  Variable lit : instr -> nat -> list sval -> bool -> Prop.

  (* a condition tree may evaluate to b: unknown operands are free, && || ! are read as such *)
  Fixpoint rsat (c : cond) (b : bool) : Prop :=
    match c with
    | CUnknown => True
    | CLeaf op pos args => lit op pos args b
    | CNot a => rsat a (negb b)
    | CAnd a1 a2 => if b then rsat a1 true /\ rsat a2 true else rsat a1 false \/ rsat a2 false
    | COr a1 a2 => if b then rsat a1 true \/ rsat a2 true else rsat a1 false /\ rsat a2 false
    end.

  (* one instruction of a block lets the value through *)
  Definition entry_lit (intcs : option (list N)) (e : nat * instr * list sval) : Prop :=
    let '(pos, op, args) := e in
    match op with
    | IAssert =>
        match args with SUnknown :: _ => True | a :: _ => rsat (cond_of a) true | [] => True end
    | IReturn =>
        match args with
        | SUnknown :: _ => True
        | (SKnown aop _ _ _ as a) :: _ =>
            match is_int_push_ins intcs aop with IntNum 0 => False | _ => rsat (cond_of a) true end
        | [] => True
        end
    | IErr | ICustomErr => False
    | _ => True
    end.

  (* the block does not fail on the value: every assert / return condition can hold, no err, no return 0 *)
  Definition blk_lit (f : func) (blk : block) : Prop :=
    exists ast, emulate (fn_prog f) (b_ins blk) [] = Some ast /\ Forall (entry_lit (fn_intcs f)) ast.

  (* the condition attached to the edge pred -> succ and the truth value the edge needs:
     None = no such edge; Some None = unconditional; Some (Some (c, b)) = "c evaluates to b" *)
  Definition edge_cond (f : func) (pred : block) (succ : nat) : option (option (cond * bool)) :=
    match next_global f pred with
    | None => None
    | Some nx =>
        if negb (nat_mem succ nx) then None else
        match fexit_op f pred with
        | Some (IBZ _ as br) | Some (IBNZ _ as br) =>
            match emulate (fn_prog f) (b_ins pred) [] with
            | None => None
            | Some ast =>
                match args_of ast (List.last (b_ins pred) 0) with
                | Some (SUnknown :: _) | Some [] | None => Some None
                | Some (a :: _) =>
                    let is_bz := match br with IBZ _ => true | _ => false end in
                    match b_next pred with
                    | [j] =>
                        if branch_to_next (fn_prog f) br (List.last (b_ins pred) 0) then Some None
                        else if Nat.eqb succ j then Some (Some (cond_of a, negb is_bz)) else Some None
                    | d :: j :: _ =>
                        if Nat.eqb succ d then Some (Some (cond_of a, is_bz))
                        else if Nat.eqb succ j then Some (Some (cond_of a, negb is_bz))
                        else Some None
                    | [] => None
                    end
                end
            end
        | _ => Some None
        end
    end.

  Definition edge_lit (f : func) (pred : block) (succ : nat) : Prop :=
    match edge_cond f pred succ with
    | Some (Some (c, b)) => rsat c b
    | Some None => True
    | None => False
    end.

  Definition okb_lit (f : func) (b : nat) : Prop := exists blk, fblock f b = Some blk /\ blk_lit f blk.
  Definition oke_lit (f : func) (p b : nat) : Prop := exists pb, fblock f p = Some pb /\ edge_lit f pb b.

  (* "some accepting path through b allows the value", comparisons read by [lit] *)
  Definition Lit (f : func) (b : nat) : Prop := Literal.LiveOut f (okb_lit f) (oke_lit f) b.
  Definition LitReach (f : func) (b : nat) : Prop := Literal.ReachOut f (okb_lit f) (oke_lit f) b.

  Lemma Lit_okb f b : Lit f b -> okb_lit f b.
  Proof.
    intros H. assert (R : LitReach f b) by (destruct H; assumption).
    destruct R; assumption.
  Qed.
End LitSpec.

(* the predicates are monotone in the reading of the leaves of the program *)
Lemma ReachOut_mono f (okb1 okb2 : nat -> Prop) (oke1 oke2 : nat -> nat -> Prop) :
  (forall b, okb1 b -> okb2 b) -> (forall p b, oke1 p b -> oke2 p b) ->
  forall b, Literal.ReachOut f okb1 oke1 b -> Literal.ReachOut f okb2 oke2 b.
Proof.
  intros Hb He b H.
  induction H as [b blk Hfb Hok Hen Hc IHc | b blk ps p Hfb Hok Hps Hin Hp IHp Ho Hc IHc].
  - eapply RO_entry; eauto.
  - eapply RO_step; eauto.
Qed.

Lemma LiveOut_mono f (okb1 okb2 : nat -> Prop) (oke1 oke2 : nat -> nat -> Prop) :
  (forall b, okb1 b -> okb2 b) -> (forall p b, oke1 p b -> oke2 p b) ->
  forall b, Literal.LiveOut f okb1 oke1 b -> Literal.LiveOut f okb2 oke2 b.
Proof.
  intros Hb He b H.
  induction H as [b blk Hfb Hr Hl | b blk nx s Hfb Hr Hnx Hin Hs IHs Hret IHret].
  - eapply LO_leaf; eauto. eapply ReachOut_mono; eauto.
  - eapply LO_inner; eauto. eapply ReachOut_mono; eauto.
Qed.

Lemma rsat_ext (lit1 lit2 : instr -> nat -> list sval -> bool -> Prop) : forall c,
  (forall op pos args b, cond_leaf c op pos args -> lit1 op pos args b -> lit2 op pos args b) ->
  forall b, rsat lit1 c b -> rsat lit2 c b.
Proof.
  induction c as [|a1 IH1 a2 IH2|a1 IH1 a2 IH2|a IH|op pos args]; intros HL b H; cbn [rsat] in *.
  - exact I.
  - assert (H1 : forall b0, rsat lit1 a1 b0 -> rsat lit2 a1 b0)
      by (apply IH1; intros o k r z Hc; apply HL; left; exact Hc).
    assert (H2 : forall b0, rsat lit1 a2 b0 -> rsat lit2 a2 b0)
      by (apply IH2; intros o k r z Hc; apply HL; right; exact Hc).
    destruct b; [destruct H; split; auto | destruct H; [left|right]; auto].
  - assert (H1 : forall b0, rsat lit1 a1 b0 -> rsat lit2 a1 b0)
      by (apply IH1; intros o k r z Hc; apply HL; left; exact Hc).
    assert (H2 : forall b0, rsat lit1 a2 b0 -> rsat lit2 a2 b0)
      by (apply IH2; intros o k r z Hc; apply HL; right; exact Hc).
    destruct b; [destruct H; [left|right]; auto | destruct H; split; auto].
  - apply IH; [|exact H]. intros o k r z Hc. apply HL. exact Hc.
  - apply HL; [|exact H]. cbn [cond_leaf]. auto.
Qed.

(* the leaves of the condition of an edge are leaves of the source block *)
Lemma edge_cond_leaf f pred succ c b : edge_cond f pred succ = Some (Some (c, b)) ->
  forall op pos args, cond_leaf c op pos args -> block_leaf f pred op pos args.
Proof.
  unfold edge_cond. intros H op pos args Hl.
  destruct (next_global f pred) as [nx|]; [|discriminate].
  destruct (negb (nat_mem succ nx)); [discriminate|].
  destruct (fexit_op f pred) as [xop|] eqn:Ex; [|discriminate].
  destruct (fexit_op_inv _ _ _ Ex) as [_ Hop].
  assert (Main : forall (z tn : bool), is_check xop = true ->
    match emulate (fn_prog f) (b_ins pred) [] with
    | None => None
    | Some ast =>
        match args_of ast (List.last (b_ins pred) 0) with
        | Some (SUnknown :: _) | Some [] | None => Some None
        | Some (a :: _) =>
            match b_next pred with
            | [j] =>
                if tn then Some None
                else if Nat.eqb succ j then Some (Some (cond_of a, negb z)) else Some None
            | d :: j :: _ =>
                if Nat.eqb succ d then Some (Some (cond_of a, z))
                else if Nat.eqb succ j then Some (Some (cond_of a, negb z))
                else Some None
            | [] => None
            end
        end
    end = Some (Some (c, b)) -> block_leaf f pred op pos args).
  { intros z tn Hck H0.
    destruct (emulate (fn_prog f) (b_ins pred) []) as [ast|] eqn:Hast; [|discriminate].
    destruct (args_of ast (last (b_ins pred) 0)) as [[|a rest]|] eqn:Ea; try discriminate.
    destruct (args_of_In _ _ _ Ea) as (o & Hin).
    pose proof (emulate_ops (fn_prog f) _ _ _ Hast _ _ _ Hin) as Hop'. rewrite Hop in Hop'. inversion Hop'; subst o.
    assert (Hc : a <> SUnknown -> c = cond_of a).
    { intros Hne. destruct a as [|aop ap aa au]; [congruence|].
      destruct (b_next pred) as [|d [|j r]]; [discriminate| |].
      - destruct tn; try discriminate; destruct (Nat.eqb succ d); inversion H0; reflexivity.
      - destruct (Nat.eqb succ d); [inversion H0; reflexivity|].
        destruct (Nat.eqb succ j); inversion H0; reflexivity. }
    destruct a as [|aop ap aa au]; [discriminate|].
    rewrite (Hc ltac:(discriminate)) in Hl.
    exists ast, (last (b_ins pred) 0), xop, (SKnown aop ap aa au), rest. auto. }
  destruct xop; try discriminate; eapply Main; eauto.
Qed.

Lemma entry_lit_ext (lit1 lit2 : instr -> nat -> list sval -> bool -> Prop) intcs k o args :
  (forall a rest op pos ar b, args = a :: rest -> is_check o = true -> cond_leaf (cond_of a) op pos ar ->
     lit1 op pos ar b -> lit2 op pos ar b) ->
  entry_lit lit1 intcs (k, o, args) -> entry_lit lit2 intcs (k, o, args).
Proof.
  intros HL H. unfold entry_lit in *.
  destruct o; try exact H.
  - destruct args as [|a rest]; [exact H|]. destruct a as [|aop ap aa au]; [exact H|].
    eapply rsat_ext; [|exact H]. intros op pos ar b Hc. eapply HL; eauto.
  - destruct args as [|a rest]; [exact H|]. destruct a as [|aop ap aa au]; [exact H|].
    destruct (is_int_push_ins intcs aop) as [| |[|n]|]; try exact H;
      (eapply rsat_ext; [|exact H]; intros op pos ar b Hc; eapply HL; eauto).
Qed.

Lemma blk_lit_ext (lit1 lit2 : instr -> nat -> list sval -> bool -> Prop) f blk :
  (forall op pos args b, block_leaf f blk op pos args -> lit1 op pos args b -> lit2 op pos args b) ->
  blk_lit lit1 f blk -> blk_lit lit2 f blk.
Proof.
  intros HL (ast & Hast & HF). exists ast. split; [exact Hast|].
  rewrite Forall_forall in *. intros [[k o] args] Hin. specialize (HF _ Hin).
  eapply entry_lit_ext; [|exact HF].
  intros a rest op pos ar b -> Hck Hc. apply HL. exists ast, k, o, a, rest. auto.
Qed.

Lemma edge_lit_ext (lit1 lit2 : instr -> nat -> list sval -> bool -> Prop) f pred succ :
  (forall op pos args b, block_leaf f pred op pos args -> lit1 op pos args b -> lit2 op pos args b) ->
  edge_lit lit1 f pred succ -> edge_lit lit2 f pred succ.
Proof.
  intros HL. unfold edge_lit.
  destruct (edge_cond f pred succ) as [[[c b]|]|] eqn:E; auto.
  apply rsat_ext. intros op pos args b0 Hc. apply HL. eapply edge_cond_leaf; eauto.
Qed.

(* two readings that agree on the leaves of the program give the same paths *)
Theorem Lit_ext (lit1 lit2 : instr -> nat -> list sval -> bool -> Prop) f :
  (forall op pos args b, prog_leaf f op pos args -> lit1 op pos args b -> lit2 op pos args b) ->
  forall b, Lit lit1 f b -> Lit lit2 f b.
Proof.
  intros HL. apply LiveOut_mono.
  - intros b (blk & Hb & H). exists blk. split; [exact Hb|].
    eapply blk_lit_ext; [|exact H]. intros op pos args z Hl. apply HL. exists b, blk. auto.
  - intros p b (pb & Hp & H). exists pb. split; [exact Hp|].
    eapply edge_lit_ext; [|exact H]. intros op pos args z Hl. apply HL. exists p, pb. auto.
Qed.

(* ====================================================================== *)
(* PART 1b. _get_asserted against the literal reading, one direction at a time *)
(* ====================================================================== *)
Section LitDomain.
  Variable T : Type.
  Variable univ null : T.
  Variable union inter : T -> T -> T.
  Variable single : instr -> nat -> list sval -> T * T.
  Variable V : Type.
  Variable gamma : T -> V -> Prop.
  Variable x : V.
  Variable lit : instr -> nat -> list sval -> bool -> Prop.

  Notation ass := (asserted T univ null union inter single).
  Notation aparts := (and_parts T univ null union inter single).
  Notation oparts := (or_parts T univ null union inter single).
  Notation fin_and := (finish_and T univ null union inter).
  Notation fin_or := (finish_or T univ null union inter).
  Notation negc := (neg_case T univ).
  Notation rs := (rsat lit).

  Definition side_of (b : bool) (r : T * T) : T := if b then fst r else snd r.
  (* x is in the b-side of a (true set, false set) pair *)
  Definition gs (b : bool) (r : T * T) : Prop := gamma (side_of b r) x.
  Definition wk (b : bool) (o : option (T * T)) : Prop := match o with Some r => gs b r | None => True end.
  Definition sk (b : bool) (o : option (T * T)) : Prop := match o with Some r => gs b r | None => False end.
  Definition isN (o : option (T * T)) : bool := match o with None => true | Some _ => false end.

  Lemma sk_wk b l : Exists (sk b) l -> Exists (wk b) l.
  Proof. intros H. eapply Exists_impl; [|exact H]. intros [r|]; simpl; auto. Qed.
  Lemma wk_sk b l : existsb isN l = false -> Exists (wk b) l -> Exists (sk b) l.
  Proof.
    intros E H. apply Exists_exists in H. destruct H as (o & Hin & Ho).
    apply Exists_exists. exists o. split; [exact Hin|].
    destruct o as [r|]; [exact Ho|].
    assert (E' : existsb isN l = true) by (apply existsb_exists; exists None; auto). congruence.
  Qed.
  Lemma none_wk b l : existsb isN l = true -> Exists (wk b) l.
  Proof.
    intros E. apply existsb_exists in E. destruct E as (o & Hin & Ho).
    apply Exists_exists. exists o. split; [exact Hin|]. destruct o; [discriminate|exact I].
  Qed.

  Lemma gs_swap b r : gs b (swap T r) <-> gs (negb b) r.
  Proof. destruct b; unfold gs, side_of, swap; simpl; tauto. Qed.

  (* ---------------------------------------------------------------- justification: gamma -> reading *)
  Section J.
    Hypothesis Hnull : ~ gamma null x.
    Hypothesis Huinv : forall a b, gamma (union a b) x -> gamma a x \/ gamma b x.
    Hypothesis Hiinv : forall a b, gamma (inter a b) x -> gamma a x /\ gamma b x.

    Lemma it_inv l : forall acc,
      gamma (fold_left (fun acc o => match o with Some (t, _) => inter acc t | None => acc end) l acc) x ->
      gamma acc x /\ Forall (wk true) l.
    Proof.
      induction l as [|o l IH]; intros acc H; cbn [fold_left] in H; [split; [exact H|constructor]|].
      apply IH in H. destruct H as [H1 H2]. destruct o as [[t f0]|].
      - apply Hiinv in H1. destruct H1 as [Ha Ht]. split; [exact Ha|]. constructor; [exact Ht|exact H2].
      - split; [exact H1|]. constructor; [exact I|exact H2].
    Qed.
    Lemma if_inv l : forall acc,
      gamma (fold_left (fun acc o => match o with Some (_, f) => inter acc f | None => acc end) l acc) x ->
      gamma acc x /\ Forall (wk false) l.
    Proof.
      induction l as [|o l IH]; intros acc H; cbn [fold_left] in H; [split; [exact H|constructor]|].
      apply IH in H. destruct H as [H1 H2]. destruct o as [[t f0]|].
      - apply Hiinv in H1. destruct H1 as [Ha Ht]. split; [exact Ha|]. constructor; [exact Ht|exact H2].
      - split; [exact H1|]. constructor; [exact I|exact H2].
    Qed.
    Lemma ut_inv l : forall acc,
      gamma (fold_left (fun acc o => match o with Some (t, _) => union acc t | None => acc end) l acc) x ->
      gamma acc x \/ Exists (sk true) l.
    Proof.
      induction l as [|o l IH]; intros acc H; cbn [fold_left] in H; [left; exact H|].
      apply IH in H. destruct H as [H|H]; [|right; apply Exists_cons_tl; exact H].
      destruct o as [[t f0]|]; [|left; exact H].
      apply Huinv in H. destruct H as [H|H]; [left; exact H|right; apply Exists_cons_hd; exact H].
    Qed.
    Lemma uf_inv l : forall acc,
      gamma (fold_left (fun acc o => match o with Some (_, f) => union acc f | None => acc end) l acc) x ->
      gamma acc x \/ Exists (sk false) l.
    Proof.
      induction l as [|o l IH]; intros acc H; cbn [fold_left] in H; [left; exact H|].
      apply IH in H. destruct H as [H|H]; [|right; apply Exists_cons_tl; exact H].
      destruct o as [[t f0]|]; [|left; exact H].
      apply Huinv in H. destruct H as [H|H]; [left; exact H|right; apply Exists_cons_hd; exact H].
    Qed.

    Definition JX (r : T * T) (c : cond) : Prop := forall b, gs b r -> rs c b.
    Definition JA (l : list (option (T * T))) (c : cond) : Prop :=
      (Forall (wk true) l -> rs c true) /\ (Exists (wk false) l -> rs c false).
    Definition JO (l : list (option (T * T))) (c : cond) : Prop :=
      (Exists (wk true) l -> rs c true) /\ (Forall (wk false) l -> rs c false).

    Lemma J_fin_and l c : JA l c -> JX (fin_and l) c.
    Proof.
      intros [H1 H2] [|] H; unfold gs, side_of, finish_and in H; cbn [fst snd] in H.
      - apply H1. apply it_inv in H. apply H.
      - apply H2. fold isN in H. destruct (existsb isN l) eqn:E; [apply none_wk; exact E|].
        apply uf_inv in H. destruct H as [H|H]; [contradiction|apply sk_wk; exact H].
    Qed.
    Lemma J_fin_or l c : JO l c -> JX (fin_or l) c.
    Proof.
      intros [H1 H2] [|] H; unfold gs, side_of, finish_or in H; cbn [fst snd] in H.
      - apply H1. fold isN in H. destruct (existsb isN l) eqn:E; [apply none_wk; exact E|].
        apply ut_inv in H. destruct H as [H|H]; [contradiction|apply sk_wk; exact H].
      - apply H2. apply if_inv in H. apply H.
    Qed.
    Lemma JA_single r c : JX r c -> JA [Some r] c.
    Proof.
      intros H. split; intros H0.
      - apply H. inversion H0; assumption.
      - apply H. inversion H0 as [? ? H1|? ? H1]; [exact H1|inversion H1].
    Qed.
    Lemma JO_single r c : JX r c -> JO [Some r] c.
    Proof.
      intros H. split; intros H0.
      - apply H. inversion H0 as [? ? H1|? ? H1]; [exact H1|inversion H1].
      - apply H. inversion H0; assumption.
    Qed.
    Lemma JX_neg a r : JX r a -> JX (negc a r) (CNot a).
    Proof.
      intros H b Hg. cbn [rsat].
      destruct a; try (apply H; apply gs_swap; exact Hg). exact I.
    Qed.

    Lemma J_all : forall c,
      (forall op pos args b, cond_leaf c op pos args -> gs b (single op pos args) -> lit op pos args b) ->
      JX (ass c) c /\ JA (aparts c) c /\ JO (oparts c) c.
    Proof.
      induction c as [|a1 IH1 a2 IH2|a1 IH1 a2 IH2|a IH|op pos args]; intros HL.
      - split; [|split].
        + intros b _. exact I.
        + split; intros _; exact I.
        + split; intros _; exact I.
      - destruct IH1 as (X1 & A1 & O1); [intros o k r z Hc; apply HL; left; exact Hc|].
        destruct IH2 as (X2 & A2 & O2); [intros o k r z Hc; apply HL; right; exact Hc|].
        assert (A : JA (aparts (CAnd a1 a2)) (CAnd a1 a2)).
        { rewrite and_parts_char. destruct A1 as [A1t A1f], A2 as [A2t A2f]. split; intros H; cbn [rsat].
          - apply Forall_app in H. destruct H. split; auto.
          - apply Exists_app in H. destruct H; [left|right]; auto. }
        assert (X : JX (ass (CAnd a1 a2)) (CAnd a1 a2)) by (rewrite asserted_and; apply J_fin_and; exact A).
        split; [exact X|]. split; [exact A|]. rewrite or_parts_char. apply JO_single. exact X.
      - destruct IH1 as (X1 & A1 & O1); [intros o k r z Hc; apply HL; left; exact Hc|].
        destruct IH2 as (X2 & A2 & O2); [intros o k r z Hc; apply HL; right; exact Hc|].
        assert (O : JO (oparts (COr a1 a2)) (COr a1 a2)).
        { rewrite or_parts_char. destruct O1 as [O1t O1f], O2 as [O2t O2f]. split; intros H; cbn [rsat].
          - apply Exists_app in H. destruct H; [left|right]; auto.
          - apply Forall_app in H. destruct H. split; auto. }
        assert (X : JX (ass (COr a1 a2)) (COr a1 a2)) by (rewrite asserted_or; apply J_fin_or; exact O).
        split; [exact X|]. split; [|exact O]. rewrite and_parts_char. apply JA_single. exact X.
      - destruct IH as (X1 & _ & _); [intros o k r z Hc; apply HL; exact Hc|].
        assert (X : JX (ass (CNot a)) (CNot a)) by (rewrite asserted_not; apply JX_neg; exact X1).
        split; [exact X|]. split.
        + rewrite and_parts_char. apply JA_single. exact X.
        + rewrite or_parts_char. apply JO_single. exact X.
      - assert (X : JX (ass (CLeaf op pos args)) (CLeaf op pos args)).
        { intros b Hg. cbn [rsat]. apply HL; [cbn [cond_leaf]; auto|exact Hg]. }
        split; [exact X|]. split.
        + rewrite and_parts_char. apply JA_single. exact X.
        + rewrite or_parts_char. apply JO_single. exact X.
    Qed.

    Theorem asserted_justified c b :
      (forall op pos args z, cond_leaf c op pos args -> gs z (single op pos args) -> lit op pos args z) ->
      gs b (ass c) -> rs c b.
    Proof. intros HL. exact (proj1 (J_all c HL) b). Qed.
  End J.

  (* ---------------------------------------------------------------- passing: reading -> gamma *)
  Section S.
    Hypothesis Huniv : gamma univ x.
    Hypothesis Hul : forall a b, gamma a x -> gamma (union a b) x.
    Hypothesis Hur : forall a b, gamma b x -> gamma (union a b) x.
    Hypothesis Hint : forall a b, gamma a x -> gamma b x -> gamma (inter a b) x.

    Lemma it_adm l : forall acc, gamma acc x -> Forall (wk true) l ->
      gamma (fold_left (fun acc o => match o with Some (t, _) => inter acc t | None => acc end) l acc) x.
    Proof.
      induction l as [|o l IH]; intros acc Ha HF; cbn [fold_left]; [exact Ha|].
      inversion HF as [|? ? Ho HF']; subst. apply IH; [|exact HF'].
      destruct o as [[t f0]|]; [apply Hint; [exact Ha|exact Ho]|exact Ha].
    Qed.
    Lemma if_adm l : forall acc, gamma acc x -> Forall (wk false) l ->
      gamma (fold_left (fun acc o => match o with Some (_, f) => inter acc f | None => acc end) l acc) x.
    Proof.
      induction l as [|o l IH]; intros acc Ha HF; cbn [fold_left]; [exact Ha|].
      inversion HF as [|? ? Ho HF']; subst. apply IH; [|exact HF'].
      destruct o as [[t f0]|]; [apply Hint; [exact Ha|exact Ho]|exact Ha].
    Qed.
    Lemma ut_adm l : forall acc, gamma acc x \/ Exists (sk true) l ->
      gamma (fold_left (fun acc o => match o with Some (t, _) => union acc t | None => acc end) l acc) x.
    Proof.
      induction l as [|o l IH]; intros acc H; cbn [fold_left].
      - destruct H as [H|H]; [exact H|inversion H].
      - apply IH. destruct H as [H|H].
        + left. destruct o as [[t f0]|]; [apply Hul; exact H|exact H].
        + inversion H as [? ? Ho|? ? Ht]; subst; [|right; exact Ht].
          left. destruct o as [[t f0]|]; [apply Hur; exact Ho|contradiction].
    Qed.
    Lemma uf_adm l : forall acc, gamma acc x \/ Exists (sk false) l ->
      gamma (fold_left (fun acc o => match o with Some (_, f) => union acc f | None => acc end) l acc) x.
    Proof.
      induction l as [|o l IH]; intros acc H; cbn [fold_left].
      - destruct H as [H|H]; [exact H|inversion H].
      - apply IH. destruct H as [H|H].
        + left. destruct o as [[t f0]|]; [apply Hul; exact H|exact H].
        + inversion H as [? ? Ho|? ? Ht]; subst; [|right; exact Ht].
          left. destruct o as [[t f0]|]; [apply Hur; exact Ho|contradiction].
    Qed.

    Definition SX (r : T * T) (c : cond) : Prop := forall b, rs c b -> gs b r.
    Definition SA (l : list (option (T * T))) (c : cond) : Prop :=
      (rs c true -> Forall (wk true) l) /\ (rs c false -> Exists (wk false) l).
    Definition SO (l : list (option (T * T))) (c : cond) : Prop :=
      (rs c true -> Exists (wk true) l) /\ (rs c false -> Forall (wk false) l).

    Lemma S_fin_and l c : SA l c -> SX (fin_and l) c.
    Proof.
      intros [H1 H2] [|] H; unfold gs, side_of, finish_and; cbn [fst snd].
      - apply it_adm; [exact Huniv|apply H1; exact H].
      - fold isN. destruct (existsb isN l) eqn:E; [exact Huniv|].
        apply uf_adm. right. apply wk_sk; [exact E|apply H2; exact H].
    Qed.
    Lemma S_fin_or l c : SO l c -> SX (fin_or l) c.
    Proof.
      intros [H1 H2] [|] H; unfold gs, side_of, finish_or; cbn [fst snd].
      - fold isN. destruct (existsb isN l) eqn:E; [exact Huniv|].
        apply ut_adm. right. apply wk_sk; [exact E|apply H1; exact H].
      - apply if_adm; [exact Huniv|apply H2; exact H].
    Qed.
    Lemma SA_single r c : SX r c -> SA [Some r] c.
    Proof. intros H. split; intros H0; constructor; try constructor; apply H; exact H0. Qed.
    Lemma SO_single r c : SX r c -> SO [Some r] c.
    Proof. intros H. split; intros H0; constructor; try constructor; apply H; exact H0. Qed.
    Lemma SX_neg a r : SX r a -> SX (negc a r) (CNot a).
    Proof.
      intros H b Hr. cbn [rsat] in Hr.
      destruct a; try (apply gs_swap; apply H; exact Hr).
      unfold gs, side_of, neg_case. destruct b; exact Huniv.
    Qed.

    Lemma S_all : forall c,
      (forall op pos args b, cond_leaf c op pos args -> lit op pos args b -> gs b (single op pos args)) ->
      SX (ass c) c /\ SA (aparts c) c /\ SO (oparts c) c.
    Proof.
      induction c as [|a1 IH1 a2 IH2|a1 IH1 a2 IH2|a IH|op pos args]; intros HL.
      - split; [|split].
        + intros b _. unfold gs, side_of. destruct b; exact Huniv.
        + split; intros _; constructor; try constructor; exact I.
        + split; intros _; constructor; try constructor; exact I.
      - destruct IH1 as (X1 & A1 & O1); [intros o k r z Hc; apply HL; left; exact Hc|].
        destruct IH2 as (X2 & A2 & O2); [intros o k r z Hc; apply HL; right; exact Hc|].
        assert (A : SA (aparts (CAnd a1 a2)) (CAnd a1 a2)).
        { rewrite and_parts_char. destruct A1 as [A1t A1f], A2 as [A2t A2f]. split; intros H; cbn [rsat] in H.
          - destruct H. apply Forall_app. split; auto.
          - apply Exists_app. destruct H; [left|right]; auto. }
        assert (X : SX (ass (CAnd a1 a2)) (CAnd a1 a2)) by (rewrite asserted_and; apply S_fin_and; exact A).
        split; [exact X|]. split; [exact A|]. rewrite or_parts_char. apply SO_single. exact X.
      - destruct IH1 as (X1 & A1 & O1); [intros o k r z Hc; apply HL; left; exact Hc|].
        destruct IH2 as (X2 & A2 & O2); [intros o k r z Hc; apply HL; right; exact Hc|].
        assert (O : SO (oparts (COr a1 a2)) (COr a1 a2)).
        { rewrite or_parts_char. destruct O1 as [O1t O1f], O2 as [O2t O2f]. split; intros H; cbn [rsat] in H.
          - apply Exists_app. destruct H; [left|right]; auto.
          - destruct H. apply Forall_app. split; auto. }
        assert (X : SX (ass (COr a1 a2)) (COr a1 a2)) by (rewrite asserted_or; apply S_fin_or; exact O).
        split; [exact X|]. split; [|exact O]. rewrite and_parts_char. apply SA_single. exact X.
      - destruct IH as (X1 & _ & _); [intros o k r z Hc; apply HL; exact Hc|].
        assert (X : SX (ass (CNot a)) (CNot a)) by (rewrite asserted_not; apply SX_neg; exact X1).
        split; [exact X|]. split.
        + rewrite and_parts_char. apply SA_single. exact X.
        + rewrite or_parts_char. apply SO_single. exact X.
      - assert (X : SX (ass (CLeaf op pos args)) (CLeaf op pos args)).
        { intros b Hr. cbn [rsat] in Hr. apply HL; [cbn [cond_leaf]; auto|exact Hr]. }
        split; [exact X|]. split.
        + rewrite and_parts_char. apply SA_single. exact X.
        + rewrite or_parts_char. apply SO_single. exact X.
    Qed.

    Theorem asserted_passes c b :
      (forall op pos args z, cond_leaf c op pos args -> lit op pos args z -> gs z (single op pos args)) ->
      rs c b -> gs b (ass c).
    Proof. intros HL. exact (proj1 (S_all c HL) b). Qed.
  End S.

  (* ================================================================ blocks *)
  Variable f : func.
  Notation p := (fn_prog f).
  Notation bcst := (block_constraint T univ null union inter single f).
  Notation ecst := (edge_constraint T univ null union inter single f).

  (* one step of the fold in block_constraint *)
  Definition bstep (acc : T) (e : nat * instr * list sval) : T :=
    let '(pos, op, args) := e in
    match op with
    | IAssert =>
        match args with
        | SUnknown :: _ => acc
        | a :: _ => inter acc (fst (ass (cond_of a)))
        | [] => acc
        end
    | IReturn =>
        match args with
        | SUnknown :: _ => acc
        | (SKnown aop _ _ _ as a) :: _ =>
            match is_int_push_ins (fn_intcs f) aop with
            | IntNum 0 => null
            | _ => inter acc (fst (ass (cond_of a)))
            end
        | [] => acc
        end
    | IErr | ICustomErr => null
    | _ => acc
    end.

  Lemma block_constraint_fold blk :
    bcst blk = option_map (fun ast => fold_left bstep ast univ) (emulate p (b_ins blk) []).
  Proof.
    unfold block_constraint. destruct (emulate p (b_ins blk) []) as [ast|]; [|reflexivity].
    cbn [option_map]. reflexivity.
  Qed.

  Section BJ.
    Hypothesis Hnull : ~ gamma null x.
    Hypothesis Huinv : forall a b, gamma (union a b) x -> gamma a x \/ gamma b x.
    Hypothesis Hiinv : forall a b, gamma (inter a b) x -> gamma a x /\ gamma b x.

    Lemma bstep_justified acc k o args :
      (forall a rest op pos ar z, args = a :: rest -> is_check o = true -> cond_leaf (cond_of a) op pos ar ->
         gs z (single op pos ar) -> lit op pos ar z) ->
      gamma (bstep acc (k, o, args)) x -> gamma acc x /\ entry_lit lit (fn_intcs f) (k, o, args).
    Proof.
      intros HL H. unfold bstep in H. unfold entry_lit.
      assert (C : forall a rest, args = a :: rest -> is_check o = true ->
                  gamma (inter acc (fst (ass (cond_of a)))) x -> gamma acc x /\ rsat lit (cond_of a) true).
      { intros a rest E Hck Hg. apply Hiinv in Hg. destruct Hg as [Ha Hc]. split; [exact Ha|].
        apply (asserted_justified Hnull Huinv Hiinv (cond_of a) true); [|exact Hc].
        intros op pos ar z Hl. eapply HL; eauto. }
      destruct o; try (split; [exact H|exact I]); try contradiction.
      - destruct args as [|a rest]; [split; [exact H|exact I]|].
        destruct a as [|aop ap aa au]; [split; [exact H|exact I]|].
        eapply C; eauto.
      - destruct args as [|a rest]; [split; [exact H|exact I]|].
        destruct a as [|aop ap aa au]; [split; [exact H|exact I]|].
        destruct (is_int_push_ins (fn_intcs f) aop) as [| |[|n]|]; try contradiction; eapply C; eauto.
    Qed.

    Lemma bfold_justified ast0 : forall l acc, incl l ast0 ->
      (forall k o a rest op pos ar z, In (k, o, a :: rest) ast0 -> is_check o = true ->
         cond_leaf (cond_of a) op pos ar -> gs z (single op pos ar) -> lit op pos ar z) ->
      gamma (fold_left bstep l acc) x -> gamma acc x /\ Forall (entry_lit lit (fn_intcs f)) l.
    Proof.
      induction l as [|[[k o] args] l IH]; intros acc Hi HL H; cbn [fold_left] in H; [split; [exact H|constructor]|].
      apply IH in H; [|intros z Hz; apply Hi; right; exact Hz|exact HL].
      destruct H as [H1 H2]. apply bstep_justified in H1.
      - destruct H1 as [Ha He]. split; [exact Ha|]. constructor; [exact He|exact H2].
      - intros a rest op pos ar z -> Hck Hl. apply (HL k o a rest); auto. apply Hi. left. reflexivity.
    Qed.

    Theorem block_constraint_justified blk c :
      (forall op pos args z, block_leaf f blk op pos args -> gs z (single op pos args) -> lit op pos args z) ->
      bcst blk = Some c -> gamma c x -> blk_lit lit f blk.
    Proof.
      intros HL Hc Hg. rewrite block_constraint_fold in Hc.
      destruct (emulate p (b_ins blk) []) as [ast|] eqn:Hast; [|discriminate].
      cbn [option_map] in Hc. inversion Hc; subst c; clear Hc.
      exists ast. split; [exact Hast|].
      apply (bfold_justified ast ast univ (incl_refl _)); [|exact Hg].
      intros k o a rest op pos ar z Hin Hck Hl. apply HL. exists ast, k, o, a, rest. auto.
    Qed.
  End BJ.

  Section BS.
    Hypothesis Huniv : gamma univ x.
    Hypothesis Hul : forall a b, gamma a x -> gamma (union a b) x.
    Hypothesis Hur : forall a b, gamma b x -> gamma (union a b) x.
    Hypothesis Hint : forall a b, gamma a x -> gamma b x -> gamma (inter a b) x.

    Lemma bstep_passes acc k o args :
      (forall a rest op pos ar z, args = a :: rest -> is_check o = true -> cond_leaf (cond_of a) op pos ar ->
         lit op pos ar z -> gs z (single op pos ar)) ->
      gamma acc x -> entry_lit lit (fn_intcs f) (k, o, args) -> gamma (bstep acc (k, o, args)) x.
    Proof.
      intros HL Ha H. unfold entry_lit in H. unfold bstep.
      assert (C : forall a rest, args = a :: rest -> is_check o = true ->
                  rsat lit (cond_of a) true -> gamma (inter acc (fst (ass (cond_of a)))) x).
      { intros a rest E Hck Hr. apply Hint; [exact Ha|].
        apply (asserted_passes Huniv Hul Hur Hint (cond_of a) true); [|exact Hr].
        intros op pos ar z Hl. eapply HL; eauto. }
      destruct o; try exact Ha; try contradiction.
      - destruct args as [|a rest]; [exact Ha|]. destruct a as [|aop ap aa au]; [exact Ha|].
        eapply C; eauto.
      - destruct args as [|a rest]; [exact Ha|]. destruct a as [|aop ap aa au]; [exact Ha|].
        destruct (is_int_push_ins (fn_intcs f) aop) as [| |[|n]|]; try contradiction; eapply C; eauto.
    Qed.

    Lemma bfold_passes ast0 : forall l acc, incl l ast0 ->
      (forall k o a rest op pos ar z, In (k, o, a :: rest) ast0 -> is_check o = true ->
         cond_leaf (cond_of a) op pos ar -> lit op pos ar z -> gs z (single op pos ar)) ->
      gamma acc x -> Forall (entry_lit lit (fn_intcs f)) l -> gamma (fold_left bstep l acc) x.
    Proof.
      induction l as [|[[k o] args] l IH]; intros acc Hi HL Ha HF; cbn [fold_left]; [exact Ha|].
      inversion HF as [|? ? He HF']; subst.
      apply IH; [intros z Hz; apply Hi; right; exact Hz|exact HL| |exact HF'].
      apply bstep_passes; [|exact Ha|exact He].
      intros a rest op pos ar z -> Hck Hl. apply (HL k o a rest); auto. apply Hi. left. reflexivity.
    Qed.

    Theorem block_constraint_passes blk c :
      (forall op pos args z, block_leaf f blk op pos args -> lit op pos args z -> gs z (single op pos args)) ->
      bcst blk = Some c -> blk_lit lit f blk -> gamma c x.
    Proof.
      intros HL Hc (ast & Hast & HF). rewrite block_constraint_fold, Hast in Hc.
      cbn [option_map] in Hc. inversion Hc; subst c; clear Hc.
      apply (bfold_passes ast ast univ (incl_refl _)); [|exact Huniv|exact HF].
      intros k o a rest op pos ar z Hin Hck Hl. apply HL. exists ast, k, o, a, rest. auto.
    Qed.
  End BS.

  (* ================================================================ edges *)
  Lemma edge_constraint_cond pred succ :
    ecst pred succ =
    option_map (fun o => match o with None => univ | Some (c, b) => side_of b (ass c) end) (edge_cond f pred succ).
  Proof.
    unfold edge_constraint, edge_cond.
    destruct (next_global f pred) as [nx|]; [|reflexivity].
    destruct (negb (nat_mem succ nx)); [reflexivity|].
    assert (Main : forall z tn : bool,
      match emulate p (b_ins pred) [] with
      | None => None
      | Some ast =>
          match args_of ast (List.last (b_ins pred) 0) with
          | Some (SUnknown :: _) | Some [] | None => Some univ
          | Some (a :: _) =>
              let '(tv, fv) := ass (cond_of a) in
              match b_next pred with
              | [j] =>
                  if tn then Some univ
                  else if Nat.eqb succ j then Some (if z then fv else tv) else Some univ
              | d :: j :: _ =>
                  if Nat.eqb succ d then Some (if z then tv else fv)
                  else if Nat.eqb succ j then Some (if z then fv else tv)
                  else Some univ
              | [] => None
              end
          end
      end =
      option_map (fun o => match o with None => univ | Some (c, b) => side_of b (ass c) end)
        match emulate p (b_ins pred) [] with
        | None => None
        | Some ast =>
            match args_of ast (List.last (b_ins pred) 0) with
            | Some (SUnknown :: _) | Some [] | None => Some None
            | Some (a :: _) =>
                match b_next pred with
                | [j] =>
                    if tn then Some None
                    else if Nat.eqb succ j then Some (Some (cond_of a, negb z)) else Some None
                | d :: j :: _ =>
                    if Nat.eqb succ d then Some (Some (cond_of a, z))
                    else if Nat.eqb succ j then Some (Some (cond_of a, negb z))
                    else Some None
                | [] => None
                end
            end
        end).
    { intros z tn. destruct (emulate p (b_ins pred) []) as [ast|]; [|reflexivity].
      destruct (args_of ast (last (b_ins pred) 0)) as [[|a rest]|]; try reflexivity.
      destruct a as [|aop ap aa au]; [reflexivity|].
      set (c0 := cond_of (SKnown aop ap aa au)).
      destruct (ass c0) as [tv fv] eqn:Ea.
      assert (Et : side_of true (ass c0) = tv) by (rewrite Ea; reflexivity).
      assert (Ef : side_of false (ass c0) = fv) by (rewrite Ea; reflexivity).
      destruct (b_next pred) as [|d [|j r]]; [reflexivity| |].
      - destruct tn;
          try reflexivity; destruct (Nat.eqb succ d); destruct z; cbn [option_map negb]; rewrite ?Et, ?Ef; reflexivity.
      - destruct (Nat.eqb succ d); [destruct z; cbn [option_map negb]; rewrite ?Et, ?Ef; reflexivity|].
        destruct (Nat.eqb succ j); destruct z; cbn [option_map negb]; rewrite ?Et, ?Ef; reflexivity. }
    destruct (fexit_op f pred) as [xop|]; [|reflexivity].
    destruct xop; try reflexivity; first [exact (Main true _) | exact (Main false _)].
  Qed.

  Theorem edge_constraint_justified pred succ c :
    ~ gamma null x ->
    (forall a b, gamma (union a b) x -> gamma a x \/ gamma b x) ->
    (forall a b, gamma (inter a b) x -> gamma a x /\ gamma b x) ->
    (forall op pos args z, block_leaf f pred op pos args -> gs z (single op pos args) -> lit op pos args z) ->
    ecst pred succ = Some c -> gamma c x -> edge_lit lit f pred succ.
  Proof.
    intros Hnull Huinv Hiinv HL Hc Hg. rewrite edge_constraint_cond in Hc. unfold edge_lit.
    destruct (edge_cond f pred succ) as [[[c0 b]|]|] eqn:E; [| exact I | discriminate].
    cbn [option_map] in Hc. inversion Hc; subst c; clear Hc.
    apply (asserted_justified Hnull Huinv Hiinv c0 b); [|exact Hg].
    intros op pos args z Hl. apply HL. eapply edge_cond_leaf; eauto.
  Qed.

  Theorem edge_constraint_passes pred succ :
    gamma univ x ->
    (forall a b, gamma a x -> gamma (union a b) x) -> (forall a b, gamma b x -> gamma (union a b) x) ->
    (forall a b, gamma a x -> gamma b x -> gamma (inter a b) x) ->
    (forall op pos args z, block_leaf f pred op pos args -> lit op pos args z -> gs z (single op pos args)) ->
    edge_lit lit f pred succ -> exists c, ecst pred succ = Some c /\ gamma c x.
  Proof.
    intros Huniv Hul Hur Hint HL H. rewrite edge_constraint_cond. unfold edge_lit in H.
    destruct (edge_cond f pred succ) as [[[c0 b]|]|] eqn:E; [| |contradiction].
    - eexists. split; [reflexivity|].
      apply (asserted_passes Huniv Hul Hur Hint c0 b); [|exact H].
      intros op pos args z Hl. apply HL. eapply edge_cond_leaf; eauto.
    - eexists. split; [reflexivity|exact Huniv].
  Qed.
End LitDomain.

(* ====================================================================== *)
(* PART 1c. the solver's result against the literal reading               *)
(* ====================================================================== *)
(* every entry of the init_constraints table is the constraint of a block of the function *)
Lemma init_lookup_inv T univ null union inter single f bc b c :
  init_constraints T univ null union inter single f = Some bc -> Analysis.lookup T bc b = Some c ->
  exists blk, fblock f b = Some blk /\ block_constraint T univ null union inter single f blk = Some c.
Proof.
  unfold init_constraints, fblock. destruct (forallb _ (fn_blocks f)); [|discriminate].
  unfold all_some. generalize (fn_blocks f) bc. clear bc.
  induction l as [|a l IH]; intros bc H Hl.
  - cbn in H. inversion H; subst bc. discriminate.
  - cbn [map map_opt] in H.
    destruct (block_constraint T univ null union inter single f a) as [ca|] eqn:Ea; [|discriminate].
    cbn [option_map] in H.
    destruct (map_opt (fun x => x) (map _ l)) as [r|] eqn:Er; [|discriminate].
    inversion H; subst bc. cbn [Analysis.lookup] in Hl. cbn [find].
    destruct (Nat.eqb (b_idx a) b).
    + inversion Hl; subst. eauto.
    + apply (IH r); auto.
Qed.

Section LitSolve.
  Variable T : Type.
  Variable t_eqb : T -> T -> bool.
  Variable univ null : T.
  Variable union inter : T -> T -> T.
  Variable single : instr -> nat -> list sval -> T * T.
  Variable V : Type.
  Variable gamma : T -> V -> Prop.
  Variable x : V.
  Variable lit : instr -> nat -> list sval -> bool -> Prop.
  Variable f : func.
  Variable bc : list (nat * T).
  Hypothesis Hinit : init_constraints T univ null union inter single f = Some bc.

  Notation okbv := (ExactLemmas.okb T V gamma x bc).
  Notation okev := (ExactLemmas.oke T univ null union inter single f V gamma x).
  Notation gsx := (gs T V gamma x).

  Section SJ.
    Hypothesis Hnull : ~ gamma null x.
    Hypothesis Huinv : forall a b, gamma (union a b) x -> gamma a x \/ gamma b x.
    Hypothesis Hiinv : forall a b, gamma (inter a b) x -> gamma a x /\ gamma b x.
    (* whenever the domain's leaf function lets x through a side of a leaf of the program, so does the reading *)
    Hypothesis HleafJ : forall op pos args z, prog_leaf f op pos args -> gsx z (single op pos args) -> lit op pos args z.

    Lemma okb_justified b : okbv b -> okb_lit lit f b.
    Proof.
      intros (c & Hl & Hg). destruct (init_lookup_inv _ _ _ _ _ _ _ _ _ _ Hinit Hl) as (blk & Hb & Hc).
      exists blk. split; [exact Hb|].
      apply (block_constraint_justified T univ null union inter single V gamma x lit f Hnull Huinv Hiinv blk c);
        [|exact Hc|exact Hg].
      intros op pos args z Hbl. apply HleafJ. exists b, blk. auto.
    Qed.

    Lemma oke_justified p b : okev p b -> oke_lit lit f p b.
    Proof.
      intros (pb & c & Hp & Hc & Hg). exists pb. split; [exact Hp|].
      apply (edge_constraint_justified T univ null union inter single V gamma x lit f pb b c Hnull Huinv Hiinv);
        [|exact Hc|exact Hg].
      intros op pos args z Hbl. apply HleafJ. exists p, pb. auto.
    Qed.

    (* every value in the result is allowed by a literal accepting path through the block *)
    Theorem solve_lit_justified fuel lo :
      solve T t_eqb univ null union inter single f fuel bc = Done lo ->
      forall b v, Analysis.lookup T lo b = Some v -> gamma v x -> Lit lit f b.
    Proof.
      intros Hs b v Hv Hg.
      apply (LiveOut_mono f okbv (okb_lit lit f) okev (oke_lit lit f) okb_justified oke_justified).
      exact (solve_exact T t_eqb univ null union inter single f V gamma x Hnull Huinv Hiinv bc fuel lo Hs b v Hv Hg).
    Qed.

  End SJ.

  Section SS.
    Hypothesis Huniv : gamma univ x.
    Hypothesis Hul : forall a b, gamma a x -> gamma (union a b) x.
    Hypothesis Hur : forall a b, gamma b x -> gamma (union a b) x.
    Hypothesis Hint : forall a b, gamma a x -> gamma b x -> gamma (inter a b) x.
    Hypothesis Heqb : forall a b, t_eqb a b = true -> (gamma a x <-> gamma b x).
    Hypothesis Hrefl : forall a, t_eqb a a = true.
    (* whenever the reading lets x through a side of a leaf of the program, so does the domain's leaf function *)
    Hypothesis HleafS : forall op pos args z, prog_leaf f op pos args -> lit op pos args z -> gsx z (single op pos args).
    Hypothesis Hwf : graph_wf f = true.

    Lemma okb_passes b : okb_lit lit f b -> okbv b.
    Proof.
      intros (blk & Hb & H). destruct (init_lookup _ _ _ _ _ _ _ _ _ _ Hinit Hb) as (c & Hl & Hc).
      exists c. split; [exact Hl|].
      apply (block_constraint_passes T univ null union inter single V gamma x lit f Huniv Hul Hur Hint blk c);
        [|exact Hc|exact H].
      intros op pos args z Hbl. apply HleafS. exists b, blk. auto.
    Qed.

    Lemma oke_passes p b : oke_lit lit f p b -> okev p b.
    Proof.
      intros (pb & Hp & H).
      destruct (edge_constraint_passes T univ null union inter single V gamma x lit f pb b Huniv Hul Hur Hint) as (c & Hc & Hg);
        [|exact H|].
      - intros op pos args z Hbl. apply HleafS. exists p, pb. auto.
      - exists pb, c. auto.
    Qed.

    (* the converse half of ExactLemmas.solve_exact_iff needs the direct laws only *)
    Lemma solve_contains fuel lo :
      solve T t_eqb univ null union inter single f fuel bc = Done lo ->
      forall b, Literal.LiveOut f okbv okev b -> exists v, Analysis.lookup T lo b = Some v /\ gamma v x.
    Proof.
      intros Hs. destruct (graph_wf_sound f Hwf) as (C1 & C2 & C3 & C4 & W1 & W2 & _ & _).
      apply solve_passes in Hs. destruct Hs as (ro & Hfw & Hbw).
      apply (bwd_contains T t_eqb univ null union inter single f V gamma x bc Hul Hur Hint Heqb ro lo).
      - apply (fwd_contains T t_eqb univ null union inter single f V gamma x bc Huniv Hul Hur Hint Heqb ro).
        exact (forward_fixpoint_initial T t_eqb univ null union inter single f (Analysis.lookup T bc) Hrefl
                 C1 C2 fuel _ _ ro W1 Hfw).
      - exact (backward_fixpoint_initial T t_eqb null union inter f (Analysis.lookup T ro) Hrefl
                 C3 C4 fuel _ _ lo W2 Hbw).
      - intros b0 blk v Hb Hl Hv.
        rewrite (backward_leaf_unchanged T t_eqb null union inter f (Analysis.lookup T ro) fuel
                   (backward_worklist f) (SolverLemmas.bwd_st0 T null f ro) lo b0).
        + unfold SolverLemmas.bwd_st0. rewrite lookup_map_blocks, Hb. simpl.
          rewrite Hl, (fblock_idx _ _ _ Hb), Hv. reflexivity.
        + intros xb Hxb. rewrite Hb in Hxb. inversion Hxb; subst xb. exact Hl.
        + exact Hbw.
    Qed.

    (* every value allowed by a literal accepting path through the block is in the result *)
    Theorem solve_lit_contains fuel lo :
      solve T t_eqb univ null union inter single f fuel bc = Done lo ->
      forall b, Lit lit f b -> exists v, Analysis.lookup T lo b = Some v /\ gamma v x.
    Proof.
      intros Hs b H. apply (solve_contains fuel lo Hs b).
      exact (LiveOut_mono f (okb_lit lit f) okbv (oke_lit lit f) okev okb_passes oke_passes b H).
    Qed.
  End SS.
End LitSolve.

(* the result holds x at b  iff  some literal accepting path through b allows x *)
Theorem solve_lit_exact T t_eqb univ null union inter single V (gamma : T -> V -> Prop) x
        (lit : instr -> nat -> list sval -> bool -> Prop) f bc :
  init_constraints T univ null union inter single f = Some bc ->
  ~ gamma null x ->
  (forall a b, gamma (union a b) x -> gamma a x \/ gamma b x) ->
  (forall a b, gamma (inter a b) x -> gamma a x /\ gamma b x) ->
  (forall op pos args z, prog_leaf f op pos args -> gs T V gamma x z (single op pos args) -> lit op pos args z) ->
  gamma univ x ->
  (forall a b, gamma a x -> gamma (union a b) x) -> (forall a b, gamma b x -> gamma (union a b) x) ->
  (forall a b, gamma a x -> gamma b x -> gamma (inter a b) x) ->
  (forall a b, t_eqb a b = true -> (gamma a x <-> gamma b x)) -> (forall a, t_eqb a a = true) ->
  (forall op pos args z, prog_leaf f op pos args -> lit op pos args z -> gs T V gamma x z (single op pos args)) ->
  graph_wf f = true ->
  forall fuel lo, solve T t_eqb univ null union inter single f fuel bc = Done lo ->
  forall b, (exists v, Analysis.lookup T lo b = Some v /\ gamma v x) <-> Lit lit f b.
Proof.
  intros Hinit Hnull Huinv Hiinv HJ Huniv Hul Hur Hint Heqb Hrefl HS Hwf fuel lo Hs b. split.
  - intros (v & Hv & Hg).
    exact (solve_lit_justified T t_eqb univ null union inter single V gamma x lit f bc Hinit Hnull Huinv Hiinv HJ
             fuel lo Hs b v Hv Hg).
  - exact (solve_lit_contains T t_eqb univ null union inter single V gamma x lit f bc Hinit Huniv Hul Hur Hint
             Heqb Hrefl HS Hwf fuel lo Hs b).
Qed.

(* ====================================================================== *)
(* PART 2. C06: GroupSize (sz = true) / GroupIndex (sz = false) sets      *)
(* ====================================================================== *)
(* concretisation: membership *)
Definition zin (s : list Z) (x : Z) : Prop := In x s.

Lemma zin_null x : ~ zin [] x. Proof. intros H; exact H. Qed.
Lemma zin_union_inv x a b : zin (zunion a b) x -> zin a x \/ zin b x.
Proof. unfold zin. intros H. apply zunion_In in H. exact H. Qed.
Lemma zin_inter_inv x a b : zin (zinter a b) x -> zin a x /\ zin b x.
Proof. unfold zin. intros H. apply zinter_In in H. exact H. Qed.
Lemma zin_union_l x a b : zin a x -> zin (zunion a b) x.
Proof. unfold zin. intros H. apply zunion_In. auto. Qed.
Lemma zin_union_r x a b : zin b x -> zin (zunion a b) x.
Proof. unfold zin. intros H. apply zunion_In. auto. Qed.
Lemma zin_inter x a b : zin a x -> zin b x -> zin (zinter a b) x.
Proof. unfold zin. intros H1 H2. apply zinter_In. auto. Qed.
Lemma zin_eqb x a b : zset_eqb a b = true -> (zin a x <-> zin b x).
Proof. intros H. exact (proj1 (zset_eqb_spec a b) H x). Qed.

(* THE LITERAL READING of a leaf for the value x of the field: a comparison of the field against a constant
   known to the tool is read exactly -- either operand order, all six operators -- every other leaf is free *)
Definition int_lit (sz : bool) (intcs : option (list N)) (x : Z)
           (op : instr) (pos : nat) (args : list sval) (side : bool) : Prop :=
  let c := cmp_of op in
  match c with
  | COther => True
  | _ =>
      match args with
      | [SKnown o1 _ _ _; SKnown o2 _ _ _] =>
          if int_isf sz o1 then
            match is_int_push_ins intcs o2 with IntNum n => cmp_holds c x (Z.of_N n) = side | _ => True end
          else if int_isf sz o2 then
            match is_int_push_ins intcs o1 with IntNum n => cmp_holds c (Z.of_N n) x = side | _ => True end
          else True
      | _ => True
      end
  end.

(* the tool's reading: "field c constant" whatever the operand order (known finding D2) *)
Definition int_lit_tool (sz : bool) (intcs : option (list N)) (x : Z)
           (op : instr) (pos : nat) (args : list sval) (side : bool) : Prop :=
  match int_det_all sz intcs op pos args with Some g => g x = side | None => True end.

Lemma match_not_other (A : Type) (c : cmpop) (a b : A) : c <> COther ->
  match c with COther => a | _ => b end = b.
Proof. destruct c; congruence. Qed.

Lemma int_det_all_other sz intcs op pos args : cmp_of op = COther -> int_det_all sz intcs op pos args = None.
Proof. unfold int_det_all. intros ->. reflexivity. Qed.
Lemma int_det_all_eq sz intcs op pos args : cmp_of op <> COther ->
  int_det_all sz intcs op pos args =
  match int_cv sz intcs args with
  | Some n => Some (fun x => cmp_holds (cmp_of op) x (Z.of_N n))
  | None => None
  end.
Proof. unfold int_det_all. intros H. destruct (cmp_of op); congruence || reflexivity. Qed.

(* the two readings agree on every leaf that is not of the D2 shape  <constant> <,<=,>,>= <field> *)
Lemma int_lit_agree sz intcs x op pos args side :
  mirrored_ordered sz intcs op args = false ->
  (int_lit sz intcs x op pos args side <-> int_lit_tool sz intcs x op pos args side).
Proof.
  intros Hm. unfold int_lit, int_lit_tool. cbv zeta.
  destruct (cmpop_eq_other (cmp_of op)) as [Hc|Hc]; [rewrite int_det_all_other by exact Hc; rewrite Hc; tauto|].
  rewrite (match_not_other Prop (cmp_of op) True _ Hc).
  rewrite (int_det_all_eq sz intcs op pos args Hc).
  unfold int_cv.
  destruct args as [| [|o1 p1 a1 u1] [| [|o2 p2 a2 u2] [| v3 rest]]]; try tauto.
  destruct (int_isf sz o1) eqn:F1.
  - destruct (is_int_push_ins intcs o2); tauto.
  - destruct (int_isf sz o2) eqn:F2; [|tauto].
    destruct (is_int_push_ins intcs o1) as [| |n|] eqn:I1; try tauto.
    cbn [mirrored_ordered is_const] in Hm. rewrite F1, F2, I1 in Hm. cbn in Hm.
    rewrite (cmp_holds_sym_eq op (Z.of_N n) x Hc Hm). tauto.
Qed.

(* leaf laws of the domain against the tool's reading *)
Lemma int_leaf_justified sz intcs x op pos args z :
  gs (list Z) Z zin x z (int_single sz intcs op pos args) -> int_lit_tool sz intcs x op pos args z.
Proof.
  unfold gs, side_of, zin, int_lit_tool. intros H.
  destruct (cmpop_eq_other (cmp_of op)) as [Hc|Hc]; [rewrite int_det_all_other by exact Hc; exact I|].
  rewrite (int_det_all_eq sz intcs op pos args Hc).
  rewrite (int_single_eq sz intcs op pos args Hc) in H.
  destruct (int_cv sz intcs args) as [n|]; [|exact I].
  cbv zeta in H. destruct z; cbn [fst snd] in H.
  - destruct (cmp_of op) eqn:E; try congruence;
      try (apply int_asserted_exact in H; [apply H | apply int_U_NoDup | congruence | congruence]).
    apply int_asserted_eq_In in H. exact H.
  - apply int_asserted_false_exact in H; [apply H | apply int_U_NoDup | exact Hc].
Qed.

Lemma int_leaf_passes sz intcs x op pos args z : In x (int_U sz) ->
  int_lit_tool sz intcs x op pos args z -> gs (list Z) Z zin x z (int_single sz intcs op pos args).
Proof.
  unfold gs, side_of, zin, int_lit_tool. intros Hx H.
  pose proof (int_single_leaf_exact_all sz intcs op pos args x Hx) as L.
  destruct (int_det_all sz intcs op pos args) as [g|].
  - destruct L as [L1 L2]. destruct z; [apply L1|apply L2]; exact H.
  - destruct z; apply L.
Qed.

(* no checked comparison has the D2 shape (the first half of ExecLemmas.int_leaves_ok) *)
Definition int_not_mirrored (f : func) (sz : bool) : Prop :=
  forall op pos args, prog_leaf f op pos args -> mirrored_ordered sz (fn_intcs f) op args = false.

Lemma int_leaves_ok_not_mirrored f sz : int_leaves_ok f sz -> int_not_mirrored f sz.
Proof. intros H op pos args Hp. exact (proj1 (H op pos args Hp)). Qed.

Lemma run_int_inv f fuel sz lo : run_int f fuel sz = Done lo ->
  exists bc, init_constraints (list Z) (int_U sz) [] zunion zinter (int_single sz (fn_intcs f)) f = Some bc /\
             solve (list Z) zset_eqb (int_U sz) [] zunion zinter (int_single sz (fn_intcs f)) f fuel bc = Done lo.
Proof.
  unfold run_int. change (if sz then int_universal_groupsize else int_universal_groupindex) with (int_U sz).
  destruct (init_constraints (list Z) (int_U sz) [] zunion zinter (int_single sz (fn_intcs f)) f) as [bc|];
    [|discriminate].
  intros H. exists bc. auto.
Qed.

(* ---- with the tool's reading (no exclusion) *)
Theorem C06_result_justified_tool f sz fuel lo x :
  run_int f fuel sz = Done lo ->
  forall b v, Analysis.lookup (list Z) lo b = Some v -> In x v ->
  Lit (int_lit_tool sz (fn_intcs f) x) f b.
Proof.
  intros Hrun b v Hv Hx. destruct (run_int_inv f fuel sz lo Hrun) as (bc & Hinit & Hs).
  apply (solve_lit_justified (list Z) zset_eqb (int_U sz) [] zunion zinter (int_single sz (fn_intcs f)) Z zin x
           (int_lit_tool sz (fn_intcs f) x) f bc Hinit (zin_null x) (zin_union_inv x) (zin_inter_inv x)
           (fun op pos args z _ => int_leaf_justified sz (fn_intcs f) x op pos args z) fuel lo Hs b v Hv Hx).
Qed.

Theorem C06_result_exact_tool f sz fuel lo x :
  graph_wf f = true -> In x (int_U sz) -> run_int f fuel sz = Done lo ->
  forall b, (exists v, Analysis.lookup (list Z) lo b = Some v /\ In x v) <->
            Lit (int_lit_tool sz (fn_intcs f) x) f b.
Proof.
  intros Hwf Hx Hrun. destruct (run_int_inv f fuel sz lo Hrun) as (bc & Hinit & Hs).
  exact (solve_lit_exact (list Z) zset_eqb (int_U sz) [] zunion zinter (int_single sz (fn_intcs f)) Z zin x
           (int_lit_tool sz (fn_intcs f) x) f bc Hinit (zin_null x) (zin_union_inv x) (zin_inter_inv x)
           (fun op pos args z _ => int_leaf_justified sz (fn_intcs f) x op pos args z)
           Hx (zin_union_l x) (zin_union_r x) (zin_inter x) (zin_eqb x) zset_eqb_refl
           (fun op pos args z _ => int_leaf_passes sz (fn_intcs f) x op pos args z Hx) Hwf fuel lo Hs).
Qed.

(* ---- with the literal reading; _partial: D2 (mirrored ordered comparisons) excluded *)
Lemma int_Lit_agree f sz x : int_not_mirrored f sz ->
  forall b, Lit (int_lit sz (fn_intcs f) x) f b <-> Lit (int_lit_tool sz (fn_intcs f) x) f b.
Proof.
  intros Hm b. split; apply Lit_ext; intros op pos args z Hp H;
    apply (int_lit_agree sz (fn_intcs f) x op pos args z (Hm op pos args Hp)); exact H.
Qed.

(* C06: a value is listed for a block only if some literal accepting path through the block allows it *)
Theorem C06_result_justified_partial f sz fuel lo x :
  int_not_mirrored f sz -> run_int f fuel sz = Done lo ->
  forall b v, Analysis.lookup (list Z) lo b = Some v -> In x v ->
  Lit (int_lit sz (fn_intcs f) x) f b.
Proof.
  intros Hm Hrun b v Hv Hx. apply (int_Lit_agree f sz x Hm b).
  eapply C06_result_justified_tool; eauto.
Qed.

(* C06: a value (of the universe) is listed for a block  iff  some literal accepting path through it allows it *)
Theorem C06_result_exact_partial f sz fuel lo x :
  graph_wf f = true -> int_not_mirrored f sz -> In x (int_U sz) -> run_int f fuel sz = Done lo ->
  forall b, (exists v, Analysis.lookup (list Z) lo b = Some v /\ In x v) <->
            Lit (int_lit sz (fn_intcs f) x) f b.
Proof.
  intros Hwf Hm Hx Hrun b. rewrite (int_Lit_agree f sz x Hm b).
  exact (C06_result_exact_tool f sz fuel lo x Hwf Hx Hrun b).
Qed.

(* ---- every listed value belongs to the universe of the dimension *)
Section InclU.
  Variable U : list Z.
  Variable single : instr -> nat -> list sval -> list Z * list Z.
  Variable f : func.
  Notation stZ := (list (nat * list Z)).
  Definition st_incl (st : stZ) : Prop := forall b v, Analysis.lookup (list Z) st b = Some v -> incl v U.

  Lemma rfold_incl st xb : st_incl st -> forall ps a r,
    fold_left (SolverLemmas.rstep (list Z) U [] zunion zinter single f st xb) ps (Some a) = Some r ->
    incl a U -> incl r U.
  Proof.
    intros Hst. induction ps as [|q ps IH]; intros a r H Ha.
    - simpl in H. inversion H; subst. exact Ha.
    - cbn [fold_left] in H.
      destruct (SolverLemmas.rstep (list Z) U [] zunion zinter single f st xb (Some a) q) as [a'|] eqn:E;
        [|rewrite rfold_none in H; discriminate].
      unfold SolverLemmas.rstep in E.
      destruct (Analysis.lookup (list Z) st q) as [ro|] eqn:El; [|discriminate].
      destruct (fblock f q) as [pb|]; [|discriminate].
      destruct (edge_constraint (list Z) U [] zunion zinter single f pb (b_idx xb)) as [ec|]; [|discriminate].
      inversion E; subst a'. apply (IH _ _ H).
      intros y Hy. apply zunion_In in Hy. destruct Hy as [Hy|Hy]; [apply Ha; exact Hy|].
      apply zinter_In in Hy. destruct Hy as [Hy _]. exact (Hst q ro El y Hy).
  Qed.

  Lemma reachin_incl st xb ri : st_incl st ->
    Analysis.reachin (list Z) U [] zunion zinter single f st xb = Some ri -> incl ri U.
  Proof.
    intros Hst H. rewrite reachin_unfold in H.
    destruct (prev_global f xb) as [ps|]; [|discriminate].
    destruct (fold_left _ ps _) as [acc|] eqn:F; [|discriminate].
    assert (Hacc : incl acc U).
    { apply (rfold_incl st xb Hst _ _ _ F). destruct (Nat.eqb (b_idx xb) (fn_entry f)); [apply incl_refl|].
      intros y []. }
    destruct (is_sub_return_point f xb).
    - destruct (callsub_block_of f xb) as [c|]; [|discriminate].
      destruct (Analysis.lookup (list Z) st c) as [rc|]; [|discriminate]. inversion H; subst ri.
      intros y Hy. apply zinter_In in Hy. apply Hacc. apply Hy.
    - inversion H; subst ri. exact Hacc.
  Qed.

  Lemma forward_incl bc fuel wl ro :
    Analysis.forward (list Z) zset_eqb U [] zunion zinter single f (Analysis.lookup (list Z) bc) fuel wl
      (SolverLemmas.fwd_st0 (list Z) [] f) = Done ro -> st_incl ro.
  Proof.
    apply (forward_state_ind (list Z) zset_eqb U [] zunion zinter single f (Analysis.lookup (list Z) bc) st_incl).
    - intros st b xb ri bcv old HP Hfb Hri Hb Hold _ b' v Hl.
      destruct (Nat.eq_dec b b') as [<-|Hne].
      + rewrite (lookup_update_same (list Z) st b _ old Hold) in Hl. inversion Hl; subst v.
        intros y Hy. apply zinter_In in Hy. exact (reachin_incl st xb ri HP Hri y (proj1 Hy)).
      + rewrite lookup_update_other in Hl by exact Hne. exact (HP b' v Hl).
    - intros b v H. unfold SolverLemmas.fwd_st0 in H. rewrite lookup_map_blocks in H.
      destruct (fblock f b); [|discriminate]. simpl in H. inversion H; subst v. intros y [].
  Qed.

  Lemma backward_incl ro fuel wl lo : st_incl ro ->
    Analysis.backward (list Z) zset_eqb [] zunion zinter f (Analysis.lookup (list Z) ro) fuel wl
      (SolverLemmas.bwd_st0 (list Z) [] f ro) = Done lo -> st_incl lo.
  Proof.
    intros Hro.
    apply (backward_state_ind (list Z) zset_eqb [] zunion zinter f (Analysis.lookup (list Z) ro) st_incl).
    - intros st b xb li bcv old HP Hfb _ Hli Hb Hold _ b' v Hl.
      destruct (Nat.eq_dec b b') as [<-|Hne].
      + rewrite (lookup_update_same (list Z) st b _ old Hold) in Hl. inversion Hl; subst v.
        intros y Hy. apply zinter_In in Hy. exact (Hro b bcv Hb y (proj2 Hy)).
      + rewrite lookup_update_other in Hl by exact Hne. exact (HP b' v Hl).
    - intros b v H. unfold SolverLemmas.bwd_st0 in H. rewrite lookup_map_blocks in H.
      destruct (fblock f b) as [xb|]; [|discriminate]. simpl in H. inversion H; subst v; clear H.
      destruct (leaf_global f xb); [|intros y []].
      destruct (Analysis.lookup (list Z) ro (b_idx xb)) as [w|] eqn:E; [|intros y []].
      exact (Hro _ _ E).
  Qed.

  Lemma solve_incl bc fuel lo :
    solve (list Z) zset_eqb U [] zunion zinter single f fuel bc = Done lo -> st_incl lo.
  Proof.
    intros Hs. apply solve_passes in Hs. destruct Hs as (ro & Hf & Hb).
    exact (backward_incl ro fuel _ lo (forward_incl bc fuel _ ro Hf) Hb).
  Qed.
End InclU.

Theorem C06_listed_in_universe f sz fuel lo : run_int f fuel sz = Done lo ->
  forall b v, Analysis.lookup (list Z) lo b = Some v -> incl v (int_U sz).
Proof.
  intros Hrun. destruct (run_int_inv f fuel sz lo Hrun) as (bc & _ & Hs).
  exact (solve_incl (int_U sz) _ f bc fuel lo Hs).
Qed.

(* C06: a block on no literal accepting path lists nothing *)
Corollary C06_no_literal_path_lists_nothing_partial f sz fuel lo b v :
  int_not_mirrored f sz -> run_int f fuel sz = Done lo -> Analysis.lookup (list Z) lo b = Some v ->
  (forall x, In x (int_U sz) -> ~ Lit (int_lit sz (fn_intcs f) x) f b) -> v = [].
Proof.
  intros Hm Hrun Hv Hno. destruct v as [|y v']; [reflexivity|]. exfalso.
  apply (Hno y).
  - apply (C06_listed_in_universe f sz fuel lo Hrun b _ Hv). left. reflexivity.
  - apply (C06_result_justified_partial f sz fuel lo y Hm Hrun b _ Hv). left. reflexivity.
Qed.

Corollary C06_no_literal_path_lists_nothing_tool f sz fuel lo b v :
  run_int f fuel sz = Done lo -> Analysis.lookup (list Z) lo b = Some v ->
  (forall x, In x (int_U sz) -> ~ Lit (int_lit_tool sz (fn_intcs f) x) f b) -> v = [].
Proof.
  intros Hrun Hv Hno. destruct v as [|y v']; [reflexivity|]. exfalso.
  apply (Hno y).
  - apply (C06_listed_in_universe f sz fuel lo Hrun b _ Hv). left. reflexivity.
  - apply (C06_result_justified_tool f sz fuel lo y Hrun b _ Hv). left. reflexivity.
Qed.

(* ====================================================================== *)
(* run_family: the base (KSelf) result is init_constraints + solve         *)
(* ====================================================================== *)
Lemma run_family_base {T} f fuel (t_eqb : T -> T -> bool) univ null union inter
      (single : keyfam -> instr -> nat -> list sval -> T * T) indices r :
  run_family f fuel t_eqb univ null union inter single indices = Done r ->
  exists bc base rest,
    init_constraints T univ null union inter (single KSelf) f = Some bc /\
    solve T t_eqb univ null union inter (single KSelf) f fuel bc = Done base /\
    r = (KSelf, base) :: rest.
Proof.
  unfold run_family.
  destruct (init_constraints T univ null union inter (single KSelf) f) as [bc|]; [|discriminate].
  destruct (solve T t_eqb univ null union inter (single KSelf) f fuel bc) as [base| |] eqn:Hs; try discriminate.
  destruct (seq_outcomes all_gtx_fams _) as [rest| |]; try discriminate.
  intros H. inversion H; subst r. exists bc, base, rest. auto.
Qed.

(* ====================================================================== *)
(* PART 3. C08: address fields                                            *)
(* ====================================================================== *)
(* On raw string sets addr_gamma obeys the INVERSE laws unconditionally (the direct laws need the
   representation invariant addr_wf, LeafLemmas.addr_intersection_exact_nowf_refuted). *)
Lemma addr_union_inv_raw n a b : addr_gamma (addr_union a b) n -> addr_gamma a n \/ addr_gamma b n.
Proof.
  unfold addr_union. change (@mem_any string Mem_string) with smem. intros H.
  destruct (smem ANY_ADDRESS a) eqn:Aa.
  { left. split; [exact (proj1 H)|left; exact Aa]. }
  destruct (smem ANY_ADDRESS b) eqn:Ab.
  { right. split; [exact (proj1 H)|left; exact Ab]. }
  cbn [orb] in H.
  destruct (smem NO_ADDRESS a) eqn:Na; destruct (smem NO_ADDRESS b) eqn:Nb; cbn [andb] in H.
  - exfalso. exact (addr_null_gamma n H).
  - right. exact H.
  - left. exact H.
  - destruct H as [Hm [H|H]].
    + apply smem_In in H. rewrite set_union_In in H. apply smem_false in Aa, Ab. tauto.
    + apply smem_In in H. rewrite set_union_In in H. destruct H as [H|H]; [left|right]; (split; [exact Hm|right; apply smem_In; exact H]).
Qed.

Lemma addr_inter_inv_raw n a b : addr_gamma (addr_intersection a b) n -> addr_gamma a n /\ addr_gamma b n.
Proof.
  unfold addr_intersection. change (@mem_any string Mem_string) with smem. intros H.
  destruct (smem NO_ADDRESS a) eqn:Na; [exfalso; exact (addr_null_gamma n H)|].
  destruct (smem NO_ADDRESS b) eqn:Nb; [exfalso; exact (addr_null_gamma n H)|].
  cbn [orb] in H.
  destruct (smem ANY_ADDRESS a) eqn:Aa; destruct (smem ANY_ADDRESS b) eqn:Ab; cbn [andb] in H;
    destruct H as [Hm H].
  - split; (split; [exact Hm|left; assumption]).
  - split; [split; [exact Hm|left; exact Aa]|]. split; [exact Hm|].
    destruct H as [H|H]; apply smem_In in H; rewrite set_of_list_In in H; [left|right]; apply smem_In; exact H.
  - split; [|split; [exact Hm|left; exact Ab]]. split; [exact Hm|].
    destruct H as [H|H]; apply smem_In in H; rewrite set_of_list_In in H; [left|right]; apply smem_In; exact H.
  - destruct H as [H|H]; apply smem_In in H; rewrite set_inter_In in H; destruct H as [H1 H2].
    + apply smem_false in Aa. contradiction.
    + split; (split; [exact Hm|right; apply smem_In; assumption]).
Qed.

(* THE LITERAL READING of a leaf for the candidate address name n (a non-marker name; markers are no
   addresses): an == / != of the key's field against a comparand is read as the tool's leaf function reads it
   -- global ZeroAddress / the zero literal: no address; addr A: A; global CreatorAddress: CREATOR_ADDRESS;
   a run-time comparand: the symbolic name the tool gives it (its documented heuristic) -- on the side on which
   the equality holds; the other side, and every other leaf, is free. *)
Definition addr_lit (intcs : option (list N)) (fam : keyfam) (fld : string) (n : string)
           (op : instr) (pos : nat) (args : list sval) (side : bool) : Prop :=
  gs sset string addr_gamma n side (addr_single intcs fam fld op pos args).

(* what the reading says, spelled out *)
Lemma addr_lit_unfold intcs fam fld n op pos args side :
  addr_lit intcs fam fld n op pos args side <->
  is_marker n = false /\
  match addr_asserted intcs fam fld args with
  | Some a =>
      match op, side with
      | IEq, true | INeq, false => smem ANY_ADDRESS a = true \/ smem n a = true
      | _, _ => True
      end
  | None => True
  end.
Proof.
  unfold addr_lit, gs, side_of. rewrite addr_single_eq.
  assert (HU : addr_gamma addr_universal_set n <-> is_marker n = false /\ True).
  { split; [intros H; split; [apply H|exact I] | intros [H _]; apply addr_universal_gamma; exact H]. }
  destruct (addr_asserted intcs fam fld args) as [a|];
    destruct op; destruct side; cbn [fst snd]; try exact HU; unfold addr_gamma; tauto.
Qed.

(* comparands the tool understands *)
Lemma addr_const_zero n : ~ addr_gamma (asserted_address (IGlobal "ZeroAddress")) n.
Proof. apply addr_null_gamma. Qed.
Lemma addr_const_creator n : is_marker n = false ->
  (addr_gamma (asserted_address (IGlobal "CreatorAddress")) n <-> n = CREATOR_ADDRESS).
Proof.
  intros Hm. change (asserted_address (IGlobal "CreatorAddress")) with [CREATOR_ADDRESS].
  unfold addr_gamma. cbn [smem existsb]. rewrite Hm.
  change (ANY_ADDRESS =? CREATOR_ADDRESS)%string with false. cbn [orb].
  rewrite orb_false_r, String.eqb_eq. intuition congruence.
Qed.
Lemma addr_const_literal a n : is_marker n = false -> is_marker a = false -> a <> ZERO_ADDRESS ->
  (addr_gamma (asserted_address (IAddr a)) n <-> n = a).
Proof.
  intros Hm Ha Hz. cbn [asserted_address]. apply String.eqb_neq in Hz. rewrite Hz.
  change (set_of_list [a]) with [a]. unfold addr_gamma. cbn [smem existsb]. rewrite Hm, !orb_false_r.
  apply is_marker_false in Ha. destruct Ha as [Ha _]. apply not_eq_sym, String.eqb_neq in Ha. rewrite Ha.
  rewrite String.eqb_eq. intuition congruence.
Qed.

(* C08, justification: an address name allowed by the result at b is allowed by a literal accepting path *)
Theorem C08_result_justified f fam fld bc fuel lo n :
  init_constraints sset addr_universal_set addr_null_set addr_union addr_intersection
    (addr_single (fn_intcs f) fam fld) f = Some bc ->
  solve sset sset_seteqb addr_universal_set addr_null_set addr_union addr_intersection
    (addr_single (fn_intcs f) fam fld) f fuel bc = Done lo ->
  forall b v, Analysis.lookup sset lo b = Some v -> addr_gamma v n ->
  Lit (addr_lit (fn_intcs f) fam fld n) f b.
Proof.
  intros Hinit Hs b v Hv Hg.
  exact (solve_lit_justified sset sset_seteqb addr_universal_set addr_null_set addr_union addr_intersection
           (addr_single (fn_intcs f) fam fld) string addr_gamma n (addr_lit (fn_intcs f) fam fld n) f bc Hinit
           (addr_null_gamma n) (addr_union_inv_raw n) (addr_inter_inv_raw n)
           (fun op pos args z _ H => H) fuel lo Hs b v Hv Hg).
Qed.

(* C08: if some address (name) is allowed by NO literal accepting path through b -- every such path compares
   the field, on the side it takes, against ZeroAddress / a literal / ... -- then b is not reported as "any address" *)
Theorem C08_constrained_not_any f fam fld bc fuel lo b v :
  init_constraints sset addr_universal_set addr_null_set addr_union addr_intersection
    (addr_single (fn_intcs f) fam fld) f = Some bc ->
  solve sset sset_seteqb addr_universal_set addr_null_set addr_union addr_intersection
    (addr_single (fn_intcs f) fam fld) f fuel bc = Done lo ->
  Analysis.lookup sset lo b = Some v ->
  (exists n, is_marker n = false /\ ~ Lit (addr_lit (fn_intcs f) fam fld n) f b) ->
  smem ANY_ADDRESS v = false.
Proof.
  intros Hinit Hs Hv (n & Hm & Hno).
  destruct (smem ANY_ADDRESS v) eqn:E; [|reflexivity]. exfalso. apply Hno.
  apply (C08_result_justified f fam fld bc fuel lo n Hinit Hs b v Hv).
  split; [exact Hm|left; exact E].
Qed.

(* ... as the detectors read it (Detect.addrval_of): the any_addr flag of the block's context is off *)
Corollary C08_constrained_not_any_flag f fam fld bc fuel lo b v :
  init_constraints sset addr_universal_set addr_null_set addr_union addr_intersection
    (addr_single (fn_intcs f) fam fld) f = Some bc ->
  solve sset sset_seteqb addr_universal_set addr_null_set addr_union addr_intersection
    (addr_single (fn_intcs f) fam fld) f fuel bc = Done lo ->
  Analysis.lookup sset lo b = Some v ->
  (exists n, is_marker n = false /\ ~ Lit (addr_lit (fn_intcs f) fam fld n) f b) ->
  av_any (addrval_of v) = false.
Proof. intros Hinit Hs Hv H. exact (C08_constrained_not_any f fam fld bc fuel lo b v Hinit Hs Hv H). Qed.

(* the same for the own-transaction (KSelf) entry of run_family, as run_all calls it for each of the four fields *)
Corollary C08_constrained_not_any_run f fuel fld indices r base rest b v :
  run_family f fuel sset_seteqb addr_universal_set addr_null_set addr_union addr_intersection
    (fun fam => addr_single (fn_intcs f) fam fld) indices = Done r ->
  r = (KSelf, base) :: rest ->
  Analysis.lookup sset base b = Some v ->
  (exists n, is_marker n = false /\ ~ Lit (addr_lit (fn_intcs f) KSelf fld n) f b) ->
  smem ANY_ADDRESS v = false.
Proof.
  intros Hrun Hr Hv H. destruct (run_family_base f fuel _ _ _ _ _ _ indices r Hrun) as (bc & base' & rest' & Hinit & Hs & E).
  rewrite E in Hr. inversion Hr; subst base' rest'.
  exact (C08_constrained_not_any f KSelf fld bc fuel base b v Hinit Hs Hv H).
Qed.

(* the converse, through the concretisation ExecLemmas.rgamma (which obeys the DIRECT laws on all raw sets
   and coincides with addr_gamma on the well-formed values the leaf function produces) *)
Theorem C08_result_contains f fam fld bc fuel lo n :
  graph_wf f = true -> is_marker n = false ->
  init_constraints sset addr_universal_set addr_null_set addr_union addr_intersection
    (addr_single (fn_intcs f) fam fld) f = Some bc ->
  solve sset sset_seteqb addr_universal_set addr_null_set addr_union addr_intersection
    (addr_single (fn_intcs f) fam fld) f fuel bc = Done lo ->
  forall b, Lit (addr_lit (fn_intcs f) fam fld n) f b ->
  exists v, Analysis.lookup sset lo b = Some v /\ addr_gamma v n.
Proof.
  intros Hwf Hm Hinit Hs b H.
  set (x := exist (fun s => is_marker s = false) n Hm : Instances.addr_name).
  destruct (solve_lit_contains sset sset_seteqb addr_universal_set addr_null_set addr_union addr_intersection
              (addr_single (fn_intcs f) fam fld) Instances.addr_name rgamma x (addr_lit (fn_intcs f) fam fld n) f bc Hinit
              (rgamma_univ x) (fun a b => rgamma_union_l a b x) (fun a b => rgamma_union_r a b x)
              (fun a b => rgamma_inter a b x) (fun a b => sset_seteqb_rgamma a b x) sset_seteqb_refl) with (fuel := fuel) (lo := lo) (b := b)
    as (v & Hv & Hg); auto.
  - intros op pos args z _ Hl. unfold addr_lit, gs, side_of in *.
    destruct (addr_single_wf (fn_intcs f) fam fld op pos args) as [W1 W2].
    destruct z; apply addr_rgamma; assumption.
  - exists v. split; [exact Hv|]. exact (rgamma_addr v x Hg).
Qed.

(* C08, exactness: the result at b allows the address name n  iff  some literal accepting path through b does *)
Theorem C08_result_exact f fam fld bc fuel lo n :
  graph_wf f = true -> is_marker n = false ->
  init_constraints sset addr_universal_set addr_null_set addr_union addr_intersection
    (addr_single (fn_intcs f) fam fld) f = Some bc ->
  solve sset sset_seteqb addr_universal_set addr_null_set addr_union addr_intersection
    (addr_single (fn_intcs f) fam fld) f fuel bc = Done lo ->
  forall b, (exists v, Analysis.lookup sset lo b = Some v /\ addr_gamma v n) <->
            Lit (addr_lit (fn_intcs f) fam fld n) f b.
Proof.
  intros Hwf Hm Hinit Hs b. split.
  - intros (v & Hv & Hg). exact (C08_result_justified f fam fld bc fuel lo n Hinit Hs b v Hv Hg).
  - exact (C08_result_contains f fam fld bc fuel lo n Hwf Hm Hinit Hs b).
Qed.

(* ====================================================================== *)
(* PART 4. C09: fee bounds                                                *)
(* ====================================================================== *)
(* concretisation LeafLemmas.fee_gamma, for fees 0 < x <= 2^64-1 (the null element is the bound 0: it allows
   the fee 0, so the law "null allows nothing" holds for positive fees only) *)
Lemma fee_null_pos x : (0 < x)%Z -> ~ fee_gamma fee_null_set x.
Proof. intros Hx H. apply fee_null_gamma in H; lia. Qed.
Lemma fee_eqb_gamma x a b : feeval_eqb a b = true -> (fee_gamma a x <-> fee_gamma b x).
Proof. intros H. apply feeval_eqb_spec in H. subst. tauto. Qed.

(* THE LITERAL READING of a leaf for the fee x: a comparison involving the key's Fee is read as the tool's
   leaf function reads it (fee_leaf_direct / fee_leaf_heuristic below say what that is), every other leaf is
   free (fee_leaf_free) *)
Definition fee_lit (intcs : option (list N)) (fam : keyfam) (x : Z)
           (op : instr) (pos : nat) (args : list sval) (side : bool) : Prop :=
  gs feeval Z fee_gamma x side (fee_single intcs fam op pos args).

(* a leaf that does not compare the key's Fee is free *)
Lemma fee_leaf_free intcs fam x op pos args side : (x <= MAX_UINT64z)%Z ->
  fee_cv intcs fam (cmp_of op) args = None -> fee_lit intcs fam x op pos args side.
Proof.
  intros Hx Hcv. unfold fee_lit, gs, side_of. rewrite fee_single_eq, Hcv.
  destruct side; apply fee_universal_gamma; exact Hx.
Qed.

(* a direct check  Fee c k  (or k c' Fee, c = mirror c') against a constant k < 2^64-1:  x is let through the
   side [side] iff x is at or below some uint64 fee for which the comparison has that truth value --
   "exactly the implied bound" *)
Lemma fee_cmp_reading c k side x : c <> COther -> (0 <= k < MAX_UINT64z)%Z -> (0 < x <= MAX_UINT64z)%Z ->
  (fee_gamma (fee_side side (fee_get_asserted_max_value c (mkFee false k))) x <->
   exists y, (x <= y <= MAX_UINT64z)%Z /\ cmp_holds c y k = side).
Proof.
  intros Hc Hk Hx. rewrite fee_cmp_exact_bound.
  assert (HM : MAX_UINT64z = 18446744073709551615%Z) by reflexivity.
  destruct c; try congruence; destruct side;
    unfold fee_side, fee_cmp_expected, fee_universal_set, fee_gamma, cmp_holds; cbn [fst snd fee_unknown fee_value];
    (split; [intros H | intros (y & Hy & Hh); lia]).
  - exists k. lia.
  - exists (if Z.eqb x k then (k + 1)%Z else x). destruct (Z.eqb_spec x k); lia.
  - exists (if Z.eqb x k then (k + 1)%Z else x). destruct (Z.eqb_spec x k); lia.
  - exists k. lia.
  - exists x. lia.
  - exists MAX_UINT64z. lia.
  - exists x. lia.
  - exists MAX_UINT64z. lia.
  - exists MAX_UINT64z. lia.
  - exists x. lia.
  - exists MAX_UINT64z. lia.
  - exists x. lia.
Qed.

Lemma fee_leaf_direct intcs fam x op pos args k c side :
  fee_cv intcs fam (cmp_of op) args = Some (mkFee false k, c) -> c <> COther ->
  (0 <= k < MAX_UINT64z)%Z -> (0 < x <= MAX_UINT64z)%Z ->
  (fee_lit intcs fam x op pos args side <-> exists y, (x <= y <= MAX_UINT64z)%Z /\ cmp_holds c y k = side).
Proof.
  intros Hcv Hc Hk Hx. unfold fee_lit, gs, side_of. rewrite fee_single_eq, Hcv.
  exact (fee_cmp_reading c k side x Hc Hk Hx).
Qed.

(* D25: against the constant 2^64-1 the reading is not the implied bound:  Fee > 2^64-1  holds for no fee,
   yet its true side lets every fee through *)
Lemma fee_cmp_reading_D25_refuted : exists c k side x,
  c <> COther /\ k = MAX_UINT64z /\ (0 < x <= MAX_UINT64z)%Z /\
  fee_gamma (fee_side side (fee_get_asserted_max_value c (mkFee false k))) x /\
  ~ exists y, (x <= y <= MAX_UINT64z)%Z /\ cmp_holds c y k = side.
Proof.
  exists CGreater, MAX_UINT64z, true, 1%Z. split; [discriminate|]. split; [reflexivity|].
  split; [split; [lia|discriminate]|]. split.
  - unfold fee_side, fee_gamma. cbn. discriminate.
  - intros (y & Hy & Hh). unfold cmp_holds in Hh. lia.
Qed.

(* a comparand the tool cannot evaluate (the documented heuristic): the side on which Fee is bounded above by
   it is read as  Fee <= MAX_TRANSACTION_COST, the other side is free *)
Lemma fee_leaf_heuristic intcs fam x op pos args c side :
  fee_cv intcs fam (cmp_of op) args = Some (mkFee true MAX_UINT64z, c) -> (x <= MAX_UINT64z)%Z ->
  (fee_lit intcs fam x op pos args side <->
   match c, side with
   | CEq, true | CLess, true | CLessE, true | CNeq, false | CGreater, false | CGreaterE, false =>
       (x <= MAX_TRANSACTION_COSTz)%Z
   | _, _ => True
   end).
Proof.
  intros Hcv Hx. unfold fee_lit, gs, side_of. rewrite fee_single_eq, Hcv, fee_cmp_unknown.
  destruct c; destruct side; cbn [fee_cmp_expected_unknown fst snd];
    rewrite ?fee_unknown_gamma, ?fee_universal_gamma_iff; tauto.
Qed.

(* ---- exactness of the per-block bound *)
Theorem C09_result_justified f fam bc fuel lo x :
  (0 < x)%Z ->
  init_constraints feeval fee_universal_set fee_null_set fee_union fee_intersection (fee_single (fn_intcs f) fam) f = Some bc ->
  solve feeval feeval_eqb fee_universal_set fee_null_set fee_union fee_intersection (fee_single (fn_intcs f) fam) f fuel bc = Done lo ->
  forall b v, Analysis.lookup feeval lo b = Some v -> fee_gamma v x -> Lit (fee_lit (fn_intcs f) fam x) f b.
Proof.
  intros Hx Hinit Hs b v Hv Hg.
  exact (solve_lit_justified feeval feeval_eqb fee_universal_set fee_null_set fee_union fee_intersection
           (fee_single (fn_intcs f) fam) Z fee_gamma x (fee_lit (fn_intcs f) fam x) f bc Hinit
           (fee_null_pos x Hx)
           (fun a b H => proj1 (fee_union_exact a b x) H) (fun a b H => proj1 (fee_intersection_exact a b x) H)
           (fun op pos args z _ H => H) fuel lo Hs b v Hv Hg).
Qed.

Theorem C09_result_contains f fam bc fuel lo x :
  graph_wf f = true -> (x <= MAX_UINT64z)%Z ->
  init_constraints feeval fee_universal_set fee_null_set fee_union fee_intersection (fee_single (fn_intcs f) fam) f = Some bc ->
  solve feeval feeval_eqb fee_universal_set fee_null_set fee_union fee_intersection (fee_single (fn_intcs f) fam) f fuel bc = Done lo ->
  forall b, Lit (fee_lit (fn_intcs f) fam x) f b -> exists v, Analysis.lookup feeval lo b = Some v /\ fee_gamma v x.
Proof.
  intros Hwf Hx Hinit Hs b.
  exact (solve_lit_contains feeval feeval_eqb fee_universal_set fee_null_set fee_union fee_intersection
           (fee_single (fn_intcs f) fam) Z fee_gamma x (fee_lit (fn_intcs f) fam x) f bc Hinit
           (fee_universal_gamma x Hx)
           (fun a b H => proj2 (fee_union_exact a b x) (or_introl H))
           (fun a b H => proj2 (fee_union_exact a b x) (or_intror H))
           (fun a b H1 H2 => proj2 (fee_intersection_exact a b x) (conj H1 H2))
           (fee_eqb_gamma x) feeval_eqb_refl (fun op pos args z _ H => H) Hwf fuel lo Hs b).
Qed.

(* C09, exactness: the bound at b is at or above the fee x  iff  some literal accepting path through b allows x
   -- the bound is the maximum over the literal accepting paths *)
Theorem C09_result_exact f fam bc fuel lo x :
  graph_wf f = true -> (0 < x <= MAX_UINT64z)%Z ->
  init_constraints feeval fee_universal_set fee_null_set fee_union fee_intersection (fee_single (fn_intcs f) fam) f = Some bc ->
  solve feeval feeval_eqb fee_universal_set fee_null_set fee_union fee_intersection (fee_single (fn_intcs f) fam) f fuel bc = Done lo ->
  forall b, (exists v, Analysis.lookup feeval lo b = Some v /\ fee_gamma v x) <-> Lit (fee_lit (fn_intcs f) fam x) f b.
Proof.
  intros Hwf [Hx0 Hx1] Hinit Hs b. split.
  - intros (v & Hv & Hg). exact (C09_result_justified f fam bc fuel lo x Hx0 Hinit Hs b v Hv Hg).
  - exact (C09_result_contains f fam bc fuel lo x Hwf Hx1 Hinit Hs b).
Qed.

(* the predicate of the missing-fee-check detector on a bound *)
Definition fee_credited (v : feeval) : bool := fee_unknown v || (fee_value v <=? MAX_TRANSACTION_COSTz)%Z.

Lemma checks_missing_fee_check_credited r b fam :
  checks_missing_fee_check (ctx_of r b fam) = fee_credited (res_fee r fam b).
Proof.
  unfold checks_missing_fee_check, ctx_of, fee_credited. cbn [ctx_max_fee_unknown ctx_max_fee].
  destruct (fee_unknown (res_fee r fam b)); reflexivity.
Qed.

Lemma fee_credited_gamma v x : fee_credited v = true -> (MAX_TRANSACTION_COSTz < x)%Z -> ~ fee_gamma v x.
Proof.
  unfold fee_credited, fee_gamma. intros H Hx Hg.
  destruct (fee_unknown v); [lia|]. cbn [orb] in H. apply Z.leb_le in H. lia.
Qed.

(* C09: a block is credited with a bound at or below 272000 (or "unknown") only if NO literal accepting path
   through it allows a fee above 272000: every accepting path through it is constrained *)
Theorem C09_credit_justified f fam bc fuel lo b v :
  graph_wf f = true ->
  init_constraints feeval fee_universal_set fee_null_set fee_union fee_intersection (fee_single (fn_intcs f) fam) f = Some bc ->
  solve feeval feeval_eqb fee_universal_set fee_null_set fee_union fee_intersection (fee_single (fn_intcs f) fam) f fuel bc = Done lo ->
  Analysis.lookup feeval lo b = Some v -> fee_credited v = true ->
  forall x, (MAX_TRANSACTION_COSTz < x <= MAX_UINT64z)%Z -> ~ Lit (fee_lit (fn_intcs f) fam x) f b.
Proof.
  intros Hwf Hinit Hs Hv Hc x [Hx0 Hx1] H.
  destruct (C09_result_contains f fam bc fuel lo x Hwf Hx1 Hinit Hs b H) as (v' & Hv' & Hg).
  rewrite Hv in Hv'. inversion Hv'; subst v'. exact (fee_credited_gamma v x Hc Hx0 Hg).
Qed.

(* ... in particular no accepting path through it avoids every comparison of Fee: read ALL leaves as free and
   keep only the blocks / edges whose checked conditions contain no comparison of the key's Fee *)
Definition free_lit (op : instr) (pos : nat) (args : list sval) (side : bool) : Prop := True.
Definition fee_free_block (f : func) (fam : keyfam) (blk : block) : Prop :=
  forall op pos args, block_leaf f blk op pos args -> fee_cv (fn_intcs f) fam (cmp_of op) args = None.
Definition okb_nofee (f : func) (fam : keyfam) (b : nat) : Prop :=
  exists blk, fblock f b = Some blk /\ fee_free_block f fam blk /\ blk_lit free_lit f blk.
Definition oke_nofee (f : func) (fam : keyfam) (p b : nat) : Prop :=
  exists pb, fblock f p = Some pb /\ fee_free_block f fam pb /\ edge_lit free_lit f pb b.

Theorem C09_credit_needs_fee_comparison f fam bc fuel lo b v :
  graph_wf f = true ->
  init_constraints feeval fee_universal_set fee_null_set fee_union fee_intersection (fee_single (fn_intcs f) fam) f = Some bc ->
  solve feeval feeval_eqb fee_universal_set fee_null_set fee_union fee_intersection (fee_single (fn_intcs f) fam) f fuel bc = Done lo ->
  Analysis.lookup feeval lo b = Some v -> fee_credited v = true ->
  ~ Literal.LiveOut f (okb_nofee f fam) (oke_nofee f fam) b.
Proof.
  intros Hwf Hinit Hs Hv Hc H.
  apply (C09_credit_justified f fam bc fuel lo b v Hwf Hinit Hs Hv Hc MAX_UINT64z).
  { split; [reflexivity|lia]. }
  revert H. apply LiveOut_mono.
  - intros b0 (blk & Hb & Hfree & Hl). exists blk. split; [exact Hb|].
    eapply blk_lit_ext; [|exact Hl]. intros op pos args z Hbl _.
    apply fee_leaf_free; [lia|]. exact (Hfree op pos args Hbl).
  - intros p0 b0 (pb & Hp & Hfree & Hl). exists pb. split; [exact Hp|].
    eapply edge_lit_ext; [|exact Hl]. intros op pos args z Hbl _.
    apply fee_leaf_free; [lia|]. exact (Hfree op pos args Hbl).
Qed.

(* the same for the own-transaction (KSelf) entry of run_family *)
Corollary C09_credit_justified_run f fuel indices r base rest b v :
  graph_wf f = true ->
  run_family f fuel feeval_eqb fee_universal_set fee_null_set fee_union fee_intersection
    (fun fam => fee_single (fn_intcs f) fam) indices = Done r ->
  r = (KSelf, base) :: rest ->
  Analysis.lookup feeval base b = Some v -> fee_credited v = true ->
  (forall x, (MAX_TRANSACTION_COSTz < x <= MAX_UINT64z)%Z -> ~ Lit (fee_lit (fn_intcs f) KSelf x) f b) /\
  ~ Literal.LiveOut f (okb_nofee f KSelf) (oke_nofee f KSelf) b.
Proof.
  intros Hwf Hrun Hr Hv Hc.
  destruct (run_family_base f fuel _ _ _ _ _ _ indices r Hrun) as (bc & base' & rest' & Hinit & Hs & E).
  rewrite E in Hr. inversion Hr; subst base' rest'. split.
  - exact (C09_credit_justified f KSelf bc fuel base b v Hwf Hinit Hs Hv Hc).
  - exact (C09_credit_needs_fee_comparison f KSelf bc fuel base b v Hwf Hinit Hs Hv Hc).
Qed.

(* ====================================================================== *)
(* PART 5. executable side conditions, examples on parsed programs        *)
(* ====================================================================== *)
(* the leaves of the checked conditions of a function, as a list: the D2 exclusion becomes a boolean check *)
Fixpoint cond_leaves (c : cond) : list (instr * nat * list sval) :=
  match c with
  | CUnknown => []
  | CLeaf o k a => [(o, k, a)]
  | CNot a => cond_leaves a
  | CAnd a b | COr a b => cond_leaves a ++ cond_leaves b
  end.

Lemma cond_leaves_In c op pos args : cond_leaf c op pos args -> In (op, pos, args) (cond_leaves c).
Proof.
  induction c as [|a1 IH1 a2 IH2|a1 IH1 a2 IH2|a IH|o k a]; cbn [cond_leaf cond_leaves]; intros H.
  - contradiction.
  - apply in_or_app. destruct H; [left|right]; auto.
  - apply in_or_app. destruct H; [left|right]; auto.
  - auto.
  - destruct H as (-> & -> & ->). left. reflexivity.
Qed.

Definition block_leaves_l (f : func) (blk : block) : list (instr * nat * list sval) :=
  match emulate (fn_prog f) (b_ins blk) [] with
  | Some ast =>
      flat_map (fun '(k, o, args) =>
                  if is_check o then match args with a :: _ => cond_leaves (cond_of a) | [] => [] end else []) ast
  | None => []
  end.
Definition prog_leaves_l (f : func) : list (instr * nat * list sval) := flat_map (block_leaves_l f) (fn_blocks f).

Lemma block_leaves_In f blk op pos args : block_leaf f blk op pos args -> In (op, pos, args) (block_leaves_l f blk).
Proof.
  intros (ast & k & o & a & rest & Hast & Hin & Hck & Hc). unfold block_leaves_l. rewrite Hast.
  apply in_flat_map. exists (k, o, a :: rest). split; [exact Hin|]. rewrite Hck.
  apply cond_leaves_In. exact Hc.
Qed.

Lemma prog_leaves_In f op pos args : prog_leaf f op pos args -> In (op, pos, args) (prog_leaves_l f).
Proof.
  intros (b & blk & Hb & Hl). unfold prog_leaves_l. apply in_flat_map. exists blk.
  split; [eapply fblock_In; eauto | apply block_leaves_In; exact Hl].
Qed.

Definition int_not_mirrored_b (f : func) (sz : bool) : bool :=
  forallb (fun '(op, _, args) => negb (mirrored_ordered sz (fn_intcs f) op args)) (prog_leaves_l f).

Lemma int_not_mirrored_b_sound f sz : int_not_mirrored_b f sz = true -> int_not_mirrored f sz.
Proof.
  unfold int_not_mirrored_b. intros H op pos args Hp. rewrite forallb_forall in H.
  specialize (H _ (prog_leaves_In f op pos args Hp)). cbn in H. apply negb_true_iff in H. exact H.
Qed.

Module Examples.
  Local Open Scope string_scope.
  Definition of_lines (ls : list string) : func :=
    match func_of_lines ls with Some f => f | None => mkFunc [] [] 0 [] [] [] None end.

  (* ---------------------------------------------------------------- C06 *)
  (* block 0: GroupSize == 2, bz bad -> block 2 (err) / fall through -> block 1 (return 1) *)
  Definition int_lines : list string :=
    ["#pragma version 6"; "global GroupSize"; "int 2"; "=="; "bz bad"; "int 1"; "return"; "bad:"; "err"].
  Definition int_f : func := of_lines int_lines.

  Example int_f_parsed : func_of_lines int_lines = Some int_f.
  Proof. vm_compute. reflexivity. Qed.
  Example int_f_wf : graph_wf int_f = true.
  Proof. vm_compute. reflexivity. Qed.
  Example int_f_not_mirrored : int_not_mirrored int_f true.
  Proof. apply int_not_mirrored_b_sound. vm_compute. reflexivity. Qed.
  Example int_f_run : run_int int_f 20 true = Done [(0, [2%Z]); (2, []); (1, [2%Z])].
  Proof. vm_compute. reflexivity. Qed.

  Lemma size_in_U x : (1 <= x <= 16)%Z -> In x (int_U true).
  Proof. exact (proj2 (int_U_In true x)). Qed.

  (* by exactness: the group size 2 has a literal accepting path through block 1, the group size 3 has none *)
  Example int_f_lit_2 : Lit (int_lit true (fn_intcs int_f) 2) int_f 1.
  Proof.
    apply (C06_result_exact_partial int_f true 20 _ 2%Z int_f_wf int_f_not_mirrored
             (size_in_U 2%Z ltac:(lia)) int_f_run 1).
    exists [2%Z]. split; [reflexivity|left; reflexivity].
  Qed.
  Example int_f_not_lit_3 : ~ Lit (int_lit true (fn_intcs int_f) 3) int_f 1.
  Proof.
    intros H.
    apply (C06_result_exact_partial int_f true 20 _ 3%Z int_f_wf int_f_not_mirrored
             (size_in_U 3%Z ltac:(lia)) int_f_run 1) in H.
    destruct H as (v & Hv & Hin). vm_compute in Hv. inversion Hv; subst v.
    destruct Hin as [E|[]]. discriminate E.
  Qed.

  (* D2: `int 3; global GroupSize; <; assert` (3 < GroupSize) lists the sizes 1 and 2, which no literal path allows *)
  Definition d2_lines : list string :=
    ["#pragma version 6"; "int 3"; "global GroupSize"; "<"; "assert"; "int 1"; "return"].
  Definition d2_f : func := of_lines d2_lines.

  Theorem C06_result_exact_D2_refuted : exists f sz fuel lo x b,
    graph_wf f = true /\ In x (int_U sz) /\ run_int f fuel sz = Done lo /\
    (exists v, Analysis.lookup (list Z) lo b = Some v /\ In x v) /\
    ~ Lit (int_lit sz (fn_intcs f) x) f b.
  Proof.
    exists d2_f, true, 20, [(0, [1%Z; 2%Z])], 1%Z, 0.
    split; [vm_compute; reflexivity|]. split; [apply size_in_U; lia|].
    split; [vm_compute; reflexivity|]. split; [exists [1%Z; 2%Z]; split; [reflexivity|left; reflexivity]|].
    intros H. apply Lit_okb in H. destruct H as (blk & Hb & ast & Hast & HF).
    vm_compute in Hb. inversion Hb; subst blk. vm_compute in Hast. inversion Hast; subst ast.
    rewrite Forall_forall in HF.
    specialize (HF (4, IAssert, [SKnown ILess 3 [SKnown (IInt (IANum 3)) 1 [] 0; SKnown (IGlobal "GroupSize") 2 [] 0] 0])).
    assert (Hin : In (4, IAssert, [SKnown ILess 3 [SKnown (IInt (IANum 3)) 1 [] 0; SKnown (IGlobal "GroupSize") 2 [] 0] 0])
                     [(0, IPragma 6, []); (1, IInt (IANum 3), []); (2, IGlobal "GroupSize", []);
                      (3, ILess, [SKnown (IInt (IANum 3)) 1 [] 0; SKnown (IGlobal "GroupSize") 2 [] 0]);
                      (4, IAssert, [SKnown ILess 3 [SKnown (IInt (IANum 3)) 1 [] 0; SKnown (IGlobal "GroupSize") 2 [] 0] 0]);
                      (5, IInt (IANum 1), []); (6, IReturn, [SKnown (IInt (IANum 1)) 5 [] 0])])
      by (do 4 right; left; reflexivity).
    specialize (HF Hin). vm_compute in HF. discriminate HF.
  Qed.

  (* ---------------------------------------------------------------- C08 *)
  Definition addr_lines : list string :=
    ["#pragma version 6"; "txn RekeyTo"; "global ZeroAddress"; "=="; "assert"; "int 1"; "return"].
  Definition addr_f : func := of_lines addr_lines.

  (* RekeyTo is compared against ZeroAddress on the only path: not "any address", whatever the fuel *)
  Example addr_f_not_any bc fuel lo v :
    init_constraints sset addr_universal_set addr_null_set addr_union addr_intersection
      (addr_single (fn_intcs addr_f) KSelf "RekeyTo") addr_f = Some bc ->
    solve sset sset_seteqb addr_universal_set addr_null_set addr_union addr_intersection
      (addr_single (fn_intcs addr_f) KSelf "RekeyTo") addr_f fuel bc = Done lo ->
    Analysis.lookup sset lo 0 = Some v -> smem ANY_ADDRESS v = false.
  Proof.
    intros Hinit Hs Hv. apply (C08_constrained_not_any addr_f KSelf "RekeyTo" bc fuel lo 0 v Hinit Hs Hv).
    exists "X". split; [reflexivity|].
    intros H. apply Lit_okb in H. destruct H as (blk & Hb & ast & Hast & HF).
    vm_compute in Hb. inversion Hb; subst blk. vm_compute in Hast. inversion Hast; subst ast.
    rewrite Forall_forall in HF.
    specialize (HF (4, IAssert, [SKnown IEq 3 [SKnown (ITxn ("RekeyTo", None)) 1 [] 0; SKnown (IGlobal "ZeroAddress") 2 [] 0] 0])
                   ltac:(do 4 right; left; reflexivity)).
    vm_compute in HF. destruct HF as [_ [E|E]]; discriminate E.
  Qed.

  (* the field CloseRemainderTo is not compared: by exactness every address name has a literal accepting path *)
  Example addr_f_close_free n : is_marker n = false ->
    Lit (addr_lit (fn_intcs addr_f) KSelf "CloseRemainderTo" n) addr_f 0.
  Proof.
    intros Hm.
    assert (Hinit : init_constraints sset addr_universal_set addr_null_set addr_union addr_intersection
              (addr_single (fn_intcs addr_f) KSelf "CloseRemainderTo") addr_f = Some [(0, addr_universal_set)])
      by (vm_compute; reflexivity).
    assert (Hs : solve sset sset_seteqb addr_universal_set addr_null_set addr_union addr_intersection
              (addr_single (fn_intcs addr_f) KSelf "CloseRemainderTo") addr_f 20 [(0, addr_universal_set)]
              = Done [(0, addr_universal_set)]) by (vm_compute; reflexivity).
    apply (C08_result_exact addr_f KSelf "CloseRemainderTo" _ 20 _ n ltac:(vm_compute; reflexivity) Hm Hinit Hs 0).
    exists addr_universal_set. split; [reflexivity|]. apply addr_universal_gamma. exact Hm.
  Qed.

  (* ---------------------------------------------------------------- C09 *)
  Definition fee_lines : list string :=
    ["#pragma version 6"; "txn Fee"; "int 1000"; "<="; "assert"; "int 1"; "return"].
  Definition fee_f : func := of_lines fee_lines.
  Definition fee_bc : list (nat * feeval) := [(0, mkFee false 1000)].

  Example fee_f_wf : graph_wf fee_f = true.
  Proof. vm_compute. reflexivity. Qed.
  Example fee_f_init :
    init_constraints feeval fee_universal_set fee_null_set fee_union fee_intersection
      (fee_single (fn_intcs fee_f) KSelf) fee_f = Some fee_bc.
  Proof. vm_compute. reflexivity. Qed.
  (* the single direct check `Fee <= 1000` yields exactly the bound 1000 *)
  Example fee_f_solve :
    solve feeval feeval_eqb fee_universal_set fee_null_set fee_union fee_intersection
      (fee_single (fn_intcs fee_f) KSelf) fee_f 20 fee_bc = Done [(0, mkFee false 1000)].
  Proof. vm_compute. reflexivity. Qed.

  (* by exactness: the fee 1000 has a literal accepting path through block 0, the fee 1001 has none *)
  Example fee_f_lit_1000 : Lit (fee_lit (fn_intcs fee_f) KSelf 1000) fee_f 0.
  Proof.
    apply (C09_result_exact fee_f KSelf fee_bc 20 _ 1000%Z fee_f_wf ltac:(vm_compute; split; [reflexivity|discriminate])
             fee_f_init fee_f_solve 0).
    exists (mkFee false 1000). split; [reflexivity|]. vm_compute. discriminate.
  Qed.
  Example fee_f_not_lit_1001 : ~ Lit (fee_lit (fn_intcs fee_f) KSelf 1001) fee_f 0.
  Proof.
    intros H.
    apply (C09_result_exact fee_f KSelf fee_bc 20 _ 1001%Z fee_f_wf ltac:(vm_compute; split; [reflexivity|discriminate])
             fee_f_init fee_f_solve 0) in H.
    destruct H as (v & Hv & Hg). vm_compute in Hv. inversion Hv; subst v. vm_compute in Hg. apply Hg. reflexivity.
  Qed.
  (* the block is credited, hence no accepting path through it avoids the Fee comparisons *)
  Example fee_f_credit : ~ Literal.LiveOut fee_f (okb_nofee fee_f KSelf) (oke_nofee fee_f KSelf) 0.
  Proof.
    apply (C09_credit_needs_fee_comparison fee_f KSelf fee_bc 20 _ 0 (mkFee false 1000) fee_f_wf fee_f_init fee_f_solve);
      reflexivity.
  Qed.
End Examples.

Print Assumptions solve_lit_justified.
Print Assumptions solve_lit_contains.
Print Assumptions solve_lit_exact.
Print Assumptions Lit_ext.
Print Assumptions C06_result_justified_tool.
Print Assumptions C06_result_exact_tool.
Print Assumptions C06_result_justified_partial.
Print Assumptions C06_result_exact_partial.
Print Assumptions C06_listed_in_universe.
Print Assumptions C06_no_literal_path_lists_nothing_partial.
Print Assumptions C06_no_literal_path_lists_nothing_tool.
Print Assumptions int_not_mirrored_b_sound.
Print Assumptions C08_result_justified.
Print Assumptions C08_constrained_not_any.
Print Assumptions C08_constrained_not_any_flag.
Print Assumptions C08_constrained_not_any_run.
Print Assumptions C08_result_contains.
Print Assumptions C08_result_exact.
Print Assumptions addr_lit_unfold.
Print Assumptions addr_const_literal.
Print Assumptions fee_leaf_free.
Print Assumptions fee_leaf_direct.
Print Assumptions fee_cmp_reading_D25_refuted.
Print Assumptions fee_leaf_heuristic.
Print Assumptions C09_result_justified.
Print Assumptions C09_result_contains.
Print Assumptions C09_result_exact.
Print Assumptions checks_missing_fee_check_credited.
Print Assumptions C09_credit_justified.
Print Assumptions C09_credit_needs_fee_comparison.
Print Assumptions C09_credit_justified_run.
Print Assumptions Examples.int_f_lit_2.
Print Assumptions Examples.int_f_not_lit_3.
Print Assumptions Examples.C06_result_exact_D2_refuted.
Print Assumptions Examples.addr_f_not_any.
Print Assumptions Examples.addr_f_close_free.
Print Assumptions Examples.fee_f_lit_1000.
Print Assumptions Examples.fee_f_not_lit_1001.
Print Assumptions Examples.fee_f_credit.

(* ====================================================================== *)
(* PART 6. the same instances in the value form of Props/C03.v            *)
(* (okb / oke of Lemmas/ExactLemmas.v: gamma of the computed block / edge constraints) *)
(* ====================================================================== *)
Theorem C06_result_exact_values f sz fuel bc lo x :
  graph_wf f = true -> In x (int_U sz) ->
  solve (list Z) zset_eqb (int_U sz) [] zunion zinter (int_single sz (fn_intcs f)) f fuel bc = Done lo ->
  forall b, (exists v, Analysis.lookup (list Z) lo b = Some v /\ In x v) <->
            Literal.LiveOut f (ExactLemmas.okb (list Z) Z zin x bc)
              (ExactLemmas.oke (list Z) (int_U sz) [] zunion zinter (int_single sz (fn_intcs f)) f Z zin x) b.
Proof.
  intros Hwf Hx Hs. destruct (graph_wf_sound f Hwf) as (C1 & C2 & C3 & C4 & W1 & W2 & _ & _).
  exact (solve_exact_iff (list Z) zset_eqb (int_U sz) [] zunion zinter (int_single sz (fn_intcs f)) f Z zin x
           (zin_null x) (zin_union_inv x) (zin_inter_inv x) bc Hx (zin_union_l x) (zin_union_r x) (zin_inter x)
           (zin_eqb x) zset_eqb_refl C1 C2 C3 C4 fuel lo W1 W2 Hs).
Qed.

Theorem C09_result_exact_values f fam fuel bc lo x :
  graph_wf f = true -> (0 < x <= MAX_UINT64z)%Z ->
  solve feeval feeval_eqb fee_universal_set fee_null_set fee_union fee_intersection (fee_single (fn_intcs f) fam) f fuel bc = Done lo ->
  forall b, (exists v, Analysis.lookup feeval lo b = Some v /\ fee_gamma v x) <->
            Literal.LiveOut f (ExactLemmas.okb feeval Z fee_gamma x bc)
              (ExactLemmas.oke feeval fee_universal_set fee_null_set fee_union fee_intersection
                 (fee_single (fn_intcs f) fam) f Z fee_gamma x) b.
Proof.
  intros Hwf [Hx0 Hx1] Hs. destruct (graph_wf_sound f Hwf) as (C1 & C2 & C3 & C4 & W1 & W2 & _ & _).
  exact (solve_exact_iff feeval feeval_eqb fee_universal_set fee_null_set fee_union fee_intersection
           (fee_single (fn_intcs f) fam) f Z fee_gamma x
           (fee_null_pos x Hx0)
           (fun a b H => proj1 (fee_union_exact a b x) H) (fun a b H => proj1 (fee_intersection_exact a b x) H)
           bc (fee_universal_gamma x Hx1)
           (fun a b H => proj2 (fee_union_exact a b x) (or_introl H))
           (fun a b H => proj2 (fee_union_exact a b x) (or_intror H))
           (fun a b H1 H2 => proj2 (fee_intersection_exact a b x) (conj H1 H2))
           (fee_eqb_gamma x) feeval_eqb_refl C1 C2 C3 C4 fuel lo W1 W2 Hs).
Qed.

(* _partial: on raw address sets only the inverse laws hold for addr_gamma, so the value form is available in
   the justification direction only (the converse is C08_result_contains, through rgamma and the literal reading) *)
Theorem C08_result_justified_values_partial f fam fld fuel bc lo n :
  solve sset sset_seteqb addr_universal_set addr_null_set addr_union addr_intersection
    (addr_single (fn_intcs f) fam fld) f fuel bc = Done lo ->
  forall b v, Analysis.lookup sset lo b = Some v -> addr_gamma v n ->
  Literal.LiveOut f (ExactLemmas.okb sset string addr_gamma n bc)
    (ExactLemmas.oke sset addr_universal_set addr_null_set addr_union addr_intersection
       (addr_single (fn_intcs f) fam fld) f string addr_gamma n) b.
Proof.
  exact (solve_exact sset sset_seteqb addr_universal_set addr_null_set addr_union addr_intersection
           (addr_single (fn_intcs f) fam fld) f string addr_gamma n
           (addr_null_gamma n) (addr_union_inv_raw n) (addr_inter_inv_raw n) bc fuel lo).
Qed.

(* why C09 needs 0 < x: the null element is the bound 0, so a block on no accepting path (here: an `err` block)
   still "allows" the fee 0 *)
Theorem C09_result_justified_zero_refuted : exists f fam bc fuel lo b v,
  init_constraints feeval fee_universal_set fee_null_set fee_union fee_intersection (fee_single (fn_intcs f) fam) f = Some bc /\
  solve feeval feeval_eqb fee_universal_set fee_null_set fee_union fee_intersection (fee_single (fn_intcs f) fam) f fuel bc = Done lo /\
  Analysis.lookup feeval lo b = Some v /\ fee_gamma v 0 /\ ~ Lit (fee_lit (fn_intcs f) fam 0) f b.
Proof.
  exists Examples.int_f, KSelf, [(0, fee_universal_set); (2, fee_null_set); (1, fee_universal_set)], 20,
         [(0, fee_universal_set); (2, fee_null_set); (1, fee_universal_set)], 2, fee_null_set.
  split; [vm_compute; reflexivity|]. split; [vm_compute; reflexivity|]. split; [reflexivity|].
  split; [vm_compute; discriminate|].
  intros H. apply Lit_okb in H. destruct H as (blk & Hb & ast & Hast & HF).
  vm_compute in Hb. inversion Hb; subst blk. vm_compute in Hast. inversion Hast; subst ast.
  rewrite Forall_forall in HF. exact (HF (8, IErr, []) ltac:(right; left; reflexivity)).
Qed.

Print Assumptions C06_result_exact_values.
Print Assumptions C09_result_exact_values.
Print Assumptions C08_result_justified_values_partial.
Print Assumptions C09_result_justified_zero_refuted.
