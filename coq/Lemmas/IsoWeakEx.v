(* Non-vacuity of IsoWeak on the pair that the in-order check rejects (MoveSubEx.m3_rejected): both moved regions jump
   to one common block, whose predecessor list is [2;3] in both parses while the renaming maps it to [3;2]. *)
From Coq Require Import String List NArith ZArith Bool Arith Lia.
From Tealer Require Import Tables LeafPrelude Leaves Syntax Parse Cfg StackAst Keys Analysis Domains Detect
  SolverLemmas IsoLemmas GraphWf MoveSubLemmas IsoEx MoveSubEx IsoWeak.
Import ListNotations.
Open Scope string_scope.

Definition m3_f : func := Eval vm_compute in whole_function m3_t.
Definition m3_f' : func := Eval vm_compute in whole_function m3_t'.
Definition m3_r : nat -> nat := mv_r m3_M m3_S1 m3_S2 m3_R.
Definition m3_g : nat -> nat := mv_g m3_M m3_S1 m3_S2.

(* the weak check accepts the pair, and the moved program's graph passes the model's well-formedness check *)
Example m3w_accepted :
  m3_f = whole_function m3_t /\ m3_f' = whole_function m3_t' /\
  iso_check_graph m3_r m3_g m3_f m3_f' = false /\
  iso_w_check m3_r m3_g m3_f m3_f' = true /\ graph_wf m3_f' = true.
Proof. repeat split; vm_compute; reflexivity. Qed.

Lemma m3w_fiso_w : fiso_w m3_r m3_g m3_f m3_f'.
Proof.
  apply iso_w_check_sound.
  - apply mv_r_inj.
  - apply swap_shift_inj.
  - vm_compute. reflexivity.
Qed.

Definition m3_res0 : fn_result := mkRes [] [] [] [] [].
Definition m3_res : fn_result := Eval vm_compute in match run_all m3_f 200 with Done x => x | _ => m3_res0 end.
Definition m3_res' : fn_result := Eval vm_compute in match run_all m3_f' 200 with Done x => x | _ => m3_res0 end.

(* both analyses terminate; every detector reports on the moved program exactly the renamed paths, in the same
   order; missing-fee-check really reports (two paths) *)
Example m3w_verdicts :
  run_all m3_f 200 = Done m3_res /\ run_all m3_f' 200 = Done m3_res' /\
  map (fun nc => run_detector m3_f' m3_res' 200 (fst nc) (snd nc)) detectors =
  map (fun nc => omap (ren_paths m3_r) (run_detector m3_f m3_res 200 (fst nc) (snd nc))) detectors /\
  run_detector m3_f m3_res 200 "missing-fee-check" checks_missing_fee_check = Done [[0; 1; 2; 4]; [0; 3; 4]] /\
  run_detector m3_f' m3_res' 200 "missing-fee-check" checks_missing_fee_check = Done [[0; 1; 3; 4]; [0; 2; 4]].
Proof. repeat split; vm_compute; reflexivity. Qed.

(* the theorem applied: the detector runs agree as soon as the validation verdicts do *)
Example m3w_theorem name checks fuel :
  (forall n, validated_in_block m3_res' checks None n = validated_in_block (ren_result m3_r m3_res) checks None n) ->
  run_detector m3_f' m3_res' fuel name checks = omap (ren_paths m3_r) (run_detector m3_f m3_res fuel name checks).
Proof. exact (wiso_run_detector m3_r m3_g m3_f m3_f' m3_res m3_res' fuel name checks m3w_fiso_w). Qed.

Print Assumptions m3w_fiso_w.
Print Assumptions m3w_theorem.
