(* The instruction edges of a sub-program made of a successor-closed set of blocks (CopyDefs.next_sel), and with
   Lemmas/CopyScan.v (create_bb) and Lemmas/CopyCore.v (fourth pass) the theorem

     sub_program_blocks : build_blocks p = Some bs -> closed bs M -> nonempty_sel bs M -> copy_of p (sel_pos bs M) pc ->
                          build_blocks pc = Some (sel_blocks bs M)

   i.e. re-parsing the instructions of a closed block set M of a program (same opcodes, in order) yields exactly the
   blocks of M: same instructions, same successor lists in the same order, predecessor lists restricted to M, all
   renamed by position (CopyDefs.index_of).  No hypothesis on labels is needed: a label a selected instruction jumps
   to is defined inside the selection (the target block is a successor), and its LAST definition in p is the one the
   jump resolves to, hence the last one in the copy as well. *)
From Coq Require Import String List NArith ZArith Bool Arith Lia Sorting.Sorted.
From Tealer Require Import Tables Syntax Parse Cfg CfgLemmas SubLemmas CopyDefs CopyScan CopyCore.
Import ListNotations.
Open Scope string_scope.
Open Scope list_scope.

(* ------------------------------------------------------------------ find_label = the last definition *)
Lemma flf_none l : forall p k acc, (forall j, op_at p j <> Some (ILabel l)) -> find_label_from l p k acc = acc.
Proof.
  induction p as [|i p IH]; intros k acc H; [reflexivity|]. cbn [find_label_from].
  rewrite IH.
  - pose proof (H 0) as H0. unfold op_at in H0. cbn [nth_error option_map] in H0.
    destruct (i_op i) eqn:Ei; try reflexivity. destruct (String.eqb l0 l) eqn:El; [|reflexivity].
    apply String.eqb_eq in El. subst l0. congruence.
  - intros j. exact (H (S j)).
Qed.

Lemma flf_intro l : forall p k acc t,
  op_at p t = Some (ILabel l) -> (forall t', t < t' -> op_at p t' <> Some (ILabel l)) ->
  find_label_from l p k acc = Some (k + t).
Proof.
  induction p as [|i p IH]; intros k acc t Ht Hlast; [destruct t; discriminate|].
  cbn [find_label_from]. destruct t as [|t].
  - unfold op_at in Ht. cbn [nth_error option_map] in Ht. inversion Ht as [Ei]. rewrite Ei, String.eqb_refl.
    rewrite flf_none; [f_equal; lia|]. intros j. apply (Hlast (S j)). lia.
  - rewrite (IH (S k) _ t).
    + f_equal; lia.
    + exact Ht.
    + intros t' Hlt. apply (Hlast (S t')). lia.
Qed.

Lemma flf_ge l : forall p k acc r,
  find_label_from l p k acc = Some r -> forall j, op_at p j = Some (ILabel l) -> k + j <= r.
Proof.
  induction p as [|i p IH]; intros k acc r H j Hj; [destruct j; discriminate|].
  cbn [find_label_from] in H. destruct j as [|j].
  - unfold op_at in Hj. cbn [nth_error option_map] in Hj. inversion Hj as [Ei]. rewrite Ei, String.eqb_refl in H.
    apply find_label_from_spec in H. destruct H as [H|(j' & -> & _)]; [inversion H; lia | lia].
  - pose proof (IH _ _ _ H j Hj). lia.
Qed.

Lemma find_label_intro p l t :
  op_at p t = Some (ILabel l) -> (forall t', t < t' -> op_at p t' <> Some (ILabel l)) -> find_label p l = Some t.
Proof. intros H1 H2. unfold find_label. rewrite (flf_intro l p 0 None t H1 H2). reflexivity. Qed.

Lemma find_label_last p l t : find_label p l = Some t -> forall t', t < t' -> op_at p t' <> Some (ILabel l).
Proof. unfold find_label. intros H t' Hlt Ht'. pose proof (flf_ge l p 0 None t H t' Ht'). lia. Qed.

Lemma find_label_lt' p l t : find_label p l = Some t -> t < length p.
Proof.
  intros H. apply find_label_spec in H. unfold op_at in H. apply nth_error_Some. intros E. rewrite E in H. discriminate.
Qed.

Lemma ins_next_bound p k nx y : ins_next p k = Some nx -> In y nx -> y < length p.
Proof.
  unfold ins_next. destruct (op_at p k) as [i|]; [|discriminate].
  destruct (map_opt (find_label p) (jump_labels i)) as [js|] eqn:Ej; [|discriminate].
  intros H Hy. injection H as <-. apply in_app_or in Hy. destruct Hy as [Hy|Hy].
  - destruct (negb (no_fallthrough i) && Nat.ltb (S k) (length p))%bool eqn:E; [|destruct Hy].
    destruct Hy as [<-|[]]. apply andb_prop in E. destruct E as [_ E]. apply Nat.ltb_lt in E. exact E.
  - apply (map_opt_In _ _ _ Ej) in Hy. destruct Hy as (l & _ & Hl). exact (find_label_lt' p l y Hl).
Qed.

(* ------------------------------------------------------------------ sorted lists *)
Lemma ssorted_app_intro : forall (l1 l2 : list nat),
  StronglySorted lt l1 -> StronglySorted lt l2 -> (forall x y, In x l1 -> In y l2 -> x < y) -> StronglySorted lt (l1 ++ l2).
Proof.
  induction l1 as [|a l1 IH]; intros l2 H1 H2 H; [exact H2|]. cbn [app]. inversion H1 as [|? ? Hs Hf]; subst.
  constructor.
  - apply IH; [assumption | assumption|]. intros x y Hx Hy. apply H; [right; assumption | assumption].
  - apply Forall_app. split; [assumption|]. apply Forall_forall. intros y Hy. apply H; [left; reflexivity | assumption].
Qed.

Lemma ssorted_app_inv : forall (l1 l2 : list nat),
  StronglySorted lt (l1 ++ l2) ->
  StronglySorted lt l1 /\ StronglySorted lt l2 /\ (forall x y, In x l1 -> In y l2 -> x < y).
Proof.
  induction l1 as [|a l1 IH]; intros l2 H.
  - split; [constructor|]. split; [exact H|]. intros x y [].
  - cbn [app] in H. inversion H as [|? ? Hs Hf]; subst. destruct (IH l2 Hs) as (H1 & H2 & H3).
    rewrite Forall_app in Hf. destruct Hf as [Hf1 Hf2]. split; [constructor; assumption|]. split; [assumption|].
    intros x y [<-|Hx] Hy; [rewrite Forall_forall in Hf2; apply Hf2; assumption | apply H3; assumption].
Qed.

Lemma selL_sorted (g : rawblock -> list nat) M : forall l o,
  StronglySorted lt (flat_map g l) -> StronglySorted lt (flat_map g (selL M o l)).
Proof.
  induction l as [|a l IH]; intros o H; [constructor|]. cbn [flat_map] in H.
  destruct (ssorted_app_inv _ _ H) as (H1 & H2 & H3). cbn [selL]. destruct (nat_mem o M).
  - cbn [flat_map]. apply ssorted_app_intro; [assumption | apply IH; assumption|].
    intros x y Hx Hy. apply H3; [assumption|]. apply in_flat_map in Hy. destruct Hy as (b & Hb & Hy).
    apply in_flat_map. exists b. split; [eapply selL_In; eauto | assumption].
  - apply IH. assumption.
Qed.

Lemma selL_In_iff {A} M : forall (l : list A) o b,
  In b (selL M o l) <-> exists i, nth_error l i = Some b /\ In (o + i) M.
Proof.
  induction l as [|a l IH]; intros o b; cbn [selL].
  - split; [intros [] | intros ([|i] & H & _); discriminate].
  - destruct (nat_mem o M) eqn:Em.
    + cbn [In]. rewrite IH. split.
      * intros [->|(i & Hi & Hin)].
        -- exists 0. split; [reflexivity|]. rewrite Nat.add_0_r. apply nat_mem_In. assumption.
        -- exists (S i). split; [exact Hi|]. replace (o + S i) with (S o + i) by lia. assumption.
      * intros ([|i] & Hi & Hin); [left; inversion Hi; reflexivity|]. right. exists i. split; [exact Hi|].
        replace (S o + i) with (o + S i) by lia. assumption.
    + rewrite IH. split.
      * intros (i & Hi & Hin). exists (S i). split; [exact Hi|]. replace (o + S i) with (S o + i) by lia. assumption.
      * intros ([|i] & Hi & Hin).
        -- rewrite Nat.add_0_r in Hin. apply nat_mem_In in Hin. congruence.
        -- exists i. split; [exact Hi|]. replace (S o + i) with (o + S i) by lia. assumption.
Qed.

(* ------------------------------------------------------------------ the edges of the copy *)
Section Next.
Variables (p : prog) (rbs : list rawblock) (bs : list block) (M : list nat) (pc : prog).
Hypothesis Hc : create_bb p = Some rbs.
Hypothesis Hb : build_blocks p = Some bs.
Hypothesis Hcl : closed bs M.
Hypothesis Hcopy : copy_of p (sel_pos bs M) pc.

Let K := sel_pos bs M.
Let sigma := fun x => index_of x K.

Lemma Hp : p <> [].
Proof. intros E. pose proof Hb as H. rewrite E, build_blocks_nil in H. discriminate. Qed.

Lemma Hlen : length bs = length rbs.
Proof. exact (proj1 (sel_pos_selL p bs rbs M Hc Hb)). Qed.

Lemma K_selL : K = flat_map rb_ins (selL M 0 rbs).
Proof. exact (proj2 (sel_pos_selL p bs rbs M Hc Hb)). Qed.

Lemma K_sorted : StronglySorted lt K.
Proof.
  rewrite K_selL. apply selL_sorted. rewrite flat_map_concat_map, (blocks_partition p rbs Hc Hp). apply ssorted_seq.
Qed.

Lemma K_In x : In x K <-> exists n rb, nth_error rbs n = Some rb /\ In n M /\ In x (rb_ins rb).
Proof.
  rewrite K_selL, in_flat_map. split.
  - intros (rb & Hin & Hx). apply selL_In_iff in Hin. destruct Hin as (n & Hn & HM). exists n, rb. auto.
  - intros (n & rb & Hn & HM & Hx). exists rb. split; [|assumption]. apply selL_In_iff. exists n. auto.
Qed.

Lemma K_lt x : In x K -> x < length p.
Proof.
  intros H. apply K_In in H. destruct H as (n & rb & Hn & _ & Hx).
  assert (Hin : In x (concat (map rb_ins rbs))).
  { apply in_concat. exists (rb_ins rb). split; [apply in_map; eapply nth_error_In; eauto | assumption]. }
  rewrite (blocks_partition p rbs Hc Hp) in Hin. apply in_seq in Hin. lia.
Qed.

(* the block of a position *)
Lemma pos_block x : x < length p -> exists n rb, nth_error rbs n = Some rb /\ In x (rb_ins rb).
Proof.
  intros Hx. assert (Hin : In x (concat (map rb_ins rbs))).
  { rewrite (blocks_partition p rbs Hc Hp). apply in_seq. lia. }
  apply in_concat in Hin. destruct Hin as (l & Hl & Hxl). apply in_map_iff in Hl. destruct Hl as (rb & <- & Hrb).
  apply In_nth_error in Hrb. destruct Hrb as (n & Hn). eauto.
Qed.

Lemma block_cell n rb : nth_error rbs n = Some rb ->
  exists B, nth_error bs n = Some B /\ In B bs /\ b_ins B = rb_ins rb /\ b_next B = next_of bs n.
Proof.
  intros Hn. assert (Hlt : n < length bs) by (rewrite Hlen; apply nth_error_Some; congruence).
  destruct (nth_error bs n) as [B|] eqn:EB; [|apply nth_error_None in EB; lia].
  exists B. split; [reflexivity|]. split; [eapply nth_error_In; eauto|].
  destruct (build_blocks_spec p bs Hb) as (rbs0 & nexts & Hc0 & _ & _ & _ & Hspec).
  rewrite Hc in Hc0. inversion Hc0; subst rbs0.
  destruct (Hspec n B EB) as (rb' & nx & Hrb' & _ & _ & E). rewrite Hn in Hrb'. inversion Hrb'; subst rb'.
  subst B. cbn [b_ins b_next]. split; [reflexivity|]. unfold next_of, get_block. rewrite EB. reflexivity.
Qed.

(* every instruction edge out of the selection stays inside it *)
Lemma next_in_K k nx x : In k K -> ins_next p k = Some nx -> In x nx -> In x K.
Proof.
  intros Hk Hnx Hx. apply K_In in Hk. destruct Hk as (n & rb & Hn & HM & Hkin).
  destruct (block_cell n rb Hn) as (B & HB & HinB & Hins & Hnext).
  destruct (Nat.eq_dec k (last (rb_ins rb) 0)) as [Ek|Ek].
  - (* exit instruction: the target block is a successor *)
    pose proof (ins_next_bound p k nx x Hnx Hx) as Hxlt.
    destruct (pos_block x Hxlt) as (m & rbm & Hm & Hxm).
    assert (Hsucc : In m (b_next B)).
    { apply (next_meaning p bs rbs B m Hb Hc HinB). exists nx, x. rewrite Hins, <- Ek. split; [assumption|].
      split; [assumption|]. apply (block_lookup p rbs m rbm x Hc Hp Hm Hxm). }
    apply K_In. exists m, rbm. split; [assumption|]. split; [|assumption].
    apply (Hcl n m HM); [rewrite Hlen; apply nth_error_Some; congruence | rewrite <- Hnext; assumption].
  - (* inner instruction: the only successor is the next instruction of the same block *)
    destruct (block_interior p rbs Hc rb k (nth_error_In _ _ Hn) Hkin) as [Hnl _].
    pose proof (Hnl Ek) as Hpnl. destruct (Pnl_fallthrough p k Hpnl) as (i & Hop & Hf).
    destruct Hpnl as (i' & nx' & Hop' & Hnx' & Hl1 & _). rewrite Hnx in Hnx'. inversion Hnx'; subst nx'.
    (* S k is in the same block *)
    assert (Hsplit : exists l1 y l2, rb_ins rb = l1 ++ k :: y :: l2).
    { apply in_split in Hkin. destruct Hkin as (l1 & l2 & E). destruct l2 as [|y l2].
      - exfalso. apply Ek. rewrite E, last_last. reflexivity.
      - exists l1, y, l2. exact E. }
    destruct Hsplit as (l1 & y & l2 & E).
    destruct (nth_error_split rbs n Hn) as (r1 & r2 & Er & _).
    pose proof (blocks_partition p rbs Hc Hp) as Hpart. rewrite Er, map_app, concat_app in Hpart.
    cbn [map concat] in Hpart. rewrite E in Hpart.
    assert (Hs : seq 0 (length p) = (concat (map rb_ins r1) ++ l1) ++ k :: y :: (l2 ++ concat (map rb_ins r2))).
    { rewrite <- Hpart, <- !app_assoc. reflexivity. }
    pose proof (seq_adjacent _ _ _ _ _ _ Hs) as Ey. subst y.
    assert (HSk : S k < length p).
    { assert (Hin : In (S k) (seq 0 (length p))) by (rewrite Hs; apply in_or_app; right; right; left; reflexivity).
      apply in_seq in Hin. lia. }
    destruct (ins_next_fall p k i nx Hop Hf HSk Hnx) as (js & _ & Enx). subst nx. cbn [length] in Hl1.
    destruct js; [|discriminate]. destruct Hx as [<-|[]].
    apply K_In. exists n, rb. split; [assumption|]. split; [assumption|]. rewrite E. apply in_or_app. right. right. left. reflexivity.
Qed.

Lemma all_next k : k < length p -> exists nx, ins_next p k = Some nx.
Proof.
  intros Hk. destruct (ins_next p k) as [nx|] eqn:E; [eauto|]. exfalso.
  pose proof (create_bb_grp p rbs Hc) as _.
  (* create_bb p = Some _ forces every ins_next to be defined *)
  unfold create_bb in Hc.
  assert (Hs : scan p (pred (length p)) p 0 ([], []) = None).
  { clear Hc. assert (G : forall rest pre st, p = pre ++ rest -> length pre <= k -> scan p (pred (length p)) rest (length pre) st = None).
    { induction rest as [|a rest IH]; intros pre st Ep Hle.
      - exfalso. rewrite Ep, app_nil_r in Hk. lia.
      - cbn [scan]. destruct (Nat.eq_dec (length pre) k) as [->|Hne]; [rewrite E; reflexivity|].
        destruct (ins_next p (length pre)); [|reflexivity].
        assert (El : length (pre ++ [a]) = S (length pre)) by (rewrite app_length; simpl; lia).
        rewrite <- El. apply IH; [rewrite <- app_assoc; exact Ep | rewrite El; lia]. }
    apply (G p [] ([], []) eq_refl). simpl. lia. }
  rewrite Hs in Hc. discriminate.
Qed.

Lemma len_pc' : length pc = length K.
Proof. exact (Forall2_len _ _ _ Hcopy). Qed.

Lemma op_pc j k : nth_error K j = Some k -> op_at pc j = op_at p k.
Proof.
  intros Hj. destruct (Forall2_nth _ _ _ _ _ Hcopy Hj) as (c & Hcj & Hop).
  unfold op_at at 1. rewrite Hcj. cbn [option_map]. symmetry. exact Hop.
Qed.

Lemma sigma_nth j k : nth_error K j = Some k -> sigma k = j.
Proof. intros H. apply (nth_error_index_of K j k (ssorted_NoDup _ K_sorted) H). Qed.

Lemma nth_sigma x : In x K -> nth_error K (sigma x) = Some x.
Proof. apply index_of_nth_error. Qed.

(* the last definition of a label the selection jumps to is inside the selection, hence the last one of the copy *)
Lemma find_label_pc l t : find_label p l = Some t -> In t K -> find_label pc l = Some (sigma t).
Proof.
  intros Hfl Ht. apply find_label_intro.
  - rewrite (op_pc (sigma t) t (nth_sigma t Ht)). apply find_label_spec. exact Hfl.
  - intros j' Hlt Hj'.
    assert (Hj'lt : j' < length K).
    { rewrite <- len_pc'. unfold op_at in Hj'. apply nth_error_Some. intros E. rewrite E in Hj'. discriminate. }
    destruct (nth_error K j') as [k'|] eqn:Ek'; [|apply nth_error_None in Ek'; lia].
    rewrite (op_pc j' k' Ek') in Hj'.
    pose proof (ssorted_nth K (sigma t) j' t k' K_sorted Hlt (nth_sigma t Ht) Ek') as Hlt'.
    exact (find_label_last p l t Hfl k' Hlt' Hj').
Qed.

Lemma map_opt_labels ls : forall js,
  map_opt (find_label p) ls = Some js -> (forall x, In x js -> In x K) ->
  map_opt (find_label pc) ls = Some (map sigma js).
Proof.
  induction ls as [|l ls IH]; intros js H Hin; cbn [map_opt] in *.
  - inversion H. reflexivity.
  - destruct (find_label p l) as [t|] eqn:Et; [|discriminate].
    destruct (map_opt (find_label p) ls) as [r|] eqn:Er; [|discriminate]. inversion H; subst js.
    rewrite (find_label_pc l t Et (Hin t (or_introl eq_refl))), (IH r eq_refl).
    + reflexivity.
    + intros x Hx. apply Hin. right. assumption.
Qed.

Theorem next_sel_closed : next_sel p pc K.
Proof.
  intros j k Hj.
  assert (HkK : In k K) by (eapply nth_error_In; eauto).
  pose proof (K_lt k HkK) as Hklt.
  destruct (all_next k Hklt) as (nx & Hnx). exists nx. split; [assumption|].
  assert (Hall : forall x, In x nx -> In x K) by (intros x Hx; exact (next_in_K k nx x HkK Hnx Hx)).
  split; [exact Hall|].
  pose proof (sigma_nth j k Hj) as Esj.
  unfold ins_next in Hnx |- *. rewrite (op_pc j k Hj).
  destruct (op_at p k) as [i|] eqn:Hop; [|discriminate].
  destruct (map_opt (find_label p) (jump_labels i)) as [js|] eqn:Ejs; [|discriminate].
  inversion Hnx as [Enx]. clear Hnx.
  rewrite (map_opt_labels (jump_labels i) js Ejs).
  2:{ intros x Hx. apply Hall. rewrite <- Enx. apply in_or_app. right. assumption. }
  rewrite map_app. f_equal. f_equal. rewrite len_pc'.
  destruct (negb (no_fallthrough i)) eqn:Ef; cbn [andb]; [|reflexivity].
  destruct (Nat.ltb (S k) (length p)) eqn:Elt.
  - (* S k is a successor, hence selected, hence the next element of K *)
    assert (HSk : In (S k) K).
    { apply Hall. rewrite <- Enx. left. reflexivity. }
    pose proof (ssorted_consecutive K k K_sorted HkK HSk) as Econs. fold (sigma (S k)) in Econs. fold (sigma k) in Econs.
    rewrite Esj in Econs.
    pose proof (index_of_lt (S k) K HSk) as Hlt. fold (sigma (S k)) in Hlt. rewrite Econs in Hlt.
    apply Nat.ltb_lt in Hlt. rewrite Hlt. cbn [map]. fold (sigma (S k)). rewrite Econs. reflexivity.
  - destruct (Nat.ltb (S j) (length K)) eqn:Elt'; [|reflexivity]. exfalso.
    apply Nat.ltb_lt in Elt'. apply Nat.ltb_ge in Elt.
    destruct (nth_error K (S j)) as [y|] eqn:Ey; [|apply nth_error_None in Ey; lia].
    pose proof (ssorted_nth K j (S j) k y K_sorted (Nat.lt_succ_diag_r j) Hj Ey) as Hky.
    pose proof (K_lt y (nth_error_In _ _ Ey)). lia.
Qed.

End Next.

(* ------------------------------------------------------------------ the theorem *)
(* THEOREM: the block construction run on the instructions of a successor-closed set M of blocks of p yields exactly
   the blocks of M (renamed by position), with their successor lists unchanged and their predecessor lists restricted to M *)
Theorem sub_program_blocks p bs M pc :
  build_blocks p = Some bs -> closed bs M -> nonempty_sel bs M -> copy_of p (sel_pos bs M) pc ->
  build_blocks pc = Some (sel_blocks bs M).
Proof.
  intros Hb Hcl Hne Hcopy.
  destruct (build_blocks_spec p bs Hb) as (rbs & _ & Hc & _).
  pose proof (next_sel_closed p rbs bs M pc Hc Hb Hcl Hcopy) as Hnext.
  pose proof (create_bb_sel p rbs bs M pc Hc Hb Hcl Hne Hcopy Hnext) as Hcs.
  exact (build_blocks_sel p rbs bs M pc Hc Hb Hcl Hne Hcopy Hnext Hcs).
Qed.

Print Assumptions next_sel_closed.
Print Assumptions sub_program_blocks.
