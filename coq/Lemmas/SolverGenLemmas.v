(* The worklist iteration of the dataflow analysis REGENERATED from tealer's Python source (Gen/SolverGen.v:
   merge_information_forward_gen, forward_analyis_loop_gen / forward_analyis_gen, merge_information_backward_gen,
   backward_analysis_loop_gen / backward_analysis_gen, translated statement by statement from
   DataflowTransactionContext._merge_information_forward, forward_analyis, _merge_information_backward,
   backward_analysis) against the hand-written Analysis.forward / Analysis.backward and the start states of
   Domains.solve (SolverLemmas.fwd_st0 / bwd_st0).

   The generated functions are written for a LIST of analysis keys (the operations of the domains are indexed by the
   key); the model runs one key.  Results, for every carrier T, every family of operations, every function f, every key,
   every fuel and every worklist (erase : outcome A -> py (option A) forgets the text of the exception:
   Done a => Some (Some a), Exn _ => None, OutOfFuel => Some None):

   1. one step (merge_information_forward_gen_single / merge_information_backward_gen_single): for the key list [key]
      and a dictionary whose entry for key is st, the generated step is the model's recomputation of the block
      (fstep / bstep below, the body of Analysis.forward / backward), for every block id, dangling or not.
      Hypothesis for the backward step only: main_name_fresh f (next_blocks_global, see Lemmas/GraphGenLemmas.v).
   2. the while loops, from ANY start state (forward_analyis_loop_gen_eq, backward_analysis_loop_gen_eq), under
      main_name_fresh f: same fuel, exceptions = Exn, exhausted fuel = OutOfFuel.
   3. the initialisations (forward_init_gen_eq, backward_init_gen_eq) under NoDup (ids f) -- a Python dict has one
      entry per block, the model's start state one entry per element of fn_blocks: forward_analyis_gen_eq_refuted --
      and, for the backward one, when the block contexts have a value for every leaf block (Python raises KeyError
      otherwise, the model's start state takes null: backward_init_gen_exception, backward_init_model_default).
   4. whole methods (forward_analyis_gen_eq, backward_analysis_gen_eq), and Domains.solve (solve_gen_eq).
   5. the accumulation of the `updated` flag over SEVERAL keys (merge_information_forward_gen_cons /
      merge_information_backward_gen_cons): the flag of k :: ks is the disjunction of the flag of k and the flag of ks.
   6. transported theorems: forward_fixpoint_gen, backward_fixpoint_gen (SolverLemmas.forward_fixpoint_initial /
      backward_fixpoint_initial stated on the generated neighbourhood functions of Gen/GraphGen.v) and
      forward_order_independent_gen. *)
From Coq Require Import String List NArith ZArith Bool Arith Lia.
From Tealer Require Import Tables Syntax Parse Cfg StackAst Keys KeysGen Analysis GraphGen SolverGen Domains
  SolverLemmas TotalSolver GraphGenLemmas.
Import ListNotations.
Open Scope string_scope.
Open Scope list_scope.

(* the outcome of a fuelled model computation read in the exception monad of the generated code *)
Definition erase {A : Type} (o : outcome A) : py (option A) :=
  match o with Done a => Some (Some a) | Exn _ => None | OutOfFuel => Some None end.
Definition omap {A B : Type} (g : A -> B) (o : outcome A) : outcome B :=
  match o with Done a => Done (g a) | Exn e => Exn e | OutOfFuel => OutOfFuel end.

(* ====================================================================== *)
(* 0. Dictionaries, lists                                                  *)
(* ====================================================================== *)
Section Dicts.
  Variable T : Type.
  Notation state := (Analysis.state T).
  Notation gdict := (SolverGen.gdict T).

  Lemma kdict_get_set_same (d : gdict) k v : kdict_get T (kdict_set T d k v) k = Some v.
  Proof.
    induction d as [|[k' w] d IH]; cbn.
    - rewrite String.eqb_refl. reflexivity.
    - destruct (String.eqb k' k) eqn:E; cbn; rewrite E; auto.
  Qed.

  Lemma kdict_set_set (d : gdict) k v w : kdict_set T (kdict_set T d k v) k w = kdict_set T d k w.
  Proof.
    induction d as [|[k' u] d IH]; cbn.
    - rewrite String.eqb_refl. reflexivity.
    - destruct (String.eqb k' k) eqn:E; cbn; rewrite E; [reflexivity|]. rewrite IH. reflexivity.
  Qed.

  Lemma kdict_set_get_id (d : gdict) k v : kdict_get T d k = Some v -> kdict_set T d k v = d.
  Proof.
    induction d as [|[k' u] d IH]; cbn; [discriminate|].
    destruct (String.eqb k' k) eqn:E; intros H.
    - injection H as <-. reflexivity.
    - rewrite IH; auto.
  Qed.

  Lemma dict_set_update (d : state) k v old : lookup T d k = Some old -> dict_set T d k v = update T d k v.
  Proof. intros H. unfold dict_set. rewrite H. reflexivity. Qed.

  Lemma dict_set_new (d : state) k v : lookup T d k = None -> dict_set T d k v = d ++ [(k, v)].
  Proof. intros H. unfold dict_set. rewrite H. reflexivity. Qed.

  Lemma lookup_map_none (g : block -> T) (l : list block) n :
    ~ In n (map b_idx l) -> lookup T (map (fun b => (b_idx b, g b)) l) n = None.
  Proof.
    induction l as [|x l IH]; cbn; intros H; [reflexivity|].
    destruct (Nat.eqb (b_idx x) n) eqn:E.
    - apply Nat.eqb_eq in E. exfalso. apply H. left. exact E.
    - apply IH. intros Hi. apply H. right. exact Hi.
  Qed.

  (* the inner loop of the worklist update: `for bi in xs: if bi not in worklist: worklist.append(bi)` *)
  Lemma append_fold_eq (xs : list nat) : forall wl,
    fold_left (fun acc bi => bind acc (fun st => if negb (blk_in bi st) then ret (st ++ [bi]) else ret st))
      xs (ret wl) = Some (append_new wl xs).
  Proof.
    induction xs as [|x xs IH]; intros wl; [reflexivity|].
    cbn [fold_left append_new].
    match goal with |- fold_left _ _ ?A = _ =>
      replace A with (Some (if nat_mem x wl then wl else wl ++ [x])) end.
    - destruct (nat_mem x wl); exact (IH _).
    - unfold ret, bind, blk_in, nat_mem. destruct (existsb (Nat.eqb x) wl); reflexivity.
  Qed.
End Dicts.

(* ====================================================================== *)
(* 1. The forward pass                                                     *)
(* ====================================================================== *)
Section Solver.
  Variable T : Type.
  Variable t_eqb : T -> T -> bool.
  Variable univ null : string -> T.
  Variable union inter : string -> T -> T -> T.
  Variable single : string -> instr -> nat -> list sval -> T * T.
  Variable f : func.

  Notation state := (Analysis.state T).
  Notation gdict := (SolverGen.gdict T).
  Notation lookup := (Analysis.lookup T).
  Notation update := (Analysis.update T).
  Notation kget := (kdict_get T).
  Notation kset := (kdict_set T).
  Notation reachin k := (Analysis.reachin T (univ k) (null k) (union k) (inter k) (single k) f).
  Notation livein k := (Analysis.livein T (null k) (union k) (inter k) f).
  Notation forward k := (Analysis.forward T t_eqb (univ k) (null k) (union k) (inter k) (single k) f).
  Notation backward k := (Analysis.backward T t_eqb (null k) (union k) (inter k) f).
  Notation merge_fwd := (merge_information_forward_gen T t_eqb univ null union inter single f).
  Notation loop_fwd := (forward_analyis_loop_gen T t_eqb univ null union inter single f).
  Notation analysis_fwd := (forward_analyis_gen T t_eqb univ null union inter single f).
  Notation merge_bwd := (merge_information_backward_gen T t_eqb univ null union inter f).
  Notation loop_bwd := (backward_analysis_loop_gen T t_eqb univ null union inter f).
  Notation analysis_bwd := (backward_analysis_gen T t_eqb univ null union inter f).

  (* ---------------------------------------------------------------- dangling block references raise *)
  Lemma calculate_reachin_gen_dangling k n (st : state) :
    fblock f n = None -> call_calculate_reachin T univ null union inter single f k n st = None.
  Proof.
    intros Hb. unfold call_calculate_reachin, calculate_reachin_gen.
    assert (Hp : prev_blocks_global_gen f n = None).
    { unfold prev_blocks_global_gen, attr_teal. rewrite Hb. reflexivity. }
    rewrite Hp. destruct (Nat.eqb n (self_entry_block f)); reflexivity.
  Qed.

  Lemma next_blocks_global_gen_dangling n : fblock f n = None -> next_blocks_global_gen f n = None.
  Proof. intros Hb. unfold next_blocks_global_gen, attr_is_retsub_block. rewrite Hb. reflexivity. Qed.

  Lemma leaf_block_global_gen_dangling n : fblock f n = None -> leaf_block_global_gen f n = None.
  Proof. intros Hb. unfold leaf_block_global_gen, attr_next. rewrite Hb. reflexivity. Qed.

  (* ---------------------------------------------------------------- one step *)
  (* the comparison and the store of the model's loops, for a recomputed neighbourhood value r (None = exception):
     None = Exn, the flag = "the stored value changed" *)
  Definition gstep (k : string) (r : py T) (bc st : state) (b : nat) : py (bool * state) :=
    match r, lookup bc b, lookup st b with
    | Some v, Some c, Some old =>
        if t_eqb (inter k v c) old then Some (false, st) else Some (true, update st b (inter k v c))
    | _, _, _ => None
    end.
  (* the recomputation of block b in state st: the body of Analysis.forward / Analysis.backward *)
  Definition fstep (k : string) (bc st : state) (b : nat) : py (bool * state) :=
    match fblock f b with
    | None => None
    | Some xb => gstep k (reachin k st xb) bc st b
    end.
  Definition bstep (k : string) (bc st : state) (b : nat) : py (bool * state) :=
    match fblock f b with
    | None => None
    | Some xb => if leaf_global f xb then Some (false, st) else gstep k (livein k st xb) bc st b
    end.

  (* the body of the loop over the keys (the step of the fold), let-free; calc is self._calculate_reachin /
     self._calculate_livein *)
  Definition key_step (calc : string -> nat -> state -> py T) (block : nat) (bcs : gdict)
      (acc : py (gdict * bool)) (key : string) : py (gdict * bool) :=
    bind acc (fun st =>
      (bind (bind (bind (kget (fst st) key) (fun tmp1 => (calc key block tmp1))) (fun tmp2 => (bind (dict_get T (ddict_get T bcs key) block) (fun tmp3 => (ret (inter key tmp2 tmp3)))))) (fun new_reachout =>
      (ifE (bind (bind (kget (fst st) key) (fun tmp4 => (dict_get T tmp4 block))) (fun tmp5 => (ret (dom_neq T t_eqb new_reachout tmp5))))
          (bind (kget (fst st) key) (fun tmp6 =>
          (ret (kset (fst st) key (dict_set T tmp6 block new_reachout), true))))
          (ret (fst st, snd st)))))).
  Notation fkey_step := (key_step (call_calculate_reachin T univ null union inter single f)).
  Notation bkey_step := (key_step (call_calculate_livein T univ null union inter f)).

  Lemma merge_fwd_unfold keys block gr bcs :
    merge_fwd keys block gr bcs =
    bind (fold_left (fkey_step block bcs) keys (ret (gr, false))) (fun r => ret (snd r, fst r)).
  Proof. reflexivity. Qed.

  Lemma merge_bwd_unfold keys block gl bcs :
    merge_bwd keys block gl bcs =
    ifE (leaf_block_global_gen f block) (ret (false, gl))
      (bind (fold_left (bkey_step block bcs) keys (ret (gl, false))) (fun r => ret (snd r, fst r))).
  Proof. reflexivity. Qed.

  (* one key whose entry is st: the model's step; the flag is set iff the value changed *)
  Lemma key_step_single calc block bcs gr u key st :
    kget gr key = Some st ->
    key_step calc block bcs (Some (gr, u)) key =
    match gstep key (calc key block st) (ddict_get T bcs key) st block with
    | None => None
    | Some (ch, st') => Some (kset gr key st', if ch then true else u)
    end.
  Proof.
    intros Hg. unfold key_step, gstep. cbn [bind fst snd]. rewrite Hg. cbn [bind].
    destruct (calc key block st) as [v|]; [|reflexivity]. cbn [bind]. unfold dict_get.
    destruct (lookup (ddict_get T bcs key) block) as [c|]; [|reflexivity]. cbn [bind ret].
    destruct (lookup st block) as [old|] eqn:Hold; [|reflexivity]. cbn [bind ifE]. unfold dom_neq.
    destruct (t_eqb (inter key v c) old); cbn [negb ifE].
    - rewrite (kdict_set_get_id _ _ _ _ Hg). reflexivity.
    - rewrite (dict_set_update _ _ _ _ _ Hold). reflexivity.
  Qed.

  Lemma call_reachin_eq key b st :
    call_calculate_reachin T univ null union inter single f key b st =
    match fblock f b with Some xb => reachin key st xb | None => None end.
  Proof.
    destruct (fblock f b) as [xb|] eqn:Hb.
    - unfold call_calculate_reachin. apply calculate_reachin_gen_eq. exact Hb.
    - apply calculate_reachin_gen_dangling. exact Hb.
  Qed.

  Lemma call_livein_eq key b xb st :
    main_name_fresh f -> fblock f b = Some xb ->
    call_calculate_livein T univ null union inter f key b st = livein key st xb.
  Proof. intros Hm Hb. unfold call_calculate_livein. apply calculate_livein_gen_eq; assumption. Qed.

  Theorem merge_information_forward_gen_single : forall key block gr bcs st,
    kget gr key = Some st ->
    merge_fwd [key] block gr bcs =
    match fstep key (ddict_get T bcs key) st block with
    | None => None
    | Some (ch, st') => Some (ch, kset gr key st')
    end.
  Proof.
    intros key block gr bcs st Hg. rewrite merge_fwd_unfold. cbn [fold_left]. unfold ret at 1.
    rewrite (key_step_single _ _ _ _ _ _ _ Hg). rewrite call_reachin_eq. unfold fstep.
    destruct (fblock f block) as [xb|]; [|reflexivity].
    destruct (gstep key (reachin key st xb) (ddict_get T bcs key) st block) as [[ch st']|]; [|reflexivity].
    destruct ch; reflexivity.
  Qed.

  Theorem merge_information_backward_gen_single : forall key block gl bcs st,
    main_name_fresh f -> kget gl key = Some st ->
    merge_bwd [key] block gl bcs =
    match bstep key (ddict_get T bcs key) st block with
    | None => None
    | Some (ch, st') => Some (ch, kset gl key st')
    end.
  Proof.
    intros key block gl bcs st Hm Hg. rewrite merge_bwd_unfold. unfold bstep.
    destruct (fblock f block) as [xb|] eqn:Hb.
    - rewrite (leaf_block_global_gen_eq f block xb Hb).
      destruct (leaf_global f xb); cbn [ifE].
      + rewrite (kdict_set_get_id _ _ _ _ Hg). reflexivity.
      + cbn [fold_left]. unfold ret at 1. rewrite (key_step_single _ _ _ _ _ _ _ Hg).
        rewrite (call_livein_eq key block xb st Hm Hb).
        destruct (gstep key (livein key st xb) (ddict_get T bcs key) st block) as [[ch st']|]; [|reflexivity].
        destruct ch; reflexivity.
    - rewrite (leaf_block_global_gen_dangling _ Hb). reflexivity.
  Qed.

  (* ---------------------------------------------------------------- the accumulation of `updated` over several keys *)
  (* a step never resets the flag *)
  Lemma key_step_flag calc block bcs gr u key :
    key_step calc block bcs (Some (gr, u)) key =
    option_map (fun r => (fst r, orb u (snd r))) (key_step calc block bcs (Some (gr, false)) key).
  Proof.
    unfold key_step. cbn [bind fst snd].
    match goal with |- bind ?X _ = _ => destruct X as [new|] end; [|reflexivity]. cbn [bind].
    match goal with |- ifE ?C _ _ = _ => destruct C as [[|]|] end; cbn [ifE]; [|unfold ret; cbn; rewrite orb_false_r; reflexivity|reflexivity].
    destruct (kget gr key); [|reflexivity]. cbn [bind ret option_map fst snd]. rewrite orb_true_r. reflexivity.
  Qed.

  Lemma key_fold_none calc block bcs keys : fold_left (key_step calc block bcs) keys None = None.
  Proof. induction keys as [|k ks IH]; [reflexivity|]. cbn [fold_left]. exact IH. Qed.

  Lemma key_fold_flag calc block bcs keys : forall gr u,
    fold_left (key_step calc block bcs) keys (Some (gr, u)) =
    option_map (fun r => (fst r, orb u (snd r))) (fold_left (key_step calc block bcs) keys (Some (gr, false))).
  Proof.
    induction keys as [|k ks IH]; intros gr u; cbn [fold_left].
    - cbn. rewrite orb_false_r. reflexivity.
    - rewrite (key_step_flag calc block bcs gr u k).
      destruct (key_step calc block bcs (Some (gr, false)) k) as [[gr1 u1]|]; cbn [option_map fst snd].
      + rewrite (IH gr1 (u || u1)%bool), (IH gr1 u1).
        destruct (fold_left (key_step calc block bcs) ks (Some (gr1, false))) as [[gr2 u2]|]; cbn [option_map fst snd]; [|reflexivity].
        rewrite orb_assoc. reflexivity.
      + rewrite key_fold_none. reflexivity.
  Qed.

  Lemma key_fold_cons calc block bcs k ks gr :
    bind (fold_left (key_step calc block bcs) (k :: ks) (ret (gr, false))) (fun r => ret (snd r, fst r)) =
    bind (bind (fold_left (key_step calc block bcs) [k] (ret (gr, false))) (fun r => ret (snd r, fst r))) (fun r1 =>
    bind (bind (fold_left (key_step calc block bcs) ks (ret (snd r1, false))) (fun r => ret (snd r, fst r))) (fun r2 =>
      ret (orb (fst r1) (fst r2), snd r2))).
  Proof.
    cbn [fold_left]. unfold ret at 1 3.
    destruct (key_step calc block bcs (Some (gr, false)) k) as [[gr1 u1]|]; cbn [bind ret fst snd].
    - unfold ret at 2. rewrite (key_fold_flag calc block bcs ks gr1 u1).
      destruct (fold_left (key_step calc block bcs) ks (Some (gr1, false))) as [[gr2 u2]|]; reflexivity.
    - rewrite key_fold_none. reflexivity.
  Qed.

  (* `updated` is accumulated: the flag of k :: ks is the disjunction of the flag of k and of the flag of ks (run on
     the dictionary k left) *)
  Theorem merge_information_forward_gen_cons : forall k ks block gr bcs,
    merge_fwd (k :: ks) block gr bcs =
    bind (merge_fwd [k] block gr bcs) (fun r1 =>
    bind (merge_fwd ks block (snd r1) bcs) (fun r2 => ret (orb (fst r1) (fst r2), snd r2))).
  Proof. intros k ks block gr bcs. rewrite !merge_fwd_unfold. apply key_fold_cons. Qed.

  Theorem merge_information_backward_gen_cons : forall k ks block gl bcs,
    merge_bwd (k :: ks) block gl bcs =
    bind (merge_bwd [k] block gl bcs) (fun r1 =>
    bind (merge_bwd ks block (snd r1) bcs) (fun r2 => ret (orb (fst r1) (fst r2), snd r2))).
  Proof.
    intros k ks block gl bcs. rewrite (merge_bwd_unfold (k :: ks)), (merge_bwd_unfold [k]).
    destruct (leaf_block_global_gen f block) as [[|]|] eqn:El; cbn [ifE]; [| |reflexivity].
    - unfold ret at 2. cbn [bind snd fst]. rewrite merge_bwd_unfold, El. reflexivity.
    - rewrite key_fold_cons.
      destruct (bind (fold_left (bkey_step block bcs) [k] (ret (gl, false))) (fun r => ret (snd r, fst r))) as [r1|];
        cbn [bind]; [|reflexivity].
      rewrite merge_bwd_unfold, El. reflexivity.
  Qed.

  (* two keys, the first one changes, the second one does not: the method reports a change *)
  Corollary merge_information_forward_gen_first_key_changes : forall k1 k2 block gr bcs gr1 gr2,
    merge_fwd [k1] block gr bcs = Some (true, gr1) -> merge_fwd [k2] block gr1 bcs = Some (false, gr2) ->
    merge_fwd [k1; k2] block gr bcs = Some (true, gr2).
  Proof.
    intros k1 k2 block gr bcs gr1 gr2 H1 H2. rewrite merge_information_forward_gen_cons, H1. cbn [bind snd fst].
    rewrite H2. reflexivity.
  Qed.

  (* ---------------------------------------------------------------- the while loops *)
  Lemma return_point_gen_eq b xb :
    fblock f b = Some xb ->
    ifE (andE (attr_is_callsub_block f b) (bind (attr_sub_return_point f b) (fun tmp5 => (ret (opt_is_some tmp5)))))
        (bind (bind (attr_sub_return_point f b) (fun tmp6 => (as_block tmp6))) (fun tmp7 => (ret [tmp7]))) (ret []) =
    Some (if f_is_callsub f xb then match sub_return_point xb with Some r => [r] | None => [] end else []).
  Proof.
    intros Hb. unfold attr_is_callsub_block, attr_sub_return_point. rewrite Hb. cbn [option_map bind andE].
    destruct (f_is_callsub f xb); cbn [andE ifE]; [|reflexivity].
    destruct (sub_return_point xb); reflexivity.
  Qed.

  Lemma existsb_find {A} (P : A -> bool) l : existsb P l = true -> exists x, find P l = Some x.
  Proof.
    induction l as [|a l IH]; cbn; [discriminate|]. destruct (P a); [eauto|]. cbn. exact IH.
  Qed.

  Lemma callsub_block_gen_eq b xb :
    fblock f b = Some xb ->
    ifE (attr_is_sub_return_point f b) (bind (attr_callsub_block f b) (fun tmp7 => (ret [tmp7]))) (ret []) =
    Some (if is_sub_return_point f xb then match callsub_block_of f xb with Some c => [c] | None => [] end else []).
  Proof.
    intros Hb. unfold attr_is_sub_return_point, attr_callsub_block. rewrite Hb. cbn [option_map bind].
    destruct (is_sub_return_point f xb) eqn:E; cbn [ifE]; [|reflexivity].
    unfold is_sub_return_point in E. apply existsb_find in E. destruct E as [c Hc].
    unfold callsub_block_of. rewrite Hc. reflexivity.
  Qed.

  Theorem forward_analyis_loop_gen_eq : forall key bcs fuel wl gr st,
    main_name_fresh f -> kget gr key = Some st ->
    loop_fwd fuel [key] wl bcs gr =
    erase (omap (fun st' => ([], kset gr key st')) (forward key (lookup (ddict_get T bcs key)) fuel wl st)).
  Proof.
    intros key bcs fuel. induction fuel as [|fu IH]; intros wl gr st Hm Hg; [reflexivity|].
    cbn [forward_analyis_loop_gen Analysis.forward]. cbv zeta.
    destruct wl as [|b wl]; cbn [list_nonempty list_head list_tail tl bind].
    - cbn [omap erase]. rewrite (kdict_set_get_id _ _ _ _ Hg). reflexivity.
    - rewrite (merge_information_forward_gen_single key b gr bcs st Hg). unfold fstep, gstep.
      destruct (fblock f b) as [xb|] eqn:Hb; [|reflexivity].
      destruct (reachin key st xb) as [ri|]; [|reflexivity].
      destruct (lookup (ddict_get T bcs key) b) as [c|]; [|reflexivity].
      destruct (lookup st b) as [old|]; [|reflexivity].
      destruct (t_eqb (inter key ri c) old); cbn [bind fst snd].
      + rewrite (kdict_set_get_id _ _ _ _ Hg). apply IH; assumption.
      + rewrite (return_point_gen_eq b xb Hb). cbn [bind].
        rewrite (next_blocks_global_gen_eq f b xb Hm Hb).
        destruct (next_global f xb) as [nx|]; [|reflexivity]. cbn [bind ret].
        rewrite append_fold_eq. cbn [bind].
        rewrite (IH _ _ (update st b (inter key ri c)) Hm (kdict_get_set_same _ _ _ _)).
        match goal with |- erase (omap _ ?X) = _ => destruct X end; cbn [omap erase]; rewrite ?kdict_set_set; reflexivity.
  Qed.

  Theorem backward_analysis_loop_gen_eq : forall key bcs fuel wl gl st,
    main_name_fresh f -> kget gl key = Some st ->
    loop_bwd fuel [key] wl bcs gl =
    erase (omap (fun st' => ([], kset gl key st')) (backward key (lookup (ddict_get T bcs key)) fuel wl st)).
  Proof.
    intros key bcs fuel. induction fuel as [|fu IH]; intros wl gl st Hm Hg; [reflexivity|].
    cbn [backward_analysis_loop_gen Analysis.backward]. cbv zeta.
    destruct wl as [|b wl]; cbn [list_nonempty list_head list_tail tl bind].
    - cbn [omap erase]. rewrite (kdict_set_get_id _ _ _ _ Hg). reflexivity.
    - rewrite (merge_information_backward_gen_single key b gl bcs st Hm Hg). unfold bstep, gstep.
      destruct (fblock f b) as [xb|] eqn:Hb; [|reflexivity].
      destruct (leaf_global f xb).
      { cbn [bind fst snd]. rewrite (kdict_set_get_id _ _ _ _ Hg). apply IH; assumption. }
      destruct (livein key st xb) as [li|]; [|reflexivity].
      destruct (lookup (ddict_get T bcs key) b) as [c|]; [|reflexivity].
      destruct (lookup st b) as [old|]; [|reflexivity].
      destruct (t_eqb (inter key li c) old); cbn [bind fst snd].
      + rewrite (kdict_set_get_id _ _ _ _ Hg). apply IH; assumption.
      + rewrite (callsub_block_gen_eq b xb Hb). cbn [bind].
        rewrite (prev_blocks_global_gen_eq f b xb Hb).
        destruct (prev_global f xb) as [ps|]; [|reflexivity]. cbn [bind ret].
        rewrite append_fold_eq. cbn [bind].
        rewrite (IH _ _ (update st b (inter key li c)) Hm (kdict_get_set_same _ _ _ _)).
        match goal with |- erase (omap _ ?X) = _ => destruct X end; cbn [omap erase]; rewrite ?kdict_set_set; reflexivity.
  Qed.

  (* ---------------------------------------------------------------- the initialisation *)
  Lemma forward_init_inner key : forall (l1 l2 : list block) gr,
    NoDup (map b_idx (l1 ++ l2)) ->
    kget gr key = Some (map (fun b => (b_idx b, null key)) l1) ->
    fold_left (fun acc2 b => (bind acc2 (fun st2 =>
        (bind (kget st2 key) (fun tmp1 => (ret (kset st2 key (dict_set T tmp1 b (null key)))))))))
      (map b_idx l2) (ret gr) =
    Some (kset gr key (map (fun b => (b_idx b, null key)) (l1 ++ l2))).
  Proof.
    intros l1 l2. revert l1. induction l2 as [|x l2 IH]; intros l1 gr Hnd Hg; cbn [map fold_left].
    - rewrite app_nil_r. rewrite (kdict_set_get_id _ _ _ _ Hg). reflexivity.
    - assert (Hx : lookup (map (fun b => (b_idx b, null key)) l1) (b_idx x) = None).
      { apply lookup_map_none. rewrite map_app in Hnd. apply NoDup_remove_2 in Hnd.
        intros Hi. apply Hnd. apply in_or_app. left. exact Hi. }
      match goal with |- fold_left _ _ ?A = _ =>
        replace A with (Some (kset gr key (map (fun b => (b_idx b, null key)) (l1 ++ [x])))) end.
      + rewrite (IH (l1 ++ [x]) _).
        * rewrite kdict_set_set. rewrite <- app_assoc. reflexivity.
        * rewrite <- app_assoc. exact Hnd.
        * apply kdict_get_set_same.
      + unfold ret, bind. rewrite Hg. rewrite (dict_set_new _ _ _ _ Hx). rewrite map_app. reflexivity.
  Qed.

  Theorem forward_init_gen_eq : forall key,
    NoDup (ids f) ->
    fold_left (fun acc key => (bind acc (fun st =>
      (bind (fold_left (fun acc2 b => (bind acc2 (fun st2 =>
        (bind (kget st2 key) (fun tmp1 => (ret (kset st2 key (dict_set T tmp1 b (null key)))))))))
        (function_blocks f) (ret (kset st key (dict_empty T)))) (fun tmp2 => (ret tmp2))))))
      [key] (ret (kdict_empty T)) = Some [(key, fwd_st0 T (null key) f)].
  Proof.
    intros key Hnd. cbn [fold_left]. unfold ret at 1. cbn [bind]. unfold function_blocks.
    rewrite (forward_init_inner key [] (fn_blocks f)); [|exact Hnd|apply kdict_get_set_same].
    cbn [bind ret app]. unfold kdict_empty, dict_empty. cbn [kdict_set]. rewrite String.eqb_refl. reflexivity.
  Qed.

  (* ---------------------------------------------------------------- the whole method *)
  Theorem forward_analyis_gen_eq : forall key bcs fuel wl,
    main_name_fresh f -> NoDup (ids f) ->
    analysis_fwd fuel [key] wl bcs =
    erase (omap (fun ro => kset bcs key ro)
             (forward key (lookup (ddict_get T bcs key)) fuel wl (fwd_st0 T (null key) f))).
  Proof.
    intros key bcs fuel wl Hm Hnd. unfold forward_analyis_gen. cbv zeta.
    rewrite (forward_init_gen_eq key Hnd). cbn [bind].
    rewrite (forward_analyis_loop_gen_eq key bcs fuel wl _ (fwd_st0 T (null key) f) Hm).
    2:{ cbn. rewrite String.eqb_refl. reflexivity. }
    destruct (forward key (lookup (ddict_get T bcs key)) fuel wl (fwd_st0 T (null key) f)) as [ro| |]; cbn [omap erase bind]; try reflexivity.
    cbn [fst snd fold_left kdict_set]. rewrite String.eqb_refl. unfold ret at 1. cbn [bind kdict_get].
    rewrite String.eqb_refl. reflexivity.
  Qed.

  (* ================================================================ 2. The backward pass: initialisation, whole method *)
  (* the body of the initialisation loop over the blocks, let-free *)
  Definition binit_step (key : string) (bcs : gdict) (acc2 : py gdict) (b : nat) : py gdict :=
    (bind acc2 (fun st2 =>
        (ifE (leaf_block_global_gen f b)
            (bind (dict_get T (ddict_get T bcs key) b) (fun tmp1 =>
            (bind (kget st2 key) (fun tmp2 =>
            (ret (kset st2 key (dict_set T tmp2 b tmp1)))))))
            (bind (kget st2 key) (fun tmp3 =>
            (ret (kset st2 key (dict_set T tmp3 b (null key))))))))).

  Definition bwd_entry (key : string) (bc : state) (b : block) : nat * T :=
    (b_idx b, if leaf_global f b then match lookup bc (b_idx b) with Some v => v | None => null key end else null key).

  Lemma bwd_st0_map key bc : bwd_st0 T (null key) f bc = map (bwd_entry key bc) (fn_blocks f).
  Proof. reflexivity. Qed.

  Lemma backward_init_inner key bcs : forall (l1 l2 : list block) gl,
    NoDup (map b_idx (l1 ++ l2)) ->
    (forall b, In b l2 -> fblock f (b_idx b) = Some b) ->
    (forall b, In b l2 -> leaf_global f b = true -> exists v, lookup (ddict_get T bcs key) (b_idx b) = Some v) ->
    kget gl key = Some (map (bwd_entry key (ddict_get T bcs key)) l1) ->
    fold_left (binit_step key bcs) (map b_idx l2) (ret gl) =
    Some (kset gl key (map (bwd_entry key (ddict_get T bcs key)) (l1 ++ l2))).
  Proof.
    intros l1 l2. revert l1. induction l2 as [|x l2 IH]; intros l1 gl Hnd Hfb Hcov Hg; cbn [map fold_left].
    - rewrite app_nil_r. rewrite (kdict_set_get_id _ _ _ _ Hg). reflexivity.
    - assert (Hx : lookup (map (bwd_entry key (ddict_get T bcs key)) l1) (b_idx x) = None).
      { apply (lookup_map_none T (fun b => snd (bwd_entry key (ddict_get T bcs key) b))).
        rewrite map_app in Hnd. apply NoDup_remove_2 in Hnd.
        intros Hi. apply Hnd. apply in_or_app. left. exact Hi. }
      match goal with |- fold_left _ _ ?A = _ =>
        replace A with (Some (kset gl key (map (bwd_entry key (ddict_get T bcs key)) (l1 ++ [x])))) end.
      + rewrite (IH (l1 ++ [x]) _).
        * rewrite kdict_set_set. rewrite <- app_assoc. reflexivity.
        * rewrite <- app_assoc. exact Hnd.
        * intros b Hb. apply Hfb. right. exact Hb.
        * intros b Hb. apply Hcov. right. exact Hb.
        * apply kdict_get_set_same.
      + unfold binit_step, ret at 1. cbn [bind].
        rewrite (leaf_block_global_gen_eq f (b_idx x) x (Hfb x (or_introl eq_refl))).
        rewrite map_app. cbn [map]. unfold bwd_entry at 2.
        destruct (leaf_global f x) eqn:El; cbn [ifE].
        * destruct (Hcov x (or_introl eq_refl) El) as [v Hv]. unfold dict_get. rewrite Hv. cbn [bind].
          rewrite Hg. cbn [bind ret]. rewrite (dict_set_new _ _ _ _ Hx). reflexivity.
        * rewrite Hg. cbn [bind ret]. rewrite (dict_set_new _ _ _ _ Hx). reflexivity.
  Qed.

  (* leaves_covered: self._block_contexts[key] has a value for every leaf block of the function *)
  Definition leaves_covered (bc : state) : Prop :=
    forall b, In b (fn_blocks f) -> leaf_global f b = true -> exists v, lookup bc (b_idx b) = Some v.

  Theorem backward_init_gen_eq : forall key bcs,
    NoDup (ids f) -> leaves_covered (ddict_get T bcs key) ->
    fold_left (fun acc key => (bind acc (fun st =>
      (bind (fold_left (binit_step key bcs) (function_blocks f) (ret (kset st key (dict_empty T)))) (fun tmp4 => (ret tmp4))))))
      [key] (ret (kdict_empty T)) = Some [(key, bwd_st0 T (null key) f (ddict_get T bcs key))].
  Proof.
    intros key bcs Hnd Hcov. cbn [fold_left]. unfold ret at 1. cbn [bind]. unfold function_blocks.
    rewrite (backward_init_inner key bcs [] (fn_blocks f)).
    - cbn [bind ret app]. unfold kdict_empty, dict_empty. cbn [kdict_set]. rewrite String.eqb_refl. reflexivity.
    - exact Hnd.
    - intros b Hb. apply fblock_of_In; assumption.
    - exact Hcov.
    - apply kdict_get_set_same.
  Qed.

  Lemma analysis_bwd_unfold fuel keys wl bcs :
    analysis_bwd fuel keys wl bcs =
    bind (fold_left (fun acc key => (bind acc (fun st =>
      (bind (fold_left (binit_step key bcs) (function_blocks f) (ret (kset st key (dict_empty T)))) (fun tmp4 => (ret tmp4))))))
      keys (ret (kdict_empty T))) (fun gl0 =>
    bind (loop_bwd fuel keys wl bcs gl0) (fun r =>
    match r with
    | None => ret None
    | Some r' =>
        bind (fold_left (fun acc key => bind acc (fun st =>
                bind (bind (kget (snd r') key) (fun tmp13 => ret (kset st key tmp13))) (fun s => ret s))) keys (ret bcs))
          (fun tmp14 => ret (Some tmp14))
    end)).
  Proof. reflexivity. Qed.

  Theorem backward_analysis_gen_eq : forall key bcs fuel wl,
    main_name_fresh f -> NoDup (ids f) -> leaves_covered (ddict_get T bcs key) ->
    analysis_bwd fuel [key] wl bcs =
    erase (omap (fun lo => kset bcs key lo)
             (backward key (lookup (ddict_get T bcs key)) fuel wl (bwd_st0 T (null key) f (ddict_get T bcs key)))).
  Proof.
    intros key bcs fuel wl Hm Hnd Hcov. rewrite analysis_bwd_unfold.
    rewrite (backward_init_gen_eq key bcs Hnd Hcov). cbn [bind].
    rewrite (backward_analysis_loop_gen_eq key bcs fuel wl _ (bwd_st0 T (null key) f (ddict_get T bcs key)) Hm).
    2:{ cbn. rewrite String.eqb_refl. reflexivity. }
    match goal with |- context [omap _ ?X] => destruct X as [lo| |] end; cbn [omap erase bind]; try reflexivity.
    cbn [fst snd fold_left kdict_set]. rewrite String.eqb_refl. unfold ret at 1. cbn [bind kdict_get].
    rewrite String.eqb_refl. reflexivity.
  Qed.

  (* a leaf block without block context: Python raises KeyError in the initialisation (the model's start state takes
     null there: backward_init_model_default below) *)
  Lemma binit_fold_none key bcs l : fold_left (binit_step key bcs) l None = None.
  Proof. induction l as [|x l IH]; [reflexivity|]. exact IH. Qed.

  Theorem backward_init_gen_exception : forall key bcs fuel wl b,
    NoDup (ids f) -> In b (fn_blocks f) -> leaf_global f b = true -> lookup (ddict_get T bcs key) (b_idx b) = None ->
    analysis_bwd fuel [key] wl bcs = None.
  Proof.
    intros key bcs fuel wl b Hnd Hin Hl Hn. rewrite analysis_bwd_unfold.
    cbn [fold_left]. unfold ret at 1. cbn [bind].
    assert (Hf : fold_left (binit_step key bcs) (function_blocks f) (ret (kset (kdict_empty T) key (dict_empty T))) = None).
    { unfold function_blocks. destruct (in_split _ _ Hin) as [l1 [l2 ->]].
      rewrite map_app, fold_left_app. cbn [map fold_left].
      match goal with |- fold_left _ _ (binit_step _ _ ?A _) = None => destruct A as [gl|] end.
      - unfold binit_step at 2. cbn [bind].
        rewrite (leaf_block_global_gen_eq f (b_idx b) b (fblock_of_In f b Hnd Hin)), Hl. cbn [ifE].
        unfold dict_get. rewrite Hn. cbn [bind]. apply binit_fold_none.
      - apply binit_fold_none. }
    rewrite Hf. reflexivity.
  Qed.

  (* ================================================================ 3. Transported theorems *)
  (* SolverLemmas.forward_fixpoint_initial on the generated code: when forward_analyis terminates without exception
     on a worklist that contains every block, the stored dictionary satisfies, at every block, the forward equation
     written with the regenerated _calculate_reachin *)
  Theorem forward_fixpoint_gen : forall key bcs fuel wl bcs',
    (forall a, t_eqb a a = true) -> cover_prev_P f -> cover_ret_P f ->
    main_name_fresh f -> NoDup (ids f) ->
    (forall b, In b (ids f) -> In b wl) ->
    analysis_fwd fuel [key] wl bcs = Some (Some bcs') ->
    exists ro, bcs' = kset bcs key ro /\
      forall b, In b (ids f) -> exists ri c old,
        call_calculate_reachin T univ null union inter single f key b ro = Some ri /\
        lookup (ddict_get T bcs key) b = Some c /\ lookup ro b = Some old /\
        t_eqb (inter key ri c) old = true.
  Proof.
    intros key bcs fuel wl bcs' Hrefl Hcp Hcr Hm Hnd Hwl Hrun.
    rewrite (forward_analyis_gen_eq key bcs fuel wl Hm Hnd) in Hrun.
    destruct (forward key (lookup (ddict_get T bcs key)) fuel wl (fwd_st0 T (null key) f)) as [ro| |] eqn:Hf;
      cbn [omap erase] in Hrun; try discriminate.
    injection Hrun as <-. exists ro. split; [reflexivity|]. intros b Hb.
    destruct (forward_fixpoint_initial T t_eqb (univ key) (null key) (union key) (inter key) (single key) f _
                Hrefl Hcp Hcr fuel wl _ ro Hwl Hf b Hb) as [xb [ri [c [old [H1 [H2 [H3 [H4 H5]]]]]]]].
    exists ri, c, old. rewrite call_reachin_eq, H1. auto.
  Qed.

  Theorem backward_fixpoint_gen : forall key bcs fuel wl bcs',
    (forall a, t_eqb a a = true) -> cover_next_P f -> cover_call_P f ->
    main_name_fresh f -> NoDup (ids f) -> leaves_covered (ddict_get T bcs key) ->
    (forall b, leaf_block_global_gen f b = Some false -> In b wl) ->
    analysis_bwd fuel [key] wl bcs = Some (Some bcs') ->
    exists lo, bcs' = kset bcs key lo /\
      forall b, In b (ids f) ->
        leaf_block_global_gen f b = Some true \/
        exists li c old,
          call_calculate_livein T univ null union inter f key b lo = Some li /\
          lookup (ddict_get T bcs key) b = Some c /\ lookup lo b = Some old /\
          t_eqb (inter key li c) old = true.
  Proof.
    intros key bcs fuel wl bcs' Hrefl Hcn Hcc Hm Hnd Hcov Hwl Hrun.
    rewrite (backward_analysis_gen_eq key bcs fuel wl Hm Hnd Hcov) in Hrun.
    destruct (backward key (lookup (ddict_get T bcs key)) fuel wl (bwd_st0 T (null key) f (ddict_get T bcs key))) as [lo| |] eqn:Hf;
      cbn [omap erase] in Hrun; try discriminate.
    injection Hrun as <-. exists lo. split; [reflexivity|]. intros b Hb.
    assert (Hwl' : forall b xb, fblock f b = Some xb -> leaf_global f xb = false -> In b wl).
    { intros x xb Hx Hl. apply Hwl. rewrite (leaf_block_global_gen_eq f x xb Hx), Hl. reflexivity. }
    destruct (backward_fixpoint_initial T t_eqb (null key) (union key) (inter key) f _
                Hrefl Hcn Hcc fuel wl _ lo Hwl' Hf b Hb) as [xb [H1 H2]].
    rewrite (leaf_block_global_gen_eq f b xb H1).
    destruct H2 as [Hl|[li [c [old [H2 [H3 [H4 H5]]]]]]]; [left; rewrite Hl; reflexivity|].
    right. exists li, c, old. rewrite (call_livein_eq key b xb lo Hm H1). auto.
  Qed.
End Solver.

(* SolverLemmas.forward_order_independent on the generated code: two terminating runs of forward_analyis on
   worklists that contain every block store pointwise equivalent dictionaries, whatever the order of the worklists *)
Theorem forward_order_independent_gen :
  forall (T : Type) (t_eqb : T -> T -> bool) (univ null : string -> T) (union inter : string -> T -> T -> T)
    (single : string -> instr -> nat -> list sval -> T * T) (f : func) (key : string) (leq : T -> T -> Prop),
  (forall a, leq a a) -> (forall a b c, leq a b -> leq b c -> leq a c) ->
  (forall a b, t_eqb a b = true <-> leq a b /\ leq b a) ->
  (forall a a' b b', leq a a' -> leq b b' -> leq (union key a b) (union key a' b')) ->
  (forall a a' b b', leq a a' -> leq b b' -> leq (inter key a b) (inter key a' b')) ->
  (forall a, leq (null key) a) ->
  forall bcs fu1 fu2 wl1 wl2 bcs1 bcs2,
  cover_prev_P f -> cover_ret_P f -> main_name_fresh f -> NoDup (ids f) ->
  (forall b, In b (ids f) -> In b wl1) -> (forall b, In b (ids f) -> In b wl2) ->
  forward_analyis_gen T t_eqb univ null union inter single f fu1 [key] wl1 bcs = Some (Some bcs1) ->
  forward_analyis_gen T t_eqb univ null union inter single f fu2 [key] wl2 bcs = Some (Some bcs2) ->
  exists ro1 ro2, bcs1 = kdict_set T bcs key ro1 /\ bcs2 = kdict_set T bcs key ro2 /\ peq T t_eqb ro1 ro2.
Proof.
  intros T t_eqb univ null union inter single f key leq Hr Ht He Hu Hi Hn bcs fu1 fu2 wl1 wl2 bcs1 bcs2
    Hcp Hcr Hm Hnd Hw1 Hw2 H1 H2.
  rewrite (forward_analyis_gen_eq T t_eqb univ null union inter single f key bcs fu1 wl1 Hm Hnd) in H1.
  rewrite (forward_analyis_gen_eq T t_eqb univ null union inter single f key bcs fu2 wl2 Hm Hnd) in H2.
  destruct (forward T t_eqb (univ key) (null key) (union key) (inter key) (single key) f
              (lookup T (ddict_get T bcs key)) fu1 wl1 (fwd_st0 T (null key) f)) as [ro1| |] eqn:F1;
    cbn [omap erase] in H1; try discriminate.
  destruct (forward T t_eqb (univ key) (null key) (union key) (inter key) (single key) f
              (lookup T (ddict_get T bcs key)) fu2 wl2 (fwd_st0 T (null key) f)) as [ro2| |] eqn:F2;
    cbn [omap erase] in H2; try discriminate.
  injection H1 as <-. injection H2 as <-. exists ro1, ro2. split; [reflexivity|]. split; [reflexivity|].
  exact (forward_order_independent T t_eqb (univ key) (null key) (union key) (inter key) (single key) f leq
           Hr Ht He Hu Hi Hn _ fu1 fu2 wl1 wl2 ro1 ro2 Hcp Hcr Hw1 Hw2 F1 F2).
Qed.

(* ====================================================================== *)
(* 4. Domains.solve: forward_analyis then backward_analysis on the stored result *)
(* ====================================================================== *)
Section Solve.
  Variable T : Type.
  Variable t_eqb : T -> T -> bool.
  Variable univ null : string -> T.
  Variable union inter : string -> T -> T -> T.
  Variable single : string -> instr -> nat -> list sval -> T * T.
  Variable f : func.

  (* the two calls of run_analysis for one list of keys, on the worklists of the model *)
  Definition solve_gen (fuel : nat) (keys : list string) (bcs : gdict T) : py (option (gdict T)) :=
    bind (forward_analyis_gen T t_eqb univ null union inter single f fuel keys (forward_worklist f) bcs) (fun r =>
      match r with
      | None => ret None
      | Some bcs1 => backward_analysis_gen T t_eqb univ null union inter f fuel keys (backward_worklist f) bcs1
      end).

  Theorem solve_gen_eq : forall key fuel (bc : state T),
    main_name_fresh f -> NoDup (ids f) ->
    solve_gen fuel [key] [(key, bc)] =
    erase (omap (fun lo => [(key, lo)])
             (Domains.solve T t_eqb (univ key) (null key) (union key) (inter key) (single key) f fuel bc)).
  Proof.
    intros key fuel bc Hm Hnd. unfold solve_gen, Domains.solve.
    rewrite (forward_analyis_gen_eq T t_eqb univ null union inter single f key _ fuel _ Hm Hnd).
    assert (Hd : ddict_get T [(key, bc)] key = bc).
    { unfold ddict_get. cbn. rewrite String.eqb_refl. reflexivity. }
    rewrite Hd. fold (fwd_st0 T (null key) f).
    destruct (forward T t_eqb (univ key) (null key) (union key) (inter key) (single key) f (lookup T bc) fuel
                (forward_worklist f) (fwd_st0 T (null key) f)) as [ro| |] eqn:Hf; cbn [omap erase bind]; try reflexivity.
    assert (Hs : kdict_set T [(key, bc)] key ro = [(key, ro)]).
    { cbn. rewrite String.eqb_refl. reflexivity. }
    rewrite Hs.
    assert (Hd2 : ddict_get T [(key, ro)] key = ro).
    { unfold ddict_get. cbn. rewrite String.eqb_refl. reflexivity. }
    rewrite (backward_analysis_gen_eq T t_eqb univ null union inter f key _ fuel _ Hm Hnd).
    - rewrite Hd2. fold (bwd_st0 T (null key) f ro).
      match goal with |- context [omap _ ?X] => destruct X as [lo| |] end; cbn [omap erase]; try reflexivity.
      cbn. rewrite String.eqb_refl. reflexivity.
    - rewrite Hd2. intros b Hb _. apply lookup_in_keys.
      rewrite (forward_keys _ _ _ _ _ _ _ _ _ _ _ _ _ Hf). unfold fwd_st0. rewrite map_map. cbn [fst].
      apply in_map. exact Hb.
  Qed.
End Solve.

(* the model's start state of the backward pass takes null at a leaf block that has no block context, where the
   Python initialisation raises KeyError (not reachable from Domains.solve: the forward result has a value for every
   block, SolverLemmas.forward_keys) *)
Definition d_prog : prog := [mkIns 1 IReturn].
Definition d_func : func := mkFunc d_prog [mkBlock 0 [0] [] []] 0 [0] [] [] None.
Theorem backward_init_model_default :
  exists (f : func) (bcs : gdict nat),
    backward_analysis_gen nat Nat.eqb (fun _ => 9) (fun _ => 0) (fun _ => Nat.max) (fun _ => Nat.min) f 1 [""] [] bcs = None /\
    backward nat Nat.eqb 0 Nat.max Nat.min f (lookup nat (ddict_get nat bcs "")) 1 []
      (bwd_st0 nat 0 f (ddict_get nat bcs "")) = Done [(0, 0)].
Proof. exists d_func, []. vm_compute. split; reflexivity. Qed.

(* NoDup (ids f) is needed: a Python dictionary has one entry per block object, the model's start state one entry per
   element of fn_blocks *)
Definition d_func2 : func := mkFunc d_prog [mkBlock 0 [0] [] []; mkBlock 0 [0] [] []] 0 [0] [] [] None.
Theorem forward_analyis_gen_eq_refuted :
  exists (f : func) (bcs : gdict nat),
    main_name_fresh f /\
    forward_analyis_gen nat Nat.eqb (fun _ => 9) (fun _ => 0) (fun _ => Nat.max) (fun _ => Nat.min)
      (fun _ _ _ _ => (0, 0)) f 1 [""] [] bcs = Some (Some [("", [(0, 0)])]) /\
    forward nat Nat.eqb 9 0 Nat.max Nat.min (fun _ _ _ => (0, 0)) f (lookup nat (ddict_get nat bcs "")) 1 []
      (fwd_st0 nat 0 f) = Done [(0, 0); (0, 0)].
Proof. exists d_func2, []. vm_compute. repeat split. Qed.

(* ====================================================================== *)
(* 5. The accumulation of `updated`, on a concrete instance                *)
(* ====================================================================== *)
(* two keys on the one-block function d_func: the stored value of key "a" changes (0 -> 5), the one of key "b" does
   not.  The generated method reports a change.  (This statement is about the generated function alone; it is also
   compiled on its own by tools/test_translate_solver.py.) *)
(* PROBE-BEGIN *)
Definition p_func : func := mkFunc [mkIns 1 IReturn] [mkBlock 0 [0] [] []] 0 [0] [] [] None.
Definition p_reachout : list (string * state nat) := [("a", [(0, 0)]); ("b", [(0, 5)])].
Definition p_contexts : list (string * state nat) := [("a", [(0, 5)]); ("b", [(0, 5)])].
Theorem merge_information_forward_gen_accumulates_example :
  merge_information_forward_gen nat Nat.eqb (fun _ => 9) (fun _ => 0) (fun _ => Nat.max) (fun _ => Nat.min)
    (fun _ _ _ _ => (0, 0)) p_func ["a"; "b"] 0 p_reachout p_contexts
  = Some (true, [("a", [(0, 5)]); ("b", [(0, 5)])]).
Proof. vm_compute. reflexivity. Qed.
(* PROBE-END *)

(* the regression that overwrote the flag per key (`updated = new != old` for every key): the step of the fold no
   longer looks at the accumulator, and on the instance above the change of key "a" is lost *)
Definition regressed_key_step {T : Type} (t_eqb : T -> T -> bool) (inter : string -> T -> T -> T)
    (calc : string -> nat -> state T -> py T) (block : nat) (bcs : gdict T)
    (acc : py (gdict T * bool)) (key : string) : py (gdict T * bool) :=
  bind acc (fun st =>
    bind (bind (bind (kdict_get T (fst st) key) (fun d => calc key block d)) (fun r =>
          bind (dict_get T (ddict_get T bcs key) block) (fun c => ret (inter key r c)))) (fun new =>
    bind (bind (bind (kdict_get T (fst st) key) (fun d => dict_get T d block)) (fun old => ret (dom_neq T t_eqb new old))) (fun updated =>
    if updated
    then bind (kdict_get T (fst st) key) (fun d => ret (kdict_set T (fst st) key (dict_set T d block new), updated))
    else ret (fst st, updated)))).

Theorem regressed_merge_loses_update :
  fold_left (regressed_key_step Nat.eqb (fun _ => Nat.min)
               (call_calculate_reachin nat (fun _ => 9) (fun _ => 0) (fun _ => Nat.max) (fun _ => Nat.min)
                  (fun _ _ _ _ => (0, 0)) p_func) 0 p_contexts)
    ["a"; "b"] (Some (p_reachout, false))
  = Some ([("a", [(0, 5)]); ("b", [(0, 5)])], false).
Proof. vm_compute. reflexivity. Qed.

Print Assumptions merge_information_forward_gen_single.
Print Assumptions merge_information_backward_gen_single.
Print Assumptions merge_information_forward_gen_cons.
Print Assumptions merge_information_backward_gen_cons.
Print Assumptions merge_information_forward_gen_first_key_changes.
Print Assumptions forward_analyis_loop_gen_eq.
Print Assumptions backward_analysis_loop_gen_eq.
Print Assumptions forward_init_gen_eq.
Print Assumptions backward_init_gen_eq.
Print Assumptions forward_analyis_gen_eq.
Print Assumptions backward_analysis_gen_eq.
Print Assumptions backward_init_gen_exception.
Print Assumptions backward_init_model_default.
Print Assumptions forward_fixpoint_gen.
Print Assumptions backward_fixpoint_gen.
Print Assumptions forward_order_independent_gen.
Print Assumptions solve_gen_eq.
Print Assumptions forward_analyis_gen_eq_refuted.
Print Assumptions merge_information_forward_gen_accumulates_example.
Print Assumptions regressed_merge_loses_update.
