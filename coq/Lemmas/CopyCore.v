(* The fourth pass (raw_nexts, prev_of inside build_blocks) on the copy of a successor-closed selection of blocks:
   build_blocks pc = Some (sel_blocks bs M), given that create_bb pc is the renumbered selection (sel_raw). *)
From Coq Require Import String List NArith ZArith Bool Arith Lia Sorted.
From Tealer Require Import Tables Syntax Parse Cfg CfgLemmas CopyDefs.
Import ListNotations.
Close Scope string_scope.
Open Scope nat_scope.
Open Scope list_scope.

(* ------------------------------------------------------------------ generic list facts *)
Lemma nth_error_ext {A} : forall (l1 l2 : list A), (forall i, nth_error l1 i = nth_error l2 i) -> l1 = l2.
Proof.
  induction l1 as [|a l1 IH]; intros [|b l2] H.
  - reflexivity.
  - specialize (H 0); discriminate.
  - specialize (H 0); discriminate.
  - f_equal.
    + specialize (H 0). simpl in H. congruence.
    + apply IH. intros i. apply (H (S i)).
Qed.

Lemma NoDup_app_l {A} (l1 l2 : list A) : NoDup (l1 ++ l2) -> NoDup l1.
Proof.
  induction l1 as [|a l1 IH]; intros H; [constructor|].
  simpl in H. apply NoDup_cons_iff in H. destruct H as [Hni Hnd].
  constructor; [|apply IH; assumption]. intros Hin. apply Hni. apply in_or_app. left; assumption.
Qed.

Lemma NoDup_app_intro {A} (l1 l2 : list A) :
  NoDup l1 -> NoDup l2 -> (forall x, In x l1 -> In x l2 -> False) -> NoDup (l1 ++ l2).
Proof.
  induction l1 as [|a l1 IH]; intros H1 H2 Hd; [assumption|].
  apply NoDup_cons_iff in H1. destruct H1 as [Hni H1]. simpl. constructor.
  - intros Hin. apply in_app_or in Hin. destruct Hin as [Hin|Hin]; [tauto|].
    apply (Hd a); [left; reflexivity | assumption].
  - apply IH; try assumption. intros x Hx1 Hx2. apply (Hd x); [right; assumption | assumption].
Qed.

Lemma NoDup_map_inj_in {A B} (f : A -> B) : forall l,
  (forall x y, In x l -> In y l -> f x = f y -> x = y) -> NoDup l -> NoDup (map f l).
Proof.
  induction l as [|a l IH]; intros Hinj Hnd; [constructor|].
  apply NoDup_cons_iff in Hnd. destruct Hnd as [Hni Hnd]. simpl. constructor.
  - intros Hin. apply in_map_iff in Hin. destruct Hin as (y & Hy & Hiny).
    assert (y = a) by (apply Hinj; [right; assumption | left; reflexivity | assumption]).
    subst y. tauto.
  - apply IH; [|assumption]. intros x y Hx Hy. apply Hinj; right; assumption.
Qed.

Lemma flat_map_ext_in {A B} (f g : A -> list B) : forall l,
  (forall a, In a l -> f a = g a) -> flat_map f l = flat_map g l.
Proof.
  induction l as [|a l IH]; intros H; [reflexivity|].
  simpl. rewrite (H a) by (left; reflexivity). f_equal. apply IH. intros b Hb. apply H. right; assumption.
Qed.

Lemma flat_map_nth {A B} (f : A -> B) (l : list A) (d : A) : forall S,
  (forall n, In n S -> n < length l) ->
  flat_map (fun n => match nth_error l n with Some x => [f x] | None => [] end) S = map (fun n => f (nth n l d)) S.
Proof.
  induction S as [|n S IH]; intros H; [reflexivity|].
  simpl. rewrite (nth_error_nth' l d) by (apply H; left; reflexivity).
  simpl. f_equal. apply IH. intros m Hm. apply H. right; assumption.
Qed.

Lemma last_map {A B} (f : A -> B) : forall l d d', l <> [] -> last (map f l) d = f (last l d').
Proof.
  induction l as [|a l IH]; intros d d' Hne; [congruence|].
  destruct l as [|b l]; [reflexivity|].
  change (last (map f (a :: b :: l)) d) with (last (map f (b :: l)) d).
  change (last (a :: b :: l) d') with (last (b :: l) d').
  apply IH. discriminate.
Qed.

Lemma last_In (l : list nat) d : l <> [] -> In (last l d) l.
Proof.
  induction l as [|a l IH]; intros Hne; [congruence|].
  destruct l as [|b l]; [left; reflexivity|].
  right. change (last (a :: b :: l) d) with (last (b :: l) d). apply IH. discriminate.
Qed.

Lemma combine_map2 {A B C} (f : A -> B) (g : A -> C) : forall l,
  combine (map f l) (map g l) = map (fun x => (f x, g x)) l.
Proof. induction l as [|a l IH]; [reflexivity|]. simpl. f_equal. apply IH. Qed.

Lemma tl_map {A B} (f : A -> B) l : tl (map f l) = map f (tl l).
Proof. destruct l; reflexivity. Qed.

(* ------------------------------------------------------------------ index_of *)
Lemma index_of_nth_error x : forall l, In x l -> nth_error l (index_of x l) = Some x.
Proof.
  induction l as [|y t IH]; intros H; [destruct H|].
  simpl. destruct (Nat.eqb y x) eqn:E.
  - apply Nat.eqb_eq in E. subst. reflexivity.
  - simpl. apply IH. destruct H as [H|H]; [|assumption]. apply Nat.eqb_neq in E. congruence.
Qed.

Lemma index_of_lt x l : In x l -> index_of x l < length l.
Proof.
  intros H. apply nth_error_Some. rewrite (index_of_nth_error x l H). discriminate.
Qed.

Lemma nth_error_index_of : forall l i x, NoDup l -> nth_error l i = Some x -> index_of x l = i.
Proof.
  induction l as [|y t IH]; intros i x Hnd Hi; [destruct i; discriminate|].
  apply NoDup_cons_iff in Hnd. destruct Hnd as [Hni Hnd].
  simpl. destruct i as [|i]; simpl in Hi.
  - inversion Hi; subst. rewrite Nat.eqb_refl. reflexivity.
  - destruct (Nat.eqb y x) eqn:E.
    + apply Nat.eqb_eq in E. subst. exfalso. apply Hni. eapply nth_error_In; eauto.
    + f_equal. apply IH; assumption.
Qed.

Lemma index_of_inj l x y : In x l -> In y l -> index_of x l = index_of y l -> x = y.
Proof.
  intros Hx Hy E. pose proof (index_of_nth_error x l Hx) as H1.
  pose proof (index_of_nth_error y l Hy) as H2. rewrite E in H1. congruence.
Qed.

Lemma combine_seq_index {B} (h : nat -> B) S :
  NoDup S -> combine (seq 0 (length S)) (map h S) = map (fun n => (index_of n S, h n)) S.
Proof.
  intros Hnd. apply nth_error_ext. intros i.
  rewrite nth_error_combine, nth_error_seq', !nth_error_map. simpl.
  destruct (nth_error S i) as [n|] eqn:E; simpl.
  - assert (Hlt : i < length S) by (apply nth_error_Some; congruence).
    apply Nat.ltb_lt in Hlt. rewrite Hlt. rewrite (nth_error_index_of S i n Hnd E). reflexivity.
  - destruct (i <? length S); reflexivity.
Qed.

Lemma map_index_seq pre l rest :
  NoDup (pre ++ l ++ rest) ->
  map (fun x => index_of x (pre ++ l ++ rest)) l = seq (length pre) (length l).
Proof.
  intros Hnd. apply nth_error_ext. intros i.
  rewrite nth_error_map, nth_error_seq'.
  destruct (nth_error l i) as [x|] eqn:E; simpl.
  - assert (Hlt : i < length l) by (apply nth_error_Some; congruence).
    pose proof Hlt as Hlt'. apply Nat.ltb_lt in Hlt'. rewrite Hlt'. f_equal.
    apply nth_error_index_of; [assumption|].
    rewrite nth_error_app2 by lia. replace (length pre + i - length pre) with i by lia.
    rewrite nth_error_app1 by lia. assumption.
  - apply nth_error_None in E. apply Nat.ltb_ge in E. rewrite E. reflexivity.
Qed.

(* ------------------------------------------------------------------ strictly increasing lists *)
Lemma ssorted_seq : forall n a, StronglySorted lt (seq a n).
Proof.
  induction n as [|n IH]; intros a; simpl; constructor.
  - apply IH.
  - apply Forall_forall. intros x Hx. apply in_seq in Hx. lia.
Qed.

Lemma ssorted_filter f : forall l, StronglySorted lt l -> StronglySorted lt (filter f l).
Proof.
  induction l as [|a l IH]; intros H; simpl; [constructor|].
  apply StronglySorted_inv in H. destruct H as [Hs Hf].
  destruct (f a); [|apply IH; assumption]. constructor; [apply IH; assumption|].
  rewrite Forall_forall in *. intros x Hx. apply filter_In in Hx. apply Hf, Hx.
Qed.

Lemma ssorted_nth : forall l i j a b, StronglySorted lt l -> i < j ->
  nth_error l i = Some a -> nth_error l j = Some b -> a < b.
Proof.
  induction l as [|y l IH]; intros i j a b Hs Hij Hi Hj; [destruct i; discriminate|].
  apply StronglySorted_inv in Hs. destruct Hs as [Hs Hf].
  destruct j as [|j]; [lia|]. simpl in Hj. destruct i as [|i]; simpl in Hi.
  - inversion Hi; subst. rewrite Forall_forall in Hf. apply Hf. eapply nth_error_In; eauto.
  - apply (IH i j); try assumption. lia.
Qed.

Lemma ssorted_NoDup : forall l, StronglySorted lt l -> NoDup l.
Proof.
  induction l as [|y l IH]; intros Hs; [constructor|].
  apply StronglySorted_inv in Hs. destruct Hs as [Hs Hf]. constructor; [|apply IH; assumption].
  intros Hin. rewrite Forall_forall in Hf. specialize (Hf y Hin). lia.
Qed.

Lemma ssorted_consecutive l n :
  StronglySorted lt l -> In n l -> In (S n) l -> index_of (S n) l = S (index_of n l).
Proof.
  intros Hs Hn Hsn.
  pose proof (index_of_nth_error n l Hn) as Hi. pose proof (index_of_nth_error (S n) l Hsn) as Hj.
  pose proof (index_of_lt (S n) l Hsn) as Hjl.
  set (i := index_of n l) in *. set (j := index_of (S n) l) in *.
  destruct (Nat.lt_trichotomy j i) as [H|[H|H]].
  - pose proof (ssorted_nth l j i _ _ Hs H Hj Hi). lia.
  - rewrite H in Hj. rewrite Hi in Hj. inversion Hj. lia.
  - destruct (Nat.eq_dec j (S i)) as [E|E]; [assumption|]. exfalso.
    destruct (nth_error l (S i)) as [c|] eqn:Ec.
    + assert (H1 : n < c) by (apply (ssorted_nth l i (S i) n c Hs); [lia | assumption | assumption]).
      assert (H2 : c < S n) by (apply (ssorted_nth l (S i) j c (S n) Hs); [lia | assumption | assumption]).
      lia.
    + apply nth_error_None in Ec. lia.
Qed.

(* ------------------------------------------------------------------ renaming under an injective map *)
Lemma nat_mem_map f (P : nat -> Prop) x l :
  (forall a b, P a -> P b -> f a = f b -> a = b) -> P x -> (forall a, In a l -> P a) ->
  nat_mem (f x) (map f l) = nat_mem x l.
Proof.
  intros Hinj Hx Hl. destruct (nat_mem x l) eqn:E.
  - apply nat_mem_In. apply nat_mem_In in E. apply in_map. assumption.
  - destruct (nat_mem (f x) (map f l)) eqn:E'; [|reflexivity].
    apply nat_mem_In in E'. apply in_map_iff in E'. destruct E' as (y & Hy & Hin).
    assert (y = x) by (apply Hinj; auto). subst y.
    apply nat_mem_In in Hin. congruence.
Qed.

Lemma add_new_map f (P : nat -> Prop) :
  (forall a b, P a -> P b -> f a = f b -> a = b) ->
  forall xs l, (forall a, In a l -> P a) -> (forall a, In a xs -> P a) ->
  add_new (map f l) (map f xs) = map f (add_new l xs).
Proof.
  intros Hinj. induction xs as [|x xs IH]; intros l Hl Hxs; [reflexivity|].
  simpl. rewrite (nat_mem_map f P x l Hinj) by (auto; apply Hxs; left; reflexivity).
  destruct (nat_mem x l).
  - apply IH; [assumption|]. intros a Ha. apply Hxs. right; assumption.
  - replace (map f l ++ [f x]) with (map f (l ++ [x])) by (rewrite map_app; reflexivity).
    apply IH.
    + intros a Ha. apply in_app_or in Ha. destruct Ha as [Ha|[<-|[]]]; [apply Hl; assumption|].
      apply Hxs. left; reflexivity.
    + intros a Ha. apply Hxs. right; assumption.
Qed.

Lemma raw_nexts_intro p all : forall l n0 nexts,
  length nexts = length l ->
  (forall j b nx, nth_error l j = Some b -> nth_error nexts j = Some nx -> raw_next p all (n0 + j) b = Some nx) ->
  raw_nexts p all l n0 = Some nexts.
Proof.
  induction l as [|b l IH]; intros n0 nexts Hlen H.
  - destruct nexts; [reflexivity | discriminate].
  - destruct nexts as [|nx nexts]; [discriminate|]. simpl in Hlen. simpl.
    pose proof (H 0 b nx eq_refl eq_refl) as H0. replace (n0 + 0) with n0 in H0 by lia. rewrite H0.
    rewrite (IH (S n0) nexts); [reflexivity | lia |].
    intros j b' nx' Hb' Hnx'. replace (S n0 + j) with (n0 + S j) by lia. apply H; assumption.
Qed.

(* ------------------------------------------------------------------ prev_of, unfolded over block indices *)
Definition added (rbs : list rawblock) (m : nat) (nx : list nat) : list nat :=
  match nth_error rbs m with Some b => if rb_dflt b then tl nx else nx | None => nx end.
Definition dfl (rbs : list rawblock) (n : nat) : list nat :=
  match n with
  | O => []
  | S m => match nth_error rbs m with Some b => if rb_dflt b then [m] else [] | None => [] end
  end.

Lemma flat_map_map' {A B C} (f : B -> list C) (g : A -> B) : forall l,
  flat_map f (map g l) = flat_map (fun x => f (g x)) l.
Proof. induction l as [|a l IH]; [reflexivity|]. simpl. rewrite IH. reflexivity. Qed.

Lemma combine_seq_nth {A} (l : list A) (d : A) :
  combine (seq 0 (length l)) l = map (fun m => (m, nth m l d)) (seq 0 (length l)).
Proof.
  apply nth_error_ext. intros i.
  rewrite nth_error_combine, nth_error_map, nth_error_seq'. simpl.
  destruct (i <? length l) eqn:E; simpl.
  - apply Nat.ltb_lt in E. rewrite (nth_error_nth' l d E). reflexivity.
  - reflexivity.
Qed.

Lemma prev_of_eq rbs nexts n :
  prev_of rbs nexts n =
  dfl rbs n ++ flat_map (fun m => if nat_mem n (added rbs m (nth m nexts [])) then [m] else []) (seq 0 (length nexts)).
Proof.
  unfold prev_of. f_equal.
  rewrite (combine_seq_nth nexts []), flat_map_map'. reflexivity.
Qed.

Lemma map_filter_flat_single (f : nat -> bool) (t : nat -> nat) (c : nat -> bool) : forall l,
  map t (filter f (flat_map (fun m => if c m then [m] else []) l)) =
  flat_map (fun m => if c m then [t m] else []) (filter f l).
Proof.
  induction l as [|a l IH]; [reflexivity|].
  cbn [flat_map filter]. rewrite filter_app, map_app, IH.
  destruct (c a) eqn:Ec; destruct (f a) eqn:Ef; cbn [filter map app flat_map]; rewrite ?Ef, ?Ec; reflexivity.
Qed.

Lemma map_index_self S : NoDup S -> map (fun n => index_of n S) S = seq 0 (length S).
Proof.
  intros Hnd. apply nth_error_ext. intros i. rewrite nth_error_map, nth_error_seq'.
  destruct (nth_error S i) as [x|] eqn:E; simpl.
  - assert (Hlt : i < length S) by (apply nth_error_Some; congruence).
    apply Nat.ltb_lt in Hlt. rewrite Hlt. rewrite (nth_error_index_of S i x Hnd E). reflexivity.
  - apply nth_error_None in E. apply Nat.ltb_ge in E. rewrite E. reflexivity.
Qed.

(* ------------------------------------------------------------------ the selection *)
Definition dR : rawblock := mkRaw [] false.
Definition tauf (bs : list block) (M : list nat) (m : nat) : nat := index_of m (sel (length bs) M).
Definition sigf (bs : list block) (M : list nat) (k : nat) : nat := index_of k (sel_pos bs M).
Definition ren (bs : list block) (M : list nat) (rb : rawblock) : rawblock :=
  mkRaw (map (sigf bs M) (rb_ins rb)) (rb_dflt rb).
Definition nexts_sel (nexts : list (list nat)) (bs : list block) (M : list nat) : list (list nat) :=
  map (fun n => map (tauf bs M) (nth n nexts [])) (sel (length bs) M).
Definition dB : block := mkBlock 0 [] [] [].

Lemma sel_In n L M : In n (sel L M) <-> In n M /\ n < L.
Proof.
  unfold sel. rewrite filter_In, in_seq, nat_mem_In.
  split; intros H; [split; [tauto|lia] | split; [lia|tauto]].
Qed.

Lemma sel_sorted L M : StronglySorted lt (sel L M).
Proof. apply ssorted_filter, ssorted_seq. Qed.

Lemma sel_NoDup L M : NoDup (sel L M).
Proof. apply ssorted_NoDup, sel_sorted. Qed.

Lemma renum_index : forall l pre, NoDup (pre ++ concat (map rb_ins l)) ->
  renum (length pre) l =
  map (fun rb => mkRaw (map (fun x => index_of x (pre ++ concat (map rb_ins l))) (rb_ins rb)) (rb_dflt rb)) l.
Proof.
  induction l as [|b r IH]; intros pre Hnd; [reflexivity|].
  cbn [renum map concat]. cbn [map concat] in Hnd. f_equal.
  - f_equal. symmetry. apply map_index_seq. exact Hnd.
  - replace (length pre + length (rb_ins b)) with (length (pre ++ rb_ins b)) by (rewrite app_length; reflexivity).
    rewrite app_assoc in Hnd. rewrite (IH _ Hnd).
    apply map_ext. intros rb. rewrite <- app_assoc. reflexivity.
Qed.

Section Core.
Variables (p pc : prog) (rbs : list rawblock) (nexts : list (list nat)) (bs : list block) (M : list nat).
Hypothesis Hnd : NoDup (concat (map rb_ins rbs)).
Hypothesis HLn : length nexts = length rbs.
Hypothesis HLb : length bs = length rbs.
Hypothesis Hbs : forall n b, nth_error bs n = Some b ->
  exists rb nx, nth_error rbs n = Some rb /\ nth_error nexts n = Some nx /\
                raw_next p rbs n rb = Some nx /\ b = mkBlock n (rb_ins rb) nx (prev_of rbs nexts n).
Hypothesis Hcl : closed bs M.
Hypothesis Hrange : forall b m, In b bs -> In m (b_next b) -> m < length bs.
Hypothesis Hns : next_sel p pc (sel_pos bs M).

Notation Sx := (sel (length bs) M).
Notation K := (sel_pos bs M).
Notation tau := (tauf bs M).
Notation sigma := (sigf bs M).
Notation rbs' := (sel_raw rbs M).

Lemma get n : In n Sx ->
  exists rb nx, nth_error rbs n = Some rb /\ nth_error nexts n = Some nx /\
    nth_error bs n = Some (mkBlock n (rb_ins rb) nx (prev_of rbs nexts n)) /\
    raw_next p rbs n rb = Some nx /\ nth n rbs dR = rb /\ nth n nexts [] = nx.
Proof.
  intros Hn. apply sel_In in Hn. destruct Hn as [HM Hlt].
  destruct (nth_error bs n) as [b|] eqn:Eb; [|apply nth_error_None in Eb; lia].
  destruct (Hbs n b Eb) as (rb & nx & Hrb & Hnx & Hr & E). subst b.
  exists rb, nx. repeat split; try assumption; apply nth_error_nth; assumption.
Qed.

Lemma succ_in n nx m : In n Sx -> nth_error nexts n = Some nx -> In m nx -> In m Sx.
Proof.
  intros Hn Hnx Hm. destruct (get n Hn) as (rb & nx0 & Hrb & Hnx0 & Hb & _).
  rewrite Hnx in Hnx0. inversion Hnx0; subst nx0; clear Hnx0.
  apply sel_In in Hn. destruct Hn as [HM Hlt]. apply sel_In. split.
  - apply (Hcl n m HM Hlt). unfold next_of, get_block. rewrite Hb. exact Hm.
  - apply (Hrange _ m (nth_error_In _ _ Hb)). exact Hm.
Qed.

Lemma K_eq : K = flat_map (fun n => rb_ins (nth n rbs dR)) Sx.
Proof.
  unfold sel_pos. apply flat_map_ext_in. intros n Hn.
  destruct (get n Hn) as (rb & nx & _ & _ & Hb & _ & E & _). rewrite Hb, E. reflexivity.
Qed.

Lemma K_eq2 : K = concat (map rb_ins (map (fun n => nth n rbs dR) Sx)).
Proof. rewrite K_eq, flat_map_concat_map, map_map. reflexivity. Qed.

Lemma K_In x : In x K <-> exists n, In n Sx /\ In x (rb_ins (nth n rbs dR)).
Proof. rewrite K_eq. apply in_flat_map. Qed.

Lemma nodup_block n rb : nth_error rbs n = Some rb -> NoDup (rb_ins rb).
Proof.
  intros Hrb. destruct (nth_error_split rbs n Hrb) as (l1 & l2 & E & _).
  pose proof Hnd as H. rewrite E, map_app, concat_app in H. cbn [map concat] in H.
  apply NoDup_app_r in H. apply NoDup_app_l in H. exact H.
Qed.

Lemma nodup_sub : forall S', NoDup S' -> (forall n, In n S' -> n < length rbs) ->
  NoDup (flat_map (fun n => rb_ins (nth n rbs dR)) S').
Proof.
  induction S' as [|a S' IH]; intros HS Hlt; [constructor|].
  apply NoDup_cons_iff in HS. destruct HS as [Hni HS].
  assert (Ha : nth_error rbs a = Some (nth a rbs dR)) by (apply nth_error_nth'; apply Hlt; left; reflexivity).
  cbn [flat_map]. apply NoDup_app_intro.
  - apply (nodup_block a). exact Ha.
  - apply IH; [assumption|]. intros n Hn. apply Hlt. right; assumption.
  - intros x Hx1 Hx2. apply in_flat_map in Hx2. destruct Hx2 as (b & Hb & Hxb).
    assert (Hb' : nth_error rbs b = Some (nth b rbs dR)) by (apply nth_error_nth'; apply Hlt; right; assumption).
    pose proof (block_of_pos_unique rbs x 0 a _ Hnd Ha Hx1) as E1.
    pose proof (block_of_pos_unique rbs x 0 b _ Hnd Hb' Hxb) as E2.
    rewrite E1 in E2. inversion E2. subst b. tauto.
Qed.

Lemma K_NoDup : NoDup K.
Proof.
  rewrite K_eq. apply nodup_sub; [apply sel_NoDup|].
  intros n Hn. apply sel_In in Hn. lia.
Qed.

Lemma sigma_inj x y : In x K -> In y K -> sigma x = sigma y -> x = y.
Proof. apply index_of_inj. Qed.

Lemma tau_inj x y : In x Sx -> In y Sx -> tau x = tau y -> x = y.
Proof. apply index_of_inj. Qed.

Lemma rbs'_eq : rbs' = map (fun n => ren bs M (nth n rbs dR)) Sx.
Proof.
  unfold sel_raw. rewrite <- HLb.
  assert (E : flat_map (fun n => match nth_error rbs n with Some b => [b] | None => [] end) Sx
              = map (fun n => nth n rbs dR) Sx).
  { apply (flat_map_nth (fun x => x)). intros n Hn. apply sel_In in Hn. lia. }
  rewrite E.
  pose proof (renum_index (map (fun n => nth n rbs dR) Sx) []) as R.
  cbn [length app] in R. rewrite R by (rewrite <- K_eq2; apply K_NoDup).
  rewrite map_map. apply map_ext. intros n. unfold ren, sigf. rewrite <- K_eq2. reflexivity.
Qed.

Lemma rbs'_length : length rbs' = length Sx.
Proof. rewrite rbs'_eq, map_length. reflexivity. Qed.

Lemma rbs'_nth n : In n Sx -> nth_error rbs' (tau n) = Some (ren bs M (nth n rbs dR)).
Proof.
  intros Hn. rewrite rbs'_eq, nth_error_map. unfold tauf. rewrite (index_of_nth_error n _ Hn). reflexivity.
Qed.

Lemma rbs'_concat : concat (map rb_ins rbs') = map sigma K.
Proof.
  rewrite rbs'_eq, K_eq2 at 1. rewrite concat_map, !map_map. reflexivity.
Qed.

Lemma rbs'_NoDup : NoDup (concat (map rb_ins rbs')).
Proof.
  rewrite rbs'_concat. apply NoDup_map_inj_in; [|apply K_NoDup].
  intros x y. apply sigma_inj.
Qed.

Lemma bop_sel x m : block_of_pos rbs x 0 = Some m -> In m Sx ->
  block_of_pos rbs' (sigma x) 0 = Some (tau m).
Proof.
  intros H Hm. apply block_of_pos_spec in H. destruct H as (_ & rb & Hrb & Hin).
  rewrite Nat.sub_0_r in Hrb.
  apply (block_of_pos_unique rbs' (sigma x) 0 (tau m) (ren bs M rb)).
  - apply rbs'_NoDup.
  - rewrite (rbs'_nth m Hm). rewrite (nth_error_nth _ _ dR Hrb). reflexivity.
  - cbn [ren rb_ins]. apply in_map. exact Hin.
Qed.

Lemma map_opt_sel : forall inx tb,
  map_opt (fun k => block_of_pos rbs k 0) inx = Some tb -> (forall m, In m tb -> In m Sx) ->
  map_opt (fun k => block_of_pos rbs' k 0) (map sigma inx) = Some (map tau tb).
Proof.
  induction inx as [|a inx IH]; intros tb H Htb; cbn [map_opt map] in *.
  - inversion H; subst. reflexivity.
  - destruct (block_of_pos rbs a 0) as [m|] eqn:E1; [|discriminate].
    destruct (map_opt (fun k => block_of_pos rbs k 0) inx) as [r|] eqn:E2; [|discriminate].
    inversion H; subst tb; clear H.
    rewrite (bop_sel a m E1) by (apply Htb; left; reflexivity).
    rewrite (IH r eq_refl) by (intros m' Hm'; apply Htb; right; assumption).
    reflexivity.
Qed.

Notation nexts' := (nexts_sel nexts bs M).

Lemma tau_S n : In n Sx -> In (S n) Sx -> tau (S n) = S (tau n).
Proof. intros H1 H2. apply ssorted_consecutive; [apply sel_sorted | assumption | assumption]. Qed.

Lemma tau_nth i n : nth_error Sx i = Some n -> tau n = i.
Proof. intros H. apply nth_error_index_of; [apply sel_NoDup | assumption]. Qed.

Lemma raw_next_sel n rb nx : In n Sx -> nth_error rbs n = Some rb -> nth_error nexts n = Some nx ->
  raw_next p rbs n rb = Some nx ->
  raw_next pc rbs' (tau n) (ren bs M rb) = Some (map tau nx).
Proof.
  intros Hn Hrb Hnx Hr.
  destruct (raw_next_spec _ _ _ _ _ Hr) as (Hne & inx & tb & Hinx & Hmap & Enx).
  assert (HeK : In (last (rb_ins rb) 0) K).
  { apply K_In. exists n. split; [assumption|]. rewrite (nth_error_nth _ _ dR Hrb). apply last_In. assumption. }
  destruct (Hns _ _ (index_of_nth_error _ _ HeK)) as (nx0 & Hnx0 & HinK & Hpc).
  rewrite Hinx in Hnx0. inversion Hnx0; subst nx0; clear Hnx0.
  change (ins_next pc (sigma (last (rb_ins rb) 0)) = Some (map sigma inx)) in Hpc.
  assert (Htb : forall m, In m tb -> In m Sx).
  { intros m Hm. apply (succ_in n nx m Hn Hnx). rewrite Enx. apply add_new_In. right; assumption. }
  assert (Hd : rb_dflt rb = true -> In (S n) Sx).
  { intros Hd. apply (succ_in n nx (S n) Hn Hnx). rewrite Enx, Hd. apply add_new_In. left. left. reflexivity. }
  unfold raw_next. cbn [ren rb_ins rb_dflt].
  rewrite (last_map sigma (rb_ins rb) 0 0 Hne).
  remember (last (rb_ins rb) 0) as e eqn:Ee.
  destruct (rb_ins rb) as [|h t] eqn:Ei; [congruence|]. cbn [map].
  rewrite Hpc. rewrite (map_opt_sel inx tb Hmap Htb). f_equal.
  rewrite Enx.
  destruct (rb_dflt rb) eqn:Ed.
  - rewrite <- (tau_S n Hn (Hd eq_refl)). change [tau (S n)] with (map tau [S n]).
    apply (add_new_map tau (fun x => In x Sx)).
    + intros a b. apply tau_inj.
    + intros a [<-|[]]. apply Hd. reflexivity.
    + exact Htb.
  - change (@nil nat) with (map tau []) at 1.
    apply (add_new_map tau (fun x => In x Sx)).
    + intros a b. apply tau_inj.
    + intros a [].
    + exact Htb.
Qed.

Lemma nexts'_length : length nexts' = length Sx.
Proof. unfold nexts_sel. apply map_length. Qed.

Lemma nexts'_nth n : In n Sx -> nth (tau n) nexts' [] = map tau (nth n nexts []).
Proof.
  intros Hn. apply nth_error_nth. unfold nexts_sel. rewrite nth_error_map.
  unfold tauf. rewrite (index_of_nth_error n _ Hn). reflexivity.
Qed.

Lemma raw_nexts_sel : raw_nexts pc rbs' rbs' 0 = Some nexts'.
Proof.
  apply raw_nexts_intro.
  - rewrite nexts'_length, rbs'_length. reflexivity.
  - intros j b nx Hb Hnx. rewrite rbs'_eq, nth_error_map in Hb.
    unfold nexts_sel in Hnx. rewrite nth_error_map in Hnx.
    destruct (nth_error Sx j) as [n|] eqn:En; [|discriminate].
    cbn [option_map] in Hb, Hnx. inversion Hb; subst b; clear Hb. inversion Hnx; subst nx; clear Hnx.
    assert (Hn : In n Sx) by (eapply nth_error_In; eauto).
    cbn [Nat.add]. rewrite <- (tau_nth j n En).
    destruct (get n Hn) as (rb & nx & Hrb & Hnx & _ & Hr & E1 & E2). rewrite E1, E2.
    apply raw_next_sel; assumption.
Qed.
(* default-edge facts *)
Lemma dflt_succ m0 : In m0 Sx -> rb_dflt (nth m0 rbs dR) = true -> In (S m0) Sx.
Proof.
  intros Hm Hd. destruct (get m0 Hm) as (rb & nx & Hrb & Hnx & _ & Hr & E1 & _). rewrite E1 in Hd.
  destruct (raw_next_spec _ _ _ _ _ Hr) as (_ & inx & tb & _ & _ & Enx).
  apply (succ_in m0 nx (S m0) Hm Hnx). rewrite Enx, Hd. apply add_new_In. left. left. reflexivity.
Qed.

Lemma pred_sel m : In (S m) Sx -> In m M -> In m Sx.
Proof. intros H HM. apply sel_In in H. apply sel_In. split; [assumption | lia]. Qed.

Lemma dfl_sel n : In n Sx ->
  dfl rbs' (tau n) = map tau (filter (fun m => nat_mem m M) (dfl rbs n)).
Proof.
  intros Hn. unfold dfl at 1. destruct (tau n) as [|i0] eqn:Et.
  - destruct n as [|m]; [reflexivity|]. cbn [dfl].
    destruct (nth_error rbs m) as [b|] eqn:Eb; [|reflexivity].
    destruct (rb_dflt b) eqn:Ed; [|reflexivity]. cbn [filter].
    destruct (nat_mem m M) eqn:Em; [|reflexivity]. exfalso.
    apply nat_mem_In in Em. pose proof (pred_sel m Hn Em) as Hm.
    rewrite (tau_S m Hm Hn) in Et. discriminate.
  - assert (Hi : nth_error Sx (S i0) = Some n).
    { rewrite <- Et. unfold tauf. apply index_of_nth_error. assumption. }
    destruct (nth_error Sx i0) as [m0|] eqn:Em0.
    2:{ apply nth_error_None in Em0. assert (S i0 < length Sx) by (apply nth_error_Some; congruence). lia. }
    assert (Hm0 : In m0 Sx) by (eapply nth_error_In; eauto).
    pose proof (tau_nth i0 m0 Em0) as Et0.
    rewrite <- Et0 at 1. rewrite (rbs'_nth m0 Hm0). cbn [ren rb_dflt].
    destruct (rb_dflt (nth m0 rbs dR)) eqn:Ed.
    + pose proof (dflt_succ m0 Hm0 Ed) as Hs.
      assert (En : S m0 = n).
      { apply tau_inj; try assumption. rewrite (tau_S m0 Hm0 Hs). congruence. }
      subst n. cbn [dfl].
      destruct (get m0 Hm0) as (rb & nx & Hrb & _ & _ & _ & E1 & _). rewrite Hrb. rewrite E1 in Ed. rewrite Ed.
      cbn [filter]. apply sel_In in Hm0. destruct Hm0 as [HM _]. apply nat_mem_In in HM. rewrite HM.
      cbn [map]. rewrite Et0. reflexivity.
    + destruct n as [|m]; [reflexivity|]. cbn [dfl].
      destruct (nth_error rbs m) as [b|] eqn:Eb; [|reflexivity].
      destruct (rb_dflt b) eqn:Edb; [|reflexivity]. cbn [filter].
      destruct (nat_mem m M) eqn:Em; [|reflexivity]. exfalso.
      apply nat_mem_In in Em. pose proof (pred_sel m Hn Em) as Hm.
      rewrite (tau_S m Hm Hn) in Et. inversion Et as [Et'].
      assert (m = m0) by (apply tau_inj; try assumption; congruence). subst m0.
      rewrite (nth_error_nth _ _ dR Eb) in Ed. congruence.
Qed.

Lemma jumps_sel n : In n Sx ->
  flat_map (fun i => if nat_mem (tau n) (added rbs' i (nth i nexts' [])) then [i] else []) (seq 0 (length nexts'))
  = map tau (filter (fun m => nat_mem m M)
       (flat_map (fun m => if nat_mem n (added rbs m (nth m nexts [])) then [m] else []) (seq 0 (length nexts)))).
Proof.
  intros Hn.
  pose proof (map_filter_flat_single (fun m => nat_mem m M) tau
                (fun m => nat_mem n (added rbs m (nth m nexts []))) (seq 0 (length nexts))) as E.
  cbv beta in E. rewrite E. clear E.
  rewrite HLn, <- HLb. change (filter (fun m => nat_mem m M) (seq 0 (length bs))) with Sx.
  rewrite nexts'_length. rewrite <- (map_index_self Sx (sel_NoDup _ _)). rewrite flat_map_map'.
  apply flat_map_ext_in. intros m Hm. fold (tau m).
  rewrite (nexts'_nth m Hm). unfold added. rewrite (rbs'_nth m Hm). cbn [ren rb_dflt].
  destruct (get m Hm) as (rb & nx & Hrb & Hnx & _ & _ & E1 & E2). rewrite Hrb, E1, E2.
  assert (Hsub : forall a, In a nx -> In a Sx) by (intros a Ha; apply (succ_in m nx a Hm Hnx Ha)).
  destruct (rb_dflt rb).
  - rewrite tl_map. rewrite (nat_mem_map tau (fun x => In x Sx)); try assumption.
    + reflexivity.
    + intros a b. apply tau_inj.
    + intros a Ha. apply Hsub. destruct nx; [destruct Ha | right; exact Ha].
  - rewrite (nat_mem_map tau (fun x => In x Sx)); try assumption.
    + reflexivity.
    + intros a b. apply tau_inj.
Qed.

Lemma prev_sel n : In n Sx ->
  prev_of rbs' nexts' (tau n) = map tau (filter (fun m => nat_mem m M) (prev_of rbs nexts n)).
Proof.
  intros Hn. rewrite !prev_of_eq, filter_app, map_app.
  rewrite (dfl_sel n Hn), (jumps_sel n Hn). reflexivity.
Qed.

Lemma blocks_sel :
  map (fun '(n, (b, nx)) => mkBlock n (rb_ins b) nx (prev_of rbs' nexts' n))
      (combine (seq 0 (length rbs')) (combine rbs' nexts')) = sel_blocks bs M.
Proof.
  unfold sel_blocks.
  rewrite (flat_map_nth (sel_block bs M) bs dB) by (intros n Hn; apply sel_In in Hn; lia).
  set (PR := prev_of rbs' nexts').
  rewrite rbs'_length, rbs'_eq. unfold nexts_sel.
  rewrite combine_map2, (combine_seq_index _ Sx (sel_NoDup _ _)), map_map.
  apply map_ext_in. intros n Hn. cbv beta iota.
  destruct (get n Hn) as (rb & nx & Hrb & Hnx & Hb & _ & E1 & E2).
  rewrite (nth_error_nth _ _ dB Hb), E1, E2. unfold sel_block. cbn [b_idx b_ins b_next b_prev ren rb_ins].
  unfold PR. fold (tau n). rewrite (prev_sel n Hn). reflexivity.
Qed.

End Core.

(* ------------------------------------------------------------------ main theorem *)
Theorem build_blocks_sel p rbs bs M pc :
  create_bb p = Some rbs -> build_blocks p = Some bs ->
  closed bs M -> nonempty_sel bs M ->
  copy_of p (sel_pos bs M) pc -> next_sel p pc (sel_pos bs M) ->
  create_bb pc = Some (sel_raw rbs M) ->
  build_blocks pc = Some (sel_blocks bs M).
Proof.
  intros Hc Hb Hcl Hne Hcp Hns Hcc.
  destruct (build_blocks_spec p bs Hb) as (rbs0 & nexts & Hc0 & Hrn & HLn & HLb & Hbs).
  rewrite Hc in Hc0. inversion Hc0; subst rbs0; clear Hc0.
  assert (Hp : p <> []) by (intros E; subst p; rewrite build_blocks_nil in Hb; discriminate).
  assert (Hnd : NoDup (concat (map rb_ins rbs))).
  { rewrite (blocks_partition p rbs Hc Hp). apply seq_NoDup. }
  assert (Hbs' : forall n b, nth_error bs n = Some b ->
            exists rb nx, nth_error rbs n = Some rb /\ nth_error nexts n = Some nx /\
                          raw_next p rbs n rb = Some nx /\ b = mkBlock n (rb_ins rb) nx (prev_of rbs nexts n)).
  { intros n b Hn. destruct (Hbs n b Hn) as (rb & nx & H1 & H2 & H3 & H4). exists rb, nx. auto. }
  assert (Hrange : forall b m, In b bs -> In m (b_next b) -> m < length bs).
  { intros b m. apply (next_in_range p bs b m Hb). }
  unfold build_blocks. rewrite Hcc.
  rewrite (raw_nexts_sel p pc rbs nexts bs M Hnd HLn HLb Hbs' Hcl Hrange Hns).
  f_equal.
  apply (blocks_sel p rbs nexts bs M Hnd HLn HLb Hbs' Hcl Hrange).
Qed.

Print Assumptions build_blocks_sel.
