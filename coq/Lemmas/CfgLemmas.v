(* Structural lemmas on the basic-block construction of Model/Cfg.v *)
From Coq Require Import String List NArith ZArith Bool Ascii Arith Lia.
From Tealer Require Import Tables Syntax Parse Cfg.
Import ListNotations.
Close Scope string_scope.
Open Scope nat_scope.
Open Scope list_scope.

(* ------------------------------------------------------------------ list helpers *)
Lemma tl_rev {A} (l : list A) : tl (rev l) = rev (removelast l).
Proof.
  destruct l using rev_ind; [reflexivity|].
  rewrite rev_app_distr, removelast_last. reflexivity.
Qed.

Lemma removelast_rev {A} (l : list A) : removelast (rev l) = rev (tl l).
Proof. destruct l; simpl; [reflexivity | apply removelast_last]. Qed.

Lemma last_rev_cons {A} (h : A) t d : last (rev (h :: t)) d = h.
Proof. simpl. apply last_last. Qed.

Lemma in_not_last (l : list nat) k d : In k l -> k <> last l d -> In k (removelast l).
Proof.
  induction l as [|a l IH]; intros Hin Hne; [destruct Hin|].
  destruct l as [|b l'].
  - simpl in *. destruct Hin as [->|[]]. congruence.
  - change (last (a :: b :: l') d) with (last (b :: l') d) in Hne.
    change (removelast (a :: b :: l')) with (a :: removelast (b :: l')).
    destruct Hin as [->|Hin]; [left; reflexivity | right; apply IH; assumption].
Qed.

Lemma in_not_hd (l : list nat) k d : In k l -> k <> hd d l -> In k (tl l).
Proof. destruct l; simpl; intuition congruence. Qed.

Lemma seq_adjacent : forall X a n e h Y, seq a n = X ++ e :: h :: Y -> h = S e.
Proof.
  induction X as [|x X IH]; intros a n e h Y H.
  - destruct n as [|[|n]]; simpl in H; try discriminate. inversion H; subst. reflexivity.
  - destruct n; simpl in H; [discriminate|]. inversion H; subst. eapply IH; eauto.
Qed.

Lemma nth_error_combine {A B} (l1 : list A) (l2 : list B) n :
  nth_error (combine l1 l2) n =
  match nth_error l1 n, nth_error l2 n with Some a, Some b => Some (a, b) | _, _ => None end.
Proof.
  revert l2 n; induction l1 as [|a l1 IH]; intros l2 n.
  - destruct n; reflexivity.
  - destruct l2 as [|b l2]; destruct n; simpl; try reflexivity.
    + destruct (nth_error l1 n); reflexivity.
    + apply IH.
Qed.

Lemma nth_error_seq' a L n : nth_error (seq a L) n = if n <? L then Some (a + n) else None.
Proof.
  revert a n; induction L as [|L IH]; intros a n.
  - destruct n; reflexivity.
  - destruct n; simpl.
    + f_equal; lia.
    + rewrite IH. change (S n <? S L) with (n <? L). destruct (n <? L); [f_equal; lia | reflexivity].
Qed.

Lemma nat_mem_In x l : nat_mem x l = true <-> In x l.
Proof.
  unfold nat_mem. rewrite existsb_exists. split.
  - intros (y & Hy & He). apply Nat.eqb_eq in He. subst; assumption.
  - intros H. exists x. split; [assumption | apply Nat.eqb_refl].
Qed.

Lemma map_opt_spec {A B} (f : A -> option B) l r :
  map_opt f l = Some r ->
  length r = length l /\ forall n a, nth_error l n = Some a -> exists b, nth_error r n = Some b /\ f a = Some b.
Proof.
  revert r; induction l as [|x l IH]; intros r H; simpl in H.
  - inversion H; subst. split; [reflexivity|]. intros [|n] a Hn; discriminate.
  - destruct (f x) eqn:Hf; [|discriminate]. destruct (map_opt f l) eqn:Hm; [|discriminate].
    inversion H; subst. destruct (IH _ eq_refl) as [Hl Hn]. split; [simpl; congruence|].
    intros [|n] a Ha; simpl in *.
    + inversion Ha; subst. eauto.
    + apply Hn; assumption.
Qed.

Lemma map_opt_In {A B} (f : A -> option B) l r :
  map_opt f l = Some r -> forall b, In b r <-> exists a, In a l /\ f a = Some b.
Proof.
  revert r; induction l as [|x l IH]; intros r H b; simpl in H.
  - inversion H; subst. simpl. split; [tauto | intros (a & [] & _)].
  - destruct (f x) eqn:Hf; [|discriminate]. destruct (map_opt f l) eqn:Hm; [|discriminate].
    inversion H; subst. simpl. rewrite (IH _ eq_refl). split.
    + intros [->|(a & Ha & Hfa)]; eauto.
    + intros (a & [->|Ha] & Hfa); [left; congruence | right; eauto].
Qed.

(* ------------------------------------------------------------------ scan invariant *)
(* property of a non-final instruction of a block *)
Definition Pnl (p : prog) (k : nat) : Prop :=
  exists i nx, op_at p k = Some i /\ ins_next p k = Some nx /\ length nx = 1 /\
               (match i with ICallsub _ => False | IB _ => False | _ => True end).
(* property of a non-first instruction of a block *)
Definition Pnf (p : prog) (k : nat) : Prop :=
  exists i, op_at p k = Some i /\ (match i with ILabel _ => False | _ => True end).

Definition blk_ok (p : prog) (b : rawblock) : Prop :=
  rb_ins b <> [] /\ Forall (Pnl p) (removelast (rb_ins b)) /\ Forall (Pnf p) (tl (rb_ins b)).
Definition dflt_ok (p : prog) (b : rawblock) : Prop :=
  exists i, op_at p (last (rb_ins b) 0) = Some i /\ rb_dflt b = negb (no_fallthrough i).

Lemma Pnl_fallthrough p k : Pnl p k -> exists i, op_at p k = Some i /\ no_fallthrough i = false.
Proof.
  intros (i & nx & Hop & Hn & Hl & Hm). exists i. split; [assumption|].
  unfold ins_next in Hn. rewrite Hop in Hn.
  destruct i; try reflexivity; try contradiction;
    simpl in Hn; inversion Hn; subst; discriminate.
Qed.

Record inv (p : prog) (k : nat) (done : list rawblock) (cur : list nat) : Prop := {
  inv_part : concat (map rb_ins (rev done)) ++ rev cur = seq 0 k;
  inv_done : Forall (fun b => blk_ok p b /\ dflt_ok p b) done;
  inv_nl : Forall (fun j => j <> pred (length p) -> Pnl p j) cur;
  inv_nf : Forall (Pnf p) (removelast cur);
  inv_last : k = length p -> k <> 0 -> cur <> []
}.

Lemma part_cons X h t k : X ++ rev (h :: t) = seq 0 k -> k = S h /\ X ++ rev t = seq 0 h.
Proof.
  intros H. destruct k as [|k].
  - simpl in H. destruct X; simpl in H; try discriminate. destruct (rev t); discriminate.
  - rewrite seq_S in H. simpl in H. rewrite app_assoc in H. apply app_inj_tail in H.
    destruct H as [H1 H2]. subst. split; auto.
Qed.

Lemma close_gen p k done cur f :
  concat (map rb_ins (rev done)) ++ rev cur = seq 0 k ->
  cur <> [] -> k <= length p ->
  Forall (fun j => j <> pred (length p) -> Pnl p j) (tl cur) ->
  Forall (Pnf p) (removelast cur) ->
  blk_ok p (mkRaw (rev cur) f) /\
  concat (map rb_ins (rev (mkRaw (rev cur) f :: done))) ++ rev [] = seq 0 k.
Proof.
  intros Hp Hne Hk Hnl Hnf. split.
  - unfold blk_ok; simpl. split; [|split].
    + intros E. apply Hne. apply (f_equal (@rev nat)) in E. rewrite rev_involutive in E. exact E.
    + rewrite removelast_rev. apply Forall_rev.
      destruct cur as [|h t]; [congruence|]. simpl in *.
      apply part_cons in Hp. destruct Hp as [Hk' Hp].
      rewrite Forall_forall in *. intros j Hj. apply Hnl; [assumption|].
      assert (In j (seq 0 h)) by (rewrite <- Hp; apply in_or_app; right; rewrite <- in_rev; assumption).
      apply in_seq in H. lia.
    + rewrite tl_rev. apply Forall_rev. assumption.
  - simpl. rewrite map_app, concat_app. simpl. rewrite !app_nil_r. assumption.
Qed.

Lemma inv_close p k done cur f :
  concat (map rb_ins (rev done)) ++ rev cur = seq 0 k ->
  Forall (fun b => blk_ok p b /\ dflt_ok p b) done ->
  cur <> [] -> k < length p ->
  Forall (fun j => j <> pred (length p) -> Pnl p j) (tl cur) ->
  Forall (Pnf p) (removelast cur) ->
  dflt_ok p (mkRaw (rev cur) f) ->
  inv p k (mkRaw (rev cur) f :: done) [].
Proof.
  intros Hp Hd Hne Hk Hnl Hnf Hdf.
  destruct (close_gen p k done cur f Hp Hne (Nat.lt_le_incl _ _ Hk) Hnl Hnf) as [Hb Hp'].
  constructor.
  - exact Hp'.
  - constructor; [split; assumption | assumption].
  - constructor.
  - constructor.
  - intros; lia.
Qed.

Lemma nf_push p k cur :
  Forall (Pnf p) (removelast cur) -> (cur = [] \/ Pnf p k) -> Forall (Pnf p) (removelast (k :: cur)).
Proof.
  intros Hnf Hc. destruct cur as [|h t]; [constructor|].
  change (removelast (k :: h :: t)) with (k :: removelast (h :: t)).
  constructor; [destruct Hc; [discriminate|assumption] | assumption].
Qed.

Lemma inv_push p k done cur :
  inv p k done cur -> k < length p ->
  (cur = [] \/ Pnf p k) -> (k <> pred (length p) -> Pnl p k) ->
  inv p (S k) done (k :: cur).
Proof.
  intros [Hp Hd Hnl Hnf Hl] Hk Hc Hn. constructor.
  - change (rev (k :: cur)) with (rev cur ++ [k]). rewrite app_assoc, Hp, seq_S. reflexivity.
  - assumption.
  - constructor; assumption.
  - apply nf_push; assumption.
  - intros; discriminate.
Qed.

Definition phase1 (done : list rawblock) (cur : list nat) (i : instr) : list rawblock * list nat :=
  match i, cur with
  | ILabel _, _ :: _ => (mkRaw (rev cur) true :: done, [])
  | _, _ => (done, cur)
  end.

Lemma scan_step_eq p lastk done cur k i nnext :
  scan_step p lastk (done, cur) k i nnext =
  let '(done1, cur1) := phase1 done cur i in
  let cur2 := k :: cur1 in
  if (Nat.ltb 1 nnext || (match i with ICallsub _ => true | _ => false end))%bool then
    if Nat.eqb k lastk then (done1, cur2) else (mkRaw (rev cur2) true :: done1, [])
  else if (Nat.eqb nnext 0 || is_b i)%bool then
    if Nat.eqb k lastk then (done1, cur2) else (mkRaw (rev cur2) false :: done1, [])
  else (done1, cur2).
Proof. reflexivity. Qed.

Lemma in_cur_lt X cur k j : X ++ rev cur = seq 0 k -> In j cur -> j < k.
Proof.
  intros H Hj.
  assert (H0 : In j (seq 0 k)) by (rewrite <- H; apply in_or_app; right; rewrite <- in_rev; assumption).
  apply in_seq in H0; lia.
Qed.

Lemma phase1_inv p k done cur i :
  inv p k done cur -> k < length p -> op_at p k = Some i ->
  exists done1 cur1, phase1 done cur i = (done1, cur1) /\ inv p k done1 cur1 /\ (cur1 = [] \/ Pnf p k).
Proof.
  intros Hinv Hk Hop.
  assert (Hgen : (match i with ILabel _ => False | _ => True end) ->
                 phase1 done cur i = (done, cur) ->
                 exists done1 cur1, phase1 done cur i = (done1, cur1) /\ inv p k done1 cur1 /\ (cur1 = [] \/ Pnf p k)).
  { intros Hm E. exists done, cur. split; [assumption|]. split; [assumption|]. right. exists i. split; assumption. }
  destruct i; try (apply Hgen; [exact I | reflexivity]).
  clear Hgen. destruct cur as [|h t].
  - exists done, []. split; [reflexivity|]. split; [assumption | left; reflexivity].
  - exists (mkRaw (rev (h :: t)) true :: done), []. split; [reflexivity|]. split; [|left; reflexivity].
    destruct Hinv as [Hp Hd Hnl Hnf Hl].
    apply inv_close; try assumption; try discriminate.
    + inversion Hnl; assumption.
    + unfold dflt_ok. cbn [rb_ins rb_dflt]. rewrite last_rev_cons.
      inversion Hnl; subst.
      assert (Hh : h < k) by (eapply in_cur_lt; [exact Hp | left; reflexivity]).
      destruct (Pnl_fallthrough p h) as (i0 & Hi0 & Hf0); [apply H1; lia|].
      exists i0. split; [assumption|]. rewrite Hf0. reflexivity.
Qed.

Lemma nofall_len p k i nx :
  op_at p k = Some i -> ins_next p k = Some nx ->
  (no_fallthrough i = true -> length nx <= 1) /\
  (no_fallthrough i = false -> S k < length p -> 1 <= length nx).
Proof.
  intros Hop Hn. unfold ins_next in Hn. rewrite Hop in Hn.
  destruct (map_opt (find_label p) (jump_labels i)) as [js|] eqn:Ej; [|discriminate].
  inversion Hn; subst nx; clear Hn. apply map_opt_spec in Ej. destruct Ej as [Hl _].
  rewrite app_length, Hl. split.
  - intros Hf. rewrite Hf. destruct i; try discriminate Hf; simpl; lia.
  - intros Hf Hk. rewrite Hf. apply Nat.ltb_lt in Hk. rewrite Hk. simpl. lia.
Qed.

Lemma scan_step_inv p k done cur i nx done' cur' :
  inv p k done cur -> nth_error p k = Some i -> ins_next p k = Some nx ->
  scan_step p (pred (length p)) (done, cur) k (i_op i) (length nx) = (done', cur') ->
  inv p (S k) done' cur'.
Proof.
  intros Hinv Hnth Hnx H.
  assert (Hk : k < length p) by (apply nth_error_Some; congruence).
  assert (Hop : op_at p k = Some (i_op i)) by (unfold op_at; rewrite Hnth; reflexivity).
  rewrite scan_step_eq in H.
  destruct (phase1_inv p k done cur (i_op i) Hinv Hk Hop) as (done1 & cur1 & E1 & Hinv1 & Hc1).
  rewrite E1 in H. cbv zeta in H.
  destruct (nofall_len p k (i_op i) nx Hop Hnx) as [Hft Hff].
  assert (Hpart : concat (map rb_ins (rev done1)) ++ rev (k :: cur1) = seq 0 (S k)).
  { change (rev (k :: cur1)) with (rev cur1 ++ [k]). rewrite app_assoc, (inv_part _ _ _ _ Hinv1), seq_S. reflexivity. }
  assert (Hclose : forall f, k <> pred (length p) -> f = negb (no_fallthrough (i_op i)) ->
                             inv p (S k) (mkRaw (rev (k :: cur1)) f :: done1) []).
  { intros f Hne Hf. apply inv_close; try assumption; try discriminate.
    - exact (inv_done _ _ _ _ Hinv1).
    - lia.
    - exact (inv_nl _ _ _ _ Hinv1).
    - apply nf_push; [exact (inv_nf _ _ _ _ Hinv1) | assumption].
    - unfold dflt_ok. cbn [rb_ins rb_dflt]. rewrite last_rev_cons. exists (i_op i). split; assumption. }
  destruct ((1 <? length nx) || match i_op i with ICallsub _ => true | _ => false end)%bool eqn:C1.
  - destruct (k =? pred (length p)) eqn:Ek.
    + inversion H; subst. apply inv_push; try assumption.
      apply Nat.eqb_eq in Ek. intros; congruence.
    + inversion H; subst. apply Nat.eqb_neq in Ek. apply Hclose; [assumption|].
      destruct (no_fallthrough (i_op i)) eqn:Ef; [|reflexivity]. exfalso.
      specialize (Hft eq_refl). apply orb_true_iff in C1. destruct C1 as [C1|C1].
      * apply Nat.ltb_lt in C1. lia.
      * destruct (i_op i); discriminate.
  - apply orb_false_iff in C1. destruct C1 as [C1a C1b]. apply Nat.ltb_ge in C1a.
    destruct ((length nx =? 0) || is_b (i_op i))%bool eqn:C2.
    + destruct (k =? pred (length p)) eqn:Ek.
      * inversion H; subst. apply inv_push; try assumption.
        apply Nat.eqb_eq in Ek. intros; congruence.
      * inversion H; subst. apply Nat.eqb_neq in Ek. apply Hclose; [assumption|].
        destruct (no_fallthrough (i_op i)) eqn:Ef; [reflexivity|]. exfalso.
        assert (S k < length p) by lia. specialize (Hff eq_refl H0).
        apply orb_true_iff in C2. destruct C2 as [C2|C2].
        -- apply Nat.eqb_eq in C2. lia.
        -- destruct (i_op i); discriminate.
    + apply orb_false_iff in C2. destruct C2 as [C2a C2b]. apply Nat.eqb_neq in C2a.
      inversion H; subst. apply inv_push; try assumption.
      intros _. exists (i_op i), nx. split; [assumption|]. split; [assumption|]. split; [lia|].
      destruct (i_op i); try exact I; discriminate.
Qed.

Lemma scan_inv p : forall rest pre done cur done' cur',
  p = pre ++ rest -> inv p (length pre) done cur ->
  scan p (pred (length p)) rest (length pre) (done, cur) = Some (done', cur') ->
  inv p (length p) done' cur'.
Proof.
  induction rest as [|a rest IH]; intros pre done cur done' cur' Hp Hinv Hs.
  - simpl in Hs. inversion Hs; subst done' cur'.
    assert (E : length p = length pre) by (rewrite Hp, app_nil_r; reflexivity).
    rewrite E. assumption.
  - cbn [scan] in Hs. destruct (ins_next p (length pre)) as [nx|] eqn:Hn; [|discriminate].
    destruct (scan_step p (pred (length p)) (done, cur) (length pre) (i_op a) (length nx)) as [d1 c1] eqn:Hss.
    assert (El : length (pre ++ [a]) = S (length pre)) by (rewrite app_length; simpl; lia).
    apply (IH (pre ++ [a]) d1 c1).
    + rewrite <- app_assoc. assumption.
    + rewrite El. eapply scan_step_inv; eauto.
      rewrite Hp at 1. rewrite nth_error_app2, Nat.sub_diag by lia. reflexivity.
    + rewrite El. assumption.
Qed.

Lemma create_bb_spec p bs : create_bb p = Some bs -> p <> [] ->
  concat (map rb_ins bs) = seq 0 (length p) /\ Forall (blk_ok p) bs /\
  exists done lastb, bs = done ++ [lastb] /\ rb_dflt lastb = false /\ Forall (dflt_ok p) done.
Proof.
  unfold create_bb. intros H Hne.
  destruct (scan p (pred (length p)) p 0 ([], [])) as [[done cur]|] eqn:Hs; [|discriminate].
  inversion H; subst bs; clear H.
  apply (scan_inv p p [] [] [] done cur eq_refl) in Hs.
  2:{ constructor; simpl; try constructor. intros; congruence. }
  destruct Hs as [Hp Hd Hnl Hnf Hl].
  assert (Hc : cur <> []).
  { apply Hl; [reflexivity|]. destruct p; [congruence | discriminate]. }
  destruct (close_gen p (length p) done cur false Hp Hc (le_n _)) as [Hb Hp'].
  { destruct cur; [congruence|]. inversion Hnl; assumption. }
  { assumption. }
  simpl rev in Hp'. rewrite app_nil_r in Hp'. simpl rev. split; [assumption|]. split.
  - apply Forall_app. split.
    + apply Forall_rev. eapply Forall_impl; [|exact Hd]. intros a [Ha _]; exact Ha.
    + constructor; [assumption | constructor].
  - exists (rev done), (mkRaw (rev cur) false). split; [reflexivity|]. split; [reflexivity|].
    apply Forall_rev. eapply Forall_impl; [|exact Hd]. intros a [_ Ha]; exact Ha.
Qed.

(* ------------------------------------------------------------------ theorems 1-3 *)
Theorem blocks_partition p bs :
  create_bb p = Some bs -> p <> [] -> concat (map rb_ins bs) = seq 0 (length p).
Proof. intros H Hne. apply (create_bb_spec p bs H Hne). Qed.

Theorem blocks_nonempty p bs :
  create_bb p = Some bs -> p <> [] -> forall b, In b bs -> rb_ins b <> [].
Proof.
  intros H Hne b Hb. destruct (create_bb_spec p bs H Hne) as (_ & Hok & _).
  rewrite Forall_forall in Hok. apply (Hok b Hb).
Qed.

Theorem block_interior p bs :
  create_bb p = Some bs -> forall b k, In b bs -> In k (rb_ins b) ->
    (k <> last (rb_ins b) 0 ->
       exists i nx, op_at p k = Some i /\ ins_next p k = Some nx /\ length nx = 1 /\
                    (match i with ICallsub _ => False | IB _ => False | _ => True end))
    /\ (k <> hd 0 (rb_ins b) ->
       exists i, op_at p k = Some i /\ (match i with ILabel _ => False | _ => True end)).
Proof.
  intros H b k Hb Hk.
  destruct p as [|i0 p'].
  { vm_compute in H. inversion H; subst. destruct Hb as [<-|[]]. destruct Hk. }
  destruct (create_bb_spec _ bs H) as (_ & Hok & _); [discriminate|].
  rewrite Forall_forall in Hok. destruct (Hok b Hb) as (_ & Hnl & Hnf).
  rewrite Forall_forall in Hnl, Hnf. split.
  - intros Hne. apply Hnl. apply in_not_last with (d := 0); assumption.
  - intros Hne. apply Hnf. apply in_not_hd with (d := 0); assumption.
Qed.

Print Assumptions blocks_partition.
Print Assumptions blocks_nonempty.
Print Assumptions block_interior.

(* ------------------------------------------------------------------ theorem 4 *)
Lemma adjacent bs N n b b' :
  concat (map rb_ins bs) = seq 0 N ->
  nth_error bs n = Some b -> nth_error bs (S n) = Some b' ->
  rb_ins b <> [] -> rb_ins b' <> [] ->
  hd_error (rb_ins b') = Some (S (last (rb_ins b) 0)) /\ S (last (rb_ins b) 0) < N.
Proof.
  intros Hc Hb Hb' Hne Hne'.
  destruct (nth_error_split bs n Hb) as (l1 & l2 & E & Hl). subst bs.
  rewrite nth_error_app2 in Hb' by lia. replace (S n - length l1) with 1 in Hb' by lia.
  simpl in Hb'. destruct l2 as [|b2 l2]; [discriminate|]. inversion Hb'; subst b2.
  rewrite map_app, concat_app in Hc. simpl in Hc.
  destruct (rb_ins b') as [|h t] eqn:E'; [congruence|].
  pose proof (app_removelast_last 0 Hne) as Eb.
  set (e := last (rb_ins b) 0) in *. rewrite Eb in Hc.
  assert (Hs : seq 0 N = (concat (map rb_ins l1) ++ removelast (rb_ins b)) ++ e :: h :: (t ++ concat (map rb_ins l2))).
  { rewrite <- Hc. rewrite <- !app_assoc. reflexivity. }
  pose proof (seq_adjacent _ _ _ _ _ _ Hs) as Hh. subst h. split; [reflexivity|].
  assert (Hin : In (S e) (seq 0 N)).
  { rewrite Hs. apply in_or_app. right. right. left. reflexivity. }
  apply in_seq in Hin. lia.
Qed.

Lemma create_bb_nil : create_bb [] = Some [mkRaw [] false].
Proof. reflexivity. Qed.

(* facts about the block at index n when a block n+1 exists *)
Lemma consecutive_spec p bs n b b' :
  create_bb p = Some bs -> nth_error bs n = Some b -> nth_error bs (S n) = Some b' ->
  hd_error (rb_ins b') = Some (S (last (rb_ins b) 0)) /\ S (last (rb_ins b) 0) < length p /\
  dflt_ok p b.
Proof.
  intros H Hb Hb'.
  destruct p as [|i0 p'].
  { rewrite create_bb_nil in H. inversion H; subst. destruct n; discriminate. }
  destruct (create_bb_spec _ bs H) as (Hc & Hok & done & lastb & E & Hlf & Hd); [discriminate|].
  rewrite Forall_forall in Hok.
  destruct (adjacent bs _ n b b' Hc Hb Hb') as [Hh Hlt].
  { apply (Hok b). eapply nth_error_In; eauto. }
  { apply (Hok b'). eapply nth_error_In; eauto. }
  split; [assumption|]. split; [assumption|].
  assert (Hn : S n < length bs) by (apply nth_error_Some; congruence).
  subst bs. rewrite app_length in Hn. simpl in Hn.
  rewrite nth_error_app1 in Hb by lia.
  rewrite Forall_forall in Hd. apply Hd. eapply nth_error_In; eauto.
Qed.

Theorem default_edge_meaning p bs n b b' :
  create_bb p = Some bs -> nth_error bs n = Some b -> nth_error bs (S n) = Some b' ->
  (rb_dflt b = true <->
   (hd_error (rb_ins b') = Some (S (last (rb_ins b) 0)) /\
    exists i, op_at p (last (rb_ins b) 0) = Some i /\ no_fallthrough i = false)).
Proof.
  intros H Hb Hb'.
  destruct (consecutive_spec p bs n b b' H Hb Hb') as (Hh & _ & i & Hop & Hd).
  split.
  - intros Ht. split; [assumption|]. exists i. split; [assumption|].
    rewrite Ht in Hd. destruct (no_fallthrough i); [discriminate | reflexivity].
  - intros (_ & i' & Hop' & Hf). rewrite Hop in Hop'. inversion Hop'; subst i'.
    rewrite Hd, Hf. reflexivity.
Qed.

(* the last block never has a default edge *)
Lemma last_block_no_dflt p bs n b :
  create_bb p = Some bs -> nth_error bs n = Some b -> S n = length bs -> rb_dflt b = false.
Proof.
  intros H Hb Hn.
  destruct p as [|i0 p'].
  { rewrite create_bb_nil in H. inversion H; subst. destruct n; [|discriminate]. inversion Hb; reflexivity. }
  destruct (create_bb_spec _ bs H) as (_ & _ & done & lastb & E & Hlf & _); [discriminate|].
  subst bs. rewrite app_length in Hn. simpl in Hn.
  rewrite nth_error_app2 in Hb by lia. replace (n - length done) with 0 in Hb by lia.
  inversion Hb; subst. assumption.
Qed.

Print Assumptions default_edge_meaning.

(* ------------------------------------------------------------------ block graph helpers *)
Lemma add_new_In : forall xs l m, In m (add_new l xs) <-> In m l \/ In m xs.
Proof.
  induction xs as [|x xs IH]; intros l m; simpl.
  - tauto.
  - destruct (nat_mem x l) eqn:E.
    + rewrite IH. apply nat_mem_In in E. split; [tauto|].
      intros [H|[<-|H]]; tauto.
    + rewrite IH, in_app_iff. simpl. tauto.
Qed.

Lemma add_new_NoDup : forall xs l, NoDup l -> NoDup (add_new l xs).
Proof.
  induction xs as [|x xs IH]; intros l H; simpl; [assumption|].
  destruct (nat_mem x l) eqn:E; [apply IH; assumption|].
  apply IH. apply NoDup_rev in H. rewrite <- (rev_involutive (l ++ [x])).
  apply NoDup_rev. rewrite rev_app_distr. simpl. constructor; [|assumption].
  rewrite <- in_rev. intros Hin. apply nat_mem_In in Hin. congruence.
Qed.

Lemma add_new_app : forall xs l, exists ys, add_new l xs = l ++ ys.
Proof.
  induction xs as [|x xs IH]; intros l; simpl.
  - exists []. rewrite app_nil_r. reflexivity.
  - destruct (nat_mem x l).
    + apply IH.
    + destruct (IH (l ++ [x])) as (ys & E). exists (x :: ys). rewrite E, <- app_assoc. reflexivity.
Qed.

Lemma existsb_eqb_In k l : existsb (Nat.eqb k) l = true <-> In k l.
Proof. apply (nat_mem_In k l). Qed.

Lemma block_of_pos_spec : forall bs k n0 m,
  block_of_pos bs k n0 = Some m ->
  n0 <= m /\ exists rb, nth_error bs (m - n0) = Some rb /\ In k (rb_ins rb).
Proof.
  induction bs as [|a bs IH]; intros k n0 m H; simpl in H; [discriminate|].
  destruct (existsb (Nat.eqb k) (rb_ins a)) eqn:E.
  - inversion H; subst. split; [lia|]. rewrite Nat.sub_diag. exists a. split; [reflexivity|].
    apply existsb_eqb_In; assumption.
  - apply IH in H. destruct H as (Hle & rb & Hn & Hin). split; [lia|].
    exists rb. split; [|assumption]. replace (m - n0) with (S (m - S n0)) by lia. exact Hn.
Qed.

Lemma NoDup_app_disj {A} (l1 l2 : list A) x : NoDup (l1 ++ l2) -> In x l1 -> In x l2 -> False.
Proof.
  induction l1 as [|a l1 IH]; intros H H1 H2; [destruct H1|].
  simpl in H. apply NoDup_cons_iff in H. destruct H as [Hni Hnd]. destruct H1 as [->|H1].
  - apply Hni. apply in_or_app. right; assumption.
  - apply IH; assumption.
Qed.

Lemma NoDup_app_r {A} (l1 l2 : list A) : NoDup (l1 ++ l2) -> NoDup l2.
Proof.
  induction l1 as [|a l1 IH]; intros H; [assumption|].
  simpl in H. apply NoDup_cons_iff in H. apply IH, H.
Qed.

Lemma block_of_pos_unique : forall bs k n0 j rb,
  NoDup (concat (map rb_ins bs)) -> nth_error bs j = Some rb -> In k (rb_ins rb) ->
  block_of_pos bs k n0 = Some (n0 + j).
Proof.
  induction bs as [|a bs IH]; intros k n0 j rb Hnd Hn Hin; [destruct j; discriminate|].
  simpl. destruct j as [|j]; simpl in Hn.
  - inversion Hn; subst. apply existsb_eqb_In in Hin. rewrite Hin. f_equal; lia.
  - destruct (existsb (Nat.eqb k) (rb_ins a)) eqn:E.
    + exfalso. apply existsb_eqb_In in E. simpl in Hnd.
      apply (NoDup_app_disj _ _ k Hnd E). apply in_concat. exists (rb_ins rb). split; [|assumption].
      apply in_map. eapply nth_error_In; eauto.
    + simpl in Hnd. apply NoDup_app_r in Hnd.
      rewrite (IH k (S n0) j rb Hnd Hn Hin). f_equal; lia.
Qed.

Lemma raw_nexts_spec p all : forall bs n nexts,
  raw_nexts p all bs n = Some nexts ->
  length nexts = length bs /\
  forall j b, nth_error bs j = Some b -> exists nx, nth_error nexts j = Some nx /\ raw_next p all (n + j) b = Some nx.
Proof.
  induction bs as [|a bs IH]; intros n nexts H; simpl in H.
  - inversion H; subst. split; [reflexivity|]. intros [|j] b Hb; discriminate.
  - destruct (raw_next p all n a) as [x|] eqn:Ex; [|discriminate].
    destruct (raw_nexts p all bs (S n)) as [r|] eqn:Er; [|discriminate].
    inversion H; subst. destruct (IH _ _ Er) as [Hl Hn]. split; [simpl; congruence|].
    intros [|j] b Hb; simpl in Hb.
    + inversion Hb; subst. exists x. rewrite Nat.add_0_r. split; [reflexivity | assumption].
    + destruct (Hn j b Hb) as (nx & H1 & H2). exists nx. split; [exact H1|].
      replace (n + S j) with (S n + j) by lia. exact H2.
Qed.

Lemma raw_next_spec p bs n rb nx :
  raw_next p bs n rb = Some nx ->
  rb_ins rb <> [] /\
  exists inx tb, ins_next p (last (rb_ins rb) 0) = Some inx /\
                 map_opt (fun k => block_of_pos bs k 0) inx = Some tb /\
                 nx = add_new (if rb_dflt rb then [S n] else []) tb.
Proof.
  unfold raw_next. intros H.
  assert (Hne : rb_ins rb <> []) by (intro E; rewrite E in H; discriminate).
  split; [assumption|].
  destruct (rb_ins rb) as [|h t] eqn:E; [congruence|].
  destruct (ins_next p (last (h :: t) 0)) as [inx|]; [|discriminate].
  destruct (map_opt (fun k => block_of_pos bs k 0) inx) as [tb|] eqn:Em; [|discriminate].
  inversion H; subst. exists inx, tb. auto.
Qed.

Lemma build_blocks_spec p blocks :
  build_blocks p = Some blocks ->
  exists bs nexts,
    create_bb p = Some bs /\ raw_nexts p bs bs 0 = Some nexts /\
    length nexts = length bs /\ length blocks = length bs /\
    forall n b, nth_error blocks n = Some b ->
      exists rb nx, nth_error bs n = Some rb /\ nth_error nexts n = Some nx /\
                    raw_next p bs n rb = Some nx /\
                    b = mkBlock n (rb_ins rb) nx (prev_of bs nexts n).
Proof.
  unfold build_blocks. intros H.
  destruct (create_bb p) as [bs|] eqn:Ec; [|discriminate].
  destruct (raw_nexts p bs bs 0) as [nexts|] eqn:Er; [|discriminate].
  inversion H; subst blocks; clear H.
  destruct (raw_nexts_spec _ _ _ _ _ Er) as [Hl Hn].
  exists bs, nexts. split; [reflexivity|]. split; [exact Er|]. split; [assumption|]. split.
  - rewrite map_length, !combine_length, seq_length, Hl. lia.
  - intros n b Hb. rewrite nth_error_map, !nth_error_combine, nth_error_seq' in Hb.
    destruct (n <? length bs); [|discriminate].
    destruct (nth_error bs n) as [rb|] eqn:Erb; [|discriminate].
    destruct (nth_error nexts n) as [nx|] eqn:Enx; [|discriminate].
    simpl in Hb. inversion Hb; subst b.
    exists rb, nx. split; [reflexivity|]. split; [reflexivity|]. split; [|reflexivity].
    destruct (Hn n rb Erb) as (nx' & H1 & H2). simpl in H2. congruence.
Qed.

Lemma build_blocks_nil : build_blocks [] = None.
Proof. reflexivity. Qed.

Lemma prev_of_In bs nexts n m :
  In m (prev_of bs nexts n) <->
  (n = S m /\ exists rb, nth_error bs m = Some rb /\ rb_dflt rb = true) \/
  (exists nx, nth_error nexts m = Some nx /\
              In n (match nth_error bs m with
                    | Some b => if rb_dflt b then tl nx else nx
                    | None => nx end)).
Proof.
  unfold prev_of. rewrite in_app_iff.
  match goal with |- ?A \/ ?C <-> ?B \/ ?D => cut ((A <-> B) /\ (C <-> D)); [tauto|split] end.
  - destruct n as [|n0].
    + simpl. split; [tauto | intros (E & _); discriminate].
    + split.
      * destruct (nth_error bs n0) as [rb|] eqn:E; [|intros []].
        destruct (rb_dflt rb) eqn:Ed; [|intros []].
        intros [<-|[]]. split; [reflexivity|]. exists rb. auto.
      * intros (E & rb & Hrb & Hd). inversion E; subst n0. rewrite Hrb, Hd. left; reflexivity.
  - rewrite in_flat_map. split.
    + intros ((m0 & nx) & Hin & Hm).
      apply In_nth_error in Hin. destruct Hin as (j & Hj).
      rewrite nth_error_combine, nth_error_seq' in Hj.
      destruct (j <? length nexts); [|discriminate].
      destruct (nth_error nexts j) as [nx'|] eqn:Enx; [|discriminate].
      inversion Hj; subst m0 nx'. simpl in Hm.
      match type of Hm with In _ (if ?c then _ else _) => destruct c eqn:Hmem end; [|destruct Hm].
      destruct Hm as [<-|[]]. exists nx. split; [assumption|]. apply nat_mem_In. exact Hmem.
    + intros (nx & Hnx & Hin). exists (m, nx). split.
      * apply nth_error_In with (n := m). rewrite nth_error_combine, nth_error_seq'.
        assert (Hlt : m < length nexts) by (apply nth_error_Some; congruence).
        apply Nat.ltb_lt in Hlt. rewrite Hlt, Hnx. reflexivity.
      * simpl. apply nat_mem_In in Hin. rewrite Hin. left; reflexivity.
Qed.

(* ------------------------------------------------------------------ theorems 5a-5d *)
Theorem idx_is_position p blocks n b :
  build_blocks p = Some blocks -> nth_error blocks n = Some b -> b_idx b = n.
Proof.
  intros H Hb. destruct (build_blocks_spec p blocks H) as (bs & nexts & _ & _ & _ & _ & Hn).
  destruct (Hn n b Hb) as (rb & nx & _ & _ & _ & E). subst b. reflexivity.
Qed.

Theorem next_in_range p blocks b m :
  build_blocks p = Some blocks -> In b blocks -> In m (b_next b) -> m < length blocks.
Proof.
  intros H Hb Hm. destruct (build_blocks_spec p blocks H) as (bs & nexts & Hc & _ & _ & Hl & Hn).
  apply In_nth_error in Hb. destruct Hb as (n & Hb).
  destruct (Hn n b Hb) as (rb & nx & Hrb & _ & Hr & E). subst b. simpl in Hm.
  destruct (raw_next_spec _ _ _ _ _ Hr) as (_ & inx & tb & _ & Hmap & Enx). subst nx.
  rewrite Hl. apply add_new_In in Hm. destruct Hm as [Hm|Hm].
  - destruct (rb_dflt rb) eqn:Ed; [|destruct Hm]. destruct Hm as [<-|[]].
    assert (Hlt : n < length bs) by (apply nth_error_Some; congruence).
    destruct (Nat.eq_dec (S n) (length bs)) as [E|E]; [|lia].
    rewrite (last_block_no_dflt p bs n rb Hc Hrb E) in Ed. discriminate.
  - apply (map_opt_In _ _ _ Hmap) in Hm. destruct Hm as (k & _ & Hk).
    apply block_of_pos_spec in Hk. destruct Hk as (_ & rb' & Hn' & _).
    rewrite Nat.sub_0_r in Hn'. apply nth_error_Some. congruence.
Qed.

Theorem next_nodup p blocks b :
  build_blocks p = Some blocks -> In b blocks -> NoDup (b_next b).
Proof.
  intros H Hb. destruct (build_blocks_spec p blocks H) as (bs & nexts & Hc & _ & _ & Hl & Hn).
  apply In_nth_error in Hb. destruct Hb as (n & Hb).
  destruct (Hn n b Hb) as (rb & nx & Hrb & _ & Hr & E). subst b. simpl.
  destruct (raw_next_spec _ _ _ _ _ Hr) as (_ & inx & tb & _ & _ & Enx). subst nx.
  apply add_new_NoDup. destruct (rb_dflt rb); [|constructor].
  constructor; [intros [] | constructor].
Qed.

Theorem next_prev_mirror p blocks b b' :
  build_blocks p = Some blocks -> In b blocks -> In b' blocks ->
  (In (b_idx b') (b_next b) <-> In (b_idx b) (b_prev b')).
Proof.
  intros H Hb Hb'. destruct (build_blocks_spec p blocks H) as (bs & nexts & Hc & _ & _ & Hl & Hn).
  apply In_nth_error in Hb. destruct Hb as (m & Hb).
  apply In_nth_error in Hb'. destruct Hb' as (n' & Hb').
  destruct (Hn m b Hb) as (rb & nx & Hrb & Hnx & Hr & E). subst b.
  destruct (Hn n' b' Hb') as (rb' & nx' & _ & _ & _ & E). subst b'. simpl.
  rewrite prev_of_In, Hrb.
  destruct (raw_next_spec _ _ _ _ _ Hr) as (_ & inx & tb & _ & _ & Enx).
  destruct (add_new_app tb (if rb_dflt rb then [S m] else [])) as (ys & Eys).
  rewrite Eys in Enx. clear Eys.
  destruct (rb_dflt rb) eqn:Ed; simpl in Enx.
  - split.
    + subst nx. intros [E|Hin].
      * left. split; [congruence|]. exists rb. auto.
      * right. exists (S m :: ys). auto.
    + intros [(E & _)|(nx0 & Hnx0 & Hin)].
      * subst nx. left. congruence.
      * rewrite Hnx in Hnx0. inversion Hnx0; subst nx0. subst nx. right. exact Hin.
  - split.
    + intros Hin. right. exists nx. auto.
    + intros [(_ & rb0 & Hrb0 & Hd0)|(nx0 & Hnx0 & Hin)].
      * inversion Hrb0; subst rb0. congruence.
      * rewrite Hnx in Hnx0. inversion Hnx0; subst nx0. exact Hin.
Qed.

Print Assumptions idx_is_position.
Print Assumptions next_in_range.
Print Assumptions next_nodup.
Print Assumptions next_prev_mirror.

(* ------------------------------------------------------------------ theorems 5e, 5f *)
Lemma ins_next_fall p e i nx :
  op_at p e = Some i -> no_fallthrough i = false -> S e < length p -> ins_next p e = Some nx ->
  exists js, map_opt (find_label p) (jump_labels i) = Some js /\ nx = S e :: js.
Proof.
  intros Hop Hf Hlt Hn. unfold ins_next in Hn. rewrite Hop, Hf in Hn.
  apply Nat.ltb_lt in Hlt. rewrite Hlt in Hn. simpl in Hn.
  destruct (map_opt (find_label p) (jump_labels i)) as [js|]; [|discriminate].
  inversion Hn. exists js. auto.
Qed.

Lemma last_pos_last_block bs N n rb :
  concat (map rb_ins bs) = seq 0 N -> nth_error bs n = Some rb -> S n = length bs ->
  rb_ins rb <> [] -> S (last (rb_ins rb) 0) = N.
Proof.
  intros Hc Hb Hn Hne.
  destruct (nth_error_split bs n Hb) as (l1 & l2 & E & Hl). subst bs.
  rewrite app_length in Hn. simpl in Hn. destruct l2 as [|x l2]; [|simpl in Hn; lia].
  rewrite map_app, concat_app in Hc. simpl in Hc. rewrite app_nil_r in Hc.
  pose proof (app_removelast_last 0 Hne) as Eb.
  set (e := last (rb_ins rb) 0) in *. rewrite Eb, app_assoc in Hc.
  destruct N as [|N].
  - simpl in Hc. destruct (concat (map rb_ins l1) ++ removelast (rb_ins rb)); discriminate.
  - rewrite seq_S in Hc. apply app_inj_tail in Hc. destruct Hc as [_ Hc]. simpl in Hc. congruence.
Qed.

(* a block whose exit instruction is not the last instruction of the program has a following block,
   which starts right after the exit instruction *)
Lemma following_block p bs n rb :
  create_bb p = Some bs -> p <> [] -> nth_error bs n = Some rb ->
  S (last (rb_ins rb) 0) < length p ->
  exists rb', nth_error bs (S n) = Some rb' /\ In (S (last (rb_ins rb) 0)) (rb_ins rb').
Proof.
  intros Hc Hp Hrb Hlt.
  destruct (create_bb_spec p bs Hc Hp) as (Hpart & Hok & _).
  rewrite Forall_forall in Hok.
  assert (Hne : rb_ins rb <> []) by (apply (Hok rb); eapply nth_error_In; eauto).
  assert (Hn : n < length bs) by (apply nth_error_Some; congruence).
  destruct (Nat.eq_dec (S n) (length bs)) as [E|E].
  { pose proof (last_pos_last_block bs _ n rb Hpart Hrb E Hne). lia. }
  destruct (nth_error bs (S n)) as [rb'|] eqn:Erb'.
  2:{ apply nth_error_None in Erb'. lia. }
  exists rb'. split; [reflexivity|].
  destruct (consecutive_spec p bs n rb rb' Hc Hrb Erb') as (Hh & _ & _).
  destruct (rb_ins rb') as [|h t]; [discriminate|]. simpl in Hh. inversion Hh. left; reflexivity.
Qed.

Lemma block_lookup p bs n rb k :
  create_bb p = Some bs -> p <> [] -> nth_error bs n = Some rb -> In k (rb_ins rb) ->
  block_of_pos bs k 0 = Some n.
Proof.
  intros Hc Hp Hrb Hk.
  destruct (create_bb_spec p bs Hc Hp) as (Hpart & _ & _).
  apply (block_of_pos_unique bs k 0 n rb); try assumption.
  rewrite Hpart. apply seq_NoDup.
Qed.

Theorem next_meaning p blocks bs b m :
  build_blocks p = Some blocks -> create_bb p = Some bs -> In b blocks ->
  (In m (b_next b) <->
   exists nx k, ins_next p (last (b_ins b) 0) = Some nx /\ In k nx /\ block_of_pos bs k 0 = Some m).
Proof.
  intros H Hc' Hb.
  destruct p as [|i0 p']; [rewrite build_blocks_nil in H; discriminate|].
  assert (Hp : i0 :: p' <> []) by discriminate. remember (i0 :: p') as p.
  destruct (build_blocks_spec p blocks H) as (bs0 & nexts & Hc & _ & _ & Hl & Hn).
  rewrite Hc' in Hc. inversion Hc; subst bs0; clear Hc.
  apply In_nth_error in Hb. destruct Hb as (n & Hb).
  destruct (Hn n b Hb) as (rb & nx & Hrb & _ & Hr & E). subst b. simpl.
  destruct (raw_next_spec _ _ _ _ _ Hr) as (_ & inx & tb & Hinx & Hmap & Enx). subst nx.
  rewrite add_new_In, (map_opt_In _ _ _ Hmap). split.
  - intros [Hm|(k & Hk & Hbk)].
    + destruct (rb_dflt rb) eqn:Ed; [|destruct Hm]. destruct Hm as [<-|[]].
      assert (Hlt : n < length bs) by (apply nth_error_Some; congruence).
      destruct (Nat.eq_dec (S n) (length bs)) as [E|E].
      { rewrite (last_block_no_dflt p bs n rb Hc' Hrb E) in Ed. discriminate. }
      destruct (nth_error bs (S n)) as [rb'|] eqn:Erb'.
      2:{ apply nth_error_None in Erb'. lia. }
      destruct (consecutive_spec p bs n rb rb' Hc' Hrb Erb') as (Hh & Hlt' & i & Hop & Hd).
      rewrite Ed in Hd. assert (Hf : no_fallthrough i = false) by (destruct (no_fallthrough i); [discriminate|reflexivity]).
      destruct (ins_next_fall p _ i inx Hop Hf Hlt' Hinx) as (js & _ & Ei).
      exists inx, (S (last (rb_ins rb) 0)). split; [assumption|]. split; [subst inx; left; reflexivity|].
      apply (block_lookup p bs (S n) rb'); try assumption.
      destruct (rb_ins rb') as [|h t]; [discriminate|]. simpl in Hh. inversion Hh. left; reflexivity.
    + exists inx, k. auto.
  - intros (nx & k & Hnx & Hk & Hbk). rewrite Hinx in Hnx. inversion Hnx; subst nx.
    right. exists k. auto.
Qed.

Theorem cond_branch_order p blocks bs b l t :
  build_blocks p = Some blocks -> create_bb p = Some bs -> In b blocks ->
  (op_at p (last (b_ins b) 0) = Some (IBZ l) \/ op_at p (last (b_ins b) 0) = Some (IBNZ l)) ->
  S (last (b_ins b) 0) < length p ->
  find_label p l = Some t ->
  exists tb, block_of_pos bs t 0 = Some tb /\
             b_next b = if tb =? S (b_idx b) then [S (b_idx b)] else [S (b_idx b); tb].
Proof.
  intros H Hc' Hb Hop Hlt Hfl.
  destruct p as [|i0 p']; [rewrite build_blocks_nil in H; discriminate|].
  assert (Hp : i0 :: p' <> []) by discriminate. remember (i0 :: p') as p.
  destruct (build_blocks_spec p blocks H) as (bs0 & nexts & Hc & _ & _ & Hl & Hn).
  rewrite Hc' in Hc. inversion Hc; subst bs0; clear Hc.
  apply In_nth_error in Hb. destruct Hb as (n & Hb).
  destruct (Hn n b Hb) as (rb & nx & Hrb & _ & Hr & E). subst b. simpl in *.
  destruct (raw_next_spec _ _ _ _ _ Hr) as (_ & inx & tbs & Hinx & Hmap & Enx). subst nx.
  set (e := last (rb_ins rb) 0) in *.
  destruct (following_block p bs n rb Hc' Hp Hrb Hlt) as (rb' & Hrb' & Hin').
  destruct (consecutive_spec p bs n rb rb' Hc' Hrb Hrb') as (_ & _ & i & Hopi & Hd).
  fold e in Hopi, Hin'.
  assert (Hi : no_fallthrough i = false /\ jump_labels i = [l]).
  { destruct Hop as [Hop|Hop]; rewrite Hop in Hopi; inversion Hopi; subst i; split; reflexivity. }
  destruct Hi as [Hf Hj].
  rewrite Hf in Hd. simpl in Hd.
  destruct (ins_next_fall p e i inx Hopi Hf Hlt Hinx) as (js & Hjs & Ei).
  rewrite Hj in Hjs. simpl in Hjs. rewrite Hfl in Hjs. inversion Hjs; subst js. subst inx.
  simpl in Hmap.
  rewrite (block_lookup p bs (S n) rb' (S e) Hc' Hp Hrb' Hin') in Hmap.
  destruct (block_of_pos bs t 0) as [tb|] eqn:Etb; [|discriminate].
  inversion Hmap; subst tbs. exists tb. split; [reflexivity|].
  rewrite Hd. unfold add_new, nat_mem. simpl. rewrite Nat.eqb_refl. simpl.
  rewrite orb_false_r. destruct (tb =? S n); reflexivity.
Qed.

Print Assumptions next_meaning.
Print Assumptions cond_branch_order.

(* ------------------------------------------------------------------ lookup on the final block list *)
Lemma bb_of_pos_gen k (prevf : nat -> list nat) : forall bs nexts n0,
  length nexts = length bs ->
  option_map b_idx
    (find (fun b => nat_mem k (b_ins b))
          (map (fun '(n, (b, nx)) => mkBlock n (rb_ins b) nx (prevf n))
               (combine (seq n0 (length bs)) (combine bs nexts)))) =
  block_of_pos bs k n0.
Proof.
  induction bs as [|a bs IH]; intros nexts n0 Hl; [reflexivity|].
  destruct nexts as [|nx nexts]; [discriminate|]. simpl in Hl. inversion Hl.
  simpl. unfold nat_mem at 1. destruct (existsb (Nat.eqb k) (rb_ins a)); [reflexivity|].
  apply IH. assumption.
Qed.

Lemma bb_of_pos_block_of_pos p blocks bs k :
  build_blocks p = Some blocks -> create_bb p = Some bs ->
  bb_of_pos blocks k = block_of_pos bs k 0.
Proof.
  unfold build_blocks. intros H Hc. rewrite Hc in H.
  destruct (raw_nexts p bs bs 0) as [nexts|] eqn:Er; [|discriminate].
  inversion H; subst blocks. unfold bb_of_pos.
  apply bb_of_pos_gen. apply (raw_nexts_spec _ _ _ _ _ Er).
Qed.

(* 5e phrased on the final block list only *)
Corollary next_meaning_blocks p blocks b m :
  build_blocks p = Some blocks -> In b blocks ->
  (In m (b_next b) <->
   exists nx k, ins_next p (last (b_ins b) 0) = Some nx /\ In k nx /\ bb_of_pos blocks k = Some m).
Proof.
  intros H Hb. destruct (build_blocks_spec p blocks H) as (bs & _ & Hc & _).
  rewrite (next_meaning p blocks bs b m H Hc Hb).
  split; intros (nx & k & H1 & H2 & H3); exists nx, k; split; auto; split; auto.
  - rewrite (bb_of_pos_block_of_pos p blocks bs k H Hc). assumption.
  - rewrite <- (bb_of_pos_block_of_pos p blocks bs k H Hc). assumption.
Qed.

Print Assumptions next_meaning_blocks.

(* ------------------------------------------------------------------ non-vacuity check *)
Example sample_prog : prog :=
  [ mkIns 1 (IInt (IANum 1)); mkIns 2 (IBZ "l"%string); mkIns 3 (IInt (IANum 2));
    mkIns 4 (ILabel "l"%string); mkIns 5 IReturn ].
Example sample_blocks :
  build_blocks sample_prog =
  Some [ mkBlock 0 [0; 1] [1; 2] []; mkBlock 1 [2] [2] [0]; mkBlock 2 [3; 4] [] [1; 0] ].
Proof. vm_compute. reflexivity. Qed.
